#!/bin/sh
# regenerates _CoqProject and Makefile from the files present (full .vo build, never -vos)
cd "$(dirname "$0")"
{
  echo "-R . NeatModel"
  echo "-arg -w -arg -notation-overridden,-deprecated-hint-without-locality,-deprecated-instance-without-locality"
  for d in base model gen cases proofs props; do
    ls $d/*.v 2>/dev/null
  done
} > _CoqProject
coq_makefile -f _CoqProject -o Makefile >/dev/null
