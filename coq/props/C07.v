(* C07 — compatibility distance equals the NEAT formula under both methods.
   Property theorems only; proofs live in proofs/CompatSpec.v.

   A genome is its gene list [(innovation number, mutation number)], strictly ascending innovation
   numbers.  compat_linear / compat_fast / compatibility are the transliterations of model/Compat.v,
   here at the real-number instance R_num.  Vocabulary (proofs/CompatSpec.v, all declarative):
     is_excess other g   g's number is above every number of [other] (all genes when [other] is empty)
     is_disjoint other g g's number does not occur in [other] and some number of [other] is above it
     count f l           number of elements of l satisfying f
     M l1 l2             number of pairs (g1, g2) of l1 x l2 with the same innovation number
     mutdiff_sum l1 l2   sum of |mutation number 1 - mutation number 2| over those pairs *)
From NeatModel Require Import Res F64 Compat CompatSpec.
From Coq Require Import Reals Sorted.
Local Open Scope R_scope.

(* the vocabulary means what its names say *)
Theorem C07_excess_meaning : forall (other : list (Z * R)) (g : Z * R),
    is_excess other g = true <-> (forall n, In n (map fst other) -> (n < fst g)%Z).
Proof. exact is_excess_iff. Qed.
Print Assumptions C07_excess_meaning.

Theorem C07_disjoint_meaning : forall (other : list (Z * R)) (g : Z * R),
    is_disjoint other g = true <->
    ~ In (fst g) (map fst other) /\ exists n, In n (map fst other) /\ (fst g < n)%Z.
Proof. exact is_disjoint_iff. Qed.
Print Assumptions C07_disjoint_meaning.

Theorem C07_matching_count : forall l1 l2 : list (Z * R),
    Sorted Z.lt (map fst l2) ->
    M l1 l2 = count (fun g => existsb (Z.eqb (fst g)) (map fst l2)) l1.
Proof. intros l1 l2 H2. exact (M_counts_matching l1 l2 (asc_of_sorted l2 H2)). Qed.
Print Assumptions C07_matching_count.

(* the fast method (backward walk with the excess/disjoint switch) computes the formula *)
Theorem C07_fast_formula : forall (dc ec mc : R) (l1 l2 : list (Z * R)),
    Sorted Z.lt (map fst l1) -> Sorted Z.lt (map fst l2) ->
    compat_fast R_num dc ec mc l1 l2 =
    Ok (ec * IZR (count (is_excess l2) l1 + count (is_excess l1) l2)
        + dc * IZR (count (is_disjoint l2) l1 + count (is_disjoint l1) l2)
        + mc * (if Z.eqb (M l1 l2) 0 then 0 else mutdiff_sum l1 l2 / IZR (M l1 l2))).
Proof. intros dc ec mc l1 l2 H1 H2. exact (fast_formula dc ec mc l1 l2 (asc_of_sorted l1 H1) (asc_of_sorted l2 H2)). Qed.
Print Assumptions C07_fast_formula.

(* the linear method (forward merge walk) computes the formula *)
Theorem C07_linear_formula : forall (dc ec mc : R) (l1 l2 : list (Z * R)),
    Sorted Z.lt (map fst l1) -> Sorted Z.lt (map fst l2) ->
    compat_linear R_num dc ec mc l1 l2 =
    Ok (ec * IZR (count (is_excess l2) l1 + count (is_excess l1) l2)
        + dc * IZR (count (is_disjoint l2) l1 + count (is_disjoint l1) l2)
        + mc * (if Z.eqb (M l1 l2) 0 then 0 else mutdiff_sum l1 l2 / IZR (M l1 l2))).
Proof. intros dc ec mc l1 l2 H1 H2. exact (linear_formula dc ec mc l1 l2 (asc_of_sorted l1 H1) (asc_of_sorted l2 H2)). Qed.
Print Assumptions C07_linear_formula.

(* the two selectable methods return the same value *)
Theorem C07_fast_eq_linear : forall (dc ec mc : R) (l1 l2 : list (Z * R)),
    Sorted Z.lt (map fst l1) -> Sorted Z.lt (map fst l2) ->
    compat_fast R_num dc ec mc l1 l2 = compat_linear R_num dc ec mc l1 l2.
Proof. intros dc ec mc l1 l2 H1 H2. exact (fast_eq_linear dc ec mc l1 l2 (asc_of_sorted l1 H1) (asc_of_sorted l2 H2)). Qed.
Print Assumptions C07_fast_eq_linear.

(* symmetric in its arguments, under either method *)
Theorem C07_compat_sym : forall (linear : bool) (dc ec mc : R) (l1 l2 : list (Z * R)),
    Sorted Z.lt (map fst l1) -> Sorted Z.lt (map fst l2) ->
    compatibility R_num linear dc ec mc l1 l2 = compatibility R_num linear dc ec mc l2 l1.
Proof. intros lin dc ec mc l1 l2 H1 H2. exact (compat_sym lin dc ec mc l1 l2 (asc_of_sorted l1 H1) (asc_of_sorted l2 H2)). Qed.
Print Assumptions C07_compat_sym.

(* zero for a genome against itself ... *)
Theorem C07_compat_self_zero : forall (linear : bool) (dc ec mc : R) (l : list (Z * R)),
    Sorted Z.lt (map fst l) -> compatibility R_num linear dc ec mc l l = Ok 0.
Proof. intros lin dc ec mc l H. exact (compat_self_zero lin dc ec mc l (asc_of_sorted l H)). Qed.
Print Assumptions C07_compat_self_zero.

(* ... and against its duplicate (same innovation numbers, same mutation numbers) *)
Theorem C07_compat_dup_zero : forall (linear : bool) (dc ec mc : R) (l l' : list (Z * R)),
    Sorted Z.lt (map fst l) -> map fst l' = map fst l -> map snd l' = map snd l ->
    compatibility R_num linear dc ec mc l l' = Ok 0.
Proof.
  intros lin dc ec mc l l' H E1 E2. rewrite (dup_same_list l l' E1 E2).
  exact (compat_self_zero lin dc ec mc l (asc_of_sorted l H)).
Qed.
Print Assumptions C07_compat_dup_zero.

(* never negative for non-negative coefficients *)
Theorem C07_compat_nonneg : forall (linear : bool) (dc ec mc : R) (l1 l2 : list (Z * R)),
    Sorted Z.lt (map fst l1) -> Sorted Z.lt (map fst l2) -> 0 <= dc -> 0 <= ec -> 0 <= mc ->
    exists v, compatibility R_num linear dc ec mc l1 l2 = Ok v /\ 0 <= v.
Proof.
  intros lin dc ec mc l1 l2 H1 H2. exact (compat_nonneg lin dc ec mc l1 l2 (asc_of_sorted l1 H1) (asc_of_sorted l2 H2)).
Qed.
Print Assumptions C07_compat_nonneg.

(* "never NaN" at model level: the guarded division never meets a zero denominator, for any two
   gene lists whatsoever (sorted or not, empty or not, matching or not) and any coefficients *)
Theorem C07_no_div_by_zero : forall (linear : bool) (dc ec mc : R) (l1 l2 : list (Z * R)),
    exists v, compatibility R_num linear dc ec mc l1 l2 = Ok v.
Proof. exact no_div_by_zero. Qed.
Print Assumptions C07_no_div_by_zero.

(* non-vacuity.  The pre-fix witnesses of known_findings.txt: [1,3] vs [2,4] (no matching gene,
   interleaved) has E = 1, D = 3; [1,2,5,6] vs [1,3] has E = 2, D = 2, one matching pair;
   the float instance returns 4 resp. 4.4 under both methods, as the repaired Go code does. *)
Example C07_example_counts :
  let a : list (Z * R) := [(1%Z, 0); (3%Z, 0)] in let b : list (Z * R) := [(2%Z, 0); (4%Z, 0)] in
  let c : list (Z * R) := [(1%Z, 0); (2%Z, 0); (5%Z, 0); (6%Z, 0)] in let d : list (Z * R) := [(1%Z, 0); (3%Z, 0)] in
  (count (is_excess b) a + count (is_excess a) b = 1)%Z /\
  (count (is_disjoint b) a + count (is_disjoint a) b = 3)%Z /\ M a b = 0%Z /\
  (count (is_excess d) c + count (is_excess c) d = 2)%Z /\
  (count (is_disjoint d) c + count (is_disjoint c) d = 2)%Z /\ M c d = 1%Z.
Proof. vm_compute. repeat split; reflexivity. Qed.

Example C07_example_float :
  let a := [(1%Z, 1.5%float); (3%Z, (-0x1p-1)%float)] in let b := [(2%Z, 0%float); (4%Z, 1%float)] in
  let c := [(1%Z, 1%float); (2%Z, 1%float); (5%Z, 1%float); (6%Z, 1%float)] in
  let d := [(1%Z, 2%float); (3%Z, 1%float)] in
  compatibility float_num true 1%float 1%float 0x1.999999999999ap-2%float a b = Ok 4%float /\
  compatibility float_num false 1%float 1%float 0x1.999999999999ap-2%float a b = Ok 4%float /\
  compatibility float_num true 1%float 1%float 0x1.999999999999ap-2%float c d = Ok 0x1.199999999999ap+2%float /\
  compatibility float_num false 1%float 1%float 0x1.999999999999ap-2%float d c = Ok 0x1.199999999999ap+2%float.
Proof. vm_compute. repeat split; reflexivity. Qed.

(* ============================================================================================ *)
(* ==== added by agent "actbodies" (C07/C08: the distance tied to the source by translation) ==== *)
(* ============================================================================================ *)
(* gen/CompatBodies.v is regenerated on every run from the BODIES of Genome.compatLinear and     *)
(* Genome.compatFast in neat/genetics/genome_compatibility.go: [gen_compat_linear] and            *)
(* [gen_compat_fast], over the two gene lists (InnovationNum, MutationNum) and the three           *)
(* coefficients.  Slice indexing and pointer dereference are explicit panics there, the index      *)
(* loops are fuel-bounded recursions ([OutOfFuel] when exhausted).  The binary64 instance of the   *)
(* model functions (the ones run against Go, and whose real-number instance the theorems above     *)
(* are about: same polymorphic definition) returns exactly what the translated code returns: the   *)
(* fuel suffices, no index is out of range, no nil pointer is dereferenced, for gene lists of any  *)
(* length and any content (unsorted, duplicate numbers, NaN mutation numbers included).            *)
(* For compatFast the model divides by float64(numMatching) behind a guard ([DivByZero]); the      *)
(* guard cannot fire for a Go slice (length below 2^63), which is the one hypothesis below.        *)
(* ============================================================================================ *)
From NeatModel Require GoSlice CompatBodies CompatBodiesAgree.
Local Close Scope R_scope.

Theorem C07_model_is_the_translated_source :
  (forall (dc ec mc : float) (a b : list (Z * float)),
     CompatBodies.gen_compat_linear dc ec mc a b = compat_linear float_num dc ec mc a b) /\
  (forall (dc ec mc : float) (a b : list (Z * float)),
     compat_fast float_num dc ec mc a b = DivByZero \/
     CompatBodies.gen_compat_fast dc ec mc a b = compat_fast float_num dc ec mc a b) /\
  (forall (dc ec mc : float) (a b : list (Z * float)),
     (Z.of_nat (length a) < 2 ^ 63)%Z ->
     CompatBodies.gen_compat_fast dc ec mc a b = compat_fast float_num dc ec mc a b) /\
  (forall (linear : bool) (dc ec mc : float) (a b : list (Z * float)),
     (Z.of_nat (length a) < 2 ^ 63)%Z ->
     (if linear then CompatBodies.gen_compat_linear dc ec mc a b else CompatBodies.gen_compat_fast dc ec mc a b) =
     Ok (compat_float linear dc ec mc a b)).
Proof.
  exact (conj CompatBodiesAgree.gen_compat_linear_agrees
        (conj CompatBodiesAgree.gen_compat_fast_agrees_or_guard
        (conj CompatBodiesAgree.gen_compat_fast_agrees CompatBodiesAgree.gen_compat_returns_compat_float))).
Qed.
Print Assumptions C07_model_is_the_translated_source.

(* the translated code on the witnesses of C07_example_float, and its panic / fuel values are real values:
   an index loop started outside the slice panics, a loop given too little fuel says so *)
Example C07_example_translated :
  let a := [(1%Z, 1.5%float); (3%Z, (-0x1p-1)%float)] in let b := [(2%Z, 0%float); (4%Z, 1%float)] in
  let c := [(1%Z, 1%float); (2%Z, 1%float); (5%Z, 1%float); (6%Z, 1%float)] in
  let d := [(1%Z, 2%float); (3%Z, 1%float)] in
  CompatBodies.gen_compat_linear 1%float 1%float 0x1.999999999999ap-2%float a b = Ok 4%float /\
  CompatBodies.gen_compat_fast 1%float 1%float 0x1.999999999999ap-2%float a b = Ok 4%float /\
  CompatBodies.gen_compat_linear 1%float 1%float 0x1.999999999999ap-2%float c d = Ok 0x1.199999999999ap+2%float /\
  CompatBodies.gen_compat_fast 1%float 1%float 0x1.999999999999ap-2%float d c = Ok 0x1.199999999999ap+2%float /\
  GoSlice.go_index a 2%Z = GoPanic GoSlice.panic_index_out_of_range /\
  GoSlice.go_index a (-1)%Z = GoPanic GoSlice.panic_index_out_of_range /\
  CompatBodies.gen_compat_linear_loop1 1%float 1%float 1%float c d 4%Z 2%Z 3%nat
    (0%Z, 0%Z, 0%float, None, None, 0%float, 0%float, 0%float) = OutOfFuel.
Proof. vm_compute. repeat split; reflexivity. Qed.
