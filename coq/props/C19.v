(* C19 — result statistics equal their definitions.
   Property theorems only; proofs live in proofs/StatsSpec.v, StatsQuantile.v, StatsTotal.v, StatsFloatTotal.v,
   ExperSpec.v, ExperBest.v, ExperFill.v.

   Vocabulary.  [xnum] is the number structure "real numbers plus one not-a-number value"
   ([xr] = option R, None = NaN; x/0 and sqrt of a negative are None, comparisons with None are
   false); [inj xs] is a series of real numbers; [fnum] is binary64.  The statistics F_min ...
   F_q75 are the model of experiment.Floats (model/Stats.v) and [al] is the 16-byte alignment
   bit that gonum's assembly Sum reads.  [sumR] is the sum of a list of reals, [count_le q xs]
   the number of elements of xs that are <= q.  Over [xr] a result [Ok (Some v)] is the real
   number v, [Ok None] is NaN and [GoPanic _] a panic. *)
From Coq Require Import List ZArith Bool Floats Reals Permutation.
From NeatModel Require Import Res Stats Exper StatsSpec StatsQuantile StatsTotal ExperSpec ExperBest ExperFill StatsFloatTotal.
Import ListNotations.
Open Scope R_scope.

(* ================= statistics: non-empty series equal the textbook definitions ================= *)

Theorem C19_min_is_least_element : forall xs, xs <> [] ->
  exists m, F_min xnum (inj xs) = Ok (Some m) /\ In m xs /\ forall y, In y xs -> m <= y.
Proof. exact min_spec. Qed.
Print Assumptions C19_min_is_least_element.

Theorem C19_max_is_greatest_element : forall xs, xs <> [] ->
  exists m, F_max xnum (inj xs) = Ok (Some m) /\ In m xs /\ forall y, In y xs -> y <= m.
Proof. exact max_spec. Qed.
Print Assumptions C19_max_is_greatest_element.

(* also covers the empty series: its sum is 0 *)
Theorem C19_sum_is_sum : forall al xs, F_sum xnum al (inj xs) = Some (sumR xs).
Proof. exact sum_spec. Qed.
Print Assumptions C19_sum_is_sum.

Theorem C19_mean_is_sum_over_n : forall al xs, xs <> [] ->
  F_mean xnum al (inj xs) = Some (sumR xs / INR (length xs)).
Proof. exact mean_spec. Qed.
Print Assumptions C19_mean_is_sum_over_n.

(* unbiased sample variance, n - 1 in the denominator *)
Theorem C19_variance_is_unbiased_sample_variance : forall al xs, (2 <= length xs)%nat ->
  F_variance xnum al (inj xs) =
  Some (sumR (map (fun x => (x - sumR xs / INR (length xs)) * (x - sumR xs / INR (length xs))) xs)
        / (INR (length xs) - 1)).
Proof. exact variance_spec. Qed.
Print Assumptions C19_variance_is_unbiased_sample_variance.

Theorem C19_mean_variance_is_the_pair : forall al xs, (2 <= length xs)%nat ->
  F_mean_variance xnum al (inj xs) =
  (Some (sumR xs / INR (length xs)),
   Some (sumR (map (fun x => (x - sumR xs / INR (length xs)) * (x - sumR xs / INR (length xs))) xs)
         / (INR (length xs) - 1))).
Proof. exact mean_variance_spec. Qed.
Print Assumptions C19_mean_variance_is_the_pair.

Theorem C19_stddev_is_sqrt_of_variance : forall al xs, (2 <= length xs)%nat ->
  F_stddev xnum al (inj xs) =
  Some (sqrt (sumR (map (fun x => (x - sumR xs / INR (length xs)) * (x - sumR xs / INR (length xs))) xs)
              / (INR (length xs) - 1))).
Proof. exact stddev_spec. Qed.
Print Assumptions C19_stddev_is_sqrt_of_variance.

(* one element: the unbiased estimator is 0/0 *)
Theorem C19_single_element_variance_is_nan : forall al x,
  F_variance xnum al (inj [x]) = None /\ F_stddev xnum al (inj [x]) = None.
Proof. intros al x. exact (conj (variance_single al x) (stddev_single al x)). Qed.
Print Assumptions C19_single_element_variance_is_nan.

(* the empirical quantile: the least element whose empirical distribution function is >= p *)
Theorem C19_median_is_empirical_quantile : forall xs, xs <> [] ->
  exists q, F_median xnum (inj xs) = Ok (Some q) /\ In q xs /\
            1 / 2 <= INR (count_le q xs) / INR (length xs) /\
            forall y, In y xs -> 1 / 2 <= INR (count_le y xs) / INR (length xs) -> q <= y.
Proof. exact median_spec. Qed.
Print Assumptions C19_median_is_empirical_quantile.

Theorem C19_q25_is_empirical_quantile : forall xs, xs <> [] ->
  exists q, F_q25 xnum (inj xs) = Ok (Some q) /\ In q xs /\
            1 / 4 <= INR (count_le q xs) / INR (length xs) /\
            forall y, In y xs -> 1 / 4 <= INR (count_le y xs) / INR (length xs) -> q <= y.
Proof. exact q25_spec. Qed.
Print Assumptions C19_q25_is_empirical_quantile.

Theorem C19_q75_is_empirical_quantile : forall xs, xs <> [] ->
  exists q, F_q75 xnum (inj xs) = Ok (Some q) /\ In q xs /\
            3 / 4 <= INR (count_le q xs) / INR (length xs) /\
            forall y, In y xs -> 3 / 4 <= INR (count_le y xs) / INR (length xs) -> q <= y.
Proof. exact q75_spec. Qed.
Print Assumptions C19_q75_is_empirical_quantile.

(* ================= regardless of element order ================= *)

Theorem C19_order_independent : forall al al' xs ys, Permutation xs ys ->
  F_min xnum (inj xs) = F_min xnum (inj ys) /\
  F_max xnum (inj xs) = F_max xnum (inj ys) /\
  F_sum xnum al (inj xs) = F_sum xnum al' (inj ys) /\
  F_mean xnum al (inj xs) = F_mean xnum al' (inj ys) /\
  F_variance xnum al (inj xs) = F_variance xnum al' (inj ys) /\
  F_stddev xnum al (inj xs) = F_stddev xnum al' (inj ys) /\
  F_median xnum (inj xs) = F_median xnum (inj ys) /\
  F_q25 xnum (inj xs) = F_q25 xnum (inj ys) /\
  F_q75 xnum (inj xs) = F_q75 xnum (inj ys).
Proof.
  intros al al' xs ys H.
  exact (conj (min_perm xs ys H) (conj (max_perm xs ys H) (conj (sum_perm al al' xs ys H)
        (conj (mean_perm al al' xs ys H) (conj (variance_perm al al' xs ys H)
        (conj (stddev_perm al al' xs ys H) (conj (median_perm xs ys H)
        (conj (q25_perm xs ys H) (q75_perm xs ys H))))))))).
Qed.
Print Assumptions C19_order_independent.

(* ================= empty series: NaN, 0 for the sum ================= *)

Theorem C19_empty_series : forall al,
  F_min xnum [] = Ok None /\ F_max xnum [] = Ok None /\ F_sum xnum al [] = Some 0 /\
  F_mean xnum al [] = None /\ F_mean_variance xnum al [] = (None, None) /\
  F_variance xnum al [] = None /\ F_stddev xnum al [] = None /\
  F_median xnum [] = Ok None /\ F_q25 xnum [] = Ok None /\ F_q75 xnum [] = Ok None.
Proof. intros al. repeat split. Qed.
Print Assumptions C19_empty_series.

(* the same on the binary64 instance, where NaN is the float NaN *)
Theorem C19_empty_series_float : forall al,
  F_min fnum [] = Ok PrimFloat.nan /\ F_max fnum [] = Ok PrimFloat.nan /\ F_sum fnum al [] = PrimFloat.zero /\
  F_mean fnum al [] = PrimFloat.nan /\ F_mean_variance fnum al [] = (PrimFloat.nan, PrimFloat.nan) /\
  F_variance fnum al [] = PrimFloat.nan /\ F_stddev fnum al [] = PrimFloat.nan /\
  F_median fnum [] = Ok PrimFloat.nan /\ F_q25 fnum [] = Ok PrimFloat.nan /\ F_q75 fnum [] = Ok PrimFloat.nan.
Proof. intros al. repeat split. Qed.
Print Assumptions C19_empty_series_float.

(* ================= never panic ================= *)

(* every series over the reals-with-NaN, NaN elements included, any length, any order: the five
   statistics with a panic path in gonum return a value (Sum, Mean, Variance, StdDev have no
   panic path: their model is a total function without a GoPanic constructor) *)
Theorem C19_never_panics : forall l : list xr,
  (exists v, F_min xnum l = Ok v) /\ (exists v, F_max xnum l = Ok v) /\
  (exists v, F_median xnum l = Ok v) /\ (exists v, F_q25 xnum l = Ok v) /\ (exists v, F_q75 xnum l = Ok v).
Proof. exact x_never_panics. Qed.
Print Assumptions C19_never_panics.

(* binary64, every series of floats (NaN, infinities, signed zeros included) shorter than 2^53
   elements: none of the five statistics panics.  The length hypothesis is needed: counting
   cumsum++ in binary64 stops at 2^53, so for a (physically impossible) series of more than 2^54
   elements gonum's empiricalQuantile would reach its panic("impossible"). *)
Theorem C19_never_panics_float : forall l : list float, (Z.of_nat (length l) < 2 ^ 53)%Z ->
  (exists v, F_min fnum l = Ok v) /\ (exists v, F_max fnum l = Ok v) /\
  (exists v, F_median fnum l = Ok v) /\ (exists v, F_q25 fnum l = Ok v) /\ (exists v, F_q75 fnum l = Ok v).
Proof.
  intros l Hl. exact (conj (min_total fnum l) (conj (max_total fnum l) (f_quantiles_total l Hl))).
Qed.
Print Assumptions C19_never_panics_float.

(* binary64, any length: Min/Max never panic; the quantiles never panic with "x data are not
   sorted" (what 8399ba2 repaired), "percentile out of bounds", "zero length" or an index error *)
Theorem C19_never_sort_panic_float_any_length : forall l : list float,
  (exists v, F_min fnum l = Ok v) /\ (exists v, F_max fnum l = Ok v) /\
  ((exists v, F_median fnum l = Ok v) \/ F_median fnum l = GoPanic panic_impossible) /\
  ((exists v, F_q25 fnum l = Ok v) \/ F_q25 fnum l = GoPanic panic_impossible) /\
  ((exists v, F_q75 fnum l = Ok v) \/ F_q75 fnum l = GoPanic panic_impossible).
Proof. exact f_never_panics. Qed.
Print Assumptions C19_never_sort_panic_float_any_length.

(* the sorted copy is what makes the quantiles total: for any number structure with an
   asymmetric "<" that is false on NaN it passes stat.Quantile's sortedness test *)
Theorem C19_sorted_copy_passes_sortedness_test : forall (F : Type) (N : num F),
  (forall x y, n_ltb N x y = true -> n_ltb N y x = false) ->
  (forall x y, n_isnan N x = true -> n_ltb N x y = false) ->
  (forall x y, n_isnan N y = true -> n_ltb N x y = false) ->
  forall l, are_sorted N (F_sorted N l) = true.
Proof. exact @sorted_copy_is_sorted. Qed.
Print Assumptions C19_sorted_copy_passes_sortedness_test.

(* ================= aggregates equal their recomputation from the generations ================= *)
Open Scope Z_scope.

(* any number structure: these are counting / selection statements *)
Theorem C19_trial_solved : forall F (t : @trial F),
  t_solved t = existsb g_solved (t_gens t).
Proof. exact @t_solved_spec. Qed.
Print Assumptions C19_trial_solved.

Theorem C19_trials_solved_counts_solved_trials : forall F (e : list (@trial F)),
  e_trials_solved e = Z.of_nat (length (filter (fun t => existsb g_solved (t_gens t)) e)) /\
  e_solved e = existsb (fun t => existsb g_solved (t_gens t)) e.
Proof. intros F e. exact (conj (e_trials_solved_spec e) (e_solved_spec e)). Qed.
Print Assumptions C19_trials_solved_counts_solved_trials.

Theorem C19_trial_series : forall F (N : num F) (t : @trial F),
  t_champions_fitness N t =
    map (fun g => match g_champ g with Some o => o_fitness o | None => n_zero N end) (t_gens t) /\
  t_champion_species_ages N t =
    map (fun g => match g_champ g with
                  | Some o => match o_age o with Some a => n_ofZ N a | None => n_zero N end
                  | None => n_zero N
                  end) (t_gens t) /\
  t_champions_complexities N t =
    map (fun g => match g_champ g with
                  | Some o => if o_cplx o =? max_int then n_zero N else n_ofZ N (o_cplx o)
                  | None => n_zero N
                  end) (t_gens t) /\
  t_diversity N t = map (fun g => n_ofZ N (g_diversity g)) (t_gens t) /\
  t_average N t = (map (fun g => F_mean N true (g_fitness g)) (t_gens t),
                   map (fun g => F_mean N true (g_age g)) (t_gens t),
                   map (fun g => F_mean N true (g_complexity g)) (t_gens t)).
Proof.
  intros F N t.
  exact (conj (t_champions_fitness_spec N t) (conj (t_champion_species_ages_spec N t)
        (conj (t_champions_complexities_spec N t) (conj (t_diversity_spec N t) (t_average_spec N t))))).
Qed.
Print Assumptions C19_trial_series.

Theorem C19_epochs_per_trial : forall F (N : num F) (e : list (@trial F)),
  e_epochs_per_trial N e = map (fun t => n_ofZ N (Z.of_nat (length (t_gens t)))) e.
Proof. exact @e_epochs_per_trial_spec. Qed.
Print Assumptions C19_epochs_per_trial.

(* winner statistics: the record of the first solved generation; zeros for an unsolved trial;
   -1 for a trial without generations.  The cached *WinnerGeneration must be nil or what
   WinnerStatistics itself stores (nothing else in the library writes it). *)
Theorem C19_winner_statistics : forall F (t : @trial F),
  t_winner t = None \/ t_winner t = find g_solved (t_gens t) ->
  fst (t_winner_statistics t) =
  match find g_solved (t_gens t) with
  | Some g => (g_wnodes g, g_wgenes g, g_wevals g, g_diversity g)
  | None => match t_gens t with [] => (-1, -1, -1, -1) | _ => (0, 0, 0, 0) end
  end.
Proof. exact @t_winner_statistics_spec. Qed.
Print Assumptions C19_winner_statistics.

(* durations: integer means truncated toward zero, EmptyDuration (-1) for nothing to average *)
Theorem C19_average_durations : forall F (e : list (@trial F)),
  e_avg_trial_duration e =
    match map t_duration e with [] => -1 | ds => Z.quot (sumZ ds) (Z.of_nat (length ds)) end /\
  e_avg_epoch_duration e =
    match map (fun t => match map g_duration (t_gens t) with
                        | [] => -1 | ds => Z.quot (sumZ ds) (Z.of_nat (length ds)) end) e with
    | [] => -1 | ds => Z.quot (sumZ ds) (Z.of_nat (length ds)) end.
Proof. intros F e. exact (conj (e_avg_trial_duration_spec e) (e_avg_epoch_duration_spec e)). Qed.
Print Assumptions C19_average_durations.

(* over the reals *)
Open Scope R_scope.

Theorem C19_success_rate : forall e : list (@trial xr),
  e_success_rate xnum e =
  match e with
  | [] => Some 0
  | _ => Some (IZR (Z.of_nat (length (filter (fun t => existsb g_solved (t_gens t)) e)))
               / IZR (Z.of_nat (length e)))
  end.
Proof. exact e_success_rate_spec. Qed.
Print Assumptions C19_success_rate.

Theorem C19_avg_generations_per_trial : forall e : list (@trial xr),
  e_avg_generations_per_trial xnum e =
  match e with
  | [] => Some 0
  | _ => Some (IZR (sumZ (map (fun t => Z.of_nat (length (t_gens t))) e)) / IZR (Z.of_nat (length e)))
  end.
Proof. exact e_avg_generations_per_trial_spec. Qed.
Print Assumptions C19_avg_generations_per_trial.

Theorem C19_avg_diversity : forall e : list (@trial xr),
  e_avg_diversity xnum e =
  map (fun t => match t_gens t with
                | [] => None
                | gs => Some (IZR (sumZ (map g_diversity gs)) / IZR (Z.of_nat (length gs)))
                end) e.
Proof. exact e_avg_diversity_real. Qed.
Print Assumptions C19_avg_diversity.

(* mean over the first solved generation of the solved trials; -1 if there is none *)
Theorem C19_avg_winner_statistics : forall e : list (@trial xr),
  Forall (fun t => t_winner t = None \/ t_winner t = find g_solved (t_gens t)) e ->
  e_avg_winner_statistics xnum e =
  match map (fun t => match find g_solved (t_gens t) with
                      | Some g => (g_wnodes g, g_wgenes g, g_wevals g, g_diversity g)
                      | None => match t_gens t with [] => (-1, -1, -1, -1)%Z | _ => (0, 0, 0, 0)%Z end
                      end)
            (filter (fun t => existsb g_solved (t_gens t)) e) with
  | [] => (Some (-1), Some (-1), Some (-1), Some (-1))
  | ws => let c := IZR (Z.of_nat (length ws)) in
          (Some (IZR (sumZ (map proj1of4 ws)) / c), Some (IZR (sumZ (map proj2of4 ws)) / c),
           Some (IZR (sumZ (map proj3of4 ws)) / c), Some (IZR (sumZ (map proj4of4 ws)) / c))
  end.
Proof. exact e_avg_winner_statistics_spec. Qed.
Print Assumptions C19_avg_winner_statistics.

(* Generation.Average: the mean of each recorded series, NaN for an empty one *)
Theorem C19_generation_average : forall (fs az cs : list R) (g : @generation xr),
  g_fitness g = inj fs -> g_age g = inj az -> g_complexity g = inj cs ->
  g_average xnum g =
  (match fs with [] => None | _ => Some (sumR fs / INR (length fs)) end,
   match az with [] => None | _ => Some (sumR az / INR (length az)) end,
   match cs with [] => None | _ => Some (sumR cs / INR (length cs)) end).
Proof. exact g_average_real. Qed.
Print Assumptions C19_generation_average.

(* Generation.FillPopulationStatistics: per species its age and the fitness / complexity of a best
   organism; for a generation not yet solved the champion is a best organism over all species
   (left as it was when no fitness exceeds float64(math.MinInt64), the starting value of the
   running maximum); for every valid outcome of the sorts *)
Theorem C19_fill_population_statistics : forall solved champ0 (ss : list (@species xr)) ks d ages cplx fits c,
  Forall (fun s => Forall (fun o => exists f h, o_fitness o = Some f /\ o_hfit o = Some h) (s_orgs s)) ss ->
  g_fill xnum solved champ0 ss ks = Ok (d, (ages, cplx, fits, c)) ->
  d = Z.of_nat (length ss) /\
  exists bs,
    Forall2 (fun s b => In b (s_orgs s) /\ forall o', In o' (s_orgs s) -> fitR o' <= fitR b) ss bs /\
    ages = map (fun s => Some (IZR (s_age s))) ss /\
    cplx = map (fun b => Some (IZR (o_cplx b))) bs /\
    fits = map (fun b => o_fitness b) bs /\
    (solved = true -> c = champ0) /\
    (solved = false ->
       (c = champ0 /\ forall b, In b bs -> fitR b <= IZR min_int64) \/
       (exists b, c = Some b /\ In b bs /\ IZR min_int64 < fitR b /\ forall b', In b' bs -> fitR b' <= fitR b)).
Proof. exact g_fill_spec. Qed.
Print Assumptions C19_fill_population_statistics.

(* BestOrganism of a trial: for EVERY outcome of the unspecified sort.Sort that the model accepts
   (oracle k), the result is one of the candidate champions (all generations, or the solved ones)
   and no candidate has a larger fitness; and some outcome is always accepted. *)
Theorem C19_trial_best_organism : forall only (t : @trial xr) k o,
  Forall (fun g => match g_champ g with
                   | Some o => exists f h, o_fitness o = Some f /\ o_hfit o = Some h
                   | None => True end) (t_gens t) ->
  t_best_organism xnum only t k = Ok (Some (Some o)) ->
  In (Some o) (map g_champ (filter (fun g => negb only || g_solved g) (t_gens t))) /\
  forall o', In (Some o') (map g_champ (filter (fun g => negb only || g_solved g) (t_gens t))) ->
             fitR o' <= fitR o.
Proof. exact t_best_organism_max. Qed.
Print Assumptions C19_trial_best_organism.

Theorem C19_trial_best_organism_exists : forall only (t : @trial xr),
  Forall (fun g => match g_champ g with
                   | Some o => exists f h, o_fitness o = Some f /\ o_hfit o = Some h
                   | None => True end) (t_gens t) ->
  map g_champ (filter (fun g => negb only || g_solved g) (t_gens t)) <> [] ->
  ~ In None (map g_champ (filter (fun g => negb only || g_solved g) (t_gens t))) ->
  exists k o, t_best_organism xnum only t k = Ok (Some (Some o)).
Proof. exact t_best_organism_exists. Qed.
Print Assumptions C19_trial_best_organism_exists.

(* BestFitness: per trial 0 without generations, else the fitness of a champion that no other
   champion of the trial exceeds (likewise BestSpeciesAge / BestComplexity read the age /
   complexity of such a champion) *)
Theorem C19_best_fitness_age_complexity : forall (e : list (@trial xr)) ks l,
  Forall real_trial e -> Forall has_champions e ->
  (e_best_fitness xnum e ks = Ok l ->
   Forall2 (fun t x => match t_gens t with
                       | [] => x = Some 0
                       | _ => exists o, In (Some o) (map g_champ (filter (fun g => negb false || g_solved g) (t_gens t))) /\
                              (forall o', In (Some o') (map g_champ (filter (fun g => negb false || g_solved g) (t_gens t))) -> fitR o' <= fitR o) /\
                              x = o_fitness o
                       end) e l) /\
  (e_best_species_age xnum e ks = Ok l ->
   Forall2 (fun t x => match t_gens t with
                       | [] => x = Some 0
                       | _ => exists o, In (Some o) (map g_champ (filter (fun g => negb false || g_solved g) (t_gens t))) /\
                              (forall o', In (Some o') (map g_champ (filter (fun g => negb false || g_solved g) (t_gens t))) -> fitR o' <= fitR o) /\
                              x = match o_age o with Some a => Some (IZR a) | None => Some 0 end
                       end) e l) /\
  (e_best_complexity xnum e ks = Ok l ->
   Forall2 (fun t x => match t_gens t with
                       | [] => x = Some 0
                       | _ => exists o, In (Some o) (map g_champ (filter (fun g => negb false || g_solved g) (t_gens t))) /\
                              (forall o', In (Some o') (map g_champ (filter (fun g => negb false || g_solved g) (t_gens t))) -> fitR o' <= fitR o) /\
                              x = Some (IZR (o_cplx o))
                       end) e l).
Proof.
  intros e ks l Hr Hc.
  exact (conj (e_best_fitness_spec e ks l Hr Hc)
        (conj (e_best_species_age_spec e ks l Hr Hc) (e_best_complexity_spec e ks l Hr Hc))).
Qed.
Print Assumptions C19_best_fitness_age_complexity.

(* Experiment.BestOrganism: a candidate champion of the trial whose index is returned, and no
   candidate champion of any trial has a larger fitness *)
Theorem C19_experiment_best_organism : forall only (e : list (@trial xr)) ks k o i,
  Forall real_trial e ->
  e_best_organism xnum only e ks k = Ok (Some (o, i)) ->
  (exists t, (0 <= i)%Z /\ nth_error e (Z.to_nat i) = Some t /\
             In (Some o) (map g_champ (filter (fun g => negb only || g_solved g) (t_gens t)))) /\
  (forall t' o', In t' e ->
                 In (Some o') (map g_champ (filter (fun g => negb only || g_solved g) (t_gens t'))) ->
                 fitR o' <= fitR o).
Proof. exact e_best_organism_spec. Qed.
Print Assumptions C19_experiment_best_organism.

(* recorded behaviour outside the statement: a generation that recorded no champion makes the
   Best* accessors dereference nil *)
Theorem C19_generation_without_champion_panics : forall F (N : num F) only (t : @trial F) k,
  (2 <= length (map g_champ (filter (fun g => negb only || g_solved g) (t_gens t))))%nat ->
  In None (map g_champ (filter (fun g => negb only || g_solved g) (t_gens t))) ->
  t_best_organism N only t k = GoPanic panic_nil.
Proof. exact @t_best_organism_nil_panics. Qed.
Print Assumptions C19_generation_without_champion_panics.

(* ================= non-vacuity (binary64 instance, executable) ================= *)

Example C19_example_statistics :
  let x := [3; 1; 4; 1; 5; 9; 2; 6]%float in
  (F_min fnum x, F_max fnum x, F_sum fnum true x, F_mean fnum false x,
   F_median fnum x, F_q25 fnum x, F_q75 fnum x, F_variance fnum true x)
  = (Ok 1, Ok 9, 31, 3.875, Ok 3, Ok 1, Ok 5, 0x1.e36db6db6db6ep+2)%float.
Proof. vm_compute. reflexivity. Qed.

(* the code before 8399ba2: the median of an unsorted series panicked *)
Example C19_example_unsorted_median_panicked :
  F_median_unsorted fnum [2; 1]%float = GoPanic panic_not_sorted /\ F_median fnum [2; 1]%float = Ok 1%float.
Proof. vm_compute. split; reflexivity. Qed.

Example C19_example_experiment :
  let ch f := Some {| o_fitness := f; o_hfit := 0%float; o_age := Some 3%Z; o_cplx := 5%Z |} in
  let g s f := {| g_solved := s; g_champ := ch f; g_fitness := [1; 2]%float; g_age := [1]%float;
                  g_complexity := []; g_diversity := 4%Z; g_wnodes := 5%Z; g_wgenes := 7%Z;
                  g_wevals := 100%Z; g_duration := 10%Z |} in
  let e := [ {| t_gens := [g false 1%float; g true 15.5%float]; t_winner := None; t_duration := 7%Z |};
             {| t_gens := [g false 2%float]; t_winner := None; t_duration := 8%Z |} ] in
  (e_trials_solved e, e_success_rate fnum e, e_best_fitness fnum e [1%Z; 0%Z], e_avg_winner_statistics fnum e)
  = (1%Z, 0.5%float, Ok [15.5; 2]%float, (5, 7, 100, 4)%float).
Proof. vm_compute. reflexivity. Qed.

(* ============================================================================================ *)
(* ==== the model of the aggregate accessors tied to the source by translation ================= *)
(* ============================================================================================ *)
(* gen/ExperAggr.v is regenerated on every run (translator experaggr, harness/c19_translate.go)    *)
(* from the BODIES of the accessors of experiment/trial.go and experiment/experiment.go: range      *)
(* loops as folds over the assigned variables (with [go_range] when the body returns), make + x[i]  *)
(* as a zeroed list updated in place, int / time.Duration division as Z.quot, float64 arithmetic as *)
(* the operations of the number structure.  For every number structure and every input each model  *)
(* function of model/Exper.v equals the translated body (proofs/ExperAggrAgree.v, checked in).      *)
(* Editing one of these bodies in the source either keeps this theorem valid or breaks it.          *)
(* ============================================================================================ *)
From NeatModel Require ExperAggr ExperAggrAgree.

Theorem C19_model_is_the_translated_source : forall (F : Type) (N : num F),
  (forall t : @trial F, t_avg_epoch_duration t = ExperAggr.gen_Trial_AvgEpochDuration t) /\
  (forall t : @trial F, t_solved t = ExperAggr.gen_Trial_Solved t) /\
  (forall t : @trial F, t_diversity N t = ExperAggr.gen_Trial_Diversity N t) /\
  (forall t : @trial F, t_champions_fitness N t = ExperAggr.gen_Trial_ChampionsFitness N t) /\
  (forall t : @trial F, t_champion_species_ages N t = ExperAggr.gen_Trial_ChampionSpeciesAges N t) /\
  (forall t : @trial F, t_champions_complexities N t = ExperAggr.gen_Trial_ChampionsComplexities N t) /\
  (forall e : list (@trial F), e_avg_trial_duration e = ExperAggr.gen_Experiment_AvgTrialDuration e) /\
  (forall e : list (@trial F), e_avg_epoch_duration e = ExperAggr.gen_Experiment_AvgEpochDuration e) /\
  (forall e : list (@trial F), e_avg_generations_per_trial N e = ExperAggr.gen_Experiment_AvgGenerationsPerTrial N e) /\
  (forall e : list (@trial F), e_solved e = ExperAggr.gen_Experiment_Solved e) /\
  (forall e : list (@trial F), e_trials_solved e = ExperAggr.gen_Experiment_TrialsSolved e) /\
  (forall e : list (@trial F), e_success_rate N e = ExperAggr.gen_Experiment_SuccessRate N e) /\
  (forall e : list (@trial F), e_epochs_per_trial N e = ExperAggr.gen_Experiment_EpochsPerTrial N e) /\
  (forall e : list (@trial F), e_avg_diversity N e = ExperAggr.gen_Experiment_AvgDiversity N e).
Proof.
  intros F N.
  exact (conj ExperAggrAgree.Trial_AvgEpochDuration_agrees
        (conj ExperAggrAgree.Trial_Solved_agrees
        (conj (ExperAggrAgree.Trial_Diversity_agrees N)
        (conj (ExperAggrAgree.Trial_ChampionsFitness_agrees N)
        (conj (ExperAggrAgree.Trial_ChampionSpeciesAges_agrees N)
        (conj (ExperAggrAgree.Trial_ChampionsComplexities_agrees N)
        (conj ExperAggrAgree.Experiment_AvgTrialDuration_agrees
        (conj ExperAggrAgree.Experiment_AvgEpochDuration_agrees
        (conj (ExperAggrAgree.Experiment_AvgGenerationsPerTrial_agrees N)
        (conj ExperAggrAgree.Experiment_Solved_agrees
        (conj ExperAggrAgree.Experiment_TrialsSolved_agrees
        (conj (ExperAggrAgree.Experiment_SuccessRate_agrees N)
        (conj (ExperAggrAgree.Experiment_EpochsPerTrial_agrees N)
              (ExperAggrAgree.Experiment_AvgDiversity_agrees N)))))))))))))).
Qed.
Print Assumptions C19_model_is_the_translated_source.

(* the translated bodies run (binary64): the experiment of C19_example_experiment *)
Example C19_example_translated_source :
  let ch f := Some {| o_fitness := f; o_hfit := 0%float; o_age := Some 3%Z; o_cplx := 5%Z |} in
  let g s f du := {| g_solved := s; g_champ := ch f; g_fitness := [1; 2]%float; g_age := [1]%float;
                     g_complexity := []; g_diversity := 4%Z; g_wnodes := 5%Z; g_wgenes := 7%Z;
                     g_wevals := 100%Z; g_duration := du |} in
  let e := [ {| t_gens := [g false 1%float 10%Z; g true 15.5%float (-15)%Z]; t_winner := None; t_duration := 7%Z |};
             {| t_gens := [g false 2%float 9%Z]; t_winner := None; t_duration := 8%Z |} ] in
  (ExperAggr.gen_Experiment_TrialsSolved e, ExperAggr.gen_Experiment_SuccessRate fnum e,
   ExperAggr.gen_Experiment_AvgTrialDuration e, ExperAggr.gen_Experiment_AvgEpochDuration e,
   ExperAggr.gen_Experiment_EpochsPerTrial fnum e, ExperAggr.gen_Experiment_AvgDiversity fnum e,
   ExperAggr.gen_Experiment_AvgTrialDuration (@nil (@trial float)))
  = (1%Z, 0.5%float, 7%Z, 3%Z, [2; 1]%float, [4; 4]%float, (-1)%Z).
Proof. vm_compute. reflexivity. Qed.
