(* C17 — evolution is reproducible from the seed.
   Property theorems only; proofs live in proofs/TapeLocal.v (prefix determinism of the sequential
   model) and proofs/TapeNondetAllow.v (no unlisted source of nondeterminism in the Go source).

   The model of the sequential path (model/Mutate.v, Mate.v, Population.v) is a function of the
   options, the population and a tape of raw 63-bit draws; the correspondence check exhibits the
   implementation's output, epoch by epoch, as that function of the tape of the seed
   (base/GoSource.v).  The theorems below say that the function looks at nothing but the prefix of
   the tape it consumes: the same prefix gives the same populations, bit for bit (all model values
   are compared by Leibniz equality), whatever follows on the tape and however long it is. *)
From Coq Require Import String.
From NeatModel Require Import Res F64 GoRand GoSource Genome Options Mutate Mate Population GenomeLit.
From NeatModel Require Import TapeLocal NondetSites TapeNondetAllow.
Close Scope string_scope.

(* one epoch of the sequential executor: a successful run splits the tape into a consumed prefix and
   the untouched rest, and on every tape with that prefix it yields the same population, executor
   state and innovation environment and leaves exactly the new rest *)
Theorem C17_epoch_prefix_determinism : forall o generation p x t e r t' e',
    next_epoch o generation p x {| s_tape := t; s_env := e |} = Ok (r, {| s_tape := t'; s_env := e' |}) ->
    exists used, t = used ++ t' /\
      forall u, next_epoch o generation p x {| s_tape := used ++ u; s_env := e |}
                = Ok (r, {| s_tape := u; s_env := e' |}).
Proof. intros o generation p x. exact (tl_next_epoch o generation p x). Qed.
Print Assumptions C17_epoch_prefix_determinism.

(* NewPopulation / spawn *)
Theorem C17_spawn_prefix_determinism : forall o g t e p t' e',
    new_population o g {| s_tape := t; s_env := e |} = Ok (p, {| s_tape := t'; s_env := e' |}) ->
    exists used, t = used ++ t' /\
      forall u, new_population o g {| s_tape := used ++ u; s_env := e |} = Ok (p, {| s_tape := u; s_env := e' |}).
Proof. intros o g. exact (tl_new_population o g). Qed.
Print Assumptions C17_spawn_prefix_determinism.

(* [tape_local m] is exactly that statement about an arbitrary computation [m] *)
Theorem C17_tape_local_unfold : forall A (m : @M st A),
    tape_local m <->
    (forall t e a t' e',
        m {| s_tape := t; s_env := e |} = Ok (a, {| s_tape := t'; s_env := e' |}) ->
        exists used, t = used ++ t' /\
          forall u, m {| s_tape := used ++ u; s_env := e |} = Ok (a, {| s_tape := u; s_env := e' |})).
Proof. intros A m. exact (iff_refl _). Qed.
Print Assumptions C17_tape_local_unfold.

(* the three crossovers and every mutator, for all arguments *)
Theorem C17_operators_prefix_determinism : forall o g og id f1 f2 power rate gaussian times,
    tape_local (mate_multipoint g og id f1 f2) /\
    tape_local (mate_multipoint_avg g og id f1 f2) /\
    tape_local (mate_singlepoint g og id) /\
    tape_local (mutate_add_node o g) /\
    tape_local (mutate_add_link o g) /\
    tape_local (mutate_connect_sensors g) /\
    tape_local (mutate_all_nonstructural o g) /\
    tape_local (mutate_random_trait o g) /\
    tape_local (mutate_link_trait times g) /\
    tape_local (mutate_node_trait times g) /\
    tape_local (mutate_link_weights power rate gaussian g) /\
    tape_local (mutate_toggle_enable times g) /\
    tape_local (mutate_gene_reenable g).
Proof.
  intros o g og id f1 f2 power rate gaussian times.
  exact (conj (tl_mate_multipoint g og id f1 f2) (conj (tl_mate_multipoint_avg g og id f1 f2)
        (conj (tl_mate_singlepoint g og id) (conj (tl_mutate_add_node o g) (conj (tl_mutate_add_link o g)
        (conj (tl_mutate_connect_sensors g) (conj (tl_mutate_all_nonstructural o g)
        (conj (tl_mutate_random_trait o g) (conj (tl_mutate_link_trait times g)
        (conj (tl_mutate_node_trait times g) (conj (tl_mutate_link_weights power rate gaussian g)
        (conj (tl_mutate_toggle_enable times g) (tl_mutate_gene_reenable g))))))))))))).
Qed.
Print Assumptions C17_operators_prefix_determinism.

(* a whole history: spawn, then for every generation the evaluator's fitness values (one list per
   generation, in Population.Organisms order) and the epoch turnover; the value [ps] is the list of
   ALL populations, the spawned one and the one after every epoch.  It depends only on the options,
   the start genome, the fitness lists and the consumed prefix of the tape: any two tapes that
   share that prefix give the same run, for any number of epochs *)
Theorem C17_history_determinism : forall o g fits t e ps t' e',
    history o g fits {| s_tape := t; s_env := e |} = Ok (ps, {| s_tape := t'; s_env := e' |}) ->
    exists used, t = used ++ t' /\
      forall u, history o g fits {| s_tape := used ++ u; s_env := e |} = Ok (ps, {| s_tape := u; s_env := e' |}).
Proof. intros o g fits. exact (tl_history o g fits). Qed.
Print Assumptions C17_history_determinism.

(* the populations of the first k epochs do not depend on what is assigned afterwards *)
Theorem C17_history_extends : forall o g fits1 fits2 s ps s',
    history o g (fits1 ++ fits2) s = Ok (ps, s') ->
    exists s1, history o g fits1 s = Ok (firstn (S (length fits1)) ps, s1).
Proof. intros o g fits1 fits2 s ps s'. exact (history_app o g fits1 fits2 s ps s'). Qed.
Print Assumptions C17_history_extends.

(* Go's seeded source (base/GoSource.v): laying out more draws of the same seed extends the tape *)
Theorem C17_seed_tape_extends : forall seed n1 n2, n1 <= n2 -> exists w, go_tape seed n2 = go_tape seed n1 ++ w.
Proof. exact go_tape_prefix. Qed.
Print Assumptions C17_seed_tape_extends.

(* so a history that succeeds on the first n1 draws of a seed is the history on any longer tape of
   that seed ... *)
Theorem C17_same_seed_longer_tape : forall o g fits seed n1 n2 e ps s1,
    n1 <= n2 ->
    history o g fits {| s_tape := go_tape seed n1; s_env := e |} = Ok (ps, s1) ->
    exists s2, history o g fits {| s_tape := go_tape seed n2; s_env := e |} = Ok (ps, s2) /\ s_env s2 = s_env s1.
Proof. intros o g fits seed n1 n2 e ps s1. exact (go_tape_history_extend o g fits seed n1 n2 e ps s1). Qed.
Print Assumptions C17_same_seed_longer_tape.

(* ... and any two successful runs from the same seed and the same inputs give the same
   populations, genome for genome, and the same innovation counters *)
Theorem C17_same_seed_same_history : forall o g fits seed n1 n2 e ps1 s1 ps2 s2,
    history o g fits {| s_tape := go_tape seed n1; s_env := e |} = Ok (ps1, s1) ->
    history o g fits {| s_tape := go_tape seed n2; s_env := e |} = Ok (ps2, s2) ->
    ps1 = ps2 /\ s_env s1 = s_env s2.
Proof. intros o g fits seed n1 n2 e ps1 s1 ps2 s2. exact (go_tape_history_unique o g fits seed n1 n2 e ps1 s1 ps2 s2). Qed.
Print Assumptions C17_same_seed_same_history.

(* the predicate is not trivially true: reading the length of the remaining tape violates it *)
Theorem C17_tape_length_is_not_local : ~ tape_local tape_len.
Proof. exact tape_len_not_local. Qed.
Print Assumptions C17_tape_length_is_not_local.

(* the Go source: every range-over-map, time.*, go/select, %p, unsafe/reflect/runtime, re-seeding
   and environment look-up in the functions reachable from spawn, the sequential NextEpoch, the
   crossovers and the mutators (gen/NondetSites.v, regenerated from the current source on every
   check) is on the hand-written allow-list of proofs/TapeNondetAllow.v *)
Theorem C17_no_unlisted_nondeterminism : filter (fun s => negb (allowed s)) nondet_sites = [].
Proof. exact no_unlisted_nondeterminism. Qed.
Print Assumptions C17_no_unlisted_nondeterminism.

Theorem C17_every_site_allowed : forall s, In s nondet_sites -> In s nondet_allow.
Proof. exact every_site_allowed. Qed.
Print Assumptions C17_every_site_allowed.

(* non-vacuity: three epochs from a three-sensor start genome with population size six, on the tape
   of seed 42.  The run succeeds, the population splits into 2, 4, 5 and 6 species, nodes and links
   are added; it consumes exactly 485 raw draws: the first 485 draws give the same populations and
   leave nothing, 484 draws are not enough *)
Definition C17_ex_opts : options :=
  OPT [0x1p-01%float; 0x1p+00%float; 0x1.4p+01%float; 0x1p+00%float; 0x1p+00%float; 0x1.999999999999ap-02%float;
       0x1.3333333333333p-02%float; 0x1p+00%float; 0x1.999999999999ap-03%float; 0x1p-02%float;
       0x1.999999999999ap-04%float; 0x1.999999999999ap-04%float; 0x1.999999999999ap-04%float; 0x1.ccccccccccccdp-01%float;
       0x1.999999999999ap-04%float; 0x1.999999999999ap-04%float; 0x1.3333333333333p-02%float; 0x1.3333333333333p-02%float;
       0x1p-01%float; 0x1.999999999999ap-04%float; 0x1.999999999999ap-02%float; 0x1.3333333333333p-02%float;
       0x1.3333333333333p-02%float; 0x1.999999999999ap-03%float; 0x1.999999999999ap-03%float]
      6 15 20 0 false [12; 4] [0x1p-01%float; 0x1p-01%float].
Definition C17_ex_start : genome :=
  GN 1 [T 1 [0x1.999999999999ap-04%float; zero; zero; zero; zero; zero; zero; zero]]
       [N 1 1 17 None; N 2 1 17 None; N 3 3 17 None; N 4 2 4 None]
       [G 1 4 false zero (Some 1) 1 zero true; G 2 4 false zero (Some 1) 2 zero true;
        G 3 4 false zero (Some 1) 3 zero true] [].
Definition C17_ex_fits : list (list float) :=
  [[1; 2; 3; 4; 5; 6]%float; [6; 5; 4; 3; 2; 1]%float; [1; 5; 2; 6; 3; 4]%float].
Definition C17_ex_state (n : Z) : st :=
  {| s_tape := go_tape 42 n; s_env := {| innovs := []; next_innov := 0; next_node := 0 |} |}.

Example C17_example :
  match history C17_ex_opts C17_ex_start C17_ex_fits (C17_ex_state 2000),
        history C17_ex_opts C17_ex_start C17_ex_fits (C17_ex_state 485),
        history C17_ex_opts C17_ex_start C17_ex_fits (C17_ex_state 484) with
  | Ok (ps, s), Ok (ps', s'), OutOfTape =>
    map (fun p => length (p_species p)) ps = [2; 4; 5; 6]%nat /\
    map (fun p => length (p_orgs p)) ps = [6; 6; 6; 6]%nat /\
    length (s_tape s) = 1515%nat /\
    next_innov (s_env s) = 12 /\ next_node (s_env s) = 8 /\
    ps' = ps /\ s_tape s' = [] /\ s_env s' = s_env s
  | _, _, _ => False
  end.
Proof. vm_compute. repeat split; reflexivity. Qed.
