(* C09 — offspring quotas follow shared fitness and total the population size.
   Property theorems only; proofs live in proofs/QuotaReal.v (real-number instance), QuotaSpec.v
   (purgeZeroOffspringSpecies, expected offspring, zero quota), QuotaFloat.v (sign facts of binary64),
   QuotaSteal.v (giveBabiesToTheBest, deltaCoding) and QuotaSort.v (sort, adjustFitness marks,
   purgeOrganisms).  The model is model/Population.v, the transliteration of species.go,
   population.go and population_epoch.go that runs bit-exactly against the implementation.

   Vocabulary (all defined in the proof files, a line or two each):
     count_offspring_gen N exps e skim   Species.countOffspring over a number structure N, on the
                                         members' ExpectedOffspring [exps] in species order
     R_qnum                              exact real arithmetic: floor = Int_part, Mod(x,1) = x - trunc x
     chain_gen N spp skim total          the loop of purgeZeroOffspringSpecies over the species
     Rsum / Zsum / sp_sum                sum of a list of reals / integers / of Species.ExpectedOffspring
     Rfloor                              Int_part
     mark_at np i x                      x with toEliminate set if i >= np and isChampion set if i = 0
     keeps h k                           organism k of heap h is not marked toEliminate            *)
From NeatModel Require Import Res F64 GoRand Genome Options Population.
From NeatModel Require Import QuotaReal QuotaSpec QuotaFloat QuotaSteal QuotaSort QuotaExamples.
From Coq Require Import Reals Permutation Sorted.

(* ================= real-number level ================= *)

(* 1. The running invariant of countOffspring: offspring handed out plus the carried fraction equal
      everything expected so far, and the carried fraction stays in [0,1). *)
Theorem C09_carry_invariant :
  forall (exps : list R) (e : Z) (skim : R) (e' : Z) (skim' : R),
    Forall (fun x => 0 <= x)%R exps -> (0 <= skim < 1)%R ->
    count_offspring_gen R_qnum exps e skim = (e', skim') ->
    (IZR e' + skim' = IZR e + skim + Rsum exps)%R /\ (0 <= skim' < 1)%R.
Proof. exact carry_invariant. Qed.
Print Assumptions C09_carry_invariant.

(* A species' quota is the floor of (fraction carried in + its members' expected offspring), what it
   carries out is the fractional part, and the quota differs from the members' sum by less than one. *)
Theorem C09_quota_floor_carry :
  forall (exps : list R) (e : Z) (skim : R) (e' : Z) (skim' : R),
    Forall (fun x => 0 <= x)%R exps -> (0 <= skim < 1)%R ->
    count_offspring_gen R_qnum exps e skim = (e', skim') ->
    (e' - e)%Z = Rfloor (skim + Rsum exps) /\
    skim' = (skim + Rsum exps - IZR (Rfloor (skim + Rsum exps)))%R /\
    (Rabs (IZR (e' - e) - Rsum exps) < 1)%R.
Proof. exact quota_floor_carry. Qed.
Print Assumptions C09_quota_floor_carry.

(* 2. Expected offspring (fitness over the population mean) sum to the population size, and an
      organism's expected offspring times the mean is its fitness. *)
Theorem C09_sum_expected :
  forall (f : list R),
    let n := INR (length f) in
    let mean := (Rsum f / n)%R in
    mean <> 0%R ->
    Rsum (map (fun x => x / mean)%R f) = n.
Proof. exact sum_expected. Qed.
Print Assumptions C09_sum_expected.

Theorem C09_expected_times_mean :
  forall x mean : R, mean <> 0%R -> (x / mean * mean = x)%R.
Proof. exact expected_times_mean. Qed.
Print Assumptions C09_expected_times_mean.

(* Inside the chain over all species (any number of species before and after), every species gets the
   floor of what the species before it carried over plus its members' expected offspring. *)
Theorem C09_chain_quota :
  forall (pre : list (list R)) (exps : list R) (post : list (list R)) qs t sk,
    Forall (Forall (fun x => 0 <= x)%R) (pre ++ exps :: post) ->
    chain_gen R_qnum (pre ++ exps :: post) 0%R 0 = (qs, t, sk) ->
    let carry := (Rsum (concat pre) - IZR (Rfloor (Rsum (concat pre))))%R in
    nth (length pre) qs 0%Z = Rfloor (carry + Rsum exps) /\
    (Rabs (IZR (nth (length pre) qs 0%Z) - Rsum exps) < 1)%R.
Proof. exact chain_quota. Qed.
Print Assumptions C09_chain_quota.

(* 3. In exact arithmetic the quotas total exactly the population size and nothing is left in the
      carry, so neither the +1 fix-up nor the fallback can fire.  fs: the adjusted fitness values,
      species by species; expected offspring = fitness / mean. *)
Theorem C09_total_exact :
  forall (fs : list (list R)) qs t sk,
    let n := length (concat fs) in
    let mean := (Rsum (concat fs) / INR n)%R in
    Forall (Forall (fun x => 0 <= x)%R) fs ->
    mean <> 0%R ->
    chain_gen R_qnum (map (map (fun x => x / mean)%R) fs) 0%R 0 = (qs, t, sk) ->
    t = Z.of_nat n /\ Zsum qs = Z.of_nat n /\ sk = 0%R /\ length qs = length fs.
Proof. exact total_exact. Qed.
Print Assumptions C09_total_exact.

(* The model's count_all IS this chain, at the float instance, on the members' ExpectedOffspring. *)
Theorem C09_count_all_is_chain :
  forall h l skim total l2 t,
    count_all h l skim total = Ok (l2, t) ->
    exists spp sk, species_exps h l = Ok spp /\
                   chain_gen float_qnum spp skim total = (map sp_exp l2, t, sk).
Proof. exact count_all_chain. Qed.
Print Assumptions C09_count_all_is_chain.

(* ================= model level: floats as they are ================= *)

(* 4. Every organism's ExpectedOffspring is its (shared, age-adjusted) fitness divided by the
      population average as the code computes it; nothing else in the heap is touched. *)
Theorem C09_expected_def :
  forall p p' orgs,
    purge_zero_offspring p = Ok p' ->
    hgets (p_heap p) (p_orgs p) = Ok orgs ->
    let avg := PrimFloat.div (fold_left (fun acc x => PrimFloat.add acc (o_fit x)) orgs 0%float) (f_of_Z (zlen orgs)) in
    PrimFloat.eqb avg 0%float = false ->
    forall x, In x orgs ->
      hget (p_heap p') (o_key x) = Ok (o_with_exp x (PrimFloat.div (o_fit x) avg)) /\
      (forall k, ~ In k (p_orgs p) -> hget (p_heap p') k = hget (p_heap p) k).
Proof. exact expected_def. Qed.
Print Assumptions C09_expected_def.

(* 5. The quotas after purgeZeroOffspringSpecies.  T: the total the float chain produced, n: the
      number of organisms.  T >= n: nothing changes.  T = n-1: the LAST species with maximal quota
      gets one more.  T < n-1: that species gets n, everybody else 0.  Species with positive quota
      stay, the others move to the detached list.  Hypotheses: species ids distinct, at least one
      species, the computed quotas not negative. *)
Theorem C09_total_robust :
  forall p p' orgs sps T,
    purge_zero_offspring p = Ok p' ->
    hgets (p_heap p) (p_orgs p) = Ok orgs ->
    count_all (p_heap p') (p_species p) 0%float 0 = Ok (sps, T) ->
    p_species p <> [] -> NoDup (map sp_id (p_species p)) ->
    (forall s, In s sps -> 0 <= sp_exp s) ->
    let n := zlen orgs in
    T = sp_sum sps /\ Forall2 (fun s s' => s' = sp_with_exp s (sp_exp s')) (p_species p) sps /\
    exists final,
      p_species p' = filter (fun s => Z.gtb (sp_exp s) 0) final /\
      p_detached p' = p_detached p ++ filter (fun s => negb (Z.gtb (sp_exp s) 0)) final /\
      sp_sum (p_species p') = sp_sum final /\
      (n <= T -> final = sps /\ sp_sum final = T) /\
      (T < n -> sp_sum final = n /\
         exists pre b post,
           sps = pre ++ b :: post /\
           (forall s, In s pre -> sp_exp s <= sp_exp b) /\ (forall s, In s post -> sp_exp s < sp_exp b) /\
           (T = n - 1 -> final = pre ++ sp_with_exp b (sp_exp b + 1) :: post) /\
           (T < n - 1 -> final = map (fun s => sp_with_exp s 0) pre ++ sp_with_exp b n :: map (fun s => sp_with_exp s 0) post)).
Proof. exact total_robust. Qed.
Print Assumptions C09_total_robust.

(* Headline: if no organism's expected offspring is negative, then whenever the float chain does not
   overshoot (T <= n; in exact arithmetic T = n, C09_total_exact) the quotas of Population.Species
   total exactly the number of organisms; if it overshoots they total T (this is the one
   float-dependent case, monitored on the implementation by the harness key quota-total).  Kept
   species have positive quotas, dropped ones none. *)
Theorem C09_quotas_total_population_size :
  forall p p' orgs sps T,
    purge_zero_offspring p = Ok p' ->
    hgets (p_heap p) (p_orgs p) = Ok orgs ->
    count_all (p_heap p') (p_species p) 0%float 0 = Ok (sps, T) ->
    p_species p <> [] -> NoDup (map sp_id (p_species p)) ->
    (forall s k x, In s (p_species p) -> In k (sp_orgs s) -> hget (p_heap p') k = Ok x ->
                   PrimFloat.ltb (o_exp x) 0%float = false) ->
    (T <= zlen orgs -> sp_sum (p_species p') = zlen orgs) /\
    (zlen orgs < T -> sp_sum (p_species p') = T) /\
    (forall s, In s (p_species p') -> 0 < sp_exp s) /\
    (forall s, In s (p_detached p') -> In s (p_detached p) \/ sp_exp s <= 0).
Proof. exact total_robust_float. Qed.
Print Assumptions C09_quotas_total_population_size.

(* 6a. giveBabiesToTheBest, for every option setting, every order list and every random tape:
       the quotas keep their total; of a species only ExpectedOffspring is written, of an organism
       only superChampOffspring; and if beforehand quotas are not negative and first organisms
       reserve nothing, afterwards no first organism reserves more than its species' quota. *)
Theorem C09_steal_conserves :
  forall o p sorted st p' st',
    give_babies o p sorted st = Ok (p', st') ->
    NoDup (map sp_id (p_species p)) ->
    sp_sum (p_species p') = sp_sum (p_species p) /\
    Forall2 (fun s s' => s' = sp_with_exp s (sp_exp s')) (p_species p) (p_species p') /\
    Forall2 (fun a b => b = o_with_super a (o_super b)) (p_heap p) (p_heap p') /\
    p_detached p' = p_detached p /\ p_orgs p' = p_orgs p /\ p_last_species p' = p_last_species p /\
    p_highest p' = p_highest p /\ p_epochs_highest p' = p_epochs_highest p /\ p_next_key p' = p_next_key p /\
    s_env st' = s_env st /\
    (0 <= o_babies_stolen o ->
     (forall s1 s2 k, In s1 (p_species p) -> In s2 (p_species p) ->
                      hd_error (sp_orgs s1) = Some k -> hd_error (sp_orgs s2) = Some k -> sp_id s1 = sp_id s2) ->
     (forall s, In s (p_species p) -> 0 <= sp_exp s /\ forall c, first_org (p_heap p) s = Ok c -> o_super c <= 0) ->
     forall s, In s (p_species p') ->
               0 <= sp_exp s /\ forall c, first_org (p_heap p') s = Ok c -> o_super c <= sp_exp s).
Proof. exact steal_conserves. Qed.
Print Assumptions C09_steal_conserves.

(* 6b. deltaCoding: if the order list names every species once, the quotas afterwards total the
       configured population size (half / the rest for the best two, 0 for all others). *)
Theorem C09_delta_conserves :
  forall o p sorted p',
    delta_coding o p sorted = Ok p' ->
    NoDup sorted -> NoDup (map sp_id (p_species p)) ->
    (forall s, In s (p_species p) -> In (sp_id s) sorted) ->
    sp_sum (p_species p') = o_pop_size o /\
    Forall2 (fun s s' => sp_id s' = sp_id s /\ sp_age s' = sp_age s /\ sp_maxfit s' = sp_maxfit s /\
                         sp_novel s' = sp_novel s /\ sp_orgs s' = sp_orgs s) (p_species p) (p_species p') /\
    Forall2 (fun a b => b = o_with_super a (o_super b)) (p_heap p) (p_heap p') /\
    p_detached p' = p_detached p /\ p_orgs p' = p_orgs p /\ p_last_species p' = p_last_species p /\
    p_highest p' = p_highest p /\ p_epochs_highest p' = 0 /\ p_next_key p' = p_next_key p /\
    ((forall s1 s2 k, In s1 (p_species p) -> In s2 (p_species p) ->
                      hd_error (sp_orgs s1) = Some k -> hd_error (sp_orgs s2) = Some k -> sp_id s1 = sp_id s2) ->
     (forall s c, In s (p_species p) -> first_org (p_heap p) s = Ok c -> o_super c <= 0) ->
     forall s' c, In s' (p_species p') -> first_org (p_heap p') s' = Ok c -> o_super c <= sp_exp s').
Proof. exact delta_conserves. Qed.
Print Assumptions C09_delta_conserves.

(* 7. The sort: a permutation; sorted descending (no later element is Less-greater than an earlier
      one) whenever Less is asymmetric and negatively transitive on the elements - which
      Organisms.Less is on organisms whose fitness values are not NaN. *)
Theorem C09_sort_is_permutation :
  forall (A : Type) (lt : A -> A -> bool) (l : list A), Permutation (sort_desc lt l) l.
Proof. exact @sort_desc_perm. Qed.
Print Assumptions C09_sort_is_permutation.

Theorem C09_sort_is_sorted :
  forall (A : Type) (lt : A -> A -> bool) (valid : A -> Prop),
    (forall a b, valid a -> valid b -> lt a b = true -> lt b a = false) ->
    (forall a b c, valid a -> valid b -> valid c -> lt a c = true -> lt a b = true \/ lt b c = true) ->
    forall l, Forall valid l ->
      StronglySorted (fun a b => lt a b = false) (sort_desc lt l) /\
      forall l1 a l2 b l3, sort_desc lt l = l1 ++ a :: l2 ++ b :: l3 -> lt a b = false.
Proof.
  intros A lt valid H1 H2 l Hl. split.
  - exact (sort_desc_sorted lt valid H1 H2 l Hl).
  - intros l1 a l2 b l3. exact (sort_desc_no_inversion lt valid H1 H2 l l1 a l2 b l3 Hl).
Qed.
Print Assumptions C09_sort_is_sorted.

Theorem C09_organism_less_is_weak_order :
  (forall a b, org_valid a -> org_valid b -> org_lt a b = true -> org_lt b a = false) /\
  (forall a b c, org_valid a -> org_valid b -> org_valid c -> org_lt a c = true -> org_lt a b = true \/ org_lt b c = true).
Proof. exact (conj org_lt_asym org_lt_negtrans). Qed.
Print Assumptions C09_organism_less_is_weak_order.

(* adjustFitness: the members are reordered by that sort of their adjusted copies (so: a
   permutation), position i >= num_parents = int(floor(survival_thresh*n + 1)) is marked
   toEliminate, position 0 isChampion, nothing outside the species is touched. *)
Theorem C09_adjust_fitness_order_and_marks :
  forall o h s h' s',
    adjust_fitness o h s = Ok (h', s') -> NoDup (sp_orgs s) ->
    exists orgs,
      hgets h (sp_orgs s) = Ok orgs /\
      let n := zlen orgs in
      let debt0 := (sp_age s - sp_lastimp s + 1) - o_dropoff o in
      let debt := if Z.eqb debt0 0 then 1 else debt0 in
      let sorted := sort_desc org_lt (map (adjust_one o (sp_age s) debt n) orgs) in
      let np := f_trunc_Z (ffloor (PrimFloat.add (PrimFloat.mul (o_survival o) (f_of_Z n)) 1%float)) in
      sp_orgs s' = map o_key sorted /\
      Permutation (sp_orgs s') (sp_orgs s) /\
      sp_id s' = sp_id s /\ sp_age s' = sp_age s /\ sp_exp s' = sp_exp s /\ sp_novel s' = sp_novel s /\
      (forall i x, nth_error sorted i = Some x -> hget h' (o_key x) = Ok (mark_at np i x)) /\
      (forall k, ~ In k (sp_orgs s) -> hget h' k = hget h k).
Proof. exact adjust_fitness_spec. Qed.
Print Assumptions C09_adjust_fitness_order_and_marks.

Theorem C09_exactly_the_tail_is_marked :
  forall o h s h' s',
    adjust_fitness o h s = Ok (h', s') -> NoDup (sp_orgs s) ->
    (forall k x, In k (sp_orgs s) -> hget h k = Ok x -> o_elim x = false) ->
    let n := zlen (sp_orgs s) in
    let np := f_trunc_Z (ffloor (PrimFloat.add (PrimFloat.mul (o_survival o) (f_of_Z n)) 1%float)) in
    forall i k, nth_error (sp_orgs s') i = Some k ->
      exists x, hget h' k = Ok x /\ o_elim x = Z.leb np (Z.of_nat i) /\ (i = 0%nat -> o_champ x = true).
Proof. exact adjust_fitness_flags. Qed.
Print Assumptions C09_exactly_the_tail_is_marked.

(* purgeOrganisms on a population in which every member of a species points back to it, species ids
   are distinct and members are listed in Population.Organisms: every species keeps exactly its
   unmarked members, in order. *)
Theorem C09_purge_keeps_unmarked :
  forall p p',
    purge_organisms p = Ok p' ->
    NoDup (map sp_id (p_species p ++ p_detached p)) ->
    (forall s k x, In s (p_species p ++ p_detached p) -> In k (sp_orgs s) -> hget (p_heap p) k = Ok x -> o_species x = sp_id s) ->
    (forall s k, In s (p_species p ++ p_detached p) -> In k (sp_orgs s) -> In k (p_orgs p)) ->
    p_species p' = map (fun s => sp_with_orgs s (filter (keeps (p_heap p)) (sp_orgs s))) (p_species p) /\
    p_detached p' = map (fun s => sp_with_orgs s (filter (keeps (p_heap p)) (sp_orgs s))) (p_detached p) /\
    p_orgs p' = filter (keeps (p_heap p)) (p_orgs p) /\ p_heap p' = p_heap p.
Proof. exact purge_organisms_spec. Qed.
Print Assumptions C09_purge_keeps_unmarked.

(* the cut: a species carrying adjustFitness' marks keeps its first min(n, num_parents) members *)
Theorem C09_parents_cut :
  forall p p' s np,
    purge_organisms p = Ok p' ->
    NoDup (map sp_id (p_species p ++ p_detached p)) ->
    (forall s k x, In s (p_species p ++ p_detached p) -> In k (sp_orgs s) -> hget (p_heap p) k = Ok x -> o_species x = sp_id s) ->
    (forall s k, In s (p_species p ++ p_detached p) -> In k (sp_orgs s) -> In k (p_orgs p)) ->
    In s (p_species p) ->
    (forall i k, nth_error (sp_orgs s) i = Some k ->
                 exists x, hget (p_heap p) k = Ok x /\ o_elim x = Z.leb np (Z.of_nat i)) ->
    exists s', sp_find (p_species p') (sp_id s) = Some s' /\
               s' = sp_with_orgs s (firstn (Z.to_nat np) (sp_orgs s)) /\
               length (sp_orgs s') = Nat.min (Z.to_nat np) (length (sp_orgs s)).
Proof. exact parents_cut. Qed.
Print Assumptions C09_parents_cut.

(* 8. A species with zero quota produces no babies, draws nothing and changes nothing. *)
Theorem C09_zero_quota_no_babies :
  forall o generation all_species sorted s h key st,
    sp_exp s <= 0 -> sp_orgs s <> [] ->
    reproduce_species o generation all_species sorted s h key st = Ok ((h, key, []), st).
Proof. exact zero_quota_no_babies. Qed.
Print Assumptions C09_zero_quota_no_babies.

(* ================= non-vacuity ================= *)

(* hypotheses of the real-number theorems are satisfiable: three species, fractional shares *)
Example C09_ex_real :
  let fs := [[3; 1]; [2; 2; 2]; [1; 1]]%R in
  Forall (Forall (fun x => 0 <= x)%R) fs /\ (Rsum (concat fs) / INR (length (concat fs)) <> 0)%R.
Proof. exact chain_example. Qed.

(* seven organisms in three species with fitness 0.1 0.2 0.3 | 0.1 0.2 | 0.3 0.7: the float chain
   yields 2 + 1 + 3 = 6 = n - 1, the +1 fix-up fires for the last species with maximal quota *)
Example C09_ex_fixup :
  match purge_zero_offspring ex_pop3 with
  | Ok p' => (quotas p', sp_sum (p_species p'),
              match count_all (p_heap p') (p_species ex_pop3) 0%float 0 with Ok (l, t) => (map sp_exp l, t) | _ => ([], -1) end)
  | _ => ([], -1, ([], -1))
  end = ([(1, 2); (2, 1); (3, 4)], 7, ([2; 1; 3], 6)).
Proof. vm_compute. reflexivity. Qed.

(* babies stolen (20 requested): quotas 3 3 4 become 1 3 6, total unchanged, reserved <= quota *)
Example C09_ex_steal :
  match give_babies (ex_opts 20 10) ex_pop3_q [3; 1; 2] (ex_state [1; 2; 3]) with
  | Ok (p', _) => (quotas p', sp_sum (p_species p'), supers p')
  | _ => ([], -1, [])
  end = ([(1, 1); (2, 3); (3, 6)], 10, [(1, 0); (2, 0); (3, 0); (4, 2); (5, 0); (6, 5); (7, 0)]).
Proof. vm_compute. reflexivity. Qed.

Example C09_ex_delta :
  match delta_coding (ex_opts 0 10) ex_pop3_q [3; 1; 2] with
  | Ok p' => (quotas p', sp_sum (p_species p'), supers p')
  | _ => ([], -1, [])
  end = ([(1, 5); (2, 0); (3, 5)], 10, [(1, 5); (2, 0); (3, 0); (4, 0); (5, 0); (6, 5); (7, 0)]).
Proof. vm_compute. reflexivity. Qed.

(* five members, survival threshold 0.4: floor(0.4*5+1) = 3 parents, the two least fit are cut *)
Example C09_ex_parents :
  match adjust_fitness (ex_opts 0 5) (p_heap ex_pop5) (ex_species 1 3 0 [1; 2; 3; 4; 5]) with
  | Ok (h', s') =>
    (sp_orgs s', map (fun x => (o_key x, o_elim x, o_champ x)) h',
     match purge_organisms (p_with ex_pop5 [s'] [] (p_orgs ex_pop5) h') with
     | Ok p' => (members p', p_orgs p') | _ => ([], []) end)
  | _ => ([], [], ([], []))
  end = ([2; 4; 5; 1; 3],
         [(1, true, false); (2, false, true); (3, true, false); (4, false, false); (5, false, false)],
         ([(1, [2; 4; 5])], [2; 4; 5])).
Proof. vm_compute. reflexivity. Qed.

Example C09_ex_zero_quota :
  reproduce_species (ex_opts 0 10) 1 [] [1] (ex_species 1 3 0 [1; 2]) (p_heap ex_pop5) 100 (ex_state [])
  = Ok ((p_heap ex_pop5, 100, []), ex_state []).
Proof. vm_compute. reflexivity. Qed.
