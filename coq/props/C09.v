(* C09 — offspring quotas follow shared fitness and total the population size.
   Property theorems only; proofs live in proofs/QuotaReal.v (real-number instance), QuotaSpec.v
   (purgeZeroOffspringSpecies, expected offspring, zero quota), QuotaFloat.v (sign facts of binary64),
   QuotaSteal.v (giveBabiesToTheBest, deltaCoding) and QuotaSort.v (sort, adjustFitness marks,
   purgeOrganisms).  The model is model/Population.v, the transliteration of species.go,
   population.go and population_epoch.go that runs bit-exactly against the implementation.

   Vocabulary (all defined in the proof files, a line or two each):
     count_offspring_gen N exps e skim   Species.countOffspring over a number structure N, on the
                                         members' ExpectedOffspring [exps] in species order
     R_qnum                              exact real arithmetic: floor = Int_part, Mod(x,1) = x - trunc x
     chain_gen N spp skim total          the loop of purgeZeroOffspringSpecies over the species
     Rsum / Zsum / sp_sum                sum of a list of reals / integers / of Species.ExpectedOffspring
     Rfloor                              Int_part
     mark_at np i x                      x with toEliminate set if i >= np and isChampion set if i = 0
     keeps h k                           organism k of heap h is not marked toEliminate            *)
From NeatModel Require Import Res F64 GoRand Genome Options Population.
From NeatModel Require Import QuotaReal QuotaSpec QuotaFloat QuotaSteal QuotaSort QuotaExamples.
From Coq Require Import Reals Permutation Sorted.

(* ================= real-number level ================= *)

(* 1. The running invariant of countOffspring: offspring handed out plus the carried fraction equal
      everything expected so far, and the carried fraction stays in [0,1). *)
Theorem C09_carry_invariant :
  forall (exps : list R) (e : Z) (skim : R) (e' : Z) (skim' : R),
    Forall (fun x => 0 <= x)%R exps -> (0 <= skim < 1)%R ->
    count_offspring_gen R_qnum exps e skim = (e', skim') ->
    (IZR e' + skim' = IZR e + skim + Rsum exps)%R /\ (0 <= skim' < 1)%R.
Proof. exact carry_invariant. Qed.
Print Assumptions C09_carry_invariant.

(* A species' quota is the floor of (fraction carried in + its members' expected offspring), what it
   carries out is the fractional part, and the quota differs from the members' sum by less than one. *)
Theorem C09_quota_floor_carry :
  forall (exps : list R) (e : Z) (skim : R) (e' : Z) (skim' : R),
    Forall (fun x => 0 <= x)%R exps -> (0 <= skim < 1)%R ->
    count_offspring_gen R_qnum exps e skim = (e', skim') ->
    (e' - e)%Z = Rfloor (skim + Rsum exps) /\
    skim' = (skim + Rsum exps - IZR (Rfloor (skim + Rsum exps)))%R /\
    (Rabs (IZR (e' - e) - Rsum exps) < 1)%R.
Proof. exact quota_floor_carry. Qed.
Print Assumptions C09_quota_floor_carry.

(* 2. Expected offspring (fitness over the population mean) sum to the population size, and an
      organism's expected offspring times the mean is its fitness. *)
Theorem C09_sum_expected :
  forall (f : list R),
    let n := INR (length f) in
    let mean := (Rsum f / n)%R in
    mean <> 0%R ->
    Rsum (map (fun x => x / mean)%R f) = n.
Proof. exact sum_expected. Qed.
Print Assumptions C09_sum_expected.

Theorem C09_expected_times_mean :
  forall x mean : R, mean <> 0%R -> (x / mean * mean = x)%R.
Proof. exact expected_times_mean. Qed.
Print Assumptions C09_expected_times_mean.

(* Inside the chain over all species (any number of species before and after), every species gets the
   floor of what the species before it carried over plus its members' expected offspring. *)
Theorem C09_chain_quota :
  forall (pre : list (list R)) (exps : list R) (post : list (list R)) qs t sk,
    Forall (Forall (fun x => 0 <= x)%R) (pre ++ exps :: post) ->
    chain_gen R_qnum (pre ++ exps :: post) 0%R 0 = (qs, t, sk) ->
    let carry := (Rsum (concat pre) - IZR (Rfloor (Rsum (concat pre))))%R in
    nth (length pre) qs 0%Z = Rfloor (carry + Rsum exps) /\
    (Rabs (IZR (nth (length pre) qs 0%Z) - Rsum exps) < 1)%R.
Proof. exact chain_quota. Qed.
Print Assumptions C09_chain_quota.

(* 3. In exact arithmetic the quotas total exactly the population size and nothing is left in the
      carry, so neither the +1 fix-up nor the fallback can fire.  fs: the adjusted fitness values,
      species by species; expected offspring = fitness / mean. *)
Theorem C09_total_exact :
  forall (fs : list (list R)) qs t sk,
    let n := length (concat fs) in
    let mean := (Rsum (concat fs) / INR n)%R in
    Forall (Forall (fun x => 0 <= x)%R) fs ->
    mean <> 0%R ->
    chain_gen R_qnum (map (map (fun x => x / mean)%R) fs) 0%R 0 = (qs, t, sk) ->
    t = Z.of_nat n /\ Zsum qs = Z.of_nat n /\ sk = 0%R /\ length qs = length fs.
Proof. exact total_exact. Qed.
Print Assumptions C09_total_exact.

(* The model's count_all IS this chain, at the float instance, on the members' ExpectedOffspring. *)
Theorem C09_count_all_is_chain :
  forall h l skim total l2 t,
    count_all h l skim total = Ok (l2, t) ->
    exists spp sk, species_exps h l = Ok spp /\
                   chain_gen float_qnum spp skim total = (map sp_exp l2, t, sk).
Proof. exact count_all_chain. Qed.
Print Assumptions C09_count_all_is_chain.

(* ================= model level: floats as they are ================= *)

(* 4. Every organism's ExpectedOffspring is its (shared, age-adjusted) fitness divided by the
      population average as the code computes it; nothing else in the heap is touched. *)
Theorem C09_expected_def :
  forall p p' orgs,
    purge_zero_offspring p = Ok p' ->
    hgets (p_heap p) (p_orgs p) = Ok orgs ->
    let avg := PrimFloat.div (fold_left (fun acc x => PrimFloat.add acc (o_fit x)) orgs 0%float) (f_of_Z (zlen orgs)) in
    PrimFloat.eqb avg 0%float = false ->
    forall x, In x orgs ->
      hget (p_heap p') (o_key x) = Ok (o_with_exp x (PrimFloat.div (o_fit x) avg)) /\
      (forall k, ~ In k (p_orgs p) -> hget (p_heap p') k = hget (p_heap p) k).
Proof. exact expected_def. Qed.
Print Assumptions C09_expected_def.

(* 5. The quotas after purgeZeroOffspringSpecies.  T: the total the float chain produced, n: the
      number of organisms.  T >= n: nothing changes.  T = n-1: the LAST species with maximal quota
      gets one more.  T < n-1: that species gets n, everybody else 0.  Species with positive quota
      stay, the others move to the detached list.  Hypotheses: species ids distinct, at least one
      species, the computed quotas not negative. *)
Theorem C09_total_robust :
  forall p p' orgs sps T,
    purge_zero_offspring p = Ok p' ->
    hgets (p_heap p) (p_orgs p) = Ok orgs ->
    count_all (p_heap p') (p_species p) 0%float 0 = Ok (sps, T) ->
    p_species p <> [] -> NoDup (map sp_id (p_species p)) ->
    (forall s, In s sps -> 0 <= sp_exp s) ->
    let n := zlen orgs in
    T = sp_sum sps /\ Forall2 (fun s s' => s' = sp_with_exp s (sp_exp s')) (p_species p) sps /\
    exists final,
      p_species p' = filter (fun s => Z.gtb (sp_exp s) 0) final /\
      p_detached p' = p_detached p ++ filter (fun s => negb (Z.gtb (sp_exp s) 0)) final /\
      sp_sum (p_species p') = sp_sum final /\
      (n <= T -> final = sps /\ sp_sum final = T) /\
      (T < n -> sp_sum final = n /\
         exists pre b post,
           sps = pre ++ b :: post /\
           (forall s, In s pre -> sp_exp s <= sp_exp b) /\ (forall s, In s post -> sp_exp s < sp_exp b) /\
           (T = n - 1 -> final = pre ++ sp_with_exp b (sp_exp b + 1) :: post) /\
           (T < n - 1 -> final = map (fun s => sp_with_exp s 0) pre ++ sp_with_exp b n :: map (fun s => sp_with_exp s 0) post)).
Proof. exact total_robust. Qed.
Print Assumptions C09_total_robust.

(* Headline: if every organism's expected offspring is a finite number in [0, 2^52) (as float
   comparisons: 0 <= e and e < 2^52; this excludes NaN and the infinities), then whenever the float chain does not
   overshoot (T <= n; in exact arithmetic T = n, C09_total_exact) the quotas of Population.Species
   total exactly the number of organisms; if it overshoots they total T (this is the one
   float-dependent case, monitored on the implementation by the harness key quota-total).  Kept
   species have positive quotas, dropped ones none.
   "Not below zero" is not enough: int(math.Floor(e)) for e = NaN, +Inf or e >= 2^63 is math.MinInt64
   on amd64 (F64.f_trunc_Z, platform assumption "amd64-cvttsd2sq"; C09_ex_nan_quota below), the
   species' quota becomes negative and the recorded finding fitness-overflow-quota-panic follows.
   Below 2^52 Floor, Mod(.,1) and the conversion are exact (QuotaFloatSumA.v); finite fitness values
   >= 0 give expected offspring in [0, 2n] (C09_expected_offspring_convertible). *)
Theorem C09_quotas_total_population_size :
  forall p p' orgs sps T,
    purge_zero_offspring p = Ok p' ->
    hgets (p_heap p) (p_orgs p) = Ok orgs ->
    count_all (p_heap p') (p_species p) 0%float 0 = Ok (sps, T) ->
    p_species p <> [] -> NoDup (map sp_id (p_species p)) ->
    (forall s k x, In s (p_species p) -> In k (sp_orgs s) -> hget (p_heap p') k = Ok x ->
                   PrimFloat.leb 0%float (o_exp x) = true /\ PrimFloat.ltb (o_exp x) 0x1p+52%float = true) ->
    (T <= zlen orgs -> sp_sum (p_species p') = zlen orgs) /\
    (zlen orgs < T -> sp_sum (p_species p') = T) /\
    (forall s, In s (p_species p') -> 0 < sp_exp s) /\
    (forall s, In s (p_detached p') -> In s (p_detached p) \/ sp_exp s <= 0).
Proof. exact total_robust_float. Qed.
Print Assumptions C09_quotas_total_population_size.

(* 6a. giveBabiesToTheBest, for every option setting, every order list and every random tape:
       the quotas keep their total; of a species only ExpectedOffspring is written, of an organism
       only superChampOffspring; and if beforehand quotas are not negative and first organisms
       reserve nothing, afterwards no first organism reserves more than its species' quota. *)
Theorem C09_steal_conserves :
  forall o p sorted st p' st',
    give_babies o p sorted st = Ok (p', st') ->
    NoDup (map sp_id (p_species p)) ->
    sp_sum (p_species p') = sp_sum (p_species p) /\
    Forall2 (fun s s' => s' = sp_with_exp s (sp_exp s')) (p_species p) (p_species p') /\
    Forall2 (fun a b => b = o_with_super a (o_super b)) (p_heap p) (p_heap p') /\
    p_detached p' = p_detached p /\ p_orgs p' = p_orgs p /\ p_last_species p' = p_last_species p /\
    p_highest p' = p_highest p /\ p_epochs_highest p' = p_epochs_highest p /\ p_next_key p' = p_next_key p /\
    s_env st' = s_env st /\
    (0 <= o_babies_stolen o ->
     (forall s1 s2 k, In s1 (p_species p) -> In s2 (p_species p) ->
                      hd_error (sp_orgs s1) = Some k -> hd_error (sp_orgs s2) = Some k -> sp_id s1 = sp_id s2) ->
     (forall s, In s (p_species p) -> 0 <= sp_exp s /\ forall c, first_org (p_heap p) s = Ok c -> o_super c <= 0) ->
     forall s, In s (p_species p') ->
               0 <= sp_exp s /\ forall c, first_org (p_heap p') s = Ok c -> o_super c <= sp_exp s).
Proof. exact steal_conserves. Qed.
Print Assumptions C09_steal_conserves.

(* 6b. deltaCoding: if the order list names every species once, the quotas afterwards total the
       configured population size (half / the rest for the best two, 0 for all others). *)
Theorem C09_delta_conserves :
  forall o p sorted p',
    delta_coding o p sorted = Ok p' ->
    NoDup sorted -> NoDup (map sp_id (p_species p)) ->
    (forall s, In s (p_species p) -> In (sp_id s) sorted) ->
    sp_sum (p_species p') = o_pop_size o /\
    Forall2 (fun s s' => sp_id s' = sp_id s /\ sp_age s' = sp_age s /\ sp_maxfit s' = sp_maxfit s /\
                         sp_novel s' = sp_novel s /\ sp_orgs s' = sp_orgs s) (p_species p) (p_species p') /\
    Forall2 (fun a b => b = o_with_super a (o_super b)) (p_heap p) (p_heap p') /\
    p_detached p' = p_detached p /\ p_orgs p' = p_orgs p /\ p_last_species p' = p_last_species p /\
    p_highest p' = p_highest p /\ p_epochs_highest p' = 0 /\ p_next_key p' = p_next_key p /\
    ((forall s1 s2 k, In s1 (p_species p) -> In s2 (p_species p) ->
                      hd_error (sp_orgs s1) = Some k -> hd_error (sp_orgs s2) = Some k -> sp_id s1 = sp_id s2) ->
     (forall s c, In s (p_species p) -> first_org (p_heap p) s = Ok c -> o_super c <= 0) ->
     forall s' c, In s' (p_species p') -> first_org (p_heap p') s' = Ok c -> o_super c <= sp_exp s').
Proof. exact delta_conserves. Qed.
Print Assumptions C09_delta_conserves.

(* 7. The sort: a permutation; sorted descending (no later element is Less-greater than an earlier
      one) whenever Less is asymmetric and negatively transitive on the elements - which
      Organisms.Less is on organisms whose fitness values are not NaN. *)
Theorem C09_sort_is_permutation :
  forall (A : Type) (lt : A -> A -> bool) (l : list A), Permutation (sort_desc lt l) l.
Proof. exact @sort_desc_perm. Qed.
Print Assumptions C09_sort_is_permutation.

Theorem C09_sort_is_sorted :
  forall (A : Type) (lt : A -> A -> bool) (valid : A -> Prop),
    (forall a b, valid a -> valid b -> lt a b = true -> lt b a = false) ->
    (forall a b c, valid a -> valid b -> valid c -> lt a c = true -> lt a b = true \/ lt b c = true) ->
    forall l, Forall valid l ->
      StronglySorted (fun a b => lt a b = false) (sort_desc lt l) /\
      forall l1 a l2 b l3, sort_desc lt l = l1 ++ a :: l2 ++ b :: l3 -> lt a b = false.
Proof.
  intros A lt valid H1 H2 l Hl. split.
  - exact (sort_desc_sorted lt valid H1 H2 l Hl).
  - intros l1 a l2 b l3. exact (sort_desc_no_inversion lt valid H1 H2 l l1 a l2 b l3 Hl).
Qed.
Print Assumptions C09_sort_is_sorted.

Theorem C09_organism_less_is_weak_order :
  (forall a b, org_valid a -> org_valid b -> org_lt a b = true -> org_lt b a = false) /\
  (forall a b c, org_valid a -> org_valid b -> org_valid c -> org_lt a c = true -> org_lt a b = true \/ org_lt b c = true).
Proof. exact (conj org_lt_asym org_lt_negtrans). Qed.
Print Assumptions C09_organism_less_is_weak_order.

(* adjustFitness: the members are reordered by that sort of their adjusted copies (so: a
   permutation), position i >= num_parents = int(floor(survival_thresh*n + 1)) is marked
   toEliminate, position 0 isChampion, nothing outside the species is touched. *)
Theorem C09_adjust_fitness_order_and_marks :
  forall o h s h' s',
    adjust_fitness o h s = Ok (h', s') -> NoDup (sp_orgs s) ->
    exists orgs,
      hgets h (sp_orgs s) = Ok orgs /\
      let n := zlen orgs in
      let debt0 := (sp_age s - sp_lastimp s + 1) - o_dropoff o in
      let debt := if Z.eqb debt0 0 then 1 else debt0 in
      let sorted := sort_desc org_lt (map (adjust_one o (sp_age s) debt n) orgs) in
      let np := f_trunc_Z (ffloor (PrimFloat.add (PrimFloat.mul (o_survival o) (f_of_Z n)) 1%float)) in
      sp_orgs s' = map o_key sorted /\
      Permutation (sp_orgs s') (sp_orgs s) /\
      sp_id s' = sp_id s /\ sp_age s' = sp_age s /\ sp_exp s' = sp_exp s /\ sp_novel s' = sp_novel s /\
      (forall i x, nth_error sorted i = Some x -> hget h' (o_key x) = Ok (mark_at np i x)) /\
      (forall k, ~ In k (sp_orgs s) -> hget h' k = hget h k).
Proof. exact adjust_fitness_spec. Qed.
Print Assumptions C09_adjust_fitness_order_and_marks.

Theorem C09_exactly_the_tail_is_marked :
  forall o h s h' s',
    adjust_fitness o h s = Ok (h', s') -> NoDup (sp_orgs s) ->
    (forall k x, In k (sp_orgs s) -> hget h k = Ok x -> o_elim x = false) ->
    let n := zlen (sp_orgs s) in
    let np := f_trunc_Z (ffloor (PrimFloat.add (PrimFloat.mul (o_survival o) (f_of_Z n)) 1%float)) in
    forall i k, nth_error (sp_orgs s') i = Some k ->
      exists x, hget h' k = Ok x /\ o_elim x = Z.leb np (Z.of_nat i) /\ (i = 0%nat -> o_champ x = true).
Proof. exact adjust_fitness_flags. Qed.
Print Assumptions C09_exactly_the_tail_is_marked.

(* purgeOrganisms on a population in which every member of a species points back to it, species ids
   are distinct and members are listed in Population.Organisms: every species keeps exactly its
   unmarked members, in order. *)
Theorem C09_purge_keeps_unmarked :
  forall p p',
    purge_organisms p = Ok p' ->
    NoDup (map sp_id (p_species p ++ p_detached p)) ->
    (forall s k x, In s (p_species p ++ p_detached p) -> In k (sp_orgs s) -> hget (p_heap p) k = Ok x -> o_species x = sp_id s) ->
    (forall s k, In s (p_species p ++ p_detached p) -> In k (sp_orgs s) -> In k (p_orgs p)) ->
    p_species p' = map (fun s => sp_with_orgs s (filter (keeps (p_heap p)) (sp_orgs s))) (p_species p) /\
    p_detached p' = map (fun s => sp_with_orgs s (filter (keeps (p_heap p)) (sp_orgs s))) (p_detached p) /\
    p_orgs p' = filter (keeps (p_heap p)) (p_orgs p) /\ p_heap p' = p_heap p.
Proof. exact purge_organisms_spec. Qed.
Print Assumptions C09_purge_keeps_unmarked.

(* the cut: a species carrying adjustFitness' marks keeps its first min(n, num_parents) members *)
Theorem C09_parents_cut :
  forall p p' s np,
    purge_organisms p = Ok p' ->
    NoDup (map sp_id (p_species p ++ p_detached p)) ->
    (forall s k x, In s (p_species p ++ p_detached p) -> In k (sp_orgs s) -> hget (p_heap p) k = Ok x -> o_species x = sp_id s) ->
    (forall s k, In s (p_species p ++ p_detached p) -> In k (sp_orgs s) -> In k (p_orgs p)) ->
    In s (p_species p) ->
    (forall i k, nth_error (sp_orgs s) i = Some k ->
                 exists x, hget (p_heap p) k = Ok x /\ o_elim x = Z.leb np (Z.of_nat i)) ->
    exists s', sp_find (p_species p') (sp_id s) = Some s' /\
               s' = sp_with_orgs s (firstn (Z.to_nat np) (sp_orgs s)) /\
               length (sp_orgs s') = Nat.min (Z.to_nat np) (length (sp_orgs s)).
Proof. exact parents_cut. Qed.
Print Assumptions C09_parents_cut.

(* 8. A species with zero quota produces no babies, draws nothing and changes nothing. *)
Theorem C09_zero_quota_no_babies :
  forall o generation all_species sorted s h key st,
    sp_exp s <= 0 -> sp_orgs s <> [] ->
    reproduce_species o generation all_species sorted s h key st = Ok ((h, key, []), st).
Proof. exact zero_quota_no_babies. Qed.
Print Assumptions C09_zero_quota_no_babies.

(* ================= non-vacuity ================= *)

(* hypotheses of the real-number theorems are satisfiable: three species, fractional shares *)
Example C09_ex_real :
  let fs := [[3; 1]; [2; 2; 2]; [1; 1]]%R in
  Forall (Forall (fun x => 0 <= x)%R) fs /\ (Rsum (concat fs) / INR (length (concat fs)) <> 0)%R.
Proof. exact chain_example. Qed.

(* seven organisms in three species with fitness 0.1 0.2 0.3 | 0.1 0.2 | 0.3 0.7: the float chain
   yields 2 + 1 + 3 = 6 = n - 1, the +1 fix-up fires for the last species with maximal quota *)
Example C09_ex_fixup :
  match purge_zero_offspring ex_pop3 with
  | Ok p' => (quotas p', sp_sum (p_species p'),
              match count_all (p_heap p') (p_species ex_pop3) 0%float 0 with Ok (l, t) => (map sp_exp l, t) | _ => ([], -1) end)
  | _ => ([], -1, ([], -1))
  end = ([(1, 2); (2, 1); (3, 4)], 7, ([2; 1; 3], 6)).
Proof. vm_compute. reflexivity. Qed.

(* babies stolen (20 requested): quotas 3 3 4 become 1 3 6, total unchanged, reserved <= quota *)
Example C09_ex_steal :
  match give_babies (ex_opts 20 10) ex_pop3_q [3; 1; 2] (ex_state [1; 2; 3]) with
  | Ok (p', _) => (quotas p', sp_sum (p_species p'), supers p')
  | _ => ([], -1, [])
  end = ([(1, 1); (2, 3); (3, 6)], 10, [(1, 0); (2, 0); (3, 0); (4, 2); (5, 0); (6, 5); (7, 0)]).
Proof. vm_compute. reflexivity. Qed.

Example C09_ex_delta :
  match delta_coding (ex_opts 0 10) ex_pop3_q [3; 1; 2] with
  | Ok p' => (quotas p', sp_sum (p_species p'), supers p')
  | _ => ([], -1, [])
  end = ([(1, 5); (2, 0); (3, 5)], 10, [(1, 5); (2, 0); (3, 0); (4, 0); (5, 0); (6, 5); (7, 0)]).
Proof. vm_compute. reflexivity. Qed.

(* five members, survival threshold 0.4: floor(0.4*5+1) = 3 parents, the two least fit are cut *)
Example C09_ex_parents :
  match adjust_fitness (ex_opts 0 5) (p_heap ex_pop5) (ex_species 1 3 0 [1; 2; 3; 4; 5]) with
  | Ok (h', s') =>
    (sp_orgs s', map (fun x => (o_key x, o_elim x, o_champ x)) h',
     match purge_organisms (p_with ex_pop5 [s'] [] (p_orgs ex_pop5) h') with
     | Ok p' => (members p', p_orgs p') | _ => ([], []) end)
  | _ => ([], [], ([], []))
  end = ([2; 4; 5; 1; 3],
         [(1, true, false); (2, false, true); (3, true, false); (4, false, false); (5, false, false)],
         ([(1, [2; 4; 5])], [2; 4; 5])).
Proof. vm_compute. reflexivity. Qed.

Example C09_ex_zero_quota :
  reproduce_species (ex_opts 0 10) 1 [] [1] (ex_species 1 3 0 [1; 2]) (p_heap ex_pop5) 100 (ex_state [])
  = Ok ((p_heap ex_pop5, 100, []), ex_state []).
Proof. vm_compute. reflexivity. Qed.

(* ================= float-level hypothesis discharged (proofs/FloatMonoQuota.v) ================= *)
From NeatModel Require FloatMonoQuota.

(* ExpectedOffspring is never negative when no fitness value is.  "Not below zero" is
   [PrimFloat.ltb x 0 = false] (zeros, positive finite numbers, +infinity, NaN): it follows from
   "finite and >= 0".  (It is NOT what countOffspring needs - NaN and +Inf convert to math.MinInt64 -
   see C09_expected_offspring_convertible for the statement that is.)  The sum of such floats is not below zero
   (possibly +infinity), so is the average, and a fitness divided by a non-zero average is not below
   zero (an average of +infinity gives 0, or NaN for an infinite fitness).  When the average is zero
   the code leaves ExpectedOffspring as it was, whence the last hypothesis. *)
Theorem C09_expected_offspring_not_negative :
  forall p p' orgs,
    purge_zero_offspring p = Ok p' ->
    hgets (p_heap p) (p_orgs p) = Ok orgs ->
    (forall y, In y orgs -> PrimFloat.ltb (o_fit y) 0%float = false) ->
    let avg := PrimFloat.div (fold_left (fun acc x => PrimFloat.add acc (o_fit x)) orgs 0%float) (f_of_Z (zlen orgs)) in
    (PrimFloat.eqb avg 0%float = true ->
     forall k x, In k (p_orgs p) -> hget (p_heap p) k = Ok x -> PrimFloat.ltb (o_exp x) 0%float = false) ->
    PrimFloat.ltb avg 0%float = false /\
    forall k x, In k (p_orgs p) -> hget (p_heap p') k = Ok x -> PrimFloat.ltb (o_exp x) 0%float = false.
Proof.
  intros p p' orgs Hp Ho Hfit avg Hz.
  exact (conj (FloatMonoQuota.pz_avg_not_lt0 orgs Hfit) (FloatMonoQuota.purge_zero_exp_nonneg p p' orgs Hp Ho Hfit Hz)).
Qed.
Print Assumptions C09_expected_offspring_not_negative.

(* finite and >= 0, or +infinity, as a float comparison, is "not below zero" *)
Theorem C09_nonneg_is_not_negative :
  forall x, PrimFloat.leb 0%float x = true -> PrimFloat.ltb x 0%float = false.
Proof. exact FloatMonoQuota.leb0_not_lt0. Qed.
Print Assumptions C09_nonneg_is_not_negative.

(* ExpectedOffspring is convertible when the fitness values are FINITE and >= 0: with at most 2^31
   organisms and a non-zero average every fitness / average is a finite float in [0, 2n] - in
   particular 0 <= e < 2^52 - whatever the magnitude of the values (subnormal numbers and overflow of
   the sum to +infinity included: fitness / +Inf = 0).  The float sum is at least every term; the
   average a = round(S/n) satisfies S/n <= 2a because doubling is exact and rounding is monotone;
   hence fitness/a <= 2n, which is a float.  Without finiteness the statement fails: +Inf / +Inf = NaN. *)
Theorem C09_expected_offspring_convertible :
  forall p p' orgs,
    purge_zero_offspring p = Ok p' ->
    hgets (p_heap p) (p_orgs p) = Ok orgs ->
    1 <= zlen orgs <= 2 ^ 31 ->
    (forall y, In y orgs -> PrimFloat.leb 0%float (o_fit y) = true /\ PrimFloat.ltb (o_fit y) infinity = true) ->
    (PrimFloat.eqb (PrimFloat.div (fold_left (fun acc x => PrimFloat.add acc (o_fit x)) orgs 0%float) (f_of_Z (zlen orgs))) 0%float = true ->
     forall k x, In k (p_orgs p) -> hget (p_heap p) k = Ok x ->
                 PrimFloat.leb 0%float (o_exp x) = true /\ PrimFloat.ltb (o_exp x) 0x1p+52%float = true) ->
    forall k x, In k (p_orgs p) -> hget (p_heap p') k = Ok x ->
                PrimFloat.leb 0%float (o_exp x) = true /\ PrimFloat.ltb (o_exp x) 0x1p+52%float = true.
Proof. exact FloatMonoQuota.purge_zero_exp_conv. Qed.
Print Assumptions C09_expected_offspring_convertible.

(* The headline C09_quotas_total_population_size with the hypothesis on the FITNESS values (as they
   are after adjustFitness) instead of the one on ExpectedOffspring: species members belong to
   Population.Organisms, there are at most 2^31 organisms, every fitness value is finite and >= 0, and,
   for the case of a zero average (in which the code does not write ExpectedOffspring), the old values
   are finite in [0, 2^52).  (Formerly stated for fitness "not below zero", which admits NaN and +Inf;
   that was true of the totalised int(x) only: see C09_ex_nan_quota.) *)
Theorem C09_quotas_total_population_size_from_fitness :
  forall p p' orgs sps T,
    purge_zero_offspring p = Ok p' ->
    hgets (p_heap p) (p_orgs p) = Ok orgs ->
    count_all (p_heap p') (p_species p) 0%float 0 = Ok (sps, T) ->
    p_species p <> [] -> NoDup (map sp_id (p_species p)) ->
    (forall s k, In s (p_species p) -> In k (sp_orgs s) -> In k (p_orgs p)) ->
    1 <= zlen orgs <= 2 ^ 31 ->
    (forall y, In y orgs -> PrimFloat.leb 0%float (o_fit y) = true /\ PrimFloat.ltb (o_fit y) infinity = true) ->
    (PrimFloat.eqb (PrimFloat.div (fold_left (fun acc x => PrimFloat.add acc (o_fit x)) orgs 0%float) (f_of_Z (zlen orgs))) 0%float = true ->
     forall k x, In k (p_orgs p) -> hget (p_heap p) k = Ok x ->
                 PrimFloat.leb 0%float (o_exp x) = true /\ PrimFloat.ltb (o_exp x) 0x1p+52%float = true) ->
    (T <= zlen orgs -> sp_sum (p_species p') = zlen orgs) /\
    (zlen orgs < T -> sp_sum (p_species p') = T) /\
    (forall s, In s (p_species p') -> 0 < sp_exp s) /\
    (forall s, In s (p_detached p') -> In s (p_detached p) \/ sp_exp s <= 0).
Proof. exact FloatMonoQuota.total_robust_fitness. Qed.
Print Assumptions C09_quotas_total_population_size_from_fitness.

(* the fitness produced by Species.adjustFitness is never below zero, whatever the raw fitness
   (negative values are replaced by 0.0001 before the division by the species size n >= 0) *)
Theorem C09_adjusted_fitness_not_negative :
  forall o age debt n x, 0 <= n -> PrimFloat.ltb (o_fit (adjust_one o age debt n x)) 0%float = false.
Proof. exact EpochTotalQuota.adjust_one_fit. Qed.
Print Assumptions C09_adjusted_fitness_not_negative.

(* With FINITE fitness values >= 0 (and a population of fewer than 2^63 organisms) whose average is
   not zero, the average and every organism's ExpectedOffspring are proper binary64 numbers: >= 0 or
   +infinity (overflow of the sum or of a quotient), never NaN.  Rounding to nearest is monotone, so
   sums and quotients of non-negative numbers are non-negative; fitness / +infinity is 0. *)
Theorem C09_expected_offspring_proper :
  forall p p' orgs,
    purge_zero_offspring p = Ok p' ->
    hgets (p_heap p) (p_orgs p) = Ok orgs ->
    1 <= zlen orgs < 2 ^ 63 ->
    (forall y, In y orgs -> PrimFloat.leb 0%float (o_fit y) = true /\ PrimFloat.ltb (o_fit y) infinity = true) ->
    let avg := PrimFloat.div (fold_left (fun acc x => PrimFloat.add acc (o_fit x)) orgs 0%float) (f_of_Z (zlen orgs)) in
    PrimFloat.eqb avg 0%float = false ->
    PrimFloat.leb 0%float avg = true /\
    forall k x, In k (p_orgs p) -> hget (p_heap p') k = Ok x -> PrimFloat.leb 0%float (o_exp x) = true.
Proof. exact FloatMonoQuota.purge_zero_exp_proper. Qed.
Print Assumptions C09_expected_offspring_proper.

(* the hypotheses of C09_quotas_total_population_size_from_fitness hold for the example population *)
Example C09_ex_from_fitness_hyps :
  match hgets (p_heap ex_pop3) (p_orgs ex_pop3) with
  | Ok orgs =>
    Z.leb 1 (zlen orgs) && Z.leb (zlen orgs) (2 ^ 31) &&
    forallb (fun y => negb (PrimFloat.ltb (o_fit y) 0) && PrimFloat.leb 0 (o_fit y) && PrimFloat.ltb (o_fit y) infinity) orgs &&
    negb (PrimFloat.eqb (PrimFloat.div (fold_left (fun acc x => PrimFloat.add acc (o_fit x)) orgs 0%float) (f_of_Z (zlen orgs))) 0) &&
    forallb (fun s => forallb (fun k => existsb (Z.eqb k) (p_orgs ex_pop3)) (sp_orgs s)) (p_species ex_pop3) &&
    negb (Nat.eqb (length (p_species ex_pop3)) 0)
  | _ => false end = true.
Proof. vm_compute. reflexivity. Qed.

(* "not below zero" does not suffice for the headline: a member whose expected offspring is NaN, +Inf
   or 2^63 makes its species' quota math.MinInt64 (amd64 conversion, F64.f_trunc_Z) *)
Example C09_ex_nan_quota :
  PrimFloat.ltb PrimFloat.nan 0%float = false /\ PrimFloat.ltb infinity 0%float = false /\
  fst (count_offspring_gen float_qnum [PrimFloat.nan] 0 0%float) = - 2 ^ 63 /\
  fst (count_offspring_gen float_qnum [infinity] 0 0%float) = - 2 ^ 63 /\
  fst (count_offspring_gen float_qnum [0x1p+63%float] 0 0%float) = - 2 ^ 63.
Proof. exact count_offspring_nan_negative. Qed.

(* ============================================================================================ *)
(* agent-quota: the float-level overshoot hypothesis "T <= n" — refuted for subnormal fitness     *)
(* values, proved for all ordinary ones (proofs/QuotaFloatSum.v, QuotaFloatSumA.v, QuotaFloatSumB.v) *)
(* ============================================================================================ *)
From NeatModel Require QuotaFloatSum QuotaFloatSumB.

(* Recorded finding `subnormal-fitness-quota-overshoot` (known_findings.txt, C09): "T <= n" does NOT
   follow from "fitness finite and not negative".  Four organisms of one species with shared fitness
   (2,1,1,1) x 2^-1074: every hypothesis of C09_quotas_total_population_size_from_fitness holds, the
   fitness values are finite, the average is not zero (5/4 units, rounded to 1 unit: a subnormal
   quotient has an absolute, not a relative rounding error), yet the chain total is 5 for 4
   organisms and the quotas of Population.Species total 5. *)
Theorem C09_quota_total_subnormal_refuted :
  exists p p' orgs sps T,
    purge_zero_offspring p = Ok p' /\
    hgets (p_heap p) (p_orgs p) = Ok orgs /\
    count_all (p_heap p') (p_species p) 0%float 0 = Ok (sps, T) /\
    p_species p <> [] /\ NoDup (map sp_id (p_species p)) /\
    (forall s k, In s (p_species p) -> In k (sp_orgs s) -> In k (p_orgs p)) /\
    (forall y, In y orgs -> PrimFloat.leb 0%float (o_fit y) = true /\ PrimFloat.ltb (o_fit y) infinity = true) /\
    PrimFloat.eqb (PrimFloat.div (fold_left (fun acc x => PrimFloat.add acc (o_fit x)) orgs 0%float) (f_of_Z (zlen orgs))) 0%float = false /\
    zlen orgs = 4 /\ T = 5 /\ sp_sum (p_species p') = 5.
Proof. exact QuotaFloatSum.quota_total_subnormal_refuted. Qed.
Print Assumptions C09_quota_total_subnormal_refuted.

(* The positive counterpart, for every population and every species structure: if every organism
   belongs to exactly one species (no duplicates in Population.Organisms nor among the species
   members, and the two list the same keys), there are at most 2^20 organisms, every shared fitness
   value f (Organism.Fitness as purgeZeroOffspringSpecies reads it) is finite with 0 <= f <= 2^1000
   and at least one is >= 2^-1000 (this excludes the finding above: the average is then a normal
   binary64 number), then the float chain does not overshoot, T <= n, and therefore the quotas of
   Population.Species total EXACTLY the number of organisms, all of them positive.
   Binary64 error analysis through Flocq: the left-to-right sum S of non-negative floats satisfies
   S >= exact sum * (1 - n 2^-53) without underflow error; the average and each quotient
   fitness/average carry a relative error 2^-53 (plus 2^-1075 absolute for the quotients); in
   countOffspring Floor, Mod(.,1) and the subtraction of Floor(skim) are exact and "skim += frac"
   errs by at most 2^-52; hence T <= n + 2^-10 < n + 1.  2^20 organisms and 2^(+-1000) are far
   beyond any use; the bounds are not tight. *)
Theorem C09_quota_total_le_population_size :
  forall p p' orgs sps T,
    purge_zero_offspring p = Ok p' ->
    hgets (p_heap p) (p_orgs p) = Ok orgs ->
    count_all (p_heap p') (p_species p) 0%float 0 = Ok (sps, T) ->
    NoDup (map sp_id (p_species p)) ->
    NoDup (p_orgs p) -> NoDup (concat (map sp_orgs (p_species p))) ->
    (forall k, In k (p_orgs p) <-> exists s, In s (p_species p) /\ In k (sp_orgs s)) ->
    zlen orgs <= 2 ^ 20 ->
    (forall y, In y orgs -> PrimFloat.leb 0%float (o_fit y) = true /\ PrimFloat.leb (o_fit y) 0x1p+1000%float = true) ->
    (exists y, In y orgs /\ PrimFloat.leb 0x1p-1000%float (o_fit y) = true) ->
    T <= zlen orgs /\ sp_sum (p_species p') = zlen orgs /\ (forall s, In s (p_species p') -> 0 < sp_exp s).
Proof. exact QuotaFloatSumB.quota_total_le_population_size. Qed.
Print Assumptions C09_quota_total_le_population_size.

(* the hypotheses of C09_quota_total_le_population_size hold for the example population (seven
   organisms in three species, fitness 0.1 ... 0.7): the boolean conjuncts are, in order, the size
   bound, the range of every fitness value, one value >= 2^-1000, every organism is a member of some
   species, every member is an organism of the population *)
Example C09_ex_le_population_size_hyps :
  NoDup (map sp_id (p_species ex_pop3)) /\ NoDup (p_orgs ex_pop3) /\ NoDup (concat (map sp_orgs (p_species ex_pop3))) /\
  match hgets (p_heap ex_pop3) (p_orgs ex_pop3) with
  | Ok orgs =>
    Z.leb (zlen orgs) (2 ^ 20) &&
    forallb (fun y => PrimFloat.leb 0 (o_fit y) && PrimFloat.leb (o_fit y) 0x1p+1000) orgs &&
    existsb (fun y => PrimFloat.leb 0x1p-1000 (o_fit y)) orgs &&
    forallb (fun k => existsb (fun s => existsb (Z.eqb k) (sp_orgs s)) (p_species ex_pop3)) (p_orgs ex_pop3) &&
    forallb (fun s => forallb (fun k => existsb (Z.eqb k) (p_orgs ex_pop3)) (sp_orgs s)) (p_species ex_pop3)
  | _ => false end = true.
Proof.
  split; [|split; [|split]]; [| | |vm_compute; reflexivity]; cbn;
    repeat (constructor; [cbn; intuition discriminate|]); constructor.
Qed.

(* ============================================================================================ *)
(* ==== added by agent "actbodies" (C09/C02: the quota loop tied to the source by translation) == *)
(* ============================================================================================ *)
(* gen/QuotaLoop.v is regenerated on every run from the BODY of Species.countOffspring in          *)
(* neat/genetics/species.go: [gen_count_offspring exps skim], over the members' ExpectedOffspring   *)
(* in species order (the only thing the loop reads), with int(x) = F64.f_trunc_Z, math.Floor =      *)
(* ffloor, math.Mod(x, 1.0) = fmod1.  The model's loop [count_offspring_gen float_qnum] -- the      *)
(* binary64 instance that the epoch model runs and that the float-level theorems above are about -- *)
(* equals the translated body for every list of values and every incoming carry (NaN, infinities,   *)
(* negative and out-of-range values included).  Editing the loop in the source breaks this.         *)
(* ============================================================================================ *)
From NeatModel Require QuotaLoop QuotaLoopAgree.

Theorem C09_quota_loop_is_the_translated_source :
  (forall (exps : list float) (skim : float),
     QuotaLoop.gen_count_offspring exps skim = count_offspring_gen float_qnum exps 0 skim) /\
  (forall (orgs : list organism) (skim : float),
     count_offspring orgs 0 skim = QuotaLoop.gen_count_offspring (map o_exp orgs) skim).
Proof. exact (conj QuotaLoopAgree.gen_count_offspring_agrees QuotaLoopAgree.count_offspring_is_translated). Qed.
Print Assumptions C09_quota_loop_is_the_translated_source.

(* the translated loop run over the example population of C09_ex_fixup (seven organisms in three species,
   expected offspring = fitness / mean fitness), carrying the fraction from species to species: the same
   quotas 2, 1, 3 that [count_all] yields there; and the out-of-range conversion of C09_ex_nan_quota *)
Example C09_ex_translated_quota_loop :
  match purge_zero_offspring ex_pop3 with
  | Ok p' =>
    fst (fold_left (fun (acc : list Z * float) s =>
           match hgets (p_heap p') (sp_orgs s) with
           | Ok orgs => let '(e, skim') := QuotaLoop.gen_count_offspring (map o_exp orgs) (snd acc) in (fst acc ++ [e], skim')
           | _ => acc
           end) (p_species ex_pop3) ([], 0%float))
  | _ => []
  end = [2; 1; 3] /\
  QuotaLoop.gen_count_offspring [0x1.8p+0; 0x1.cp-1; 0x1.4p+1]%float 0x1p-2%float = (5, 0x1p-3%float) /\
  fst (QuotaLoop.gen_count_offspring [PrimFloat.nan] 0%float) = - 2 ^ 63.
Proof. vm_compute. repeat split. Qed.

(* ============================================================================================ *)
(* ==== added by agent "actbodies" (C09/C02: the quota preparation tied to the source) ========== *)
(* ============================================================================================ *)
(* gen/QuotaPrep.v is regenerated on every run from the BODY of Population.purgeZeroOffspringSpecies *)
(* in neat/genetics/population.go: [gen_purge_zero_offspring], over the view of a population of     *)
(* model/QuotaView.v -- Organism structs (Fitness, ExpectedOffspring) and Species structs           *)
(* (Organisms, ExpectedOffspring) in pointer-keyed heaps, Population.Organisms / Species as pointer *)
(* lists; a field read or write through a pointer without a struct is a panic value; the calls of   *)
(* Species.countOffspring are the translated loop of gen/QuotaLoop.v.                                *)
(* [QuotaPrepAgree.abs p] is that view of a model population p: an organism pointer is its heap key *)
(* (struct: o_fit, o_exp), a species pointer its id (struct: sp_orgs, sp_exp).                       *)
(* For every population satisfying the partition invariant Part (the invariant between epochs of    *)
(* C02) the model's purge_zero_offspring -- the subject of the quota theorems above -- returns a     *)
(* population p', and the translated code run on the view of p returns, without panic, the view of   *)
(* p': the same Organism structs (every ExpectedOffspring written), the same Population.Organisms    *)
(* and Population.Species (the species kept, in order), the model's species behind every pointer of  *)
(* Population.Species and behind the pointer of every species the model detaches.                    *)
(* ============================================================================================ *)
From NeatModel Require PopBase GoSlice GoHeap QuotaView QuotaPrep QuotaPrepAgree.

Theorem C09_quota_preparation_is_the_translated_source :
  forall (p : population) (generation : Z),
    PopBase.Part p ->
    exists p' : population,
      purge_zero_offspring p = Ok p' /\
      exists r : QuotaView.qpop,
        QuotaPrep.gen_purge_zero_offspring (QuotaPrepAgree.abs p) generation = Ok r /\
        QuotaView.qp_organisms r = QuotaView.qp_organisms (QuotaPrepAgree.abs p') /\
        QuotaView.qp_Organisms r = QuotaView.qp_Organisms (QuotaPrepAgree.abs p') /\
        QuotaView.qp_Species r = QuotaView.qp_Species (QuotaPrepAgree.abs p') /\
        (forall s, In s (p_species p' ++ p_detached p') ->
                   GoHeap.gh_get (QuotaView.qp_species r) (sp_id s) = Ok (QuotaPrepAgree.sview s)).
Proof. exact QuotaPrepAgree.gen_purge_zero_offspring_agrees. Qed.
Print Assumptions C09_quota_preparation_is_the_translated_source.

(* the translated function on the view of the example population of C09_ex_fixup: the same quotas 2, 1, 4
   (the +1 fix-up fires); a species that lists a pointer without an Organism struct makes it panic *)
Example C09_ex_translated_preparation :
  match QuotaPrep.gen_purge_zero_offspring (QuotaPrepAgree.abs ex_pop3) 0 with
  | Ok r => map (fun k => match GoHeap.gh_get (QuotaView.qp_species r) k with
                          | Ok s => (k, QuotaView.qs_ExpectedOffspring s) | _ => (k, -1) end) (QuotaView.qp_Species r)
  | _ => []
  end = [(1, 2); (2, 1); (3, 4)] /\
  QuotaPrep.gen_purge_zero_offspring
    {| QuotaView.qp_organisms := [(7, {| QuotaView.qo_Fitness := 1%float; QuotaView.qo_ExpectedOffspring := 0%float |})];
       QuotaView.qp_species := [(1, {| QuotaView.qs_Organisms := [7; 8]; QuotaView.qs_ExpectedOffspring := 0 |})];
       QuotaView.qp_Organisms := [7]; QuotaView.qp_Species := [1] |} 0 = GoPanic GoSlice.panic_nil_deref.
Proof. vm_compute. split; reflexivity. Qed.
