(* C01 — every genetic operator and epoch yields only well-formed genomes.
   Property theorems only.  [wf] (proofs/WF.v) is the predicate of the property: genes strictly
   ascending by innovation number, no two genes with the same (source, target, recurrence flag),
   nodes strictly ascending by id, every gene endpoint resolves among the genome's own nodes and no
   gene ends in a sensor, trait references resolve among the genome's own traits, trait ids
   consecutive, at least one gene and one output node, non-modular.  [retains_io g g']: every input,
   bias and output node (id and role) of g is in g'.  [env_ok e g]: the innovation environment
   (counters and this generation's records) is consistent with the genome (without it the claim is
   false: a recorded number that collides with a gene already in the genome would break ordering). *)
From NeatModel Require Import Compat.
From NeatModel Require Import Res F64 GoRand Genome Options Insert Dup Mutate Mate Population InsertSpec WF MateSpec MateWF MutateWF Registry PopWF Genesis Graph GenesisSpec GraphSpec GraphView.

(* ---- duplication ---- *)
Theorem C01_duplicate_wf : forall g id, wf g -> duplicate g id = Ok (with_id g id) /\ wf (with_id g id).
Proof. intros g id H. split; [now apply duplicate_wf | now apply wf_with_id]. Qed.
Print Assumptions C01_duplicate_wf.

(* ---- ordered insertion, the mechanism every structural operator relies on ---- *)
Theorem C01_gene_insert_keeps_order : forall gs x,
    asc g_innov gs -> ~ In (g_innov x) (map g_innov gs) ->
    asc g_innov (gene_insert gs x) /\ (forall y, In y (gene_insert gs x) <-> y = x \/ In y gs).
Proof.
  intros gs x H1 H2. split; [now apply insert_sorted_asc | intros y; apply insert_sorted_In].
Qed.
Print Assumptions C01_gene_insert_keeps_order.

Theorem C01_node_insert_keeps_order : forall ns x,
    asc n_id ns -> ~ In (n_id x) (map n_id ns) ->
    asc n_id (node_insert ns x) /\ (forall y, In y (node_insert ns x) <-> y = x \/ In y ns).
Proof.
  intros ns x H1 H2. split; [now apply insert_sorted_asc | intros y; apply insert_sorted_In].
Qed.
Print Assumptions C01_node_insert_keeps_order.

(* ---- the mutators: for every tape, every option record and every innovation environment that is
   consistent with the genome, a mutator that returns leaves the genome well-formed, keeps its
   input/bias/output nodes, keeps the environment consistent with the result and only extends it
   (counters grow, added records carry fresh numbers) ---- *)
Local Notation preserved g s g' s' :=
  (wf g' /\ retains_io g g' /\ env_ok (s_env s') g' /\ env_extends (s_env s) (s_env s')).

Theorem C01_mutate_add_node_wf : forall o g s g' b s',
    mutate_add_node o g s = Ok ((g', b), s') -> wf g -> env_ok (s_env s) g -> preserved g s g' s'.
Proof. exact mutate_add_node_wf. Qed.
Print Assumptions C01_mutate_add_node_wf.

Theorem C01_mutate_add_link_wf : forall o g s g' b s',
    mutate_add_link o g s = Ok ((g', b), s') -> wf g -> env_ok (s_env s) g -> preserved g s g' s'.
Proof. exact mutate_add_link_wf. Qed.
Print Assumptions C01_mutate_add_link_wf.

Theorem C01_mutate_connect_sensors_wf : forall g s g' b s',
    mutate_connect_sensors g s = Ok ((g', b), s') -> wf g -> env_ok (s_env s) g -> preserved g s g' s'.
Proof. exact mutate_connect_sensors_wf. Qed.
Print Assumptions C01_mutate_connect_sensors_wf.

Theorem C01_mutate_link_weights_wf : forall pw rt ga g s g' b s',
    mutate_link_weights pw rt ga g s = Ok ((g', b), s') -> wf g -> env_ok (s_env s) g -> preserved g s g' s'.
Proof. exact mutate_link_weights_wf. Qed.
Print Assumptions C01_mutate_link_weights_wf.

Theorem C01_mutate_traits_wf : forall o times g s g' b s',
    (mutate_random_trait o g s = Ok ((g', b), s') \/ mutate_link_trait times g s = Ok ((g', b), s') \/
     mutate_node_trait times g s = Ok ((g', b), s')) ->
    wf g -> env_ok (s_env s) g -> preserved g s g' s'.
Proof.
  intros o times g s g' b s' [H|[H|H]] Hw He;
    [exact (mutate_random_trait_wf o g s g' b s' H Hw He) | exact (mutate_link_trait_wf times g s g' b s' H Hw He)
     | exact (mutate_node_trait_wf times g s g' b s' H Hw He)].
Qed.
Print Assumptions C01_mutate_traits_wf.

Theorem C01_mutate_enable_wf : forall times g s g' b s',
    (mutate_toggle_enable times g s = Ok ((g', b), s') \/ mutate_gene_reenable g s = Ok ((g', b), s')) ->
    wf g -> env_ok (s_env s) g -> preserved g s g' s'.
Proof.
  intros times g s g' b s' [H|H] Hw He;
    [exact (mutate_toggle_enable_wf times g s g' b s' H Hw He) | exact (mutate_gene_reenable_wf g s g' b s' H Hw He)].
Qed.
Print Assumptions C01_mutate_enable_wf.

Theorem C01_mutate_all_nonstructural_wf : forall o g s g' b s',
    mutate_all_nonstructural o g s = Ok ((g', b), s') -> wf g -> env_ok (s_env s) g -> preserved g s g' s'.
Proof. exact mutate_all_nonstructural_wf. Qed.
Print Assumptions C01_mutate_all_nonstructural_wf.

(* a genome that was consistent with the environment stays so while other genomes are mutated *)
Theorem C01_env_ok_extends : forall e e' g, env_ok e g -> env_extends e e' -> env_ok e' g.
Proof. exact env_ok_extends. Qed.
Print Assumptions C01_env_ok_extends.

(* ---- the three crossovers: children of well-formed relatives (common ancestry: consistent
   numbering, same trait ids and parameter counts, same input/bias/output nodes) are well-formed
   and keep the input/bias/output nodes of both parents; for every tape ---- *)
Theorem C01_mate_multipoint_wf : forall p1 p2 id f1 f2 s c s',
    relatives p1 p2 -> mate_multipoint p1 p2 id f1 f2 s = Ok (c, s') ->
    wf c /\ retains_io p1 c /\ retains_io p2 c.
Proof. exact mate_multipoint_wf. Qed.
Print Assumptions C01_mate_multipoint_wf.

Theorem C01_mate_multipoint_avg_wf : forall p1 p2 id f1 f2 s c s',
    relatives p1 p2 -> mate_multipoint_avg p1 p2 id f1 f2 s = Ok (c, s') ->
    wf c /\ retains_io p1 c /\ retains_io p2 c.
Proof. exact mate_multipoint_avg_wf. Qed.
Print Assumptions C01_mate_multipoint_avg_wf.

Theorem C01_mate_singlepoint_wf : forall p1 p2 id s c s',
    relatives p1 p2 ->
    (forall x1 x2, hd_error (genes p1) = Some x1 -> hd_error (genes p2) = Some x2 -> g_innov x1 = g_innov x2) ->
    mate_singlepoint p1 p2 id s = Ok (c, s') ->
    wf c /\ retains_io p1 c /\ retains_io p2 c.
Proof. exact mate_singlepoint_wf. Qed.
Print Assumptions C01_mate_singlepoint_wf.

(* without common ancestry the single-point crossover can return a child without genes (recorded
   finding: known_findings.txt, key singlepoint-empty-child-unrelated-parents) *)
Theorem C01_singlepoint_unrelated_refuted : forall p1 p2 id s s' c,
    mate_hyps p1 p2 -> genes p1 <> [] -> genes p2 <> [] -> mate_singlepoint p1 p2 id s = Ok (c, s') ->
    forall x1 x2,
      hd_error (genes (if Nat.ltb (length (genes p1)) (length (genes p2)) then p1 else p2)) = Some x1 ->
      hd_error (genes (if Nat.ltb (length (genes p1)) (length (genes p2)) then p2 else p1)) = Some x2 ->
      g_innov x2 < g_innov x1 -> genes c = [] /\ ~ wf c.
Proof.
  intros p1 p2 id s s' c H G1 G2 Hr x1 x2 H1 H2 Hlt.
  assert (E : genes c = []) by exact (sp_unrelated_empty p1 p2 id s s' c H G1 G2 Hr x1 x2 H1 H2 Hlt).
  split; [exact E|]. intros W. exact (wf_nonempty _ W E).
Qed.
Print Assumptions C01_singlepoint_unrelated_refuted.

(* ---- population level: spawning and every epoch turnover (sequential executor), any number of
   generations, any fitness assignments, any tapes: every genome held by the population (old generation
   and babies alike, looked up through any key) is well-formed and retains the input, bias and output
   nodes of the start genome.  [history o p s l p' s']: any number of rounds of (set_fitness; next_epoch),
   each with an arbitrary generation number, executor state and tape; l lists the intermediate
   populations. ---- *)
Theorem C01_spawn_wf : forall o g s0 p s,
    wf g -> Genome.innovs (s_env s0) = [] -> new_population o g s0 = Ok (p, s) ->
    forall k x, hget (p_heap p) k = Ok x -> wf (o_genome x) /\ retains_io g (o_genome x).
Proof.
  intros o g s0 p s W E H k x Hk. exact (pop_wf_reachable g p k x (pop_wf_spawn o g s0 p s W E H) Hk).
Qed.
Print Assumptions C01_spawn_wf.

Theorem C01_history_wf : forall o g s0 p s l p' s',
    wf g -> Genome.innovs (s_env s0) = [] -> new_population o g s0 = Ok (p, s) -> history o p s l p' s' ->
    forall q, In q (p :: l) ->
    forall k x, hget (p_heap q) k = Ok x -> wf (o_genome x) /\ retains_io g (o_genome x).
Proof.
  intros o g s0 p s l p' s' W E H Hh q Hq k x Hk.
  exact (pop_wf_reachable g q k x (pop_wf_history o g s0 p s l p' s' W E H Hh q Hq) Hk).
Qed.
Print Assumptions C01_history_wf.

(* every well-formed genome can be expressed as a network: the two error conditions of Genesis (no genes,
   no output node) are excluded by wf, and every gene endpoint resolves *)
Theorem C01_wf_genesis_ok : forall g, wf g -> genesis_check g = Ok tt.
Proof.
  intros g W. unfold genesis_check. destruct (genes g) eqn:E; [exfalso; exact (wf_nonempty _ W E)|].
  destruct (wf_output _ W) as [n [Hn Ht]].
  assert (Hex : existsb (fun n0 : node => Z.eqb (n_type n0) OUTPUT) (nodes g) = true).
  { apply existsb_exists. exists n. split; [exact Hn|]. rewrite Ht. reflexivity. }
  now rewrite Hex.
Qed.
Print Assumptions C01_wf_genesis_ok.

(* ... and the model of Genome.Genesis (validated against the real Genesis by C11's correspondence)
   returns a network for it, under any network id *)
Theorem C01_wf_expressible : forall g id, wf g -> exists n, genesis g id = Ok n.
Proof.
  intros g id W.
  assert (Hnd : NoDup (map n_id (nodes g))) by (apply asc_NoDup; exact (WF.wf_nodes _ W)).
  apply genesis_succeeds.
  - exact Hnd.
  - intros x Hx _. destruct (WF.wf_endpoints _ W x Hx) as [a [b [Ha [Hb _]]]].
    apply node_with_id_In in Ha. apply node_with_id_In in Hb. destruct Ha as [Ha <-]. destruct Hb as [Hb <-].
    split; now apply in_map.
  - rewrite (WF.wf_nonmodular _ W). intros m [].
  - exact (WF.wf_nonempty _ W).
  - destruct (WF.wf_output _ W) as [n [Hn Ht]]. exists n. split; assumption.
Qed.
Print Assumptions C01_wf_expressible.

(* ---- random construction (newGenomeRand, NewPopulationRandom; model/RandGenome.v, validated against the real
   functions by the correspondence shards 200+ of C01).  For every tape, every option record and all parameters
   with at least one input and one output and 0 <= n <= maxHidden: a genome that new_genome_rand returns has
   every component of [wf] except "has a gene"; so the randomly constructed genomes with at least one connection
   gene are well-formed. ---- *)
From NeatModel Require Import RandGenome RandGenomeSpec.
From NeatModel Require GoSource GenomeLit RandCases.

Theorem C01_random_genome_components : forall o new_id in_ out n max_hidden recurrent link_prob s g s',
    1 <= in_ -> 1 <= out -> 0 <= n <= max_hidden ->
    new_genome_rand o new_id in_ out n max_hidden recurrent link_prob s = Ok (g, s') ->
    asc n_id (nodes g) /\ asc g_innov (genes g) /\
    (forall x, In x (genes g) ->
               exists a b, node_with_id (g_in x) (nodes g) = Some a /\ node_with_id (g_out x) (nodes g) = Some b /\
                           is_sensor b = false) /\
    NoDup (map (fun x => (g_in x, g_out x, g_rec x)) (genes g)) /\
    NoDup (map (fun x => (g_in x, g_out x)) (genes g)) /\
    trait_refs_ok g /\ traits_ok g /\ has_output g /\ modules g = [] /\ gid g = new_id /\ s_env s' = s_env s.
Proof. exact new_genome_rand_components. Qed.
Print Assumptions C01_random_genome_components.

Theorem C01_random_genome_wf : forall o new_id in_ out n max_hidden recurrent link_prob s g s',
    1 <= in_ -> 1 <= out -> 0 <= n <= max_hidden ->
    new_genome_rand o new_id in_ out n max_hidden recurrent link_prob s = Ok (g, s') ->
    genes g <> [] -> wf g.
Proof. exact new_genome_rand_wf. Qed.
Print Assumptions C01_random_genome_wf.

(* the documented nodes: inputs 1..in-1 and the bias in (NullActivation = 17), hidden in+1..in+n with one of the
   registered activations, outputs in+maxHidden+1..in+maxHidden+out (SigmoidSteepened = 4), all on trait 1,
   and no other node *)
Theorem C01_random_genome_nodes : forall o new_id in_ out n max_hidden recurrent link_prob s g s',
    1 <= in_ -> 1 <= out -> 0 <= n <= max_hidden ->
    new_genome_rand o new_id in_ out n max_hidden recurrent link_prob s = Ok (g, s') ->
    (forall i, 1 <= i <= in_ ->
               node_with_id i (nodes g) =
               Some {| n_id := i; n_type := (if Z.eqb i in_ then BIAS else INPUT); n_act := 17; n_trait := Some 1 |}) /\
    (forall i, in_ < i <= in_ + n ->
               exists a, node_with_id i (nodes g) = Some {| n_id := i; n_type := HIDDEN; n_act := a; n_trait := Some 1 |} /\
                         In a (o_activators o)) /\
    (forall i, in_ + max_hidden + 1 <= i <= in_ + max_hidden + out ->
               node_with_id i (nodes g) = Some {| n_id := i; n_type := OUTPUT; n_act := 4; n_trait := Some 1 |}) /\
    (forall x, In x (nodes g) -> 1 <= n_id x <= in_ + n \/ in_ + max_hidden + 1 <= n_id x <= in_ + max_hidden + out).
Proof. exact new_genome_rand_nodes. Qed.
Print Assumptions C01_random_genome_nodes.

(* the genes: the innovation number is the position of the matrix cell (column = target, row = source), no gene
   ends in a sensor, the recurrence flag is set exactly on and above the diagonal and only if recurrent links were
   asked for, every gene is enabled, on trait 1, with mutation number = weight *)
Theorem C01_random_genome_genes : forall o new_id in_ out n max_hidden recurrent link_prob s g s',
    1 <= in_ -> 1 <= out -> 0 <= n <= max_hidden ->
    new_genome_rand o new_id in_ out n max_hidden recurrent link_prob s = Ok (g, s') ->
    forall x, In x (genes g) ->
      let T := in_ + out + max_hidden in
      1 <= g_in x <= T /\ in_ < g_out x <= T /\ g_innov x = (g_out x - 1) * T + (g_in x - 1) /\ 0 <= g_innov x < T * T /\
      g_rec x = negb (Z.gtb (g_out x) (g_in x)) /\ (g_rec x = true -> recurrent = true) /\
      g_en x = true /\ g_trait x = Some 1 /\ g_mut x = g_w x.
Proof. exact new_genome_rand_genes. Qed.
Print Assumptions C01_random_genome_genes.

(* population level: every genome of a randomly constructed population (looked up through any key) that has a
   connection gene is well-formed; all genomes carry the same input, bias and output nodes; the population's
   counters lie above every innovation number and node id in use *)
Theorem C01_random_population_wf : forall o in_ out max_hidden recurrent link_prob s p s',
    1 <= in_ -> 1 <= out ->
    new_population_random o in_ out max_hidden recurrent link_prob s = Ok (p, s') ->
    forall k x, hget (p_heap p) k = Ok x ->
      (genes (o_genome x) <> [] -> wf (o_genome x)) /\
      (forall i, 1 <= i <= in_ ->
                 node_with_id i (nodes (o_genome x)) =
                 Some {| n_id := i; n_type := (if Z.eqb i in_ then BIAS else INPUT); n_act := 17; n_trait := Some 1 |}) /\
      (forall i, in_ + max_hidden + 1 <= i <= in_ + max_hidden + out ->
                 node_with_id i (nodes (o_genome x)) = Some {| n_id := i; n_type := OUTPUT; n_act := 4; n_trait := Some 1 |}) /\
      (forall y, In y (genes (o_genome x)) -> 0 <= g_innov y < next_innov (s_env s') - 1) /\
      (forall m, In m (nodes (o_genome x)) -> 1 <= n_id m < next_node (s_env s')).
Proof. exact new_population_random_wf. Qed.
Print Assumptions C01_random_population_wf.

(* non-vacuity: on the stream of rand.Seed(42) the constructor returns a genome with genes (3 inputs, 2 outputs,
   2 of 3 hidden nodes, recurrent links, link probability 1/2, two registered activators), and
   NewPopulationRandom returns a population of 4 genomes that all have genes *)
Definition c01_rand_opts : options :=
  GenomeLit.OPT [0%float; 0%float; 0%float; 1%float; 1%float; 0x1p-1%float; 3%float] 4 15 20 0 false [4; 11] [0x1p-1%float; 0x1p-1%float].
Definition c01_rand_st : st :=
  {| s_tape := GoSource.go_tape 42 2000; s_env := {| Genome.innovs := []; next_innov := 0; next_node := 0 |} |}.

Example C01_random_genome_nonvacuous :
  exists g s', new_genome_rand c01_rand_opts 7 3 2 2 3 true 0x1p-1%float c01_rand_st = Ok (g, s') /\
               genes g <> [] /\ (length (nodes g) = 7)%nat.
Proof.
  assert (H : match new_genome_rand c01_rand_opts 7 3 2 2 3 true 0x1p-1%float c01_rand_st with
              | Ok (g, _) => negb (Nat.eqb (length (genes g)) 0) && Nat.eqb (length (nodes g)) 7
              | _ => false
              end = true) by (vm_compute; reflexivity).
  destruct (new_genome_rand c01_rand_opts 7 3 2 2 3 true 0x1p-1%float c01_rand_st) as [[g s']| | | | |]; try discriminate H.
  exists g, s'. split; [reflexivity|]. apply andb_true_iff in H. destruct H as [H1 H2]. split.
  - intros E. rewrite E in H1. discriminate H1.
  - apply Nat.eqb_eq. exact H2.
Qed.

Example C01_random_population_nonvacuous :
  exists p s', new_population_random c01_rand_opts 3 2 3 true 0x1p-1%float c01_rand_st = Ok (p, s') /\
               (length (p_heap p) = 4)%nat /\
               forallb (fun x => negb (Nat.eqb (length (genes (o_genome x))) 0)) (p_heap p) = true.
Proof.
  assert (H : match new_population_random c01_rand_opts 3 2 3 true 0x1p-1%float c01_rand_st with
              | Ok (p, _) => Nat.eqb (length (p_heap p)) 4 &&
                             forallb (fun x => negb (Nat.eqb (length (genes (o_genome x))) 0)) (p_heap p)
              | _ => false
              end = true) by (vm_compute; reflexivity).
  destruct (new_population_random c01_rand_opts 3 2 3 true 0x1p-1%float c01_rand_st) as [[p s']| | | | |]; try discriminate H.
  exists p, s'. split; [reflexivity|]. apply andb_true_iff in H. destruct H as [H1 H2]. split; [|exact H2].
  apply Nat.eqb_eq. exact H1.
Qed.

(* ====================================================================================================== *)
(* agent-rand2: the exact boundary of the finding singlepoint-empty-child-unrelated-parents (D13).        *)
(* For populations made by NewPopulationRandom (genomes WITHOUT common ancestry) single-point crossover    *)
(* is the ONLY obstacle: if every constructed genome has a connection gene and the options are such that   *)
(* single-point crossover is never chosen, every genome of every epoch is well-formed and keeps the        *)
(* input, bias and output nodes.  Proofs: proofs/NoSinglePoint.v (the method draw, binary64),              *)
(* proofs/RandPopWF.v (the weakened registry invariant GInvR: see props/C03.v).                            *)
(*                                                                                                        *)
(* The method draw of Species.reproduce (species.go:445-465; model: Population.one_baby):                  *)
(*     if rand.Float64() < MateMultipointProb { mateMultipoint }                                           *)
(*     else if rand.Float64() < MateMultipointAvgProb/(MateMultipointAvgProb+MateSinglepointProb) { mateMultipointAvg } *)
(*     else { mateSinglePoint }                                                                            *)
(* The condition on the options ("no_single o" in the proofs, written out in every statement below):       *)
(*     1 <= MateMultipointProb   or   1 <= MateMultipointAvgProb/(MateMultipointAvgProb+MateSinglepointProb) *)
(* in binary64 (NaN fails both).  MateSinglepointProb = 0 alone is NOT enough: with MateMultipointAvgProb  *)
(* = 0 as well the quotient is 0/0 = NaN and the third branch is taken whenever the first draw fails.      *)
(* ====================================================================================================== *)
From NeatModel Require Import NoSinglePoint RandPopWF.

(* under the condition, the method choice never reaches its third branch: whatever computation stands
   there (m3, m3'), the result is the same; for EVERY state, i.e. every tape (the model's rand.Float64()
   is below 1 for every tape cell, genuine Int63() draw or not) *)
Theorem C01_single_point_never_chosen : forall (A : Type) o (m1 m2 m3 m3' : @M st A) s,
    (PrimFloat.leb 1 (o_mate_multi o) = true \/
     PrimFloat.leb 1 (PrimFloat.div (o_mate_multi_avg o) (PrimFloat.add (o_mate_multi_avg o) (o_mate_single o))) = true) ->
    (let! r3 := r_float64 in
     if PrimFloat.ltb r3 (o_mate_multi o) then m1
     else let! r4 := r_float64 in
          if PrimFloat.ltb r4 (PrimFloat.div (o_mate_multi_avg o) (PrimFloat.add (o_mate_multi_avg o) (o_mate_single o)))
          then m2 else m3) s =
    (let! r3 := r_float64 in
     if PrimFloat.ltb r3 (o_mate_multi o) then m1
     else let! r4 := r_float64 in
          if PrimFloat.ltb r4 (PrimFloat.div (o_mate_multi_avg o) (PrimFloat.add (o_mate_multi_avg o) (o_mate_single o)))
          then m2 else m3') s.
Proof. intros A o m1 m2 m3 m3' s H. exact (method_draw_never_single o m1 m2 m3 m3' s H). Qed.
Print Assumptions C01_single_point_never_chosen.

(* the condition is also necessary: when it fails, the two tape cells 2^63 - 2^10 (each yields 1 - 2^-53, the
   largest value of rand.Float64()) make both comparisons fail, so mateSinglePoint is called *)
Theorem C01_single_point_condition_necessary : forall o e t,
    ~ (PrimFloat.leb 1 (o_mate_multi o) = true \/
       PrimFloat.leb 1 (PrimFloat.div (o_mate_multi_avg o) (PrimFloat.add (o_mate_multi_avg o) (o_mate_single o))) = true) ->
    let s := {| s_tape := (2 ^ 63 - 2 ^ 10) :: (2 ^ 63 - 2 ^ 10) :: t; s_env := e |} in
    exists s1 s2, r_float64 s = Ok (0x1.fffffffffffffp-1%float, s1) /\ r_float64 s1 = Ok (0x1.fffffffffffffp-1%float, s2) /\
      PrimFloat.ltb 0x1.fffffffffffffp-1%float (o_mate_multi o) = false /\
      PrimFloat.ltb 0x1.fffffffffffffp-1%float
                    (PrimFloat.div (o_mate_multi_avg o) (PrimFloat.add (o_mate_multi_avg o) (o_mate_single o))) = false.
Proof. exact no_single_necessary. Qed.
Print Assumptions C01_single_point_condition_necessary.

(* a sufficient reading of the condition: MateSinglepointProb = 0 and MateMultipointAvgProb finite and positive *)
Theorem C01_single_point_prob_zero : forall o,
    o_mate_single o = 0%float ->
    PrimFloat.ltb 0 (o_mate_multi_avg o) = true -> PrimFloat.ltb (o_mate_multi_avg o) infinity = true ->
    PrimFloat.leb 1 (o_mate_multi o) = true \/
    PrimFloat.leb 1 (PrimFloat.div (o_mate_multi_avg o) (PrimFloat.add (o_mate_multi_avg o) (o_mate_single o))) = true.
Proof. exact no_single_zero. Qed.
Print Assumptions C01_single_point_prob_zero.

(* the history theorem for random populations: C01_history_wf with new_population replaced by
   new_population_random (every genome of which has a gene: C01_random_population_wf characterises the
   others) and the condition on the options; every genome of every population of the history is well-formed
   and carries the documented input, bias and output nodes *)
Theorem C01_history_wf_random : forall o in_ out max_hidden recurrent link_prob s0 p s l p' s',
    1 <= in_ -> 1 <= out -> Genome.innovs (s_env s0) = [] ->
    (PrimFloat.leb 1 (o_mate_multi o) = true \/
     PrimFloat.leb 1 (PrimFloat.div (o_mate_multi_avg o) (PrimFloat.add (o_mate_multi_avg o) (o_mate_single o))) = true) ->
    new_population_random o in_ out max_hidden recurrent link_prob s0 = Ok (p, s) ->
    (forall x, In x (p_heap p) -> genes (o_genome x) <> []) ->
    history o p s l p' s' ->
    forall q, In q (p :: l) -> forall x, In x (p_heap q) ->
      wf (o_genome x) /\
      (forall i, 1 <= i <= in_ -> In (i, if Z.eqb i in_ then BIAS else INPUT) (io_nodes (o_genome x))) /\
      (forall i, in_ + max_hidden + 1 <= i <= in_ + max_hidden + out -> In (i, OUTPUT) (io_nodes (o_genome x))).
Proof. exact random_history_wf. Qed.
Print Assumptions C01_history_wf_random.

(* the same through the key lists, in the shape of C01_history_wf *)
Theorem C01_history_wf_random_reachable : forall o in_ out max_hidden recurrent link_prob s0 p s l p' s',
    1 <= in_ -> 1 <= out -> Genome.innovs (s_env s0) = [] ->
    (PrimFloat.leb 1 (o_mate_multi o) = true \/
     PrimFloat.leb 1 (PrimFloat.div (o_mate_multi_avg o) (PrimFloat.add (o_mate_multi_avg o) (o_mate_single o))) = true) ->
    new_population_random o in_ out max_hidden recurrent link_prob s0 = Ok (p, s) ->
    (forall x, In x (p_heap p) -> genes (o_genome x) <> []) ->
    history o p s l p' s' ->
    forall q, In q (p :: l) -> forall k x, hget (p_heap q) k = Ok x ->
      wf (o_genome x) /\ forall a, In a (p_heap p) -> retains_io (o_genome a) (o_genome x).
Proof. exact random_history_wf_reachable. Qed.
Print Assumptions C01_history_wf_random_reachable.

(* non-vacuity: rand.Seed(42), NewPopulationRandom(3, 2, 3, true, 0.5) with PopSize 8 returns 8 genomes that all
   have genes; with MateMultipointProb 0.6, MateMultipointAvgProb 0.4, MateSinglepointProb 0 the condition holds;
   two epochs (fitness 1..8, compatibility threshold 100 so that the unrelated genomes share a species and mate)
   succeed, and babies of both epochs were made by crossover *)
Definition c01_rand_epoch_opts : options :=
  GenomeLit.OPT
      [0x1p-01%float; 0x1p+00%float; 0x1.4p+01%float; 0x1p+00%float; 0x1p+00%float; 0x1.999999999999ap-02%float;
       0x1.9p+6%float; 0x1p+00%float; 0x1.999999999999ap-03%float; 0x1p-02%float; 0x1.999999999999ap-04%float;
       0x1.999999999999ap-04%float; 0x1.999999999999ap-04%float; 0x1.ccccccccccccdp-01%float; 0x1.999999999999ap-04%float;
       0x1.999999999999ap-04%float; 0x1.3333333333333p-02%float; 0x1p-01%float; 0x1.999999999999ap-04%float;
       0x1.999999999999ap-04%float; 0x1.3333333333333p-01%float; 0x1.999999999999ap-02%float; 0%float;
       0x1.999999999999ap-03%float; 0x1.999999999999ap-03%float] 8 15 20 0 false [4; 11] [0x1p-1%float; 0x1p-1%float].
Definition c01_rand_epoch_fit : list float := [1; 2; 3; 4; 5; 6; 7; 8]%float.

Example C01_history_wf_random_nonvacuous :
  (PrimFloat.leb 1 (o_mate_multi c01_rand_epoch_opts) = true \/
   PrimFloat.leb 1 (PrimFloat.div (o_mate_multi_avg c01_rand_epoch_opts)
                                  (PrimFloat.add (o_mate_multi_avg c01_rand_epoch_opts) (o_mate_single c01_rand_epoch_opts))) = true) /\
  Genome.innovs (s_env c01_rand_st) = [] /\
  exists p s l p' s',
    new_population_random c01_rand_epoch_opts 3 2 3 true 0x1p-1%float c01_rand_st = Ok (p, s) /\
    (length (p_heap p) = 8)%nat /\ (forall x, In x (p_heap p) -> genes (o_genome x) <> []) /\
    history c01_rand_epoch_opts p s l p' s' /\ (length l = 2)%nat /\
    forallb (fun q => existsb o_mate (p_heap q)) l = true.
Proof.
  split; [right; vm_compute; reflexivity|]. split; [reflexivity|].
  assert (H : match run_random c01_rand_epoch_opts 3 2 3 true 0x1p-1%float c01_rand_st c01_rand_epoch_fit 2 with
              | Ok (p :: l, _) => Nat.eqb (length (p_heap p)) 8 &&
                                  forallb (fun x => negb (Nat.eqb (length (genes (o_genome x))) 0)) (p_heap p) &&
                                  forallb (fun q => existsb o_mate (p_heap q)) l
              | _ => false
              end = true) by (vm_compute; reflexivity).
  destruct (run_random c01_rand_epoch_opts 3 2 3 true 0x1p-1%float c01_rand_st c01_rand_epoch_fit 2) as [[l0 s2]| | | | |] eqn:E;
    try discriminate H.
  destruct (run_random_history _ _ _ _ _ _ _ _ _ _ _ E) as (p & s & l & p' & s' & A & Hh & Hl & ->).
  apply andb_true_iff in H. destruct H as [H H3]. apply andb_true_iff in H. destruct H as [H1 H2].
  exists p, s, l, p', s'. split; [exact A|]. split; [apply Nat.eqb_eq; exact H1|]. split.
  - intros x Hx G. rewrite forallb_forall in H2. specialize (H2 x Hx). rewrite G in H2. discriminate H2.
  - split; [exact Hh|]. split; [exact Hl|exact H3].
Qed.
