(* C01 — every genetic operator and epoch yields only well-formed genomes.
   Property theorems only.  [wf] (proofs/WF.v) is the predicate of the property: genes strictly
   ascending by innovation number, no two genes with the same (source, target, recurrence flag),
   nodes strictly ascending by id, every gene endpoint resolves among the genome's own nodes and no
   gene ends in a sensor, trait references resolve among the genome's own traits, trait ids
   consecutive, at least one gene and one output node, non-modular.  [retains_io g g']: every input,
   bias and output node (id and role) of g is in g'.  [env_ok e g]: the innovation environment
   (counters and this generation's records) is consistent with the genome (without it the claim is
   false: a recorded number that collides with a gene already in the genome would break ordering). *)
From NeatModel Require Import Compat.
From NeatModel Require Import Res F64 GoRand Genome Options Insert Dup Mutate Mate Population InsertSpec WF MateSpec MateWF MutateWF Registry PopWF Genesis Graph GenesisSpec GraphSpec GraphView.

(* ---- duplication ---- *)
Theorem C01_duplicate_wf : forall g id, wf g -> duplicate g id = Ok (with_id g id) /\ wf (with_id g id).
Proof. intros g id H. split; [now apply duplicate_wf | now apply wf_with_id]. Qed.
Print Assumptions C01_duplicate_wf.

(* ---- ordered insertion, the mechanism every structural operator relies on ---- *)
Theorem C01_gene_insert_keeps_order : forall gs x,
    asc g_innov gs -> ~ In (g_innov x) (map g_innov gs) ->
    asc g_innov (gene_insert gs x) /\ (forall y, In y (gene_insert gs x) <-> y = x \/ In y gs).
Proof.
  intros gs x H1 H2. split; [now apply insert_sorted_asc | intros y; apply insert_sorted_In].
Qed.
Print Assumptions C01_gene_insert_keeps_order.

Theorem C01_node_insert_keeps_order : forall ns x,
    asc n_id ns -> ~ In (n_id x) (map n_id ns) ->
    asc n_id (node_insert ns x) /\ (forall y, In y (node_insert ns x) <-> y = x \/ In y ns).
Proof.
  intros ns x H1 H2. split; [now apply insert_sorted_asc | intros y; apply insert_sorted_In].
Qed.
Print Assumptions C01_node_insert_keeps_order.

(* ---- the mutators: for every tape, every option record and every innovation environment that is
   consistent with the genome, a mutator that returns leaves the genome well-formed, keeps its
   input/bias/output nodes, keeps the environment consistent with the result and only extends it
   (counters grow, added records carry fresh numbers) ---- *)
Local Notation preserved g s g' s' :=
  (wf g' /\ retains_io g g' /\ env_ok (s_env s') g' /\ env_extends (s_env s) (s_env s')).

Theorem C01_mutate_add_node_wf : forall o g s g' b s',
    mutate_add_node o g s = Ok ((g', b), s') -> wf g -> env_ok (s_env s) g -> preserved g s g' s'.
Proof. exact mutate_add_node_wf. Qed.
Print Assumptions C01_mutate_add_node_wf.

Theorem C01_mutate_add_link_wf : forall o g s g' b s',
    mutate_add_link o g s = Ok ((g', b), s') -> wf g -> env_ok (s_env s) g -> preserved g s g' s'.
Proof. exact mutate_add_link_wf. Qed.
Print Assumptions C01_mutate_add_link_wf.

Theorem C01_mutate_connect_sensors_wf : forall g s g' b s',
    mutate_connect_sensors g s = Ok ((g', b), s') -> wf g -> env_ok (s_env s) g -> preserved g s g' s'.
Proof. exact mutate_connect_sensors_wf. Qed.
Print Assumptions C01_mutate_connect_sensors_wf.

Theorem C01_mutate_link_weights_wf : forall pw rt ga g s g' b s',
    mutate_link_weights pw rt ga g s = Ok ((g', b), s') -> wf g -> env_ok (s_env s) g -> preserved g s g' s'.
Proof. exact mutate_link_weights_wf. Qed.
Print Assumptions C01_mutate_link_weights_wf.

Theorem C01_mutate_traits_wf : forall o times g s g' b s',
    (mutate_random_trait o g s = Ok ((g', b), s') \/ mutate_link_trait times g s = Ok ((g', b), s') \/
     mutate_node_trait times g s = Ok ((g', b), s')) ->
    wf g -> env_ok (s_env s) g -> preserved g s g' s'.
Proof.
  intros o times g s g' b s' [H|[H|H]] Hw He;
    [exact (mutate_random_trait_wf o g s g' b s' H Hw He) | exact (mutate_link_trait_wf times g s g' b s' H Hw He)
     | exact (mutate_node_trait_wf times g s g' b s' H Hw He)].
Qed.
Print Assumptions C01_mutate_traits_wf.

Theorem C01_mutate_enable_wf : forall times g s g' b s',
    (mutate_toggle_enable times g s = Ok ((g', b), s') \/ mutate_gene_reenable g s = Ok ((g', b), s')) ->
    wf g -> env_ok (s_env s) g -> preserved g s g' s'.
Proof.
  intros times g s g' b s' [H|H] Hw He;
    [exact (mutate_toggle_enable_wf times g s g' b s' H Hw He) | exact (mutate_gene_reenable_wf g s g' b s' H Hw He)].
Qed.
Print Assumptions C01_mutate_enable_wf.

Theorem C01_mutate_all_nonstructural_wf : forall o g s g' b s',
    mutate_all_nonstructural o g s = Ok ((g', b), s') -> wf g -> env_ok (s_env s) g -> preserved g s g' s'.
Proof. exact mutate_all_nonstructural_wf. Qed.
Print Assumptions C01_mutate_all_nonstructural_wf.

(* a genome that was consistent with the environment stays so while other genomes are mutated *)
Theorem C01_env_ok_extends : forall e e' g, env_ok e g -> env_extends e e' -> env_ok e' g.
Proof. exact env_ok_extends. Qed.
Print Assumptions C01_env_ok_extends.

(* ---- the three crossovers: children of well-formed relatives (common ancestry: consistent
   numbering, same trait ids and parameter counts, same input/bias/output nodes) are well-formed
   and keep the input/bias/output nodes of both parents; for every tape ---- *)
Theorem C01_mate_multipoint_wf : forall p1 p2 id f1 f2 s c s',
    relatives p1 p2 -> mate_multipoint p1 p2 id f1 f2 s = Ok (c, s') ->
    wf c /\ retains_io p1 c /\ retains_io p2 c.
Proof. exact mate_multipoint_wf. Qed.
Print Assumptions C01_mate_multipoint_wf.

Theorem C01_mate_multipoint_avg_wf : forall p1 p2 id f1 f2 s c s',
    relatives p1 p2 -> mate_multipoint_avg p1 p2 id f1 f2 s = Ok (c, s') ->
    wf c /\ retains_io p1 c /\ retains_io p2 c.
Proof. exact mate_multipoint_avg_wf. Qed.
Print Assumptions C01_mate_multipoint_avg_wf.

Theorem C01_mate_singlepoint_wf : forall p1 p2 id s c s',
    relatives p1 p2 ->
    (forall x1 x2, hd_error (genes p1) = Some x1 -> hd_error (genes p2) = Some x2 -> g_innov x1 = g_innov x2) ->
    mate_singlepoint p1 p2 id s = Ok (c, s') ->
    wf c /\ retains_io p1 c /\ retains_io p2 c.
Proof. exact mate_singlepoint_wf. Qed.
Print Assumptions C01_mate_singlepoint_wf.

(* without common ancestry the single-point crossover can return a child without genes (recorded
   finding: known_findings.txt, key singlepoint-empty-child-unrelated-parents) *)
Theorem C01_singlepoint_unrelated_refuted : forall p1 p2 id s s' c,
    mate_hyps p1 p2 -> genes p1 <> [] -> genes p2 <> [] -> mate_singlepoint p1 p2 id s = Ok (c, s') ->
    forall x1 x2,
      hd_error (genes (if Nat.ltb (length (genes p1)) (length (genes p2)) then p1 else p2)) = Some x1 ->
      hd_error (genes (if Nat.ltb (length (genes p1)) (length (genes p2)) then p2 else p1)) = Some x2 ->
      g_innov x2 < g_innov x1 -> genes c = [] /\ ~ wf c.
Proof.
  intros p1 p2 id s s' c H G1 G2 Hr x1 x2 H1 H2 Hlt.
  assert (E : genes c = []) by exact (sp_unrelated_empty p1 p2 id s s' c H G1 G2 Hr x1 x2 H1 H2 Hlt).
  split; [exact E|]. intros W. exact (wf_nonempty _ W E).
Qed.
Print Assumptions C01_singlepoint_unrelated_refuted.

(* ---- population level: spawning and every epoch turnover (sequential executor), any number of
   generations, any fitness assignments, any tapes: every genome held by the population (old generation
   and babies alike, looked up through any key) is well-formed and retains the input, bias and output
   nodes of the start genome.  [history o p s l p' s']: any number of rounds of (set_fitness; next_epoch),
   each with an arbitrary generation number, executor state and tape; l lists the intermediate
   populations. ---- *)
Theorem C01_spawn_wf : forall o g s0 p s,
    wf g -> Genome.innovs (s_env s0) = [] -> new_population o g s0 = Ok (p, s) ->
    forall k x, hget (p_heap p) k = Ok x -> wf (o_genome x) /\ retains_io g (o_genome x).
Proof.
  intros o g s0 p s W E H k x Hk. exact (pop_wf_reachable g p k x (pop_wf_spawn o g s0 p s W E H) Hk).
Qed.
Print Assumptions C01_spawn_wf.

Theorem C01_history_wf : forall o g s0 p s l p' s',
    wf g -> Genome.innovs (s_env s0) = [] -> new_population o g s0 = Ok (p, s) -> history o p s l p' s' ->
    forall q, In q (p :: l) ->
    forall k x, hget (p_heap q) k = Ok x -> wf (o_genome x) /\ retains_io g (o_genome x).
Proof.
  intros o g s0 p s l p' s' W E H Hh q Hq k x Hk.
  exact (pop_wf_reachable g q k x (pop_wf_history o g s0 p s l p' s' W E H Hh q Hq) Hk).
Qed.
Print Assumptions C01_history_wf.

(* every well-formed genome can be expressed as a network: the two error conditions of Genesis (no genes,
   no output node) are excluded by wf, and every gene endpoint resolves *)
Theorem C01_wf_genesis_ok : forall g, wf g -> genesis_check g = Ok tt.
Proof.
  intros g W. unfold genesis_check. destruct (genes g) eqn:E; [exfalso; exact (wf_nonempty _ W E)|].
  destruct (wf_output _ W) as [n [Hn Ht]].
  assert (Hex : existsb (fun n0 : node => Z.eqb (n_type n0) OUTPUT) (nodes g) = true).
  { apply existsb_exists. exists n. split; [exact Hn|]. rewrite Ht. reflexivity. }
  now rewrite Hex.
Qed.
Print Assumptions C01_wf_genesis_ok.

(* ... and the model of Genome.Genesis (validated against the real Genesis by C11's correspondence)
   returns a network for it, under any network id *)
Theorem C01_wf_expressible : forall g id, wf g -> exists n, genesis g id = Ok n.
Proof.
  intros g id W.
  assert (Hnd : NoDup (map n_id (nodes g))) by (apply asc_NoDup; exact (WF.wf_nodes _ W)).
  apply genesis_succeeds.
  - exact Hnd.
  - intros x Hx _. destruct (WF.wf_endpoints _ W x Hx) as [a [b [Ha [Hb _]]]].
    apply node_with_id_In in Ha. apply node_with_id_In in Hb. destruct Ha as [Ha <-]. destruct Hb as [Hb <-].
    split; now apply in_map.
  - rewrite (WF.wf_nonmodular _ W). intros m [].
  - exact (WF.wf_nonempty _ W).
  - destruct (WF.wf_output _ W) as [n [Hn Ht]]. exists n. split; assumption.
Qed.
Print Assumptions C01_wf_expressible.
