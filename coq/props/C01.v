(* C01 — every genetic operator and epoch yields only well-formed genomes.
   Property theorems only.  [wf] (proofs/WF.v) is the predicate of the property: genes strictly
   ascending by innovation number, no two genes with the same (source, target, recurrence flag),
   nodes strictly ascending by id, every gene endpoint resolves among the genome's own nodes and no
   gene ends in a sensor, trait references resolve among the genome's own traits, trait ids
   consecutive, at least one gene and one output node, non-modular.  [retains_io g g']: every input,
   bias and output node (id and role) of g is in g'.  [env_ok e g]: the innovation environment
   (counters and this generation's records) is consistent with the genome (without it the claim is
   false: a recorded number that collides with a gene already in the genome would break ordering). *)
From NeatModel Require Import Res F64 GoRand Genome Options Insert Dup Mutate Mate InsertSpec WF MateSpec MateWF MutateWF.

(* ---- duplication ---- *)
Theorem C01_duplicate_wf : forall g id, wf g -> duplicate g id = Ok (with_id g id) /\ wf (with_id g id).
Proof. intros g id H. split; [now apply duplicate_wf | now apply wf_with_id]. Qed.
Print Assumptions C01_duplicate_wf.

(* ---- ordered insertion, the mechanism every structural operator relies on ---- *)
Theorem C01_gene_insert_keeps_order : forall gs x,
    asc g_innov gs -> ~ In (g_innov x) (map g_innov gs) ->
    asc g_innov (gene_insert gs x) /\ (forall y, In y (gene_insert gs x) <-> y = x \/ In y gs).
Proof.
  intros gs x H1 H2. split; [now apply insert_sorted_asc | intros y; apply insert_sorted_In].
Qed.
Print Assumptions C01_gene_insert_keeps_order.

Theorem C01_node_insert_keeps_order : forall ns x,
    asc n_id ns -> ~ In (n_id x) (map n_id ns) ->
    asc n_id (node_insert ns x) /\ (forall y, In y (node_insert ns x) <-> y = x \/ In y ns).
Proof.
  intros ns x H1 H2. split; [now apply insert_sorted_asc | intros y; apply insert_sorted_In].
Qed.
Print Assumptions C01_node_insert_keeps_order.

(* ---- the mutators: for every tape, every option record and every innovation environment that is
   consistent with the genome, a mutator that returns leaves the genome well-formed, keeps its
   input/bias/output nodes, keeps the environment consistent with the result and only extends it
   (counters grow, added records carry fresh numbers) ---- *)
Local Notation preserved g s g' s' :=
  (wf g' /\ retains_io g g' /\ env_ok (s_env s') g' /\ env_extends (s_env s) (s_env s')).

Theorem C01_mutate_add_node_wf : forall o g s g' b s',
    mutate_add_node o g s = Ok ((g', b), s') -> wf g -> env_ok (s_env s) g -> preserved g s g' s'.
Proof. exact mutate_add_node_wf. Qed.
Print Assumptions C01_mutate_add_node_wf.

Theorem C01_mutate_add_link_wf : forall o g s g' b s',
    mutate_add_link o g s = Ok ((g', b), s') -> wf g -> env_ok (s_env s) g -> preserved g s g' s'.
Proof. exact mutate_add_link_wf. Qed.
Print Assumptions C01_mutate_add_link_wf.

Theorem C01_mutate_connect_sensors_wf : forall g s g' b s',
    mutate_connect_sensors g s = Ok ((g', b), s') -> wf g -> env_ok (s_env s) g -> preserved g s g' s'.
Proof. exact mutate_connect_sensors_wf. Qed.
Print Assumptions C01_mutate_connect_sensors_wf.

Theorem C01_mutate_link_weights_wf : forall pw rt ga g s g' b s',
    mutate_link_weights pw rt ga g s = Ok ((g', b), s') -> wf g -> env_ok (s_env s) g -> preserved g s g' s'.
Proof. exact mutate_link_weights_wf. Qed.
Print Assumptions C01_mutate_link_weights_wf.

Theorem C01_mutate_traits_wf : forall o times g s g' b s',
    (mutate_random_trait o g s = Ok ((g', b), s') \/ mutate_link_trait times g s = Ok ((g', b), s') \/
     mutate_node_trait times g s = Ok ((g', b), s')) ->
    wf g -> env_ok (s_env s) g -> preserved g s g' s'.
Proof.
  intros o times g s g' b s' [H|[H|H]] Hw He;
    [exact (mutate_random_trait_wf o g s g' b s' H Hw He) | exact (mutate_link_trait_wf times g s g' b s' H Hw He)
     | exact (mutate_node_trait_wf times g s g' b s' H Hw He)].
Qed.
Print Assumptions C01_mutate_traits_wf.

Theorem C01_mutate_enable_wf : forall times g s g' b s',
    (mutate_toggle_enable times g s = Ok ((g', b), s') \/ mutate_gene_reenable g s = Ok ((g', b), s')) ->
    wf g -> env_ok (s_env s) g -> preserved g s g' s'.
Proof.
  intros times g s g' b s' [H|H] Hw He;
    [exact (mutate_toggle_enable_wf times g s g' b s' H Hw He) | exact (mutate_gene_reenable_wf g s g' b s' H Hw He)].
Qed.
Print Assumptions C01_mutate_enable_wf.

Theorem C01_mutate_all_nonstructural_wf : forall o g s g' b s',
    mutate_all_nonstructural o g s = Ok ((g', b), s') -> wf g -> env_ok (s_env s) g -> preserved g s g' s'.
Proof. exact mutate_all_nonstructural_wf. Qed.
Print Assumptions C01_mutate_all_nonstructural_wf.

(* a genome that was consistent with the environment stays so while other genomes are mutated *)
Theorem C01_env_ok_extends : forall e e' g, env_ok e g -> env_extends e e' -> env_ok e' g.
Proof. exact env_ok_extends. Qed.
Print Assumptions C01_env_ok_extends.

(* ---- the three crossovers: children of well-formed relatives (common ancestry: consistent
   numbering, same trait ids and parameter counts, same input/bias/output nodes) are well-formed
   and keep the input/bias/output nodes of both parents; for every tape ---- *)
Theorem C01_mate_multipoint_wf : forall p1 p2 id f1 f2 s c s',
    relatives p1 p2 -> mate_multipoint p1 p2 id f1 f2 s = Ok (c, s') ->
    wf c /\ retains_io p1 c /\ retains_io p2 c.
Proof. exact mate_multipoint_wf. Qed.
Print Assumptions C01_mate_multipoint_wf.

Theorem C01_mate_multipoint_avg_wf : forall p1 p2 id f1 f2 s c s',
    relatives p1 p2 -> mate_multipoint_avg p1 p2 id f1 f2 s = Ok (c, s') ->
    wf c /\ retains_io p1 c /\ retains_io p2 c.
Proof. exact mate_multipoint_avg_wf. Qed.
Print Assumptions C01_mate_multipoint_avg_wf.

Theorem C01_mate_singlepoint_wf : forall p1 p2 id s c s',
    relatives p1 p2 ->
    (forall x1 x2, hd_error (genes p1) = Some x1 -> hd_error (genes p2) = Some x2 -> g_innov x1 = g_innov x2) ->
    mate_singlepoint p1 p2 id s = Ok (c, s') ->
    wf c /\ retains_io p1 c /\ retains_io p2 c.
Proof. exact mate_singlepoint_wf. Qed.
Print Assumptions C01_mate_singlepoint_wf.

(* without common ancestry the single-point crossover can return a child without genes (recorded
   finding: known_findings.txt, key singlepoint-empty-child-unrelated-parents) *)
Theorem C01_singlepoint_unrelated_refuted : forall p1 p2 id s s' c,
    mate_hyps p1 p2 -> genes p1 <> [] -> genes p2 <> [] -> mate_singlepoint p1 p2 id s = Ok (c, s') ->
    forall x1 x2,
      hd_error (genes (if Nat.ltb (length (genes p1)) (length (genes p2)) then p1 else p2)) = Some x1 ->
      hd_error (genes (if Nat.ltb (length (genes p1)) (length (genes p2)) then p2 else p1)) = Some x2 ->
      g_innov x2 < g_innov x1 -> genes c = [] /\ ~ wf c.
Proof.
  intros p1 p2 id s s' c H G1 G2 Hr x1 x2 H1 H2 Hlt.
  assert (E : genes c = []) by exact (sp_unrelated_empty p1 p2 id s s' c H G1 G2 Hr x1 x2 H1 H2 Hlt).
  split; [exact E|]. intros W. exact (wf_nonempty _ W E).
Qed.
Print Assumptions C01_singlepoint_unrelated_refuted.
