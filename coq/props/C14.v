(* C14 — activation depth is the longest path to an output and always terminates.
   Property theorems only; definitions in model/Depth.v, proofs in proofs/DepthSpec.v, DepthCap.v.

   [max_depth g vis] / [max_depth_cap g cap vis] are Network.MaxActivationDepth() /
   MaxActivationDepthWithCap(cap) on network g whose set of visited-marked nodes is vis; they
   return  Ok (value, error, marks afterwards).  A fresh network has vis = [].
   [path g u v k]: k links lead from u to v.  [tpath]: the same, every node after the first a neuron.
   Nothing below is bounded: any number of nodes and links, any ids, any cap. *)
From NeatModel Require Import Res Depth DepthSpec DepthCap.

(* ---- termination: the fuel |nodes|+1 never runs out, whatever the graph (cycles, self-loops,
   dangling ids, inconsistent input/output lists), whatever the cap ---- *)
Theorem C14_depth_fuel : forall g cap, max_depth_cap g cap [] <> OutOfFuel.
Proof. exact max_depth_cap_no_oof. Qed.
Print Assumptions C14_depth_fuel.

(* ... and when every link source and every output is a node of the network the query returns *)
Theorem C14_depth_total : forall g cap,
    (forall u v, In (u, v) (n_links g) -> In u (map fst (n_nodes g))) ->
    (forall o, In o (n_outputs g) -> In o (map fst (n_nodes g))) ->
    exists r e vis', max_depth_cap g cap [] = Ok (r, e, vis').
Proof.
  intros g cap H1 H2. destruct (max_depth_cap_ok g cap (conj H1 H2)) as [[[r e] v] H]. eauto.
Qed.
Print Assumptions C14_depth_total.

(* ---- acyclic, non-modular, at least one hidden node (the shortcut test fails): the reported depth
   is the number of links of the longest path that ends in an output; no error, no marks.
   (Sensors have no incoming links here; the next theorem drops that.) ---- *)
Theorem C14_depth_dag : forall g,
    n_control g = 0 ->
    len (n_nodes g) <> len (n_inputs g) + len (n_outputs g) ->
    ((forall u v, In (u, v) (n_links g) -> In u (map fst (n_nodes g))) /\
     (forall o, In o (n_outputs g) -> In o (map fst (n_nodes g)))) ->
    (forall v k, path g v v k -> k = O) ->
    (forall u v, In (u, v) (n_links g) -> sensorb g v = false) ->
    exists r, max_depth g [] = Ok (r, NoErr, []) /\
      (forall o u k, In o (n_outputs g) -> path g u o k -> Z.of_nat k <= r) /\
      (n_outputs g <> [] -> exists o u k, In o (n_outputs g) /\ path g u o k /\ r = Z.of_nat k) /\
      (n_outputs g = [] -> r = 0).
Proof. exact depth_dag. Qed.
Print Assumptions C14_depth_dag.

(* the same without any assumption on sensors: NNode.Depth stops at a sensor (as activation does,
   a sensor ignores its incoming links), so paths are counted up to the first sensor met backwards *)
Theorem C14_depth_dag_sensor_stopped : forall g,
    n_control g = 0 ->
    len (n_nodes g) <> len (n_inputs g) + len (n_outputs g) ->
    ((forall u v, In (u, v) (n_links g) -> In u (map fst (n_nodes g))) /\
     (forall o, In o (n_outputs g) -> In o (map fst (n_nodes g)))) ->
    (forall v k, path g v v k -> k = O) ->
    exists r, max_depth g [] = Ok (r, NoErr, []) /\
      (forall o u k, In o (n_outputs g) -> tpath g u o k -> Z.of_nat k <= r) /\
      (n_outputs g <> [] -> exists o u k, In o (n_outputs g) /\ tpath g u o k /\ r = Z.of_nat k) /\
      (n_outputs g = [] -> r = 0).
Proof. exact depth_dag_sensor_stopped. Qed.
Print Assumptions C14_depth_dag_sensor_stopped.

(* beyond the property text: on ANY graph, cycles included, the uncapped depth is the number of
   links of the longest SIMPLE neuron-path into an output ([bpath g [] o u k]: k links from u to o,
   no node visited twice) *)
Theorem C14_depth_simple_path : forall g,
    n_control g = 0 ->
    len (n_nodes g) <> len (n_inputs g) + len (n_outputs g) ->
    ((forall u v, In (u, v) (n_links g) -> In u (map fst (n_nodes g))) /\
     (forall o, In o (n_outputs g) -> In o (map fst (n_nodes g)))) ->
    exists r, max_depth g [] = Ok (r, NoErr, []) /\
      (forall o u k, In o (n_outputs g) -> bpath g [] o u k -> Z.of_nat k <= r) /\
      (n_outputs g <> [] -> exists o u k, In o (n_outputs g) /\ bpath g [] o u k /\ r = Z.of_nat k) /\
      (n_outputs g = [] -> r = 0).
Proof. exact depth_simple. Qed.
Print Assumptions C14_depth_simple_path.

(* ---- any graph (cycles included), any cap: the value lies between 0 and the number of nodes; the
   only possible error is the depth-cap error, and then the value is the cap ---- *)
Theorem C14_depth_range : forall g cap r e vis',
    n_control g = 0 -> n_nodes g <> [] ->
    max_depth_cap g cap [] = Ok (r, e, vis') ->
    0 <= r <= len (n_nodes g) /\
    (e <> NoErr -> e = ErrDepthExceeded /\ r = cap /\ 0 < cap < len (n_nodes g)).
Proof. exact max_depth_cap_range. Qed.
Print Assumptions C14_depth_range.

(* ---- the cap, on any graph: r0 is the uncapped answer ---- *)
Theorem C14_depth_cap : forall g cap r0 v0,
    0 < cap -> max_depth_cap g 0 [] = Ok (r0, NoErr, v0) ->
    (r0 <= cap -> max_depth_cap g cap [] = Ok (r0, NoErr, [])) /\
    (cap < r0 -> max_depth_cap g cap [] = Ok (cap, ErrDepthExceeded, [])).
Proof.
  intros g cap r0 v0 Hc H. rewrite (max_depth_cap_capped g cap r0 v0 Hc H). split; intros Hr.
  - apply Z.leb_le in Hr. now rewrite Hr.
  - apply Z.leb_gt in Hr. now rewrite Hr.
Qed.
Print Assumptions C14_depth_cap.

(* a cap <= 0 means no cap, and without cap there is no error *)
Theorem C14_depth_nocap : forall g cap vis,
    cap <= 0 ->
    max_depth_cap g cap vis = max_depth_cap g 0 vis /\
    (forall r e v, n_control g = 0 -> max_depth_cap g cap [] = Ok (r, e, v) -> e = NoErr).
Proof.
  intros g cap vis Hc. split; [now apply max_depth_cap_nocap_same|].
  intros r e v Hctl H. exact (max_depth_cap_uncapped_noerr g cap r e v Hc Hctl H).
Qed.
Print Assumptions C14_depth_nocap.

(* ---- no traversal marks are left behind: whatever the query returned (e is NoErr or the cap
   error), the visited set afterwards is the visited set before.  Stated for a fresh network and,
   more generally, for any marks that do not cover an output ---- *)
Theorem C14_depth_marks : forall g cap r e vis',
    max_depth_cap g cap [] = Ok (r, e, vis') -> vis' = [].
Proof.
  intros g cap r e vis' H. apply (max_depth_cap_marks g cap [] r e vis'); [intros o _ []|exact H].
Qed.
Print Assumptions C14_depth_marks.

Theorem C14_depth_marks_any : forall g cap vis r e vis',
    (forall o, In o (n_outputs g) -> ~ In o vis) ->
    max_depth_cap g cap vis = Ok (r, e, vis') -> vis' = vis.
Proof. exact max_depth_cap_marks. Qed.
Print Assumptions C14_depth_marks_any.

(* ---- hence a later query answers as on a fresh network: after one query (any cap, error or
   not), and after any sequence of queries (kind 0 = MaxActivationDepth, kind 1 = WithCap) ---- *)
Theorem C14_query_twice_same : forall g c1 c2 r1 e1 v1,
    max_depth_cap g c1 [] = Ok (r1, e1, v1) -> max_depth_cap g c2 v1 = max_depth_cap g c2 [].
Proof. exact query_twice_same. Qed.
Print Assumptions C14_query_twice_same.

Theorem C14_query_after_any_history : forall g qs v q,
    marks_after g qs [] = Some v -> run_query g q v = run_query g q [].
Proof. exact query_after_any_history. Qed.
Print Assumptions C14_query_after_any_history.

(* ---- non-vacuity.  Five nodes: sensor 1, hidden 2 3 4, output 5; links 1-3-4-5, 1-5, 2-4.  It
   meets every hypothesis of C14_depth_dag; the longest path 1-3-4-5 has 3 links.  Queries on one
   network object: cap 1 (error), then cap 0 -- the sequence that answered 1 instead of 3 before the
   repair e158b24 --, then MaxActivationDepth, cap 3, cap 2. ---- *)
Definition c14_ex : net :=
  mk_net [(1, 1); (2, 0); (3, 0); (4, 0); (5, 2)] [1] [5] [(1, 3); (3, 4); (4, 5); (1, 5); (2, 4)] 0.

Example C14_example_hyps :
  n_control c14_ex = 0 /\
  len (n_nodes c14_ex) <> len (n_inputs c14_ex) + len (n_outputs c14_ex) /\
  closed c14_ex /\ acyclic c14_ex /\
  (forall u v, In (u, v) (n_links c14_ex) -> sensorb c14_ex v = false) /\
  path c14_ex 1 5 3.
Proof.
  split; [reflexivity|]. split; [vm_compute; discriminate|].
  split; [apply closed_of_check; reflexivity|].
  split; [apply acyclic_of_order; reflexivity|].
  split; [apply no_sensor_target_of_check; reflexivity|].
  apply path_snoc with (w := 4); [|simpl; tauto].
  apply path_snoc with (w := 3); [|simpl; tauto].
  apply path_snoc with (w := 1); [|simpl; tauto].
  apply path_refl.
Qed.

Example C14_example_run :
  run_queries c14_ex [(1, 1); (1, 0); (0, 0); (1, 3); (1, 2)] [] =
  Ok [(1, 1, []); (3, 0, []); (3, 0, []); (3, 0, []); (2, 1, [])].
Proof. vm_compute. reflexivity. Qed.

(* a cyclic one: 1 -> 2 -> 3 -> 2 (cycle 2-3), 3 -> 4, self-loop on 4, output 4 *)
Example C14_example_cyclic :
  run_queries (mk_net [(1, 1); (2, 0); (3, 0); (4, 2)] [1] [4] [(1, 2); (2, 3); (3, 2); (3, 4); (4, 4)] 0)
              [(0, 0); (1, 2); (1, 0)] [] =
  Ok [(3, 0, []); (2, 1, []); (3, 0, [])].
Proof. vm_compute. reflexivity. Qed.

(* ============================================================================================ *)
(* The model IS the source, re-established on every run.                                          *)
(* `neatverif translate depthbodies` (harness/c14_translate.go) parses neat/network/nnode.go and   *)
(* network.go with go/ast and prints the bodies of NNode.IsSensor, NNode.Depth and                 *)
(* Network.MaxActivationDepthWithCap, construct by construct, as gen/DepthBodies.v (a node pointer *)
(* is its id, a link the pair of its end ids, the field `visited` of all nodes the list of marked  *)
(* ids; the recursion a Fixpoint on fuel, a range loop a fold whose body answers "go on" or        *)
(* "return"); it fails on a missing function or a construct outside its subset.                   *)
(* The functions every theorem above is about are equal to the translated ones: for every network  *)
(* (cyclic or not, dangling ids or not), every fuel, cap, node, depth argument and set of marks,   *)
(* as results (value, error, marks afterwards), OutOfFuel / BadOracle included.                    *)
(* ============================================================================================ *)
From NeatModel Require DepthBodies DepthBodiesAgree.

Theorem C14_model_is_the_translated_source :
  (forall t : ntype, is_sensor t = DepthBodies.gen_is_sensor t) /\
  (forall (g : net) (fuel : nat) (cap id d : Z) (vis : list Z),
      depth g fuel cap id d vis = DepthBodies.gen_depth g fuel cap id d vis) /\
  (forall (g : net) (cap : Z) (vis : list Z),
      max_depth_cap g cap vis = DepthBodies.gen_max_depth_cap g cap vis).
Proof. exact DepthBodiesAgree.model_is_the_translated_source. Qed.
Print Assumptions C14_model_is_the_translated_source.

(* the translated functions on the examples above: the capped query that leaves no mark, then the full depth;
   the cyclic network; an output id that names no node is BadOracle, not a default *)
Example C14_ex_translated :
  DepthBodies.gen_max_depth_cap c14_ex 1 [] = Ok (1, ErrDepthExceeded, []) /\
  DepthBodies.gen_max_depth_cap c14_ex 0 [] = Ok (3, NoErr, []) /\
  DepthBodies.gen_max_depth_cap
    (mk_net [(1, 1); (2, 0); (3, 0); (4, 2)] [1] [4] [(1, 2); (2, 3); (3, 2); (3, 4); (4, 4)] 0) 0 [] = Ok (3, NoErr, []) /\
  DepthBodies.gen_depth c14_ex 6 0 5 0 [] = Ok (3, NoErr, []) /\
  DepthBodies.gen_max_depth_cap (mk_net [(1, 1); (2, 0); (3, 0)] [1] [7] [] 0) 0 [] = BadOracle.
Proof. vm_compute. repeat split; reflexivity. Qed.
