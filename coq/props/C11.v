(* C11 — a phenotype network expresses exactly the enabled part of its genome, and the gonum graph view
   and the counts report exactly that structure for ALL ids (present or not).
   Property theorems only; proofs live in proofs/GenesisSpec.v, GraphSpec.v, GraphView.v.

   [genesis] is the model of Genome.Genesis (model/Genesis.v); [gnode gnodes gfrom gto gedge gweighted_edge
   gweight has_edge_from_to has_edge_between node_count link_count complexity] are the models of
   Network.Node / Nodes / From / To / Edge / WeightedEdge / Weight / HasEdgeFromTo / HasEdgeBetween /
   NodeCount / LinkCount / Complexity (model/Graph.v).  Nothing is bounded: genomes, ids, weights arbitrary. *)
From NeatModel Require Import Res F64 Genome Genesis Graph GenesisSpec GraphSpec GraphView.
From Coq Require Import Permutation.

(* ---- vocabulary, written out over the genome's fields ---- *)

(* well-formedness needed for Genesis: node ids unique; endpoints of ENABLED genes and the io nodes of
   ENABLED modules are nodes of the genome (disabled genes / modules may dangle) *)
Local Notation WF_GENESIS g :=
  (NoDup (map n_id (nodes g)) /\
   (forall x, In x (genes g) -> g_en x = true ->
              In (g_in x) (map n_id (nodes g)) /\ In (g_out x) (map n_id (nodes g))) /\
   (forall m, In m (modules g) -> m_en m = true ->
              forall s w, In (s, w) (m_ins m) \/ In (s, w) (m_outs m) -> In s (map n_id (nodes g)))).

(* for the graph view additionally: the control-node ids of enabled modules are distinct from each other and
   from the node ids *)
Local Notation WF_GRAPH g :=
  (NoDup (map n_id (nodes g) ++ map (fun m => n_id (m_node m)) (filter m_en (modules g))) /\
   (forall x, In x (genes g) -> g_en x = true ->
              In (g_in x) (map n_id (nodes g)) /\ In (g_out x) (map n_id (nodes g))) /\
   (forall m, In m (modules g) -> m_en m = true ->
              forall s w, In (s, w) (m_ins m) \/ In (s, w) (m_outs m) -> In s (map n_id (nodes g)))).

(* the abstract directed graph G g = (V, E) *)
Local Notation EDGE g u v :=
  ((exists x, In x (genes g) /\ g_en x = true /\ g_in x = u /\ g_out x = v) \/
   (exists m w, In m (modules g) /\ m_en m = true /\ n_id (m_node m) = v /\ In (u, w) (m_ins m)) \/
   (exists m w, In m (modules g) /\ m_en m = true /\ n_id (m_node m) = u /\ In (v, w) (m_outs m))).
Local Notation VERTEX g u :=
  (In u (map n_id (nodes g)) \/ In u (map (fun m => n_id (m_node m)) (filter m_en (modules g)))).

(* the link a gene is expressed as *)
Local Notation LINK_OF x :=
  {| l_in := g_in x; l_out := g_out x; l_w := g_w x; l_rec := g_rec x; l_trait := g_trait x |}.

(* l is a link of the expressed network: of an enabled gene, or a control link of an enabled module *)
Local Notation NET_LINK g l :=
  ((exists x, In x (genes g) /\ g_en x = true /\ l = LINK_OF x) \/
   (exists m sw, In m (modules g) /\ m_en m = true /\ In sw (m_ins m) /\
                 l = {| l_in := fst sw; l_out := n_id (m_node m); l_w := snd sw; l_rec := false; l_trait := None |}) \/
   (exists m dw, In m (modules g) /\ m_en m = true /\ In dw (m_outs m) /\
                 l = {| l_in := n_id (m_node m); l_out := fst dw; l_w := snd dw; l_rec := false; l_trait := None |})).

(* ---- Genesis ---- *)

(* one node per genome node, same id, role, activation type and trait, in genome order; inputs = sensors
   (input and bias nodes) in genome order, outputs = output nodes in genome order; the requested id *)
Theorem C11_genesis_nodes : forall g netId n,
    WF_GENESIS g -> genesis g netId = Ok n ->
    net_id n = netId /\
    map (fun p => (p_id p, p_type p, p_act p, p_trait p)) (net_all n) =
    map (fun nd => (n_id nd, n_type nd, n_act nd, n_trait nd)) (nodes g) /\
    net_inputs n = map n_id (filter (fun nd => Z.eqb (n_type nd) INPUT || Z.eqb (n_type nd) BIAS) (nodes g)) /\
    net_outputs n = map n_id (filter (fun nd => Z.eqb (n_type nd) OUTPUT) (nodes g)).
Proof. intros g netId n (Hn & Hg & Hm) Hok. exact (genesis_nodes g netId n Hn Hg Hm Hok). Qed.
Print Assumptions C11_genesis_nodes.

(* exactly one link per ENABLED gene, with that gene's endpoints, weight, recurrence flag (and trait):
   every node's Incoming is the list of enabled genes ending there, in gene order, its Outgoing the enabled
   genes starting there; all in-lists together (and all out-lists together) are a permutation of the enabled
   genes, so disabled genes contribute nothing and no link is duplicated or lost *)
Theorem C11_genesis_links : forall g netId n,
    WF_GENESIS g -> genesis g netId = Ok n ->
    (forall p, In p (net_all n) ->
       p_incoming p = map (fun x => LINK_OF x) (filter (fun x => g_en x && Z.eqb (g_out x) (p_id p)) (genes g)) /\
       p_outgoing p = map (fun x => LINK_OF x) (filter (fun x => g_en x && Z.eqb (g_in x) (p_id p)) (genes g))) /\
    Permutation (concat (map p_incoming (net_all n))) (map (fun x => LINK_OF x) (filter g_en (genes g))) /\
    Permutation (concat (map p_outgoing (net_all n))) (map (fun x => LINK_OF x) (filter g_en (genes g))).
Proof. intros g netId n (Hn & Hg & Hm) Hok. exact (genesis_links g netId n Hn Hg Hm Hok). Qed.
Print Assumptions C11_genesis_links.

(* one control node per ENABLED module, in module order, wired to its listed inputs and outputs (non-recurrent
   links carrying the listed weights); AllNodes = base nodes followed by control nodes *)
Theorem C11_genesis_modules : forall g netId n,
    WF_GENESIS g -> genesis g netId = Ok n ->
    net_control n =
    map (fun m => {| p_id := n_id (m_node m); p_type := n_type (m_node m); p_act := n_act (m_node m);
                     p_trait := n_trait (m_node m);
                     p_incoming := map (fun sw => {| l_in := fst sw; l_out := n_id (m_node m); l_w := snd sw;
                                                     l_rec := false; l_trait := None |}) (m_ins m);
                     p_outgoing := map (fun dw => {| l_in := n_id (m_node m); l_out := fst dw; l_w := snd dw;
                                                     l_rec := false; l_trait := None |}) (m_outs m) |})
        (filter m_en (modules g)) /\
    net_all_mimo n = net_all n ++ net_control n.
Proof. intros g netId n (Hn & Hg & Hm) Hok. exact (genesis_modules g netId n Hn Hg Hm Hok). Qed.
Print Assumptions C11_genesis_modules.

(* Genesis returns an error exactly when the genome has no genes or no output node (any genome) ... *)
Theorem C11_genesis_error : forall g netId,
    (genesis g netId = GoErr ErrNoGenes <-> genes g = []) /\
    (genesis g netId = GoErr ErrNoOutputs <->
     genes g <> [] /\ filter (fun nd => Z.eqb (n_type nd) OUTPUT) (nodes g) = []) /\
    (forall c, genesis g netId = GoErr c -> c = ErrNoGenes \/ c = ErrNoOutputs).
Proof. exact genesis_error. Qed.
Print Assumptions C11_genesis_error.

(* ... and succeeds on every well-formed genome that has a gene and an output node *)
Theorem C11_genesis_succeeds : forall g netId,
    WF_GENESIS g -> genes g <> [] -> (exists nd, In nd (nodes g) /\ n_type nd = OUTPUT) ->
    exists n, genesis g netId = Ok n.
Proof. intros g netId (Hn & Hg & Hm) G O. exact (genesis_succeeds g netId Hn Hg Hm G O). Qed.
Print Assumptions C11_genesis_succeeds.

(* ---- graph view, for ALL u v : Z ---- *)

Theorem C11_has_edge_from_to : forall g netId n u v,
    WF_GRAPH g -> genesis g netId = Ok n ->
    (has_edge_from_to n u v = true <-> EDGE g u v).
Proof. intros g netId n u v (Hc & Hg & Hm) Hok. exact (view_has_edge_from_to g netId n Hc Hg Hm Hok u v). Qed.
Print Assumptions C11_has_edge_from_to.

Theorem C11_has_edge_between : forall g netId n u v,
    WF_GRAPH g -> genesis g netId = Ok n ->
    (has_edge_between n u v = true <-> EDGE g u v \/ EDGE g v u).
Proof. intros g netId n u v (Hc & Hg & Hm) Hok. exact (view_has_edge_between g netId n Hc Hg Hm Hok u v). Qed.
Print Assumptions C11_has_edge_between.

(* Edge / WeightedEdge: nil exactly for a non-edge; otherwise a link of the network that goes from u to v *)
Theorem C11_edge : forall g netId n u v,
    WF_GRAPH g -> genesis g netId = Ok n ->
    (gedge n u v = None <-> ~ EDGE g u v) /\
    (forall l, gedge n u v = Some l -> l_in l = u /\ l_out l = v /\ NET_LINK g l) /\
    gweighted_edge n u v = gedge n u v.
Proof. intros g netId n u v (Hc & Hg & Hm) Hok. exact (view_edge g netId n Hc Hg Hm Hok u v). Qed.
Print Assumptions C11_edge.

(* between two ordinary nodes the edge returned is the link of the FIRST enabled gene from u to v in gene
   order (relevant when a recurrent and a non-recurrent gene join the same ordered pair) *)
Theorem C11_edge_is_first_gene : forall g netId n u v,
    WF_GRAPH g -> genesis g netId = Ok n ->
    In u (map n_id (nodes g)) -> In v (map n_id (nodes g)) ->
    gedge n u v =
    option_map (fun x => LINK_OF x) (find (fun x => g_en x && Z.eqb (g_in x) u && Z.eqb (g_out x) v) (genes g)).
Proof. intros g netId n u v (Hc & Hg & Hm) Hok. exact (view_edge_nodes g netId n Hc Hg Hm Hok u v). Qed.
Print Assumptions C11_edge_is_first_gene.

(* Weight as coded: (weight of Edge(u,v), true) for an edge, (0, false) otherwise -- also for u = v
   without a self-loop gene *)
Theorem C11_weight : forall g netId n u v,
    WF_GRAPH g -> genesis g netId = Ok n ->
    (EDGE g u v -> exists l, gedge n u v = Some l /\ gweight n u v = (l_w l, true)) /\
    (~ EDGE g u v -> gweight n u v = (0%float, false)).
Proof. intros g netId n u v (Hc & Hg & Hm) Hok. exact (view_weight g netId n Hc Hg Hm Hok u v). Qed.
Print Assumptions C11_weight.

(* Node: the node with that id for a vertex, nil otherwise; Nodes: the node ids in genome order followed by the
   control nodes of the enabled modules in module order *)
Theorem C11_node : forall g netId n u,
    WF_GRAPH g -> genesis g netId = Ok n ->
    (gnode n u = Some u /\ VERTEX g u) \/ (gnode n u = None /\ ~ VERTEX g u).
Proof. intros g netId n u (Hc & Hg & Hm) Hok. exact (view_node g netId n Hc Hg Hm Hok u). Qed.
Print Assumptions C11_node.

Theorem C11_nodes : forall g netId n,
    WF_GRAPH g -> genesis g netId = Ok n ->
    gnodes n = map n_id (nodes g) ++ map (fun m => n_id (m_node m)) (filter m_en (modules g)).
Proof. intros g netId n (Hc & Hg & Hm) Hok. exact (view_nodes g netId n Hc Hg Hm Hok). Qed.
Print Assumptions C11_nodes.

(* From(u) = the successors of u.  Order: for an ordinary node the targets of its enabled genes in gene order
   (a target is listed once per gene, so twice when two genes join the same pair), then the control nodes of
   the enabled modules fed by u, in module order, once each; for a control node its module outputs in listed
   order; empty for an id that is not a vertex *)
Theorem C11_from : forall g netId n u,
    WF_GRAPH g -> genesis g netId = Ok n ->
    gfrom n u =
    (if existsb (Z.eqb u) (map n_id (nodes g)) then
       map g_out (filter (fun x => g_en x && Z.eqb (g_in x) u) (genes g))
       ++ map (fun m => n_id (m_node m))
              (filter (fun m => existsb (fun sw => Z.eqb (fst sw) u) (m_ins m)) (filter m_en (modules g)))
     else match find (fun m => Z.eqb (n_id (m_node m)) u) (filter m_en (modules g)) with
          | Some m => map fst (m_outs m)
          | None => []
          end) /\
    (forall v, In v (gfrom n u) <-> EDGE g u v).
Proof. intros g netId n u (Hc & Hg & Hm) Hok. exact (view_from g netId n Hc Hg Hm Hok u). Qed.
Print Assumptions C11_from.

(* To(v) = the predecessors of v, in the mirrored order *)
Theorem C11_to : forall g netId n v,
    WF_GRAPH g -> genesis g netId = Ok n ->
    gto n v =
    (if existsb (Z.eqb v) (map n_id (nodes g)) then
       map g_in (filter (fun x => g_en x && Z.eqb (g_out x) v) (genes g))
       ++ map (fun m => n_id (m_node m))
              (filter (fun m => existsb (fun dw => Z.eqb (fst dw) v) (m_outs m)) (filter m_en (modules g)))
     else match find (fun m => Z.eqb (n_id (m_node m)) v) (filter m_en (modules g)) with
          | Some m => map fst (m_ins m)
          | None => []
          end) /\
    (forall u, In u (gto n v) <-> EDGE g u v).
Proof. intros g netId n v (Hc & Hg & Hm) Hok. exact (view_to g netId n Hc Hg Hm Hok v). Qed.
Print Assumptions C11_to.

(* NodeCount = |V| (control nodes of enabled modules count); LinkCount = number of enabled genes + all control
   links (inputs and outputs of enabled modules); Complexity = NodeCount + LinkCount *)
Theorem C11_counts : forall g netId n,
    WF_GRAPH g -> genesis g netId = Ok n ->
    node_count n = zlen (nodes g) + zlen (filter m_en (modules g)) /\
    link_count n = zlen (filter g_en (genes g))
                   + fold_right Z.add 0 (map (fun m => zlen (m_ins m) + zlen (m_outs m)) (filter m_en (modules g))) /\
    complexity n = node_count n + link_count n.
Proof. intros g netId n (Hc & Hg & Hm) Hok. exact (view_counts g netId n Hc Hg Hm Hok). Qed.
Print Assumptions C11_counts.

(* ---- organism phenotype cache (model of Organism.Phenotype / UpdatePhenotype only; freshness of the cache
   through the genetic operators and epochs is checked on the implementation by the harness) ---- *)
Theorem C11_cache_partial : forall g,
    org_phenotype None g = genesis g (gid g) /\ org_update_phenotype g = genesis g (gid g) /\
    (forall c, org_phenotype (Some c) g = Ok c).
Proof. intros g. repeat split. Qed.
Print Assumptions C11_cache_partial.

(* ---- non-vacuity: a well-formed genome with a disabled gene, a recurrent gene parallel to a non-recurrent one,
   a self loop, an enabled module that has node 5 both as input and as output, and a disabled module ---- *)
Definition c11_example : genome :=
  {| gid := 1; traits := [];
     nodes := [ {| n_id := 1; n_type := INPUT; n_act := 0; n_trait := None |};
                {| n_id := 2; n_type := BIAS; n_act := 0; n_trait := None |};
                {| n_id := 4; n_type := OUTPUT; n_act := 1; n_trait := None |};
                {| n_id := 5; n_type := HIDDEN; n_act := 1; n_trait := None |} ];
     genes := [ {| g_in := 1; g_out := 4; g_rec := true; g_w := 9%float; g_trait := None; g_innov := 1; g_mut := 0%float; g_en := false |};
                {| g_in := 1; g_out := 4; g_rec := false; g_w := 1.5%float; g_trait := None; g_innov := 2; g_mut := 0%float; g_en := true |};
                {| g_in := 2; g_out := 5; g_rec := false; g_w := 2%float; g_trait := None; g_innov := 3; g_mut := 0%float; g_en := true |};
                {| g_in := 5; g_out := 5; g_rec := true; g_w := 0.5%float; g_trait := None; g_innov := 4; g_mut := 0%float; g_en := true |};
                {| g_in := 1; g_out := 4; g_rec := true; g_w := 3%float; g_trait := None; g_innov := 5; g_mut := 0%float; g_en := true |} ];
     modules := [ {| m_node := {| n_id := 8; n_type := HIDDEN; n_act := 20; n_trait := None |}; m_innov := 6; m_mut := 0%float;
                     m_en := true; m_ins := [(1, 1%float); (5, 1%float)]; m_outs := [(5, 2%float); (4, 1%float)] |};
                  {| m_node := {| n_id := 9; n_type := HIDDEN; n_act := 20; n_trait := None |}; m_innov := 7; m_mut := 0%float;
                     m_en := false; m_ins := [(77, 1%float)]; m_outs := [] |} ] |}.

Example C11_example_wf : WF_GRAPH c11_example /\ WF_GENESIS c11_example.
Proof.
  assert (ND : NoDup [1; 2; 4; 5; 8]).
  { repeat (constructor; [simpl; intuition discriminate|]). constructor. }
  assert (ND' : NoDup [1; 2; 4; 5]).
  { repeat (constructor; [simpl; intuition discriminate|]). constructor. }
  assert (HG : forall x, In x (genes c11_example) -> g_en x = true ->
                         In (g_in x) [1; 2; 4; 5] /\ In (g_out x) [1; 2; 4; 5]).
  { simpl. intros x [<-|[<-|[<-|[<-|[<-|[]]]]]]; simpl; intros _; tauto. }
  assert (HM : forall m, In m (modules c11_example) -> m_en m = true ->
                         forall s w, In (s, w) (m_ins m) \/ In (s, w) (m_outs m) -> In s [1; 2; 4; 5]).
  { simpl. intros m [<-|[<-|[]]]; simpl; [|discriminate].
    intros _ s w [[X|[X|[]]]|[X|[X|[]]]]; injection X as <- _; tauto. }
  split; (split; [assumption|split; assumption]).
Qed.

Example C11_example_run :
  match genesis c11_example 7 with
  | Ok n =>
    (gnodes n, node_count n, link_count n, complexity n) = ([1; 2; 4; 5; 8], 5, 8, 13) /\
    (gfrom n 1, gto n 5, gfrom n 8, gnode n 9, gnode n 8) = ([4; 4; 8], [2; 5; 8], [5; 4], None, Some 8) /\
    (has_edge_from_to n 8 5, has_edge_from_to n 5 8, has_edge_from_to n 4 1, has_edge_between n 4 1,
     has_edge_from_to n 5 5, has_edge_from_to n 4 4, has_edge_from_to n 8 8, has_edge_from_to n 9 77)
    = (true, true, false, true, true, false, false, false) /\
    option_map l_rec (gedge n 1 4) = Some false /\ fst (gweight n 1 4) = 1.5%float /\
    gweight n 4 4 = (0%float, false) /\ gedge n 77 9 = None
  | _ => False
  end.
Proof. vm_compute. repeat split. Qed.

(* ============================================================================================ *)
(* ==== agent-full: the phenotype cache THROUGH THE MUTATORS (strengthens C11_cache_partial) === *)
(* model/PhenoCache.v adds the field Genome.Phenotype to the genome model as a thin layer: a       *)
(* [cached] is a genome with its cached network ([cg_genome], [cg_pheno : option pnet]);            *)
(* [cg_mutate_add_link] is Genome.mutateAddLink including "if g.Phenotype == nil { Genesis(generation) }" *)
(* and "g.Phenotype = nil" after the insertion (fix 30a7ec9); every other mutator is [cg_lift m]:   *)
(* the plain mutator m of model/Mutate.v on the genome, the field carried along untouched (no other *)
(* mutator reads or writes it); [cg_mutate_baby] is the mutation step of Species.reproduce;         *)
(* [cg_org_phenotype c] is Organism.Phenotype() of NewOrganism(_, g, _) (which copies the field).   *)
(* [cache_fresh c]: the cache is empty or is genesis (cg_genome c) netId for some network id.       *)
(* Proofs: proofs/FullStatementsC11.v.  The implementation side of the same statements is the       *)
(* Go-side cache oracle of harness/c11.go (cache-stale-at-creation / cache-stale / epoch-cache-stale). *)
(* ============================================================================================ *)
From NeatModel Require Import GoRand Options Mutate PhenoCache.
From NeatModel Require Population FullStatementsC11.

Theorem C11_cache_vocabulary :
  (forall c, cache_fresh c <->
     match cg_pheno c with None => True | Some n => exists netId, genesis (cg_genome c) netId = Ok n end) /\
  (forall m c s, cg_lift m c s =
     match m (cg_genome c) s with
     | Ok ((g', b), s') => Ok (({| cg_genome := g'; cg_pheno := cg_pheno c |}, b), s')
     | GoErr e => GoErr e | GoPanic e => GoPanic e | OutOfTape => OutOfTape | OutOfFuel => OutOfFuel | BadOracle => BadOracle
     end) /\
  (forall c, cg_org_phenotype c = org_phenotype (cg_pheno c) (cg_genome c)).
Proof.
  split; [intros c; reflexivity|]. split; [|intros c; reflexivity].
  intros m c s. unfold cg_lift, bindM, ret. destruct (m (cg_genome c) s) as [[[g' b] s']| | | | |]; reflexivity.
Qed.
Print Assumptions C11_cache_vocabulary.

(* mutateAddLink, from ANY cache state: on the genome it is the plain mutator; when a gene was inserted
   (b = true) the cache is dropped; otherwise the genome is unchanged and the cache is what it was or, if it
   was empty, the network Genesis(generation) built from the unchanged genome.  Hence an up-to-date cache
   stays up to date. *)
Theorem C11_cache_add_link : forall o gen c s c' b s',
  cg_mutate_add_link o gen c s = Ok ((c', b), s') ->
  mutate_add_link o (cg_genome c) s = Ok ((cg_genome c', b), s') /\
  ((b = true /\ cg_pheno c' = None) \/
   (b = false /\ cg_genome c' = cg_genome c /\
    ((exists n, cg_pheno c = Some n /\ cg_pheno c' = Some n) \/
     (exists n, cg_pheno c = None /\ genesis (cg_genome c) gen = Ok n /\ cg_pheno c' = Some n)))) /\
  (cache_fresh c -> cache_fresh c').
Proof.
  intros o gen c s c' b s' H. destruct (FullStatementsC11.cg_add_link_inv o gen c s c' b s' H) as [A B].
  exact (conj A (conj B (fun F => FullStatementsC11.add_link_keeps_cache_fresh o gen c s c' b s' F H))).
Qed.
Print Assumptions C11_cache_add_link.

(* every mutator of model/Mutate.v, applied to a genome whose cache is empty (fresh from duplicate or a
   crossover: the only way Species.reproduce applies them): the genome part is the plain mutator's result;
   afterwards the cache is empty, or -- only after a mutateAddLink that inserted nothing -- it is the
   expression, under the generation number as network id, of the genome, which is then unchanged *)
Theorem C11_cache_after_mutators : forall o gen pw rt ga times c s c' b s',
  cg_pheno c = None ->
  (cg_mutate_add_link o gen c s = Ok ((c', b), s') -> mutate_add_link o (cg_genome c) s = Ok ((cg_genome c', b), s')) /\
  (cg_mutate_add_node o c s = Ok ((c', b), s') -> mutate_add_node o (cg_genome c) s = Ok ((cg_genome c', b), s')) /\
  (cg_mutate_connect_sensors c s = Ok ((c', b), s') -> mutate_connect_sensors (cg_genome c) s = Ok ((cg_genome c', b), s')) /\
  (cg_mutate_link_weights pw rt ga c s = Ok ((c', b), s') -> mutate_link_weights pw rt ga (cg_genome c) s = Ok ((cg_genome c', b), s')) /\
  (cg_mutate_random_trait o c s = Ok ((c', b), s') -> mutate_random_trait o (cg_genome c) s = Ok ((cg_genome c', b), s')) /\
  (cg_mutate_link_trait times c s = Ok ((c', b), s') -> mutate_link_trait times (cg_genome c) s = Ok ((cg_genome c', b), s')) /\
  (cg_mutate_node_trait times c s = Ok ((c', b), s') -> mutate_node_trait times (cg_genome c) s = Ok ((cg_genome c', b), s')) /\
  (cg_mutate_toggle_enable times c s = Ok ((c', b), s') -> mutate_toggle_enable times (cg_genome c) s = Ok ((cg_genome c', b), s')) /\
  (cg_mutate_gene_reenable c s = Ok ((c', b), s') -> mutate_gene_reenable (cg_genome c) s = Ok ((cg_genome c', b), s')) /\
  (cg_mutate_all_nonstructural o c s = Ok ((c', b), s') -> mutate_all_nonstructural o (cg_genome c) s = Ok ((cg_genome c', b), s')) /\
  (cg_mutate_add_link o gen c s = Ok ((c', b), s') \/ cg_mutate_add_node o c s = Ok ((c', b), s') \/
   cg_mutate_connect_sensors c s = Ok ((c', b), s') \/ cg_mutate_link_weights pw rt ga c s = Ok ((c', b), s') \/
   cg_mutate_random_trait o c s = Ok ((c', b), s') \/ cg_mutate_link_trait times c s = Ok ((c', b), s') \/
   cg_mutate_node_trait times c s = Ok ((c', b), s') \/ cg_mutate_toggle_enable times c s = Ok ((c', b), s') \/
   cg_mutate_gene_reenable c s = Ok ((c', b), s') \/ cg_mutate_all_nonstructural o c s = Ok ((c', b), s') ->
   cache_fresh c' /\
   (cg_pheno c' = None \/
    exists n, cg_pheno c' = Some n /\ cg_genome c' = cg_genome c /\ b = false /\ genesis (cg_genome c') gen = Ok n)).
Proof. exact FullStatementsC11.mutators_leave_cache_fresh. Qed.
Print Assumptions C11_cache_after_mutators.

(* the mutation step of Species.reproduce (model/Population.v, mutate_baby) on a fresh genome: same genome as
   the plain step, cache up to date *)
Theorem C11_cache_mutate_baby : forall o gen c s c' b s',
  cg_pheno c = None -> cg_mutate_baby o gen c s = Ok ((c', b), s') ->
  Population.mutate_baby o (cg_genome c) s = Ok ((cg_genome c', b), s') /\ cache_fresh c' /\
  (cg_pheno c' = None \/ exists n, cg_pheno c' = Some n /\ cg_genome c' = cg_genome c /\ genesis (cg_genome c') gen = Ok n).
Proof. exact FullStatementsC11.mutate_baby_cache. Qed.
Print Assumptions C11_cache_mutate_baby.

(* the organism created from a genome with an up-to-date cache: Organism.Phenotype() is the expression of
   its own genome (under the genome's id when the cache was empty, C11_cache_partial; under the generation
   number when an unsuccessful mutateAddLink left its network behind) *)
Theorem C11_cache_organism_phenotype : forall c n,
  cache_fresh c -> cg_org_phenotype c = Ok n -> exists netId, genesis (cg_genome c) netId = Ok n.
Proof. exact FullStatementsC11.organism_phenotype_fresh. Qed.
Print Assumptions C11_cache_organism_phenotype.

(* "whose cache is empty" cannot be dropped for the mutators other than mutateAddLink: a genome with a
   disabled gene and an up-to-date non-empty cache (two links); mutateGeneReEnable leaves the field alone and
   the cached network (still two links) is not the expression of the mutated genome (three links) under
   any id.  The library never does this (mutators run on genomes fresh from duplicate / crossover); the hook
   VMutate drops the field first for the same reason. *)
Theorem C11_cache_stale_after_reenable_with_nonempty_cache : forall s,
  exists c', cg_mutate_gene_reenable FullStatementsC11.stale_start s = Ok ((c', true), s) /\
             cache_fresh FullStatementsC11.stale_start /\ ~ cache_fresh c' /\
             cg_pheno c' = Some FullStatementsC11.stale_net /\
             FullStatementsC11.net_links FullStatementsC11.stale_net = 2%nat /\
             forall netId m, genesis (cg_genome c') netId = Ok m -> FullStatementsC11.net_links m = 3%nat.
Proof. exact FullStatementsC11.cache_stale_after_reenable. Qed.
Print Assumptions C11_cache_stale_after_reenable_with_nonempty_cache.
