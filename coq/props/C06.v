(* C06 — duplicating a genome gives an exact, independent copy.
   Property theorems only; proofs live in proofs/WF.v and proofs/SpawnSpec.v.
   Independence ("sharing no mutable state") is not expressible in a value model: it is decided by
   the harness (aliasing scan + mutate-either-side) and labelled partial in DESIGN.md. *)
From NeatModel Require Import Res F64 GoRand Genome Options Dup Mutate Spawn WF SpawnSpec GenomeLit.

(* every genome whose node, trait and module references resolve (in particular every well-formed
   one: any mix of disabled and recurrent genes, nil traits, modules) is duplicated to the very same
   value - traits, nodes with activation types, gene endpoints, weights, innovation and mutation
   numbers, recurrence and enabled flags, modules - under the new id *)
Theorem C06_dup_genetic_eq : forall g id,
    endpoints_ok g -> trait_refs_ok g -> module_refs_ok g -> duplicate g id = Ok (with_id g id).
Proof. exact duplicate_exact. Qed.
Print Assumptions C06_dup_genetic_eq.

(* on arbitrary input duplicate never panics: it returns a genome or a "node not found" error *)
Theorem C06_dup_total : forall g id, ok_or_err (duplicate g id).
Proof. exact duplicate_total. Qed.
Print Assumptions C06_dup_total.

(* a spawned organism has exactly the start genome's topology, flags, traits and numbers; only the
   weights differ and the mutation numbers mirror them; for every tape *)
Theorem C06_spawn_topology : forall g count s g' s',
    wf g -> spawn_genome g count s = Ok (g', s') ->
    gid g' = count /\ traits g' = traits g /\ nodes g' = nodes g /\ modules g' = modules g /\
    Forall2 reweighted (genes g) (genes g') /\ s_env s' = s_env s.
Proof. exact spawn_topology. Qed.
Print Assumptions C06_spawn_topology.

(* non-vacuity: a modular genome with a disabled and a recurrent gene and a nil trait *)
Definition c06_example : genome :=
  GN 7 [T 1 [0x1p-1]%float; T 2 [0x1p-2]%float]
     [N 1 1 17 (Some 1); N 2 3 17 None; N 3 0 4 (Some 2); N 4 2 4 (Some 1)]
     [G 1 3 false 0x1.8p+0 (Some 1) 1 0x1.8p+0 true; G 2 4 false (-0x1p+0) None 2 0 false;
      G 3 3 true 0x1p-1 (Some 2) 5 0x1p-1 true; G 3 4 false 0x1p+1 (Some 1) 6 0x1p+1 true]
     [MM (N 9 0 21 None) 7 0x1p-2 true [(3, 0x1p+0%float)] [(4, 0x1p-1%float)]].

Example C06_example_dup : duplicate c06_example 42 = Ok (with_id c06_example 42).
Proof. vm_compute. reflexivity. Qed.
