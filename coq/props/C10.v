(* C10 — the champion of every sizeable species survives the epoch unchanged.
   Property theorems only; proofs live in proofs/ChampHeap.v, ChampSpec.v (Species.reproduce),
   ChampPrepare.v (prepareForReproduction), ChampEpoch.v (speciate, finalizeReproduction),
   ChampSort.v / ChampWho.v (who the champion is), ChampHistory.v and ChampRun.v (runs).

   Model: model/Population.v (organisms live in a heap keyed by o_key; Population.Organisms and
   Species.Organisms are lists of keys).  "Unmodified copy" of a genome g: a genome with_id g n,
   i.e. g with another id and the very same traits, nodes, genes (endpoints, weights, innovation
   and mutation numbers, recurrence and ENABLED flags) and modules.  The champion of a species is
   its first organism after Species.adjustFitness sorted it (theChamp := s.Organisms[0] in
   Species.reproduce).  Every theorem holds for every random tape and innovation state [st]. *)
From NeatModel Require Import Compat.
From NeatModel Require Import Res F64 GoRand GoSource Genome Options Dup Population GenomeLit WF.
From NeatModel Require PopBase PopInv PopWF.
From NeatModel Require Import ChampHeap ChampSpec ChampPrepare ChampEpoch ChampSort ChampWho ChampHistory ChampRun.
From Coq Require Import Floats.

(* ---------- 1. Species.reproduce clones the champion ---------- *)
(* [s] reproduces in heap [h] with next fresh key [key] and returns the new heap, the next key
   and its babies.  If its quota exceeds five, the references of its champion's genome resolve
   (so Genome.duplicate cannot fail), and the champion's reserved super-champion offspring do not
   exceed the quota, one baby's genome is the champion's genome under another id.  Covers both
   branches: superChampOffspring > 0 (the last reserved offspring is the exact duplicate) and
   superChampOffspring = 0 (the clone made when ExpectedOffspring > 5). *)
Theorem C10_champ_clone :
  forall o gen all sorted s h key st h' key' babies st' champ,
    reproduce_species o gen all sorted s h key st = Ok ((h', key', babies), st') ->
    sp_exp s > 5 ->
    first_org h s = Ok champ ->
    endpoints_ok (o_genome champ) /\ trait_refs_ok (o_genome champ) /\ module_refs_ok (o_genome champ) ->
    o_super champ <= sp_exp s ->
    o_key champ < key ->
    exists k c b, In k babies /\ key <= k < key' /\ hget h' k = Ok b /\ o_genome b = with_id (o_genome champ) c.
Proof. exact champ_clone. Qed.
Print Assumptions C10_champ_clone.

(* what else Species.reproduce does to the heap: babies get exactly the keys key .. key'-1 and
   start without reserved offspring; no organism but the species' first one changes, and that one
   only in its superChampOffspring counter (decremented once per offspring while positive) *)
Theorem C10_reproduce_species_frame :
  forall o gen all sorted s h key st h' key' babies st',
    reproduce_species o gen all sorted s h key st = Ok ((h', key', babies), st') ->
    (forall k rest, sp_orgs s = k :: rest -> k < key) ->
    key' = key + Z.of_nat (Z.to_nat (sp_exp s)) /\
    (forall k, In k babies <-> key <= k < key') /\
    (forall k, k < key \/ key' <= k -> (forall rest, sp_orgs s <> k :: rest) -> hget h' k = hget h k) /\
    (forall c, first_org h s = Ok c ->
               first_org h' s = Ok (o_with_super c (Nat.iter (Z.to_nat (sp_exp s)) sn (o_super c)))) /\
    (forall k, key <= k < key' -> exists b, hget h' k = Ok b /\ o_super b = 0).
Proof.
  intros o gen all sorted s h key st h' key' babies st' H Hlt.
  destruct (reproduce_species_frame _ _ _ _ _ _ _ _ _ _ _ _ H Hlt) as [A B C D E]. auto.
Qed.
Print Assumptions C10_reproduce_species_frame.

(* ---------- 2. prepareForReproduction establishes "reserved offspring <= quota" ---------- *)
(* If no organism carries reserved offspring before the call (true between epochs, see
   C10_run_invariant), species ids are unique and every species member points back to its
   species, then afterwards every member x of every species s has 0 <= superChampOffspring <=
   s.ExpectedOffspring: delta coding sets both to the same value, giveBabiesToTheBest adds the
   same block to both. *)
Theorem C10_reserved_offspring_within_quota :
  forall o p st p1 sorted best st1,
    prepare o p st = Ok ((p1, sorted, best), st1) ->
    0 <= o_pop_size o ->
    NoDup (map sp_id (p_species p)) ->
    (forall s k, In s (p_species p) -> In k (sp_orgs s) -> exists x, hget (p_heap p) k = Ok x /\ o_species x = sp_id s) ->
    (forall k x, hget (p_heap p) k = Ok x -> o_super x = 0) ->
    forall s k x, In s (p_species p1) -> In k (sp_orgs s) -> hget (p_heap p1) k = Ok x -> 0 <= o_super x <= sp_exp s.
Proof.
  intros o p st p1 sorted best st1 H Hpop Hnd Hm Hs0.
  exact (pr_quota _ _ (prepare_frame o p st p1 sorted best st1 H Hpop Hnd Hm Hs0)).
Qed.
Print Assumptions C10_reserved_offspring_within_quota.

(* ---------- 3. one epoch ---------- *)
(* The three phases of SequentialPopulationEpochExecutor.NextEpoch.  [p] satisfies the structural
   invariant of a population between epochs: unique species ids; members point back to their
   species; no reserved offspring; heap keys and Population.Organisms below the fresh-key
   counter.  Then for every species [sp] of the prepared population with quota > 5 whose
   champion's genome has resolving references, the next population [p3] contains an organism whose
   genome is the champion's genome under another id. *)
Theorem C10_step :
  forall o gen p st p1 sorted best st1 x1 p2 x2 st2 p3 st3,
    prepare o p st = Ok ((p1, sorted, best), st1) ->
    reproduce o gen p1 sorted x1 st1 = Ok ((p2, x2), st2) ->
    finalize p2 x2 st2 = Ok (p3, st3) ->
    NoDup (map sp_id (p_species p)) ->
    (forall s k, In s (p_species p) -> In k (sp_orgs s) -> exists x, hget (p_heap p) k = Ok x /\ o_species x = sp_id s) ->
    (forall k x, hget (p_heap p) k = Ok x -> o_super x = 0) ->
    (forall k x, hget (p_heap p) k = Ok x -> k < p_next_key p) ->
    (forall k, In k (p_orgs p) -> k < p_next_key p) ->
    forall sp champ,
      In sp (p_species p1) -> sp_exp sp > 5 -> first_org (p_heap p1) sp = Ok champ ->
      endpoints_ok (o_genome champ) /\ trait_refs_ok (o_genome champ) /\ module_refs_ok (o_genome champ) ->
      exists b, In (o_key b) (p_orgs p3) /\ hget (p_heap p3) (o_key b) = Ok b /\
                exists n, o_genome b = with_id (o_genome champ) n.
Proof.
  intros o gen p st p1 sorted best st1 x1 p2 x2 st2 p3 st3 H1 H2 H3 W1 W2 W3 W4 W5.
  exact (champ_survives_epoch o gen p st p1 sorted best st1 x1 p2 x2 st2 p3 st3 H1 H2 H3 (Build_pop_ok p W1 W2 W3 W4 W5)).
Qed.
Print Assumptions C10_step.

(* the same through NextEpoch itself *)
Theorem C10_next_epoch :
  forall o gen p x st p' x' st',
    next_epoch o gen p x st = Ok ((p', x'), st') ->
    pop_ok p ->
    exists p1 sorted best st1,
      prepare o p st = Ok ((p1, sorted, best), st1) /\
      forall sp champ,
        In sp (p_species p1) -> sp_exp sp > 5 -> first_org (p_heap p1) sp = Ok champ -> refs_ok (o_genome champ) ->
        exists b, In (o_key b) (p_orgs p') /\ hget (p_heap p') (o_key b) = Ok b /\
                  exists n, o_genome b = with_id (o_genome champ) n.
Proof. exact champ_survives_next_epoch. Qed.
Print Assumptions C10_next_epoch.

(* ---------- 4. every generation of a run ---------- *)
(* the invariant is established by NewPopulation and kept by fitness assignment and by NextEpoch *)
Theorem C10_run_invariant :
  (forall o g s p s', new_population o g s = Ok (p, s') -> run_inv p) /\
  (forall p fs h, run_inv p -> set_fitness (p_heap p) (p_orgs p) fs = Ok h -> run_inv (p_with_heap p h)) /\
  (forall o gen p x st p' x' st', run_inv p -> next_epoch o gen p x st = Ok ((p', x'), st') -> run_inv p') /\
  (forall p, run_inv p -> pop_ok p).
Proof. exact (conj run_inv_spawn (conj run_inv_fitness (conj run_inv_epoch run_inv_ok))). Qed.
Print Assumptions C10_run_invariant.

(* [q] is any population of any run: NewPopulation on a well-formed start genome g0, then any
   number of epochs, each after an arbitrary fitness assignment, with arbitrary generation number,
   executor state and random tape (PopWF.history).  Whatever fitness values are then assigned to q
   and whatever the tape, a successful turnover keeps, for every species that prepare gives a
   quota above five, an unmodified copy of its champion's genome in the next population q'. *)
Theorem C10_every_generation :
  forall o g0 s0 p s l p' s' q,
    wf g0 -> innovs (s_env s0) = [] ->
    new_population o g0 s0 = Ok (p, s) -> PopWF.history o p s l p' s' -> In q (p :: l) ->
    forall fs h gen x st q' x' st',
      set_fitness (p_heap q) (p_orgs q) fs = Ok h ->
      next_epoch o gen (p_with_heap q h) x st = Ok ((q', x'), st') ->
      exists p1 sorted best st1,
        prepare o (p_with_heap q h) st = Ok ((p1, sorted, best), st1) /\
        forall sp champ,
          In sp (p_species p1) -> sp_exp sp > 5 -> first_org (p_heap p1) sp = Ok champ ->
          exists b, In (o_key b) (p_orgs q') /\ hget (p_heap q') (o_key b) = Ok b /\
                    exists n, o_genome b = with_id (o_genome champ) n.
Proof. exact champion_in_every_generation. Qed.
Print Assumptions C10_every_generation.

(* ---------- 5. who the champion is ---------- *)
(* the modelled sort.Sort(sort.Reverse(...)) puts an Organisms.Less-maximal organism first, for
   organisms whose fitness and highest fitness are not NaN *)
Theorem C10_sort_puts_maximal_first :
  forall l top r,
    Forall (fun x => PrimFloat.is_nan (o_fit x) = false /\ PrimFloat.is_nan (o_highest x) = false) l ->
    sort_desc org_lt l = top :: r -> forall y, In y l -> org_lt top y = false.
Proof. exact sort_desc_org_max. Qed.
Print Assumptions C10_sort_puts_maximal_first.

(* After prepare, the first organism [champ] of every species [sp] is a member of the species
   [s0] of the same id as it was before the call, it is not marked for elimination (so
   purgeOrganisms kept it), and no member y of s0 is Organisms.Less-greater than it in adjusted
   fitness; y's originalFitness is the raw fitness it had.  Hypotheses on every species: members
   listed once, numParents = floor(SurvivalThresh * n + 1) >= 1, members not marked before and
   their adjusted fitness / highest fitness not NaN. *)
Theorem C10_champion_is_maximal :
  forall o p st p1 sorted best st1,
    prepare o p st = Ok ((p1, sorted, best), st1) ->
    0 <= o_pop_size o ->
    NoDup (map sp_id (p_species p)) ->
    (forall s k, In s (p_species p) -> In k (sp_orgs s) -> exists x, hget (p_heap p) k = Ok x /\ o_species x = sp_id s) ->
    (forall k x, hget (p_heap p) k = Ok x -> o_super x = 0) ->
    (forall s, In s (p_species p) ->
               NoDup (sp_orgs s) /\ 1 <= num_parents o (zlen (sp_orgs s)) /\
               forall k x, In k (sp_orgs s) -> hget (p_heap p) k = Ok x ->
                           o_elim x = false /\
                           (PrimFloat.is_nan (o_fit (adjusted o s x)) = false /\
                            PrimFloat.is_nan (o_highest (adjusted o s x)) = false)) ->
    forall sp champ, In sp (p_species p1) -> first_org (p_heap p1) sp = Ok champ ->
      exists s0, In s0 (p_species p) /\ sp_id s0 = sp_id sp /\ In (o_key champ) (sp_orgs s0) /\ o_elim champ = false /\
        forall k x, In k (sp_orgs s0) -> hget (p_heap p) k = Ok x ->
          exists y, hget (p_heap p1) k = Ok y /\ o_orig y = o_fit x /\ o_fit y = o_fit (adjusted o s0 x) /\
                    o_highest y = o_highest x /\ org_lt champ y = false.
Proof. exact prepare_champion. Qed.
Print Assumptions C10_champion_is_maximal.

(* Raw fitness.  Under the explicit hypothesis that, within each species, a strictly larger raw
   fitness gives a strictly larger adjusted fitness (adjustFitness multiplies all members by the
   same factors and divides by the species size; in binary64 two raw values one ulp apart can
   round to the same adjusted value, see C10_example_rounding_tie, so this is a hypothesis and
   not a theorem), the champion has maximal raw fitness in its species. *)
Theorem C10_champion_max_raw_partial :
  forall o p st p1 sorted best st1,
    prepare o p st = Ok ((p1, sorted, best), st1) ->
    0 <= o_pop_size o ->
    NoDup (map sp_id (p_species p)) ->
    (forall s k, In s (p_species p) -> In k (sp_orgs s) -> exists x, hget (p_heap p) k = Ok x /\ o_species x = sp_id s) ->
    (forall k x, hget (p_heap p) k = Ok x -> o_super x = 0) ->
    (forall s, In s (p_species p) -> species_hyps o (p_heap p) s) ->
    (forall s a b ka kb, In s (p_species p) -> In ka (sp_orgs s) -> In kb (sp_orgs s) ->
                         hget (p_heap p) ka = Ok a -> hget (p_heap p) kb = Ok b ->
                         PrimFloat.ltb (o_fit a) (o_fit b) = true ->
                         PrimFloat.ltb (o_fit (adjusted o s a)) (o_fit (adjusted o s b)) = true) ->
    forall sp champ, In sp (p_species p1) -> first_org (p_heap p1) sp = Ok champ ->
      exists s0 xc, In s0 (p_species p) /\ sp_id s0 = sp_id sp /\ In (o_key champ) (sp_orgs s0) /\
        hget (p_heap p) (o_key champ) = Ok xc /\ o_genome champ = o_genome xc /\
        forall k x, In k (sp_orgs s0) -> hget (p_heap p) k = Ok x -> PrimFloat.ltb (o_fit xc) (o_fit x) = false.
Proof. exact champion_max_raw. Qed.
Print Assumptions C10_champion_max_raw_partial.

(* consequently an organism strictly fitter than every other member of its species is that
   species' champion, and with a quota above five its genome is in the next population *)
Theorem C10_best_of_species_survives_partial :
  forall o gen p x st p' x' st',
    next_epoch o gen p x st = Ok ((p', x'), st') ->
    pop_ok p ->
    (forall s, In s (p_species p) -> species_hyps o (p_heap p) s) ->
    (forall s a b ka kb, In s (p_species p) -> In ka (sp_orgs s) -> In kb (sp_orgs s) ->
                         hget (p_heap p) ka = Ok a -> hget (p_heap p) kb = Ok b ->
                         PrimFloat.ltb (o_fit a) (o_fit b) = true ->
                         PrimFloat.ltb (o_fit (adjusted o s a)) (o_fit (adjusted o s b)) = true) ->
    exists p1 sorted best st1,
      prepare o p st = Ok ((p1, sorted, best), st1) /\
      forall s0 kb xb sp champ,
        In s0 (p_species p) -> In kb (sp_orgs s0) -> hget (p_heap p) kb = Ok xb ->
        (forall k y, In k (sp_orgs s0) -> hget (p_heap p) k = Ok y -> k <> kb -> PrimFloat.ltb (o_fit y) (o_fit xb) = true) ->
        refs_ok (o_genome xb) ->
        In sp (p_species p1) -> sp_id sp = sp_id s0 -> sp_exp sp > 5 -> first_org (p_heap p1) sp = Ok champ ->
        o_key champ = kb /\
        exists b, In (o_key b) (p_orgs p') /\ hget (p_heap p') (o_key b) = Ok b /\ exists n, o_genome b = with_id (o_genome xb) n.
Proof. exact best_of_species_survives. Qed.
Print Assumptions C10_best_of_species_survives_partial.

(* ---------- 6. the best genome is never lost ---------- *)
(* held_history o g gen p x st l: a run of |l| epochs from p (fitness assignment, NextEpoch, the
   evaluator may consume randomness in between) in each of which the genome g, modulo its id, is
   the genome of the champion of a species whose quota exceeds five; l lists the successive
   populations.  Then g is present, modulo its id, in every one of them. *)
Theorem C10_best_never_lost :
  forall o g gen p x st l,
    endpoints_ok g /\ trait_refs_ok g /\ module_refs_ok g ->
    run_inv p -> held_history o g gen p x st l ->
    Forall (fun q => exists b, In (o_key b) (p_orgs q) /\ hget (p_heap q) (o_key b) = Ok b /\
                               exists n, o_genome b = with_id g n) l.
Proof. exact best_never_lost. Qed.
Print Assumptions C10_best_never_lost.

(* The property at full strength, with "fittest" read as "of maximal raw fitness": it is the
   conjunction of C10_every_generation with the claim that the champion is the raw-fittest member
   WITHOUT the order-preservation hypothesis of C10_champion_max_raw_partial.  That last claim is
   false in binary64 for raw fitness values one ulp apart (C10_example_rounding_tie), so only the
   hypothesis-carrying form is a theorem. *)
Definition C10_full : Prop :=
  forall o g0 s0 p s l p' s' q,
    wf g0 -> innovs (s_env s0) = [] ->
    new_population o g0 s0 = Ok (p, s) -> PopWF.history o p s l p' s' -> In q (p :: l) ->
    forall fs h gen x st q' x' st',
      set_fitness (p_heap q) (p_orgs q) fs = Ok h ->
      next_epoch o gen (p_with_heap q h) x st = Ok ((q', x'), st') ->
      exists p1 sorted best st1,
        prepare o (p_with_heap q h) st = Ok ((p1, sorted, best), st1) /\
        forall sp s0 kb xb,
          In sp (p_species p1) -> sp_exp sp > 5 ->
          In s0 (p_species q) -> sp_id s0 = sp_id sp -> In kb (sp_orgs s0) -> hget h kb = Ok xb ->
          (forall k y, In k (sp_orgs s0) -> hget h k = Ok y -> k <> kb -> PrimFloat.ltb (o_fit y) (o_fit xb) = true) ->
          exists b, In (o_key b) (p_orgs q') /\ hget (p_heap q') (o_key b) = Ok b /\
                    exists n, o_genome b = with_id (o_genome xb) n.

(* ---------- non-vacuity ---------- *)
Definition ex_opts (pop dropoff stolen : Z) : options :=
  OPT [0x1p-01%float; 0x1p+00%float; 0x1.4p+01%float; 0x1p+00%float; 0x1p+00%float; 0x1.999999999999ap-02%float;
       0x1.8p+1%float; 0x1p+00%float; 0x1.999999999999ap-03%float; 0x1p-01%float; 0x1.999999999999ap-04%float;
       0x1.999999999999ap-04%float; 0x1.999999999999ap-04%float; 0x1.ccccccccccccdp-01%float; 0x1.999999999999ap-04%float;
       0x1.999999999999ap-04%float; 0x1.3333333333333p-02%float; 0x1p-01%float; 0x1.999999999999ap-04%float;
       0x1.999999999999ap-04%float; 0x1.3333333333333p-01%float; 0x1.999999999999ap-02%float; 0x1.999999999999ap-03%float;
       0x1.999999999999ap-03%float; 0x1.999999999999ap-03%float] pop dropoff 20 stolen false [4] [0x1p+00%float].

(* the second gene is DISABLED: every spawned organism, hence every champion, carries a disabled gene *)
Definition ex_start : genome :=
  GN 1 [T 1 [0x1.999999999999ap-04%float; zero]; T 2 [0x1.999999999999ap-03%float; zero]]
       [N 1 1 17 None; N 2 1 17 None; N 3 3 17 None; N 4 2 4 None]
       [G 1 4 false zero (Some 1) 1 zero true; G 2 4 false zero (Some 2) 2 zero false; G 3 4 false zero (Some 1) 3 zero true] [].
Definition ex_s0 : st := {| s_tape := go_tape 42 4000; s_env := {| innovs := []; next_innov := 0; next_node := 0 |} |}.

Definition noid_eqb (a b : genome) : bool := genome_eqb (with_id a 0) (with_id b 0).
Definition presentb (g : genome) (p : population) : bool :=
  existsb (fun k => match hget (p_heap p) k with Ok b => noid_eqb (o_genome b) g | _ => false end) (p_orgs p).

(* spawn, assign [fit], run the three phases; per species of the prepared population:
   (quota, the champion's reserved offspring, the champion has a disabled gene, the champion is
   the organism spawned as number [gid], the champion's genome is in the next population) *)
Definition ex_run (o : options) (fit : list float) : res (list (Z * Z * bool * Z * bool)) :=
  match new_population o ex_start ex_s0 with
  | Ok (p, s) =>
    match set_fitness (p_heap p) (p_orgs p) fit with
    | Ok h =>
      match prepare o (p_with_heap p h) s with
      | Ok ((p1, sorted, best), s1) =>
        match reproduce o 1 p1 sorted {| x_best_id := best; x_best_reproduced := false |} s1 with
        | Ok ((p2, x2), s2) =>
          match finalize p2 x2 s2 with
          | Ok (p3, s3) =>
            Ok (map (fun sp => match first_org (p_heap p1) sp with
                               | Ok c => (sp_exp sp, o_super c, existsb (fun x => negb (g_en x)) (genes (o_genome c)),
                                          gid (o_genome c), presentb (o_genome c) p3)
                               | _ => (sp_exp sp, -1, false, -1, false) end) (p_species p1))
          | _ => GoErr 3 end
        | _ => GoErr 2 end
      | _ => GoErr 1 end
    | _ => GoErr 0 end
  | _ => GoErr (-1) end.

(* clone branch: one species of eight, quota 8 > 5, no reserved offspring; the champion (fitness 9,
   spawned as number 5) has a disabled gene and its genome is in the next population *)
Example C10_example_clone :
  ex_run (ex_opts 8 15 0) [3; 1; 4; 8; 5; 9; 2; 6]%float = Ok [(8, 0, true, 5, true)].
Proof. vm_compute. reflexivity. Qed.

(* super-champion branch: drop-off age -5 triggers delta coding in the first epoch, the champion
   gets 8 reserved offspring = its quota; the last one is the exact duplicate *)
Example C10_example_super_champion :
  ex_run (ex_opts 8 (-5) 0) [3; 1; 4; 8; 5; 9; 2; 6]%float = Ok [(8, 8, true, 5, true)].
Proof. vm_compute. reflexivity. Qed.

(* the hypotheses of C10_every_generation and C10_best_never_lost are satisfiable *)
Example C10_example_wf_start : wf ex_start.
Proof.
  constructor.
  - discriminate.
  - unfold genes_sorted, InsertSpec.asc. cbn. repeat constructor.
  - unfold links_nodup. cbn. repeat constructor; cbn; intuition discriminate.
  - unfold nodes_sorted, InsertSpec.asc. cbn. repeat constructor.
  - intros x [<-|[<-|[<-|[]]]]; cbn; eexists; eexists; repeat split.
  - split.
    + intros x t [<-|[<-|[<-|[]]]] [= <-]; (split; [discriminate|]); cbn; eauto.
    + intros n t [<-|[<-|[<-|[<-|[]]]]]; discriminate.
  - split; [discriminate|]. exists 1. split; [reflexivity|reflexivity].
  - exists (N 4 2 4 None). split; [cbn; auto|reflexivity].
  - reflexivity.
Qed.

Example C10_example_run :
  exists p s, new_population (ex_opts 8 15 0) ex_start ex_s0 = Ok (p, s) /\ run_inv p /\
              PopWF.history (ex_opts 8 15 0) p s [] p s.
Proof.
  assert (Hok : is_ok (new_population (ex_opts 8 15 0) ex_start ex_s0) = true) by (vm_compute; reflexivity).
  destruct (new_population (ex_opts 8 15 0) ex_start ex_s0) as [[p s]| | | | |] eqn:E; try (discriminate Hok).
  exists p, s. split; [reflexivity|]. split; [exact (run_inv_spawn _ _ _ _ _ E)|constructor].
Qed.

(* numParents of the example options: floor(0.2 * 8 + 1) = 2 >= 1 *)
Example C10_example_num_parents : num_parents (ex_opts 8 15 0) 8 = 2.
Proof. vm_compute. reflexivity. Qed.

(* the hypothesis numParents >= 1 of C10_champion_is_maximal holds for the survival thresholds the
   harness uses (0.1, 0.2, 0.3, 1.0) and every species size from 1 to 400 *)
Definition np_formula (sv : float) (n : Z) : Z :=
  f_trunc_Z (ffloor (PrimFloat.add (PrimFloat.mul sv (f_of_Z n)) 1%float)).
Example C10_num_parents_formula : forall o n, num_parents o n = np_formula (o_survival o) n.
Proof. reflexivity. Qed.
Example C10_example_num_parents_range :
  forallb (fun sv => forallb (fun i => Z.leb 1 (np_formula sv (Z.of_nat i))) (seq 1 400))
          [0x1.999999999999ap-4; 0x1.999999999999ap-3; 0x1.3333333333333p-2; 1]%float = true.
Proof. vm_compute. reflexivity. Qed.

(* Rounding tie (recorded finding): six organisms in one species; the first has raw fitness 7, the
   second 7 + 1 ulp.  Both are divided by the species size 6 and round to the same adjusted
   fitness 0x1.2aaaaaaaaaaabp+0; the stable sort keeps the first one first, so the champion is
   organism 0 although organism 1 is (by one ulp) the fittest. *)
Example C10_example_rounding_tie :
  ex_run (ex_opts 6 15 0) [0x1.cp+2; 0x1.c000000000001p+2; 1; 2; 3; 4]%float = Ok [(6, 0, true, 0, true)]
  /\ PrimFloat.ltb 0x1.cp+2 0x1.c000000000001p+2 = true
  /\ PrimFloat.eqb (PrimFloat.div 0x1.cp+2 6) (PrimFloat.div 0x1.c000000000001p+2 6) = true.
Proof. vm_compute. repeat split. Qed.

(* ---------- 7. float-level hypotheses discharged (proofs/FloatMono.v, FloatMonoChamp.v) ---------- *)
From NeatModel Require FloatMono FloatMonoChamp.

(* Species.adjustFitness is monotone on non-negative raw fitness.  For two organisms of raw fitness
   0 <= f1 <= f2 (binary64 order; f2 may be +infinity; NaN excluded by the comparisons), the same
   species parameters (age, penalty flag, size 1 <= n < 2^63) and, when the young-species boost
   applies, a positive finite AgeSignificance: 0 <= adjusted f1 <= adjusted f2, where overflow of
   f * AgeSignificance to +infinity is covered (+infinity <= +infinity).  Multiplication by 0.01 or
   AgeSignificance and division by float64(n) round to nearest, which is monotone; non-strictly:
   see C10_example_rounding_tie. *)
Theorem C10_fitness_adjustment_monotone :
  forall o age debt n x1 x2,
    (age <= 10 -> PrimFloat.ltb 0%float (o_age_sig o) = true /\ PrimFloat.ltb (o_age_sig o) infinity = true) ->
    1 <= n < 2 ^ 63 ->
    PrimFloat.leb 0%float (o_fit x1) = true -> PrimFloat.leb (o_fit x1) (o_fit x2) = true ->
    PrimFloat.leb 0%float (o_fit (adjust_one o age debt n x1)) = true /\
    PrimFloat.leb (o_fit (adjust_one o age debt n x1)) (o_fit (adjust_one o age debt n x2)) = true.
Proof. intros o age debt n x1 x2. exact (FloatMono.adj_fit_mono o age debt n (o_fit x1) (o_fit x2)). Qed.
Print Assumptions C10_fitness_adjustment_monotone.

(* numParents = int(math.Floor(SurvivalThresh * float64(n) + 1)) >= 1 (the hypothesis of
   C10_champion_is_maximal and of C02's survivors_ok).  For 0 <= SurvivalThresh <= 2^29 and a species
   of fewer than 2^31 organisms the value lies in [1, 2^61], inside the range [-2^63, 2^63) in which
   Go's int(x) truncates (beyond it the result is implementation-defined; the model follows amd64,
   F64.f_trunc_Z, platform assumption "amd64-cvttsd2sq": math.MinInt64). *)
Theorem C10_num_parents_positive :
  forall o n,
    PrimFloat.leb 0%float (o_survival o) = true -> PrimFloat.leb (o_survival o) 0x1p+29%float = true ->
    0 <= n < 2 ^ 31 ->
    1 <= num_parents o n <= 2 ^ 61.
Proof. intros o n. exact (FloatMono.np_of_small (o_survival o) n). Qed.
Print Assumptions C10_num_parents_positive.

(* for every species size (also sizes no Go slice can have: float64(n) stays in [0, 2^63]) and
   0 <= SurvivalThresh <= 1/2: the sum SurvivalThresh * float64(n) + 1 stays below 2^63.  (Before the
   conversion was modelled as on amd64 this was stated for SurvivalThresh <= 2^900; that was true of
   the totalised int(x) only.) *)
Theorem C10_num_parents_positive_any_size :
  forall o n,
    PrimFloat.leb 0%float (o_survival o) = true -> PrimFloat.leb (o_survival o) 0x1p-1%float = true ->
    0 <= n -> 1 <= num_parents o n.
Proof. intros o n. exact (FloatMono.np_of_pos (o_survival o) n). Qed.
Print Assumptions C10_num_parents_positive_any_size.

(* a bound on SurvivalThresh is needed: 2^1023 * 2 overflows, Floor(+Inf) = +Inf and int(+Inf) is
   math.MinInt64 = -2^63 on amd64 (the Go specification leaves the conversion implementation-defined);
   with a negative numParents adjustFitness indexes s.Organisms[numParents] and panics *)
Example C10_example_num_parents_overflow : np_formula 0x1p+1023%float 2 = - 2 ^ 63.
Proof. vm_compute. reflexivity. Qed.

(* no positive threshold works for every n: SurvivalThresh = 1 and the largest Go int, n = 2^63 - 1,
   give float64(n) = 2^63, 1 * 2^63 + 1 = 2^63 and int(2^63) = math.MinInt64 *)
Example C10_example_num_parents_huge_species : np_formula 1%float (2 ^ 63 - 1) = - 2 ^ 63.
Proof. vm_compute. reflexivity. Qed.

(* The champion's raw fitness is maximal UP TO ROUNDING TIES, without the order-preservation
   hypothesis of C10_champion_max_raw_partial and with the float side conditions of
   C10_champion_is_maximal (numParents >= 1, adjusted fitness not NaN) discharged.  Hypotheses on the
   inputs only: SurvivalThresh in [0, 2^29]; AgeSignificance positive and finite; every species
   lists its members once and has fewer than 2^31 of them (so SurvivalThresh * n + 1 < 2^61 and
   int(.) is an in-range conversion: C10_num_parents_positive); members are not marked for elimination,
   their raw fitness is >= 0 (not NaN; +infinity allowed) and their highest fitness is not NaN.
   Then for the first organism [champ] of every species after prepare, with xc the organism it was
   before: no member x of the species has an adjusted fitness strictly greater than xc's, and a
   member with strictly greater RAW fitness has an EQUAL adjusted fitness (a rounding tie, which
   does occur: C10_example_rounding_tie). *)
Theorem C10_champion_raw_maximal_up_to_rounding :
  forall o p st p1 sorted best st1,
    prepare o p st = Ok ((p1, sorted, best), st1) ->
    0 <= o_pop_size o ->
    NoDup (map sp_id (p_species p)) ->
    (forall s k, In s (p_species p) -> In k (sp_orgs s) -> exists x, hget (p_heap p) k = Ok x /\ o_species x = sp_id s) ->
    (forall k x, hget (p_heap p) k = Ok x -> o_super x = 0) ->
    (PrimFloat.leb 0%float (o_survival o) = true /\ PrimFloat.leb (o_survival o) 0x1p+29%float = true /\
     PrimFloat.ltb 0%float (o_age_sig o) = true /\ PrimFloat.ltb (o_age_sig o) infinity = true) ->
    (forall s, In s (p_species p) ->
       NoDup (sp_orgs s) /\ zlen (sp_orgs s) < 2 ^ 31 /\
       forall k x, In k (sp_orgs s) -> hget (p_heap p) k = Ok x ->
                   o_elim x = false /\ PrimFloat.leb 0%float (o_fit x) = true /\ PrimFloat.is_nan (o_highest x) = false) ->
    forall sp champ, In sp (p_species p1) -> first_org (p_heap p1) sp = Ok champ ->
      exists s0 xc, In s0 (p_species p) /\ sp_id s0 = sp_id sp /\ In (o_key champ) (sp_orgs s0) /\
        hget (p_heap p) (o_key champ) = Ok xc /\ o_genome champ = o_genome xc /\
        forall k x, In k (sp_orgs s0) -> hget (p_heap p) k = Ok x ->
          PrimFloat.ltb (o_fit (adjusted o s0 xc)) (o_fit (adjusted o s0 x)) = false /\
          (PrimFloat.ltb (o_fit xc) (o_fit x) = true ->
           PrimFloat.eqb (o_fit (adjusted o s0 xc)) (o_fit (adjusted o s0 x)) = true).
Proof. exact FloatMonoChamp.champion_raw_up_to_rounding. Qed.
Print Assumptions C10_champion_raw_maximal_up_to_rounding.

(* Consequently, through NextEpoch: let xb be strictly fitter (raw fitness) than every other member
   of its species s0.  Then the champion's adjusted fitness EQUALS xb's; the champion is xb or a
   less fit member that ties with xb after rounding; with a quota above five the champion's genome
   is in the next population; and if no other member ties with xb after rounding, the champion IS
   xb (so then xb's genome survives). *)
Theorem C10_best_of_species_survives_up_to_rounding :
  forall o gen p x st p' x' st',
    next_epoch o gen p x st = Ok ((p', x'), st') ->
    pop_ok p ->
    (PrimFloat.leb 0%float (o_survival o) = true /\ PrimFloat.leb (o_survival o) 0x1p+29%float = true /\
     PrimFloat.ltb 0%float (o_age_sig o) = true /\ PrimFloat.ltb (o_age_sig o) infinity = true) ->
    (forall s, In s (p_species p) ->
       NoDup (sp_orgs s) /\ zlen (sp_orgs s) < 2 ^ 31 /\
       forall k x, In k (sp_orgs s) -> hget (p_heap p) k = Ok x ->
                   o_elim x = false /\ PrimFloat.leb 0%float (o_fit x) = true /\ PrimFloat.is_nan (o_highest x) = false) ->
    exists p1 sorted best st1,
      prepare o p st = Ok ((p1, sorted, best), st1) /\
      forall s0 kb xb sp champ,
        In s0 (p_species p) -> In kb (sp_orgs s0) -> hget (p_heap p) kb = Ok xb ->
        (forall k y, In k (sp_orgs s0) -> hget (p_heap p) k = Ok y -> k <> kb -> PrimFloat.ltb (o_fit y) (o_fit xb) = true) ->
        In sp (p_species p1) -> sp_id sp = sp_id s0 -> first_org (p_heap p1) sp = Ok champ ->
        exists xc, In (o_key champ) (sp_orgs s0) /\ hget (p_heap p) (o_key champ) = Ok xc /\ o_genome champ = o_genome xc /\
          PrimFloat.eqb (o_fit (adjusted o s0 xc)) (o_fit (adjusted o s0 xb)) = true /\
          (o_key champ = kb \/ PrimFloat.ltb (o_fit xc) (o_fit xb) = true) /\
          (sp_exp sp > 5 -> refs_ok (o_genome xc) ->
           exists b, In (o_key b) (p_orgs p') /\ hget (p_heap p') (o_key b) = Ok b /\ exists n, o_genome b = with_id (o_genome xc) n) /\
          ((forall k y, In k (sp_orgs s0) -> hget (p_heap p) k = Ok y -> k <> kb ->
                        PrimFloat.eqb (o_fit (adjusted o s0 y)) (o_fit (adjusted o s0 xb)) = false) ->
           o_key champ = kb /\ xc = xb).
Proof. exact FloatMonoChamp.best_of_species_up_to_rounding. Qed.
Print Assumptions C10_best_of_species_survives_up_to_rounding.

(* the hypotheses of the two theorems above hold for the run of C10_example_rounding_tie (fitness
   7, 7+1ulp, 1, 2, 3, 4 in one species), where the tie is real *)
Example C10_example_up_to_rounding_hyps :
  match new_population (ex_opts 6 15 0) ex_start ex_s0 with
  | Ok (p, s) =>
    match set_fitness (p_heap p) (p_orgs p) [0x1.cp+2; 0x1.c000000000001p+2; 1; 2; 3; 4]%float with
    | Ok h =>
      PrimFloat.leb 0 (o_survival (ex_opts 6 15 0)) && PrimFloat.leb (o_survival (ex_opts 6 15 0)) 0x1p+29 &&
      PrimFloat.ltb 0 (o_age_sig (ex_opts 6 15 0)) && PrimFloat.ltb (o_age_sig (ex_opts 6 15 0)) infinity &&
      forallb (fun s => forallb (fun k => match hget h k with
                                          | Ok x => negb (o_elim x) && PrimFloat.leb 0 (o_fit x) && negb (PrimFloat.is_nan (o_highest x))
                                          | _ => false end) (sp_orgs s)) (p_species p) &&
      negb (Nat.eqb (length (p_species p)) 0)
    | _ => false end
  | _ => false end = true.
Proof. vm_compute. reflexivity. Qed.

(* monotonicity needs fitness >= 0: raw fitness -1 is adjusted to 0.0001/n, above the adjusted value
   of the larger raw fitness 0 *)
Example C10_example_negative_fitness_not_monotone :
  forall o, PrimFloat.ltb (-1)%float 0%float = true /\
            PrimFloat.ltb (FloatMono.adj_fit o 20 0 4 0%float) (FloatMono.adj_fit o 20 0 4 (-1)%float) = true.
Proof. exact FloatMonoChamp.adj_fit_negative_not_monotone. Qed.

(* ============================================================================================ *)
(* ==== agent-full: C10_full is settled -- it is FALSE (proofs/FullStatementsC10.v) ============ *)
(* ============================================================================================ *)
(* C10_full reads "fittest" as "of strictly maximal RAW fitness" and drops the order-preservation
   hypothesis.  It is refuted by the input of the recorded finding champion-rounding-tie-1ulp, taken
   exactly as the Go harness replays it on the implementation (harness/epochprops.go, c10RoundingTie):
   baseOptions() with PopSize 6, CompatThreshold 6, AgeSignificance 1, BabiesStolen 0; start genome
   xorStart; rand.Seed(42) (the model reads the tape go_tape 42 4000); raw fitness
   [7, nextafter(7,8), 1, 2, 3, 4] in Population.Organisms order; one NextEpoch with generation 0 on a
   fresh executor.  All hypotheses of C10_full hold for this run (C10_rounding_tie_witness below spells
   them out) and its conclusion fails: organism 1 is strictly the fittest of a species with quota 6,
   yet no organism of the next generation carries its genome.  What IS true is
   C10_best_of_species_survives_up_to_rounding above. *)
From NeatModel Require FullStatementsC10.

Theorem C10_full_refuted : ~ C10_full.
Proof. exact FullStatementsC10.champ_full_refuted. Qed.
Print Assumptions C10_full_refuted.

(* The witness, inputs written out (o, g0, s0, fs are the four inputs; everything else is computed
   from them by the model and only named here): the start genome is well-formed, the tape consists of
   genuine Int63() draws, NewPopulation / the evaluator's write-back / NextEpoch / prepare all succeed;
   the population is one species sp0 with members 0..5, whose quota after prepare is 6; organism 1 has
   raw fitness 7 + 1 ulp and every other member is strictly less fit; NO organism b of the next
   population q' has the genome of organism 1 under any id; the clone that q' does contain is that of
   organism 0 (raw fitness 7), which ties with organism 1 after the division by the species size. *)
Theorem C10_rounding_tie_witness :
  exists o g0 s0 fs p s h q' x' st' p1 sp0 sp1 xb,
    o = OPT [0x1p-01%float; 0x1p+00%float; 0x1.4p+01%float; 0x1p+00%float; 0x1p+00%float; 0x1.999999999999ap-02%float;
             0x1.8p+02%float; 0x1p+00%float; 0x1.999999999999ap-03%float; 0x1p-02%float; 0x1.999999999999ap-04%float;
             0x1.999999999999ap-04%float; 0x1.999999999999ap-04%float; 0x1.ccccccccccccdp-01%float; zero; zero;
             0x1.eb851eb851eb8p-06%float; 0x1.47ae147ae147bp-04%float; 0x1p-01%float; 0x1.0624dd2f1a9fcp-10%float;
             0x1.3333333333333p-02%float; 0x1.3333333333333p-02%float; 0x1.3333333333333p-02%float;
             0x1.999999999999ap-03%float; zero] 6 50 50 0 false [4] [0x1p+00%float] /\
    g0 = GN 1 [(T 1 [0x1.999999999999ap-04%float; zero; zero; zero; zero; zero; zero; zero]);
               (T 2 [0x1.999999999999ap-03%float; zero; zero; zero; zero; zero; zero; zero]);
               (T 3 [0x1.3333333333333p-02%float; zero; zero; zero; zero; zero; zero; zero])]
              [(N 1 1 17 None); (N 2 1 17 None); (N 3 3 17 None); (N 4 2 4 None)]
              [(G 1 4 false zero (Some 1) 1 zero true); (G 2 4 false zero (Some 2) 2 zero true);
               (G 3 4 false zero (Some 3) 3 zero true)] [] /\
    s0 = {| s_tape := go_tape 42 4000; s_env := {| innovs := []; next_innov := 0; next_node := 0 |} |} /\
    fs = [0x1.cp+2; 0x1.c000000000001p+2; 1; 2; 3; 4]%float /\
    wf g0 /\ Forall (fun c => 0 <= c < 2 ^ 63) (s_tape s0) /\
    new_population o g0 s0 = Ok (p, s) /\
    set_fitness (p_heap p) (p_orgs p) fs = Ok h /\
    next_epoch o 0 (p_with_heap p h) {| x_best_id := 0; x_best_reproduced := false |} s = Ok ((q', x'), st') /\
    (exists sorted best st1, prepare o (p_with_heap p h) s = Ok ((p1, sorted, best), st1)) /\
    p_species p = [sp0] /\ p_species p1 = [sp1] /\ sp_id sp0 = sp_id sp1 /\ sp_exp sp1 = 6 /\
    sp_orgs sp0 = [0; 1; 2; 3; 4; 5] /\ hget h 1 = Ok xb /\ o_fit xb = 0x1.c000000000001p+2%float /\
    (forall k y, In k (sp_orgs sp0) -> hget h k = Ok y -> k <> 1 -> PrimFloat.ltb (o_fit y) (o_fit xb) = true) /\
    (forall b n, In (o_key b) (p_orgs q') -> hget (p_heap q') (o_key b) = Ok b -> o_genome b <> with_id (o_genome xb) n) /\
    (exists x0 b, hget h 0 = Ok x0 /\ o_fit x0 = 0x1.cp+2%float /\ In (o_key b) (p_orgs q') /\
                  hget (p_heap q') (o_key b) = Ok b /\ noid_eqb (o_genome b) (o_genome x0) = true).
Proof. exact FullStatementsC10.champ_tie_witness. Qed.
Print Assumptions C10_rounding_tie_witness.
