(* C05 — structural and parametric mutations change exactly what they document.
   Property theorems only; proofs live in proofs/MutateSpec.v (structural mutators) and
   proofs/MutateFrame.v (parametric mutators).  Every theorem holds for EVERY genome (no
   well-formedness needed unless stated), every tape of raw random draws (= every seed and more),
   every innovation environment [s_env s] (empty, matching, non-matching records, any counters) and
   every option record.  [s] is the state before the call (tape + innovation environment), [s'] after. *)
From NeatModel Require Import Res F64 GoRand Genome Options Insert Mutate MutateFrame MutateSpec.
From Coq Require Import Sorting.Permutation.

(* what no parametric mutation may touch: (id, role, activation) of every node, in order, and
   (source, target, recurrence flag, innovation number) of every gene, in order *)
Local Notation node_sig := (fun n : node => (n_id n, n_type n, n_act n)).
Local Notation gene_sig := (fun x : gene => (g_in x, g_out x, g_rec x, g_innov x)).
Local Notation frame g g' :=
  (map node_sig (nodes g') = map node_sig (nodes g) /\
   map gene_sig (genes g') = map gene_sig (genes g) /\
   map t_id (traits g') = map t_id (traits g) /\
   gid g' = gid g /\ modules g' = modules g).

(* ================= add-node ================= *)
(* A successful add-node: one gene x of g (genes g = l1 ++ x :: l2), enabled, not leaving the bias
   node, is replaced by its disabled copy; one hidden node nd is inserted; exactly two genes are
   inserted: x1 = source(x) -> nd with weight 1 and the recurrence flag of x, and x2 = nd -> target(x)
   with the weight of x, not recurrent; both enabled, both carrying the trait of x. Traits, id and
   modules are untouched.  Node id and the two innovation numbers come from the first matching
   record (then the node is checked to be new and the environment is untouched), otherwise from the
   counters (then one record is appended and the counters advance by 2 and 1). *)
Theorem C05_add_node_spec : forall o g s g' s',
    mutate_add_node o g s = Ok ((g', true), s') ->
    exists l1 x l2 nd num1 num2,
      genes g = l1 ++ x :: l2 /\ g_en x = true /\
      (exists a, node_with_id (g_in x) (nodes g) = Some a /\ n_type a <> BIAS) /\
      n_type nd = HIDDEN /\
      (exists t0, nth_error (traits g) 0 = Some t0 /\ n_trait nd = Some (t_id t0)) /\
      let x1 := {| g_in := g_in x; g_out := n_id nd; g_rec := g_rec x; g_w := 1%float; g_trait := g_trait x;
                   g_innov := num1; g_mut := 0%float; g_en := true |} in
      let x2 := {| g_in := n_id nd; g_out := g_out x; g_rec := false; g_w := g_w x; g_trait := g_trait x;
                   g_innov := num2; g_mut := 0%float; g_en := true |} in
      g' = {| gid := gid g; traits := traits g; nodes := node_insert (nodes g) nd;
              genes := gene_insert (gene_insert (l1 ++ set_en false x :: l2) x1) x2; modules := modules g |} /\
      Permutation (nodes g') (nd :: nodes g) /\
      Permutation (genes g') (x2 :: x1 :: l1 ++ set_en false x :: l2) /\
      ((exists inn,
           find_node_innov (innovs (s_env s)) (g_in x) (g_out x) (g_innov x) = Some inn /\
           n_id nd = i_node inn /\ n_act nd = SIGMOID_STEEPENED /\ num1 = i_num inn /\ num2 = i_num2 inn /\
           ~ In (n_id nd) (map n_id (nodes g)) /\ s_env s' = s_env s)
       \/
       (find_node_innov (innovs (s_env s)) (g_in x) (g_out x) (g_innov x) = None /\
        n_id nd = next_node (s_env s) + 1 /\ In (n_act nd) (o_activators o) /\
        num1 = next_innov (s_env s) + 1 /\ num2 = next_innov (s_env s) + 2 /\
        ((forall n, In n (nodes g) -> n_id n <= next_node (s_env s)) -> ~ In (n_id nd) (map n_id (nodes g))) /\
        innovs (s_env s') = innovs (s_env s) ++
                            [{| i_type := 1; i_in := g_in x; i_out := g_out x; i_num := num1; i_num2 := num2;
                                i_w := 0%float; i_trait := 0; i_node := n_id nd; i_old := g_innov x;
                                i_rec := false |}] /\
        next_innov (s_env s') = next_innov (s_env s) + 2 /\
        next_node (s_env s') = next_node (s_env s) + 1)).
Proof. exact add_node_spec. Qed.
Print Assumptions C05_add_node_spec.

(* An unsuccessful add-node leaves the genome and the environment alone, except in the one
   documented case: the record matches and its node is already present; then the chosen gene stays
   disabled (a remark, not a violation: the property speaks of successful mutations). *)
Theorem C05_add_node_false_disables : forall o g s g' s',
    mutate_add_node o g s = Ok ((g', false), s') ->
    s_env s' = s_env s /\
    (g' = g \/
     exists l1 x l2 inn,
       genes g = l1 ++ x :: l2 /\ g_en x = true /\
       find_node_innov (innovs (s_env s)) (g_in x) (g_out x) (g_innov x) = Some inn /\
       In (i_node inn) (map n_id (nodes g)) /\
       g' = with_genes g (l1 ++ set_en false x :: l2)).
Proof. exact add_node_false_spec. Qed.
Print Assumptions C05_add_node_false_disables.

(* ================= add-link ================= *)
(* A successful add-link inserts exactly one gene x, enabled, between two nodes of g, not ending in
   a sensor, duplicating no (source, target, recurrence) triple of g, a self-loop only when
   recurrent, with the recurrence flag the phenotype's path search reports; nothing else changes.
   Innovation number, weight and trait come from the first matching record, else from the counter
   (one record appended). *)
Theorem C05_add_link_spec : forall o g s g' s',
    mutate_add_link o g s = Ok ((g', true), s') ->
    exists x n1 n2,
      g' = with_genes g (gene_insert (genes g) x) /\ Permutation (genes g') (x :: genes g) /\
      In n1 (nodes g) /\ In n2 (nodes g) /\ g_in x = n_id n1 /\ g_out x = n_id n2 /\
      is_sensor n2 = false /\ g_en x = true /\
      (forall y, In y (genes g) -> same_link y x = false) /\
      (g_in x = g_out x -> g_rec x = true) /\
      fst (is_recurrent (S (Z.to_nat (zlen (nodes g) * zlen (nodes g)))) g (g_in x) (g_out x) 0
                        (zlen (nodes g) * zlen (nodes g))) = g_rec x /\
      ((exists inn t,
           find_link_innov (innovs (s_env s)) (g_in x) (g_out x) (g_rec x) = Some inn /\
           g_innov x = i_num inn /\ g_w x = i_w inn /\ g_mut x = 0%float /\
           nth_error (traits g) (Z.to_nat (i_trait inn)) = Some t /\ g_trait x = Some (t_id t) /\
           s_env s' = s_env s)
       \/
       (find_link_innov (innovs (s_env s)) (g_in x) (g_out x) (g_rec x) = None /\
        g_innov x = next_innov (s_env s) + 1 /\ g_mut x = g_w x /\
        exists tn t,
          nth_error (traits g) (Z.to_nat tn) = Some t /\ g_trait x = Some (t_id t) /\
          innovs (s_env s') = innovs (s_env s) ++
                              [link_innovation (g_in x) (g_out x) (g_innov x) (g_w x) tn (g_rec x)] /\
          next_innov (s_env s') = next_innov (s_env s) + 1 /\
          next_node (s_env s') = next_node (s_env s))).
Proof. exact add_link_spec. Qed.
Print Assumptions C05_add_link_spec.

Theorem C05_add_link_false_unchanged : forall o g s g' s',
    mutate_add_link o g s = Ok ((g', false), s') -> g' = g /\ s_env s' = s_env s.
Proof. exact add_link_false_spec. Qed.
Print Assumptions C05_add_link_false_unchanged.

(* ================= connect-sensors ================= *)
(* Whatever flag it returns, connect-sensors either changes nothing (every sensor already has an
   outgoing gene) or only adds genes [added] (the result is a permutation of added ++ genes g; nodes,
   traits, id, modules unchanged), all enabled, non-recurrent, leaving ONE sensor sn that had no
   outgoing gene in g, ending in pairwise different non-sensor nodes; when it reports success there
   is exactly one added gene to every non-sensor node. *)
Theorem C05_connect_sensors_spec : forall g s g' b s',
    mutate_connect_sensors g s = Ok ((g', b), s') ->
    (g' = g /\ b = false /\ s' = s /\
     forall n, In n (nodes g) -> is_sensor n = true -> exists x, In x (genes g) /\ g_in x = n_id n) \/
    exists sn added,
      In sn (nodes g) /\ is_sensor sn = true /\ (forall x, In x (genes g) -> g_in x <> n_id sn) /\
      g' = with_genes g (genes g') /\ Permutation (genes g') (added ++ genes g) /\
      Forall (fun x => g_in x = n_id sn /\ g_en x = true /\ g_rec x = false) added /\
      NoDup (map g_out added) /\
      (forall id, In id (map g_out added) -> exists n, In n (nodes g) /\ is_sensor n = false /\ n_id n = id) /\
      (b = true -> added <> [] /\
                   forall n, In n (nodes g) -> is_sensor n = false -> In (n_id n) (map g_out added)).
Proof. exact connect_sensors_spec. Qed.
Print Assumptions C05_connect_sensors_spec.

(* ================= parametric mutators: frame + what may change ================= *)
(* link weights (gaussian and cold gaussian): only weights and mutation numbers change *)
Theorem C05_link_weights_frame : forall power rate gaussian g s g' b s',
    mutate_link_weights power rate gaussian g s = Ok ((g', b), s') ->
    frame g g' /\ nodes g' = nodes g /\ traits g' = traits g /\
    Forall2 (fun x x' => exists w, x' = set_w w x) (genes g) (genes g') /\
    b = true /\ s_env s' = s_env s.
Proof. exact link_weights_spec. Qed.
Print Assumptions C05_link_weights_frame.

(* random trait: the parameters of exactly one trait change (same id, same number of parameters) *)
Theorem C05_random_trait_frame : forall o g s g' b s',
    mutate_random_trait o g s = Ok ((g', b), s') ->
    frame g g' /\ nodes g' = nodes g /\ genes g' = genes g /\
    (exists k t t', nth_error (traits g) k = Some t /\ traits g' = set_nth (traits g) k t' /\
                    t_id t' = t_id t /\ length (t_params t') = length (t_params t)) /\
    b = true /\ s_env s' = s_env s.
Proof. exact random_trait_spec. Qed.
Print Assumptions C05_random_trait_frame.

(* link trait: only trait references of genes change, to traits of the genome *)
Theorem C05_link_trait_frame : forall times g s g' b s',
    mutate_link_trait times g s = Ok ((g', b), s') ->
    frame g g' /\ nodes g' = nodes g /\ traits g' = traits g /\
    Forall2 (fun x x' => x' = x \/ exists t, In t (traits g) /\ x' = set_gtrait (Some (t_id t)) x)
            (genes g) (genes g') /\
    b = true /\ s_env s' = s_env s.
Proof. exact link_trait_spec. Qed.
Print Assumptions C05_link_trait_frame.

(* node trait: only trait references of nodes change, to traits of the genome *)
Theorem C05_node_trait_frame : forall times g s g' b s',
    mutate_node_trait times g s = Ok ((g', b), s') ->
    frame g g' /\ genes g' = genes g /\ traits g' = traits g /\
    Forall2 (fun n n' => n' = n \/ exists t, In t (traits g) /\ n' = set_ntrait (Some (t_id t)) n)
            (nodes g) (nodes g') /\
    b = true /\ s_env s' = s_env s.
Proof. exact node_trait_spec. Qed.
Print Assumptions C05_node_trait_frame.

(* toggle-enable: only enabled flags change, and only from enabled to disabled;
   every node that had an enabled outgoing gene still has one (toggle_keeps_last_out) *)
Theorem C05_toggle_enable_frame : forall times g s g' b s',
    mutate_toggle_enable times g s = Ok ((g', b), s') ->
    frame g g' /\ nodes g' = nodes g /\ traits g' = traits g /\
    Forall2 (fun x x' => x' = x \/ (g_en x = true /\ x' = set_en false x)) (genes g) (genes g') /\
    b = true /\ s_env s' = s_env s.
Proof. exact toggle_frame_spec. Qed.
Print Assumptions C05_toggle_enable_frame.

Theorem C05_toggle_keeps_last_out : forall times g s g' b s',
    mutate_toggle_enable times g s = Ok ((g', b), s') ->
    forall a, (exists x, In x (genes g) /\ g_in x = a /\ g_en x = true) ->
              (exists x', In x' (genes g') /\ g_in x' = a /\ g_en x' = true).
Proof. exact toggle_keeps_last_out. Qed.
Print Assumptions C05_toggle_keeps_last_out.

(* re-enable: exactly the first disabled gene is enabled, nothing else changes (reenable_first_only) *)
Theorem C05_reenable_first_only : forall g s g' b s',
    mutate_gene_reenable g s = Ok ((g', b), s') ->
    frame g g' /\ nodes g' = nodes g /\ traits g' = traits g /\
    ((Forall (fun x => g_en x = true) (genes g) /\ genes g' = genes g) \/
     (exists l1 x l2, genes g = l1 ++ x :: l2 /\ Forall (fun y => g_en y = true) l1 /\ g_en x = false /\
                      genes g' = l1 ++ set_en true x :: l2)) /\
    b = true /\ s' = s.
Proof. exact reenable_spec. Qed.
Print Assumptions C05_reenable_first_only.

(* all non-structural mutations in sequence *)
Theorem C05_all_nonstructural_frame : forall o g s g' b s',
    mutate_all_nonstructural o g s = Ok ((g', b), s') -> frame g g' /\ s_env s' = s_env s.
Proof. exact all_nonstructural_spec. Qed.
Print Assumptions C05_all_nonstructural_frame.

(* ================= non-vacuity: concrete runs (taken from generated cases, i.e. the model's
   result below is also what the Go implementation returned from the same raw draws) ================= *)
From NeatModel Require Import GenomeLit.

Definition ex_opts : options :=
  OPT [0x1p+00%float; 0x1.999999999999ap-04%float; 0x1.4p+03%float; 0x1p+00%float; 0x1p+00%float;
       0x1.999999999999ap-02%float; 0x1.8p+01%float; 0x1p+00%float; 0x1.999999999999ap-03%float; 0x1p-02%float;
       0x1.71de766fcd8d1p-03%float; 0x1.368c5558e26adp-03%float; 0x1.5284073d1f6d9p-04%float;
       0x1.86dd6c237f7fep-01%float; 0x1.d56baa1c81952p-02%float; 0x1.16264a56b97f9p-02%float;
       0x1.eb851eb851eb8p-06%float; 0x1.47ae147ae147bp-04%float; 0x1p-01%float; 0x1.0624dd2f1a9fcp-10%float;
       0x1.3333333333333p-02%float; 0x1.3333333333333p-02%float; 0x1.3333333333333p-02%float;
       0x1.999999999999ap-03%float; 0x1p+00%float] 20 50 5 0 false [4] [0x1p+00%float].

Definition ex_traits3 : list trait :=
  [T 1 [0x1.999999999999ap-04%float]; T 2 [0x1.999999999999ap-03%float]; T 3 [0x1.3333333333333p-02%float]].

(* add-node, empty record: gene 2->4 (innovation 2) is split around the new node 5 = next_node+1,
   the new genes get the numbers 4 and 5 = next_innov+1, +2, a record is stored *)
Example C05_example_add_node_fresh :
  mutate_add_node ex_opts
    (GN 108 ex_traits3 [N 1 1 17 None; N 2 1 17 None; N 3 3 17 None; N 4 2 4 None]
        [G 1 4 false 0x1.67fa387dd6ba9p-01%float (Some 2) 1 0x1.67fa387dd6ba9p-01%float true;
         G 2 4 false (-0x1.090ae2b67551dp+01)%float (Some 2) 2 (-0x1.090ae2b67551dp+01)%float true;
         G 3 4 false (-0x1.30015f21063bbp-01)%float (Some 3) 3 (-0x1.30015f21063bbp-01)%float true] [])
    {| s_tape := [264063761585977293; 7127715461488331359; 1458285037619092276]; s_env := EV [] 3 4 |}
  = Ok ((GN 108 ex_traits3 [N 1 1 17 None; N 2 1 17 None; N 3 3 17 None; N 4 2 4 None; N 5 0 4 (Some 1)]
            [G 1 4 false 0x1.67fa387dd6ba9p-01%float (Some 2) 1 0x1.67fa387dd6ba9p-01%float true;
             G 2 4 false (-0x1.090ae2b67551dp+01)%float (Some 2) 2 (-0x1.090ae2b67551dp+01)%float false;
             G 3 4 false (-0x1.30015f21063bbp-01)%float (Some 3) 3 (-0x1.30015f21063bbp-01)%float true;
             G 2 5 false 0x1p+00%float (Some 2) 4 zero true;
             G 5 4 false (-0x1.090ae2b67551dp+01)%float (Some 2) 5 zero true] [], true),
        {| s_tape := [1458285037619092276]; s_env := EV [IV 1 2 4 4 5 zero 0 5 2 false] 5 5 |}).
Proof. vm_compute. reflexivity. Qed.

Definition ex_traits2 : list trait := [T 1 [0x1.999999999999ap-04%float]; T 2 [0x1.999999999999ap-03%float]].
Definition ex_nodes6 : list node :=
  [N 1 1 17 (Some 1); N 2 1 17 None; N 3 3 17 (Some 2); N 4 2 4 (Some 1); N 5 0 4 (Some 2); N 6 2 14 (Some 1)].

(* add-node, matching record (1->5 split earlier into node 7, numbers 6 and 7): node id and both
   innovation numbers are taken from the record, the environment is unchanged *)
Example C05_example_add_node_recorded :
  mutate_add_node ex_opts
    (GN 103 ex_traits2 ex_nodes6
        [G 1 5 false 0x1.2f62d62eb8418p-05%float (Some 1) 1 0x1.2f62d62eb8418p-05%float true;
         G 3 5 false (-0x1.8808a041f1be8p-01)%float (Some 2) 2 (-0x1.8808a041f1be8p-01)%float true;
         G 5 4 false 0x1.d61ce0a574922p+02%float (Some 1) 3 0x1.d61ce0a574922p+02%float true;
         G 3 6 false (-0x1.a09290b02d37p+02)%float (Some 2) 4 (-0x1.a09290b02d37p+02)%float false;
         G 5 6 false (-0x1.110100cea527ap+03)%float (Some 1) 5 (-0x1.110100cea527ap+03)%float true] [])
    {| s_tape := [6820989176502556373; 6166218498727548806]; s_env := EV [IV 1 1 5 6 7 zero 0 7 1 false] 7 7 |}
  = Ok ((GN 103 ex_traits2 (ex_nodes6 ++ [N 7 0 4 (Some 1)])
            [G 1 5 false 0x1.2f62d62eb8418p-05%float (Some 1) 1 0x1.2f62d62eb8418p-05%float false;
             G 3 5 false (-0x1.8808a041f1be8p-01)%float (Some 2) 2 (-0x1.8808a041f1be8p-01)%float true;
             G 5 4 false 0x1.d61ce0a574922p+02%float (Some 1) 3 0x1.d61ce0a574922p+02%float true;
             G 3 6 false (-0x1.a09290b02d37p+02)%float (Some 2) 4 (-0x1.a09290b02d37p+02)%float false;
             G 5 6 false (-0x1.110100cea527ap+03)%float (Some 1) 5 (-0x1.110100cea527ap+03)%float true;
             G 1 7 false 0x1p+00%float (Some 1) 6 zero true;
             G 7 5 false 0x1.2f62d62eb8418p-05%float (Some 1) 7 zero true] [], true),
        {| s_tape := [6166218498727548806]; s_env := EV [IV 1 1 5 6 7 zero 0 7 1 false] 7 7 |}).
Proof. vm_compute. reflexivity. Qed.

(* the documented [false] path: same record, but node 7 is already in the genome: the chosen gene stays disabled *)
Example C05_example_add_node_false_disables :
  mutate_add_node ex_opts
    (GN 103 ex_traits2 (ex_nodes6 ++ [N 7 0 4 (Some 1)])
        [G 1 5 false 0x1.2f62d62eb8418p-05%float (Some 1) 1 0x1.2f62d62eb8418p-05%float true;
         G 3 5 false (-0x1.8808a041f1be8p-01)%float (Some 2) 2 (-0x1.8808a041f1be8p-01)%float true] [])
    {| s_tape := [6820989176502556373; 6166218498727548806]; s_env := EV [IV 1 1 5 6 7 zero 0 7 1 false] 7 7 |}
  = Ok ((GN 103 ex_traits2 (ex_nodes6 ++ [N 7 0 4 (Some 1)])
            [G 1 5 false 0x1.2f62d62eb8418p-05%float (Some 1) 1 0x1.2f62d62eb8418p-05%float false;
             G 3 5 false (-0x1.8808a041f1be8p-01)%float (Some 2) 2 (-0x1.8808a041f1be8p-01)%float true] [], false),
        {| s_tape := [6166218498727548806]; s_env := EV [IV 1 1 5 6 7 zero 0 7 1 false] 7 7 |}).
Proof. vm_compute. reflexivity. Qed.

Definition ex_small : genome :=
  GN 106 [T 1 [0x1.999999999999ap-04%float]] [N 1 1 17 (Some 1); N 2 3 17 (Some 1); N 3 2 14 (Some 1)]
     [G 1 3 false 0x1.8p+00%float (Some 1) 1 zero true; G 2 3 false 0x1.4p+01%float (Some 1) 2 zero true] [].

(* add-link, empty record (recurrent links only): the recurrent self-loop 3->3 gets number 4 = next_innov+1 *)
Example C05_example_add_link_fresh :
  mutate_add_link ex_opts ex_small
    {| s_tape := [4761294738897818183; 6010720580250236942; 243554524532427860; 6466527509411232947;
                  4123002941810794064; 5659069411271185875; 492874856606422618];
       s_env := EV [] 3 3 |}
  = Ok ((with_genes ex_small
           (genes ex_small ++ [G 3 3 true (-0x1.88ad443b8a7d6p+02)%float (Some 1) 4 (-0x1.88ad443b8a7d6p+02)%float true]),
         true),
        {| s_tape := [492874856606422618];
           s_env := EV [IV 2 3 3 4 0 (-0x1.88ad443b8a7d6p+02)%float 0 0 0 true] 4 3 |}).
Proof. vm_compute. reflexivity. Qed.

(* add-link, matching record: number and weight come from the record, environment unchanged *)
Example C05_example_add_link_recorded :
  mutate_add_link ex_opts ex_small
    {| s_tape := [327884257528823620; 6883672767427171594; 2573128852430874037; 700495288656178657];
       s_env := EV [IV 2 3 3 4 0 (-0x1.88ad443b8a7d6p+02)%float 0 0 0 true] 4 3 |}
  = Ok ((with_genes ex_small
           (genes ex_small ++ [G 3 3 true (-0x1.88ad443b8a7d6p+02)%float (Some 1) 4 zero true]), true),
        {| s_tape := [700495288656178657];
           s_env := EV [IV 2 3 3 4 0 (-0x1.88ad443b8a7d6p+02)%float 0 0 0 true] 4 3 |}).
Proof. vm_compute. reflexivity. Qed.

(* connect-sensors: sensor 2 has no outgoing gene; it gets one gene to each non-sensor node 4, 5, 6 *)
Example C05_example_connect_sensors :
  mutate_connect_sensors
    (GN 111 ex_traits2 ex_nodes6
        [G 1 5 false 0x1.2f62d62eb8418p-05%float (Some 1) 1 0x1.2f62d62eb8418p-05%float true;
         G 3 5 false (-0x1.8808a041f1be8p-01)%float (Some 2) 2 (-0x1.8808a041f1be8p-01)%float true;
         G 5 4 false 0x1.d61ce0a574922p+02%float (Some 1) 3 0x1.d61ce0a574922p+02%float true;
         G 3 6 false (-0x1.a09290b02d37p+02)%float (Some 2) 4 (-0x1.a09290b02d37p+02)%float false;
         G 5 6 false (-0x1.110100cea527ap+03)%float (Some 1) 5 (-0x1.110100cea527ap+03)%float true] [])
    {| s_tape := [65211056068755519; 8667881810202591736; 4411738303697027579; 469645390278315601;
                  6191005632915561984; 3102910632778377550; 2479572098090763727; 912423404555917426;
                  7783376385327470600; 1323088885643579378; 4967541918465268646];
       s_env := EV [IV 1 1 5 6 7 zero 0 7 1 false; IV 1 5 6 8 9 zero 0 8 5 false] 9 8 |}
  = Ok ((GN 111 ex_traits2 ex_nodes6
            [G 1 5 false 0x1.2f62d62eb8418p-05%float (Some 1) 1 0x1.2f62d62eb8418p-05%float true;
             G 3 5 false (-0x1.8808a041f1be8p-01)%float (Some 2) 2 (-0x1.8808a041f1be8p-01)%float true;
             G 5 4 false 0x1.d61ce0a574922p+02%float (Some 1) 3 0x1.d61ce0a574922p+02%float true;
             G 3 6 false (-0x1.a09290b02d37p+02)%float (Some 2) 4 (-0x1.a09290b02d37p+02)%float false;
             G 5 6 false (-0x1.110100cea527ap+03)%float (Some 1) 5 (-0x1.110100cea527ap+03)%float true;
             G 2 4 false 0x1.04b49fc44d8c4p-01%float (Some 1) 10 0x1.04b49fc44d8c4p-01%float true;
             G 2 5 false (-0x1.581c18dbd8b34p+01)%float (Some 1) 11 (-0x1.581c18dbd8b34p+01)%float true;
             G 2 6 false (-0x1.6f3b1ea11d0f4p+00)%float (Some 1) 12 (-0x1.6f3b1ea11d0f4p+00)%float true] [], true),
        {| s_tape := [4967541918465268646];
           s_env := EV [IV 1 1 5 6 7 zero 0 7 1 false; IV 1 5 6 8 9 zero 0 8 5 false;
                        IV 2 2 4 10 0 0x1.04b49fc44d8c4p-01%float 0 0 0 false;
                        IV 2 2 5 11 0 (-0x1.581c18dbd8b34p+01)%float 0 0 0 false;
                        IV 2 2 6 12 0 (-0x1.6f3b1ea11d0f4p+00)%float 0 0 0 false] 12 8 |}).
Proof. vm_compute. reflexivity. Qed.

(* toggle-enable refuses to disable the only enabled gene leaving node 2, but disables one of two leaving node 1 *)
Example C05_example_toggle_guard :
  let g := GN 1 [] [N 1 1 17 None; N 2 1 17 None; N 3 2 4 None]
              [G 1 3 false 1%float None 1 zero true; G 2 3 false 1%float None 2 zero true;
               G 1 3 true 1%float None 3 zero true] [] in
  mutate_toggle_enable 1 g {| s_tape := [4294967296; 7]; s_env := EV [] 3 3 |} = Ok ((g, true), {| s_tape := [7]; s_env := EV [] 3 3 |})
  /\ mutate_toggle_enable 1 g {| s_tape := [0; 7]; s_env := EV [] 3 3 |}
     = Ok ((with_genes g [G 1 3 false 1%float None 1 zero false; G 2 3 false 1%float None 2 zero true;
                           G 1 3 true 1%float None 3 zero true], true), {| s_tape := [7]; s_env := EV [] 3 3 |}).
Proof. vm_compute. split; reflexivity. Qed.
