(* C15 — everything the library writes it reads back unchanged.
   Property theorems only; proofs live in proofs/PlainSpec.v, proofs/PlainPopSpec.v, proofs/CodecSpec.v.
   Token-level model of the plain codec: coq/model/Plain.v (number formatting is the identity on values:
   trusted, and monitored by the harness on every float it sees). *)
From Coq Require Import String.
From NeatModel Require Import Res F64 Genome Plain Tree PlainSpec PlainPopSpec CodecSpec.
Open Scope string_scope.
Open Scope list_scope.

(* what Genome.Write accepts and the reader's own checks admit, spelled out:
   at least the eight trait parameters the format carries; no repeated non-zero trait id; no repeated
   node id; node ids and node trait ids within strconv.ParseInt(.., 32), neuron type within a byte read
   by ParseInt(.., 8); a registered activation type.  Gene fields are unconstrained: any weight,
   any flags, any ids (a dangling id is read as a nil endpoint, see norm_genome). *)
Definition C15_writable (reg : registry) (g : genome) : Prop :=
  Forall (fun t => (8 <= length (t_params t))%nat) (traits g) /\
  NoDup (filter (fun z => negb (Z.eqb z 0)) (map t_id (traits g))) /\
  NoDup (map n_id (nodes g)) /\
  Forall (fun n => - 2 ^ 31 <= n_id n < 2 ^ 31 /\ - 2 ^ 31 <= oz_id (n_trait n) < 2 ^ 31 /\
                   0 <= n_type n < 128 /\ exists s, reg_name reg (n_act n) = Some s) (nodes g).

(* nothing for the format to normalise: exactly eight parameters, every trait reference names a trait of
   the genome by a non-zero id, every gene endpoint names a node of the genome *)
Definition C15_closed (g : genome) : Prop :=
  Forall (fun t => length (t_params t) = 8%nat) (traits g) /\
  Forall (fun n => match n_trait n with None => True | Some t => t <> 0 /\ In t (map t_id (traits g)) end) (nodes g) /\
  Forall (fun x => match g_trait x with None => True | Some t => t <> 0 /\ In t (map t_id (traits g)) end) (genes g) /\
  Forall (fun x => In (g_in x) (map n_id (nodes g)) /\ In (g_out x) (map n_id (nodes g))) (genes g).

(* the activation registry maps every registered type to a name that maps back to it *)
Definition C15_registry (reg : registry) : Prop := forall c s, reg_name reg c = Some s -> reg_code reg s = Some c.

Lemma C15_writable_ok : forall reg g, C15_writable reg g -> plain_ok reg g.
Proof. intros reg g (A & B & C & D). exact (plain_ok_of_ranges reg g A B C D). Qed.

Lemma C15_closed_ok : forall g, C15_closed g -> closed g.
Proof. intros g (A & B & C & D). exact (Build_closed g A B C D). Qed.

(* plain encoding, general form: the reader returns exactly the format's normal form of the genome
   (modules dropped, parameters beyond the eighth dropped, zero / dangling trait references nil,
   dangling endpoints nil); weights, mutation numbers, flags, innovation numbers, activation types,
   neuron types and ids exactly as written *)
Theorem C15_plain_roundtrip : forall reg g,
  C15_registry reg -> C15_writable reg g ->
  exists ls, write_genome reg g = Ok ls /\ read_genome reg ls = Ok (norm_genome g).
Proof. intros reg g Hr Hw. exact (plain_roundtrip reg g Hr (C15_writable_ok reg g Hw)). Qed.
Print Assumptions C15_plain_roundtrip.

(* plain encoding, headline: a closed genome reads back as itself without its modules *)
Theorem C15_plain_roundtrip_exact : forall reg g,
  C15_registry reg -> C15_writable reg g -> C15_closed g ->
  exists ls r, write_genome reg g = Ok ls /\ read_genome reg ls = Ok r /\ resolve r = Some (strip_modules g).
Proof. intros reg g Hr Hw Hc. exact (plain_roundtrip_exact reg g Hr (C15_writable_ok reg g Hw) (C15_closed_ok g Hc)). Qed.
Print Assumptions C15_plain_roundtrip_exact.

(* genetics.ReadGenome(r, id) restores the same genome under the caller's id *)
Theorem C15_plain_roundtrip_id : forall reg g id,
  C15_registry reg -> C15_writable reg g ->
  exists ls, write_genome reg g = Ok ls /\ read_genome_id reg ls id = Ok (rg_with_id (norm_genome g) id).
Proof. intros reg g id Hr Hw. exact (plain_roundtrip_id reg g id Hr (C15_writable_ok reg g Hw)). Qed.
Print Assumptions C15_plain_roundtrip_id.

(* the writer fails (instead of writing something unreadable) on an unregistered activation type *)
Theorem C15_write_unregistered_fails : forall reg g n,
  In n (nodes g) -> reg_name reg (n_act n) = None -> exists c, write_genome reg g = GoErr c.
Proof. exact write_unregistered_fails. Qed.
Print Assumptions C15_write_unregistered_fails.

(* organism binary form: fitness, generation, highest fitness, champion-child flag and genome *)
Theorem C15_organism_roundtrip : forall reg o,
  C15_registry reg -> C15_writable reg (o_genome o) ->
  exists ls, write_organism reg o = Ok ls /\
             read_organism reg ls = Ok {| ro_fit := o_fit o; ro_gen := o_gen o; ro_high := o_high o;
                                          ro_champ_child := o_champ_child o; ro_genome := norm_genome (o_genome o) |}.
Proof. intros reg o Hr Hw. exact (organism_roundtrip reg o Hr (C15_writable_ok reg (o_genome o) Hw)). Qed.
Print Assumptions C15_organism_roundtrip.

(* a population written genome by genome (Population.Write) restores the same genomes in the same order,
   for every non-empty list of writable genomes that have a node and a gene *)
Theorem C15_population_roundtrip : forall reg gs,
  C15_registry reg -> gs <> [] ->
  Forall (fun g => C15_writable reg g /\ nodes g <> [] /\ genes g <> []) gs ->
  exists ls, write_population reg gs = Ok ls /\
             read_population reg ls = Ok (map norm_genome gs, fold_left bump_node gs 0, fold_left bump_innov gs 0).
Proof.
  intros reg gs Hr Hne Hall. apply (population_roundtrip reg gs Hr Hne).
  eapply Forall_impl; [|exact Hall]. intros g (A & B & C). exact (conj (C15_writable_ok reg g A) (conj B C)).
Qed.
Print Assumptions C15_population_roundtrip.

(* the same with comment lines ("/* Organism #.. */", "/* Species #.. */") before every genome and at
   the end of the stream, as Species.Write / Population.WriteBySpecies emit them *)
Theorem C15_population_roundtrip_comments : forall reg chunks tail ls,
  C15_registry reg -> chunks <> [] ->
  Forall (fun c => Forall (fun l => exists t rest, l = TWord "/*" :: t :: rest) (fst c) /\
                   C15_writable reg (snd c) /\ nodes (snd c) <> [] /\ genes (snd c) <> []) chunks ->
  Forall (fun l => exists t rest, l = TWord "/*" :: t :: rest) tail ->
  stream reg chunks = Ok ls ->
  read_population reg (ls ++ tail) =
  Ok (map (fun c => norm_genome (snd c)) chunks,
      fold_left bump_node (map snd chunks) 0, fold_left bump_innov (map snd chunks) 0).
Proof.
  intros reg chunks tail ls Hr Hne Hall Htail Hs.
  apply (population_roundtrip_comments reg chunks tail ls Hr Hne); try assumption.
  eapply Forall_impl; [|exact Hall]. intros c (A & B & C & D).
  exact (conj A (conj (C15_writable_ok reg (snd c) B) (conj C D))).
Qed.
Print Assumptions C15_population_roundtrip_comments.

(* malformed input: the genome reader returns a genome or an error, whatever the lines *)
Theorem C15_read_genome_total : forall reg ls,
  match read_genome reg ls with Ok _ | GoErr _ => True | _ => False end.
Proof. exact read_genome_total. Qed.
Print Assumptions C15_read_genome_total.

Theorem C15_read_genome_short_line_fails : forall reg ls l,
  In l ls -> (length l < 2)%nat -> exists c, read_genome reg ls = GoErr c.
Proof. exact read_genome_short_line_fails. Qed.
Print Assumptions C15_read_genome_short_line_fails.

(* malformed input: the population reader returns genomes, an error, or dereferences its nil buffer
   (recorded: ReadPopulation panics on a non-comment line outside genomestart..genomeend) -- nothing else *)
Theorem C15_read_population_total : forall reg ls,
  match read_population reg ls with Ok _ | GoErr _ | GoPanic 1 => True | _ => False end.
Proof. exact read_population_total. Qed.
Print Assumptions C15_read_population_total.

Theorem C15_read_population_stray_line_panics : forall reg tag t rest more,
  String.eqb tag "genomestart" = false -> String.eqb tag "/*" = false ->
  read_population reg ((TWord tag :: t :: rest) :: more) = GoPanic 1.
Proof. exact read_population_stray_line_panics. Qed.
Print Assumptions C15_read_population_stray_line_panics.

(* ---------- YAML encoding (modules included), at the level of the value tree ---------- *)

(* what the YAML writer accepts and the YAML reader's checks admit: at most eight trait parameters (the
   reader has eight slots: fewer are padded with zeros, more make it index out of range); no repeated
   non-zero trait id, no repeated node id; named neuron types and registered activation types; module
   links that name nodes of the genome (id 0 included since the repair of D19); control node ids that are not node ids *)
Definition C15_yaml_writable (reg : registry) (g : genome) : Prop :=
  Forall (fun t => (length (t_params t) <= 8)%nat) (traits g) /\
  NoDup (filter (fun z => negb (Z.eqb z 0)) (map t_id (traits g))) /\
  NoDup (map n_id (nodes g)) /\
  Forall (fun n => (n_type n = HIDDEN \/ n_type n = INPUT \/ n_type n = OUTPUT \/ n_type n = BIAS) /\
                   exists s, reg_name reg (n_act n) = Some s) (nodes g) /\
  Forall (fun m => (exists s, reg_name reg (n_act (m_node m)) = Some s) /\
                   Forall (fun p => In (fst p) (map n_id (nodes g))) (m_ins m) /\
                   Forall (fun p => In (fst p) (map n_id (nodes g))) (m_outs m) /\
                   ~ In (n_id (m_node m)) (map n_id (nodes g))) (modules g).

(* for EVERY behaviour [il] of the YAML library on integer-looking floats: the reader, applied to what the
   library makes of the writer's tree, returns the format's normal form of the genome, modules included *)
Theorem C15_yaml_roundtrip : forall il reg g,
  C15_registry reg -> C15_yaml_writable reg g ->
  exists t, y_genome reg g = Ok t /\ y_read reg (yaml_lib il t) = Ok (ynorm_genome il g).
Proof.
  intros il reg g Hr (A & B & C & D & E). exact (yaml_roundtrip il reg Hr g (Build_yaml_ok reg g A B C D E)).
Qed.
Print Assumptions C15_yaml_roundtrip.

(* and the library's effect on a weight is at most the sign of zero: whenever the integer reading of a float
   equals it numerically (as for strconv's shortest formatting, instance il_g), the restored float is
   the same float or numerically equal to it *)
Theorem C15_yaml_floats_numerically_exact : forall il f,
  (forall z, il f = Some z -> PrimFloat.eqb (f_of_Z z) f = true) ->
  lib_float il f = f \/ PrimFloat.eqb (lib_float il f) f = true.
Proof. exact lib_float_num. Qed.
Print Assumptions C15_yaml_floats_numerically_exact.

Theorem C15_yaml_il_g_numeric : forall f z, il_g f = Some z -> PrimFloat.eqb (f_of_Z z) f = true.
Proof. exact il_g_num. Qed.
Print Assumptions C15_yaml_il_g_numeric.

(* ---------- gob encoding of an experiment, at the level of the value sequence ---------- *)

(* under the guard "every generation has a champion" (whose genome the plain writer accepts): the same
   id, name, trials, generations (all twelve fields) and champions (five fields and the genome) *)
Theorem C15_experiment_roundtrip : forall reg e,
  C15_registry reg ->
  Forall (fun t => Forall (fun g => exists c, gn_champion g = Some c /\ C15_writable reg (c_genome c)) (tr_gens t)) (ex_trials e) ->
  exists s e', enc_experiment reg e = Ok s /\ norm_experiment e = Some e' /\ dec_experiment reg s = Ok (e', []).
Proof.
  intros reg e Hr H. apply (experiment_roundtrip reg Hr e).
  eapply Forall_impl; [|exact H]. intros t Ht. eapply Forall_impl; [|exact Ht].
  intros g (c & Hc & Hw). exists c. split; [exact Hc|exact (C15_writable_ok reg _ Hw)].
Qed.
Print Assumptions C15_experiment_roundtrip.

(* the guard's complement (recorded finding gob-generation-nil-champion): one generation without champion
   anywhere, and what Encode writes is rejected by Decode *)
Theorem C15_experiment_nil_champion_fails : forall reg e s,
  (exists t, In t (ex_trials e) /\ exists g, In g (tr_gens t) /\ gn_champion g = None) ->
  enc_experiment reg e = Ok s -> exists c, dec_experiment reg s = GoErr c.
Proof. exact experiment_nil_champion_fails. Qed.
Print Assumptions C15_experiment_nil_champion_fails.

(* ---------- non-vacuity ---------- *)

Definition ex_reg : registry := [(4, "SigmoidSteepenedActivation"); (17, "NullActivation"); (14, "LinearActivation")].

Definition ex_genome : genome :=
  {| gid := 7;
     traits := [{| t_id := 1; t_params := [0x1.999999999999ap-4; 0; 0; 0; 0; 0; 0; 0]%float |};
                {| t_id := 2; t_params := [0x1p-1074; 0x1.0f0cf064dd592p+73; neg_zero; 0; 0; 0; 0; 0]%float |}];
     nodes := [{| n_id := 1; n_type := INPUT; n_act := 17; n_trait := Some 1 |};
               {| n_id := 2; n_type := BIAS; n_act := 17; n_trait := None |};
               {| n_id := 3; n_type := OUTPUT; n_act := 4; n_trait := Some 2 |};
               {| n_id := 4; n_type := HIDDEN; n_act := 14; n_trait := None |}];
     genes := [{| g_in := 1; g_out := 4; g_rec := false; g_w := 0x1.8p+0; g_trait := Some 1; g_innov := 1; g_mut := 0x1.8p+0; g_en := true |};
               {| g_in := 2; g_out := 3; g_rec := false; g_w := neg_zero; g_trait := None; g_innov := 2; g_mut := 0; g_en := false |};
               {| g_in := 3; g_out := 4; g_rec := true; g_w := (-0x1.0f0cf064dd592p+73); g_trait := Some 2; g_innov := 5; g_mut := 0x1p-1074; g_en := true |}];
     modules := [] |}.

Example C15_example_hypotheses : C15_registry ex_reg /\ C15_writable ex_reg ex_genome /\ C15_closed ex_genome.
Proof.
  split; [apply reg_okb_sound; vm_compute; reflexivity|]. split.
  - unfold C15_writable, ex_genome. cbn [traits nodes]. repeat split.
    + repeat constructor.
    + cbn. repeat constructor; cbn; intuition discriminate.
    + cbn. repeat constructor; cbn; intuition discriminate.
    + repeat constructor; cbn; try discriminate; eauto.
  - unfold C15_closed, ex_genome. cbn [traits nodes genes]. repeat split; repeat constructor; cbn; intuition discriminate.
Qed.

Example C15_example_roundtrip :
  match write_genome ex_reg ex_genome with
  | Ok ls => match read_genome ex_reg ls with Ok r => resolve r | _ => None end
  | _ => None
  end = Some ex_genome.
Proof. vm_compute. reflexivity. Qed.

(* two genomes and the comment headers of WriteBySpecies in one stream; the counters *)
Example C15_example_population :
  match write_genome ex_reg ex_genome, write_genome ex_reg (with_id ex_genome 8) with
  | Ok l1, Ok l2 =>
    read_population ex_reg ([TWord "/*"; TWord "Species"; TWord "#1"] :: l1 ++ [TWord "/*"; TWord "Organism"; TWord "#8"] :: l2)
  | _, _ => GoErr 0
  end = Ok ([norm_genome ex_genome; norm_genome (with_id ex_genome 8)], 5, 6).
Proof. vm_compute. reflexivity. Qed.

(* the defect fixed by 2b6cab2, as a model fact: had the genomestart line been glued to the next line,
   the first trait would be lost; in the model every buffered genome is the written text *)
Example C15_example_first_trait_kept :
  match write_genome ex_reg ex_genome with
  | Ok l1 => match read_population ex_reg l1 with Ok ([r], _, _) => map t_id (rg_traits r) | _ => [] end
  | _ => []
  end = [1; 2].
Proof. vm_compute. reflexivity. Qed.

(* a modular genome through the YAML writer, the library (strconv instance) and the reader: the weight 1.5
   is kept, -0 comes back as +0, the control node and its links are restored *)
Definition ex_modular : genome :=
  {| gid := gid ex_genome; traits := traits ex_genome; nodes := nodes ex_genome; genes := genes ex_genome;
     modules := [{| m_node := {| n_id := 9; n_type := HIDDEN; n_act := 14; n_trait := Some 1 |}; m_innov := 6;
                    m_mut := 0x1p-1; m_en := true; m_ins := [(1, 1%float); (4, 1%float)]; m_outs := [(3, 1%float)] |}] |}.

Example C15_example_yaml :
  match y_genome ex_reg ex_modular with
  | Ok t => match y_read ex_reg (yaml_lib il_g t) with
            | Ok r => (map rg_w (rg_genes (y_core r)), y_modules r)
            | _ => ([], [])
            end
  | _ => ([], [])
  end = ([0x1.8p+0; 0; (-0x1.0f0cf064dd592p+73)]%float, modules ex_modular).
Proof. vm_compute. reflexivity. Qed.

Definition ex_generation (ch : option champion) : generation (option champion) :=
  {| gn_id := 0; gn_executed := 1600000000000000000; gn_solved := true; gn_fitness := [0x1.8p+0]%float; gn_age := [2]%float;
     gn_complexity := [7]%float; gn_diversity := 1; gn_evals := 120; gn_nodes := 4; gn_genes := 3; gn_duration := 5000;
     gn_trial := 0; gn_champion := ch |}.
Definition ex_champion : champion :=
  {| c_fit := 0x1.8p+0; c_winner := true; c_gen := 3; c_offspring := 0; c_error := 0x1p-7; c_genome := ex_genome |}.

Example C15_example_experiment :
  match enc_experiment ex_reg {| ex_id := 1; ex_name := "XOR"; ex_trials := [{| tr_id := 0; tr_gens := [ex_generation (Some ex_champion)] |}] |} with
  | Ok s => match dec_experiment ex_reg s with Ok (e', []) => map (fun t => length (tr_gens t)) (ex_trials e') | _ => [] end
  | _ => []
  end = [1%nat]
  /\
  match enc_experiment ex_reg {| ex_id := 1; ex_name := "XOR"; ex_trials := [{| tr_id := 0; tr_gens := [ex_generation None; ex_generation (Some ex_champion)] |}] |} with
  | Ok s => dec_experiment ex_reg s
  | _ => GoErr 0
  end = GoErr 202.
Proof. split; vm_compute; reflexivity. Qed.

(* ============================================================================================ *)
(* Fast-solver model file (neat/network/fast_network_model_io.go): WriteModel / ReadFMNSModel    *)
(* ============================================================================================ *)
(* Model: model/Fmns.v over model/Fast.v; proofs: proofs/FmnsSpec.v; correspondence: cases/FmnsCases.v.
   [fsolver] is the Go solver object as far as it is described statically (id, name, counts, activation types,
   bias list, connections with weight and signal, modules), [doc] the JSON document as a typed value (activation
   types as NAMES), [fnet_of s] the solver of Fast.v inside it, [solver_of id name 0 fn] the object
   Network.FastNetworkSolver returns for the Fast.v solver fn.  The registry is the one extracted from
   neat/math/activations.go (gen/ActRegistry.v, C18).  Polymorphic in the number type F: [finite] says which
   numbers JSON can carry (all of them over the reals; not NaN, +Inf, -Inf in binary64).
   Trusted, outside the model: encoding/json prints and parses numbers and strings so that they round-trip
   (the harness checks it bit for bit on every file).  Not modelled: the effect of modules on the solver steps
   (Fast.v has none), so the output theorems speak about solvers without modules; the static round trip
   covers modules. *)
From NeatModel Require Import Net Fast ActRegistry Act ActRegistrySpec Fmns FmnsSpec C12Cases FmnsCases.

Definition C15_name_of (c : Z) : res string := activation_name_from_type node_activators c.
Definition C15_type_of (n : string) : res Z := activation_type_from_name node_activators n.

(* every solver object the constructor can have returned (total >= 0, bias <= total, connection indices in range),
   with registered activation types (neurons and modules) and finite numbers: WriteModel succeeds and
   ReadFMNSModel on that document returns the same object, field for field (modules included) *)
Theorem C15_fmns_roundtrip_solver :
  forall (F : Type) (finite : F -> bool) (s : fsolver F),
    Forall (fun c => exists n, C15_name_of c = Ok n) (s_acts s) ->
    Forall (fun m => exists n, C15_name_of (sm_act m) = Ok n) (s_modules s) ->
    forallb finite (s_biases s) = true ->
    forallb finite (flat_map link_floats (s_conns s)) = true ->
    solver_built s = true ->
    exists d, fmns_write finite C15_name_of s = Ok d /\ fmns_read C15_type_of d = Ok s.
Proof.
  intros F finite s Ha Hm Hb Hc Hs.
  exact (fmns_roundtrip_solver F finite C15_name_of C15_type_of type_of_name_of s (conj Ha (conj Hm (conj Hb Hc))) Hs).
Qed.
Print Assumptions C15_fmns_roundtrip_solver.

(* WriteModel succeeds exactly on those: an unregistered type or a non-finite number is refused (GoErr), never
   written as something else *)
Theorem C15_fmns_write_ok_iff :
  forall (F : Type) (finite : F -> bool) (s : fsolver F),
    (exists d, fmns_write finite C15_name_of s = Ok d) <->
    (Forall (fun c => exists n, C15_name_of c = Ok n) (s_acts s) /\
     Forall (fun m => exists n, C15_name_of (sm_act m) = Ok n) (s_modules s) /\
     forallb finite (s_biases s) = true /\
     forallb finite (flat_map link_floats (s_conns s)) = true).
Proof.
  intros F finite s. split.
  - intros [d H]. exact (fmns_write_ok_inv F finite C15_name_of s d H).
  - intros H. exact (fmns_write_ok F finite C15_name_of s H).
Qed.
Print Assumptions C15_fmns_write_ok_iff.

(* the headline, for the solvers of C12 / C13: every fast solver that Network.FastNetworkSolver builds, from any
   network (recurrent links, any size), with registered activation types and finite weights and biases *)
Theorem C15_fmns_roundtrip :
  forall (F : Type) (NF : num F) (finite : F -> bool), finite (fzero NF) = true ->
  forall (n : net F) (fn : fnet F) (id : Z) (name : string),
    fast_of_net NF n = Ok fn ->
    Forall (fun c => exists nm, C15_name_of c = Ok nm) (f_acts fn) ->
    forallb finite (f_biases fn) = true -> forallb finite (map (@fl_w F) (f_conns fn)) = true ->
    exists d, fmns_write finite C15_name_of (solver_of id name (fzero NF) fn) = Ok d /\
      exists s', fmns_read C15_type_of d = Ok s' /\ s' = solver_of id name (fzero NF) fn /\ fnet_of s' = fn /\
                 s_id s' = id /\ s_name s' = name /\ s_modules s' = [] /\ solver_fits s' = true.
Proof.
  intros F NF finite Hz n fn id name.
  exact (fmns_roundtrip F finite C15_name_of C15_type_of NF type_of_name_of Hz n fn id name).
Qed.
Print Assumptions C15_fmns_roundtrip.

(* ... and the same for every well-formed solver description (the test of the model's constructor new_fast) *)
Theorem C15_fmns_roundtrip_wf :
  forall (F : Type) (NF : num F) (finite : F -> bool), finite (fzero NF) = true ->
  forall (fn : fnet F) (id : Z) (name : string),
    ((f_bias fn + f_in fn + f_out fn <=? f_total fn) && (List.length (f_acts fn) =? f_total fn)
     && (List.length (f_biases fn) =? f_total fn)
     && forallb (fun c => (fl_src c <? f_total fn) && (fl_tgt c <? f_total fn)) (f_conns fn))%nat = true ->
    Forall (fun c => exists nm, C15_name_of c = Ok nm) (f_acts fn) ->
    forallb finite (f_biases fn) = true -> forallb finite (map (@fl_w F) (f_conns fn)) = true ->
    exists d, fmns_write finite C15_name_of (solver_of id name (fzero NF) fn) = Ok d /\
      exists s', fmns_read C15_type_of d = Ok s' /\ s' = solver_of id name (fzero NF) fn /\ fnet_of s' = fn /\
                 s_id s' = id /\ s_name s' = name /\ s_modules s' = [] /\ solver_fits s' = true.
Proof.
  intros F NF finite Hz fn id name.
  exact (fmns_roundtrip_fnet F finite C15_name_of C15_type_of NF type_of_name_of Hz fn id name).
Qed.
Print Assumptions C15_fmns_roundtrip_wf.

(* "restores a solver that computes identical outputs": for EVERY sequence of operations
   (LoadSensors x | ForwardSteps k | RecursiveSteps | Relax k delta | Flush), the restored solver, fresh from
   ReadFMNSModel, returns at every operation the same result and the same ReadOutputs() as the original solver
   (a) run from its own initial state, and (b) flushed after any history of its own.  Exact equality of the
   model's computation, in every number structure (binary64 included) and for every activation table. *)
Theorem C15_fmns_outputs_equal :
  forall (F : Type) (NF : num F) (finite : F -> bool) (act : Z -> F -> res F), finite (fzero NF) = true ->
  forall (n : net F) (fn : fnet F) (id : Z) (name : string),
    fast_of_net NF n = Ok fn ->
    Forall (fun c => exists nm, C15_name_of c = Ok nm) (f_acts fn) ->
    forallb finite (f_biases fn) = true -> forallb finite (map (@fl_w F) (f_conns fn)) = true ->
    exists d s', fmns_write finite C15_name_of (solver_of id name (fzero NF) fn) = Ok d /\
      fmns_read C15_type_of d = Ok s' /\
      (forall ops : list (op F),
         fast_trace NF act (fnet_of s') (fast_init NF (fnet_of s')) ops = fast_trace NF act fn (fast_init NF fn) ops) /\
      (forall h ops : list (op F),
         fast_trace NF act (fnet_of s') (fast_init NF (fnet_of s')) ops =
         fast_trace NF act fn (fst (fast_flush NF fn (fast_run NF act fn (fast_init NF fn) h))) ops).
Proof.
  intros F NF finite act Hz n fn id name.
  exact (fmns_outputs_equal F finite C15_name_of C15_type_of NF type_of_name_of Hz act n fn id name).
Qed.
Print Assumptions C15_fmns_outputs_equal.

(* the binary64 instance the correspondence runs *)
Theorem C15_fmns_outputs_equal_float :
  forall (t : table) (n : net float) (fn : fnet float) (id : Z) (name : string),
    fast_of_net F64num n = Ok fn ->
    Forall (fun c => exists nm, C15_name_of c = Ok nm) (f_acts fn) ->
    forallb f_finite (f_biases fn) = true -> forallb f_finite (map (@fl_w float) (f_conns fn)) = true ->
    exists d s', fm_write (solver_of id name 0%float fn) = Ok d /\ fm_read d = Ok s' /\
      forall ops : list (op float),
        fast_trace F64num (fact t) (fnet_of s') (fast_init F64num (fnet_of s')) ops =
        fast_trace F64num (fact t) fn (fast_init F64num fn) ops.
Proof.
  intros t n fn id name H Ha Hb Hw.
  destruct (fmns_outputs_equal float f_finite C15_name_of C15_type_of F64num type_of_name_of eq_refl (fact t) n fn id name H Ha Hb Hw)
    as (d & s' & Hd & Hr & Ho & _).
  exists d, s'. exact (conj Hd (conj Hr Ho)).
Qed.
Print Assumptions C15_fmns_outputs_equal_float.

(* the other direction: whatever ReadFMNSModel accepts, WriteModel of the result gives the document back, up to
   the two things the reader ignores (the stored sensor count is re-derived, an empty module list is omitted):
   the reader loses nothing *)
Theorem C15_fmns_write_read :
  forall (F : Type) (finite : F -> bool) (d : doc F) (s : fsolver F),
    fmns_read C15_type_of d = Ok s -> forallb finite (doc_floats F d) = true ->
    fmns_write finite C15_name_of s = Ok (doc_norm F d).
Proof.
  intros F finite d s. exact (fmns_write_read_ok F finite C15_name_of C15_type_of name_of_type_of d s).
Qed.
Print Assumptions C15_fmns_write_read.

(* and what it returns is the document's content, in the document's order *)
Theorem C15_fmns_read_fields :
  forall (F : Type) (d : doc F) (s : fsolver F), fmns_read C15_type_of d = Ok s ->
    s_id s = d_id d /\ s_name s = d_name d /\ s_bias s = d_bias d /\ s_in s = d_in d /\ s_out s = d_out d /\
    s_total s = d_total d /\ types_of C15_type_of (d_acts d) = Ok (s_acts s) /\ s_biases s = d_biases d /\
    d_conns d = map Some (s_conns s) /\
    read_modules C15_type_of (match d_modules d with Some l => l | None => [] end) = Ok (s_modules s) /\
    solver_built s = true.
Proof. intros F d s. exact (fmns_read_ok_inv F C15_type_of d s). Qed.
Print Assumptions C15_fmns_read_fields.

(* error paths of the reader.  An activation name the registry does not know, anywhere in the document: an error
   (never a solver), whatever else the document says *)
Lemma C15_type_of_total : forall m : string,
  (exists c, C15_type_of m = Ok c) \/ (exists e, C15_type_of m = GoErr e).
Proof.
  intros m. unfold C15_type_of, activation_type_from_name.
  destruct (map_get String.eqb (fa_inverse node_activators) m); [left|right]; eauto.
Qed.

Theorem C15_fmns_read_unknown_name :
  forall (F : Type) (d : doc F) (n : string),
    In n (doc_names F d) -> (forall c, C15_type_of n <> Ok c) ->
    fmns_read C15_type_of d = GoErr ErrFmnsActName.
Proof.
  intros F d n Hin Hn. destruct (C15_type_of_total n) as [[c Hc]|[e He]]; [exact (False_ind _ (Hn c Hc))|].
  exact (fmns_read_unknown_name F C15_type_of d n e (fun m _ => C15_type_of_total m) Hin He).
Qed.
Print Assumptions C15_fmns_read_unknown_name.

(* counts inconsistent with the arrays, as far as the real constructor notices: these panic (the model says which
   panic); anything else is accepted as described (C15_fmns_read_fields) *)
Theorem C15_fmns_read_panics :
  forall (F : Type) (d : doc F) (acts : list Z) (ms : list smodule),
    types_of C15_type_of (d_acts d) = Ok acts ->
    read_modules C15_type_of (match d_modules d with Some l => l | None => [] end) = Ok ms ->
    (d_total d < 0 -> fmns_read C15_type_of d = GoPanic PanicMakeslice) /\
    (0 <= d_total d < d_bias d -> fmns_read C15_type_of d = GoPanic PanicIndex) /\
    (0 <= d_total d -> d_bias d <= d_total d -> forall pre c post,
       d_conns d = map Some pre ++ Some c :: post ->
       forallb (fun c => idx_ok (d_total d) (sl_src c) && idx_ok (d_total d) (sl_tgt c)) pre = true ->
       idx_ok (d_total d) (sl_src c) && idx_ok (d_total d) (sl_tgt c) = false ->
       fmns_read C15_type_of d = GoPanic PanicIndex) /\
    (0 <= d_total d -> d_bias d <= d_total d -> forall pre post,
       d_conns d = map Some pre ++ None :: post ->
       forallb (fun c => idx_ok (d_total d) (sl_src c) && idx_ok (d_total d) (sl_tgt c)) pre = true ->
       fmns_read C15_type_of d = GoPanic PanicNil).
Proof. intros F d acts ms. exact (fmns_read_panics F C15_type_of d acts ms). Qed.
Print Assumptions C15_fmns_read_panics.

(* non-vacuity: the recurrent network of C13's example (self-loop, 2-cycle, bias node) as a fast solver, its model
   file, the restored solver and its outputs; an unknown name and a non-finite weight are refused *)
Definition ex_fm_net : net float :=
  mkNet [mkNode Input 17 []; mkNode Bias 17 [];
         mkNode Hidden 14 [mkLink 0%nat 0.5%float false; mkLink 2%nat 0.25%float false; mkLink 3%nat (-0.5)%float false];
         mkNode Output 16 [mkLink 2%nat 1%float false; mkLink 1%nat 0.125%float false]]
        [0%nat; 1%nat] [3%nat].
Definition ex_fm_doc : doc float :=
  mkDoc 7 "XOR"%string 1 2 1 1 4 ["NullActivation"; "NullActivation"; "LinearClippedActivation"; "LinearActivation"]%string
        [0; 0; 0x1p-3; 0]%float
        [Some (mkSlink 1 3 0x1p-1 0); Some (mkSlink 3 3 0x1p-2 0); Some (mkSlink 2 3 (-0x1p-1) 0); Some (mkSlink 3 2 1 0)]%float
        None.

Example C15_example_fmns :
  match fast_of_net F64num ex_fm_net with
  | Ok fn =>
    match fm_write (solver_of 7 "XOR"%string 0%float fn) with
    | Ok d =>
      doc_eqb d ex_fm_doc &&
      match fm_read d with
      | Ok s' => solver_eqb s' (solver_of 7 "XOR"%string 0%float fn) && solver_fits s'
                 && list_eqb (list_eqb feqb_exact)
                      (map snd (fast_trace F64num (fact []) (fnet_of s') (fast_init F64num (fnet_of s')) [OLoad [2%float]; OForward 3; ORecursive]))
                      [[0]; [1]; [0x1.a6p-1]]%float
      | _ => false
      end
    | _ => false
    end
  | _ => false
  end = true
  /\ fm_read (mkDoc 7 "XOR"%string 1 2 1 1 4 ["NullActivation"; "nullactivation"]%string [] [] None) = GoErr ErrFmnsActName
  /\ fm_read (mkDoc 7 "XOR"%string 1 2 1 1 (-1) [] [] [] None) = GoPanic PanicMakeslice
  /\ fm_read (mkDoc 7 "XOR"%string 1 2 1 1 4 [] [] [Some (mkSlink 1 4 0 0)]%float None) = GoPanic PanicIndex
  /\ fm_write (mkFsolver 7 "XOR"%string 1 1 1 4 [17; 17; 16; 14] [0; 0; infinity; 0]%float [] []) = GoErr ErrFmnsFloat
  /\ fm_write (mkFsolver 7 "XOR"%string 1 1 1 4 [17; 17; 0; 14] [0; 0; infinity; 0]%float [] []) = GoErr ErrFmnsActType.
Proof. vm_compute. repeat split; reflexivity. Qed.
(* ============================================================================================ *)
(* agent-modules: the model file of fast solvers WITH modules                                     *)
(* ============================================================================================ *)
(* model/FastMod.v gives the modules of a fast solver their meaning in the solver steps (forwardStep's module loop,
   RecursiveSteps' refusal), model/FmnsMod.v places such a solver inside the Go object of model/Fmns.v
   ([msolver_of id name 0 fx]: what Network.FastNetworkSolver returns for a network with control nodes;
   [fmnet_of s]: the solver inside the object s); proofs/ModSpecFmns.v.  This lifts the restriction "solvers without
   modules" of the output theorems above.  [mact] is NodeActivators.ActivateModuleByType, any table.
   Correspondence of the module semantics: cases/ModCases.v (harness/c13_mod.go, run by ./check C13), which also
   writes, reads back and re-runs the model file of every modular solver it builds. *)
From NeatModel Require Import NetMod FastMod FmnsMod ModSpecFast ModSpecFmns ModCases.

(* every well-formed fast solver with modules, registered activation types (neurons and modules), finite numbers:
   WriteModel succeeds and ReadFMNSModel returns the same object, modules included *)
Theorem C15_mod_fmns_roundtrip_wf :
  forall (F : Type) (NF : num F) (finite : F -> bool), finite (fzero NF) = true ->
  forall (fx : fmnet F) (id : Z) (name : string),
    ((f_bias (fx_net fx) + f_in (fx_net fx) + f_out (fx_net fx) <=? f_total (fx_net fx))
     && (List.length (f_acts (fx_net fx)) =? f_total (fx_net fx))
     && (List.length (f_biases (fx_net fx)) =? f_total (fx_net fx))
     && forallb (fun c => (fl_src c <? f_total (fx_net fx)) && (fl_tgt c <? f_total (fx_net fx))) (f_conns (fx_net fx)))%nat = true ->
    Forall (fun c => exists nm, C15_name_of c = Ok nm) (f_acts (fx_net fx)) ->
    Forall (fun m => exists nm, C15_name_of (fmd_act m) = Ok nm) (fx_mods fx) ->
    forallb finite (f_biases (fx_net fx)) = true -> forallb finite (map (@fl_w F) (f_conns (fx_net fx))) = true ->
    exists d, fmns_write finite C15_name_of (msolver_of id name (fzero NF) fx) = Ok d /\
      exists s', fmns_read C15_type_of d = Ok s' /\ s' = msolver_of id name (fzero NF) fx /\ fmnet_of s' = fx /\
                 s_id s' = id /\ s_name s' = name /\ msolver_fits s' = true.
Proof.
  intros F NF finite Hz fx id name.
  exact (mfmns_roundtrip_fmnet F finite C15_name_of C15_type_of NF type_of_name_of Hz fx id name).
Qed.
Print Assumptions C15_mod_fmns_roundtrip_wf.

(* "restores a solver that computes identical outputs", modules included: for every solver Network.FastNetworkSolver
   builds from a network with control nodes and EVERY sequence of operations, the restored solver returns at every
   operation the same result (errors of the module loop included) and the same ReadOutputs() as the original
   (a) run from its own initial state and (b) flushed after any history of its own (C13_mod_fast_flush_fresh) *)
Theorem C15_mod_fmns_outputs_equal :
  forall (F : Type) (NF : num F) (finite : F -> bool) (act : Z -> F -> res F) (mact : Z -> list F -> res (list F)),
    finite (fzero NF) = true ->
  forall (n : mnet F) (fx : fmnet F) (id : Z) (name : string),
    fast_of_net_mod NF n = Ok fx ->
    Forall (fun c => exists nm, C15_name_of c = Ok nm) (f_acts (fx_net fx)) ->
    Forall (fun m => exists nm, C15_name_of (fmd_act m) = Ok nm) (fx_mods fx) ->
    forallb finite (f_biases (fx_net fx)) = true -> forallb finite (map (@fl_w F) (f_conns (fx_net fx))) = true ->
    exists d s', fmns_write finite C15_name_of (msolver_of id name (fzero NF) fx) = Ok d /\
      fmns_read C15_type_of d = Ok s' /\
      s_modules s' = map smodule_of (fx_mods fx) /\
      (forall ops : list (op F),
         mfast_trace NF act mact (fmnet_of s') (mfast_init NF (fmnet_of s')) ops =
         mfast_trace NF act mact fx (mfast_init NF fx) ops) /\
      (forall h ops : list (op F),
         mfast_trace NF act mact (fmnet_of s') (mfast_init NF (fmnet_of s')) ops =
         mfast_trace NF act mact fx (fst (fast_flush NF (fx_net fx) (mfast_run NF act mact fx (mfast_init NF fx) h))) ops).
Proof.
  intros F NF finite act mact Hz n fx id name.
  exact (mfmns_outputs_equal F finite C15_name_of C15_type_of NF type_of_name_of Hz act mact n fx id name).
Qed.
Print Assumptions C15_mod_fmns_outputs_equal.

(* the binary64 instance the correspondence runs *)
Theorem C15_mod_fmns_outputs_equal_float :
  forall (t : table) (n : mnet float) (fx : fmnet float) (id : Z) (name : string),
    fast_of_net_mod F64num n = Ok fx ->
    Forall (fun c => exists nm, C15_name_of c = Ok nm) (f_acts (fx_net fx)) ->
    Forall (fun m => exists nm, C15_name_of (fmd_act m) = Ok nm) (fx_mods fx) ->
    forallb f_finite (f_biases (fx_net fx)) = true -> forallb f_finite (map (@fl_w float) (f_conns (fx_net fx))) = true ->
    exists d s', fm_write (msolver_of id name 0%float fx) = Ok d /\ fm_read d = Ok s' /\
      forall ops : list (op float),
        mfast_trace F64num (fact t) fmact (fmnet_of s') (mfast_init F64num (fmnet_of s')) ops =
        mfast_trace F64num (fact t) fmact fx (mfast_init F64num fx) ops.
Proof.
  intros t n fx id name H Ha Hm Hb Hw.
  destruct (mfmns_outputs_equal float f_finite C15_name_of C15_type_of F64num type_of_name_of eq_refl (fact t) fmact n fx id name H Ha Hm Hb Hw)
    as (d & s' & Hd & Hr & _ & Ho & _).
  exists d, s'. exact (conj Hd (conj Hr Ho)).
Qed.
Print Assumptions C15_mod_fmns_outputs_equal_float.

(* non-vacuity: the network of C13's modular example (a MULTIPLY module feeding a MAX module) as a fast solver, its
   model file with the "modules" array, the restored solver and its outputs *)
Definition ex_fm_mnet : mnet float :=
  mkMnet (mkNet [mkNode Input 17 []; mkNode Input 17 []; mkNode Bias 17 [];
                 mkNode Hidden 14 [mkLink 0%nat 2%float false; mkLink 2%nat 0.5%float false];
                 mkNode Hidden 14 [mkLink 1%nat 1%float false; mkLink 2%nat 1%float false];
                 mkNode Hidden 17 []; mkNode Hidden 17 [];
                 mkNode Output 14 [mkLink 5%nat 1.5%float false; mkLink 6%nat 1%float false]]
                [0%nat; 1%nat; 2%nat] [7%nat])
         [mkCnode 21 [3%nat; 4%nat] [5%nat]; mkCnode 22 [5%nat; 3%nat] [6%nat]].

Example C15_mod_example_fmns :
  match fast_of_net_mod F64num ex_fm_mnet with
  | Ok fx =>
    match fm_write (msolver_of 9 "MOD"%string 0%float fx) with
    | Ok d =>
      option_eqb (list_eqb dmodule_eqb) (d_modules d)
        (Some [mkDmodule "MultiplyModuleActivation"%string [4; 5] [6]; mkDmodule "MaxModuleActivation"%string [6; 4] [7]])
      && match fm_read d with
         | Ok s' => solver_eqb s' (msolver_of 9 "MOD"%string 0%float fx) && msolver_fits s'
                    && list_eqb (list_eqb feqb_exact)
                         (map snd (mfast_trace F64num (fact []) fmact (fmnet_of s') (mfast_init F64num (fmnet_of s'))
                                     [OLoad [2%float; 3%float]; OForward 3; ORecursive]))
                         [[0]; [45]; [45]]%float
                    && list_eqb Z.eqb
                         (map (fun ro => code_of_res (fst ro))
                              (mfast_trace F64num (fact []) fmact (fmnet_of s') (mfast_init F64num (fmnet_of s'))
                                 [OLoad [2%float; 3%float]; OForward 3; ORecursive]))
                         [1; 1; 114]
         | _ => false
         end
    | _ => false
    end
  | _ => false
  end = true.
Proof. vm_compute. reflexivity. Qed.
