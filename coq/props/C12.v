(* C12 — all solvers compute the feed-forward function.
   Property theorems only; proofs live in proofs/Solver*.v.

   Vocabulary (model/Net.v, model/Fast.v, proofs/SolverSpec.v, SolverGraph.v, SolverMain.v, SolverTopo.v):
   * [net R]: nodes (role, activation code, incoming links (source position, weight, time-delayed flag)),
     the [inputs] and [outputs] lists; positions are indices into allNodes.  [Rnum] are the reals;
     [ract known f] is an arbitrary activation table ([known c = false]: unregistered type).
   * [edge n q p]: p is a neuron with an incoming link from q; [path n q p m]: m consecutive edges;
     [acyclic n]: no path from a node to itself except the empty one; [reachable n]: every neuron is the
     end of a path from a sensor.  [lp n N p] is the length of the longest path ending in p
     (theorem C12_depth_is_longest_path) and [depth n (lp n N)] its maximum over the outputs: the
     longest sensor-to-output path.
   * [topo n f x]: every neuron evaluated once in topological order as f code (sum of weight * source),
     bias nodes being 1 and the i-th input node (in node order) x_i; [topo_eval] is the underlying
     valuation, the unique solution of the node equations (C12_topo_is_the_solution).
   * std_load / std_forward / std_outputs: Network.LoadSensors / ForwardSteps / ReadOutputs;
     fast_of_net: Network.FastNetworkSolver; fast_load / fast_forward / fast_recursive / fast_relax /
     fast_outputs: the fast solver's LoadSensors / ForwardSteps / RecursiveSteps / Relax / ReadOutputs.
   Hypotheses common to all theorems: positions in range; Outputs is exactly the list of output neurons;
   plain (not time-delayed) links, at most one per ordered pair; acyclic; every neuron reachable from a
   sensor; every neuron's activation type registered.  The sensor vector has one value per input node. *)
From NeatModel Require Import Res Net Fast SolverSpec SolverFast SolverBuild SolverMain SolverTopo SolverGraph SolverC12.
From NeatModel Require Import F64 C12Cases.
From Coq Require Import Reals Lra Lia Floats.
Open Scope nat_scope.

(* standard solver: LoadSensors then ForwardSteps k, k at least the longest sensor-to-output path:
   no error (in particular no ErrNetExceededMaxActivationAttempts) and the outputs are the topological evaluation *)
Theorem C12_std_forward :
  forall (n : net R) (known : Z -> bool) (f : Z -> R -> R),
    net_ok n = true ->
    NoDup (outputs n) ->
    (forall o, In o (outputs n) <-> o < nnodes n /\ is_output (role_at n o) = true) ->
    (forall p l, p < nnodes n -> In l (nd_in (node_at n p)) -> l_td l = false) ->
    (forall p, p < nnodes n -> neuronb n p = true -> NoDup (map (@l_src R) (nd_in (node_at n p)))) ->
    acyclic n -> reachable n ->
    (forall p, p < nnodes n -> neuronb n p = true -> known (nd_act (node_at n p)) = true) ->
    forall x : list R, length x = length (positions_with n is_input) ->
    forall k : Z,
      inputs n = positions_with n is_sensor ->
      (1 <= k)%Z -> (Z.of_nat (depth n (lp n (nnodes n))) <= k)%Z ->
      exists s1 s2,
        std_load Rnum n x (std_init Rnum n) = (s1, Ok true) /\
        std_forward Rnum (ract known f) n k s1 = (s2, Ok true) /\
        std_outputs Rnum n s2 = topo n f x.
Proof. exact c12_std_forward. Qed.
Print Assumptions C12_std_forward.

(* fast solver built by FastNetworkSolver: LoadSensors then ForwardSteps k *)
Theorem C12_fast_forward :
  forall (n : net R) (known : Z -> bool) (f : Z -> R -> R),
    net_ok n = true ->
    NoDup (outputs n) ->
    (forall o, In o (outputs n) <-> o < nnodes n /\ is_output (role_at n o) = true) ->
    (forall p l, p < nnodes n -> In l (nd_in (node_at n p)) -> l_td l = false) ->
    (forall p, p < nnodes n -> neuronb n p = true -> NoDup (map (@l_src R) (nd_in (node_at n p)))) ->
    acyclic n -> reachable n ->
    (forall p, p < nnodes n -> neuronb n p = true -> known (nd_act (node_at n p)) = true) ->
    forall x : list R, length x = length (positions_with n is_input) ->
    forall k : Z,
      (Z.of_nat (depth n (lp n (nnodes n))) <= k)%Z ->
      exists fn s1 s2 r,
        fast_of_net Rnum n = Ok fn /\
        fast_load Rnum fn x (fast_init Rnum fn) = (s1, Ok true) /\
        fast_forward Rnum (ract known f) fn k s1 = (s2, Ok r) /\
        fast_outputs Rnum fn s2 = topo n f x.
Proof. exact c12_fast_forward. Qed.
Print Assumptions C12_fast_forward.

(* fast solver: LoadSensors then RecursiveSteps (bias inputs included; the recursion fuel never runs out) *)
Theorem C12_fast_recursive :
  forall (n : net R) (known : Z -> bool) (f : Z -> R -> R),
    net_ok n = true ->
    NoDup (outputs n) ->
    (forall o, In o (outputs n) <-> o < nnodes n /\ is_output (role_at n o) = true) ->
    (forall p l, p < nnodes n -> In l (nd_in (node_at n p)) -> l_td l = false) ->
    (forall p, p < nnodes n -> neuronb n p = true -> NoDup (map (@l_src R) (nd_in (node_at n p)))) ->
    acyclic n -> reachable n ->
    (forall p, p < nnodes n -> neuronb n p = true -> known (nd_act (node_at n p)) = true) ->
    forall x : list R, length x = length (positions_with n is_input) ->
      exists fn s1 s2 r,
        fast_of_net Rnum n = Ok fn /\
        fast_load Rnum fn x (fast_init Rnum fn) = (s1, Ok true) /\
        fast_recursive Rnum (ract known f) fn s1 = (s2, Ok r) /\
        fast_outputs Rnum fn s2 = topo n f x.
Proof. exact c12_fast_recursive. Qed.
Print Assumptions C12_fast_recursive.

(* fast solver: LoadSensors then Relax maxSteps tolerance.  [relax_sweeps] is the number of sweeps the call
   performs; when it is at least the longest path the outputs are the topological evaluation.  A call that
   reports "not relaxed" performed all maxSteps sweeps; with a tolerance <= 0 exactly one sweep is performed. *)
Theorem C12_fast_relax :
  forall (n : net R) (known : Z -> bool) (f : Z -> R -> R),
    net_ok n = true ->
    NoDup (outputs n) ->
    (forall o, In o (outputs n) <-> o < nnodes n /\ is_output (role_at n o) = true) ->
    (forall p l, p < nnodes n -> In l (nd_in (node_at n p)) -> l_td l = false) ->
    (forall p, p < nnodes n -> neuronb n p = true -> NoDup (map (@l_src R) (nd_in (node_at n p)))) ->
    acyclic n -> reachable n ->
    (forall p, p < nnodes n -> neuronb n p = true -> known (nd_act (node_at n p)) = true) ->
    forall x : list R, length x = length (positions_with n is_input) ->
    forall (ms : Z) (d : R),
      exists fn s1 s2 r,
        fast_of_net Rnum n = Ok fn /\
        fast_load Rnum fn x (fast_init Rnum fn) = (s1, Ok true) /\
        fast_relax Rnum (ract known f) fn ms d s1 = (s2, Ok r) /\
        (depth n (lp n (nnodes n)) <= relax_sweeps known f fn (Z.to_nat ms) d s1 ->
         fast_outputs Rnum fn s2 = topo n f x) /\
        ((1 <= ms)%Z -> r = false -> relax_sweeps known f fn (Z.to_nat ms) d s1 = Z.to_nat ms) /\
        ((1 <= ms)%Z -> (d <= 0)%R -> relax_sweeps known f fn (Z.to_nat ms) d s1 = 1).
Proof. exact c12_fast_relax. Qed.
Print Assumptions C12_fast_relax.

(* hence the four computations agree pairwise *)
Theorem C12_solvers_agree :
  forall (n : net R) (known : Z -> bool) (f : Z -> R -> R),
    net_ok n = true ->
    NoDup (outputs n) ->
    (forall o, In o (outputs n) <-> o < nnodes n /\ is_output (role_at n o) = true) ->
    (forall p l, p < nnodes n -> In l (nd_in (node_at n p)) -> l_td l = false) ->
    (forall p, p < nnodes n -> neuronb n p = true -> NoDup (map (@l_src R) (nd_in (node_at n p)))) ->
    acyclic n -> reachable n ->
    (forall p, p < nnodes n -> neuronb n p = true -> known (nd_act (node_at n p)) = true) ->
    forall x : list R, length x = length (positions_with n is_input) ->
    forall (k ms : Z) (d : R),
      inputs n = positions_with n is_sensor ->
      (1 <= k)%Z -> (Z.of_nat (depth n (lp n (nnodes n))) <= k)%Z ->
      exists fn s1 s2 t1 t2 t3 t4 r2 r3 r4,
        std_load Rnum n x (std_init Rnum n) = (s1, Ok true) /\
        std_forward Rnum (ract known f) n k s1 = (s2, Ok true) /\
        fast_of_net Rnum n = Ok fn /\
        fast_load Rnum fn x (fast_init Rnum fn) = (t1, Ok true) /\
        fast_forward Rnum (ract known f) fn k t1 = (t2, Ok r2) /\
        fast_recursive Rnum (ract known f) fn t1 = (t3, Ok r3) /\
        fast_relax Rnum (ract known f) fn ms d t1 = (t4, Ok r4) /\
        std_outputs Rnum n s2 = fast_outputs Rnum fn t2 /\
        fast_outputs Rnum fn t2 = fast_outputs Rnum fn t3 /\
        (depth n (lp n (nnodes n)) <= relax_sweeps known f fn (Z.to_nat ms) d t1 ->
         fast_outputs Rnum fn t3 = fast_outputs Rnum fn t4).
Proof. exact c12_agree. Qed.
Print Assumptions C12_solvers_agree.

(* the topological evaluation solves the node equations with the loaded sensor values, and is the only solution *)
Theorem C12_topo_is_the_solution :
  forall (n : net R) (f : Z -> R -> R),
    net_ok n = true ->
    NoDup (outputs n) ->
    (forall o, In o (outputs n) <-> o < nnodes n /\ is_output (role_at n o) = true) ->
    (forall p l, p < nnodes n -> In l (nd_in (node_at n p)) -> l_td l = false) ->
    (forall p, p < nnodes n -> neuronb n p = true -> NoDup (map (@l_src R) (nd_in (node_at n p)))) ->
    acyclic n -> reachable n ->
    forall x : list R,
      (forall p, p < nnodes n -> neuronb n p = true ->
         topo_eval n f x p = f (nd_act (node_at n p)) (wsum (topo_eval n f x) (nd_in (node_at n p)))) /\
      (forall p, p < nnodes n -> is_bias (role_at n p) = true -> topo_eval n f x p = 1%R) /\
      (forall i, i < length (positions_with n is_input) ->
         topo_eval n f x (nth i (positions_with n is_input) 0) = nth i x 0%R) /\
      (forall v : nat -> R,
         (forall p, p < nnodes n -> neuronb n p = true ->
            v p = f (nd_act (node_at n p)) (wsum v (nd_in (node_at n p)))) ->
         (forall p, p < nnodes n -> is_bias (role_at n p) = true -> v p = 1%R) ->
         (forall i, i < length (positions_with n is_input) ->
            v (nth i (positions_with n is_input) 0) = nth i x 0%R) ->
         forall p, p < nnodes n -> v p = topo_eval n f x p).
Proof.
  intros n f H1 H2 H3 H4 H5 H6 H7 x.
  destruct (c12_topo_solves n f H1 H2 H3 H4 H5 H6 H7 x) as [S [B I]].
  split; [exact S|]. split; [exact B|]. split; [exact I|].
  intros v Sv Bv Iv. exact (c12_topo_unique n f H1 H2 H3 H4 H5 H6 H7 x v Sv (conj Bv Iv)).
Qed.
Print Assumptions C12_topo_is_the_solution.

(* [lp n N p] is the length of the longest path ending in p *)
Theorem C12_depth_is_longest_path :
  forall n : net R, net_ok n = true -> acyclic n ->
    forall p, p < nnodes n ->
      (exists q, path n q p (lp n (nnodes n) p)) /\ (forall q m, path n q p m -> m <= lp n (nnodes n) p).
Proof. exact lp_is_longest. Qed.
Print Assumptions C12_depth_is_longest_path.

(* ---- non-vacuity: a network with a bias node, a hidden neuron and a skip link satisfies the hypotheses ---- *)
Definition ex12 : net R :=
  mkNet [mkNode Input 17 []; mkNode Bias 17 [];
         mkNode Hidden 14 [mkLink 0 2%R false; mkLink 1 1%R false];
         mkNode Output 14 [mkLink 2 3%R false; mkLink 0 (-1)%R false]]
        [0; 1] [3].

Example C12_example_hypotheses :
  net_ok ex12 = true /\ NoDup (outputs ex12) /\
  (forall o, In o (outputs ex12) <-> o < nnodes ex12 /\ is_output (role_at ex12 o) = true) /\
  (forall p l, p < nnodes ex12 -> In l (nd_in (node_at ex12 p)) -> l_td l = false) /\
  (forall p, p < nnodes ex12 -> neuronb ex12 p = true -> NoDup (map (@l_src R) (nd_in (node_at ex12 p)))) /\
  acyclic ex12 /\ reachable ex12 /\ inputs ex12 = positions_with ex12 is_sensor /\
  depth ex12 (lp ex12 (nnodes ex12)) = 2.
Proof.
  assert (HN : nnodes ex12 = 4) by reflexivity.
  assert (E02 : edge ex12 0 2).
  { split; [rewrite HN; lia|]. split; [reflexivity|]. exists (mkLink 0 2%R false). split; [left|]; reflexivity. }
  assert (E23 : edge ex12 2 3).
  { split; [rewrite HN; lia|]. split; [reflexivity|]. exists (mkLink 2 3%R false). split; [left|]; reflexivity. }
  assert (Hin : forall p, nd_in (node_at ex12 p) =
                          match p with
                          | 2 => [mkLink 0 2%R false; mkLink 1 1%R false]
                          | 3 => [mkLink 2 3%R false; mkLink 0 (-1)%R false]
                          | _ => [] end).
  { intros p. destruct p as [|[|[|[|[|p]]]]]; reflexivity. }
  assert (Hrole : forall p, role_at ex12 p = match p with 0 => Input | 1 => Bias | 3 => Output | _ => Hidden end).
  { intros p. destruct p as [|[|[|[|[|p]]]]]; reflexivity. }
  split; [reflexivity|]. split; [repeat constructor; simpl; tauto|]. split.
  { intros o. rewrite HN, Hrole. simpl. split.
    - intros [<-|[]]. split; [lia|reflexivity].
    - intros [Ho Hr]. destruct o as [|[|[|[|o]]]]; simpl in *; try discriminate; try lia; auto. }
  split.
  { intros p l Hp Hl. rewrite Hin in Hl. destruct p as [|[|[|[|p]]]]; simpl in Hl; try tauto;
      repeat (destruct Hl as [<-|Hl]; [reflexivity|]); destruct Hl. }
  split.
  { intros p Hp Hn. rewrite Hin. destruct p as [|[|[|[|p]]]]; simpl; repeat constructor; simpl; intuition lia. }
  split.
  { apply (rank_acyclic ex12 (fun p => p)). intros q p (Hp & Hn & l & Hl & Hs). rewrite Hin in Hl.
    destruct p as [|[|[|[|p]]]]; simpl in Hl; try tauto;
      repeat (destruct Hl as [<-|Hl]; [simpl in Hs; lia|]); destruct Hl. }
  split.
  { intros p Hp Hn. rewrite HN in Hp. unfold neuronb in Hn. rewrite Hrole in Hn.
    destruct p as [|[|[|[|p]]]]; simpl in Hn; try discriminate; try lia.
    - exists 0, 1. split; [rewrite HN; lia|]. split; [reflexivity|]. apply pathS with (r := 0); [constructor|exact E02].
    - exists 0, 2. split; [rewrite HN; lia|]. split; [reflexivity|].
      apply pathS with (r := 2); [apply pathS with (r := 0); [constructor|exact E02]|exact E23]. }
  split; reflexivity.
Qed.

(* ---- the same statement on the executable binary64 instance: a 2-hidden-layer network with two bias nodes
   and a skip link; the four solvers return bit-identical outputs here (in general: up to summation order) ---- *)
Definition ex12f : net float :=
  mkNet [mkNode Input 17 []; mkNode Bias 17 []; mkNode Bias 17 [];
         mkNode Hidden 14 [mkLink 0 0.5%float false; mkLink 1 0.25%float false];
         mkNode Hidden 16 [mkLink 3 2%float false; mkLink 2 (-0.5)%float false];
         mkNode Output 14 [mkLink 4 1.5%float false; mkLink 0 1%float false; mkLink 1 0.125%float false]]
        [0; 1; 2] [5].

Example C12_example_float :
  exists fn, fast_of_net F64num ex12f = Ok fn /\
    let std := std_trace F64num (C12Cases.fact []) ex12f (std_init F64num ex12f) [OLoad [2%float]; OForward 3] in
    let ff := fast_trace F64num (C12Cases.fact []) fn (fast_init F64num fn) [OLoad [2%float]; OForward 3] in
    let fr := fast_trace F64num (C12Cases.fact []) fn (fast_init F64num fn) [OLoad [2%float]; ORecursive] in
    let fx := fast_trace F64num (C12Cases.fact []) fn (fast_init F64num fn) [OLoad [2%float]; ORelax 4 0%float; ORelax 4 0%float; ORelax 4 0%float] in
    map snd std = [[0%float]; [3.625%float]] /\ nth 1 (map snd ff) [] = [3.625%float] /\
    nth 1 (map snd fr) [] = [3.625%float] /\ nth 3 (map snd fx) [] = [3.625%float].
Proof. eexists. split; [vm_compute; reflexivity|]. vm_compute. repeat split. Qed.
