(* C12 — all solvers compute the feed-forward function.
   Property theorems only; proofs live in proofs/Solver*.v.

   Vocabulary (model/Net.v, model/Fast.v, proofs/SolverSpec.v, SolverGraph.v, SolverMain.v, SolverTopo.v):
   * [net R]: nodes (role, activation code, incoming links (source position, weight, time-delayed flag)),
     the [inputs] and [outputs] lists; positions are indices into allNodes.  [Rnum] are the reals;
     [ract known f] is an arbitrary activation table ([known c = false]: unregistered type).
   * [edge n q p]: p is a neuron with an incoming link from q; [path n q p m]: m consecutive edges;
     [acyclic n]: no path from a node to itself except the empty one; [reachable n]: every neuron is the
     end of a path from a sensor.  [lp n N p] is the length of the longest path ending in p
     (theorem C12_depth_is_longest_path) and [depth n (lp n N)] its maximum over the outputs: the
     longest sensor-to-output path.
   * [topo n f x]: every neuron evaluated once in topological order as f code (sum of weight * source),
     bias nodes being 1 and the i-th input node (in node order) x_i; [topo_eval] is the underlying
     valuation, the unique solution of the node equations (C12_topo_is_the_solution).
   * std_load / std_forward / std_outputs: Network.LoadSensors / ForwardSteps / ReadOutputs;
     fast_of_net: Network.FastNetworkSolver; fast_load / fast_forward / fast_recursive / fast_relax /
     fast_outputs: the fast solver's LoadSensors / ForwardSteps / RecursiveSteps / Relax / ReadOutputs.
   Hypotheses common to all theorems: positions in range; Outputs is exactly the list of output neurons;
   plain (not time-delayed) links (several links on one ordered pair of nodes are allowed: their
   contributions add up); acyclic; every neuron reachable from a
   sensor; every neuron's activation type registered.  The sensor vector has one value per input node. *)
From NeatModel Require Import Res Net Fast SolverSpec SolverFast SolverBuild SolverMain SolverTopo SolverGraph SolverC12.
From NeatModel Require Import F64 C12Cases.
From Coq Require Import Reals Lra Lia Floats.
Open Scope nat_scope.

(* standard solver: LoadSensors then ForwardSteps k, k at least the longest sensor-to-output path:
   no error (in particular no ErrNetExceededMaxActivationAttempts) and the outputs are the topological evaluation *)
Theorem C12_std_forward :
  forall (n : net R) (known : Z -> bool) (f : Z -> R -> R),
    net_ok n = true ->
    NoDup (outputs n) ->
    (forall o, In o (outputs n) <-> o < nnodes n /\ is_output (role_at n o) = true) ->
    (forall p l, p < nnodes n -> In l (nd_in (node_at n p)) -> l_td l = false) ->
    acyclic n -> reachable n ->
    (forall p, p < nnodes n -> neuronb n p = true -> known (nd_act (node_at n p)) = true) ->
    forall x : list R, length x = length (positions_with n is_input) ->
    forall k : Z,
      inputs n = positions_with n is_sensor ->
      (1 <= k)%Z -> (Z.of_nat (depth n (lp n (nnodes n))) <= k)%Z ->
      exists s1 s2,
        std_load Rnum n x (std_init Rnum n) = (s1, Ok true) /\
        std_forward Rnum (ract known f) n k s1 = (s2, Ok true) /\
        std_outputs Rnum n s2 = topo n f x.
Proof. exact c12_std_forward. Qed.
Print Assumptions C12_std_forward.

(* fast solver built by FastNetworkSolver: LoadSensors then ForwardSteps k *)
Theorem C12_fast_forward :
  forall (n : net R) (known : Z -> bool) (f : Z -> R -> R),
    net_ok n = true ->
    NoDup (outputs n) ->
    (forall o, In o (outputs n) <-> o < nnodes n /\ is_output (role_at n o) = true) ->
    (forall p l, p < nnodes n -> In l (nd_in (node_at n p)) -> l_td l = false) ->
    acyclic n -> reachable n ->
    (forall p, p < nnodes n -> neuronb n p = true -> known (nd_act (node_at n p)) = true) ->
    forall x : list R, length x = length (positions_with n is_input) ->
    forall k : Z,
      (Z.of_nat (depth n (lp n (nnodes n))) <= k)%Z ->
      exists fn s1 s2 r,
        fast_of_net Rnum n = Ok fn /\
        fast_load Rnum fn x (fast_init Rnum fn) = (s1, Ok true) /\
        fast_forward Rnum (ract known f) fn k s1 = (s2, Ok r) /\
        fast_outputs Rnum fn s2 = topo n f x.
Proof. exact c12_fast_forward. Qed.
Print Assumptions C12_fast_forward.

(* fast solver: LoadSensors then RecursiveSteps (bias inputs included; the recursion fuel never runs out) *)
Theorem C12_fast_recursive :
  forall (n : net R) (known : Z -> bool) (f : Z -> R -> R),
    net_ok n = true ->
    NoDup (outputs n) ->
    (forall o, In o (outputs n) <-> o < nnodes n /\ is_output (role_at n o) = true) ->
    (forall p l, p < nnodes n -> In l (nd_in (node_at n p)) -> l_td l = false) ->
    acyclic n -> reachable n ->
    (forall p, p < nnodes n -> neuronb n p = true -> known (nd_act (node_at n p)) = true) ->
    forall x : list R, length x = length (positions_with n is_input) ->
      exists fn s1 s2 r,
        fast_of_net Rnum n = Ok fn /\
        fast_load Rnum fn x (fast_init Rnum fn) = (s1, Ok true) /\
        fast_recursive Rnum (ract known f) fn s1 = (s2, Ok r) /\
        fast_outputs Rnum fn s2 = topo n f x.
Proof. exact c12_fast_recursive. Qed.
Print Assumptions C12_fast_recursive.

(* fast solver: LoadSensors then Relax maxSteps tolerance.  [relax_sweeps] is the number of sweeps the call
   performs; when it is at least the longest path the outputs are the topological evaluation.  A call that
   reports "not relaxed" performed all maxSteps sweeps; with a tolerance <= 0 exactly one sweep is performed. *)
Theorem C12_fast_relax :
  forall (n : net R) (known : Z -> bool) (f : Z -> R -> R),
    net_ok n = true ->
    NoDup (outputs n) ->
    (forall o, In o (outputs n) <-> o < nnodes n /\ is_output (role_at n o) = true) ->
    (forall p l, p < nnodes n -> In l (nd_in (node_at n p)) -> l_td l = false) ->
    acyclic n -> reachable n ->
    (forall p, p < nnodes n -> neuronb n p = true -> known (nd_act (node_at n p)) = true) ->
    forall x : list R, length x = length (positions_with n is_input) ->
    forall (ms : Z) (d : R),
      exists fn s1 s2 r,
        fast_of_net Rnum n = Ok fn /\
        fast_load Rnum fn x (fast_init Rnum fn) = (s1, Ok true) /\
        fast_relax Rnum (ract known f) fn ms d s1 = (s2, Ok r) /\
        (depth n (lp n (nnodes n)) <= relax_sweeps known f fn (Z.to_nat ms) d s1 ->
         fast_outputs Rnum fn s2 = topo n f x) /\
        ((1 <= ms)%Z -> r = false -> relax_sweeps known f fn (Z.to_nat ms) d s1 = Z.to_nat ms) /\
        ((1 <= ms)%Z -> (d <= 0)%R -> relax_sweeps known f fn (Z.to_nat ms) d s1 = 1).
Proof. exact c12_fast_relax. Qed.
Print Assumptions C12_fast_relax.

(* hence the four computations agree pairwise *)
Theorem C12_solvers_agree :
  forall (n : net R) (known : Z -> bool) (f : Z -> R -> R),
    net_ok n = true ->
    NoDup (outputs n) ->
    (forall o, In o (outputs n) <-> o < nnodes n /\ is_output (role_at n o) = true) ->
    (forall p l, p < nnodes n -> In l (nd_in (node_at n p)) -> l_td l = false) ->
    acyclic n -> reachable n ->
    (forall p, p < nnodes n -> neuronb n p = true -> known (nd_act (node_at n p)) = true) ->
    forall x : list R, length x = length (positions_with n is_input) ->
    forall (k ms : Z) (d : R),
      inputs n = positions_with n is_sensor ->
      (1 <= k)%Z -> (Z.of_nat (depth n (lp n (nnodes n))) <= k)%Z ->
      exists fn s1 s2 t1 t2 t3 t4 r2 r3 r4,
        std_load Rnum n x (std_init Rnum n) = (s1, Ok true) /\
        std_forward Rnum (ract known f) n k s1 = (s2, Ok true) /\
        fast_of_net Rnum n = Ok fn /\
        fast_load Rnum fn x (fast_init Rnum fn) = (t1, Ok true) /\
        fast_forward Rnum (ract known f) fn k t1 = (t2, Ok r2) /\
        fast_recursive Rnum (ract known f) fn t1 = (t3, Ok r3) /\
        fast_relax Rnum (ract known f) fn ms d t1 = (t4, Ok r4) /\
        std_outputs Rnum n s2 = fast_outputs Rnum fn t2 /\
        fast_outputs Rnum fn t2 = fast_outputs Rnum fn t3 /\
        (depth n (lp n (nnodes n)) <= relax_sweeps known f fn (Z.to_nat ms) d t1 ->
         fast_outputs Rnum fn t3 = fast_outputs Rnum fn t4).
Proof. exact c12_agree. Qed.
Print Assumptions C12_solvers_agree.

(* the topological evaluation solves the node equations with the loaded sensor values, and is the only solution *)
Theorem C12_topo_is_the_solution :
  forall (n : net R) (f : Z -> R -> R),
    net_ok n = true ->
    NoDup (outputs n) ->
    (forall o, In o (outputs n) <-> o < nnodes n /\ is_output (role_at n o) = true) ->
    (forall p l, p < nnodes n -> In l (nd_in (node_at n p)) -> l_td l = false) ->
    acyclic n -> reachable n ->
    forall x : list R,
      (forall p, p < nnodes n -> neuronb n p = true ->
         topo_eval n f x p = f (nd_act (node_at n p)) (wsum (topo_eval n f x) (nd_in (node_at n p)))) /\
      (forall p, p < nnodes n -> is_bias (role_at n p) = true -> topo_eval n f x p = 1%R) /\
      (forall i, i < length (positions_with n is_input) ->
         topo_eval n f x (nth i (positions_with n is_input) 0) = nth i x 0%R) /\
      (forall v : nat -> R,
         (forall p, p < nnodes n -> neuronb n p = true ->
            v p = f (nd_act (node_at n p)) (wsum v (nd_in (node_at n p)))) ->
         (forall p, p < nnodes n -> is_bias (role_at n p) = true -> v p = 1%R) ->
         (forall i, i < length (positions_with n is_input) ->
            v (nth i (positions_with n is_input) 0) = nth i x 0%R) ->
         forall p, p < nnodes n -> v p = topo_eval n f x p).
Proof.
  intros n f H1 H2 H3 H4 H5 H6 x.
  destruct (c12_topo_solves n f H1 H2 H3 H4 H5 H6 x) as [S [B I]].
  split; [exact S|]. split; [exact B|]. split; [exact I|].
  intros v Sv Bv Iv. exact (c12_topo_unique n f H1 H2 H3 H4 H5 H6 x v Sv (conj Bv Iv)).
Qed.
Print Assumptions C12_topo_is_the_solution.

(* [lp n N p] is the length of the longest path ending in p *)
Theorem C12_depth_is_longest_path :
  forall n : net R, net_ok n = true -> acyclic n ->
    forall p, p < nnodes n ->
      (exists q, path n q p (lp n (nnodes n) p)) /\ (forall q m, path n q p m -> m <= lp n (nnodes n) p).
Proof. exact lp_is_longest. Qed.
Print Assumptions C12_depth_is_longest_path.

(* ---- non-vacuity: a network with a bias node, a hidden neuron and a skip link satisfies the hypotheses ---- *)
Definition ex12 : net R :=
  mkNet [mkNode Input 17 []; mkNode Bias 17 [];
         mkNode Hidden 14 [mkLink 0 2%R false; mkLink 1 1%R false];
         mkNode Output 14 [mkLink 2 3%R false; mkLink 0 (-1)%R false]]
        [0; 1] [3].

Example C12_example_hypotheses :
  net_ok ex12 = true /\ NoDup (outputs ex12) /\
  (forall o, In o (outputs ex12) <-> o < nnodes ex12 /\ is_output (role_at ex12 o) = true) /\
  (forall p l, p < nnodes ex12 -> In l (nd_in (node_at ex12 p)) -> l_td l = false) /\
  acyclic ex12 /\ reachable ex12 /\ inputs ex12 = positions_with ex12 is_sensor /\
  depth ex12 (lp ex12 (nnodes ex12)) = 2.
Proof.
  assert (HN : nnodes ex12 = 4) by reflexivity.
  assert (E02 : edge ex12 0 2).
  { split; [rewrite HN; lia|]. split; [reflexivity|]. exists (mkLink 0 2%R false). split; [left|]; reflexivity. }
  assert (E23 : edge ex12 2 3).
  { split; [rewrite HN; lia|]. split; [reflexivity|]. exists (mkLink 2 3%R false). split; [left|]; reflexivity. }
  assert (Hin : forall p, nd_in (node_at ex12 p) =
                          match p with
                          | 2 => [mkLink 0 2%R false; mkLink 1 1%R false]
                          | 3 => [mkLink 2 3%R false; mkLink 0 (-1)%R false]
                          | _ => [] end).
  { intros p. destruct p as [|[|[|[|[|p]]]]]; reflexivity. }
  assert (Hrole : forall p, role_at ex12 p = match p with 0 => Input | 1 => Bias | 3 => Output | _ => Hidden end).
  { intros p. destruct p as [|[|[|[|[|p]]]]]; reflexivity. }
  split; [reflexivity|]. split; [repeat constructor; simpl; tauto|]. split.
  { intros o. rewrite HN, Hrole. simpl. split.
    - intros [<-|[]]. split; [lia|reflexivity].
    - intros [Ho Hr]. destruct o as [|[|[|[|o]]]]; simpl in *; try discriminate; try lia; auto. }
  split.
  { intros p l Hp Hl. rewrite Hin in Hl. destruct p as [|[|[|[|p]]]]; simpl in Hl; try tauto;
      repeat (destruct Hl as [<-|Hl]; [reflexivity|]); destruct Hl. }
  split.
  { apply (rank_acyclic ex12 (fun p => p)). intros q p (Hp & Hn & l & Hl & Hs). rewrite Hin in Hl.
    destruct p as [|[|[|[|p]]]]; simpl in Hl; try tauto;
      repeat (destruct Hl as [<-|Hl]; [simpl in Hs; lia|]); destruct Hl. }
  split.
  { intros p Hp Hn. rewrite HN in Hp. unfold neuronb in Hn. rewrite Hrole in Hn.
    destruct p as [|[|[|[|p]]]]; simpl in Hn; try discriminate; try lia.
    - exists 0, 1. split; [rewrite HN; lia|]. split; [reflexivity|]. apply pathS with (r := 0); [constructor|exact E02].
    - exists 0, 2. split; [rewrite HN; lia|]. split; [reflexivity|].
      apply pathS with (r := 2); [apply pathS with (r := 0); [constructor|exact E02]|exact E23]. }
  split; reflexivity.
Qed.

(* ---- the same statement on the executable binary64 instance: a 2-hidden-layer network with two bias nodes
   and a skip link; the four solvers return bit-identical outputs here (in general: up to summation order) ---- *)
Definition ex12f : net float :=
  mkNet [mkNode Input 17 []; mkNode Bias 17 []; mkNode Bias 17 [];
         mkNode Hidden 14 [mkLink 0 0.5%float false; mkLink 1 0.25%float false];
         mkNode Hidden 16 [mkLink 3 2%float false; mkLink 2 (-0.5)%float false];
         mkNode Output 14 [mkLink 4 1.5%float false; mkLink 0 1%float false; mkLink 1 0.125%float false]]
        [0; 1; 2] [5].

Example C12_example_float :
  exists fn, fast_of_net F64num ex12f = Ok fn /\
    let std := std_trace F64num (C12Cases.fact []) ex12f (std_init F64num ex12f) [OLoad [2%float]; OForward 3] in
    let ff := fast_trace F64num (C12Cases.fact []) fn (fast_init F64num fn) [OLoad [2%float]; OForward 3] in
    let fr := fast_trace F64num (C12Cases.fact []) fn (fast_init F64num fn) [OLoad [2%float]; ORecursive] in
    let fx := fast_trace F64num (C12Cases.fact []) fn (fast_init F64num fn) [OLoad [2%float]; ORelax 4 0%float; ORelax 4 0%float; ORelax 4 0%float] in
    map snd std = [[0%float]; [3.625%float]] /\ nth 1 (map snd ff) [] = [3.625%float] /\
    nth 1 (map snd fr) [] = [3.625%float] /\ nth 3 (map snd fx) [] = [3.625%float].
Proof. eexists. split; [vm_compute; reflexivity|]. vm_compute. repeat split. Qed.

(* ---- parallel links (two links on one ordered pair of nodes) are inside the theorems above: Input(0) -> Output(1,
   linear) by links of weights 2 and 3, x = [1].  NewFastModularNetworkSolver lists the source once in
   reverseAdjacentList and holds the SUM of the two weights in adjacentMatrix, so RecursiveSteps returns 2*1 + 3*1 = 5
   like the other three computations (it returned 3*1 + 3*1 = 6 while the later weight overwrote the earlier one) ---- *)
Definition ex12p : net float :=
  mkNet [mkNode Input 17 []; mkNode Output 14 [mkLink 0 2%float false; mkLink 0 3%float false]] [0] [1].

Example C12_example_parallel_links :
  exists fn, fast_of_net F64num ex12p = Ok fn /\
    radj fn 1 = [0] /\ adj_w F64num fn 0 1 = 5%float /\
    let std := std_trace F64num (C12Cases.fact []) ex12p (std_init F64num ex12p) [OLoad [1%float]; OForward 1] in
    let ff := fast_trace F64num (C12Cases.fact []) fn (fast_init F64num fn) [OLoad [1%float]; OForward 1] in
    let fr := fast_trace F64num (C12Cases.fact []) fn (fast_init F64num fn) [OLoad [1%float]; ORecursive] in
    let fx := fast_trace F64num (C12Cases.fact []) fn (fast_init F64num fn) [OLoad [1%float]; ORelax 1 0%float] in
    nth 1 (map snd std) [] = [5%float] /\ nth 1 (map snd ff) [] = [5%float] /\
    nth 1 (map snd fr) [] = [5%float] /\ nth 1 (map snd fx) [] = [5%float].
Proof. eexists. split; [vm_compute; reflexivity|]. vm_compute. repeat split. Qed.
(* ================================================================================================== *)
(* agent-modules: feed-forward networks WITH modules (control nodes)                                    *)
(* ================================================================================================== *)
(* Models: model/NetMod.v (Network.ActivateSteps incl. the control-node loop), model/FastMod.v (forwardStep incl. the
   module loop, FastNetworkSolver's translation of control nodes); proofs: proofs/ModSpecC12.v, ModSpecC12Fast.v,
   ModSpecC12Topo.v; correspondence of the module semantics: cases/ModCases.v (harness/c13_mod.go, run by ./check C13,
   which also compares both real solvers with a one-pass evaluation on random feed-forward modular networks).
   Vocabulary: [mnet R] = a network and its control nodes (activation type, positions of the InNodes of the incoming
   links, positions of the OutNodes of the outgoing links); [mout c] the neuron the control node c writes;
   [mract mknown mf] an arbitrary module-activator table (one output per registered type); [mtopo n f mf dp x] the
   one-pass evaluation: a sensor carries its loaded value, the output of a module mf(type)(values of its inputs), any
   other neuron f(type)(sum of weight * source).
   "Enough steps" with modules: k >= dp o for every output o, for ANY dp with dp source < dp p on the links into
   ordinary neurons and 1 <= dp (mout c), dp input <= dp (mout c) for every module: a module costs no step of its own
   (both solvers run the modules inside the pass, on the values of that pass).  Counting a control node as one hop, as
   Network.maxActivationDepthModular does, gives such a dp, so that depth is always enough.
   Premises specific to modules: one outgoing link per control node, into a neuron no other control node writes; module
   inputs are neurons; control nodes listed in dependency order.  Each is needed:
   - a module fed directly by a SENSOR: the two solvers disagree for every number of steps (C12_mod_example_sensor_input:
     the fast solver reads neuronSignalsBeingProcessed, which is 0 for sensors) - a defect of the fast solver;
   - control nodes out of dependency order: both solvers feed the later-listed module's relay neuron's own activation
     to the earlier-listed one (they still agree with each other, harness family "reversed-chain");
   - two or zero outgoing links: the Network returns an error, the fast solver panics / silently ignores (C13 cases). *)
From NeatModel Require Import NetMod FastMod ModSpecC12 ModSpecC12Fast ModSpecC12Topo ModCases.
Open Scope nat_scope.

Theorem C12_mod_solvers_agree :
  forall (n : mnet R) (known : Z -> bool) (f : Z -> R -> R) (mknown : Z -> bool) (mf : Z -> list R -> R) (dp : nat -> nat),
    mnet_ok n = true ->
    NoDup (outputs (m_net n)) ->
    (forall o, In o (outputs (m_net n)) <-> o < nnodes (m_net n) /\ is_output (role_at (m_net n) o) = true) ->
    inputs (m_net n) = positions_with (m_net n) is_sensor ->
    (forall p l, p < nnodes (m_net n) -> In l (nd_in (node_at (m_net n) p)) -> l_td l = false) ->
    (* modules: one outgoing link, into a neuron; inputs are neurons; distinct targets; dependency order *)
    (forall c, In c (m_ctrl n) -> cn_out c = [mout c]) ->
    (forall c, In c (m_ctrl n) -> neuronb (m_net n) (mout c) = true) ->
    (forall c i, In c (m_ctrl n) -> In i (cn_in c) -> neuronb (m_net n) i = true) ->
    NoDup (mouts (m_ctrl n)) ->
    ordered (m_ctrl n) ->
    (* every neuron that no module writes has incoming links, from nodes of smaller depth *)
    (forall p, p < nnodes (m_net n) -> neuronb (m_net n) p = true -> ~ In p (mouts (m_ctrl n)) ->
       nd_in (node_at (m_net n) p) <> []) ->
    (forall p l, p < nnodes (m_net n) -> neuronb (m_net n) p = true -> ~ In p (mouts (m_ctrl n)) ->
       In l (nd_in (node_at (m_net n) p)) -> dp (l_src l) < dp p) ->
    (forall c, In c (m_ctrl n) -> 1 <= dp (mout c) /\ forall i, In i (cn_in c) -> dp i <= dp (mout c)) ->
    (forall p, p < nnodes (m_net n) -> neuronb (m_net n) p = true -> known (nd_act (node_at (m_net n) p)) = true) ->
    (forall c, In c (m_ctrl n) -> mknown (cn_act c) = true) ->
    forall x : list R, length x = length (positions_with (m_net n) is_input) ->
    forall k : Z, (1 <= k)%Z -> (forall o, In o (outputs (m_net n)) -> (Z.of_nat (dp o) <= k)%Z) ->
    (* whenever the depth also increases strictly through the modules the one-pass evaluation is a solution ... *)
    (forall c i, In c (m_ctrl n) -> In i (cn_in c) -> dp i < dp (mout c)) ->
    exists st1 st2 fx t1 t2 r,
      mstd_load Rnum n x (mstd_init Rnum n) = (st1, Ok true) /\
      mstd_forward Rnum (ract known f) (mract mknown mf) n k st1 = (st2, Ok true) /\
      fast_of_net_mod Rnum n = Ok fx /\
      fast_load Rnum (fx_net fx) x (mfast_init Rnum fx) = (t1, Ok true) /\
      mfast_forward Rnum (ract known f) (mract mknown mf) fx k t1 = (t2, Ok r) /\
      mstd_outputs Rnum n st2 = mfast_outputs Rnum fx t2 /\
      mstd_outputs Rnum n st2 = mtopo n f mf dp x.
Proof. exact mc12_agree. Qed.
Print Assumptions C12_mod_solvers_agree.

(* ... and in general (depth possibly constant through a module): every solution v of the node equations with the loaded
   sensor values is what both solvers return *)
Theorem C12_mod_solvers_return_the_solution :
  forall (n : mnet R) (known : Z -> bool) (f : Z -> R -> R) (mknown : Z -> bool) (mf : Z -> list R -> R) (dp : nat -> nat),
    mnet_ok n = true ->
    NoDup (outputs (m_net n)) ->
    (forall o, In o (outputs (m_net n)) <-> o < nnodes (m_net n) /\ is_output (role_at (m_net n) o) = true) ->
    inputs (m_net n) = positions_with (m_net n) is_sensor ->
    (forall p l, p < nnodes (m_net n) -> In l (nd_in (node_at (m_net n) p)) -> l_td l = false) ->
    (forall c, In c (m_ctrl n) -> cn_out c = [mout c]) ->
    (forall c, In c (m_ctrl n) -> neuronb (m_net n) (mout c) = true) ->
    (forall c i, In c (m_ctrl n) -> In i (cn_in c) -> neuronb (m_net n) i = true) ->
    NoDup (mouts (m_ctrl n)) ->
    ordered (m_ctrl n) ->
    (forall p, p < nnodes (m_net n) -> neuronb (m_net n) p = true -> ~ In p (mouts (m_ctrl n)) ->
       nd_in (node_at (m_net n) p) <> []) ->
    (forall p l, p < nnodes (m_net n) -> neuronb (m_net n) p = true -> ~ In p (mouts (m_ctrl n)) ->
       In l (nd_in (node_at (m_net n) p)) -> dp (l_src l) < dp p) ->
    (forall c, In c (m_ctrl n) -> 1 <= dp (mout c) /\ forall i, In i (cn_in c) -> dp i <= dp (mout c)) ->
    (forall p, p < nnodes (m_net n) -> neuronb (m_net n) p = true -> known (nd_act (node_at (m_net n) p)) = true) ->
    (forall c, In c (m_ctrl n) -> mknown (cn_act c) = true) ->
    forall x : list R, length x = length (positions_with (m_net n) is_input) ->
    forall k : Z, (1 <= k)%Z -> (forall o, In o (outputs (m_net n)) -> (Z.of_nat (dp o) <= k)%Z) ->
    forall v : nat -> R,
      (forall p, p < nnodes (m_net n) -> neuronb (m_net n) p = true -> ~ In p (mouts (m_ctrl n)) ->
         v p = f (nd_act (node_at (m_net n) p)) (wsum v (nd_in (node_at (m_net n) p)))) ->
      (forall c, In c (m_ctrl n) -> v (mout c) = mf (cn_act c) (map v (cn_in c))) ->
      (forall p, p < nnodes (m_net n) -> is_bias (role_at (m_net n) p) = true -> v p = 1%R) ->
      (forall i, i < length (positions_with (m_net n) is_input) ->
         v (nth i (positions_with (m_net n) is_input) 0) = nth i x 0%R) ->
      exists st1 st2 fx t1 t2 r,
        mstd_load Rnum n x (mstd_init Rnum n) = (st1, Ok true) /\
        mstd_forward Rnum (ract known f) (mract mknown mf) n k st1 = (st2, Ok true) /\
        fast_of_net_mod Rnum n = Ok fx /\
        fast_load Rnum (fx_net fx) x (mfast_init Rnum fx) = (t1, Ok true) /\
        mfast_forward Rnum (ract known f) (mract mknown mf) fx k t1 = (t2, Ok r) /\
        mstd_outputs Rnum n st2 = mfast_outputs Rnum fx t2 /\
        mstd_outputs Rnum n st2 = map v (outputs (m_net n)).
Proof.
  intros n known f mknown mf dp H1 H2 H3 H4 H5 H6 H7 H8 H9 H10 H11 H12 H13 H14 H15 x Hx k Hk Hd v S1 S2 V1 V2.
  exact (mc12_any_solution n known f mknown mf dp H1 H2 H3 H4 H5 H6 H7 H8 H9 H10 H11 H12 H13 H14 H15 x Hx k Hk Hd v
           (conj S1 S2) (conj V1 V2)).
Qed.
Print Assumptions C12_mod_solvers_return_the_solution.

(* ---- non-vacuity over the reals: inputs 0, 1; hidden 2 <- 0, 3 <- 1; MULTIPLY (2, 3) -> relay 4; output 5 <- 4 ---- *)
Definition ex12m : mnet R :=
  mkMnet (mkNet [mkNode Input 17 []; mkNode Input 17 [];
                 mkNode Hidden 14 [mkLink 0 2%R false]; mkNode Hidden 14 [mkLink 1 1%R false];
                 mkNode Hidden 17 []; mkNode Output 14 [mkLink 4 1.5%R false]]
                [0; 1] [5])
         [mkCnode 21 [2; 3] [4]].
Definition ex12m_dp (p : nat) : nat := match p with 2 | 3 => 1 | 4 => 2 | 5 => 3 | _ => 0 end.

Example C12_mod_example_hypotheses :
  forall (f : Z -> R -> R) (mf : Z -> list R -> R) (a b : R),
  exists st1 st2 fx t1 t2 r,
    mstd_load Rnum ex12m [a; b] (mstd_init Rnum ex12m) = (st1, Ok true) /\
    mstd_forward Rnum (ract (fun _ => true) f) (mract (fun _ => true) mf) ex12m 3 st1 = (st2, Ok true) /\
    fast_of_net_mod Rnum ex12m = Ok fx /\
    fast_load Rnum (fx_net fx) [a; b] (mfast_init Rnum fx) = (t1, Ok true) /\
    mfast_forward Rnum (ract (fun _ => true) f) (mract (fun _ => true) mf) fx 3 t1 = (t2, Ok r) /\
    mstd_outputs Rnum ex12m st2 = mfast_outputs Rnum fx t2 /\
    mstd_outputs Rnum ex12m st2 = mtopo ex12m f mf ex12m_dp [a; b].
Proof.
  intros f mf a b.
  assert (HN : nnodes (m_net ex12m) = 6) by reflexivity.
  assert (Hin : forall p, nd_in (node_at (m_net ex12m) p) =
                          match p with
                          | 2 => [mkLink 0 2%R false] | 3 => [mkLink 1 1%R false] | 5 => [mkLink 4 1.5%R false]
                          | _ => [] end).
  { intros p. destruct p as [|[|[|[|[|[|[|p]]]]]]]; reflexivity. }
  assert (Hrole : forall p, role_at (m_net ex12m) p = match p with 0 | 1 => Input | 5 => Output | _ => Hidden end).
  { intros p. destruct p as [|[|[|[|[|[|[|p]]]]]]]; reflexivity. }
  assert (Hc : forall c, In c (m_ctrl ex12m) -> c = mkCnode 21 [2; 3] [4]) by (intros c [<-|[]]; reflexivity).
  apply (C12_mod_solvers_agree ex12m (fun _ => true) f (fun _ => true) mf ex12m_dp).
  - reflexivity.
  - repeat constructor; simpl; tauto.
  - intros o. rewrite HN, Hrole. simpl. split.
    + intros [<-|[]]. split; [lia|reflexivity].
    + intros [Ho Hr]. destruct o as [|[|[|[|[|[|o]]]]]]; simpl in *; try discriminate; try lia; auto.
  - reflexivity.
  - intros p l Hp Hl. rewrite Hin in Hl. destruct p as [|[|[|[|[|[|p]]]]]]; simpl in Hl; try tauto;
      repeat (destruct Hl as [<-|Hl]; [reflexivity|]); destruct Hl.
  - intros c H. rewrite (Hc c H). reflexivity.
  - intros c H. rewrite (Hc c H). reflexivity.
  - intros c i H Hi. rewrite (Hc c H) in Hi. simpl in Hi. destruct Hi as [<-|[<-|[]]]; reflexivity.
  - repeat constructor; simpl; tauto.
  - simpl. split; [|exact I]. intros i [<-|[<-|[]]]; simpl; intros [E|[]]; discriminate.
  - intros p Hp Hn Hm. rewrite Hin. unfold neuronb in Hn. rewrite Hrole in Hn. rewrite HN in Hp.
    destruct p as [|[|[|[|[|[|p]]]]]]; simpl in *; try discriminate; try lia; try tauto.
  - intros p l Hp Hn Hm Hl. rewrite Hin in Hl. unfold neuronb in Hn. rewrite Hrole in Hn. rewrite HN in Hp.
    destruct p as [|[|[|[|[|[|p]]]]]]; simpl in *; try discriminate; try lia; try tauto;
      destruct Hl as [<-|[]]; simpl; lia.
  - intros c H. rewrite (Hc c H). simpl. split; [lia|]. intros i [<-|[<-|[]]]; simpl; lia.
  - reflexivity.
  - reflexivity.
  - reflexivity.
  - lia.
  - intros o [<-|[]]. simpl. lia.
  - intros c i H Hi. rewrite (Hc c H) in Hi. rewrite (Hc c H). simpl in Hi. destruct Hi as [<-|[<-|[]]]; simpl; lia.
Qed.

(* ---- the same on the executable binary64 instance, and the case outside the premises: a module fed by sensors ---- *)
Definition ex12mf : mnet float :=
  mkMnet (mkNet [mkNode Input 17 []; mkNode Input 17 []; mkNode Bias 17 [];
                 mkNode Hidden 14 [mkLink 0 2%float false; mkLink 2 0.5%float false];
                 mkNode Hidden 14 [mkLink 1 1%float false; mkLink 2 1%float false];
                 mkNode Hidden 17 []; mkNode Hidden 17 [];
                 mkNode Output 14 [mkLink 5 1.5%float false; mkLink 6 1%float false]]
                [0; 1; 2] [7])
         [mkCnode 21 [3; 4] [5]; mkCnode 22 [5; 3] [6]].

Example C12_mod_example_float :
  exists fx, fast_of_net_mod F64num ex12mf = Ok fx /\
    map snd (mstd_trace F64num (C12Cases.fact []) fmact ex12mf (mstd_init F64num ex12mf) [OLoad [2%float; 3%float]; OForward 3])
      = [[0%float]; [45%float]] /\
    map snd (mfast_trace F64num (C12Cases.fact []) fmact fx (mfast_init F64num fx) [OLoad [2%float; 3%float]; OForward 3])
      = [[0%float]; [45%float]].
Proof. eexists. split; [vm_compute; reflexivity|]. vm_compute. split; reflexivity. Qed.

(* FINDING (confirmed on the real code, harness family "sensor-input"): inputs 0, 1; MULTIPLY (0, 1) -> relay 2;
   output 3 <- 2.  Network: 3 * 5 = 15.  Fast solver: 0, for every number of steps: its module loop reads
   neuronSignalsBeingProcessed, which holds nothing for sensor indices. *)
Definition ex12m_sensor : mnet float :=
  mkMnet (mkNet [mkNode Input 17 []; mkNode Input 17 []; mkNode Hidden 17 []; mkNode Output 14 [mkLink 2 1%float false]]
                [0; 1] [3])
         [mkCnode 21 [0; 1] [2]].

Example C12_mod_example_sensor_input :
  exists fx, fast_of_net_mod F64num ex12m_sensor = Ok fx /\
    map snd (mstd_trace F64num (C12Cases.fact []) fmact ex12m_sensor (mstd_init F64num ex12m_sensor)
               [OLoad [3%float; 5%float]; OForward 3; OForward 5])
      = [[0%float]; [15%float]; [15%float]] /\
    map snd (mfast_trace F64num (C12Cases.fact []) fmact fx (mfast_init F64num fx) [OLoad [3%float; 5%float]; OForward 3; OForward 5])
      = [[0%float]; [0%float]; [0%float]].
Proof. eexists. split; [vm_compute; reflexivity|]. vm_compute. split; reflexivity. Qed.
