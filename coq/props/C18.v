(* C18 -- activation functions match their definitions, ranges and names.
   Property theorems only; the proofs live in proofs/Act*.v, the model in model/Act.v, and the
   registration table in gen/ActRegistry.v is re-extracted from neat/math/activations.go on every run.

   Vocabulary: [node_activators] is the factory built by replaying the extracted Register calls;
   [run L c] evaluates an activation whose calls into Go's math library are answered by L;
   [FR x] is the real value of a finite binary64 float, [rnd] is rounding to nearest even in binary64;
   [*_R] are the documented closed forms over the reals. *)
From Coq Require Import ZArith List String Reals Floats.
From NeatModel Require Import Res F64 ActRegistry Act.
From NeatModel Require Import ActRegistrySpec ActReal ActFloatBase ActFloat ActLibm ActModule ActSummary.
Import ListNotations.
Open Scope Z_scope.

(* ============================================================================================ *)
(* 1. Names and type codes                                                                      *)
(* ============================================================================================ *)

Theorem C18_names_nodup : NoDup (map snd (act_codes ++ act_module_codes)).
Proof. exact names_nodup. Qed.
Print Assumptions C18_names_nodup.

Theorem C18_codes_nodup : NoDup (map fst (act_codes ++ act_module_codes)).
Proof. exact codes_nodup. Qed.
Print Assumptions C18_codes_nodup.

(* name_of (type_of n) = n, for every string n that the factory knows *)
Theorem C18_name_of_type_of : forall (n : string) (c : Z),
    activation_type_from_name node_activators n = Ok c ->
    activation_name_from_type node_activators c = Ok n.
Proof. exact name_of_type_of. Qed.
Print Assumptions C18_name_of_type_of.

(* type_of (name_of c) = c, for every integer c that the factory knows *)
Theorem C18_type_of_name_of : forall (c : Z) (n : string),
    activation_name_from_type node_activators c = Ok n ->
    activation_type_from_name node_activators n = Ok c.
Proof. exact type_of_name_of. Qed.
Print Assumptions C18_type_of_name_of.

(* every registered code has a (registered) name, every registered name a (registered) code, codes are bytes *)
Theorem C18_registered_are_found :
  (forall c, In c (map fst (act_codes ++ act_module_codes)) ->
     0 <= c < 256 /\
     exists n, activation_name_from_type node_activators c = Ok n /\ In n (map snd (act_codes ++ act_module_codes))) /\
  (forall n, In n (map snd (act_codes ++ act_module_codes)) ->
     exists c, activation_type_from_name node_activators n = Ok c /\ In c (map fst (act_codes ++ act_module_codes))).
Proof.
  split; [intros c H; split; [exact (codes_are_bytes c H) | exact (registered_code_has_name c H)]
         | exact registered_name_has_code].
Qed.
Print Assumptions C18_registered_are_found.

(* anything else is an error, from every lookup: all other integers (so all other byte codes), all other strings *)
Theorem C18_unknown_is_error :
  (forall c, ~ In c (map fst (act_codes ++ act_module_codes)) ->
     activation_name_from_type node_activators c = GoErr err_unsupported_type /\
     (forall x, activate_by_type node_activators x c = GoErr err_unknown_activation_type) /\
     (forall l, activate_module_by_type node_activators l c = GoErr err_unknown_module_type)) /\
  (forall n, ~ In n (map snd (act_codes ++ act_module_codes)) ->
     activation_type_from_name node_activators n = GoErr err_unsupported_name).
Proof. split; [exact unknown_code_errors | exact unknown_name_errors]. Qed.
Print Assumptions C18_unknown_is_error.

(* scalar and module tables are disjoint, and each kind of type is refused by the other lookup *)
Theorem C18_scalar_module_disjoint :
  (forall c, In c (map fst act_codes) -> In c (map fst act_module_codes) -> False) /\
  (forall c x l, In c (map fst act_codes) ->
     is_ok (activate_by_type node_activators x c) = true /\
     activate_module_by_type node_activators l c = GoErr err_unknown_module_type) /\
  (forall c x l, In c (map fst act_module_codes) ->
     is_ok (activate_module_by_type node_activators l c) = true /\
     activate_by_type node_activators x c = GoErr err_unknown_activation_type).
Proof. split; [exact scalar_module_disjoint | split; [exact scalar_code_kind | exact module_code_kind]]. Qed.
Print Assumptions C18_scalar_module_disjoint.

(* the generated binding and name tables are the expected ones: each type code runs its own function
   and carries the identifier of its own constant (swapping two registrations breaks this) *)
Theorem C18_bindings_are_the_expected_ones :
  (forall x, map (activate_by_type node_activators x) [1; 2; 3; 4; 5; 6; 7; 8; 9; 10; 11; 12; 13; 14; 15; 16; 17; 18; 19; 20] =
     [Ok (plainSigmoid x); Ok (reducedSigmoid x); Ok (bipolarSigmoid x); Ok (steepenedSigmoid x);
      Ok (approximationSigmoid x); Ok (approximationSteepenedSigmoid x); Ok (inverseAbsoluteSigmoid x);
      Ok (leftShiftedSigmoid x); Ok (leftShiftedSteepenedSigmoid x); Ok (rightShiftedSteepenedSigmoid x);
      Ok (hyperbolicTangent x); Ok (bipolarGaussian x); Ok (gaussian x); Ok (linear x); Ok (absoluteLinear x);
      Ok (clippedLinear x); Ok (nullFunctor x); Ok (signFunction x); Ok (sineFunction x); Ok (stepFunction x)]) /\
  (forall l, map (activate_module_by_type node_activators l) [21; 22; 23] =
     [Ok (multiplyModule l); Ok (maxModule l); Ok (minModule l)]) /\
  map (activation_name_from_type node_activators) [1; 2; 3; 4; 5; 6; 7; 8; 9; 10; 11; 12; 13; 14; 15; 16; 17; 18; 19; 20; 21; 22; 23] =
     [Ok "SigmoidPlainActivation"; Ok "SigmoidReducedActivation"; Ok "SigmoidBipolarActivation";
      Ok "SigmoidSteepenedActivation"; Ok "SigmoidApproximationActivation";
      Ok "SigmoidSteepenedApproximationActivation"; Ok "SigmoidInverseAbsoluteActivation";
      Ok "SigmoidLeftShiftedActivation"; Ok "SigmoidLeftShiftedSteepenedActivation";
      Ok "SigmoidRightShiftedSteepenedActivation"; Ok "TanhActivation"; Ok "GaussianBipolarActivation";
      Ok "GaussianActivation"; Ok "LinearActivation"; Ok "LinearAbsActivation"; Ok "LinearClippedActivation";
      Ok "NullActivation"; Ok "SignActivation"; Ok "SineActivation"; Ok "StepActivation";
      Ok "MultiplyModuleActivation"; Ok "MaxModuleActivation"; Ok "MinModuleActivation"]%string /\
  (forall c, map_get Z.eqb (fa_activators node_activators) c = map_get Z.eqb expected_bindings c) /\
  (forall c, map_get Z.eqb (fa_module_activators node_activators) c = map_get Z.eqb expected_module_bindings c) /\
  (forall c, map_get Z.eqb (fa_forward node_activators) c = map_get Z.eqb expected_names c).
Proof.
  split; [intros x; cbn [map]; rewrite !activate_by_type_spec; reflexivity|].
  split; [intros l; cbn [map]; rewrite !activate_module_by_type_spec; reflexivity|].
  split; [vm_compute; reflexivity|].
  split; [exact bindings_expected | split; [exact module_bindings_expected | exact names_expected]].
Qed.
Print Assumptions C18_bindings_are_the_expected_ones.

(* neat/network/common.go: neuron type names round-trip, anything else is an error *)
Theorem C18_neuron_type_names :
  (forall t, 0 <= t <= 3 -> neuron_type_by_name (neuron_type_name t) = Ok t) /\
  (forall n t, neuron_type_by_name n = Ok t -> 0 <= t <= 3 /\ neuron_type_name t = n) /\
  (forall t, ~ (0 <= t <= 3) ->
     neuron_type_name t = "UNKNOWN NEURON TYPE"%string /\
     neuron_type_by_name (neuron_type_name t) = GoErr err_unknown_neuron_name).
Proof. split; [exact neuron_name_roundtrip | split; [exact neuron_by_name_sound | exact neuron_unknown_name_errors]]. Qed.
Print Assumptions C18_neuron_type_names.

(* ============================================================================================ *)
(* 2. The documented closed forms over the reals: range and monotonicity                        *)
(* ============================================================================================ *)
Open Scope R_scope.

Theorem C18_real_sigmoid_family : forall x y : R, x <= y ->
  (0 < plainSigmoid_R x < 1 /\ plainSigmoid_R x <= plainSigmoid_R y) /\
  (0 < reducedSigmoid_R x < 1 /\ reducedSigmoid_R x <= reducedSigmoid_R y) /\
  (-1 < bipolarSigmoid_R x < 1 /\ bipolarSigmoid_R x <= bipolarSigmoid_R y) /\
  (0 < steepenedSigmoid_R x < 1 /\ steepenedSigmoid_R x <= steepenedSigmoid_R y) /\
  (0 <= approximationSigmoid_R x <= 1 /\ approximationSigmoid_R x <= approximationSigmoid_R y) /\
  (0 <= approximationSteepenedSigmoid_R x <= 1 /\ approximationSteepenedSigmoid_R x <= approximationSteepenedSigmoid_R y) /\
  (0 < inverseAbsoluteSigmoid_R x < 1 /\ inverseAbsoluteSigmoid_R x <= inverseAbsoluteSigmoid_R y) /\
  (0 < leftShiftedSigmoid_R x < 1 /\ leftShiftedSigmoid_R x <= leftShiftedSigmoid_R y) /\
  (0 < leftShiftedSteepenedSigmoid_R x < 1 /\ leftShiftedSteepenedSigmoid_R x <= leftShiftedSteepenedSigmoid_R y) /\
  (0 < rightShiftedSteepenedSigmoid_R x < 1 /\ rightShiftedSteepenedSigmoid_R x <= rightShiftedSteepenedSigmoid_R y).
Proof.
  intros x y H.
  exact (conj (conj (plainSigmoid_range x) (plainSigmoid_mono x y H))
        (conj (conj (reducedSigmoid_range x) (reducedSigmoid_mono x y H))
        (conj (conj (bipolarSigmoid_range x) (bipolarSigmoid_mono x y H))
        (conj (conj (steepenedSigmoid_range x) (steepenedSigmoid_mono x y H))
        (conj (conj (approximationSigmoid_range x) (approximationSigmoid_mono x y H))
        (conj (conj (approximationSteepenedSigmoid_range x) (approximationSteepenedSigmoid_mono x y H))
        (conj (conj (inverseAbsoluteSigmoid_range x) (inverseAbsoluteSigmoid_mono x y H))
        (conj (conj (leftShiftedSigmoid_range x) (leftShiftedSigmoid_mono x y H))
        (conj (conj (leftShiftedSteepenedSigmoid_range x) (leftShiftedSteepenedSigmoid_mono x y H))
              (conj (rightShiftedSteepenedSigmoid_range x) (rightShiftedSteepenedSigmoid_mono x y H))))))))))).
Qed.
Print Assumptions C18_real_sigmoid_family.

Theorem C18_real_other_activations : forall x y : R, x <= y ->
  (-1 < hyperbolicTangent_R x < 1 /\ hyperbolicTangent_R x <= hyperbolicTangent_R y) /\
  (-1 < bipolarGaussian_R x <= 1) /\
  (0 < gaussian_R x <= 1) /\
  (linear_R x <= linear_R y) /\
  (0 <= absoluteLinear_R x) /\
  (-1 <= clippedLinear_R x <= 1 /\ clippedLinear_R x <= clippedLinear_R y) /\
  (nullFunctor_R x = 0) /\
  (signFunction_R x = -1 \/ signFunction_R x = 0 \/ signFunction_R x = 1) /\
  (-1 <= sineFunction_R x <= 1) /\
  ((stepFunction_R x = 0 \/ stepFunction_R x = 1) /\ stepFunction_R x <= stepFunction_R y).
Proof.
  intros x y H.
  exact (conj (conj (hyperbolicTangent_range x) (hyperbolicTangent_mono x y H))
        (conj (bipolarGaussian_range x) (conj (gaussian_range x) (conj (linear_mono x y H)
        (conj (absoluteLinear_range x) (conj (conj (clippedLinear_range x) (clippedLinear_mono x y H))
        (conj (nullFunctor_value x) (conj (signFunction_values x) (conj (sineFunction_range x)
              (conj (stepFunction_values x) (stepFunction_mono x y H))))))))))).
Qed.
Print Assumptions C18_real_other_activations.

(* ============================================================================================ *)
(* 3. Binary64 level, activations that do not call the math library                              *)
(*    (L is irrelevant for them; the statements hold for every L)                                *)
(* ============================================================================================ *)

(* linear, abs, null, clipped linear, sign, step: finite for finite input, exactly the real definition *)
Theorem C18_float_exact_activations : forall (L : libm_fn -> float -> float -> float) (x : float),
    is_finite x = true ->
    run L (linear x) = x /\
    (is_finite (run L (absoluteLinear x)) = true /\ FR (run L (absoluteLinear x)) = absoluteLinear_R (FR x)
       /\ 0 <= FR (run L (absoluteLinear x))) /\
    run L (nullFunctor x) = 0%float /\
    (is_finite (run L (clippedLinear x)) = true /\ FR (run L (clippedLinear x)) = clippedLinear_R (FR x)
       /\ -1 <= FR (run L (clippedLinear x)) <= 1) /\
    (is_finite (run L (signFunction x)) = true /\ FR (run L (signFunction x)) = signFunction_R (FR x)) /\
    (is_finite (run L (stepFunction x)) = true /\ FR (run L (stepFunction x)) = stepFunction_R (FR x)
       /\ (run L (stepFunction x) = 0%float \/ run L (stepFunction x) = 1%float)).
Proof.
  intros L x H.
  exact (conj (linear_float L x) (conj (absoluteLinear_float L x H) (conj (nullFunctor_float L x)
        (conj (conj (proj1 (clippedLinear_float L x H)) (conj (proj2 (clippedLinear_float L x H)) (clippedLinear_float_range L x H)))
        (conj (signFunction_float L x H)
              (conj (proj1 (stepFunction_float L x H)) (conj (proj2 (stepFunction_float L x H)) (stepFunction_float_values L x)))))))).
Qed.
Print Assumptions C18_float_exact_activations.

(* the two polynomial sigmoid approximations: finite, in [0,1], equal to the definition with every
   operation rounded to nearest even -- for EVERY finite input *)
Theorem C18_float_polynomial_sigmoids : forall (L : libm_fn -> float -> float -> float) (x : float),
    is_finite x = true ->
    (is_finite (run L (approximationSigmoid x)) = true /\
     FR (run L (approximationSigmoid x)) =
       (let X := FR x in
        if Rlt_dec X (- FR 4%float) then 0
        else if Rlt_dec X 0 then rnd (rnd (rnd (X + FR 4%float) * rnd (X + FR 4%float)) * FR c_one32nd)
        else if Rlt_dec X (FR 4%float) then rnd (1 - rnd (rnd (rnd (X - FR 4%float) * rnd (X - FR 4%float)) * FR c_one32nd))
        else 1) /\
     0 <= FR (run L (approximationSigmoid x)) <= 1) /\
    (is_finite (run L (approximationSteepenedSigmoid x)) = true /\
     FR (run L (approximationSteepenedSigmoid x)) =
       (let X := FR x in
        if Rlt_dec X (- FR 1%float) then 0
        else if Rlt_dec X 0 then rnd (rnd (rnd (X + FR 1%float) * rnd (X + FR 1%float)) * FR c_half)
        else if Rlt_dec X (FR 1%float) then rnd (1 - rnd (rnd (rnd (X - FR 1%float) * rnd (X - FR 1%float)) * FR c_half))
        else 1) /\
     0 <= FR (run L (approximationSteepenedSigmoid x)) <= 1) /\
    FR 4%float = 4 /\ FR 1%float = 1 /\ FR c_one32nd = 0.03125 /\ FR c_half = 0.5.
Proof.
  intros L x H.
  exact (conj (approximationSigmoid_float L x H) (conj (approximationSteepenedSigmoid_float L x H)
        (conj FR_four (conj FR_one (conj FR_32nd FR_half))))).
Qed.
Print Assumptions C18_float_polynomial_sigmoids.

(* monotone non-decreasing in the numeric order on floats (so -0 and +0 agree): linear, clipped
   linear, step and both polynomial sigmoids, for all finite inputs *)
Theorem C18_float_monotone : forall (L : libm_fn -> float -> float -> float) (x y : float),
    is_finite x = true -> is_finite y = true -> (x <=? y)%float = true ->
    (run L (linear x) <=? run L (linear y))%float = true /\
    (run L (clippedLinear x) <=? run L (clippedLinear y))%float = true /\
    (run L (stepFunction x) <=? run L (stepFunction y))%float = true /\
    (run L (approximationSigmoid x) <=? run L (approximationSigmoid y))%float = true /\
    (run L (approximationSteepenedSigmoid x) <=? run L (approximationSteepenedSigmoid y))%float = true.
Proof.
  intros L x y Hx Hy H.
  exact (conj H (conj (clippedLinear_float_mono L x y Hx Hy H) (conj (stepFunction_float_mono L x y Hx Hy H)
        (conj (approximationSigmoid_float_mono L x y Hx Hy H) (approximationSteepenedSigmoid_float_mono L x y Hx Hy H))))).
Qed.
Print Assumptions C18_float_monotone.

(* inverse-abs sigmoid: finite, in [0,1], the definition rounded operation by operation, for |x| <= 1e300 ... *)
Theorem C18_float_inverse_abs_sigmoid : forall (L : libm_fn -> float -> float -> float) (x : float),
    (abs x <=? c_1e300)%float = true ->
    is_finite (run L (inverseAbsoluteSigmoid x)) = true /\
    FR (run L (inverseAbsoluteSigmoid x)) = rnd (0.5 + rnd (rnd (FR x / rnd (1 + Rabs (FR x))) * 0.5)) /\
    0 <= FR (run L (inverseAbsoluteSigmoid x)) <= 1.
Proof. exact inverseAbsoluteSigmoid_float. Qed.
Print Assumptions C18_float_inverse_abs_sigmoid.

(* ... but NOT monotone in binary64 (known finding invabs-sigmoid-1ulp-monotonicity): f(2^53) = 1 > f(2^53+2) *)
Theorem C18_invabs_float_monotone_refuted :
  exists x y : float, (abs x <=? c_1e300)%float = true /\ (abs y <=? c_1e300)%float = true /\ (x <? y)%float = true /\
    (run (fun _ _ _ => nan) (inverseAbsoluteSigmoid y) <? run (fun _ _ _ => nan) (inverseAbsoluteSigmoid x))%float = true.
Proof. exact invabs_float_monotone_refuted. Qed.
Print Assumptions C18_invabs_float_monotone_refuted.

(* ============================================================================================ *)
(* 4. Binary64 level, all twenty scalar activations, relative to Go's math library               *)
(* ============================================================================================ *)

(* For every interpretation L of math.Exp/Tanh/Sin/Pow that is NaN-free, sign/range-correct and weakly
   monotone, every registered scalar activation returns, for every |x| <= 1e300, a finite value inside
   its documented range, and every member of the monotone family EXCEPT the inverse-abs sigmoid (code 7)
   is monotonically non-decreasing.  Partial: "matches the closed form" is proved only for the libm-free
   functions (section 3); the float-level monotonicity of code 7 is false (section 3). *)
Theorem C18_scalar_activations_partial : forall L : libm_fn -> float -> float -> float,
    (forall a, is_nan a = false -> (0 <=? L LExp a 0)%float = true) ->
    (forall a b, (a <=? b)%float = true -> (L LExp a 0 <=? L LExp b 0)%float = true) ->
    (forall a, (a <=? 0)%float = true -> (L LExp a 0 <=? 1)%float = true) ->
    (forall a, is_nan a = false -> (-1 <=? L LTanh a 0)%float = true /\ (L LTanh a 0 <=? 1)%float = true) ->
    (forall a b, (a <=? b)%float = true -> (L LTanh a 0 <=? L LTanh b 0)%float = true) ->
    (forall a, is_finite a = true -> (-1 <=? L LSin a 0)%float = true /\ (L LSin a 0 <=? 1)%float = true) ->
    (forall a, is_nan a = false -> (0 <=? L LPow a 2)%float = true) ->
    forall (c : Z) (f : float -> comp),
      (forall x, activate_by_type node_activators x c = Ok (f x)) ->
      (forall x, (abs x <=? c_1e300)%float = true ->
         is_finite (run L (f x)) = true /\
         match doc_lo c with Some lo => lo <= FR (run L (f x)) | None => True end /\
         match doc_hi c with Some hi => FR (run L (f x)) <= hi | None => True end) /\
      (doc_monotone c = true -> c <> 7%Z ->
       forall x y, (abs x <=? c_1e300)%float = true -> (abs y <=? c_1e300)%float = true ->
         (x <=? y)%float = true -> (run L (f x) <=? run L (f y))%float = true).
Proof.
  intros L H1 H2 H3 H4 H5 H6 H7 c f Hf.
  assert (S : exists g, scalar_of_code c = Some g /\ forall x, g x = f x).
  { pose proof (Hf 0%float) as E. rewrite activate_by_type_spec in E.
    destruct (scalar_of_code c) as [g|] eqn:G; [|discriminate].
    exists g. split; [reflexivity|]. intros x. pose proof (Hf x) as Ex. rewrite activate_by_type_spec, G in Ex. now injection Ex. }
  destruct S as (g & G & Eg).
  destruct (scalar_partial L (conj H1 (conj H2 (conj H3 (conj H4 (conj H5 (conj H6 H7)))))) c g G) as [R M].
  split.
  - intros x Hx. rewrite <- Eg. exact (R x Hx).
  - intros Dm N x y Hx Hy Hxy. rewrite <- !Eg. exact (M Dm N x y Hx Hy Hxy).
Qed.
Print Assumptions C18_scalar_activations_partial.

(* the documented ranges and the monotone family used above, spelled out *)
Theorem C18_documented_tables :
  map doc_lo [1; 2; 3; 4; 5; 6; 7; 8; 9; 10; 11; 12; 13; 14; 15; 16; 17; 18; 19; 20]%Z =
    [Some 0; Some 0; Some (-1); Some 0; Some 0; Some 0; Some 0; Some 0; Some 0; Some 0; Some (-1); Some (-1); Some 0;
     None; Some 0; Some (-1); Some 0; Some (-1); Some (-1); Some 0] /\
  map doc_hi [1; 2; 3; 4; 5; 6; 7; 8; 9; 10; 11; 12; 13; 14; 15; 16; 17; 18; 19; 20]%Z =
    [Some 1; Some 1; Some 1; Some 1; Some 1; Some 1; Some 1; Some 1; Some 1; Some 1; Some 1; Some 1; Some 1;
     None; None; Some 1; Some 0; Some 1; Some 1; Some 1] /\
  map doc_monotone [1; 2; 3; 4; 5; 6; 7; 8; 9; 10; 11; 12; 13; 14; 15; 16; 17; 18; 19; 20]%Z =
    [true; true; true; true; true; true; true; true; true; true; true; false; false; true; false; true; false; false; false; true].
Proof. repeat split. Qed.
Print Assumptions C18_documented_tables.

(* The full float-level statement of the property (finite, in range, and monotone for the whole
   monotone family including code 7), relative to the same library hypotheses ... *)
Definition C18_full : Prop :=
  forall L : libm_fn -> float -> float -> float,
    (forall a, is_nan a = false -> (0 <=? L LExp a 0)%float = true) /\
    (forall a b, (a <=? b)%float = true -> (L LExp a 0 <=? L LExp b 0)%float = true) /\
    (forall a, (a <=? 0)%float = true -> (L LExp a 0 <=? 1)%float = true) /\
    (forall a, is_nan a = false -> (-1 <=? L LTanh a 0)%float = true /\ (L LTanh a 0 <=? 1)%float = true) /\
    (forall a b, (a <=? b)%float = true -> (L LTanh a 0 <=? L LTanh b 0)%float = true) /\
    (forall a, is_finite a = true -> (-1 <=? L LSin a 0)%float = true /\ (L LSin a 0 <=? 1)%float = true) /\
    (forall a, is_nan a = false -> (0 <=? L LPow a 2)%float = true) ->
    forall (c : Z) (f : float -> comp), scalar_of_code c = Some f ->
      (forall x, (abs x <=? c_1e300)%float = true ->
         is_finite (run L (f x)) = true /\
         match doc_lo c with Some lo => lo <= FR (run L (f x)) | None => True end /\
         match doc_hi c with Some hi => FR (run L (f x)) <= hi | None => True end) /\
      (doc_monotone c = true ->
       forall x y, (abs x <=? c_1e300)%float = true -> (abs y <=? c_1e300)%float = true ->
         (x <=? y)%float = true -> (run L (f x) <=? run L (f y))%float = true).

(* ... is false of the code as it is: the hypotheses are satisfiable and the inverse-abs sigmoid breaks
   the monotonicity clause by one ulp (this is the known finding, not repaired) *)
Theorem C18_full_refuted : ~ C18_full.
Proof. exact scalar_full_refuted. Qed.
Print Assumptions C18_full_refuted.

(* ============================================================================================ *)
(* 5. Module activations                                                                         *)
(* ============================================================================================ *)

(* multiply: the left-to-right binary64 product; for a non-empty vector it starts from the first entry *)
Theorem C18_multiply_module : forall (x : float) (l : list float),
    multiplyModule (x :: l) = [fold_left PrimFloat.mul l x] /\
    multiplyModule (x :: l) = [fold_left PrimFloat.mul (x :: l) 1%float].
Proof. intros x l. exact (conj (multiplyModule_nonempty x l) (multiplyModule_fold (x :: l))). Qed.
Print Assumptions C18_multiply_module.

(* max / min of a non-empty vector of finite floats: one output, an element of the input, bounding all of it *)
Theorem C18_max_min_modules : forall (x : float) (l : list float),
    (forall v, In v (x :: l) -> is_finite v = true) ->
    (exists r, maxModule (x :: l) = [r] /\ In r (x :: l) /\ forall v, In v (x :: l) -> (v <=? r)%float = true) /\
    (exists r, minModule (x :: l) = [r] /\ In r (x :: l) /\ forall v, In v (x :: l) -> (r <=? v)%float = true).
Proof. intros x l H. exact (conj (maxModule_spec x l H) (minModule_spec x l H)). Qed.
Print Assumptions C18_max_min_modules.

(* ============================================================================================ *)
(* Non-vacuity                                                                                   *)
(* ============================================================================================ *)

(* the registry is populated and the lookups do return values and errors *)
Example C18_example_registry :
  activation_type_from_name node_activators "SigmoidSteepenedActivation" = Ok 4%Z /\
  activation_name_from_type node_activators 22 = Ok "MaxModuleActivation"%string /\
  activation_name_from_type node_activators 0 = GoErr err_unsupported_type /\
  activation_type_from_name node_activators "sigmoidsteepenedactivation" = GoErr err_unsupported_name /\
  length (act_codes ++ act_module_codes) = 23%nat.
Proof. vm_compute. repeat split. Qed.

(* the library hypotheses of section 4 are satisfiable, and concrete values of the float functions *)
Example C18_example_floats :
  libm_ok trivial_libm /\
  run trivial_libm (approximationSigmoid (-0x1.8p+1)) = 0x1p-5%float /\
  run trivial_libm (approximationSteepenedSigmoid 0x1p-1) = 0x1.cp-1%float /\
  run trivial_libm (stepFunction (-0)) = 1%float /\
  run trivial_libm (clippedLinear 0x1.0000000000001p+0) = 1%float /\
  run trivial_libm (plainSigmoid 0x1p+0) = 0x1p-1%float /\
  maxModule [(-0x1.158e460913dp+63)%float; (-0x1.158e460913dp+64)%float] = [(-0x1.158e460913dp+63)%float] /\
  minModule [3%float; (-0)%float; 0%float] = [(-0)%float] /\
  multiplyModule [3%float; 0x1p-1%float; 4%float] = [6%float].
Proof. split; [exact trivial_libm_ok|vm_compute; repeat split]. Qed.

(* ============================================================================================ *)
(* ==== added by agent "actbodies" (C18: bodies tied to the source by translation) ============= *)
(* ============================================================================================ *)
(* 6. The model functions are the translated source                                              *)
(*    gen/ActBodies.v is regenerated on every run from the BODIES of the functions that the      *)
(*    Register/RegisterModule calls of neat/math/activations.go bind ([gen_<GoName>], calls of   *)
(*    math.Exp/Tanh/Sin/Pow answered by the oracle L of [run]).  Each hand-written model function *)
(*    of model/Act.v -- the subject of every theorem above -- equals the translated body, for     *)
(*    every interpretation of the math library and every input (NaN, infinities, -0 included):    *)
(*    by name, and by type code through the factory.  Editing a body in the source breaks this.   *)
(* ============================================================================================ *)
From NeatModel Require Import ActBodies ActBodiesAgree.

Theorem C18_model_is_the_translated_source :
  (forall (L : libm_fn -> float -> float -> float) (x : float),
     gen_plainSigmoid L x = run L (plainSigmoid x) /\
     gen_reducedSigmoid L x = run L (reducedSigmoid x) /\
     gen_bipolarSigmoid L x = run L (bipolarSigmoid x) /\
     gen_steepenedSigmoid L x = run L (steepenedSigmoid x) /\
     gen_approximationSigmoid L x = run L (approximationSigmoid x) /\
     gen_approximationSteepenedSigmoid L x = run L (approximationSteepenedSigmoid x) /\
     gen_inverseAbsoluteSigmoid L x = run L (inverseAbsoluteSigmoid x) /\
     gen_leftShiftedSigmoid L x = run L (leftShiftedSigmoid x) /\
     gen_leftShiftedSteepenedSigmoid L x = run L (leftShiftedSteepenedSigmoid x) /\
     gen_rightShiftedSteepenedSigmoid L x = run L (rightShiftedSteepenedSigmoid x) /\
     gen_hyperbolicTangent L x = run L (hyperbolicTangent x) /\
     gen_bipolarGaussian L x = run L (bipolarGaussian x) /\
     gen_gaussian L x = run L (gaussian x) /\
     gen_linear L x = run L (linear x) /\
     gen_absoluteLinear L x = run L (absoluteLinear x) /\
     gen_clippedLinear L x = run L (clippedLinear x) /\
     gen_nullFunctor L x = run L (nullFunctor x) /\
     gen_signFunction L x = run L (signFunction x) /\
     gen_sineFunction L x = run L (sineFunction x) /\
     gen_stepFunction L x = run L (stepFunction x)) /\
  (forall (L : libm_fn -> float -> float -> float) (xs : list float),
     gen_multiplyModule L xs = multiplyModule xs /\
     gen_maxModule L xs = maxModule xs /\
     gen_minModule L xs = minModule xs) /\
  (* the generated tables hold one translated body per registered type code ... *)
  map fst gen_scalar_table = map fst act_bindings /\
  map fst gen_module_table = map fst act_module_bindings /\
  (* ... and what the factory runs for a code is the body translated for that code *)
  (forall (c : Z) (g : (libm_fn -> float -> float -> float) -> float -> float),
     In (c, g) gen_scalar_table ->
     exists f : float -> comp,
       (forall x, activate_by_type node_activators x c = Ok (f x)) /\
       (forall L x, g L x = run L (f x))) /\
  (forall (c : Z) (g : (libm_fn -> float -> float -> float) -> list float -> list float),
     In (c, g) gen_module_table ->
     forall L xs, activate_module_by_type node_activators xs c = Ok (g L xs)).
Proof.
  exact (conj scalar_bodies_agree (conj module_bodies_agree
        (conj (proj1 gen_tables_cover_registry) (conj (proj2 gen_tables_cover_registry)
        (conj scalar_table_agrees module_table_agrees))))).
Qed.
Print Assumptions C18_model_is_the_translated_source.

(* non-vacuity: the tables are populated and the translated bodies compute *)
Example C18_example_translated_bodies :
  length gen_scalar_table = 20%nat /\ length gen_module_table = 3%nat /\
  gen_approximationSigmoid trivial_libm (-0x1.8p+1) = 0x1p-5%float /\
  gen_plainSigmoid trivial_libm 0x1p+0 = 0x1p-1%float /\
  gen_signFunction trivial_libm (-0x1p-1074) = (-1)%float /\
  gen_maxModule trivial_libm [(-0x1.158e460913dp+64)%float] = [(-0x1.158e460913dp+64)%float] /\
  gen_minModule trivial_libm [] = [0x1.fffffffffffffp+1023%float].
Proof. vm_compute. repeat split. Qed.
