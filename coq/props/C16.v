(* C16 -- the parallel executor is race-free and preserves the population guarantees.
   Property theorems only; proofs live in proofs/LocksetSound.v, LocksetTable.v, LocksetExample.v, ParStep.v.
   Part I  : soundness of the lockset discipline in the trace model (all well-formed traces).
   Part II : the per-codebase obligation on gen/LockTable.v (regenerated from the source on every run).
   Part III: the innovation environment under every interleaving of the species goroutines. *)
From Coq Require Import List String.
From NeatModel Require Import Res GoRand Genome Options Population WF Lockset LocksetSound LocksetTable LocksetExample ParStep LockTable.
Import ListNotations.

(* ======================= Part I: lockset soundness ======================= *)

(* A trace with well-formed locks and the executor's fork/join shape (goroutine [main] forks every
   other goroutine at or after position lo and joins it at or before position hi), in which every
   memory location obeys the lockset discipline inside lo..hi -- all accesses atomic, or no writes,
   or one mutex held at every access, or a single accessing goroutine -- has no data race. *)
Theorem C16_lockset_sound : forall (tr : trace) (main : tid) (lo hi : nat),
    wf_locks tr ->
    fork_join tr main lo hi ->
    (forall x : loc,
        (forall i e, region lo hi i -> at_pos tr i e -> accesses_loc (act e) x -> atomic_op (act e)) \/
        (forall i e, region lo hi i -> at_pos tr i e -> accesses_loc (act e) x -> ~ writes_loc (act e) x) \/
        (exists m, forall i e, region lo hi i -> at_pos tr i e -> accesses_loc (act e) x -> holds tr i (thr e) m) \/
        (exists t, forall i e, region lo hi i -> at_pos tr i e -> accesses_loc (act e) x -> thr e = t)) ->
    forall i j, ~ race tr i j.
Proof. exact lockset_sound. Qed.
Print Assumptions C16_lockset_sound.

(* the same for an arbitrary set of positions (no fork/join shape needed for races inside the set) *)
Theorem C16_lockset_sound_on : forall (tr : trace) (P : nat -> Prop),
    wf_locks tr -> (forall x, disciplined tr P x) ->
    forall i j, P i -> P j -> ~ race tr i j.
Proof. exact lockset_sound_on. Qed.
Print Assumptions C16_lockset_sound_on.

(* non-vacuity: a concrete two-species turnover satisfies the hypotheses (checked by computation
   through the verified boolean counterparts) and a concrete trace of the shape of defect D9 has a race *)
Example C16_example_trace_race_free : race_free ex_trace.
Proof. exact ex_trace_race_free. Qed.
Example C16_example_racy_trace : race racy_trace 3 4.
Proof. exact racy_trace_has_race. Qed.

(* ======================= Part II: the access table of the code ======================= *)

(* Hand-written exception list.  One entry:
   Species.reproduce reads and decrements theChamp.superChampOffspring (species.go, "Reproduce super
   champion" branch).  theChamp is defined exactly once, as s.Organisms[0] of the receiver (checked
   below on the regenerated [var_defs]); the goroutine's receiver is the species it was started for,
   the spawning loop starts one goroutine per element of pop.Species, and species partition the
   organisms (C02), so the champions of two goroutines are different objects
   (LocksetTable.champions_distinct).  No other function of the region touches the field and
   interspecies mating reads only Genotype and originalFitness of a foreign champion: any other
   access to Organism.superChampOffspring in a regenerated table is NOT covered by this entry and
   makes the obligation fail. *)
Definition c16_exceptions : list exception :=
  [ mkException "Species.reproduce" "Organism" "superChampOffspring" "theChamp" ].

(* the obligation on the current source: every possibly shared field is accessed only under the
   population mutex, or only atomically, or only read, or only through an exception *)
Theorem C16_table_disciplined : table_disciplined c16_exceptions LockTable.accesses = true.
Proof. vm_compute. reflexivity. Qed.
Print Assumptions C16_table_disciplined.

(* the escape rule's side condition: no goroutine-local object is handed to another goroutine *)
Theorem C16_no_publication : LockTable.publications = [].
Proof. vm_compute. reflexivity. Qed.
Print Assumptions C16_no_publication.

(* the base variable of the exception denotes the receiver's own champion and nothing else *)
Theorem C16_exception_base_is_own_champion :
  filter (fun d => String.eqb (fst (fst d)) "Species.reproduce" && String.eqb (snd (fst d)) "theChamp")
         LockTable.var_defs
  = [("Species.reproduce", "theChamp", "s.Organisms[0]")]%string.
Proof. vm_compute. reflexivity. Qed.
Print Assumptions C16_exception_base_is_own_champion.

(* champions of different species are different organisms when species partition the organisms *)
Theorem C16_champions_distinct : forall (A : Type) (species : list (list A)) i j a b l1 l2,
    NoDup (List.concat species) -> i <> j ->
    nth_error species i = Some (a :: l1) -> nth_error species j = Some (b :: l2) -> a <> b.
Proof. exact champions_distinct. Qed.
Print Assumptions C16_champions_distinct.

(* what the table means: any trace that instantiates the table as [conforms] says (every access of
   the region is an instance of a listed row; R rows do not write; PAtomic rows are atomic
   operations; PMutex rows run with the population mutex held; PLocal and excepted rows touch
   locations no other goroutine touches) is race free.  [conforms] is the trusted reading of the
   translator's output; everything after it is proved. *)
Theorem C16_code_race_free : forall (tr : trace) (main : tid) (lo hi : nat) (mu : mutex)
                                    (site : nat -> access) (fld : loc -> string * string),
    wf_locks tr -> fork_join tr main lo hi ->
    conforms LockTable.accesses c16_exceptions tr lo hi mu site fld ->
    race_free tr.
Proof.
  intros tr main lo hi mu site fld Hwf FJ C.
  exact (table_race_free LockTable.accesses c16_exceptions tr main lo hi mu site fld C16_table_disciplined Hwf FJ C).
Qed.
Print Assumptions C16_code_race_free.

(* the general statement behind it *)
Theorem C16_table_sound : forall T xs tr lo hi mu site fld,
    table_disciplined xs T = true -> conforms T xs tr lo hi mu site fld ->
    forall x, disciplined tr (region lo hi) x.
Proof. exact table_sound. Qed.
Print Assumptions C16_table_sound.

(* the check is not vacuous: it rejects the table of the unrepaired Innovations() (D9), where the
   record is read without the mutex while StoreInnovation appends under it *)
Example C16_table_rejects_D9 :
  table_disciplined c16_exceptions
    [ mkAccess "Population.Innovations" "Population" "innovations" R PNone "p" "population.go:141";
      mkAccess "Population.StoreInnovation" "Population" "innovations" W PMutex "p" "population.go:138";
      mkAccess "Population.StoreInnovation" "Population" "innovations" R PMutex "p" "population.go:138" ] = false.
Proof. vm_compute. reflexivity. Qed.
(* ... and a foreign access to the excepted field *)
Example C16_table_rejects_foreign_champion_access :
  table_disciplined c16_exceptions
    [ mkAccess "Species.reproduce" "Organism" "superChampOffspring" W PNone "theChamp" "species.go:338";
      mkAccess "Species.reproduce" "Organism" "superChampOffspring" R PNone "dad" "species.go:440" ] = false.
Proof. vm_compute. reflexivity. Qed.

(* ======================= Part III: guarantees under interleaving ======================= *)

(* For every schedule of every pool of programs over the four shared primitives: the innovation
   numbers and node ids handed out are consecutive from the old counters -- hence pairwise distinct
   and fresh -- and the counters end exactly that much higher. *)
Theorem C16_numbers_issued_once : forall (A : Type) (c c' : ienv * list (prog A)) lbs,
    steps c lbs c' ->
    NoDup (issued lbs) /\ NoDup (issued_nodes lbs) /\
    (forall v, In v (issued lbs) -> next_innov (fst c) < v <= next_innov (fst c')) /\
    (forall v, In v (issued_nodes lbs) -> next_node (fst c) < v <= next_node (fst c')).
Proof. intros A. exact issued_distinct_fresh. Qed.
Print Assumptions C16_numbers_issued_once.

(* the record of innovations is the old record followed by the stores of the schedule in order *)
Theorem C16_records_interleave : forall (A : Type) (c c' : ienv * list (prog A)) lbs,
    steps c lbs c' -> innovs (fst c') = (innovs (fst c) ++ stores lbs)%list.
Proof. intros A. exact records_interleave. Qed.
Print Assumptions C16_records_interleave.

(* If every goroutine stores only numbers it was handed out itself, each at most once (the shape
   of the three structural mutators, ok_alloc_link / ok_alloc_node), then after ANY interleaving the
   environment extends the initial one exactly as the sequential theorems require (WF.env_extends:
   counters grew, new records carry pairwise distinct fresh numbers and fresh node ids), so
   WF.env_ok_extends keeps every number denoting one link for every genome of the old generation. *)
Theorem C16_par_env_extends_partial : forall (A : Type) e0 (ts ts' : list (prog A)) e lbs,
    Forall (ok_prog ([], [])) ts ->
    steps (e0, ts) lbs (e, ts') ->
    env_extends e0 e.
Proof. intros A. exact par_env_extends. Qed.
Print Assumptions C16_par_env_extends_partial.

(* the sequential executor (species after species) is one of the schedules, and the primitives are
   the environment operations of the sequential model *)
Theorem C16_sequential_is_a_schedule : forall (A : Type) (ps : list (prog A)) e,
    exists lbs, steps (e, ps) lbs (run_all ps e).
Proof. intros A. exact sequential_is_a_schedule. Qed.
Print Assumptions C16_sequential_is_a_schedule.

Theorem C16_primitives_are_model_primitives : forall (A : Type) (p : prog A) t e,
    denote p {| s_tape := t; s_env := e |} =
    match run_seq p e with
    | (e', inl a) => Ok (a, {| s_tape := t; s_env := e' |})
    | (_, inr c) => GoErr c
    end.
Proof. intros A. exact denote_run_seq. Qed.
Print Assumptions C16_primitives_are_model_primitives.

Example C16_example_schedule :
  exec_sched ex_sched (ex_env, [ex_thread_a; ex_thread_b]) =
  ({| innovs := [ex_link_rec 3; ex_node_rec 4 4 5]; next_innov := 5; next_node := 4 |}, [Ret 4; Ret 3])
  /\ env_extends ex_env (fst (exec_sched ex_sched (ex_env, [ex_thread_a; ex_thread_b]))).
Proof. split; [exact ex_schedule_result | exact ex_schedule_extends]. Qed.

(* The full statement of the second half of C16 (NOT proved here).  What is missing between the
   theorems above and "the population produced by the parallel turnover satisfies the C01/C02/C03
   invariants for every interleaving and every order of the species results" is that the sequential
   model's per-species reproduction, which is written directly in the state monad, factors through
   [prog]: it is the in-order execution ([run_seq]) of a program over the four primitives whose
   thread-local part owns the random tape, and that program obeys the ownership discipline.  With
   it, C16_par_env_extends_partial applies to the model's own programs and the sequential
   per-operator lemmas (stated relative to WF.env_extends) carry over to every interleaving;
   speciation and finalisation run sequentially after the join and are covered by the sequential
   theorems for every list of babies, hence for every order of the results. *)
Definition C16_full : Prop :=
  exists sp_prog : options -> Z -> list species -> list Z -> species -> list organism -> Z -> tape ->
                   prog (res (list organism * Z * list Z * tape)),
    (forall o gen sps sorted s h key t, ok_prog ([], []) (sp_prog o gen sps sorted s h key t)) /\
    (forall o gen sps sorted s h key t e,
        reproduce_species o gen sps sorted s h key {| s_tape := t; s_env := e |} =
        match run_seq (sp_prog o gen sps sorted s h key t) e with
        | (e', inl (Ok (r, t'))) => Ok (r, {| s_tape := t'; s_env := e' |})
        | (_, inl (GoErr c)) => GoErr c
        | (_, inl (GoPanic c)) => GoPanic c
        | (_, inl OutOfTape) => OutOfTape
        | (_, inl OutOfFuel) => OutOfFuel
        | (_, inl BadOracle) => BadOracle
        | (_, inr c) => GoErr c
        end).

(* ===================================================================================================
   Added by agent-c16full: C16_full is proved.      Proofs live in proofs/ParRefineA.v (the program monad,
   [Factors], ownership with postconditions), proofs/ParRefineB.v (which model functions are
   thread-local), proofs/ParRefine.v (the programs, the refinement, the discipline) and
   proofs/ParRefineEx.v (the example).
   =================================================================================================== *)
From NeatModel Require Import Mutate Mate ParRefineA ParRefine ParRefineEx.

(* The sequential model's per-species reproduction factors through [prog], and its program obeys the
   ownership discipline. *)
Theorem C16_full_holds : C16_full.
Proof. exact species_reproduction_factors. Qed.
Print Assumptions C16_full_holds.

(* The witness, explicitly.  [species_prog] (proofs/ParRefine.v) is model/Population.reproduce_species
   and everything below it that touches the environment (one_baby, the mutation cascade,
   mutateAddNode, mutateAddLink, mutateConnectSensors) rewritten construct by construct over the four
   primitives; every other function on the path runs as thread-local computation on the goroutine's
   own tape.  The model function is the in-order execution of the program ... *)
Theorem C16_species_program_refines : forall o gen sps sorted s h key t e,
    reproduce_species o gen sps sorted s h key {| s_tape := t; s_env := e |} =
    match run_seq (species_prog o gen sps sorted s h key t) e with
    | (e', inl (Ok (r, t'))) => Ok (r, {| s_tape := t'; s_env := e' |})
    | (_, inl (GoErr c)) => GoErr c
    | (_, inl (GoPanic c)) => GoPanic c
    | (_, inl OutOfTape) => OutOfTape
    | (_, inl OutOfFuel) => OutOfFuel
    | (_, inl BadOracle) => BadOracle
    | (_, inr c) => GoErr c
    end.
Proof. intros o gen sps sorted s h key t e. exact (F_reproduce_species o gen sps sorted s h key t e). Qed.
Print Assumptions C16_species_program_refines.

(* ... and the program stores only numbers it was handed out itself, each once, whatever it owned
   when it started (in particular from nothing) *)
Theorem C16_species_program_disciplined : forall o gen sps sorted s h key t own0,
    ok_prog own0 (species_prog o gen sps sorted s h key t).
Proof. intros o gen sps sorted s h key t own0. exact (species_prog_ok o gen sps sorted s h key t own0). Qed.
Print Assumptions C16_species_program_disciplined.

(* "thread-local" has content: a computation is thread-local when, whatever environment it is
   started in, it returns the same result, leaves the same tape and hands the environment back
   untouched.  The non-structural mutators, the three crossovers and the parent draws are; the
   counter operations and the read of the record are not. *)
Theorem C16_thread_local_operators : forall o g og id f1 f2 power rate gaussian tries self sorted cur t e e',
    mutate_all_nonstructural o g {| s_tape := t; s_env := e |} =
      rebase e (mutate_all_nonstructural o g {| s_tape := t; s_env := e' |}) /\
    mutate_link_weights power rate gaussian g {| s_tape := t; s_env := e |} =
      rebase e (mutate_link_weights power rate gaussian g {| s_tape := t; s_env := e' |}) /\
    mate_multipoint g og id f1 f2 {| s_tape := t; s_env := e |} =
      rebase e (mate_multipoint g og id f1 f2 {| s_tape := t; s_env := e' |}) /\
    mate_multipoint_avg g og id f1 f2 {| s_tape := t; s_env := e |} =
      rebase e (mate_multipoint_avg g og id f1 f2 {| s_tape := t; s_env := e' |}) /\
    mate_singlepoint g og id {| s_tape := t; s_env := e |} =
      rebase e (mate_singlepoint g og id {| s_tape := t; s_env := e' |}) /\
    pick_other_species tries self sorted cur {| s_tape := t; s_env := e |} =
      rebase e (pick_other_species tries self sorted cur {| s_tape := t; s_env := e' |}).
Proof.
  intros o g og id f1 f2 power rate gaussian tries self sorted cur t e e'.
  exact (conj (ParRefineB.ei_mutate_all_nonstructural o g t e e')
        (conj (ParRefineB.ei_mutate_link_weights power rate gaussian g t e e')
        (conj (ParRefineB.ei_mate_multipoint g og id f1 f2 t e e')
        (conj (ParRefineB.ei_mate_multipoint_avg g og id f1 f2 t e e')
        (conj (ParRefineB.ei_mate_singlepoint g og id t e e')
              (ParRefineB.ei_pick_other_species tries self sorted cur t e e')))))).
Qed.
Print Assumptions C16_thread_local_operators.

Theorem C16_counters_not_thread_local :
  ~ (forall t e e', e_next_innov {| s_tape := t; s_env := e |} = rebase e (e_next_innov {| s_tape := t; s_env := e' |})) /\
  ~ (forall t e e', e_innovs {| s_tape := t; s_env := e |} = rebase e (e_innovs {| s_tape := t; s_env := e' |})).
Proof. exact (conj e_next_innov_not_indep e_innovs_not_indep). Qed.
Print Assumptions C16_counters_not_thread_local.

(* The non-partial form of C16_par_env_extends_partial: for every pool whose goroutines are
   species-reproduction programs of the model (any options, species, heap, key counter and tape each)
   and EVERY schedule, complete or not, the environment reached extends the initial one; hence every
   genome that was consistent with the initial environment is consistent with the one reached
   (every number still denotes one link). *)
Theorem C16_par_env_extends : forall (ts ts' : list (prog (res (list organism * Z * list Z * tape)))) e0 e lbs,
    (forall p, In p ts -> exists o gen sps sorted s h key t, p = species_prog o gen sps sorted s h key t) ->
    steps (e0, ts) lbs (e, ts') ->
    env_extends e0 e /\ (forall g, env_ok e0 g -> env_ok e g).
Proof.
  intros ts ts' e0 e lbs Hts Hs.
  pose proof (model_pool_env_extends ts ts' e0 e lbs Hts Hs) as X.
  exact (conj X (fun g Hg => env_ok_extends e0 e g Hg X)).
Qed.
Print Assumptions C16_par_env_extends.

(* The sequential executor is one of these schedules: whenever the model's sequential [reproduce_all]
   (species after species, threading heap, key counter and tape) succeeds, the pool made of each
   species' program -- started from the heap, key counter and tape the sequential run had reached at
   that point -- has a schedule that ends in the same environment with every goroutine finished
   successfully. *)
Theorem C16_sequential_reproduce_is_a_schedule :
  forall o gen sps sorted best_id l h key babies br t e r t' e',
    reproduce_all o gen sps sorted best_id l h key babies br {| s_tape := t; s_env := e |}
    = Ok (r, {| s_tape := t'; s_env := e' |}) ->
    exists (starts : list (list organism * Z * tape)) lbs ts',
      List.length starts = List.length l /\
      steps (e, map (fun sj => species_prog o gen sps sorted (fst sj) (fst (fst (snd sj))) (snd (fst (snd sj))) (snd (snd sj)))
                    (combine l starts)) lbs (e', ts') /\
      Forall (fun p => exists x, p = Ret (Ok x)) ts' /\
      env_extends e e'.
Proof. exact sequential_reproduce_is_a_schedule. Qed.
Print Assumptions C16_sequential_reproduce_is_a_schedule.

(* non-vacuity: the first turnover of a spawned population of 16 (three species, quotas 4, 4, 8; Go's
   PRNG stream per goroutine).  Under a round-robin schedule two goroutines both split the gene 2->4,
   both miss a record for it and both allocate: two records for one structural key -- what
   parallelism gives up -- while the sequential schedule produces different records with different
   numbers.  Both schedules run every goroutine to a successful end, and both final environments
   extend the initial one by the theorem above. *)
Example C16_example_model_pool :
  (let c := exec_sched (round_robin 10 3) pex_pool in (env_summary (fst c), map finished (snd c)))
  = (([(2, 4, 4, 0, 4, 0, 0); (1, 2, 4, 2, 5, 7, 6); (1, 2, 4, 2, 6, 8, 7)], 8, 7), [1; 1; 1])
  /\
  (let c := run_all (snd pex_pool) (fst pex_pool) in (env_summary (fst c), map finished (snd c)))
  = (([(1, 2, 4, 2, 4, 5, 6); (2, 4, 4, 0, 6, 0, 0); (1, 1, 4, 1, 7, 8, 7)], 8, 7), [1; 1; 1])
  /\
  env_summary (fst pex_pool) = ([], 3, 5)
  /\
  env_extends (fst pex_pool) (fst (exec_sched (round_robin 10 3) pex_pool)) /\
  env_extends (fst pex_pool) (fst (run_all (snd pex_pool) (fst pex_pool))).
Proof.
  split; [exact pex_round_robin|]. split; [exact pex_sequential|].
  split; [vm_compute; reflexivity|]. exact pex_both_extend.
Qed.
