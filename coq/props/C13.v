(* C13 — flushing makes a network indistinguishable from a fresh one.
   Property theorems only; proofs live in proofs/FlushStd.v, proofs/FlushFast.v, proofs/FlushBuild.v.
   Any topology (recurrent links, self-loops, links into sensors): there is no hypothesis on the network.
   [std_trace] / [fast_trace] list, for every operation of a sequence, its result and ReadOutputs() after it. *)
From NeatModel Require Import Res F64 Net Fast FlushStd FlushFast FlushBuild SolverFuel C12Cases.
From Coq Require Import Floats.

(* Network: whatever operations (Load | Forward k | Recursive | Relax | Flush) were performed since construction,
   after Flush every later sequence of operations gives the results and outputs it gives on a fresh Network.
   Stated for every number structure in which 0 < 0 is false and every activation function table. *)
Theorem C13_std_flush_fresh :
  forall (F : Type) (NF : num F) (act : Z -> F -> res F),
    fltb NF (fzero NF) (fzero NF) = false ->
    forall (n : net F) (h ops : list (op F)),
      std_trace NF act n (fst (std_flush NF n (std_run NF act n (std_init NF n) h))) ops =
      std_trace NF act n (std_init NF n) ops.
Proof. exact std_flush_fresh. Qed.
Print Assumptions C13_std_flush_fresh.

(* and Flush itself reports success *)
Theorem C13_std_flush_ok :
  forall (F : Type) (NF : num F),
    fltb NF (fzero NF) (fzero NF) = false ->
    forall (n : net F) (s : sstate F), snd (std_flush NF n s) = Ok true.
Proof. exact std_flush_ok. Qed.
Print Assumptions C13_std_flush_ok.

(* the binary64 instance that the correspondence check runs against the Go code *)
Theorem C13_std_flush_fresh_float :
  forall (t : table) (n : net float) (h ops : list (op float)),
    std_trace F64num (fact t) n (fst (std_flush F64num n (std_run F64num (fact t) n (std_init F64num n) h))) ops =
    std_trace F64num (fact t) n (std_init F64num n) ops.
Proof. intros t. exact (std_flush_fresh float F64num (fact t) eq_refl). Qed.
Print Assumptions C13_std_flush_fresh_float.

(* fast solver, any connection list: same statement *)
Theorem C13_fast_flush_fresh :
  forall (F : Type) (NF : num F) (act : Z -> F -> res F) (fn : fnet F),
    (f_sensor fn <= f_total fn)%nat ->
    forall (h ops : list (op F)),
      fast_trace NF act fn (fst (fast_flush NF fn (fast_run NF act fn (fast_init NF fn) h))) ops =
      fast_trace NF act fn (fast_init NF fn) ops.
Proof. exact fast_flush_fresh. Qed.
Print Assumptions C13_fast_flush_fresh.

(* in particular for every fast solver that Network.FastNetworkSolver builds, from any network *)
Theorem C13_fast_flush_fresh_built :
  forall (F : Type) (NF : num F) (act : Z -> F -> res F) (n : net F) (fn : fnet F),
    fast_of_net NF n = Ok fn ->
    forall (h ops : list (op F)),
      fast_trace NF act fn (fst (fast_flush NF fn (fast_run NF act fn (fast_init NF fn) h))) ops =
      fast_trace NF act fn (fast_init NF fn) ops.
Proof.
  intros F NF act n fn H. exact (fast_flush_fresh F NF act fn (fast_of_net_sensor_le F NF n fn H)).
Qed.
Print Assumptions C13_fast_flush_fresh_built.

(* the observational equivalences behind the two theorems: every operation maps equivalent states to equivalent
   states with the same result (ActivationSum is ignored for the Network; for the fast solver the arrays
   activated / inActivation, lastActivation above the sensors and beingProcessed below them) *)
Theorem C13_std_step_respects :
  forall (F : Type) (NF : num F) (act : Z -> F -> res F) (n : net F) (o : op F) (s1 s2 : sstate F),
    seqv F NF s1 s2 ->
    seqv F NF (fst (std_step NF act n s1 o)) (fst (std_step NF act n s2 o)) /\
    snd (std_step NF act n s1 o) = snd (std_step NF act n s2 o).
Proof. exact std_step_respects. Qed.
Print Assumptions C13_std_step_respects.

Theorem C13_fast_step_respects :
  forall (F : Type) (NF : num F) (act : Z -> F -> res F) (fn : fnet F),
    (f_sensor fn <= f_total fn)%nat ->
    forall (o : op F) (s1 s2 : fstate F),
    feqv F NF fn s1 s2 -> flens F s1 = full_lens F fn -> flens F s2 = full_lens F fn ->
    feqv F NF fn (fst (fast_step NF act fn s1 o)) (fst (fast_step NF act fn s2 o)) /\
    snd (fast_step NF act fn s1 o) = snd (fast_step NF act fn s2 o).
Proof. exact fast_step_respects. Qed.
Print Assumptions C13_fast_step_respects.

(* the traces compared above are genuine: no operation of the models ever exhausts its recursion / loop fuel
   (the ActivateSteps loop, NNode.Depth on cyclic graphs, recursiveActivateNode on cyclic graphs) *)
Theorem C13_std_trace_no_fuel :
  forall (F : Type) (NF : num F) (act : Z -> F -> res F),
    (forall c x, act c x <> OutOfFuel) ->
    forall (n : net F) (ops : list (op F)), net_ok n = true ->
    forall s : sstate F, Forall (fun ro => fst ro <> OutOfFuel) (std_trace NF act n s ops).
Proof. exact std_trace_no_fuel. Qed.
Print Assumptions C13_std_trace_no_fuel.

Theorem C13_fast_trace_no_fuel :
  forall (F : Type) (NF : num F) (act : Z -> F -> res F),
    (forall c x, act c x <> OutOfFuel) ->
    forall (n : net F) (fn : fnet F), fast_of_net NF n = Ok fn ->
    forall h ops : list (op F),
      Forall (fun ro => fst ro <> OutOfFuel) (fast_trace NF act fn (fast_run NF act fn (fast_init NF fn) h) ops).
Proof. exact fast_built_trace_no_fuel. Qed.
Print Assumptions C13_fast_trace_no_fuel.

Theorem C13_float_activation_has_no_fuel : forall (t : table) (c : Z) (x : float), fact t c x <> OutOfFuel.
Proof. exact fact_no_fuel. Qed.
Print Assumptions C13_float_activation_has_no_fuel.

(* non-vacuity: a recurrent network (self-loop on the hidden node 2, 2-cycle 2 <-> 3, bias node 1);
   without the Flush the later outputs differ from a fresh network's, with it they coincide *)
Definition ex_net : net float :=
  mkNet [mkNode Input 17 []; mkNode Bias 17 [];
         mkNode Hidden 14 [mkLink 0%nat 0.5%float false; mkLink 2%nat 0.25%float false; mkLink 3%nat (-0.5)%float false];
         mkNode Output 16 [mkLink 2%nat 1%float false; mkLink 1%nat 0.125%float false]]
        [0%nat; 1%nat] [3%nat].
Definition ex_hist : list (op float) := [OLoad [2%float]; OForward 3; ORecursive].
Definition ex_ops : list (op float) := [OLoad [1%float]; OForward 2].

Example C13_example_flush_matters :
  list_eqb (list_eqb feqb_exact)
    (map snd (std_trace F64num (fact []) ex_net (std_run F64num (fact []) ex_net (std_init F64num ex_net) ex_hist) ex_ops))
    (map snd (std_trace F64num (fact []) ex_net (std_init F64num ex_net) ex_ops)) = false
  /\ std_trace F64num (fact []) ex_net (std_init F64num ex_net) ex_ops
     = [(Ok true, [0%float]); (Ok true, [0.625%float])].
Proof. vm_compute. split; reflexivity. Qed.

Example C13_example_fast :
  exists fn, fast_of_net F64num ex_net = Ok fn /\
    list_eqb (list_eqb feqb_exact)
      (map snd (fast_trace F64num (fact []) fn (fast_run F64num (fact []) fn (fast_init F64num fn) ex_hist) ex_ops))
      (map snd (fast_trace F64num (fact []) fn (fast_init F64num fn) ex_ops)) = false.
Proof. eexists. split; [vm_compute; reflexivity|]. vm_compute. reflexivity. Qed.
(* ================================================================================================== *)
(* agent-modules: networks WITH control nodes (modules).                                               *)
(* Models: model/NetMod.v (Network.ActivateSteps incl. the control-node loop, ActivateModule),          *)
(* model/FastMod.v (forwardStep incl. the module loop; FastNetworkSolver's translation of control nodes);*)
(* proofs: proofs/ModSpecStd.v, ModSpecFast.v, ModSpecBuild.v; correspondence: cases/ModCases.v          *)
(* (harness/c13_mod.go).  [mact] is NodeActivators.ActivateModuleByType, any table; error paths          *)
(* (unknown module type, wrong number of outgoing links, RecursiveSteps on a modular network) are        *)
(* explicit results and are covered by the statements: "same results" includes the same errors.          *)
(* ================================================================================================== *)
From NeatModel Require Import NetMod FastMod ModSpecStd ModSpecFast ModSpecBuild Act ModCases.

(* conservativity: without control nodes the extended models are the models above, operation by operation, so
   every theorem above transfers *)
Theorem C13_mod_std_conservative :
  forall (F : Type) (NF : num F) (act : Z -> F -> res F) (mact : Z -> list F -> res (list F))
         (n : net F) (ops : list (op F)),
    mstd_trace NF act mact (mkMnet n []) (mstd_init NF (mkMnet n [])) ops = std_trace NF act n (std_init NF n) ops.
Proof. exact mstd_conservative. Qed.
Print Assumptions C13_mod_std_conservative.

Theorem C13_mod_fast_conservative :
  forall (F : Type) (NF : num F) (act : Z -> F -> res F) (mact : Z -> list F -> res (list F))
         (n : net F) (fn : fnet F) (ops : list (op F)),
    fast_of_net NF n = Ok fn ->
    fast_of_net_mod NF (mkMnet n []) = Ok (mkFmnet fn []) /\
    mfast_trace NF act mact (mkFmnet fn []) (mfast_init NF (mkFmnet fn [])) ops = fast_trace NF act fn (fast_init NF fn) ops.
Proof. exact mfast_conservative. Qed.
Print Assumptions C13_mod_fast_conservative.

(* Network with control nodes, any topology, any modules: after Flush every later sequence of operations gives the
   results and outputs it gives on a fresh Network *)
Theorem C13_mod_std_flush_fresh :
  forall (F : Type) (NF : num F) (act : Z -> F -> res F) (mact : Z -> list F -> res (list F)),
    fltb NF (fzero NF) (fzero NF) = false ->
    forall (n : mnet F) (h ops : list (op F)),
      mstd_trace NF act mact n (fst (mstd_flush NF n (mstd_run NF act mact n (mstd_init NF n) h))) ops =
      mstd_trace NF act mact n (mstd_init NF n) ops.
Proof. exact mstd_flush_fresh. Qed.
Print Assumptions C13_mod_std_flush_fresh.

Theorem C13_mod_std_flush_ok :
  forall (F : Type) (NF : num F),
    fltb NF (fzero NF) (fzero NF) = false ->
    forall (n : mnet F) (st : mstate F), snd (mstd_flush NF n st) = Ok true.
Proof. exact mstd_flush_ok. Qed.
Print Assumptions C13_mod_std_flush_ok.

(* ... although Flush does not visit the control nodes: their isActive flags stay as they were (only NNode.String
   shows them; no solver operation reads them, which is why the theorem above holds) *)
Theorem C13_mod_std_flush_keeps_control_flags :
  forall (F : Type) (NF : num F) (n : mnet F) (st : mstate F), ms_con (fst (mstd_flush NF n st)) = ms_con st.
Proof. exact mstd_flush_keeps_control_flags. Qed.
Print Assumptions C13_mod_std_flush_keeps_control_flags.

Theorem C13_mod_std_flush_fresh_float :
  forall (t : table) (n : mnet float) (h ops : list (op float)),
    mstd_trace F64num (fact t) fmact n (fst (mstd_flush F64num n (mstd_run F64num (fact t) fmact n (mstd_init F64num n) h))) ops =
    mstd_trace F64num (fact t) fmact n (mstd_init F64num n) ops.
Proof. intros t. exact (mstd_flush_fresh float F64num (fact t) fmact eq_refl). Qed.
Print Assumptions C13_mod_std_flush_fresh_float.

(* fast solver with modules, ANY connections, modules and indices: Flush clears neuronSignals from biasNeuronCount on
   and the whole scratch array neuronSignalsBeingProcessed, which makes it a reset.  The only premise is
   sensorNeuronCount <= totalNeuronCount (with biasNeuronCount > totalNeuronCount the real constructor panics; with
   inputs beyond totalNeuronCount LoadSensors does).
   Before fix commit 868ebc3 Flush cleared the scratch array from biasNeuronCount on only, and this theorem needed the
   further premise "no module reads a slot below biasNeuronCount that a connection or a module writes": a module
   writing a bias node left a value there that survived Flush (C13_mod_example_bias_slot is that network). *)
Theorem C13_mod_fast_flush_fresh :
  forall (F : Type) (NF : num F) (act : Z -> F -> res F) (mact : Z -> list F -> res (list F)) (fx : fmnet F),
    (f_sensor (fx_net fx) <= f_total (fx_net fx))%nat ->
    forall (h ops : list (op F)),
      mfast_trace NF act mact fx (fst (fast_flush NF (fx_net fx) (mfast_run NF act mact fx (mfast_init NF fx) h))) ops =
      mfast_trace NF act mact fx (mfast_init NF fx) ops.
Proof. exact mfast_flush_fresh. Qed.
Print Assumptions C13_mod_fast_flush_fresh.

(* in particular for every fast solver that Network.FastNetworkSolver builds from a network with control nodes *)
Theorem C13_mod_fast_flush_fresh_built :
  forall (F : Type) (NF : num F) (act : Z -> F -> res F) (mact : Z -> list F -> res (list F)) (n : mnet F) (fx : fmnet F),
    fast_of_net_mod NF n = Ok fx ->
    forall (h ops : list (op F)),
      mfast_trace NF act mact fx (fst (fast_flush NF (fx_net fx) (mfast_run NF act mact fx (mfast_init NF fx) h))) ops =
      mfast_trace NF act mact fx (mfast_init NF fx) ops.
Proof.
  intros F NF act mact n fx H.
  exact (mfast_flush_fresh F NF act mact fx (fast_of_net_mod_sensor_le F NF n fx H)).
Qed.
Print Assumptions C13_mod_fast_flush_fresh_built.

(* the observational equivalences behind the two theorems *)
Theorem C13_mod_std_step_respects :
  forall (F : Type) (NF : num F) (act : Z -> F -> res F) (mact : Z -> list F -> res (list F)) (n : mnet F) (o : op F)
         (st1 st2 : mstate F),
    seqv F NF (ms_s st1) (ms_s st2) ->
    seqv F NF (ms_s (fst (mstd_step NF act mact n st1 o))) (ms_s (fst (mstd_step NF act mact n st2 o))) /\
    snd (mstd_step NF act mact n st1 o) = snd (mstd_step NF act mact n st2 o).
Proof. exact mstd_step_respects. Qed.
Print Assumptions C13_mod_std_step_respects.

(* non-vacuity: inputs 0 and 1, bias 2, hidden 3 and 4, a MULTIPLY module (3, 4) -> relay 5, a MAX module (5, 3) ->
   relay 6 (a module fed by a module), output 7 <- 5, 6.  Without the Flush the later outputs differ from a fresh
   network's, with it they coincide (theorems above); the values are the ones the real code returns *)
Definition exm_net : mnet float :=
  mkMnet (mkNet [mkNode Input 17 []; mkNode Input 17 []; mkNode Bias 17 [];
                 mkNode Hidden 14 [mkLink 0%nat 2%float false; mkLink 2%nat 0.5%float false];
                 mkNode Hidden 14 [mkLink 1%nat 1%float false; mkLink 2%nat 1%float false];
                 mkNode Hidden 17 []; mkNode Hidden 17 [];
                 mkNode Output 14 [mkLink 5%nat 1.5%float false; mkLink 6%nat 1%float false]]
                [0%nat; 1%nat; 2%nat] [7%nat])
         [mkCnode 21 [3%nat; 4%nat] [5%nat]; mkCnode 22 [5%nat; 3%nat] [6%nat]].
Definition exm_hist : list (op float) := [OLoad [2%float; 3%float]; OForward 3].
Definition exm_ops : list (op float) := [OLoad [1%float; 1%float]; OForward 1; OForward 1].

Example C13_mod_example_std :
  mstd_trace F64num (fact []) fmact exm_net (mstd_init F64num exm_net) exm_hist
    = [(Ok true, [0%float]); (Ok true, [45%float])]
  /\ list_eqb (list_eqb feqb_exact)
       (map snd (mstd_trace F64num (fact []) fmact exm_net (mstd_run F64num (fact []) fmact exm_net (mstd_init F64num exm_net) exm_hist) exm_ops))
       (map snd (mstd_trace F64num (fact []) fmact exm_net (mstd_init F64num exm_net) exm_ops)) = false
  /\ ms_con (fst (mstd_flush F64num exm_net (mstd_run F64num (fact []) fmact exm_net (mstd_init F64num exm_net) exm_hist))) = [true; true].
Proof. vm_compute. repeat split; reflexivity. Qed.

Example C13_mod_example_fast :
  exists fx, fast_of_net_mod F64num exm_net = Ok fx /\
    mod_static_of fx = [(21, [4%nat; 5%nat], [6%nat]); (22, [6%nat; 4%nat], [7%nat])] /\
    map snd (mfast_trace F64num (fact []) fmact fx (mfast_init F64num fx) exm_hist) = [[0%float]; [45%float]] /\
    list_eqb (list_eqb feqb_exact)
      (map snd (mfast_trace F64num (fact []) fmact fx (mfast_run F64num (fact []) fmact fx (mfast_init F64num fx) exm_hist) exm_ops))
      (map snd (mfast_trace F64num (fact []) fmact fx (mfast_init F64num fx) exm_ops)) = false.
Proof. eexists. split; [vm_compute; reflexivity|]. vm_compute. repeat split; reflexivity. Qed.

(* the network that made the former premise of C13_mod_fast_flush_fresh necessary.  Input 0, bias 1, relay 2,
   output 3 <- 2, hidden 4 <- 0; modules MULTIPLY (bias 1) -> 2 and then MULTIPLY (4) -> bias 1.  The second module
   writes slot 0 of neuronSignalsBeingProcessed (the bias neuron's), which the first module reads.  With the former
   Flush (scratch array cleared from biasNeuronCount on) the sequence Load [7]; Forward 1; Forward 1; Forward 1 returned
   0, 7, 7 after Load [7]; Forward 1; Forward 1; Flush, where a fresh solver returns 0, 0, 7 (the real solver did exactly
   that: harness/c13_mod.go, family bias-slot).  Now the flushed solver equals the fresh one, state included. *)
Definition exm_bias_slot : mnet float :=
  mkMnet (mkNet [mkNode Input 17 []; mkNode Bias 17 []; mkNode Hidden 17 [];
                 mkNode Output 14 [mkLink 2%nat 1%float false]; mkNode Hidden 14 [mkLink 0%nat 1%float false]]
                [0%nat; 1%nat] [3%nat])
         [mkCnode 21 [1%nat] [2%nat]; mkCnode 21 [4%nat] [1%nat]].

Example C13_mod_example_bias_slot :
  exists fx, fast_of_net_mod F64num exm_bias_slot = Ok fx /\
    mod_static_of fx = [(21, [0%nat], [3%nat]); (21, [4%nat], [0%nat])] /\
    let h := [OLoad [7%float]; OForward 1; OForward 1] in
    let ops := [OLoad [7%float]; OForward 1; OForward 1; OForward 1] in
    let flushed := fst (fast_flush F64num (fx_net fx) (mfast_run F64num (fact []) fmact fx (mfast_init F64num fx) h)) in
    (* the module did write the bias slot before the Flush ... *)
    nth 0 (fs_bp (mfast_run F64num (fact []) fmact fx (mfast_init F64num fx) h)) 0%float = 7%float /\
    (* ... and Flush clears it *)
    obs_eqb (fast_obs flushed) (fast_obs (mfast_init F64num fx)) = true /\
    map snd (mfast_trace F64num (fact []) fmact fx flushed ops) = [[0%float]; [0%float]; [0%float]; [7%float]] /\
    map snd (mfast_trace F64num (fact []) fmact fx (mfast_init F64num fx) ops) = [[0%float]; [0%float]; [0%float]; [7%float]].
Proof. eexists. split; [vm_compute; reflexivity|]. vm_compute. repeat split; reflexivity. Qed.

(* the modular Network's own entry points, Activate() = ActivateSteps(20) and ActivateSteps(k), among the operations
   (before and after the Flush): [NOp o] is an operation of the Solver interface, [NActivate k] is ActivateSteps(k) *)
Theorem C13_mod_std_flush_fresh_activate :
  forall (F : Type) (NF : num F) (act : Z -> F -> res F) (mact : Z -> list F -> res (list F)),
    fltb NF (fzero NF) (fzero NF) = false ->
    forall (n : mnet F) (h ops : list (nop F)),
      mstd_ntrace NF act mact n (fst (mstd_flush NF n (mstd_nrun NF act mact n (mstd_init NF n) h))) ops =
      mstd_ntrace NF act mact n (mstd_init NF n) ops.
Proof. exact mstd_flush_fresh_n. Qed.
Print Assumptions C13_mod_std_flush_fresh_activate.

Example C13_mod_example_activate :
  mstd_ntrace F64num (fact []) fmact exm_net (mstd_init F64num exm_net) [NOp (OLoad [2%float; 3%float]); NActivate 20; NActivate 1]
    = [(Ok true, [0%float]); (Ok true, [45%float]); (Ok true, [45%float])].
Proof. vm_compute. reflexivity. Qed.
