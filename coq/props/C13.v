(* C13 — flushing makes a network indistinguishable from a fresh one.
   Property theorems only; proofs live in proofs/FlushStd.v, proofs/FlushFast.v, proofs/FlushBuild.v.
   Any topology (recurrent links, self-loops, links into sensors): there is no hypothesis on the network.
   [std_trace] / [fast_trace] list, for every operation of a sequence, its result and ReadOutputs() after it. *)
From NeatModel Require Import Res F64 Net Fast FlushStd FlushFast FlushBuild SolverFuel C12Cases.
From Coq Require Import Floats.

(* Network: whatever operations (Load | Forward k | Recursive | Relax | Flush) were performed since construction,
   after Flush every later sequence of operations gives the results and outputs it gives on a fresh Network.
   Stated for every number structure in which 0 < 0 is false and every activation function table. *)
Theorem C13_std_flush_fresh :
  forall (F : Type) (NF : num F) (act : Z -> F -> res F),
    fltb NF (fzero NF) (fzero NF) = false ->
    forall (n : net F) (h ops : list (op F)),
      std_trace NF act n (fst (std_flush NF n (std_run NF act n (std_init NF n) h))) ops =
      std_trace NF act n (std_init NF n) ops.
Proof. exact std_flush_fresh. Qed.
Print Assumptions C13_std_flush_fresh.

(* and Flush itself reports success *)
Theorem C13_std_flush_ok :
  forall (F : Type) (NF : num F),
    fltb NF (fzero NF) (fzero NF) = false ->
    forall (n : net F) (s : sstate F), snd (std_flush NF n s) = Ok true.
Proof. exact std_flush_ok. Qed.
Print Assumptions C13_std_flush_ok.

(* the binary64 instance that the correspondence check runs against the Go code *)
Theorem C13_std_flush_fresh_float :
  forall (t : table) (n : net float) (h ops : list (op float)),
    std_trace F64num (fact t) n (fst (std_flush F64num n (std_run F64num (fact t) n (std_init F64num n) h))) ops =
    std_trace F64num (fact t) n (std_init F64num n) ops.
Proof. intros t. exact (std_flush_fresh float F64num (fact t) eq_refl). Qed.
Print Assumptions C13_std_flush_fresh_float.

(* fast solver, any connection list: same statement *)
Theorem C13_fast_flush_fresh :
  forall (F : Type) (NF : num F) (act : Z -> F -> res F) (fn : fnet F),
    (f_sensor fn <= f_total fn)%nat ->
    forall (h ops : list (op F)),
      fast_trace NF act fn (fst (fast_flush NF fn (fast_run NF act fn (fast_init NF fn) h))) ops =
      fast_trace NF act fn (fast_init NF fn) ops.
Proof. exact fast_flush_fresh. Qed.
Print Assumptions C13_fast_flush_fresh.

(* in particular for every fast solver that Network.FastNetworkSolver builds, from any network *)
Theorem C13_fast_flush_fresh_built :
  forall (F : Type) (NF : num F) (act : Z -> F -> res F) (n : net F) (fn : fnet F),
    fast_of_net NF n = Ok fn ->
    forall (h ops : list (op F)),
      fast_trace NF act fn (fst (fast_flush NF fn (fast_run NF act fn (fast_init NF fn) h))) ops =
      fast_trace NF act fn (fast_init NF fn) ops.
Proof.
  intros F NF act n fn H. exact (fast_flush_fresh F NF act fn (fast_of_net_sensor_le F NF n fn H)).
Qed.
Print Assumptions C13_fast_flush_fresh_built.

(* the observational equivalences behind the two theorems: every operation maps equivalent states to equivalent
   states with the same result (ActivationSum is ignored for the Network; for the fast solver the arrays
   activated / inActivation, lastActivation above the sensors and beingProcessed below them) *)
Theorem C13_std_step_respects :
  forall (F : Type) (NF : num F) (act : Z -> F -> res F) (n : net F) (o : op F) (s1 s2 : sstate F),
    seqv F NF s1 s2 ->
    seqv F NF (fst (std_step NF act n s1 o)) (fst (std_step NF act n s2 o)) /\
    snd (std_step NF act n s1 o) = snd (std_step NF act n s2 o).
Proof. exact std_step_respects. Qed.
Print Assumptions C13_std_step_respects.

Theorem C13_fast_step_respects :
  forall (F : Type) (NF : num F) (act : Z -> F -> res F) (fn : fnet F),
    (f_sensor fn <= f_total fn)%nat ->
    forall (o : op F) (s1 s2 : fstate F),
    feqv F NF fn s1 s2 -> flens F s1 = full_lens F fn -> flens F s2 = full_lens F fn ->
    feqv F NF fn (fst (fast_step NF act fn s1 o)) (fst (fast_step NF act fn s2 o)) /\
    snd (fast_step NF act fn s1 o) = snd (fast_step NF act fn s2 o).
Proof. exact fast_step_respects. Qed.
Print Assumptions C13_fast_step_respects.

(* the traces compared above are genuine: no operation of the models ever exhausts its recursion / loop fuel
   (the ActivateSteps loop, NNode.Depth on cyclic graphs, recursiveActivateNode on cyclic graphs) *)
Theorem C13_std_trace_no_fuel :
  forall (F : Type) (NF : num F) (act : Z -> F -> res F),
    (forall c x, act c x <> OutOfFuel) ->
    forall (n : net F) (ops : list (op F)), net_ok n = true ->
    forall s : sstate F, Forall (fun ro => fst ro <> OutOfFuel) (std_trace NF act n s ops).
Proof. exact std_trace_no_fuel. Qed.
Print Assumptions C13_std_trace_no_fuel.

Theorem C13_fast_trace_no_fuel :
  forall (F : Type) (NF : num F) (act : Z -> F -> res F),
    (forall c x, act c x <> OutOfFuel) ->
    forall (n : net F) (fn : fnet F), fast_of_net NF n = Ok fn ->
    forall h ops : list (op F),
      Forall (fun ro => fst ro <> OutOfFuel) (fast_trace NF act fn (fast_run NF act fn (fast_init NF fn) h) ops).
Proof. exact fast_built_trace_no_fuel. Qed.
Print Assumptions C13_fast_trace_no_fuel.

Theorem C13_float_activation_has_no_fuel : forall (t : table) (c : Z) (x : float), fact t c x <> OutOfFuel.
Proof. exact fact_no_fuel. Qed.
Print Assumptions C13_float_activation_has_no_fuel.

(* non-vacuity: a recurrent network (self-loop on the hidden node 2, 2-cycle 2 <-> 3, bias node 1);
   without the Flush the later outputs differ from a fresh network's, with it they coincide *)
Definition ex_net : net float :=
  mkNet [mkNode Input 17 []; mkNode Bias 17 [];
         mkNode Hidden 14 [mkLink 0%nat 0.5%float false; mkLink 2%nat 0.25%float false; mkLink 3%nat (-0.5)%float false];
         mkNode Output 16 [mkLink 2%nat 1%float false; mkLink 1%nat 0.125%float false]]
        [0%nat; 1%nat] [3%nat].
Definition ex_hist : list (op float) := [OLoad [2%float]; OForward 3; ORecursive].
Definition ex_ops : list (op float) := [OLoad [1%float]; OForward 2].

Example C13_example_flush_matters :
  list_eqb (list_eqb feqb_exact)
    (map snd (std_trace F64num (fact []) ex_net (std_run F64num (fact []) ex_net (std_init F64num ex_net) ex_hist) ex_ops))
    (map snd (std_trace F64num (fact []) ex_net (std_init F64num ex_net) ex_ops)) = false
  /\ std_trace F64num (fact []) ex_net (std_init F64num ex_net) ex_ops
     = [(Ok true, [0%float]); (Ok true, [0.625%float])].
Proof. vm_compute. split; reflexivity. Qed.

Example C13_example_fast :
  exists fn, fast_of_net F64num ex_net = Ok fn /\
    list_eqb (list_eqb feqb_exact)
      (map snd (fast_trace F64num (fact []) fn (fast_run F64num (fact []) fn (fast_init F64num fn) ex_hist) ex_ops))
      (map snd (fast_trace F64num (fact []) fn (fast_init F64num fn) ex_ops)) = false.
Proof. eexists. split; [vm_compute; reflexivity|]. vm_compute. reflexivity. Qed.
