(* C04 — crossover children inherit genes only as the alignment rules allow.
   Property theorems only; the model is model/Mate.v (mate_multipoint, mate_multipoint_avg,
   mate_singlepoint: line-by-line transliterations of neat/genetics/genome_reproduce.go, validated
   bit-exactly against the real code by the C04 correspondence), proofs are in proofs/MateSpec.v.

   Every theorem holds for EVERY tape of raw random draws and every state [s] (all seeds and more), all
   fitness values (ties, NaN included) and parents of any size.  [mate_multipoint_gen avg] is the common
   body of the two multipoint methods: avg = false is mate_multipoint, avg = true is mate_multipoint_avg.

   Hypotheses ([mate_hyps p1 p2], proofs/MateSpec.v; p1 is the receiver [g], p2 the argument [og]):
     parent_ok p1 p   genes of p strictly ascending by innovation number; no two genes of p with the same
                      (in, out, recurrent) under different numbers; every gene endpoint resolves by
                      node_with_id in p's nodes; p has no modules; every trait reference Some t in a gene or
                      node of p satisfies  first trait id of p1 <= t < first trait id of p1 + #traits p1
                      (Go indexes newTraits[t - g.Traits[0].Id]);
     consistent p1 p2 a number present in both parents denotes the same (in, out, recurrent) link
                      (the converse is NOT required: the same link may carry different numbers);
     traits_match     p1 has at least one trait (Go reads g.Traits[0] and newTraits[0]); equally many traits,
                      pairwise with equally many parameters (else Go returns an error);
     NoDup (io_ids p2) the input/bias/output nodes of p2 have distinct ids.
   proofs/MateWF.v shows that two well-formed genomes (wf of proofs/WF.v) with the same trait ids, matching
   parameter counts and consistent numbers satisfy mate_hyps.

   "Both parents are left unmodified" is trivially true of a value model (the model functions return a new
   genome and cannot touch their arguments); on the Go side the harness compares a dump of both parents
   before and after every crossover. *)
From NeatModel Require Import Res F64 GoRand Genome Options Insert Mutate Mate InsertSpec MateSpec GenomeLit.
From Coq Require Import Sorting.Sorted.

Example C04_methods : mate_multipoint = mate_multipoint_gen false /\ mate_multipoint_avg = mate_multipoint_gen true.
Proof. split; reflexivity. Qed.

(* ---------------------------------------------------------------------------------------------- *)
(* success: under the hypotheses no crossover returns an error, panics or runs out of fuel; the only  *)
(* other outcome is a tape too short for the draws                                                  *)
(* ---------------------------------------------------------------------------------------------- *)
Theorem C04_multipoint_total : forall avg p1 p2 id f1 f2 s,
    mate_hyps p1 p2 ->
    (exists c s', mate_multipoint_gen avg p1 p2 id f1 f2 s = Ok (c, s')) \/
    mate_multipoint_gen avg p1 p2 id f1 f2 s = OutOfTape.
Proof. exact mp_total. Qed.
Print Assumptions C04_multipoint_total.

(* single point draws rand.Intn(len(shorter gene list)), which panics for an empty list *)
Theorem C04_singlepoint_total : forall p1 p2 id s,
    mate_hyps p1 p2 -> genes p1 <> [] -> genes p2 <> [] ->
    (exists c s', mate_singlepoint p1 p2 id s = Ok (c, s')) \/ mate_singlepoint p1 p2 id s = OutOfTape.
Proof. exact sp_total. Qed.
Print Assumptions C04_singlepoint_total.

(* ---------------------------------------------------------------------------------------------- *)
(* the two multipoint methods                                                                       *)
(* ---------------------------------------------------------------------------------------------- *)
(* (a) every child gene has the number, endpoints and recurrence flag of a parent gene; the child's
   numbers are strictly ascending (so each occurs once) and no link occurs twice *)
Theorem C04_multipoint_gene_origin : forall avg p1 p2 id f1 f2 s s' c,
    mate_hyps p1 p2 -> mate_multipoint_gen avg p1 p2 id f1 f2 s = Ok (c, s') ->
    StronglySorted Z.lt (map g_innov (genes c)) /\
    (forall y, In y (genes c) ->
       exists x, (In x (genes p1) \/ In x (genes p2)) /\
                 g_innov y = g_innov x /\ g_in y = g_in x /\ g_out y = g_out x /\ g_rec y = g_rec x) /\
    (forall y y', In y (genes c) -> In y' (genes c) -> same_link y y' = true -> y = y').
Proof. exact mp_gene_origin. Qed.
Print Assumptions C04_multipoint_gene_origin.

(* (b) mateMultipoint: the weight is that of the parent gene with the same number (one of the two) *)
Theorem C04_multipoint_weight : forall p1 p2 id f1 f2 s s' c,
    mate_hyps p1 p2 -> mate_multipoint p1 p2 id f1 f2 s = Ok (c, s') ->
    forall y, In y (genes c) ->
      exists x, (In x (genes p1) \/ In x (genes p2)) /\ g_innov x = g_innov y /\ g_w y = g_w x.
Proof. intros p1 p2 id f1 f2 s s' c H R. exact (mp_weight_plain false p1 p2 id f1 f2 s s' c H R eq_refl). Qed.
Print Assumptions C04_multipoint_weight.

(* (b) mateMultipointAvg: a gene carried by both parents gets exactly (w1 + w2) / 2 in binary64; a gene
   carried by one parent only keeps that parent's weight *)
Theorem C04_multipoint_avg_weight : forall p1 p2 id f1 f2 s s' c,
    mate_hyps p1 p2 -> mate_multipoint_avg p1 p2 id f1 f2 s = Ok (c, s') ->
    forall y, In y (genes c) ->
      (forall x1 x2, In x1 (genes p1) -> In x2 (genes p2) -> g_innov x1 = g_innov y -> g_innov x2 = g_innov y ->
                     g_w y = PrimFloat.div (PrimFloat.add (g_w x1) (g_w x2)) 2%float) /\
      (~ In (g_innov y) (innovs p1) \/ ~ In (g_innov y) (innovs p2) ->
       exists x, (In x (genes p1) \/ In x (genes p2)) /\ g_innov x = g_innov y /\ g_w y = g_w x).
Proof. intros p1 p2 id f1 f2 s s' c H R. exact (mp_weight_avg true p1 p2 id f1 f2 s s' c H R eq_refl). Qed.
Print Assumptions C04_multipoint_avg_weight.

(* (c) a number carried by exactly one parent is in the child only if that parent is the fitter one:
   p1_better f1 f2 p1 p2 = (f1 > f2) || (f1 == f2 && |genes p1| < |genes p2|) *)
Theorem C04_multipoint_fitter_only : forall avg p1 p2 id f1 f2 s s' c,
    mate_hyps p1 p2 -> mate_multipoint_gen avg p1 p2 id f1 f2 s = Ok (c, s') ->
    forall y, In y (genes c) ->
      (In (g_innov y) (innovs p1) -> ~ In (g_innov y) (innovs p2) -> p1_better f1 f2 p1 p2 = true) /\
      (In (g_innov y) (innovs p2) -> ~ In (g_innov y) (innovs p1) -> p1_better f1 f2 p1 p2 = false).
Proof. exact mp_fitter_only. Qed.
Print Assumptions C04_multipoint_fitter_only.

(* (d) every number carried by both parents is inherited (the conflict check never drops it) *)
Theorem C04_multipoint_matching_inherited : forall avg p1 p2 id f1 f2 s s' c,
    mate_hyps p1 p2 -> mate_multipoint_gen avg p1 p2 id f1 f2 s = Ok (c, s') ->
    forall x1 x2, In x1 (genes p1) -> In x2 (genes p2) -> g_innov x1 = g_innov x2 ->
      exists y, In y (genes c) /\ g_innov y = g_innov x1 /\ g_in y = g_in x1 /\ g_out y = g_out x1 /\ g_rec y = g_rec x1.
Proof. exact mp_matching_inherited. Qed.
Print Assumptions C04_multipoint_matching_inherited.

(* beyond the property text: every gene of the fitter parent is inherited, so the child's numbers are
   exactly those of the fitter parent *)
Theorem C04_multipoint_fitter_all : forall avg p1 p2 id f1 f2 s s' c,
    mate_hyps p1 p2 -> mate_multipoint_gen avg p1 p2 id f1 f2 s = Ok (c, s') ->
    (p1_better f1 f2 p1 p2 = true ->
     forall x, In x (genes p1) ->
       exists y, In y (genes c) /\ g_innov y = g_innov x /\ g_in y = g_in x /\ g_out y = g_out x /\ g_rec y = g_rec x) /\
    (p1_better f1 f2 p1 p2 = false ->
     forall x, In x (genes p2) ->
       exists y, In y (genes c) /\ g_innov y = g_innov x /\ g_in y = g_in x /\ g_out y = g_out x /\ g_rec y = g_rec x).
Proof. exact mp_fitter_all. Qed.
Print Assumptions C04_multipoint_fitter_all.

(* (e) enabled in every parent that carries the number => enabled; carried by exactly one parent and
   disabled there => disabled; moreover (as coded) disabled in the first parent => disabled *)
Theorem C04_multipoint_enabled : forall avg p1 p2 id f1 f2 s s' c,
    mate_hyps p1 p2 -> mate_multipoint_gen avg p1 p2 id f1 f2 s = Ok (c, s') ->
    forall y, In y (genes c) ->
      ((forall x, In x (genes p1) \/ In x (genes p2) -> g_innov x = g_innov y -> g_en x = true) -> g_en y = true) /\
      (forall x, In x (genes p1) -> g_innov x = g_innov y -> ~ In (g_innov y) (innovs p2) -> g_en x = false -> g_en y = false) /\
      (forall x, In x (genes p2) -> g_innov x = g_innov y -> ~ In (g_innov y) (innovs p1) -> g_en x = false -> g_en y = false) /\
      (forall x, In x (genes p1) -> g_innov x = g_innov y -> g_en x = false -> g_en y = false).
Proof. exact mp_enabled. Qed.
Print Assumptions C04_multipoint_enabled.

(* (f) the child's node ids are exactly the ids of the input/bias/output nodes of the second parent plus
   the endpoints of the child's genes; nodes strictly ascending by id; every child node has the id, type and
   activation of a parent node; every io node of the second parent is kept with its type and activation.
   (The code copies the io nodes of the SECOND parent only; if the parents have the same io ids, as
   relatives do, those of the first are there as well by the first clause.) *)
Theorem C04_multipoint_nodes : forall avg p1 p2 id f1 f2 s s' c,
    mate_hyps p1 p2 -> mate_multipoint_gen avg p1 p2 id f1 f2 s = Ok (c, s') ->
    StronglySorted Z.lt (map n_id (nodes c)) /\
    (forall i, In i (map n_id (nodes c)) <->
               In i (io_ids p2) \/ exists y, In y (genes c) /\ (i = g_in y \/ i = g_out y)) /\
    (forall n, In n (nodes c) ->
       exists m, (In m (nodes p1) \/ In m (nodes p2)) /\ n_id m = n_id n /\ n_type m = n_type n /\ n_act m = n_act n) /\
    (forall m, In m (nodes p2) -> is_io m = true ->
       exists n, In n (nodes c) /\ n_id m = n_id n /\ n_type m = n_type n /\ n_act m = n_act n).
Proof. exact mp_nodes. Qed.
Print Assumptions C04_multipoint_nodes.

(* (g) as many traits as the parents, ids of the first parent, parameters pointwise (a + b) / 2 in binary64;
   the child is not modular *)
Theorem C04_multipoint_traits : forall avg p1 p2 id f1 f2 s s' c,
    mate_hyps p1 p2 -> mate_multipoint_gen avg p1 p2 id f1 f2 s = Ok (c, s') ->
    traits c = map (fun ab => {| t_id := t_id (fst ab);
                                 t_params := map (fun pq => PrimFloat.div (PrimFloat.add (fst pq) (snd pq)) 2%float)
                                                 (combine (t_params (fst ab)) (t_params (snd ab))) |})
                   (combine (traits p1) (traits p2)) /\
    length (traits c) = length (traits p1) /\
    map t_id (traits c) = map t_id (traits p1) /\
    modules c = [].
Proof. exact mp_traits. Qed.
Print Assumptions C04_multipoint_traits.

(* ---------------------------------------------------------------------------------------------- *)
(* single point                                                                                     *)
(* ---------------------------------------------------------------------------------------------- *)
(* (a) as for multipoint *)
Theorem C04_singlepoint_gene_origin : forall p1 p2 id s s' c,
    mate_hyps p1 p2 -> genes p1 <> [] -> genes p2 <> [] -> mate_singlepoint p1 p2 id s = Ok (c, s') ->
    StronglySorted Z.lt (map g_innov (genes c)) /\
    (forall y, In y (genes c) ->
       exists x, (In x (genes p1) \/ In x (genes p2)) /\
                 g_innov y = g_innov x /\ g_in y = g_in x /\ g_out y = g_out x /\ g_rec y = g_rec x) /\
    (forall y y', In y (genes c) -> In y' (genes c) -> same_link y y' = true -> y = y').
Proof. exact sp_gene_origin. Qed.
Print Assumptions C04_singlepoint_gene_origin.

(* (b) the weight of a parent gene with that number, or (at the crossing point) the binary64 mean of both *)
Theorem C04_singlepoint_weight : forall p1 p2 id s s' c,
    mate_hyps p1 p2 -> genes p1 <> [] -> genes p2 <> [] -> mate_singlepoint p1 p2 id s = Ok (c, s') ->
    forall y, In y (genes c) ->
      (exists x, (In x (genes p1) \/ In x (genes p2)) /\ g_innov x = g_innov y /\ g_w y = g_w x) \/
      (exists x1 x2, In x1 (genes p1) /\ In x2 (genes p2) /\ g_innov x1 = g_innov y /\ g_innov x2 = g_innov y /\
                     (g_w y = PrimFloat.div (PrimFloat.add (g_w x1) (g_w x2)) 2%float \/
                      g_w y = PrimFloat.div (PrimFloat.add (g_w x2) (g_w x1)) 2%float)).
Proof. exact sp_weight. Qed.
Print Assumptions C04_singlepoint_weight.

(* (e) *)
Theorem C04_singlepoint_enabled : forall p1 p2 id s s' c,
    mate_hyps p1 p2 -> genes p1 <> [] -> genes p2 <> [] -> mate_singlepoint p1 p2 id s = Ok (c, s') ->
    forall y, In y (genes c) ->
      ((forall x, In x (genes p1) \/ In x (genes p2) -> g_innov x = g_innov y -> g_en x = true) -> g_en y = true) /\
      (forall x, In x (genes p1) -> g_innov x = g_innov y -> ~ In (g_innov y) (innovs p2) -> g_en x = false -> g_en y = false) /\
      (forall x, In x (genes p2) -> g_innov x = g_innov y -> ~ In (g_innov y) (innovs p1) -> g_en x = false -> g_en y = false).
Proof. exact sp_enabled. Qed.
Print Assumptions C04_singlepoint_enabled.

(* (f) *)
Theorem C04_singlepoint_nodes : forall p1 p2 id s s' c,
    mate_hyps p1 p2 -> genes p1 <> [] -> genes p2 <> [] -> mate_singlepoint p1 p2 id s = Ok (c, s') ->
    StronglySorted Z.lt (map n_id (nodes c)) /\
    (forall i, In i (map n_id (nodes c)) <->
               In i (io_ids p2) \/ exists y, In y (genes c) /\ (i = g_in y \/ i = g_out y)) /\
    (forall n, In n (nodes c) ->
       exists m, (In m (nodes p1) \/ In m (nodes p2)) /\ n_id m = n_id n /\ n_type m = n_type n /\ n_act m = n_act n) /\
    (forall m, In m (nodes p2) -> is_io m = true ->
       exists n, In n (nodes c) /\ n_id m = n_id n /\ n_type m = n_type n /\ n_act m = n_act n).
Proof. exact sp_nodes. Qed.
Print Assumptions C04_singlepoint_nodes.

(* (g) *)
Theorem C04_singlepoint_traits : forall p1 p2 id s s' c,
    mate_hyps p1 p2 -> genes p1 <> [] -> genes p2 <> [] -> mate_singlepoint p1 p2 id s = Ok (c, s') ->
    traits c = map (fun ab => {| t_id := t_id (fst ab);
                                 t_params := map (fun pq => PrimFloat.div (PrimFloat.add (fst pq) (snd pq)) 2%float)
                                                 (combine (t_params (fst ab)) (t_params (snd ab))) |})
                   (combine (traits p1) (traits p2)) /\
    length (traits c) = length (traits p1) /\
    map t_id (traits c) = map t_id (traits p1) /\
    modules c = [].
Proof. exact sp_traits. Qed.
Print Assumptions C04_singlepoint_traits.

(* common ancestry (both parents start with the same innovation number): the child inherits that gene,
   so it is not empty *)
Theorem C04_singlepoint_nonempty : forall p1 p2 id s s' c,
    mate_hyps p1 p2 -> genes p1 <> [] -> genes p2 <> [] -> mate_singlepoint p1 p2 id s = Ok (c, s') ->
    forall x1 x2, hd_error (genes p1) = Some x1 -> hd_error (genes p2) = Some x2 -> g_innov x1 = g_innov x2 ->
      exists y, In y (genes c) /\ g_innov y = g_innov x1 /\ g_in y = g_in x1 /\ g_out y = g_out x1 /\ g_rec y = g_rec x1.
Proof. exact sp_nonempty. Qed.
Print Assumptions C04_singlepoint_nonempty.

(* the known behaviour for unrelated parents: if the first number of the parent with fewer genes (the second
   parent on a tie) is larger than the first number of the other, the loop stops at once: no genes at all *)
Theorem C04_singlepoint_unrelated_empty : forall p1 p2 id s s' c,
    mate_hyps p1 p2 -> genes p1 <> [] -> genes p2 <> [] -> mate_singlepoint p1 p2 id s = Ok (c, s') ->
    forall x1 x2,
      hd_error (genes (if Nat.ltb (length (genes p1)) (length (genes p2)) then p1 else p2)) = Some x1 ->
      hd_error (genes (if Nat.ltb (length (genes p1)) (length (genes p2)) then p2 else p1)) = Some x2 ->
      g_innov x2 < g_innov x1 -> genes c = [].
Proof. exact sp_unrelated_empty. Qed.
Print Assumptions C04_singlepoint_unrelated_empty.

(* ---------------------------------------------------------------------------------------------- *)
(* non-vacuity: two relatives with disabled genes on either side, a disjoint pair (4,5) in the first *)
(* parent and an excess tail (6,7,8, one recurrent) in the second; fitness tie                       *)
(* ---------------------------------------------------------------------------------------------- *)
Definition ex_p1 : genome := GN 1 [T 1 [0x1p-1%float; 0x1p-2%float]; T 2 [1%float; 0%float]]
  [N 1 1 0 None; N 2 1 0 (Some 1); N 3 3 0 None; N 4 2 4 (Some 2); N 5 0 4 None]
  [G 1 4 false 1%float (Some 1) 1 0%float true;
   G 2 4 false 2%float (Some 2) 2 0%float false;
   G 3 4 false 3%float None 3 0%float true;
   G 1 5 false 4%float (Some 1) 4 0%float true;
   G 5 4 false 5%float (Some 2) 5 0%float false] [].
Definition ex_p2 : genome := GN 2 [T 1 [0x1p-2%float; 0x1p-2%float]; T 2 [3%float; 1%float]]
  [N 1 1 0 None; N 2 1 0 (Some 1); N 3 3 0 None; N 4 2 4 (Some 2); N 6 0 4 None]
  [G 1 4 false 10%float (Some 1) 1 0%float false;
   G 2 4 false 20%float (Some 2) 2 0%float true;
   G 3 4 false 30%float None 3 0%float true;
   G 2 6 false 60%float (Some 1) 6 0%float true;
   G 6 4 false 70%float (Some 2) 7 0%float true;
   G 6 6 true 80%float None 8 0%float false] [].

Ltac enum H := cbn in H; repeat (destruct H as [<-|H]); [..|destruct H].

Lemma ex_parent_ok1 : parent_ok ex_p1 ex_p1.
Proof.
  constructor.
  - unfold asc. cbn. repeat constructor.
  - intros a b Ha Hb Hl. enum Ha; enum Hb; vm_compute in Hl; try discriminate Hl; reflexivity.
  - intros x Hx. enum Hx; (eexists; eexists; split; reflexivity).
  - reflexivity.
  - intros x Hx. enum Hx; first [exact I | (unfold tref_ok, tbase, zlen; cbn; split; [intros [=]|reflexivity])].
  - intros x Hx. enum Hx; first [exact I | (unfold tref_ok, tbase, zlen; cbn; split; [intros [=]|reflexivity])].
Qed.

Lemma ex_parent_ok2 : parent_ok ex_p1 ex_p2.
Proof.
  constructor.
  - unfold asc. cbn. repeat constructor.
  - intros a b Ha Hb Hl. enum Ha; enum Hb; vm_compute in Hl; try discriminate Hl; reflexivity.
  - intros x Hx. enum Hx; (eexists; eexists; split; reflexivity).
  - reflexivity.
  - intros x Hx. enum Hx; first [exact I | (unfold tref_ok, tbase, zlen; cbn; split; [intros [=]|reflexivity])].
  - intros x Hx. enum Hx; first [exact I | (unfold tref_ok, tbase, zlen; cbn; split; [intros [=]|reflexivity])].
Qed.

Example C04_example_hyps : mate_hyps ex_p1 ex_p2 /\ genes ex_p1 <> [] /\ genes ex_p2 <> [].
Proof.
  split; [|split; discriminate]. constructor.
  - exact ex_parent_ok1.
  - exact ex_parent_ok2.
  - intros a b Ha Hb E. enum Ha; enum Hb; vm_compute in E; try discriminate E; reflexivity.
  - split; [discriminate|]. cbn. repeat constructor.
  - cbn. repeat constructor; cbn; intuition discriminate.
Qed.

Definition ex_lo : Z := 1000.                       (* Float64() ~ 1e-16 *)
Definition ex_hi : Z := 9000000000000000000.        (* Float64() ~ 0.976 *)
Definition ex_st (t : tape) : st := {| s_tape := t; s_env := EV [] 8 6 |}.
Definition ex_traits : list trait := [T 1 [0x1.8p-2%float; 0x1p-2%float]; T 2 [2%float; 0x1p-1%float]].

(* fitness tie: the first parent has fewer genes, so it is the better one: 4 and 5 are inherited, the excess
   tail 6,7,8 is not; gene 1 (disabled in p2 only) is taken from p1 and the 0.75 draw leaves it enabled;
   gene 2 (disabled in p1) is disabled; gene 3 is taken from p2 *)
Example C04_example_multipoint :
  mate_multipoint ex_p1 ex_p2 9 1 1 (ex_st [ex_lo; ex_hi; ex_lo; ex_hi; ex_hi; ex_lo]) =
  Ok (GN 9 ex_traits
         [N 1 1 0 (Some 1); N 2 1 0 (Some 1); N 3 3 0 (Some 1); N 4 2 4 (Some 2); N 5 0 4 (Some 1)]
         [G 1 4 false 1%float (Some 1) 1 0%float true;
          G 2 4 false 2%float (Some 2) 2 0%float false;
          G 3 4 false 30%float (Some 1) 3 0%float true;
          G 1 5 false 4%float (Some 1) 4 0%float true;
          G 5 4 false 5%float (Some 2) 5 0%float false] [],
      ex_st [ex_hi; ex_lo]).
Proof. vm_compute. reflexivity. Qed.

(* the second parent fitter: its tail 6,7,8 is inherited, 4 and 5 are not, node 5 is not in the child *)
Example C04_example_multipoint_second_fitter :
  mate_multipoint ex_p1 ex_p2 9 1 2 (ex_st [ex_lo; ex_hi; ex_lo; ex_hi; ex_hi; ex_lo]) =
  Ok (GN 9 ex_traits
         [N 1 1 0 (Some 1); N 2 1 0 (Some 1); N 3 3 0 (Some 1); N 4 2 4 (Some 2); N 6 0 4 (Some 1)]
         [G 1 4 false 1%float (Some 1) 1 0%float true;
          G 2 4 false 2%float (Some 2) 2 0%float false;
          G 3 4 false 30%float (Some 1) 3 0%float true;
          G 2 6 false 60%float (Some 1) 6 0%float true;
          G 6 4 false 70%float (Some 2) 7 0%float true;
          G 6 6 true 80%float (Some 1) 8 0%float false] [],
      ex_st [ex_hi; ex_lo]).
Proof. vm_compute. reflexivity. Qed.

(* averaging: matching genes get (w1 + w2) / 2 *)
Example C04_example_multipoint_avg :
  exists s', mate_multipoint_avg ex_p1 ex_p2 9 1 1 (ex_st (repeat ex_hi 20 ++ repeat ex_lo 20)) =
  Ok (GN 9 ex_traits
         [N 1 1 0 (Some 1); N 2 1 0 (Some 1); N 3 3 0 (Some 1); N 4 2 4 (Some 2); N 5 0 4 (Some 1)]
         [G 1 4 false 0x1.6p+2%float (Some 1) 1 0%float true;
          G 2 4 false 11%float (Some 2) 2 0%float false;
          G 3 4 false 0x1.08p+4%float (Some 1) 3 0%float true;
          G 1 5 false 4%float (Some 1) 4 0%float true;
          G 5 4 false 5%float (Some 2) 5 0%float false] [], s').
Proof. eexists. vm_compute. reflexivity. Qed.

(* single point, crossing point 2: genes 1,2 of the shorter parent, the mean at 3, then the longer parent's tail *)
Example C04_example_singlepoint :
  exists s', mate_singlepoint ex_p1 ex_p2 9 (ex_st (ex_hi :: repeat ex_lo 20)) =
  Ok (GN 9 ex_traits
         [N 1 1 0 (Some 1); N 2 1 0 (Some 1); N 3 3 0 (Some 1); N 4 2 4 (Some 2); N 6 0 4 (Some 1)]
         [G 1 4 false 1%float (Some 1) 1 0%float true;
          G 2 4 false 2%float (Some 2) 2 0%float false;
          G 3 4 false 0x1.08p+4%float (Some 1) 3 0%float true;
          G 2 6 false 60%float (Some 1) 6 0%float true;
          G 6 4 false 70%float (Some 2) 7 0%float true;
          G 6 6 true 80%float (Some 1) 8 0%float false] [], s').
Proof. eexists. vm_compute. reflexivity. Qed.

(* single point on unrelated parents (numbers 7,8 against 1,2,3): the child has no genes *)
Example C04_example_singlepoint_unrelated :
  exists s', mate_singlepoint
    (GN 1 [T 1 [1%float]] [N 1 1 0 None; N 2 2 4 None] [G 1 2 false 1%float None 7 0%float true; G 2 2 true 1%float None 8 0%float true] [])
    (GN 2 [T 1 [1%float]] [N 1 1 0 None; N 2 2 4 None; N 3 0 4 None]
        [G 1 3 false 1%float None 1 0%float true; G 3 2 false 1%float None 2 0%float true; G 3 3 true 1%float None 3 0%float true] [])
    9 (ex_st [ex_lo]) =
  Ok (GN 9 [T 1 [1%float]] [N 1 1 0 (Some 1); N 2 2 4 (Some 1)] [] [], s').
Proof. eexists. vm_compute. reflexivity. Qed.
