(* C02 — an epoch conserves population size and keeps species a partition.
   Property theorems only; proofs live in proofs/PopBase.v, PopPrepare.v, PopRepro.v, PopFinal.v, PopInv.v,
   PopNoErr.v.
   Model: model/Population.v (organisms live in a heap keyed by o_key; Population.Organisms and
   Species.Organisms are lists of keys; organisms name their species by id). *)
From Coq Require Import ZArith List Floats.
Import ListNotations.
Open Scope Z_scope.
From NeatModel Require Import Res F64 GoRand GoSource Genome Options GenomeLit Population WF PopBase PopRepro PopInv PopNoErr.

(* the invariant [Part] written out: Population.Organisms has no duplicates and every key denotes an
   organism; species ids are unique and at most LastSpecies; no species is empty; no organism is
   listed twice (neither within a species nor by two species); species list only organisms of the
   population; every organism's back pointer names a species that lists it; genome ids are unique;
   the key counter is above every key in use; no species is detached between epochs *)
Theorem C02_part_meaning : forall p,
  Part p <->
  (NoDup (p_orgs p) /\
   (forall k, In k (p_orgs p) -> exists x, hget (p_heap p) k = Ok x /\ o_key x = k) /\
   NoDup (map sp_id (p_species p)) /\
   (forall s, In s (p_species p) -> sp_id s <= p_last_species p) /\
   (forall s, In s (p_species p) -> sp_orgs s <> []) /\
   NoDup (concat (map sp_orgs (p_species p))) /\
   (forall s k, In s (p_species p) -> In k (sp_orgs s) -> In k (p_orgs p)) /\
   (forall k x, In k (p_orgs p) -> hget (p_heap p) k = Ok x ->
                exists s, In s (p_species p) /\ sp_id s = o_species x /\ In k (sp_orgs s)) /\
   NoDup (map (gid_at (p_heap p)) (p_orgs p)) /\
   (forall k x, hget (p_heap p) k = Ok x -> k < p_next_key p) /\
   p_detached p = []).
Proof. exact Part_unfold. Qed.
Print Assumptions C02_part_meaning.

(* [Fresh p]: no organism of the population carries an elimination mark (Organism.toEliminate) *)
Theorem C02_fresh_meaning : forall p,
  Fresh p <-> (forall k x, In k (p_orgs p) -> hget (p_heap p) k = Ok x -> o_elim x = false).
Proof. intros p. reflexivity. Qed.
Print Assumptions C02_fresh_meaning.

(* NewPopulation: for every options record, start genome, tape and innovation state, a population
   that is constructed at all satisfies the invariant, has the configured size, genome ids 0..N-1,
   and all its species are novel, of age one, with ids from 1 *)
Theorem C02_init : forall o g s p s',
  new_population o g s = Ok (p, s') ->
  Part p /\ Fresh p /\ zlen (p_orgs p) = o_pop_size o /\
  map (gid_at (p_heap p)) (p_orgs p) = zrange 0 (o_pop_size o) /\
  (forall y, In y (p_species p) -> sp_age y = 1 /\ sp_novel y = true /\ 1 <= sp_id y).
Proof. exact new_population_full. Qed.
Print Assumptions C02_init.

(* the evaluator (fitness assignment in Population.Organisms order) preserves the invariant *)
Theorem C02_set_fitness : forall p fs h',
  Part p -> set_fitness (p_heap p) (p_orgs p) fs = Ok h' -> Part (p_with_heap p h').
Proof. exact set_fitness_part. Qed.
Print Assumptions C02_set_fitness.

Theorem C02_set_fitness_fresh : forall p fs h',
  Fresh p -> set_fitness (p_heap p) (p_orgs p) fs = Ok h' -> Fresh (p_with_heap p h').
Proof. exact set_fitness_fresh. Qed.
Print Assumptions C02_set_fitness_fresh.

(* one epoch, for every options record, generation number, executor state, tape and innovation
   state, and every fitness assignment (the heap is arbitrary): a turnover that returns no error
   leaves the invariant intact, exactly PopSize organisms, none of which belonged to the previous
   generation; species ids are not reused (an id at or below the old LastSpecies belongs to the
   species that had it before); surviving species are one generation older unless they were novel;
   species founded during the turnover have age one; genome ids are 0..PopSize-1 *)
Theorem C02_step : forall o gen p x s p' x' s',
  next_epoch o gen p x s = Ok ((p', x'), s') -> Part p ->
  Part p' /\ Fresh p' /\ zlen (p_orgs p') = o_pop_size o /\
  (forall k, In k (p_orgs p') -> p_next_key p <= k /\ ~ In k (p_orgs p)) /\
  p_last_species p <= p_last_species p' /\
  (forall s1, In s1 (p_species p') -> sp_id s1 <= p_last_species p ->
     exists s0, In s0 (p_species p) /\ sp_id s0 = sp_id s1 /\
                sp_age s1 = sp_age s0 + (if sp_novel s0 then 0 else 1)) /\
  (forall s1, In s1 (p_species p') -> p_last_species p < sp_id s1 -> sp_age s1 = 1) /\
  (forall s1, In s1 (p_species p') -> sp_novel s1 = false) /\
  map (gid_at (p_heap p')) (p_orgs p') = zrange 0 (o_pop_size o).
Proof. exact next_epoch_step_full. Qed.
Print Assumptions C02_step.

(* any number of consecutive epochs, each preceded by an arbitrary fitness assignment *)
Theorem C02_history : forall o steps p x s p' x' s',
  run_epochs o steps p x s = Ok (p', x', s') -> Part p ->
  (forall y, In y (p_species p) -> 1 <= sp_age y) ->
  Part p' /\ (Fresh p -> Fresh p') /\
  (steps <> [] -> zlen (p_orgs p') = o_pop_size o /\
                  map (gid_at (p_heap p')) (p_orgs p') = zrange 0 (o_pop_size o) /\
                  forall k, In k (p_orgs p') -> p_next_key p <= k /\ ~ In k (p_orgs p)) /\
  p_last_species p <= p_last_species p' /\
  (forall s1, In s1 (p_species p') -> sp_id s1 <= p_last_species p ->
     exists s0, In s0 (p_species p) /\ sp_id s0 = sp_id s1 /\
                sp_age s1 = sp_age s0 + Z.of_nat (length steps)
                            - (if sp_novel s0 then Z.min 1 (Z.of_nat (length steps)) else 0)) /\
  (forall s1, In s1 (p_species p') -> p_last_species p < sp_id s1 ->
     1 <= sp_age s1 <= Z.of_nat (length steps)) /\
  (forall y, In y (p_species p') -> 1 <= sp_age y).
Proof. exact run_epochs_full. Qed.
Print Assumptions C02_history.

(* "succeeds without error".  Hypotheses: the invariant; no stale elimination marks; fewer than 2^31
   organisms; the survival threshold keeps at least the champion of a species ([survivors_ok]:
   int(floor(SurvivalThresh*n+1)) >= 1 for 1 <= n < 2^31 - a negative value, which the amd64
   conversion also produces for NaN / +Inf / >= 2^63, makes adjustFitness panic); the population does not die out ([survives]: purgeZeroOffspringSpecies keeps a
   species); PopSize > 0; CompatThreshold <> 0; and the quota hypothesis: the offspring quotas
   after prepareForReproduction total PopSize (C09 proves this from "the floor-and-carry total does
   not exceed PopSize").
   Then NextEpoch succeeds, or runs out of tape, or fails with exactly the failure of one call of the
   per-baby body of Species.reproduce ([one_baby]: genome duplication, mutation and mating operators
   and the random parent draws) made for a species [sp] of the prepared population in a state [rs]
   the breeding loop can reach.  In particular removeOrganism (70), reproduce out of an empty
   species (71), nothing to speciate (72), threshold zero (73), progeny size (74), best species
   died (75) and the nil / index panics of the epoch's own look-ups (hget, first_org, sp_find in
   prepare, speciate, finalize) never occur.  Partial: failures inside [one_baby] are not analysed
   (they belong to the operators of C01 and to the parent draws). *)
Theorem C02_no_error_partial : forall o gen p x s,
  Part p -> Fresh p -> zlen (p_orgs p) < 2 ^ 31 -> survivors_ok o -> survives o p -> 0 < o_pop_size o ->
  PrimFloat.eqb (o_compat_thresh o) 0 = false ->
  (forall p1 sorted best s1, prepare o p s = Ok ((p1, sorted, best), s1) ->
                             sum_exp (p_species p1) = o_pop_size o) ->
  (exists r, next_epoch o gen p x s = Ok r) \/
  next_epoch o gen p x s = OutOfTape \/
  exists p1 sorted best s1 sp count rs st' hi keyi,
    prepare o p s = Ok ((p1, sorted, best), s1) /\ In sp (p_species p1) /\
    bred (p_heap p1) (p_next_key p1) hi keyi /\ rs_ok hi keyi rs /\
    failure (one_baby o gen (all_sp p1) sorted sp count rs st') <> None /\
    failure (next_epoch o gen p x s) = failure (one_baby o gen (all_sp p1) sorted sp count rs st').
Proof. exact next_epoch_failures. Qed.
Print Assumptions C02_no_error_partial.

(* hence: if the per-baby body never fails (other than by exhausting the tape) in a reachable
   state, the epoch succeeds or exhausts the tape *)
Theorem C02_no_error_modulo_one_baby_partial : forall o gen p x s,
  Part p -> Fresh p -> zlen (p_orgs p) < 2 ^ 31 -> survivors_ok o -> survives o p -> 0 < o_pop_size o ->
  PrimFloat.eqb (o_compat_thresh o) 0 = false ->
  (forall p1 sorted best s1, prepare o p s = Ok ((p1, sorted, best), s1) ->
                             sum_exp (p_species p1) = o_pop_size o) ->
  (forall p1 sorted best s1 sp count rs st' hi keyi,
     prepare o p s = Ok ((p1, sorted, best), s1) -> In sp (p_species p1) ->
     bred (p_heap p1) (p_next_key p1) hi keyi -> rs_ok hi keyi rs ->
     failure (one_baby o gen (all_sp p1) sorted sp count rs st') = None \/
     failure (one_baby o gen (all_sp p1) sorted sp count rs st') = Some FTape) ->
  (exists r, next_epoch o gen p x s = Ok r) \/ next_epoch o gen p x s = OutOfTape.
Proof. exact next_epoch_no_error. Qed.
Print Assumptions C02_no_error_modulo_one_baby_partial.

(* prepareForReproduction by itself never fails (it only consumes randomness when babies are stolen) *)
Theorem C02_prepare_no_error : forall o p s,
  Part p -> Fresh p -> zlen (p_orgs p) < 2 ^ 31 -> survivors_ok o -> survives o p ->
  prepare o p s = OutOfTape \/
  exists p1 sorted best s1, prepare o p s = Ok ((p1, sorted, best), s1) /\
                            forall y, In y (p_species p1) -> sp_orgs y <> [].
Proof. exact prepare_forward. Qed.
Print Assumptions C02_prepare_no_error.

(* the full statement (not proved): with well-formed genomes and a tape of genuine 63-bit draws
   the hypothesis about [one_baby] is discharged as well *)
Definition C02_full : Prop := forall o gen p x s,
  Part p -> Fresh p -> zlen (p_orgs p) < 2 ^ 31 -> survivors_ok o -> survives o p -> 0 < o_pop_size o ->
  PrimFloat.eqb (o_compat_thresh o) 0 = false ->
  (forall p1 sorted best s1, prepare o p s = Ok ((p1, sorted, best), s1) ->
                             sum_exp (p_species p1) = o_pop_size o) ->
  (forall k y, In k (p_orgs p) -> hget (p_heap p) k = Ok y -> wf (o_genome y)) ->
  Forall (fun c => 0 <= c < 2 ^ 63) (s_tape s) ->
  (exists r, next_epoch o gen p x s = Ok r) \/ next_epoch o gen p x s = OutOfTape.

(* non-vacuity: a population of 16 spawned on Go's stream for one seed, three epochs *)
Definition ex_opts : options := OPT [0x1p-01%float; 0x1p+00%float; 0x1.4p+01%float; 0x1p+00%float; 0x1p+00%float; 0x1.999999999999ap-02%float; 0x1.3333333333333p-02%float; 0x1p+00%float; 0x1.999999999999ap-04%float; 0x1.412feefadd96fp-01%float; 0x1.999999999999ap-04%float; 0x1.999999999999ap-04%float; 0x1.999999999999ap-04%float; 0x1.ccccccccccccdp-01%float; 0x1.3559a2dae866cp-03%float; 0x1.937e04d94711ap-03%float; 0x1.aaa7660b6ed51p-04%float; 0x1.bb6523f418de7p-01%float; 0x1.21bb238153d06p-03%float; 0x1.3333333333333p-02%float; 0x1.999999999999ap-02%float; 0x1.3333333333333p-02%float; 0x1.3333333333333p-02%float; 0x1.999999999999ap-03%float; 0x1.999999999999ap-03%float] 16 3 20 0 true [12; 4] [0x1p-01%float; 0x1p-01%float].
Definition ex_genome : genome := GN 1 [(T 1 [0x1.999999999999ap-04%float; zero; zero; zero; zero; zero; zero; zero]); (T 2 [0x1.999999999999ap-03%float; zero; zero; zero; zero; zero; zero; zero]); (T 3 [0x1.3333333333333p-02%float; zero; zero; zero; zero; zero; zero; zero])] [(N 1 1 17 None); (N 2 1 17 None); (N 3 3 17 None); (N 4 2 4 None)] [(G 1 4 false zero (Some 1) 1 zero true); (G 2 4 false zero (Some 2) 2 zero true); (G 3 4 false zero (Some 3) 3 zero true)] [].
Definition ex_s0 : st := {| s_tape := go_tape 8274700777983696934 3000; s_env := EV [] 0 0 |}.
Definition ex_fit : list float := [1; 2; 3; 4; 5; 6; 7; 8; 9; 10; 11; 12; 13; 14; 15; 16]%float.
Definition ex_x0 : executor := {| x_best_id := 0; x_best_reproduced := false |}.
(* size, (id, age, novel) per species, member keys per species, genome ids, LastSpecies, next key *)
Definition ex_summary (p : population) :=
  (zlen (p_orgs p), map meta (p_species p), map sp_orgs (p_species p), map (gid_at (p_heap p)) (p_orgs p),
   p_last_species p, p_next_key p).
Definition ex_run :=
  match new_population ex_opts ex_genome ex_s0 with
  | Ok (p, s) =>
    match run_epochs ex_opts [(ex_fit, 1); (ex_fit, 2); (ex_fit, 3)] p ex_x0 s with
    | Ok (p', _, _) => Some (ex_summary p, ex_summary p')
    | _ => None
    end
  | _ => None
  end.

Example C02_example :
  ex_run = Some
    ((16, [(1, 1, true); (2, 1, true); (3, 1, true)],
      [[0; 2; 3; 4; 5; 6; 7; 8; 11; 12; 15]; [1; 9]; [10; 13; 14]],
      [0; 1; 2; 3; 4; 5; 6; 7; 8; 9; 10; 11; 12; 13; 14; 15], 3, 16),
     (16, [(6, 3, false); (8, 3, false); (14, 2, false); (15, 1, false); (16, 1, false); (17, 1, false);
           (18, 1, false); (19, 1, false); (20, 1, false); (21, 1, false); (22, 1, false); (23, 1, false);
           (24, 1, false); (25, 1, false)],
      [[49]; [50]; [62; 63]; [48]; [51]; [52]; [53]; [54]; [55]; [56; 58]; [57]; [59]; [60]; [61]],
      [0; 1; 2; 3; 4; 5; 6; 7; 8; 9; 10; 11; 12; 13; 14; 15], 25, 64)).
Proof. vm_compute. reflexivity. Qed.

(* the hypotheses of C02_step / C02_history are satisfiable: the spawned population of the example
   satisfies the invariant *)
Example C02_example_part :
  exists p s, new_population ex_opts ex_genome ex_s0 = Ok (p, s) /\ Part p /\
              (forall y, In y (p_species p) -> 1 <= sp_age y).
Proof.
  destruct (is_ok_pair (new_population ex_opts ex_genome ex_s0)) as (p & s & E); [vm_compute; reflexivity|].
  exists p, s. split; [exact E|]. apply C02_init in E. destruct E as (HP & _ & _ & _ & Hs).
  split; [exact HP|]. intros y Hy. destruct (Hs y Hy) as (-> & _). discriminate.
Qed.

(* the quota hypothesis and "the population survives" hold on the example: after
   prepareForReproduction of the first epoch the quotas total PopSize and no species is empty *)
Example C02_example_quota :
  match new_population ex_opts ex_genome ex_s0 with
  | Ok (p, s) =>
    match set_fitness (p_heap p) (p_orgs p) ex_fit with
    | Ok h =>
      match prepare ex_opts (p_with_heap p h) s with
      | Ok ((p1, _, _), _) =>
        Z.eqb (sum_exp (p_species p1)) (o_pop_size ex_opts) &&
        forallb (fun y => negb (Nat.eqb (length (sp_orgs y)) 0)) (p_species p1) &&
        negb (Nat.eqb (length (p_species p1)) 0)
      | _ => false
      end
    | _ => false
    end
  | _ => false
  end = true.
Proof. vm_compute. reflexivity. Qed.

(* ============================================================================================ *)
(* "succeeds without error", closed: the per-baby body never fails either.                       *)
(* Proofs: proofs/EpochTotalMut.v (every mutator and duplicate), EpochTotalBaby.v (the per-baby   *)
(* body, the breeding loops, the epoch), EpochTotalQuota.v (the quota chain: prepareForReproduction *)
(* hands out exactly PopSize offspring), EpochTotalFloat.v (binary64: rand.Float64() lies in      *)
(* [0,1), the interspecies index and the activation roulette stay in range), EpochTotal.v.         *)
(*                                                                                                *)
(* Vocabulary added here (one line each, all definitions in proofs/EpochTotalDefs.v,              *)
(* EpochTotalQuota.v, EpochTotal.v; C02_vocabulary below unfolds them):                            *)
(*   tape_ok t               every cell of the tape is a genuine Int63() draw, 0 <= c < 2^63       *)
(*   records_traits_ok e n   every recorded innovation names a trait index in [0, n)               *)
(*   acts_ok o               NodeActivators is not empty; with two or more entries there are as   *)
(*                           many probabilities and their float total is finite and >= 0           *)
(*   exps_nonneg h           no organism of the heap carries a negative ExpectedOffspring          *)
(*                           (an invariant of runs; since int(x) is modelled as on amd64 it is no   *)
(*                           longer a hypothesis of the theorems: NaN and +Inf are "not negative"   *)
(*                           but convert to math.MinInt64)                                          *)
(*   survivors_ok o          int(floor(SurvivalThresh*n+1)) >= 1 for every species size n < 2^31    *)
(*   quota_sum_ok o p        "Hsum", the one float-dependent hypothesis: the floor-and-carry total *)
(*                           countOffspring accumulates over all species does not exceed PopSize   *)
(*                           (in exact arithmetic it equals PopSize: C09_total_exact; the harness  *)
(*                           monitors it on the implementation), and no species' computed quota is *)
(*                           negative (a negative quota is math.MinInt64, the amd64 conversion of   *)
(*                           an ExpectedOffspring that is NaN, +Inf or >= 2^63)                     *)
(*   quota_run_ok o steps p x s   quota_sum_ok in every epoch of the run                           *)
(*   GInv C p e R NR         the registry invariant of C03 (props/C03.v)                           *)
(* ============================================================================================ *)
From NeatModel Require Import Mutate Dup Registry PopWF EpochTotalDefs EpochTotalQuota EpochTotalSurv EpochTotal.

Notation innovs := Genome.innovs.

Theorem C02_vocabulary :
  (forall t, tape_ok t <-> Forall (fun c => 0 <= c < 2 ^ 63) t) /\
  (forall e n, records_traits_ok e n <-> forall i, In i (innovs e) -> 0 <= i_trait i < n) /\
  (forall o, acts_ok o <->
     match o_activators o with
     | [] => False
     | [_] => True
     | acts => length acts = length (o_activator_probs o) /\
               PrimFloat.leb 0 (fold_left PrimFloat.add (o_activator_probs o) 0%float) = true /\
               PrimFloat.ltb (fold_left PrimFloat.add (o_activator_probs o) 0%float) infinity = true
     end) /\
  (forall h, exps_nonneg h <-> forall y, In y h -> PrimFloat.ltb (o_exp y) 0 = false) /\
  (forall o p, quota_sum_ok o p <->
     forall h1 sps1 p2 sps T,
       adjust_all o (p_heap p) (p_species p) = Ok (h1, sps1) ->
       purge_zero_offspring (p_with p sps1 (p_detached p) (p_orgs p) h1) = Ok p2 ->
       count_all (p_heap p2) sps1 0%float 0 = Ok (sps, T) ->
       T <= o_pop_size o /\ forall sp, In sp sps -> 0 <= sp_exp sp) /\
  (forall o, survivors_ok o <->
     forall n, 1 <= n < 2 ^ 31 ->
       1 <= f_trunc_Z (ffloor (PrimFloat.add (PrimFloat.mul (o_survival o) (f_of_Z n)) 1%float))) /\
  (forall o fs gen rest p x s, quota_run_ok o ((fs, gen) :: rest) p x s <->
     forall h, set_fitness (p_heap p) (p_orgs p) fs = Ok h ->
       quota_sum_ok o (p_with_heap p h) /\
       forall p' x' s', next_epoch o gen (p_with_heap p h) x s = Ok ((p', x'), s') -> quota_run_ok o rest p' x' s') /\
  (forall o p x s, quota_run_ok o [] p x s <-> True).
Proof. repeat (split; [intros; reflexivity|]). intros; reflexivity. Qed.
Print Assumptions C02_vocabulary.

(* operator level: applied to a well-formed genome, in a state whose innovation records name valid
   trait indices and whose tape holds genuine draws, every mutator returns Ok or runs out of tape:
   no error return (no traits / no genes / wrong gene / genesis failed / no activators ...) and no
   panic (index out of range, rand.Intn(0), nil node) is reachable; duplicate always succeeds.
   mutateAllNonstructural additionally needs the genome to be consistent with the innovation
   environment (env_ok, C01) because the proof threads well-formedness through the cascade. *)
Theorem C02_mutators_succeed : forall o g s pw rt ga times id,
  wf g -> records_traits_ok (s_env s) (zlen (traits g)) -> tape_ok (s_tape s) -> acts_ok o ->
  safe (mutate_add_node o g s) /\ safe (mutate_add_link o g s) /\ safe (mutate_connect_sensors g s) /\
  safe (mutate_link_weights pw rt ga g s) /\ safe (mutate_random_trait o g s) /\
  safe (mutate_link_trait times g s) /\ safe (mutate_node_trait times g s) /\
  safe (mutate_toggle_enable times g s) /\ safe (mutate_gene_reenable g s) /\
  (env_ok (s_env s) g -> safe (mutate_all_nonstructural o g s)) /\
  duplicate g id = Ok (with_id g id).
Proof. exact mutators_succeed. Qed.
Print Assumptions C02_mutators_succeed.

Theorem C02_safe_meaning : forall (A : Type) (r : res A), safe r <-> (exists a, r = Ok a) \/ r = OutOfTape.
Proof. intros A r. reflexivity. Qed.
Print Assumptions C02_safe_meaning.

(* ... and the structural mutators maintain the hypothesis about the records *)
Theorem C02_mutators_keep_records : forall o g s g' b s',
  wf g -> records_traits_ok (s_env s) (zlen (traits g)) -> tape_ok (s_tape s) -> acts_ok o ->
  mutate_add_node o g s = Ok ((g', b), s') \/ mutate_add_link o g s = Ok ((g', b), s') \/
  mutate_connect_sensors g s = Ok ((g', b), s') ->
  records_traits_ok (s_env s') (zlen (traits g)).
Proof. exact mutators_keep_records. Qed.
Print Assumptions C02_mutators_keep_records.

(* one epoch.  For every options record, generation number, executor state and tape of genuine
   draws: if the population satisfies the book-keeping invariant (Part, Fresh, PopSize organisms)
   and the registry invariant of C03 for some context C (all genomes well-formed, consistent with
   the innovation environment, relatives of one another with the trait shape of C), the innovation
   records name valid trait indices, and the options are sane
   (0 < PopSize < 2^31, activators usable, survival threshold keeps the champion, CompatThreshold
   not 0), then under Hsum (the chain total does not exceed PopSize and no computed quota is negative)
   NextEpoch returns a population or runs out of tape.  No error return
   and no panic of the whole turnover is reachable: neither in the epoch's own book-keeping
   (C02_no_error_partial) nor in duplicate, the mutators, the three crossovers and the parent
   draws of the per-baby body. *)
Theorem C02_epoch_succeeds : forall C o gen p x s R NR,
  Part p -> Fresh p -> zlen (p_orgs p) = o_pop_size o -> 0 < o_pop_size o < 2 ^ 31 ->
  GInv C p (s_env s) R NR -> records_traits_ok (s_env s) (zlen (c_tshape C)) ->
  acts_ok o -> survivors_ok o -> PrimFloat.eqb (o_compat_thresh o) 0 = false ->
  quota_sum_ok o p -> tape_ok (s_tape s) ->
  (exists r, next_epoch o gen p x s = Ok r) \/ next_epoch o gen p x s = OutOfTape.
Proof. exact epoch_succeeds. Qed.
Print Assumptions C02_epoch_succeeds.

(* the hypothesis survivors_ok (at least the champion of a species survives: int(floor(SurvivalThresh*n+1)) >= 1
   for every species size 1 <= n < 2^31) holds for every SurvivalThresh in [0, 1] (indeed up to 2^29:
   C10_num_parents_positive); "finite and not negative" would not be enough: for SurvivalThresh = 2^1023
   the product overflows to +Inf and Go's int(+Inf) is math.MinInt64 = -2^63 on amd64 (the model follows
   amd64: F64.f_trunc_Z, platform assumption "amd64-cvttsd2sq"); a negative numParents then makes
   adjustFitness panic with an index out of range (C02_adjust_fitness_panics_on_survival_overflow) *)
Theorem C02_survivors_ok_sufficient : forall o,
  PrimFloat.leb 0 (o_survival o) = true -> PrimFloat.leb (o_survival o) 1 = true -> survivors_ok o.
Proof. exact survivors_ok_unit. Qed.
Print Assumptions C02_survivors_ok_sufficient.

(* NewPopulation from a well-formed start genome succeeds or runs out of tape *)
Theorem C02_spawn_succeeds : forall o g s,
  wf g -> 0 < o_pop_size o -> PrimFloat.eqb (o_compat_thresh o) 0 = false ->
  (exists r, new_population o g s = Ok r) \/ new_population o g s = OutOfTape.
Proof. exact spawn_succeeds. Qed.
Print Assumptions C02_spawn_succeeds.

(* whole runs: a population spawned from a well-formed start genome on a tape of genuine draws,
   then any number of rounds of (assign arbitrary fitness values; turn the epoch over with an
   arbitrary generation number): every NextEpoch, and the evaluator's write-back before it, succeeds
   or the tape runs out.  All structural hypotheses of C02_epoch_succeeds are established by
   NewPopulation and re-established by every epoch (Part/Fresh/size: C02_init, C02_step; GInv:
   C03; records: the record is emptied at the end of an epoch; ExpectedOffspring: EpochTotalQuota);
   what remains are the hypotheses on the options and Hsum for every epoch of the run. *)
Theorem C02_history_succeeds : forall o g s0 steps x p s,
  wf g -> innovs (s_env s0) = [] -> tape_ok (s_tape s0) ->
  0 < o_pop_size o < 2 ^ 31 -> acts_ok o -> survivors_ok o -> PrimFloat.eqb (o_compat_thresh o) 0 = false ->
  new_population o g s0 = Ok (p, s) -> quota_run_ok o steps p x s ->
  (exists r, PopInv.run_epochs o steps p x s = Ok r) \/ PopInv.run_epochs o steps p x s = OutOfTape.
Proof. exact history_succeeds. Qed.
Print Assumptions C02_history_succeeds.

(* non-vacuity: the hypotheses of C02_history_succeeds hold on the example run above (the start
   genome is well-formed, the record empty, all 3000 tape cells genuine draws, the options sane,
   the population is constructed, and Hsum holds in each of the three epochs) *)
Example C02_example_wf_start : wf ex_genome.
Proof.
  constructor.
  - discriminate.
  - unfold genes_sorted, InsertSpec.asc. cbn. repeat constructor.
  - unfold links_nodup. cbn. repeat constructor; cbn; intuition discriminate.
  - unfold nodes_sorted, InsertSpec.asc. cbn. repeat constructor.
  - intros y [<-|[<-|[<-|[]]]]; cbn; eexists; eexists; repeat split.
  - split.
    + intros y t [<-|[<-|[<-|[]]]] [= <-]; (split; [discriminate|]); cbn; eauto 8.
    + intros n t [<-|[<-|[<-|[<-|[]]]]]; discriminate.
  - split; [discriminate|]. exists 1. split; [reflexivity|reflexivity].
  - exists (N 4 2 4 None). split; [cbn; auto|reflexivity].
  - reflexivity.
Qed.

Example C02_example_succeeds_hypotheses :
  wf ex_genome /\ innovs (s_env ex_s0) = [] /\ tape_ok (s_tape ex_s0) /\
  0 < o_pop_size ex_opts < 2 ^ 31 /\ acts_ok ex_opts /\ survivors_ok ex_opts /\
  PrimFloat.eqb (o_compat_thresh ex_opts) 0 = false /\
  exists p s, new_population ex_opts ex_genome ex_s0 = Ok (p, s) /\
              quota_run_ok ex_opts [(ex_fit, 1); (ex_fit, 2); (ex_fit, 3)] p ex_x0 s.
Proof.
  split; [exact C02_example_wf_start|]. split; [reflexivity|].
  split; [apply tape_okb_ok; vm_compute; reflexivity|].
  split; [vm_compute; split; reflexivity|].
  split; [vm_compute; repeat split; reflexivity|].
  split; [apply C02_survivors_ok_sufficient; vm_compute; reflexivity|].
  split; [vm_compute; reflexivity|].
  destruct (is_ok_pair (new_population ex_opts ex_genome ex_s0)) as (p & s & E); [vm_compute; reflexivity|].
  exists p, s. split; [exact E|]. apply quota_run_okb_ok.
  assert (H : match new_population ex_opts ex_genome ex_s0 with
              | Ok (p, s) => quota_run_okb ex_opts [(ex_fit, 1); (ex_fit, 2); (ex_fit, 3)] p ex_x0 s
              | _ => false
              end = true) by (vm_compute; reflexivity).
  rewrite E in H. exact H.
Qed.

(* ============================================================================================ *)
(* agent-quota: Hsum ([quota_sum_ok]) — refuted for subnormal fitness values, proved for all       *)
(* ordinary ones (proofs/QuotaFloatSum.v, QuotaFloatSumA.v, QuotaFloatSumB.v)                      *)
(* ============================================================================================ *)
From NeatModel Require QuotaFloatSum QuotaFloatSumB.

(* Recorded finding `subnormal-fitness-quota-overshoot` (known_findings.txt, C02): Hsum does NOT
   follow from "fitness finite and not negative".  NewPopulation with PopSize 4 (one species), the
   evaluator assigns the raw fitness values (8,4,4,4) x 2^-1074: every hypothesis of
   C02_epoch_succeeds other than Hsum holds, all fitness values are finite and positive, Hsum fails
   (shared values (2,1,1,1) units, average 5/4 units rounded to 1 unit, expected offspring total
   5 > 4), and NextEpoch returns error 74, "progeny size after reproduction cycle dimished,
   expected: [4], but got: [5]".  (C02_full above carries the quota total as a hypothesis of its
   own, so this input does not contradict C02_full; it shows that Hsum cannot be dropped from
   C02_epoch_succeeds / C02_history_succeeds without a hypothesis on the fitness values.) *)
Theorem C02_epoch_fails_subnormal :
  exists C o gen p x s R NR,
    Part p /\ Fresh p /\ zlen (p_orgs p) = o_pop_size o /\ 0 < o_pop_size o < 2 ^ 31 /\
    GInv C p (s_env s) R NR /\ records_traits_ok (s_env s) (zlen (c_tshape C)) /\
    acts_ok o /\ survivors_ok o /\ PrimFloat.eqb (o_compat_thresh o) 0 = false /\
    exps_nonneg (p_heap p) /\ tape_ok (s_tape s) /\
    (forall k y, In k (p_orgs p) -> hget (p_heap p) k = Ok y ->
                 PrimFloat.leb 0%float (o_fit y) = true /\ PrimFloat.ltb (o_fit y) infinity = true) /\
    ~ quota_sum_ok o p /\
    next_epoch o gen p x s = GoErr 74.
Proof. exact QuotaFloatSum.quota_sum_subnormal_refuted. Qed.
Print Assumptions C02_epoch_fails_subnormal.

(* the same as a run: every hypothesis of C02_history_succeeds other than quota_run_ok holds, the one
   fitness assignment consists of finite positive numbers, and the run fails with error 74 *)
Theorem C02_history_fails_subnormal :
  exists o g s0 steps x p s,
    wf g /\ innovs (s_env s0) = [] /\ tape_ok (s_tape s0) /\
    0 < o_pop_size o < 2 ^ 31 /\ acts_ok o /\ survivors_ok o /\ PrimFloat.eqb (o_compat_thresh o) 0 = false /\
    new_population o g s0 = Ok (p, s) /\
    Forall (fun st => Forall (fun f => PrimFloat.ltb 0%float f = true /\ PrimFloat.ltb f infinity = true) (fst st)) steps /\
    PopInv.run_epochs o steps p x s = GoErr 74.
Proof. exact QuotaFloatSum.history_subnormal_fails. Qed.
Print Assumptions C02_history_fails_subnormal.

(* Hsum from the RAW fitness values (Organism.Fitness as the evaluator left it, before
   Species.adjustFitness).  For every population satisfying the book-keeping invariant with PopSize
   organisms: if there are at most 2^20 organisms, AgeSignificance lies in [2^-32, 2^32], every raw
   fitness value f is finite with 0 <= f <= 2^900 and at least one is >= 2^-900 (this excludes the
   finding above), then the floor-and-carry total of the offspring chain does not exceed PopSize and
   no computed quota is negative (every ExpectedOffspring is a finite value in [0, 2^21]).
   Through adjustFitness (x0.01 stagnation penalty, x AgeSignificance youth boost, division by the
   species size: the shared values stay in [0, 2^1000] and one stays >= 2^-1000), then the binary64
   error analysis of proofs/QuotaFloatSumA.v (Flocq): T <= n + 2^-10 < n + 1. *)
Theorem C02_quota_sum_ok_from_fitness : forall o p,
  Part p -> zlen (p_orgs p) = o_pop_size o ->
  zlen (p_orgs p) <= 2 ^ 20 ->
  PrimFloat.leb 0x1p-32%float (o_age_sig o) = true /\ PrimFloat.leb (o_age_sig o) 0x1p+32%float = true ->
  (forall k y, In k (p_orgs p) -> hget (p_heap p) k = Ok y ->
               PrimFloat.leb 0%float (o_fit y) = true /\ PrimFloat.leb (o_fit y) 0x1p+900%float = true) ->
  (exists k y, In k (p_orgs p) /\ hget (p_heap p) k = Ok y /\ PrimFloat.leb 0x1p-900%float (o_fit y) = true) ->
  quota_sum_ok o p.
Proof.
  intros o p HP Hsz Hn Hsig Hall Hex.
  exact (QuotaFloatSumB.quota_sum_ok_from_fitness o p HP Hsz (conj Hn (conj Hsig (conj Hall Hex)))).
Qed.
Print Assumptions C02_quota_sum_ok_from_fitness.

(* one epoch without Hsum: C02_epoch_succeeds with the hypothesis on the fitness values instead *)
Theorem C02_epoch_succeeds_from_fitness : forall C o gen p x s R NR,
  Part p -> Fresh p -> zlen (p_orgs p) = o_pop_size o -> 0 < o_pop_size o < 2 ^ 31 ->
  GInv C p (s_env s) R NR -> records_traits_ok (s_env s) (zlen (c_tshape C)) ->
  acts_ok o -> survivors_ok o -> PrimFloat.eqb (o_compat_thresh o) 0 = false ->
  (zlen (p_orgs p) <= 2 ^ 20 /\
   (PrimFloat.leb 0x1p-32%float (o_age_sig o) = true /\ PrimFloat.leb (o_age_sig o) 0x1p+32%float = true) /\
   (forall k y, In k (p_orgs p) -> hget (p_heap p) k = Ok y ->
                PrimFloat.leb 0%float (o_fit y) = true /\ PrimFloat.leb (o_fit y) 0x1p+900%float = true) /\
   (exists k y, In k (p_orgs p) /\ hget (p_heap p) k = Ok y /\ PrimFloat.leb 0x1p-900%float (o_fit y) = true)) ->
  tape_ok (s_tape s) ->
  (exists r, next_epoch o gen p x s = Ok r) \/ next_epoch o gen p x s = OutOfTape.
Proof. exact QuotaFloatSumB.epoch_succeeds_from_fitness. Qed.
Print Assumptions C02_epoch_succeeds_from_fitness.

(* whole runs without quota_run_ok: a population spawned from a well-formed start genome on a tape of
   genuine draws, 0 < PopSize <= 2^20, AgeSignificance in [2^-32, 2^32], then any number of rounds in
   each of which the evaluator assigns one fitness value per organism, every value finite with
   0 <= f <= 2^900 and at least one >= 2^-900: every NextEpoch succeeds or the tape runs out.  No
   float-level hypothesis is left; what remains are the hypotheses on the options. *)
Theorem C02_history_succeeds_from_fitness : forall o g s0 steps x p s,
  wf g -> innovs (s_env s0) = [] -> tape_ok (s_tape s0) ->
  0 < o_pop_size o <= 2 ^ 20 ->
  PrimFloat.leb 0x1p-32%float (o_age_sig o) = true /\ PrimFloat.leb (o_age_sig o) 0x1p+32%float = true ->
  acts_ok o -> survivors_ok o -> PrimFloat.eqb (o_compat_thresh o) 0 = false ->
  new_population o g s0 = Ok (p, s) ->
  Forall (fun st => Z.of_nat (length (fst st)) = o_pop_size o /\
                    Forall (fun f => PrimFloat.leb 0%float f = true /\ PrimFloat.leb f 0x1p+900%float = true) (fst st) /\
                    Exists (fun f => PrimFloat.leb 0x1p-900%float f = true) (fst st)) steps ->
  (exists r, PopInv.run_epochs o steps p x s = Ok r) \/ PopInv.run_epochs o steps p x s = OutOfTape.
Proof. exact QuotaFloatSumB.history_succeeds_from_fitness. Qed.
Print Assumptions C02_history_succeeds_from_fitness.

(* non-vacuity: the hypotheses of C02_history_succeeds_from_fitness hold on the example run above
   (16 organisms, fitness values 1 ... 16 in each of the three rounds, AgeSignificance 1) *)
Example C02_example_from_fitness_hypotheses :
  wf ex_genome /\ innovs (s_env ex_s0) = [] /\ tape_ok (s_tape ex_s0) /\
  0 < o_pop_size ex_opts <= 2 ^ 20 /\
  (PrimFloat.leb 0x1p-32%float (o_age_sig ex_opts) = true /\ PrimFloat.leb (o_age_sig ex_opts) 0x1p+32%float = true) /\
  acts_ok ex_opts /\ survivors_ok ex_opts /\ PrimFloat.eqb (o_compat_thresh ex_opts) 0 = false /\
  (exists p s, new_population ex_opts ex_genome ex_s0 = Ok (p, s)) /\
  Forall (fun st => Z.of_nat (length (fst st)) = o_pop_size ex_opts /\
                    Forall (fun f => PrimFloat.leb 0%float f = true /\ PrimFloat.leb f 0x1p+900%float = true) (fst st) /\
                    Exists (fun f => PrimFloat.leb 0x1p-900%float f = true) (fst st))
         [(ex_fit, 1); (ex_fit, 2); (ex_fit, 3)].
Proof.
  destruct C02_example_succeeds_hypotheses as (A1 & A2 & A3 & A4 & A5 & A6 & A7 & p & s & E & _).
  split; [exact A1|]. split; [exact A2|]. split; [exact A3|]. split; [vm_compute; split; [reflexivity|discriminate]|].
  split; [split; vm_compute; reflexivity|]. split; [exact A5|]. split; [exact A6|]. split; [exact A7|].
  split; [exists p, s; exact E|].
  assert (H : Z.of_nat (length ex_fit) = o_pop_size ex_opts /\
              Forall (fun f => PrimFloat.leb 0%float f = true /\ PrimFloat.leb f 0x1p+900%float = true) ex_fit /\
              Exists (fun f => PrimFloat.leb 0x1p-900%float f = true) ex_fit).
  { split; [reflexivity|]. split.
    - apply Forall_forall. intros f Hf. cbn in Hf.
      repeat (destruct Hf as [<-|Hf]; [split; vm_compute; reflexivity|]). destruct Hf.
    - apply Exists_cons_hd. vm_compute. reflexivity. }
  repeat constructor; exact H || apply H.
Qed.

(* ============================================================================================ *)
(* agent-trunc: Go's int(x) for float64 x is modelled for EVERY x as compiled for amd64            *)
(* (base/F64.v, f_trunc_Z; platform assumption "amd64-cvttsd2sq": CVTTSD2SQ yields the integer      *)
(* indefinite math.MinInt64 = -2^63 for NaN, +Inf, -Inf and every finite value outside             *)
(* [-2^63, 2^63); the Go specification leaves such conversions implementation-defined).  With that  *)
(* the model reproduces the recorded finding `fitness-overflow-quota-panic` (known_findings.txt).   *)
(* ============================================================================================ *)

(* the options of C02_epoch_fails_subnormal (PopSize 4, one species) with AgeSignificance 1.1 *)
Definition ov_opts : options := OPT [0x1p-01%float; 0x1p+00%float; 0x1.4p+01%float; 0x1p+00%float; 0x1p+00%float; 0x1.999999999999ap-02%float; 0x1p+30%float; 0x1.199999999999ap+00%float; 0x1.999999999999ap-04%float; 0x1.412feefadd96fp-01%float; 0x1.999999999999ap-04%float; 0x1.999999999999ap-04%float; 0x1.999999999999ap-04%float; 0x1.ccccccccccccdp-01%float; 0x1.3559a2dae866cp-03%float; 0x1.937e04d94711ap-03%float; 0x1.aaa7660b6ed51p-04%float; 0x1.bb6523f418de7p-01%float; 0x1.21bb238153d06p-03%float; 0x1.3333333333333p-02%float; 0x1.999999999999ap-02%float; 0x1.3333333333333p-02%float; 0x1.3333333333333p-02%float; 0x1.999999999999ap-03%float; 0x1.999999999999ap-03%float] 4 3 20 0 true [12; 4] [0x1p-01%float; 0x1p-01%float].
(* raw fitness (1.7e308, 1, 1, 1): finite and positive *)
Definition ov_fit : list float := [0x1.e42d130773b76p+1023%float; 1%float; 1%float; 1%float].

(* NewPopulation, the evaluator's write-back, one NextEpoch *)
Definition ov_epoch (o : options) (fit : list float) : res (population * executor * st) :=
  match new_population o QuotaFloatSum.sn_genome QuotaFloatSum.sn_s0 with
  | Ok (p, s) => match set_fitness (p_heap p) (p_orgs p) fit with
                 | Ok h => next_epoch o 1 (p_with_heap p h) QuotaFloatSum.sn_x0 s
                 | _ => BadOracle
                 end
  | _ => BadOracle
  end.

(* Four organisms of one young species, fitness (1.7e308, 1, 1, 1), AgeSignificance 1.1: all values
   finite and positive.  The youth boost 1.7e308 * 1.1 overflows to +Inf, the average is +Inf, the
   expected offspring of organism 0 is +Inf/+Inf = NaN (0 for the others), int(math.Floor(NaN)) =
   math.MinInt64, the species' quota and the chain total are -2^63, no species has a quota >= 0 to
   receive the fallback, every species is purged and prepareForReproduction indexes the empty sorted
   species list: the model's NextEpoch returns the index-out-of-range panic (code 2), as the
   implementation does ("index out of range [0] with length 0"; the harness family fitnessOverflow
   compares this very input).  Under the former totalised int(NaN) = 0 the model returned Ok. *)
Theorem C02_epoch_panics_on_boost_overflow :
  ov_epoch ov_opts ov_fit = GoPanic 2 /\
  Forall (fun f => PrimFloat.ltb 0%float f = true /\ PrimFloat.ltb f infinity = true) ov_fit /\
  PrimFloat.mul 0x1.e42d130773b76p+1023%float (o_age_sig ov_opts) = infinity /\
  f_trunc_Z (ffloor PrimFloat.nan) = - 2 ^ 63.
Proof.
  split; [vm_compute; reflexivity|]. split; [repeat constructor; vm_compute; reflexivity|].
  split; vm_compute; reflexivity.
Qed.
Print Assumptions C02_epoch_panics_on_boost_overflow.

(* the same population with AgeSignificance 1 (no overflow): the epoch succeeds *)
Example C02_epoch_ok_without_boost :
  match ov_epoch QuotaFloatSum.sn_opts ov_fit with Ok _ => true | _ => false end = true.
Proof. vm_compute. reflexivity. Qed.

(* ... and Hsum (quota_sum_ok, now including "no computed quota is negative") fails on the overflow
   input, as it must by C02_epoch_succeeds: the executable check says so *)
Example C02_overflow_refutes_hsum :
  match new_population ov_opts QuotaFloatSum.sn_genome QuotaFloatSum.sn_s0 with
  | Ok (p, s) => match set_fitness (p_heap p) (p_orgs p) ov_fit with
                 | Ok h => quota_sum_okb ov_opts (p_with_heap p h)
                 | _ => true end
  | _ => true end = false.
Proof. vm_compute. reflexivity. Qed.

(* SurvivalThresh = 2^1023 (finite, positive): 2^1023 * 4 overflows, int(+Inf) = math.MinInt64 is a
   negative numParents and adjustFitness panics with an index out of range (the implementation:
   "index out of range [-9223372036854775808]") *)
Definition ov_opts_survival : options := OPT [0x1p-01%float; 0x1p+00%float; 0x1.4p+01%float; 0x1p+00%float; 0x1p+00%float; 0x1.999999999999ap-02%float; 0x1p+30%float; 0x1p+00%float; 0x1p+1023%float; 0x1.412feefadd96fp-01%float; 0x1.999999999999ap-04%float; 0x1.999999999999ap-04%float; 0x1.999999999999ap-04%float; 0x1.ccccccccccccdp-01%float; 0x1.3559a2dae866cp-03%float; 0x1.937e04d94711ap-03%float; 0x1.aaa7660b6ed51p-04%float; 0x1.bb6523f418de7p-01%float; 0x1.21bb238153d06p-03%float; 0x1.3333333333333p-02%float; 0x1.999999999999ap-02%float; 0x1.3333333333333p-02%float; 0x1.3333333333333p-02%float; 0x1.999999999999ap-03%float; 0x1.999999999999ap-03%float] 4 3 20 0 true [12; 4] [0x1p-01%float; 0x1p-01%float].
Example C02_adjust_fitness_panics_on_survival_overflow :
  ov_epoch ov_opts_survival [4; 3; 2; 1]%float = GoPanic 2 /\ ~ survivors_ok ov_opts_survival.
Proof.
  split; [vm_compute; reflexivity|]. exact (proj1 (proj2 (proj2 (survivors_ok_overflow_refuted ov_opts_survival eq_refl)))).
Qed.

(* ---------- tie of the quota loop to the source (main session) ---------- *)
(* the floor-and-carry loop that the epoch model runs inside count_all is the translation of
   Species.countOffspring, regenerated from neat/genetics/species.go on every run (gen/QuotaLoop.v);
   an edit of that loop breaks this obligation of C02 as well *)
From NeatModel Require QuotaLoop QuotaLoopAgree.
Theorem C02_quota_loop_is_the_translated_source :
  forall (orgs : list organism) (skim : float),
    count_offspring orgs 0 skim = QuotaLoop.gen_count_offspring (map o_exp orgs) skim.
Proof. exact QuotaLoopAgree.count_offspring_is_translated. Qed.
Print Assumptions C02_quota_loop_is_the_translated_source.

(* ============================================================================================ *)
(* ==== agent-full: C02_full is settled (proofs/FullStatementsC02.v) ========================== *)
(* C02_full as stated above is FALSE: it says nothing about the innovation environment s_env s     *)
(* (GInv, records_traits_ok) nor about the activator table (acts_ok).  It is refuted by concrete   *)
(* states; the corrected statement C02_full' (= C02_full plus exactly these three hypotheses) is   *)
(* proved.  C02_epoch_succeeds / C02_epoch_succeeds_from_fitness above are its consequences with   *)
(* the quota hypothesis discharged from Hsum / from the raw fitness values.                        *)
(* ============================================================================================ *)
From NeatModel Require FullStatementsC02.

Theorem C02_full_refuted : ~ C02_full.
Proof. exact FullStatementsC02.epoch_full_refuted. Qed.
Print Assumptions C02_full_refuted.

(* Witness (b), the one used for C02_full_refuted.  NewPopulation(xorStart, options) after
   rand.Seed(42), options = baseOptions() of the harness with PopSize 6, CompatThreshold 6,
   AgeSignificance 1, MutateOnlyProb 1, MutateAddNodeProb 0, MutateAddLinkProb 1, RecurOnlyProb 1,
   MateOnlyProb 0 (one activator: acts_ok holds); fitness 1..6; then the population's innovation
   record is given ONE entry, the link innovation NewInnovationForRecurrentLink(4, 4, 99, 0.5, 7, true),
   whose trait index 7 is outside the three traits every genome has; NextEpoch(generation 1).  Every
   hypothesis of C02_full holds, the options are sane, and NextEpoch panics with an index out of range
   (model: GoPanic 2; implementation: "index out of range [7] with length 3" in mutateAddLink, which
   re-uses the recorded innovation for the new recurrent link 4 -> 4 and indexes g.Traits with the
   recorded trait number).  With the record emptied the same epoch succeeds.  Such a state is NOT
   reachable from NewPopulation and NextEpoch alone (the record is empty between epochs and the mutators
   only store trait indices they drew below len(Traits): C02_mutators_keep_records); it takes a call of
   the exported Population.StoreInnovation. *)
Theorem C02_full_needs_environment_hypotheses :
  exists o gen p x s,
    Part p /\ Fresh p /\ zlen (p_orgs p) < 2 ^ 31 /\ survivors_ok o /\ survives o p /\ 0 < o_pop_size o /\
    PrimFloat.eqb (o_compat_thresh o) 0 = false /\
    (forall p1 sorted best s1, prepare o p s = Ok ((p1, sorted, best), s1) -> sum_exp (p_species p1) = o_pop_size o) /\
    (forall k y, In k (p_orgs p) -> hget (p_heap p) k = Ok y -> wf (o_genome y)) /\
    Forall (fun c => 0 <= c < 2 ^ 63) (s_tape s) /\
    acts_ok o /\
    (exists i, innovs (s_env s) = [i] /\ i_type i = 2 /\ i_trait i = 7 /\
               forall k y, In k (p_orgs p) -> hget (p_heap p) k = Ok y -> zlen (traits (o_genome y)) = 3) /\
    next_epoch o gen p x s = GoPanic 2 /\
    is_ok (next_epoch o gen p x {| s_tape := s_tape s;
                                   s_env := {| innovs := []; next_innov := next_innov (s_env s);
                                               next_node := next_node (s_env s) |} |}) = true.
Proof. exact FullStatementsC02.epoch_full_needs_environment. Qed.
Print Assumptions C02_full_needs_environment_hypotheses.

(* Witness (a): the same spawn with NodeActivators = [] (and MutateAddNodeProb 1, MateOnlyProb 0), record
   empty, fitness 1..6: every hypothesis of C02_full holds and NextEpoch returns error 20 (the
   implementation: "no node activators registered with NEAT options, please assign at least one to
   NodeActivators").  This state IS reachable from NewPopulation - with options that register no activator. *)
Theorem C02_full_needs_activators :
  exists o gen p x s,
    Part p /\ Fresh p /\ zlen (p_orgs p) < 2 ^ 31 /\ survivors_ok o /\ survives o p /\ 0 < o_pop_size o /\
    PrimFloat.eqb (o_compat_thresh o) 0 = false /\
    (forall p1 sorted best s1, prepare o p s = Ok ((p1, sorted, best), s1) -> sum_exp (p_species p1) = o_pop_size o) /\
    (forall k y, In k (p_orgs p) -> hget (p_heap p) k = Ok y -> wf (o_genome y)) /\
    Forall (fun c => 0 <= c < 2 ^ 63) (s_tape s) /\
    o_activators o = [] /\ innovs (s_env s) = [] /\
    next_epoch o gen p x s = GoErr 20.
Proof. exact FullStatementsC02.epoch_full_needs_activators. Qed.
Print Assumptions C02_full_needs_activators.

(* The corrected full statement: C02_full with the three missing hypotheses added (the registry
   invariant of C03 for some context C, which makes the genomes consistent with the innovation
   environment and relatives of one another; recorded trait indices in range; a usable activator
   table).  All of them are established by NewPopulation from a well-formed genome with sane options
   and re-established by every epoch (C02_history_succeeds). *)
Definition C02_full' : Prop := forall C o gen p x s R NR,
  Part p -> Fresh p -> zlen (p_orgs p) < 2 ^ 31 -> survivors_ok o -> survives o p -> 0 < o_pop_size o ->
  PrimFloat.eqb (o_compat_thresh o) 0 = false ->
  (forall p1 sorted best s1, prepare o p s = Ok ((p1, sorted, best), s1) ->
                             sum_exp (p_species p1) = o_pop_size o) ->
  (forall k y, In k (p_orgs p) -> hget (p_heap p) k = Ok y -> wf (o_genome y)) ->
  Forall (fun c => 0 <= c < 2 ^ 63) (s_tape s) ->
  GInv C p (s_env s) R NR -> records_traits_ok (s_env s) (zlen (c_tshape C)) -> acts_ok o ->
  (exists r, next_epoch o gen p x s = Ok r) \/ next_epoch o gen p x s = OutOfTape.

Theorem C02_full'_holds : C02_full'.
Proof. exact FullStatementsC02.epoch_full_corrected_holds. Qed.
Print Assumptions C02_full'_holds.

(* ==== added by agent "actbodies": the quota preparation of the epoch (purge_zero_offspring, run by [prepare]) is the
   code of Population.purgeZeroOffspringSpecies, regenerated from neat/genetics/population.go on every run
   (gen/QuotaPrep.v): under the invariant Part it returns, on the view of the population, the view of the model's result ==== *)
From NeatModel Require GoHeap QuotaView QuotaPrep QuotaPrepAgree.
Theorem C02_quota_preparation_is_the_translated_source :
  forall (p : population) (generation : Z),
    Part p ->
    exists p' : population,
      purge_zero_offspring p = Ok p' /\
      exists r : QuotaView.qpop,
        QuotaPrep.gen_purge_zero_offspring (QuotaPrepAgree.abs p) generation = Ok r /\
        QuotaView.qp_organisms r = QuotaView.qp_organisms (QuotaPrepAgree.abs p') /\
        QuotaView.qp_Organisms r = QuotaView.qp_Organisms (QuotaPrepAgree.abs p') /\
        QuotaView.qp_Species r = QuotaView.qp_Species (QuotaPrepAgree.abs p') /\
        (forall s, In s (p_species p' ++ p_detached p') ->
                   GoHeap.gh_get (QuotaView.qp_species r) (sp_id s) = Ok (QuotaPrepAgree.sview s)).
Proof. exact QuotaPrepAgree.gen_purge_zero_offspring_agrees. Qed.
Print Assumptions C02_quota_preparation_is_the_translated_source.
