(* C20 — an experiment run follows its trial/generation protocol exactly.
   Property theorems only; proofs live in proofs/ExecuteSpec.v. *)
From NeatModel Require Import Res Execute ExecuteSpec.

(* the run is the specification trace, for every script (every number of trials and
   generations, every placement of solved / error / cancel outcomes), with or without observer *)
Theorem C20_execute_refines : forall obs script, execute obs script = run_spec obs 0 false script.
Proof. exact execute_refines. Qed.
Print Assumptions C20_execute_refines.

(* a run that returns nil recorded exactly [runs] trials, in order *)
Theorem C20_done_records_all : forall obs script tr,
    execute obs script = (tr, Done) ->
    map fst (records tr) = map Z.of_nat (seq 0 (length script)).
Proof. intros obs script tr H. exact (done_records_all obs script 0 false tr H). Qed.
Print Assumptions C20_done_records_all.

(* the generations of a trial are evaluated in the order 0,1,2,..., at most [gens] of them *)
Theorem C20_generations_in_order : forall obs t os c,
    exists m, evals_of t (g_ev (gen_loop obs t 0 0 0 c os)) = map Z.of_nat (seq 0 m)
              /\ (m <= length os)%nat.
Proof. intros obs t os c. exact (evals_gen_loop obs t os 0 0 0 c). Qed.
Print Assumptions C20_generations_in_order.

(* a solved generation is never turned over *)
Theorem C20_no_turnover_after_solved : forall obs t os c g,
    In (ENext t g) (g_ev (gen_loop obs t 0 0 0 c os)) -> is_solved (outcome_at os 0 g) = false.
Proof. intros obs t os c g. exact (no_turnover_after_solved obs t os 0 0 0 c g). Qed.
Print Assumptions C20_no_turnover_after_solved.

(* the observer hears "finished" exactly once per recorded trial (and never otherwise) *)
Theorem C20_finish_once_per_record : forall obs script t',
    count (is_finish t') (fst (execute obs script)) =
    (if obs then count (is_record t') (fst (execute obs script)) else O).
Proof. intros obs script t'. exact (finish_follows_record obs script 0 false t'). Qed.
Print Assumptions C20_finish_once_per_record.

(* an evaluator error - alone or together with a "solved" mark or a cancellation made in the same call -
   ends the run at once: the failing evaluation is the last event of the run (nothing is recorded or
   announced after it, no later trial is spawned) *)
Theorem C20_error_ends_run : forall obs script tr,
    execute obs script = (tr, ErrEval) -> exists tr' t g k, tr = tr' ++ [EEval t g t k].
Proof. intros obs script tr H. exact (error_ends_run obs script 0 false tr H). Qed.
Print Assumptions C20_error_ends_run.

(* and a trial whose first outcome other than "unsolved" is such an error does abort with it *)
Theorem C20_reached_error_aborts : forall obs t os o i,
    first_decisive os = Some (i, o) -> is_error o = true ->
    g_abort (gen_loop obs t 0 0 0 false os) = Some ErrEval.
Proof. intros obs t os o i. exact (reached_error_aborts obs t os o i 0 0 0). Qed.
Print Assumptions C20_reached_error_aborts.

(* non-vacuity: a two-trial script with a solved, a cancelled and an unsolved generation *)
Example C20_example :
  execute true [[Unsolved; Solved; Unsolved]; [CancelSolved; Unsolved]; [Unsolved]] =
  ([ESpawn 0; EStart 0; EEval 0 0 0 0; ENext 0 0; EEpoch 0 0; EEval 0 1 0 1; EEpoch 0 1;
    ERecord 0 2 1; EFinish 0 2;
    ESpawn 1; EStart 1; EEval 1 0 1 0; EEpoch 1 0; ERecord 1 1 0; EFinish 1 1;
    ESpawn 2; EStart 2], ErrCtx).
Proof. vm_compute. reflexivity. Qed.

Example C20_example_solved_and_error :
  execute true [[Unsolved; SolvedError; Unsolved]; [Solved]] =
  ([ESpawn 0; EStart 0; EEval 0 0 0 0; ENext 0 0; EEpoch 0 0; EEval 0 1 0 1], ErrEval).
Proof. vm_compute. reflexivity. Qed.
