(* C08 — speciation puts each organism in its nearest compatible species.
   Property theorems only; proofs live in proofs/SpeciateSpec.v, SpeciateCompat.v, SpeciateFloat.v.

   speciate / speciate_loop / create_first_species are the transliterations of model/Speciate.v.
   The theorems hold for an arbitrary genome type G, distance type F, distance function
   [compat], comparison [ltb], zero test and initial best value [maxv] (math.MaxFloat64 in the
   code), provided [ltb] is transitive and negatively transitive on a set [valid] of values
   containing every distance, the threshold and maxv (a strict weak order), the threshold is not
   above maxv, and the threshold is not zero.  first_organism s is the representative of s
   (None for a species without members).  The batch is any list pre ++ o :: post: o is an
   arbitrary organism of the batch, pre the organisms before it, post those after it. *)
From NeatModel Require Import Res F64 Compat Speciate SpeciateSpec SpeciateCompat SpeciateFloat.
From Coq Require Import Reals.

(* For each organism o of the batch, with p0 the population at its turn and p1 right after it:
   the whole call succeeds and continues from p1; if no representative is closer than the
   threshold, o founds a new species with the fresh id LastSpecies+1, appended at the end;
   otherwise o is appended to the FIRST species s (in population order) whose representative r is
   at minimum distance among the representatives closer than the threshold: strictly closer than
   every compatible representative before s, and no compatible representative after s is closer. *)
Theorem C08_each_organism_nearest_compatible :
  forall (F G : Type) (ltb : F -> F -> bool) (is_zero : F -> bool) (maxv : F)
         (compat : G -> G -> F) (thr : F) (valid : F -> Prop),
    (forall a b c, valid a -> valid b -> valid c -> ltb a b = true -> ltb b c = true -> ltb a c = true) ->
    (forall a b c, valid a -> valid b -> valid c -> ltb a b = true -> ltb a c = true \/ ltb c b = true) ->
    (forall g1 g2, valid (compat g1 g2)) -> valid thr -> valid maxv ->
    ltb maxv thr = false -> is_zero thr = false ->
    forall (p : population G) (pre : list (organism G)) (o : organism G) (post : list (organism G)),
      let p0 := fst (speciate_loop ltb is_zero maxv compat thr p pre) in
      let p1 := fst (speciate_loop ltb is_zero maxv compat thr p (pre ++ [o])) in
      speciate ltb is_zero maxv compat thr p (pre ++ o :: post)
        = (fst (speciate_loop ltb is_zero maxv compat thr p1 post), Ok tt) /\
      ((forall s r, In s (p_species p0) -> first_organism s = Some r ->
                    ltb (compat (o_genome o) (o_genome r)) thr = false) ->
       p1 = {| p_species := p_species p0 ++ [{| sp_id := p_last p0 + 1; sp_orgs := [o] |}];
               p_last := p_last p0 + 1;
               p_assign := p_assign p0 ++ [(o_key o, p_last p0 + 1)] |}) /\
      ((exists s r, In s (p_species p0) /\ first_organism s = Some r /\
                    ltb (compat (o_genome o) (o_genome r)) thr = true) ->
       exists S1 s S2 r,
         p_species p0 = S1 ++ s :: S2 /\ first_organism s = Some r /\
         ltb (compat (o_genome o) (o_genome r)) thr = true /\
         (forall s' r', In s' S1 -> first_organism s' = Some r' ->
                        ltb (compat (o_genome o) (o_genome r')) thr = true ->
                        ltb (compat (o_genome o) (o_genome r)) (compat (o_genome o) (o_genome r')) = true) /\
         (forall s' r', In s' S2 -> first_organism s' = Some r' ->
                        ltb (compat (o_genome o) (o_genome r')) thr = true ->
                        ltb (compat (o_genome o) (o_genome r')) (compat (o_genome o) (o_genome r)) = false) /\
         p1 = {| p_species := S1 ++ {| sp_id := sp_id s; sp_orgs := sp_orgs s ++ [o] |} :: S2;
                 p_last := p_last p0;
                 p_assign := p_assign p0 ++ [(o_key o, sp_id s)] |}).
Proof. exact each_organism_placed. Qed.
Print Assumptions C08_each_organism_nearest_compatible.

(* representatives are never displaced: a species keeps its position, its id and its members
   in order (new members come after them), so a non-empty species keeps its representative;
   new species come after all existing ones *)
Theorem C08_representatives_never_displaced :
  forall (F G : Type) (ltb : F -> F -> bool) (is_zero : F -> bool) (maxv : F)
         (compat : G -> G -> F) (thr : F) (valid : F -> Prop),
    (forall a b c, valid a -> valid b -> valid c -> ltb a b = true -> ltb b c = true -> ltb a c = true) ->
    (forall a b c, valid a -> valid b -> valid c -> ltb a b = true -> ltb a c = true \/ ltb c b = true) ->
    (forall g1 g2, valid (compat g1 g2)) -> valid thr -> valid maxv ->
    ltb maxv thr = false -> is_zero thr = false ->
    forall (batch : list (organism G)) (p : population G) (i : nat) (s : species G) (r : organism G),
      nth_error (p_species p) i = Some s -> first_organism s = Some r ->
      exists s', nth_error (p_species (fst (speciate_loop ltb is_zero maxv compat thr p batch))) i = Some s' /\
                 sp_id s' = sp_id s /\ first_organism s' = Some r /\
                 exists e, sp_orgs s' = sp_orgs s ++ e.
Proof. exact representatives_kept. Qed.
Print Assumptions C08_representatives_never_displaced.

(* every organism of the batch ends up in a species of which it is either the founder (that
   species was created at its turn, with the then fresh id) or whose representative - the same one
   as at its turn - was within the threshold *)
Theorem C08_founder_or_within :
  forall (F G : Type) (ltb : F -> F -> bool) (is_zero : F -> bool) (maxv : F)
         (compat : G -> G -> F) (thr : F) (valid : F -> Prop),
    (forall a b c, valid a -> valid b -> valid c -> ltb a b = true -> ltb b c = true -> ltb a c = true) ->
    (forall a b c, valid a -> valid b -> valid c -> ltb a b = true -> ltb a c = true \/ ltb c b = true) ->
    (forall g1 g2, valid (compat g1 g2)) -> valid thr -> valid maxv ->
    ltb maxv thr = false -> is_zero thr = false ->
    forall (pre : list (organism G)) (o : organism G) (post : list (organism G)) (p : population G),
      let p0 := fst (speciate_loop ltb is_zero maxv compat thr p pre) in
      let pf := fst (speciate ltb is_zero maxv compat thr p (pre ++ o :: post)) in
      exists i s, nth_error (p_species pf) i = Some s /\ In o (sp_orgs s) /\
        ((first_organism s = Some o /\ sp_id s = p_last p0 + 1 /\ i = length (p_species p0)) \/
         (exists s0 r, nth_error (p_species p0) i = Some s0 /\ first_organism s0 = Some r /\
                       first_organism s = Some r /\
                       ltb (compat (o_genome o) (o_genome r)) thr = true)).
Proof. exact founder_or_within. Qed.
Print Assumptions C08_founder_or_within.

(* new species ids are fresh: if no species id exceeds LastSpecies and ids are pairwise distinct
   before the call, the same holds after it (LastSpecies only increases) *)
Theorem C08_fresh_ids :
  forall (F G : Type) (ltb : F -> F -> bool) (is_zero : F -> bool) (maxv : F)
         (compat : G -> G -> F) (thr : F) (valid : F -> Prop),
    (forall a b c, valid a -> valid b -> valid c -> ltb a b = true -> ltb b c = true -> ltb a c = true) ->
    (forall a b c, valid a -> valid b -> valid c -> ltb a b = true -> ltb a c = true \/ ltb c b = true) ->
    (forall g1 g2, valid (compat g1 g2)) -> valid thr -> valid maxv ->
    ltb maxv thr = false -> is_zero thr = false ->
    forall (batch : list (organism G)) (p : population G),
      ((forall s, In s (p_species p) -> sp_id s <= p_last p) /\ NoDup (map sp_id (p_species p))) ->
      let p' := fst (speciate_loop ltb is_zero maxv compat thr p batch) in
      ((forall s, In s (p_species p') -> sp_id s <= p_last p') /\ NoDup (map sp_id (p_species p'))) /\
      p_last p <= p_last p'.
Proof. exact loop_ids. Qed.
Print Assumptions C08_fresh_ids.

(* the same with the library's own distance over the reals (model/Compat.v, either method, any
   coefficients), any threshold > 0 and any initial best value not below the threshold *)
Theorem C08_with_library_distance :
  forall (linear : bool) (dc ec mc thr maxv : R), (0 < thr)%R -> (thr <= maxv)%R ->
    forall (p : population (list (Z * R))) (pre : list (organism (list (Z * R))))
           (o : organism (list (Z * R))) (post : list (organism (list (Z * R)))),
      let d := compat_R linear dc ec mc in
      let p0 := fst (speciate_loop Rltb Ris_zero maxv d thr p pre) in
      let p1 := fst (speciate_loop Rltb Ris_zero maxv d thr p (pre ++ [o])) in
      speciate Rltb Ris_zero maxv d thr p (pre ++ o :: post)
        = (fst (speciate_loop Rltb Ris_zero maxv d thr p1 post), Ok tt) /\
      ((forall s r, In s (p_species p0) -> first_organism s = Some r ->
                    Rltb (d (o_genome o) (o_genome r)) thr = false) ->
       p1 = {| p_species := p_species p0 ++ [{| sp_id := p_last p0 + 1; sp_orgs := [o] |}];
               p_last := p_last p0 + 1;
               p_assign := p_assign p0 ++ [(o_key o, p_last p0 + 1)] |}) /\
      ((exists s r, In s (p_species p0) /\ first_organism s = Some r /\
                    Rltb (d (o_genome o) (o_genome r)) thr = true) ->
       exists S1 s S2 r,
         p_species p0 = S1 ++ s :: S2 /\ first_organism s = Some r /\
         Rltb (d (o_genome o) (o_genome r)) thr = true /\
         (forall s' r', In s' S1 -> first_organism s' = Some r' ->
                        Rltb (d (o_genome o) (o_genome r')) thr = true ->
                        Rltb (d (o_genome o) (o_genome r)) (d (o_genome o) (o_genome r')) = true) /\
         (forall s' r', In s' S2 -> first_organism s' = Some r' ->
                        Rltb (d (o_genome o) (o_genome r')) thr = true ->
                        Rltb (d (o_genome o) (o_genome r')) (d (o_genome o) (o_genome r)) = false) /\
         p1 = {| p_species := S1 ++ {| sp_id := sp_id s; sp_orgs := sp_orgs s ++ [o] |} :: S2;
                 p_last := p_last p0;
                 p_assign := p_assign p0 ++ [(o_key o, sp_id s)] |}).
Proof. exact each_organism_placed_R. Qed.
Print Assumptions C08_with_library_distance.

(* that distance is the value the compatibility method returns (it never fails) *)
Theorem C08_library_distance_is_compatibility :
  forall (linear : bool) (dc ec mc : R) (g1 g2 : list (Z * R)),
    compatibility R_num linear dc ec mc g1 g2 = Ok (compat_R linear dc ec mc g1 g2).
Proof. exact compat_R_ok. Qed.
Print Assumptions C08_library_distance_is_compatibility.

(* binary64 level: with primitive floats, <, == 0 and math.MaxFloat64 exactly as in the code, the
   corollary holds for every distance function that never returns NaN and every threshold that
   is a number other than 0 and +infinity *)
Theorem C08_founder_or_within_binary64 :
  forall (G : Type) (compat : G -> G -> float) (thr : float),
    (forall g1 g2, Prim2SF (compat g1 g2) <> S754_nan) ->
    Prim2SF thr <> S754_nan -> Prim2SF thr <> S754_infinity false ->
    PrimFloat.eqb thr PrimFloat.zero = false ->
    forall (pre : list (organism G)) (o : organism G) (post : list (organism G)) (p : population G),
      let maxv := 0x1.fffffffffffffp+1023%float in
      let is_zero := fun x => PrimFloat.eqb x PrimFloat.zero in
      let p0 := fst (speciate_loop PrimFloat.ltb is_zero maxv compat thr p pre) in
      let pf := fst (speciate PrimFloat.ltb is_zero maxv compat thr p (pre ++ o :: post)) in
      exists i s, nth_error (p_species pf) i = Some s /\ In o (sp_orgs s) /\
        ((first_organism s = Some o /\ sp_id s = p_last p0 + 1 /\ i = length (p_species p0)) \/
         (exists s0 r, nth_error (p_species p0) i = Some s0 /\ first_organism s0 = Some r /\
                       first_organism s = Some r /\
                       PrimFloat.ltb (compat (o_genome o) (o_genome r)) thr = true)).
Proof. exact founder_or_within_float. Qed.
Print Assumptions C08_founder_or_within_binary64.

(* non-vacuity (float instance, library distance, fast method, coefficients 1/1/0.4, threshold 3):
   organism 10 founds species 1; 11 (distance 0.4) joins it; 12 (distance 3 from species 1: not
   < 3) founds species 2; 13 is at distance 2 from the representative of species 1 and 1 from
   that of species 2, both compatible, and joins the nearer one. *)
Example C08_example :
  let d := compat_float false 1 1 0x1.999999999999ap-2 in
  let org k g := {| o_key := k; o_genome := g |} in
  let g10 := [(1, 0%float); (2, 0%float)] in
  let g11 := [(1, 1%float); (2, 1%float)] in
  let g12 := [(1, 0%float); (2, 0%float); (3, 0%float); (4, 0%float); (5, 0%float)] in
  let g13 := [(1, 0%float); (2, 0%float); (3, 0%float); (4, 0%float)] in
  speciate PrimFloat.ltb f_is_zero max_float64 d 3%float
           {| p_species := []; p_last := 0; p_assign := [] |}
           [org 10 g10; org 11 g11; org 12 g12; org 13 g13] =
  ({| p_species := [ {| sp_id := 1; sp_orgs := [org 10 g10; org 11 g11] |};
                     {| sp_id := 2; sp_orgs := [org 12 g12; org 13 g13] |} ];
      p_last := 2; p_assign := [(10, 1); (11, 1); (12, 2); (13, 2)] |}, Ok tt).
Proof. vm_compute. reflexivity. Qed.

(* a tie: species 5 and 3 have the same representative genome; the newcomer (distance 0 to both)
   joins the first one in population order; a species without members is skipped *)
Example C08_example_tie :
  let d := compat_float true 1 1 1 in
  let org k g := {| o_key := k; o_genome := g |} in
  let g := [(1, 0%float); (4, 2%float)] in
  speciate PrimFloat.ltb f_is_zero max_float64 d 0x1p-1%float
           {| p_species := [ {| sp_id := 9; sp_orgs := [] |}; {| sp_id := 5; sp_orgs := [org 1 g] |};
                             {| sp_id := 3; sp_orgs := [org 2 g] |} ]; p_last := 9; p_assign := [] |}
           [org 7 g] =
  ({| p_species := [ {| sp_id := 9; sp_orgs := [] |}; {| sp_id := 5; sp_orgs := [org 1 g; org 7 g] |};
                     {| sp_id := 3; sp_orgs := [org 2 g] |} ];
      p_last := 9; p_assign := [(7, 5)] |}, Ok tt).
Proof. vm_compute. reflexivity. Qed.

(* ==== added by agent "actbodies": the distance the speciation model calls ([compat_float]) is the value the
   source code of Genome.compatLinear / compatFast -- translated on every run into gen/CompatBodies.v -- returns,
   for every pair of gene lists (the first one of a length that fits in a Go int) ==== *)
From NeatModel Require CompatBodies CompatBodiesAgree.
Theorem C08_distance_is_the_translated_source :
  forall (linear : bool) (dc ec mc : float) (a b : list (Z * float)),
    (Z.of_nat (length a) < 2 ^ 63)%Z ->
    (if linear then CompatBodies.gen_compat_linear dc ec mc a b else CompatBodies.gen_compat_fast dc ec mc a b) =
    Ok (compat_float linear dc ec mc a b).
Proof. exact CompatBodiesAgree.gen_compat_returns_compat_float. Qed.
Print Assumptions C08_distance_is_the_translated_source.
