(* C03 - an innovation number denotes one connection for the life of a population.
   Property theorems only; proofs live in proofs/Registry.v (operator level) and proofs/PopWF.v
   (population level).  Model: model/Population.v (sequential executor), model/Mutate.v, model/Mate.v.

   Vocabulary (all defined in proofs/Registry.v and proofs/PopWF.v):
     reg / nreg            ghost registries: innovation number |-> (in, out, recurrent), node id |-> role
     GInv C p e R NR       every organism of p's heap is well-formed, consistent with the innovation
                           environment e, and its genes / nodes are registered in R / NR; R and NR are
                           functional, bounded by the counters of e, and every record of e agrees
                           with them, at most one record per structural key
     history o p s l p' s' |l| rounds of (assign any fitness values; turn the epoch over with any
                           generation number, executor state and random tape) lead from (p, s) to
                           (p', s'); l lists the population after each round *)
From Coq Require Import ZArith List Floats.
From NeatModel Require Import Compat.
From NeatModel Require Import Res F64 GoRand GoSource Genome Options Mutate Population GenomeLit WF MutateSpec Registry PopWF.
Import ListNotations.
Open Scope Z_scope.

Notation innovs := Genome.innovs.

(* ---------- the whole history of a population ---------- *)
(* Across the whole history of a population spawned from a well-formed start genome, any two genes
   (of any two organisms of any two generations) with the same innovation number join the same source
   and target node ids with the same recurrence flag. *)
Theorem C03_one_link_per_number :
  forall o g s0 p s l p' s',
    wf g -> innovs (s_env s0) = [] -> new_population o g s0 = Ok (p, s) -> history o p s l p' s' ->
    forall pa pb a b xa xb,
      In pa (p :: l) -> In pb (p :: l) -> In a (p_heap pa) -> In b (p_heap pb) ->
      In xa (genes (o_genome a)) -> In xb (genes (o_genome b)) -> g_innov xa = g_innov xb ->
      g_in xa = g_in xb /\ g_out xa = g_out xb /\ g_rec xa = g_rec xb.
Proof.
  intros o g s0 p s l p' s' W Ei Hn Hh pa pb a b xa xb Hpa Hpb Ha Hb Hxa Hxb E.
  pose proof (proj1 (history_one_link_per_number _ o p s l p' s' _ _ (proj1 (GInv_spawn o g s0 p s W Ei Hn)) Hh
                       pa pb a b Hpa Hpb Ha Hb) xa xb Hxa Hxb E) as K.
  unfold link_key in K. injection K as -> -> ->. auto.
Qed.
Print Assumptions C03_one_link_per_number.

(* ... and a node id never denotes nodes of different roles. *)
Theorem C03_one_role_per_node_id :
  forall o g s0 p s l p' s',
    wf g -> innovs (s_env s0) = [] -> new_population o g s0 = Ok (p, s) -> history o p s l p' s' ->
    forall pa pb a b na nb,
      In pa (p :: l) -> In pb (p :: l) -> In a (p_heap pa) -> In b (p_heap pb) ->
      In na (nodes (o_genome a)) -> In nb (nodes (o_genome b)) -> n_id na = n_id nb -> n_type na = n_type nb.
Proof.
  intros o g s0 p s l p' s' W Ei Hn Hh pa pb a b na nb Hpa Hpb Ha Hb Hna Hnb E.
  exact (proj2 (history_one_link_per_number _ o p s l p' s' _ _ (proj1 (GInv_spawn o g s0 p s W Ei Hn)) Hh
                  pa pb a b Hpa Hpb Ha Hb) na nb Hna Hnb E).
Qed.
Print Assumptions C03_one_role_per_node_id.

(* ---------- initialisation ---------- *)
(* NewPopulation establishes the invariant, with the registries read off the start genome *)
Theorem C03_spawn :
  forall o g s0 p s,
    wf g -> innovs (s_env s0) = [] -> new_population o g s0 = Ok (p, s) ->
    GInv (ctx_of g) p (s_env s)
         (map (fun x => (g_innov x, (g_in x, g_out x, g_rec x))) (genes g))
         (map (fun n => (n_id n, n_type n)) (nodes g))
    /\ innovs (s_env s) = [].
Proof. exact GInv_spawn. Qed.
Print Assumptions C03_spawn.

(* ---------- one generation ---------- *)
(* An epoch turnover preserves the invariant under registries that only grew; every number and
   node id added to them is larger than the counters before the epoch (hence larger than anything
   the population held, see C03_fresh_larger); the record of innovations is empty afterwards. *)
Theorem C03_step :
  forall C o gen p x s p' x' s' R NR,
    GInv C p (s_env s) R NR -> next_epoch o gen p x s = Ok ((p', x'), s') ->
    exists R' NR',
      incl R R' /\ incl NR NR' /\ GInv C p' (s_env s') R' NR' /\ innovs (s_env s') = [] /\
      next_innov (s_env s) <= next_innov (s_env s') /\ next_node (s_env s) <= next_node (s_env s') /\
      (forall n k, In (n, k) R' -> In (n, k) R \/ next_innov (s_env s) < n) /\
      (forall i t, In (i, t) NR' -> In (i, t) NR \/ next_node (s_env s) < i).
Proof.
  intros C o gen p x s p' x' s' R NR G H.
  destruct (GInv_step C o gen p x s p' x' s' R NR G H) as (R' & NR' & [A1 A2 A3 A4 A5 A6] & G' & E).
  exists R', NR'. split; [exact A3|]. split; [exact A4|]. split; [exact G'|]. split; [exact E|]. auto.
Qed.
Print Assumptions C03_step.

(* the same over any number of generations *)
Theorem C03_history :
  forall C o p s l p' s' R NR,
    GInv C p (s_env s) R NR -> history o p s l p' s' ->
    exists R' NR',
      incl R R' /\ incl NR NR' /\ GInv C p' (s_env s') R' NR' /\
      (forall n k, In (n, k) R' -> In (n, k) R \/ next_innov (s_env s) < n) /\
      (forall i t, In (i, t) NR' -> In (i, t) NR \/ next_node (s_env s) < i) /\
      forall q, In q l -> exists e, hall (gok C e R' NR') (p_heap q).
Proof. intros C o p s l p' s' R NR G H. exact (GInv_history C o p s l p' s' H R NR G). Qed.
Print Assumptions C03_history.

(* Innovation numbers and node ids issued in a generation are larger than any the population held
   before: a gene of the new population either carries a number registered before the epoch, or
   its number exceeds the counter and the number of every gene of every organism of the old
   population; the same for node ids. *)
Theorem C03_fresh_larger :
  forall C o gen p x s p' x' s' R NR,
    GInv C p (s_env s) R NR -> next_epoch o gen p x s = Ok ((p', x'), s') ->
    forall b, In b (p_heap p') ->
      (forall xb, In xb (genes (o_genome b)) ->
         In (g_innov xb, (g_in xb, g_out xb, g_rec xb)) R \/
         (next_innov (s_env s) < g_innov xb /\
          forall a xa, In a (p_heap p) -> In xa (genes (o_genome a)) -> g_innov xa < g_innov xb)) /\
      (forall nb, In nb (nodes (o_genome b)) ->
         In (n_id nb, n_type nb) NR \/
         (next_node (s_env s) < n_id nb /\
          forall a na, In a (p_heap p) -> In na (nodes (o_genome a)) -> n_id na < n_id nb)).
Proof. exact step_fresh_larger. Qed.
Print Assumptions C03_fresh_larger.

(* The record of innovations is forgotten when the generation ends. *)
Theorem C03_record_forgotten :
  forall o gen p x s p' x' s', next_epoch o gen p x s = Ok ((p', x'), s') -> innovs (s_env s') = [].
Proof. exact next_epoch_forgets. Qed.
Print Assumptions C03_record_forgotten.

(* ---------- identical innovations of one generation ---------- *)
(* Two link-adding mutations (mutateAddLink, mutateConnectSensors) in the same generation - the
   record the first one left is still there when the second runs, and the invariant holds before
   the second: the genes they add for the same (in, out, recurrent) carry the same number. *)
Theorem C03_same_link_same_number :
  forall C R NR op1 g1 s1 g1' b1 s1' op2 g2 s2 g2' b2 s2' x1 x2,
    link_op op1 -> link_op op2 ->
    op1 g1 s1 = Ok ((g1', b1), s1') -> op2 g2 s2 = Ok ((g2', b2), s2') ->
    incl (innovs (s_env s1')) (innovs (s_env s2)) ->
    rok C (s_env s2) R NR ->
    (forall x, In x (genes g2) -> In (g_innov x, (g_in x, g_out x, g_rec x)) R) ->
    (forall n, In n (nodes g2) -> In (n_id n, n_type n) NR) ->
    In x1 (genes g1') -> ~ In x1 (genes g1) -> In x2 (genes g2') -> ~ In x2 (genes g2) ->
    g_in x1 = g_in x2 -> g_out x1 = g_out x2 -> g_rec x1 = g_rec x2 -> g_innov x1 = g_innov x2.
Proof.
  intros C R NR op1 g1 s1 g1' b1 s1' op2 g2 s2 g2' b2 s2' x1 x2 L1 L2 H1 H2 I RO A N X1 N1 X2 N2 Ei Eo Er.
  apply (same_generation_same_link_number C R NR op1 g1 s1 g1' b1 s1' op2 g2 s2 g2' b2 s2' x1 x2); auto.
  unfold WF.link_key. congruence.
Qed.
Print Assumptions C03_same_link_same_number.

(* Two successful mutateAddNode runs in the same generation that split the same gene create the
   same node id and the same two innovation numbers. *)
Theorem C03_same_split_same_numbers :
  forall C R NR o1 g1 s1 g1' s1' o2 g2 s2 g2' s2',
    mutate_add_node o1 g1 s1 = Ok ((g1', true), s1') -> mutate_add_node o2 g2 s2 = Ok ((g2', true), s2') ->
    incl (innovs (s_env s1')) (innovs (s_env s2)) ->
    rok C (s_env s2) R NR ->
    (forall x, In x (genes g2) -> In (g_innov x, (g_in x, g_out x, g_rec x)) R) ->
    (forall n, In n (nodes g2) -> In (n_id n, n_type n) NR) ->
    exists k1 old1 nd1 a1 c1 k2 old2 nd2 a2 c2,
      nth_error (genes g1) k1 = Some old1 /\ g1' = split_genome g1 k1 old1 nd1 a1 c1 /\
      nth_error (genes g2) k2 = Some old2 /\ g2' = split_genome g2 k2 old2 nd2 a2 c2 /\
      (g_in old1 = g_in old2 -> g_out old1 = g_out old2 -> g_innov old1 = g_innov old2 ->
       n_id nd1 = n_id nd2 /\ a1 = a2 /\ c1 = c2).
Proof. exact same_generation_same_split. Qed.
Print Assumptions C03_same_split_same_numbers.

(* during the reproduction phase of an epoch the environment is only extended (records are only
   appended, counters only grow), so the two theorems above apply to any two babies of a generation *)
Theorem C03_reproduce_extends :
  forall C o gen p sorted x s p' x' s' R NR,
    rok C (s_env s) R NR -> hall (gok C (s_env s) R NR) (p_heap p) ->
    reproduce o gen p sorted x s = Ok ((p', x'), s') ->
    exists R' NR', env_extends (s_env s) (s_env s') /\ incl R R' /\ incl NR NR' /\
                   rok C (s_env s') R' NR' /\ hall (gok C (s_env s') R' NR') (p_heap p').
Proof.
  intros C o gen p sorted x s p' x' s' R NR RO Hh H.
  destruct (reproduce_ok mutators_ok_holds C o gen p sorted x s p' x' s' R NR RO Hh H) as (R' & NR' & X & E & RO' & Hh').
  exists R', NR'. split; [exact X|]. split; [apply (x_R _ _ _ _ _ _ E)|]. split; [apply (x_NR _ _ _ _ _ _ E)|]. auto.
Qed.
Print Assumptions C03_reproduce_extends.

(* ... and at the end of the reproduction phase the record of the generation holds at most one
   link innovation per (in, out, recurrent) and at most one node innovation per split gene
   (in, out, old innovation number): identical innovations of one generation are one record, hence
   one set of numbers and one node id. *)
Theorem C03_one_record_per_innovation :
  forall C o gen p sorted x s p' x' s' R NR,
    rok C (s_env s) R NR -> hall (gok C (s_env s) R NR) (p_heap p) ->
    reproduce o gen p sorted x s = Ok ((p', x'), s') ->
    forall i j, In i (innovs (s_env s')) -> In j (innovs (s_env s')) ->
      (i_type i = 2 -> i_type j = 2 -> i_in i = i_in j -> i_out i = i_out j -> i_rec i = i_rec j -> i = j) /\
      (i_type i = 1 -> i_type j = 1 -> i_in i = i_in j -> i_out i = i_out j -> i_old i = i_old j -> i = j).
Proof.
  intros C o gen p sorted x s p' x' s' R NR RO Hh H i j Hi Hj.
  destruct (reproduce_ok mutators_ok_holds C o gen p sorted x s p' x' s' R NR RO Hh H) as (R' & NR' & _ & _ & RO' & _).
  split; [apply (ro_lkey _ _ _ _ RO')|apply (ro_nkey _ _ _ _ RO')]; assumption.
Qed.
Print Assumptions C03_one_record_per_innovation.

(* ---------- non-vacuity: a concrete run (Go's PRNG seeded with 42), spawn + three epochs ---------- *)
Definition ex_opts : options :=
  OPT [0x1p-01%float; 0x1p+00%float; 0x1.4p+01%float; 0x1p+00%float; 0x1p+00%float; 0x1.999999999999ap-02%float;
       0x1.8p+1%float; 0x1p+00%float; 0x1.999999999999ap-03%float; 0x1p-01%float; 0x1.999999999999ap-04%float;
       0x1.999999999999ap-04%float; 0x1.999999999999ap-04%float; 0x1.ccccccccccccdp-01%float; 0x1.999999999999ap-04%float;
       0x1.999999999999ap-04%float; 0x1.3333333333333p-02%float; 0x1p-01%float; 0x1.999999999999ap-04%float;
       0x1.999999999999ap-04%float; 0x1.3333333333333p-01%float; 0x1.999999999999ap-02%float; 0x1.999999999999ap-03%float;
       0x1.999999999999ap-03%float; 0x1.999999999999ap-03%float] 8 15 20 0 false [4] [0x1p+00%float].

Definition ex_start : genome :=
  GN 1 [T 1 [0x1.999999999999ap-04%float; zero]; T 2 [0x1.999999999999ap-03%float; zero]]
       [N 1 1 17 None; N 2 1 17 None; N 3 3 17 None; N 4 2 4 None]
       [G 1 4 false zero (Some 1) 1 zero true; G 2 4 false zero (Some 2) 2 zero true; G 3 4 false zero (Some 1) 3 zero true] [].

Definition ex_s0 : st := {| s_tape := go_tape 42 4000; s_env := {| innovs := []; next_innov := 0; next_node := 0 |} |}.
Definition ex_fit : list float := [1; 2; 3; 4; 5; 6; 7; 8]%float.

Definition ex_pops : res (list population * st) := run_population ex_opts ex_start ex_s0 ex_fit 3.

(* the registries accumulated over all organisms of all four populations *)
Definition all_genes (l : list population) : list (Z * (Z * Z * bool)) :=
  flat_map (fun p => flat_map (fun y => map (fun x => (g_innov x, (g_in x, g_out x, g_rec x))) (genes (o_genome y))) (p_heap p)) l.
Definition all_nodes (l : list population) : list (Z * Z) :=
  flat_map (fun p => flat_map (fun y => map (fun n => (n_id n, n_type n)) (nodes (o_genome y))) (p_heap p)) l.
Definition key_eqb (a b : Z * Z * bool) : bool :=
  Z.eqb (fst (fst a)) (fst (fst b)) && Z.eqb (snd (fst a)) (snd (fst b)) && Bool.eqb (snd a) (snd b).
Definition functionalb {B} (eqb : B -> B -> bool) (l : list (Z * B)) : bool :=
  forallb (fun a => forallb (fun b => implb (Z.eqb (fst a) (fst b)) (eqb (snd a) (snd b))) l) l.
Definition max_key {B} (l : list (Z * B)) : Z := fold_left (fun m a => Z.max m (fst a)) l 0.

(* the run succeeds; four populations of eight organisms; the registry read off all of them is
   functional and bounded by the counters; seven new innovation numbers (the start genome has 1-3)
   and four new nodes (the start genome has 1-4) were issued; the record is empty at the end *)
Example C03_example :
  match ex_pops with
  | Ok (l, s) =>
    (map (fun p => length (p_heap p)) l,
     functionalb key_eqb (all_genes l), functionalb Z.eqb (all_nodes l),
     max_key (all_genes l), max_key (all_nodes l), s_env s)
    = ([8%nat; 8%nat; 8%nat; 8%nat], true, true, 10, 8, {| innovs := []; next_innov := 10; next_node := 8 |})
  | _ => False
  end.
Proof. vm_compute. reflexivity. Qed.

(* the hypotheses of the history theorems are satisfiable: the run above is a history of three epochs
   from a well-formed start genome *)
Example C03_example_wf_start : wf ex_start.
Proof.
  constructor.
  - discriminate.
  - unfold genes_sorted, InsertSpec.asc. cbn. repeat constructor.
  - unfold links_nodup. cbn. repeat constructor; cbn; intuition discriminate.
  - unfold nodes_sorted, InsertSpec.asc. cbn. repeat constructor.
  - intros x [<-|[<-|[<-|[]]]]; cbn; eexists; eexists; repeat split.
  - split.
    + intros x t [<-|[<-|[<-|[]]]] [= <-]; (split; [discriminate|]); cbn; eauto.
    + intros n t [<-|[<-|[<-|[<-|[]]]]]; discriminate.
  - split; [discriminate|]. exists 1. split; [reflexivity|reflexivity].
  - exists (N 4 2 4 None). split; [cbn; auto|reflexivity].
  - reflexivity.
Qed.

Example C03_example_history :
  exists p s l p' s',
    new_population ex_opts ex_start ex_s0 = Ok (p, s) /\ history ex_opts p s l p' s' /\ length l = 3%nat.
Proof.
  assert (Hok : is_ok (run_population ex_opts ex_start ex_s0 ex_fit 3) = true) by (vm_compute; reflexivity).
  destruct (run_population ex_opts ex_start ex_s0 ex_fit 3) as [[l s2]| | | | |] eqn:E; try (discriminate Hok).
  destruct (run_population_history _ _ _ _ _ _ _ E) as (p & s & l' & p' & s' & A & B & D & _).
  exists p, s, l', p', s'. auto.
Qed.

(* ====================================================================================================== *)
(* agent-c03read: ReadPopulation (population_io.go:20-88) - the counters it derives from the genomes it    *)
(* reads, the invariant for the population it builds, and histories across a write / read round trip.     *)
(* Proofs: proofs/ReadPopRegistry.v.  Reader model: model/Plain.v (token lines; C15).                     *)
(*                                                                                                        *)
(* Vocabulary added:                                                                                      *)
(*   read_population reg ls        Plain.v: the genomes read in order (rgenome: gene endpoints are        *)
(*                                 optional), nextNodeId, nextInnovNum; for ANY list of token lines       *)
(*   Plain.resolve r               the Genome.genome of a read genome, when no gene endpoint is nil       *)
(*   read_population_state o reg ls   ReadPopulation as a whole: organisms for the genomes read, empty    *)
(*                                 innovation record, the two counters, then Population.speciate          *)
(*   write_population reg gs       Population.Write: the genomes one after another (Plain.v)              *)
(*   node_ok reg n                 C15: ids fit an int32, neuron type < 128, registered activation        *)
(* Both counters hold the LAST value handed out (getNextInnovationNumber / getNextNodeId add one and      *)
(* return the new value), so "dominates" is <=.                                                           *)
(* ====================================================================================================== *)
From Coq Require Import Sorting.Sorted.
From NeatModel Require Import Plain PlainSpec PlainPopSpec ReadPopRegistry.
Open Scope list_scope.
Open Scope Z_scope.

(* For EVERY list of token lines and every activation registry on which the reader succeeds:
   - nextInnovNum is the largest (innovation number of the LAST gene + 1) over the genomes read (or 0);
   - nextNodeId is the largest id of a LAST node over the genomes read, or that plus one (which of the
     two depends on the order of the genomes in the file);
   - every genome read has a gene and a node; nextInnovNum exceeds the number of its last gene and
     nextNodeId is at least the id of its last node; when its genes (nodes) are in ascending order - as in
     every well-formed genome - the counters dominate every number (id) it holds.
   The reader looks at the last gene and the last node only: for a genome whose genes are not in ascending
   order the counter can be smaller than a number it holds (C03_read_counters_unsorted below). *)
Theorem C03_read_counters_dominate :
  forall reg ls gs nn ni,
    read_population reg ls = Ok (gs, nn, ni) ->
    ni = fold_left (fun m g => Z.max m (rg_innov (last (rg_genes g) dummy_rgene) + 1)) gs 0 /\
    fold_left (fun m g => Z.max m (n_id (last (rg_nodes g) dummy_node))) gs 0 <= nn
      <= fold_left (fun m g => Z.max m (n_id (last (rg_nodes g) dummy_node))) gs 0 + 1 /\
    forall g, In g gs ->
      (rg_genes g <> [] /\ rg_innov (last (rg_genes g) dummy_rgene) < ni /\
       (StronglySorted Z.lt (map rg_innov (rg_genes g)) -> forall x, In x (rg_genes g) -> rg_innov x < ni)) /\
      (rg_nodes g <> [] /\ n_id (last (rg_nodes g) dummy_node) <= nn /\
       (StronglySorted Z.lt (map n_id (rg_nodes g)) -> forall n, In n (rg_nodes g) -> n_id n <= nn)).
Proof. exact read_counters_spec. Qed.
Print Assumptions C03_read_counters_dominate.

(* the order hypothesis cannot be dropped: a file the reader accepts (one genome, genes numbered 3, 2, 1 in
   this order) after which nextInnovNum is 2, and one (nodes 1, 2, 3, 6, 5, 4) after which nextNodeId is 5 *)
Theorem C03_read_counters_unsorted :
  (exists g nn, read_population ex_act_reg ex_unsorted_genes = Ok ([g], nn, 2) /\ map rg_innov (rg_genes g) = [3; 2; 1]) /\
  (exists g ni, read_population ex_act_reg ex_unsorted_nodes = Ok ([g], 5, ni) /\ map n_id (rg_nodes g) = [1; 2; 3; 6; 5; 4]).
Proof. exact unsorted_counters_fall_short. Qed.
Print Assumptions C03_read_counters_unsorted.

(* ReadPopulation on ANY stream: when it succeeds (every gene endpoint naming a node of its genome) the
   environment is the empty record with the two counters read and the heap holds only genomes read; if the
   genomes read are well-formed, have the input / bias / output nodes, the trait shape and the first
   innovation number of the context C, and are mutually consistent (same innovation number => same link,
   same node id => same role), the population satisfies the invariant GInv with the registries read off
   the genomes - so every theorem above (C03_step, C03_history, C03_fresh_larger, ...) applies to it. *)
Theorem C03_read_population_invariant :
  forall C o reg ls s p s',
    read_population_state o reg ls s = Ok (p, s') ->
    exists rgs gs nn ni,
      read_population reg ls = Ok (rgs, nn, ni) /\ map_opt Plain.resolve rgs = Some gs /\
      s_env s' = {| innovs := []; next_innov := ni; next_node := nn |} /\
      (forall x, In x (p_heap p) -> In (Population.o_genome x) gs) /\
      ((forall g, In g gs ->
          wf g /\ incl (c_io C) (io_nodes g) /\ incl (io_nodes g) (c_io C) /\ tshape g = c_tshape C /\
          exists x, hd_error (genes g) = Some x /\ g_innov x = c_n0 C) ->
       (forall g1 g2 x1 x2, In g1 gs -> In g2 gs -> In x1 (genes g1) -> In x2 (genes g2) -> g_innov x1 = g_innov x2 ->
          g_in x1 = g_in x2 /\ g_out x1 = g_out x2 /\ g_rec x1 = g_rec x2) ->
       (forall g1 g2 n1 n2, In g1 gs -> In g2 gs -> In n1 (nodes g1) -> In n2 (nodes g2) -> n_id n1 = n_id n2 ->
          n_type n1 = n_type n2) ->
       GInv C p (s_env s')
            (flat_map (fun g => map (fun x => (g_innov x, (g_in x, g_out x, g_rec x))) (genes g)) gs)
            (flat_map (fun g => map (fun n => (n_id n, n_type n)) (nodes g)) gs)).
Proof. exact read_population_invariant. Qed.
Print Assumptions C03_read_population_invariant.

(* the case the hypotheses above are made for: a population that satisfies the invariant, written with
   Population.Write (the organisms of Population.Organisms in order; eight parameters per trait and nodes
   the plain format can carry) and read back, satisfies the invariant again under sub-registries of the
   ones before that still cover every organism written; the innovation record is empty *)
Theorem C03_write_read_invariant :
  forall C o reg p0 e0 R NR orgs ls s p s',
    GInv C p0 e0 R NR -> reg_ok reg ->
    hgets (p_heap p0) (Population.p_orgs p0) = Ok orgs ->
    Forall (fun tp => snd tp = NUM_TRAIT_PARAMS) (c_tshape C) ->
    (forall x n, In x orgs -> In n (nodes (Population.o_genome x)) -> node_ok reg n) ->
    write_population reg (map Population.o_genome orgs) = Ok ls ->
    read_population_state o reg ls s = Ok (p, s') ->
    exists R2 NR2,
      GInv C p (s_env s') R2 NR2 /\ incl R2 R /\ incl NR2 NR /\ innovs (s_env s') = [] /\
      (forall x, In x orgs -> g_agrees R2 (Population.o_genome x) /\ n_agrees NR2 (Population.o_genome x)) /\
      (forall y, In y (p_heap p) -> exists x, In x orgs /\ Population.o_genome y = Population.o_genome x).
Proof. exact write_read_invariant. Qed.
Print Assumptions C03_write_read_invariant.

(* evolution continued after a write / read round trip: a gene of an organism that was written and a gene
   of any organism of any generation after the read (any number of epochs, any fitness values, executor
   states and random tapes) with the same innovation number join the same nodes with the same recurrence
   flag; a node id keeps its role *)
Theorem C03_history_across_read :
  forall C o reg p0 e0 R NR orgs ls s p2 s2 l p3 s3,
    GInv C p0 e0 R NR -> reg_ok reg ->
    hgets (p_heap p0) (Population.p_orgs p0) = Ok orgs ->
    Forall (fun tp => snd tp = NUM_TRAIT_PARAMS) (c_tshape C) ->
    (forall x n, In x orgs -> In n (nodes (Population.o_genome x)) -> node_ok reg n) ->
    write_population reg (map Population.o_genome orgs) = Ok ls ->
    read_population_state o reg ls s = Ok (p2, s2) ->
    history o p2 s2 l p3 s3 ->
    forall a pb b, In a orgs -> In pb (p2 :: l) -> In b (p_heap pb) ->
      (forall xa xb, In xa (genes (Population.o_genome a)) -> In xb (genes (Population.o_genome b)) ->
                     g_innov xa = g_innov xb ->
                     g_in xa = g_in xb /\ g_out xa = g_out xb /\ g_rec xa = g_rec xb) /\
      (forall na nb, In na (nodes (Population.o_genome a)) -> In nb (nodes (Population.o_genome b)) ->
                     n_id na = n_id nb -> n_type na = n_type nb).
Proof. exact history_across_read_spelled. Qed.
Print Assumptions C03_history_across_read.

(* ... and against the WHOLE history before the write: an organism of any generation before the write and
   an organism of any generation after the read agree on every innovation number that is not larger than
   the counter the reader derived, and on every node id not larger than the node counter.  The bound is
   needed: the file does not carry the counters, so a number that only organisms extinct at the time of
   writing held lies above the counter read and is issued again (observed on the real code, harness family
   read-population, histogram number_of_extinct_organism_reissued_after_read). *)
Theorem C03_whole_history_across_read :
  forall C o reg pS sS R NR l0 p0 s0 orgs ls s p2 s2 l p3 s3,
    GInv C pS (s_env sS) R NR -> history o pS sS l0 p0 s0 -> reg_ok reg ->
    hgets (p_heap p0) (Population.p_orgs p0) = Ok orgs ->
    Forall (fun tp => snd tp = NUM_TRAIT_PARAMS) (c_tshape C) ->
    (forall x n, In x orgs -> In n (nodes (Population.o_genome x)) -> node_ok reg n) ->
    write_population reg (map Population.o_genome orgs) = Ok ls ->
    read_population_state o reg ls s = Ok (p2, s2) ->
    history o p2 s2 l p3 s3 ->
    forall pa pb a b, In pa (pS :: l0) -> In pb (p2 :: l) -> In a (p_heap pa) -> In b (p_heap pb) ->
      (forall xa xb, In xa (genes (Population.o_genome a)) -> In xb (genes (Population.o_genome b)) ->
                     g_innov xa = g_innov xb -> g_innov xa <= next_innov (s_env s2) ->
                     g_in xa = g_in xb /\ g_out xa = g_out xb /\ g_rec xa = g_rec xb) /\
      (forall na nb, In na (nodes (Population.o_genome a)) -> In nb (nodes (Population.o_genome b)) ->
                     n_id na = n_id nb -> n_id na <= next_node (s_env s2) -> n_type na = n_type nb).
Proof. exact whole_history_across_read_spelled. Qed.
Print Assumptions C03_whole_history_across_read.

(* ---------- non-vacuity: spawn + three epochs, write, read, three more epochs ---------- *)
(* the start genome of C03_example with the eight trait parameters the plain format carries *)
Definition ex_start8 : genome :=
  GN 1 [T 1 [0x1.999999999999ap-04%float; zero; zero; zero; zero; zero; zero; zero];
        T 2 [0x1.999999999999ap-03%float; zero; zero; zero; zero; zero; zero; zero]]
       [N 1 1 17 None; N 2 1 17 None; N 3 3 17 None; N 4 2 4 None]
       [G 1 4 false zero (Some 1) 1 zero true; G 2 4 false zero (Some 2) 2 zero true; G 3 4 false zero (Some 1) 3 zero true] [].

Definition ex_s8 : st := {| s_tape := go_tape 42 8000; s_env := {| innovs := []; next_innov := 0; next_node := 0 |} |}.
Definition ex_pops8 : res (list population * st) := run_population ex_opts ex_start8 ex_s8 ex_fit 3.

(* the last of the four populations is written and read back (ReadPopulation does not draw; the epochs
   after it use a fresh tape), then three more epochs *)
Definition ex_after_of (r : res (list population * st)) : res (population * list population * st * st) :=
  match r with
  | Ok (l, s) => run_write_read ex_opts ex_act_reg (last l empty_population)
                                {| s_tape := go_tape 43 6000; s_env := s_env s |} ex_fit 3
  | _ => BadOracle
  end.
Definition ex_after : res (population * list population * st * st) := ex_after_of ex_pops8.

(* before the write the counters are 10 / 8; the reader derives 11 (largest number held 10, plus one) and 8;
   three epochs later they are 24 / 12; the registry read off all eight populations (four before the write,
   four after the read) is functional *)
Example C03_example_across_read :
  match ex_pops8, ex_after with
  | Ok (l, s), Ok (p2, l2, s2, s3) =>
    (map (fun p => List.length (p_heap p)) (p2 :: l2), s_env s, s_env s2, s_env s3,
     functionalb key_eqb (all_genes (l ++ p2 :: l2)), functionalb Z.eqb (all_nodes (l ++ p2 :: l2)),
     max_key (all_genes l), max_key (all_genes (p2 :: l2)), max_key (all_nodes (p2 :: l2)))
    = ([8%nat; 8%nat; 8%nat; 8%nat],
       {| innovs := []; next_innov := 10; next_node := 8 |}, {| innovs := []; next_innov := 11; next_node := 8 |},
       {| innovs := []; next_innov := 24; next_node := 12 |}, true, true, 10, 24, 12)
  | _, _ => False
  end.
Proof. vm_compute. reflexivity. Qed.

Example C03_example_wf_start8 : wf ex_start8.
Proof.
  constructor.
  - discriminate.
  - unfold genes_sorted, InsertSpec.asc. cbn. repeat constructor.
  - unfold links_nodup. cbn. repeat constructor; cbn; intuition discriminate.
  - unfold nodes_sorted, InsertSpec.asc. cbn. repeat constructor.
  - intros x [<-|[<-|[<-|[]]]]; cbn; eexists; eexists; repeat split.
  - split.
    + intros x t [<-|[<-|[<-|[]]]] [= <-]; (split; [discriminate|]); cbn; eauto.
    + intros n t [<-|[<-|[<-|[<-|[]]]]]; discriminate.
  - split; [discriminate|]. exists 1. split; [reflexivity|reflexivity].
  - exists (N 4 2 4 None). split; [cbn; auto|reflexivity].
  - reflexivity.
Qed.

(* the hypotheses of C03_write_read_invariant / C03_history_across_read / C03_whole_history_across_read are
   satisfiable together: the run above is such a situation *)
Definition ex_hyp_check (r : res (list population * st)) : bool :=
  match r with
  | Ok (l, s) =>
    match hgets (p_heap (last l empty_population)) (Population.p_orgs (last l empty_population)) with
    | Ok orgs => forallb (fun x => forallb (node_okb ex_act_reg) (nodes (Population.o_genome x))) orgs
    | _ => false
    end && is_ok (ex_after_of r)
  | _ => false
  end.

Example C03_example_across_read_hypotheses :
  exists C pS sS R NR l0 p0 s0 orgs ls s p2 s2 l p3 s3,
    GInv C pS (s_env sS) R NR /\ history ex_opts pS sS l0 p0 s0 /\ List.length l0 = 3%nat /\ reg_ok ex_act_reg /\
    hgets (p_heap p0) (Population.p_orgs p0) = Ok orgs /\
    Forall (fun tp => snd tp = NUM_TRAIT_PARAMS) (c_tshape C) /\
    (forall x n, In x orgs -> In n (nodes (Population.o_genome x)) -> node_ok ex_act_reg n) /\
    write_population ex_act_reg (map Population.o_genome orgs) = Ok ls /\
    read_population_state ex_opts ex_act_reg ls s = Ok (p2, s2) /\
    history ex_opts p2 s2 l p3 s3 /\ List.length l = 3%nat.
Proof.
  assert (Hb : ex_hyp_check (run_population ex_opts ex_start8 ex_s8 ex_fit 3) = true) by (vm_compute; reflexivity).
  destruct (run_population ex_opts ex_start8 ex_s8 ex_fit 3) as [[l s]| | | | |] eqn:E; try discriminate Hb.
  destruct (run_population_history _ _ _ _ _ _ _ E) as (pS & sS & l0 & p0 & s0 & A & Hh & Hl & El).
  destruct (GInv_spawn ex_opts ex_start8 ex_s8 pS sS C03_example_wf_start8 eq_refl A) as [G _].
  assert (Ep : last l empty_population = p0).
  { rewrite El, (history_last _ _ _ _ _ _ Hh). symmetry. apply last_cons_default. }
  unfold ex_hyp_check, ex_after_of in Hb. cbv beta iota in Hb. rewrite Ep in Hb.
  apply andb_true_iff in Hb. destruct Hb as [Hn Hr].
  destruct (hgets (p_heap p0) (Population.p_orgs p0)) as [orgs| | | | |] eqn:Eo; try discriminate Hn.
  destruct (run_write_read ex_opts ex_act_reg p0 _ ex_fit 3) as [[[[p2 l2] s2] s3]| | | | |] eqn:Er; try discriminate Hr.
  destruct (run_write_read_history _ _ _ _ _ _ _ _ _ _ Er) as (orgs' & ls & p3 & s3' & B1 & B2 & B3 & B4 & B5).
  rewrite Eo in B1. injection B1 as <-.
  exists (ctx_of ex_start8), pS, sS, (reg_of ex_start8), (nreg_of ex_start8), l0, p0, s0, orgs, ls,
         {| s_tape := go_tape 43 6000; s_env := s_env s |}, p2, s2, l2, p3, s3'.
  split; [exact G|]. split; [exact Hh|]. split; [exact Hl|].
  split; [apply reg_okb_sound; vm_compute; reflexivity|]. split; [exact Eo|].
  split; [cbn; repeat constructor|]. split; [apply orgs_node_ok; exact Hn|]. auto.
Qed.

(* ====================================================================================================== *)
(* agent-rand2: populations made by NewPopulationRandom (genomes WITHOUT common ancestry).                 *)
(* Proofs: proofs/RandPopWF.v, proofs/NoSinglePoint.v.                                                     *)
(*                                                                                                        *)
(* GInv cannot hold for such a population: its per-genome part gok contains the clause                     *)
(*     gk_first : In (c_n0 C) (map g_innov (genes g))                                                      *)
(* (every genome carries the innovation number of the start genome's first gene; with the lower bound of   *)
(* ro_bound: all genomes begin with the same gene, which is what single-point crossover needs).  Two       *)
(* randomly constructed genomes need not share a gene.  Vocabulary added:                                  *)
(*   gokR C e R NR g     gok without gk_first (C03_weakened_invariant_clause: exactly that clause)          *)
(*   GInvR C p e R NR    GInv over gokR; rok (the registry against the environment) is unchanged            *)
(*   rand_ctx in out mh  io nodes (i, INPUT) 1 <= i < in, (in, BIAS), (i, OUTPUT) in+mh < i <= in+mh+out;  *)
(*                       one trait (id 1, 8 parameters); c_n0 = 0                                           *)
(*   heap_reg h, heap_nreg h   the registries read off all genomes of a heap                                *)
(* Every step of an epoch preserves GInvR, provided single-point crossover is never chosen (the condition  *)
(* on the options written out below; props/C01.v: C01_single_point_never_chosen, ..._condition_necessary). *)
(* ====================================================================================================== *)
From NeatModel Require Import RandGenome NoSinglePoint RandPopWF.

Theorem C03_weakened_invariant_clause : forall C e R NR g,
    gok C e R NR g <-> gokR C e R NR g /\ In (c_n0 C) (map g_innov (genes g)).
Proof. exact gok_iff_gokR. Qed.
Print Assumptions C03_weakened_invariant_clause.

Theorem C03_weakened_invariant_vocabulary :
  (forall C e R NR g, gokR C e R NR g <->
     wf g /\ env_ok e g /\ (forall x, In x (genes g) -> In (g_innov x, (g_in x, g_out x, g_rec x)) R) /\
     (forall n, In n (nodes g) -> In (n_id n, n_type n) NR) /\ incl (c_io C) (io_nodes g) /\
     map (fun t => (t_id t, List.length (t_params t))) (traits g) = c_tshape C) /\
  (forall C p e R NR, GInvR C p e R NR <-> rok C e R NR /\ forall x, In x (p_heap p) -> gokR C e R NR (Population.o_genome x)) /\
  (forall C p e R NR, GInv C p e R NR -> GInvR C p e R NR) /\
  (forall in_ out mh,
     c_io (rand_ctx in_ out mh) =
       (map (fun i => (i, if Z.eqb i in_ then BIAS else INPUT)) (for_range 1 in_) ++
        map (fun i => (i, OUTPUT)) (for_range (in_ + mh + 1) (in_ + out + mh)))%list /\
     c_tshape (rand_ctx in_ out mh) = [(1, 8%nat)] /\ c_n0 (rand_ctx in_ out mh) = 0) /\
  (forall h, heap_reg h = flat_map (fun x => map (fun y => (g_innov y, (g_in y, g_out y, g_rec y))) (genes (Population.o_genome x))) h) /\
  (forall h, heap_nreg h = flat_map (fun x => map (fun n => (n_id n, n_type n)) (nodes (Population.o_genome x))) h).
Proof.
  split; [|split; [|split; [exact GInv_GInvR|split; [|split]]]]; try (intros; reflexivity).
  - intros C e R NR g. split.
    + intros [A B D E F G]. exact (conj A (conj B (conj D (conj E (conj F G))))).
    + intros (A & B & D & E & F & G). constructor; assumption.
  - intros C p e R NR. split.
    + intros [A B]. split; [exact A|exact B].
    + intros [A B]. constructor; [exact A|exact B].
  - intros in_ out mh. repeat split.
Qed.
Print Assumptions C03_weakened_invariant_vocabulary.

(* NewPopulationRandom establishes the weakened invariant when every constructed genome has a gene *)
Theorem C03_random_population_invariant : forall o in_ out max_hidden recurrent link_prob s0 p s,
    1 <= in_ -> 1 <= out -> innovs (s_env s0) = [] ->
    new_population_random o in_ out max_hidden recurrent link_prob s0 = Ok (p, s) ->
    (forall x, In x (p_heap p) -> genes (Population.o_genome x) <> []) ->
    GInvR (rand_ctx in_ out max_hidden) p (s_env s) (heap_reg (p_heap p)) (heap_nreg (p_heap p)) /\ innovs (s_env s) = [].
Proof. exact GInvR_random. Qed.
Print Assumptions C03_random_population_invariant.

(* one epoch preserves it when single-point crossover is never chosen (C03_step for GInvR) *)
Theorem C03_step_random : forall C o gen p x s p' x' s' R NR,
    (PrimFloat.leb 1 (o_mate_multi o) = true \/
     PrimFloat.leb 1 (PrimFloat.div (o_mate_multi_avg o) (PrimFloat.add (o_mate_multi_avg o) (o_mate_single o))) = true) ->
    GInvR C p (s_env s) R NR -> next_epoch o gen p x s = Ok ((p', x'), s') ->
    exists R' NR',
      incl R R' /\ incl NR NR' /\ GInvR C p' (s_env s') R' NR' /\ innovs (s_env s') = [] /\
      next_innov (s_env s) <= next_innov (s_env s') /\ next_node (s_env s) <= next_node (s_env s') /\
      (forall n k, In (n, k) R' -> In (n, k) R \/ next_innov (s_env s) < n) /\
      (forall i t, In (i, t) NR' -> In (i, t) NR \/ next_node (s_env s) < i).
Proof.
  intros C o gen p x s p' x' s' R NR NS G H.
  destruct (GInvR_step C o gen p x s p' x' s' R NR NS G H) as (R' & NR' & [A1 A2 A3 A4 A5 A6] & G' & E).
  exists R', NR'. split; [exact A3|]. split; [exact A4|]. split; [exact G'|]. split; [exact E|]. auto.
Qed.
Print Assumptions C03_step_random.

(* ... and so does any number of epochs (C03_history for GInvR) *)
Theorem C03_history_random : forall C o p s l p' s' R NR,
    (PrimFloat.leb 1 (o_mate_multi o) = true \/
     PrimFloat.leb 1 (PrimFloat.div (o_mate_multi_avg o) (PrimFloat.add (o_mate_multi_avg o) (o_mate_single o))) = true) ->
    GInvR C p (s_env s) R NR -> history o p s l p' s' ->
    exists R' NR',
      incl R R' /\ incl NR NR' /\ GInvR C p' (s_env s') R' NR' /\
      (forall n k, In (n, k) R' -> In (n, k) R \/ next_innov (s_env s) < n) /\
      (forall i t, In (i, t) NR' -> In (i, t) NR \/ next_node (s_env s) < i) /\
      forall q, In q l -> exists e, hall (gokR C e R' NR') (p_heap q).
Proof. intros C o p s l p' s' R NR NS G H. exact (GInvR_history C o p s l p' s' NS H R NR G). Qed.
Print Assumptions C03_history_random.

(* C03_one_link_per_number / C03_one_role_per_node_id for random populations: across the whole history of a
   randomly constructed population (every constructed genome has a gene; single-point crossover never chosen)
   any two genes with the same innovation number join the same source and target node ids with the same
   recurrence flag, and a node id never denotes nodes of different roles *)
Theorem C03_one_link_per_number_random :
  forall o in_ out max_hidden recurrent link_prob s0 p s l p' s',
    1 <= in_ -> 1 <= out -> innovs (s_env s0) = [] ->
    (PrimFloat.leb 1 (o_mate_multi o) = true \/
     PrimFloat.leb 1 (PrimFloat.div (o_mate_multi_avg o) (PrimFloat.add (o_mate_multi_avg o) (o_mate_single o))) = true) ->
    new_population_random o in_ out max_hidden recurrent link_prob s0 = Ok (p, s) ->
    (forall x, In x (p_heap p) -> genes (Population.o_genome x) <> []) ->
    history o p s l p' s' ->
    forall pa pb a b xa xb,
      In pa (p :: l) -> In pb (p :: l) -> In a (p_heap pa) -> In b (p_heap pb) ->
      In xa (genes (Population.o_genome a)) -> In xb (genes (Population.o_genome b)) -> g_innov xa = g_innov xb ->
      g_in xa = g_in xb /\ g_out xa = g_out xb /\ g_rec xa = g_rec xb.
Proof.
  intros o in_ out mh rc lp s0 p s l p' s' Hin Hout Ei NS Hn Hne Hh pa pb a b xa xb Hpa Hpb Ha Hb Hxa Hxb E.
  pose proof (proj1 (random_history_one_link_per_number o in_ out mh rc lp s0 p s l p' s' Hin Hout Ei NS Hn Hne Hh
                       pa pb a b Hpa Hpb Ha Hb) xa xb Hxa Hxb E) as K.
  unfold link_key in K. injection K as -> -> ->. auto.
Qed.
Print Assumptions C03_one_link_per_number_random.

Theorem C03_one_role_per_node_id_random :
  forall o in_ out max_hidden recurrent link_prob s0 p s l p' s',
    1 <= in_ -> 1 <= out -> innovs (s_env s0) = [] ->
    (PrimFloat.leb 1 (o_mate_multi o) = true \/
     PrimFloat.leb 1 (PrimFloat.div (o_mate_multi_avg o) (PrimFloat.add (o_mate_multi_avg o) (o_mate_single o))) = true) ->
    new_population_random o in_ out max_hidden recurrent link_prob s0 = Ok (p, s) ->
    (forall x, In x (p_heap p) -> genes (Population.o_genome x) <> []) ->
    history o p s l p' s' ->
    forall pa pb a b na nb,
      In pa (p :: l) -> In pb (p :: l) -> In a (p_heap pa) -> In b (p_heap pb) ->
      In na (nodes (Population.o_genome a)) -> In nb (nodes (Population.o_genome b)) -> n_id na = n_id nb -> n_type na = n_type nb.
Proof.
  intros o in_ out mh rc lp s0 p s l p' s' Hin Hout Ei NS Hn Hne Hh pa pb a b na nb Hpa Hpb Ha Hb Hna Hnb E.
  exact (proj2 (random_history_one_link_per_number o in_ out mh rc lp s0 p s l p' s' Hin Hout Ei NS Hn Hne Hh
                  pa pb a b Hpa Hpb Ha Hb) na nb Hna Hnb E).
Qed.
Print Assumptions C03_one_role_per_node_id_random.

(* non-vacuity: rand.Seed(42), NewPopulationRandom(3, 2, 3, true, 0.5), PopSize 8, MateSinglepointProb 0
   (MateMultipointProb 0.6, MateMultipointAvgProb 0.4), compatibility threshold 100: every constructed genome has
   a gene, two epochs succeed with babies made by crossover in both, and the registries read off all three
   populations are functional *)
Definition ex_rand_opts : options :=
  OPT [0x1p-01%float; 0x1p+00%float; 0x1.4p+01%float; 0x1p+00%float; 0x1p+00%float; 0x1.999999999999ap-02%float;
       0x1.9p+6%float; 0x1p+00%float; 0x1.999999999999ap-03%float; 0x1p-02%float; 0x1.999999999999ap-04%float;
       0x1.999999999999ap-04%float; 0x1.999999999999ap-04%float; 0x1.ccccccccccccdp-01%float; 0x1.999999999999ap-04%float;
       0x1.999999999999ap-04%float; 0x1.3333333333333p-02%float; 0x1p-01%float; 0x1.999999999999ap-04%float;
       0x1.999999999999ap-04%float; 0x1.3333333333333p-01%float; 0x1.999999999999ap-02%float; 0%float;
       0x1.999999999999ap-03%float; 0x1.999999999999ap-03%float] 8 15 20 0 false [4; 11] [0x1p-1%float; 0x1p-1%float].

Example C03_random_example :
  (PrimFloat.leb 1 (o_mate_multi ex_rand_opts) = true \/
   PrimFloat.leb 1 (PrimFloat.div (o_mate_multi_avg ex_rand_opts)
                                  (PrimFloat.add (o_mate_multi_avg ex_rand_opts) (o_mate_single ex_rand_opts))) = true) /\
  exists p s l p' s',
    new_population_random ex_rand_opts 3 2 3 true 0x1p-1%float ex_s0 = Ok (p, s) /\
    (forall x, In x (p_heap p) -> genes (Population.o_genome x) <> []) /\
    history ex_rand_opts p s l p' s' /\ List.length l = 2%nat /\
    forallb (fun q => existsb Population.o_mate (p_heap q)) l = true /\
    functionalb key_eqb (all_genes (p :: l)) = true /\ functionalb Z.eqb (all_nodes (p :: l)) = true.
Proof.
  split; [right; vm_compute; reflexivity|].
  assert (H : match run_random ex_rand_opts 3 2 3 true 0x1p-1%float ex_s0 ex_fit 2 with
              | Ok (p :: l, _) => forallb (fun x => negb (Nat.eqb (List.length (genes (Population.o_genome x))) 0)) (p_heap p) &&
                                  forallb (fun q => existsb Population.o_mate (p_heap q)) l &&
                                  (functionalb key_eqb (all_genes (p :: l)) && functionalb Z.eqb (all_nodes (p :: l)))
              | _ => false
              end = true) by (vm_compute; reflexivity).
  destruct (run_random ex_rand_opts 3 2 3 true 0x1p-1%float ex_s0 ex_fit 2) as [[l0 s2]| | | | |] eqn:E;
    try discriminate H.
  destruct (run_random_history _ _ _ _ _ _ _ _ _ _ _ E) as (p & s & l & p' & s' & A & Hh & Hl & ->).
  apply andb_true_iff in H. destruct H as [H H3]. apply andb_true_iff in H. destruct H as [H1 H2].
  apply andb_true_iff in H3. destruct H3 as [H3 H4].
  exists p, s, l, p', s'. split; [exact A|]. split.
  - intros x Hx G. rewrite forallb_forall in H1. specialize (H1 x Hx). rewrite G in H1. discriminate H1.
  - split; [exact Hh|]. split; [exact Hl|]. split; [exact H2|]. split; [exact H3|exact H4].
Qed.
