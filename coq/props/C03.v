(* C03 - an innovation number denotes one connection for the life of a population.
   Property theorems only; proofs live in proofs/Registry.v (operator level) and proofs/PopWF.v
   (population level).  Model: model/Population.v (sequential executor), model/Mutate.v, model/Mate.v.

   Vocabulary (all defined in proofs/Registry.v and proofs/PopWF.v):
     reg / nreg            ghost registries: innovation number |-> (in, out, recurrent), node id |-> role
     GInv C p e R NR       every organism of p's heap is well-formed, consistent with the innovation
                           environment e, and its genes / nodes are registered in R / NR; R and NR are
                           functional, bounded by the counters of e, and every record of e agrees
                           with them, at most one record per structural key
     history o p s l p' s' |l| rounds of (assign any fitness values; turn the epoch over with any
                           generation number, executor state and random tape) lead from (p, s) to
                           (p', s'); l lists the population after each round *)
From Coq Require Import ZArith List Floats.
From NeatModel Require Import Compat.
From NeatModel Require Import Res F64 GoRand GoSource Genome Options Mutate Population GenomeLit WF MutateSpec Registry PopWF.
Import ListNotations.
Open Scope Z_scope.

Notation innovs := Genome.innovs.

(* ---------- the whole history of a population ---------- *)
(* Across the whole history of a population spawned from a well-formed start genome, any two genes
   (of any two organisms of any two generations) with the same innovation number join the same source
   and target node ids with the same recurrence flag. *)
Theorem C03_one_link_per_number :
  forall o g s0 p s l p' s',
    wf g -> innovs (s_env s0) = [] -> new_population o g s0 = Ok (p, s) -> history o p s l p' s' ->
    forall pa pb a b xa xb,
      In pa (p :: l) -> In pb (p :: l) -> In a (p_heap pa) -> In b (p_heap pb) ->
      In xa (genes (o_genome a)) -> In xb (genes (o_genome b)) -> g_innov xa = g_innov xb ->
      g_in xa = g_in xb /\ g_out xa = g_out xb /\ g_rec xa = g_rec xb.
Proof.
  intros o g s0 p s l p' s' W Ei Hn Hh pa pb a b xa xb Hpa Hpb Ha Hb Hxa Hxb E.
  pose proof (proj1 (history_one_link_per_number _ o p s l p' s' _ _ (proj1 (GInv_spawn o g s0 p s W Ei Hn)) Hh
                       pa pb a b Hpa Hpb Ha Hb) xa xb Hxa Hxb E) as K.
  unfold link_key in K. injection K as -> -> ->. auto.
Qed.
Print Assumptions C03_one_link_per_number.

(* ... and a node id never denotes nodes of different roles. *)
Theorem C03_one_role_per_node_id :
  forall o g s0 p s l p' s',
    wf g -> innovs (s_env s0) = [] -> new_population o g s0 = Ok (p, s) -> history o p s l p' s' ->
    forall pa pb a b na nb,
      In pa (p :: l) -> In pb (p :: l) -> In a (p_heap pa) -> In b (p_heap pb) ->
      In na (nodes (o_genome a)) -> In nb (nodes (o_genome b)) -> n_id na = n_id nb -> n_type na = n_type nb.
Proof.
  intros o g s0 p s l p' s' W Ei Hn Hh pa pb a b na nb Hpa Hpb Ha Hb Hna Hnb E.
  exact (proj2 (history_one_link_per_number _ o p s l p' s' _ _ (proj1 (GInv_spawn o g s0 p s W Ei Hn)) Hh
                  pa pb a b Hpa Hpb Ha Hb) na nb Hna Hnb E).
Qed.
Print Assumptions C03_one_role_per_node_id.

(* ---------- initialisation ---------- *)
(* NewPopulation establishes the invariant, with the registries read off the start genome *)
Theorem C03_spawn :
  forall o g s0 p s,
    wf g -> innovs (s_env s0) = [] -> new_population o g s0 = Ok (p, s) ->
    GInv (ctx_of g) p (s_env s)
         (map (fun x => (g_innov x, (g_in x, g_out x, g_rec x))) (genes g))
         (map (fun n => (n_id n, n_type n)) (nodes g))
    /\ innovs (s_env s) = [].
Proof. exact GInv_spawn. Qed.
Print Assumptions C03_spawn.

(* ---------- one generation ---------- *)
(* An epoch turnover preserves the invariant under registries that only grew; every number and
   node id added to them is larger than the counters before the epoch (hence larger than anything
   the population held, see C03_fresh_larger); the record of innovations is empty afterwards. *)
Theorem C03_step :
  forall C o gen p x s p' x' s' R NR,
    GInv C p (s_env s) R NR -> next_epoch o gen p x s = Ok ((p', x'), s') ->
    exists R' NR',
      incl R R' /\ incl NR NR' /\ GInv C p' (s_env s') R' NR' /\ innovs (s_env s') = [] /\
      next_innov (s_env s) <= next_innov (s_env s') /\ next_node (s_env s) <= next_node (s_env s') /\
      (forall n k, In (n, k) R' -> In (n, k) R \/ next_innov (s_env s) < n) /\
      (forall i t, In (i, t) NR' -> In (i, t) NR \/ next_node (s_env s) < i).
Proof.
  intros C o gen p x s p' x' s' R NR G H.
  destruct (GInv_step C o gen p x s p' x' s' R NR G H) as (R' & NR' & [A1 A2 A3 A4 A5 A6] & G' & E).
  exists R', NR'. split; [exact A3|]. split; [exact A4|]. split; [exact G'|]. split; [exact E|]. auto.
Qed.
Print Assumptions C03_step.

(* the same over any number of generations *)
Theorem C03_history :
  forall C o p s l p' s' R NR,
    GInv C p (s_env s) R NR -> history o p s l p' s' ->
    exists R' NR',
      incl R R' /\ incl NR NR' /\ GInv C p' (s_env s') R' NR' /\
      (forall n k, In (n, k) R' -> In (n, k) R \/ next_innov (s_env s) < n) /\
      (forall i t, In (i, t) NR' -> In (i, t) NR \/ next_node (s_env s) < i) /\
      forall q, In q l -> exists e, hall (gok C e R' NR') (p_heap q).
Proof. intros C o p s l p' s' R NR G H. exact (GInv_history C o p s l p' s' H R NR G). Qed.
Print Assumptions C03_history.

(* Innovation numbers and node ids issued in a generation are larger than any the population held
   before: a gene of the new population either carries a number registered before the epoch, or
   its number exceeds the counter and the number of every gene of every organism of the old
   population; the same for node ids. *)
Theorem C03_fresh_larger :
  forall C o gen p x s p' x' s' R NR,
    GInv C p (s_env s) R NR -> next_epoch o gen p x s = Ok ((p', x'), s') ->
    forall b, In b (p_heap p') ->
      (forall xb, In xb (genes (o_genome b)) ->
         In (g_innov xb, (g_in xb, g_out xb, g_rec xb)) R \/
         (next_innov (s_env s) < g_innov xb /\
          forall a xa, In a (p_heap p) -> In xa (genes (o_genome a)) -> g_innov xa < g_innov xb)) /\
      (forall nb, In nb (nodes (o_genome b)) ->
         In (n_id nb, n_type nb) NR \/
         (next_node (s_env s) < n_id nb /\
          forall a na, In a (p_heap p) -> In na (nodes (o_genome a)) -> n_id na < n_id nb)).
Proof. exact step_fresh_larger. Qed.
Print Assumptions C03_fresh_larger.

(* The record of innovations is forgotten when the generation ends. *)
Theorem C03_record_forgotten :
  forall o gen p x s p' x' s', next_epoch o gen p x s = Ok ((p', x'), s') -> innovs (s_env s') = [].
Proof. exact next_epoch_forgets. Qed.
Print Assumptions C03_record_forgotten.

(* ---------- identical innovations of one generation ---------- *)
(* Two link-adding mutations (mutateAddLink, mutateConnectSensors) in the same generation - the
   record the first one left is still there when the second runs, and the invariant holds before
   the second: the genes they add for the same (in, out, recurrent) carry the same number. *)
Theorem C03_same_link_same_number :
  forall C R NR op1 g1 s1 g1' b1 s1' op2 g2 s2 g2' b2 s2' x1 x2,
    link_op op1 -> link_op op2 ->
    op1 g1 s1 = Ok ((g1', b1), s1') -> op2 g2 s2 = Ok ((g2', b2), s2') ->
    incl (innovs (s_env s1')) (innovs (s_env s2)) ->
    rok C (s_env s2) R NR ->
    (forall x, In x (genes g2) -> In (g_innov x, (g_in x, g_out x, g_rec x)) R) ->
    (forall n, In n (nodes g2) -> In (n_id n, n_type n) NR) ->
    In x1 (genes g1') -> ~ In x1 (genes g1) -> In x2 (genes g2') -> ~ In x2 (genes g2) ->
    g_in x1 = g_in x2 -> g_out x1 = g_out x2 -> g_rec x1 = g_rec x2 -> g_innov x1 = g_innov x2.
Proof.
  intros C R NR op1 g1 s1 g1' b1 s1' op2 g2 s2 g2' b2 s2' x1 x2 L1 L2 H1 H2 I RO A N X1 N1 X2 N2 Ei Eo Er.
  apply (same_generation_same_link_number C R NR op1 g1 s1 g1' b1 s1' op2 g2 s2 g2' b2 s2' x1 x2); auto.
  unfold WF.link_key. congruence.
Qed.
Print Assumptions C03_same_link_same_number.

(* Two successful mutateAddNode runs in the same generation that split the same gene create the
   same node id and the same two innovation numbers. *)
Theorem C03_same_split_same_numbers :
  forall C R NR o1 g1 s1 g1' s1' o2 g2 s2 g2' s2',
    mutate_add_node o1 g1 s1 = Ok ((g1', true), s1') -> mutate_add_node o2 g2 s2 = Ok ((g2', true), s2') ->
    incl (innovs (s_env s1')) (innovs (s_env s2)) ->
    rok C (s_env s2) R NR ->
    (forall x, In x (genes g2) -> In (g_innov x, (g_in x, g_out x, g_rec x)) R) ->
    (forall n, In n (nodes g2) -> In (n_id n, n_type n) NR) ->
    exists k1 old1 nd1 a1 c1 k2 old2 nd2 a2 c2,
      nth_error (genes g1) k1 = Some old1 /\ g1' = split_genome g1 k1 old1 nd1 a1 c1 /\
      nth_error (genes g2) k2 = Some old2 /\ g2' = split_genome g2 k2 old2 nd2 a2 c2 /\
      (g_in old1 = g_in old2 -> g_out old1 = g_out old2 -> g_innov old1 = g_innov old2 ->
       n_id nd1 = n_id nd2 /\ a1 = a2 /\ c1 = c2).
Proof. exact same_generation_same_split. Qed.
Print Assumptions C03_same_split_same_numbers.

(* during the reproduction phase of an epoch the environment is only extended (records are only
   appended, counters only grow), so the two theorems above apply to any two babies of a generation *)
Theorem C03_reproduce_extends :
  forall C o gen p sorted x s p' x' s' R NR,
    rok C (s_env s) R NR -> hall (gok C (s_env s) R NR) (p_heap p) ->
    reproduce o gen p sorted x s = Ok ((p', x'), s') ->
    exists R' NR', env_extends (s_env s) (s_env s') /\ incl R R' /\ incl NR NR' /\
                   rok C (s_env s') R' NR' /\ hall (gok C (s_env s') R' NR') (p_heap p').
Proof.
  intros C o gen p sorted x s p' x' s' R NR RO Hh H.
  destruct (reproduce_ok mutators_ok_holds C o gen p sorted x s p' x' s' R NR RO Hh H) as (R' & NR' & X & E & RO' & Hh').
  exists R', NR'. split; [exact X|]. split; [apply (x_R _ _ _ _ _ _ E)|]. split; [apply (x_NR _ _ _ _ _ _ E)|]. auto.
Qed.
Print Assumptions C03_reproduce_extends.

(* ... and at the end of the reproduction phase the record of the generation holds at most one
   link innovation per (in, out, recurrent) and at most one node innovation per split gene
   (in, out, old innovation number): identical innovations of one generation are one record, hence
   one set of numbers and one node id. *)
Theorem C03_one_record_per_innovation :
  forall C o gen p sorted x s p' x' s' R NR,
    rok C (s_env s) R NR -> hall (gok C (s_env s) R NR) (p_heap p) ->
    reproduce o gen p sorted x s = Ok ((p', x'), s') ->
    forall i j, In i (innovs (s_env s')) -> In j (innovs (s_env s')) ->
      (i_type i = 2 -> i_type j = 2 -> i_in i = i_in j -> i_out i = i_out j -> i_rec i = i_rec j -> i = j) /\
      (i_type i = 1 -> i_type j = 1 -> i_in i = i_in j -> i_out i = i_out j -> i_old i = i_old j -> i = j).
Proof.
  intros C o gen p sorted x s p' x' s' R NR RO Hh H i j Hi Hj.
  destruct (reproduce_ok mutators_ok_holds C o gen p sorted x s p' x' s' R NR RO Hh H) as (R' & NR' & _ & _ & RO' & _).
  split; [apply (ro_lkey _ _ _ _ RO')|apply (ro_nkey _ _ _ _ RO')]; assumption.
Qed.
Print Assumptions C03_one_record_per_innovation.

(* ---------- non-vacuity: a concrete run (Go's PRNG seeded with 42), spawn + three epochs ---------- *)
Definition ex_opts : options :=
  OPT [0x1p-01%float; 0x1p+00%float; 0x1.4p+01%float; 0x1p+00%float; 0x1p+00%float; 0x1.999999999999ap-02%float;
       0x1.8p+1%float; 0x1p+00%float; 0x1.999999999999ap-03%float; 0x1p-01%float; 0x1.999999999999ap-04%float;
       0x1.999999999999ap-04%float; 0x1.999999999999ap-04%float; 0x1.ccccccccccccdp-01%float; 0x1.999999999999ap-04%float;
       0x1.999999999999ap-04%float; 0x1.3333333333333p-02%float; 0x1p-01%float; 0x1.999999999999ap-04%float;
       0x1.999999999999ap-04%float; 0x1.3333333333333p-01%float; 0x1.999999999999ap-02%float; 0x1.999999999999ap-03%float;
       0x1.999999999999ap-03%float; 0x1.999999999999ap-03%float] 8 15 20 0 false [4] [0x1p+00%float].

Definition ex_start : genome :=
  GN 1 [T 1 [0x1.999999999999ap-04%float; zero]; T 2 [0x1.999999999999ap-03%float; zero]]
       [N 1 1 17 None; N 2 1 17 None; N 3 3 17 None; N 4 2 4 None]
       [G 1 4 false zero (Some 1) 1 zero true; G 2 4 false zero (Some 2) 2 zero true; G 3 4 false zero (Some 1) 3 zero true] [].

Definition ex_s0 : st := {| s_tape := go_tape 42 4000; s_env := {| innovs := []; next_innov := 0; next_node := 0 |} |}.
Definition ex_fit : list float := [1; 2; 3; 4; 5; 6; 7; 8]%float.

Definition ex_pops : res (list population * st) := run_population ex_opts ex_start ex_s0 ex_fit 3.

(* the registries accumulated over all organisms of all four populations *)
Definition all_genes (l : list population) : list (Z * (Z * Z * bool)) :=
  flat_map (fun p => flat_map (fun y => map (fun x => (g_innov x, (g_in x, g_out x, g_rec x))) (genes (o_genome y))) (p_heap p)) l.
Definition all_nodes (l : list population) : list (Z * Z) :=
  flat_map (fun p => flat_map (fun y => map (fun n => (n_id n, n_type n)) (nodes (o_genome y))) (p_heap p)) l.
Definition key_eqb (a b : Z * Z * bool) : bool :=
  Z.eqb (fst (fst a)) (fst (fst b)) && Z.eqb (snd (fst a)) (snd (fst b)) && Bool.eqb (snd a) (snd b).
Definition functionalb {B} (eqb : B -> B -> bool) (l : list (Z * B)) : bool :=
  forallb (fun a => forallb (fun b => implb (Z.eqb (fst a) (fst b)) (eqb (snd a) (snd b))) l) l.
Definition max_key {B} (l : list (Z * B)) : Z := fold_left (fun m a => Z.max m (fst a)) l 0.

(* the run succeeds; four populations of eight organisms; the registry read off all of them is
   functional and bounded by the counters; seven new innovation numbers (the start genome has 1-3)
   and four new nodes (the start genome has 1-4) were issued; the record is empty at the end *)
Example C03_example :
  match ex_pops with
  | Ok (l, s) =>
    (map (fun p => length (p_heap p)) l,
     functionalb key_eqb (all_genes l), functionalb Z.eqb (all_nodes l),
     max_key (all_genes l), max_key (all_nodes l), s_env s)
    = ([8%nat; 8%nat; 8%nat; 8%nat], true, true, 10, 8, {| innovs := []; next_innov := 10; next_node := 8 |})
  | _ => False
  end.
Proof. vm_compute. reflexivity. Qed.

(* the hypotheses of the history theorems are satisfiable: the run above is a history of three epochs
   from a well-formed start genome *)
Example C03_example_wf_start : wf ex_start.
Proof.
  constructor.
  - discriminate.
  - unfold genes_sorted, InsertSpec.asc. cbn. repeat constructor.
  - unfold links_nodup. cbn. repeat constructor; cbn; intuition discriminate.
  - unfold nodes_sorted, InsertSpec.asc. cbn. repeat constructor.
  - intros x [<-|[<-|[<-|[]]]]; cbn; eexists; eexists; repeat split.
  - split.
    + intros x t [<-|[<-|[<-|[]]]] [= <-]; (split; [discriminate|]); cbn; eauto.
    + intros n t [<-|[<-|[<-|[<-|[]]]]]; discriminate.
  - split; [discriminate|]. exists 1. split; [reflexivity|reflexivity].
  - exists (N 4 2 4 None). split; [cbn; auto|reflexivity].
  - reflexivity.
Qed.

Example C03_example_history :
  exists p s l p' s',
    new_population ex_opts ex_start ex_s0 = Ok (p, s) /\ history ex_opts p s l p' s' /\ length l = 3%nat.
Proof.
  assert (Hok : is_ok (run_population ex_opts ex_start ex_s0 ex_fit 3) = true) by (vm_compute; reflexivity).
  destruct (run_population ex_opts ex_start ex_s0 ex_fit 3) as [[l s2]| | | | |] eqn:E; try (discriminate Hok).
  destruct (run_population_history _ _ _ _ _ _ _ E) as (p & s & l' & p' & s' & A & B & D & _).
  exists p, s, l', p', s'. auto.
Qed.
