#!/bin/sh
# usage: goal.sh file.v LINE  -- prints the proof state just before LINE (dev helper)
f=$1; n=$2
d=$(dirname $f); b=$(basename $f .v)
head -n $((n-1)) $f > $d/${b}_tmpgoal.v
echo "Show. Abort." >> $d/${b}_tmpgoal.v
coqc -R . NeatModel -w -notation-overridden $d/${b}_tmpgoal.v 2>&1 | tail -${3:-60}
rm -f $d/${b}_tmpgoal.* $d/.${b}_tmpgoal.aux
