(* C02, "succeeds without error": under the invariant the book-keeping of an epoch cannot fail.
   prepare either succeeds or runs out of tape; every other failure of NextEpoch is a failure of
   one call of Species.reproduce's per-baby body (one_baby: the genetic operators and the random
   parent draws); removeOrganism (70), reproduce out of an empty species (71), nothing to
   speciate (72), threshold zero (73, by hypothesis), progeny size (74, by the quota hypothesis),
   best species died (75) and the nil / index panics of the epoch's own look-ups cannot occur. *)
From NeatModel Require Import Compat.
From NeatModel Require Import Res F64 GoRand Genome Options Insert Dup Mutate Mate Population MonadLemmas
     PopBase PopPrepare PopRepro PopFinal PopInv.
From Coq Require Import Lia Permutation.

(* ---------- failures ---------- *)
Inductive fail : Type := FErr (c : Z) | FPanic (c : Z) | FTape | FFuel | FOracle.
Definition failure {A} (r : res A) : option fail :=
  match r with
  | Ok _ => None | GoErr c => Some (FErr c) | GoPanic c => Some (FPanic c)
  | OutOfTape => Some FTape | OutOfFuel => Some FFuel | BadOracle => Some FOracle
  end.

Lemma failure_bindM {S A B} (m : @M S A) (f : A -> @M S B) s :
  failure (bindM m f s) = match m s with Ok (a, s1) => failure (f a s1) | r => failure r end.
Proof. unfold bindM. destruct (m s) as [[a s1]| | | | |]; reflexivity. Qed.

Lemma failure_none {A} (r : res A) : failure r = None -> exists a, r = Ok a.
Proof. destruct r; try discriminate. eauto. Qed.

(* ---------- domain of the heap ---------- *)
Definition hdom (h : list organism) (k : Z) : Prop := exists x, hget h k = Ok x.

Lemma hdom_frame {A} (f : organism -> A) h h' k : hframe f h h' -> hdom h k -> hdom h' k.
Proof.
  intros F (x & Hx). pose proof (hview_get f _ _ _ Hx) as V. rewrite <- F in V.
  apply hview_some in V. destruct V as (y & Hy & _). now exists y.
Qed.

Lemma hdom_frame_rev {A} (f : organism -> A) h h' k : hframe f h h' -> hdom h' k -> hdom h k.
Proof.
  intros F (x & Hx). pose proof (hview_get f _ _ _ Hx) as V. rewrite F in V.
  apply hview_some in V. destruct V as (y & Hy & _). now exists y.
Qed.

Definition dom_sp (h : list organism) (s : species) : Prop := forall k, In k (sp_orgs s) -> hdom h k.
(* some member is not marked for elimination *)
Definition alive (h : list organism) (s : species) : Prop :=
  exists k x, In k (sp_orgs s) /\ hget h k = Ok x /\ o_elim x = false.

Lemma Wf_dom l h P s : Wf l h P -> In s l -> dom_sp h s.
Proof.
  intros W Hs k Hk. pose proof (wf_link _ _ _ W s k Hs Hk) as E. apply hview_some in E.
  destruct E as (x & Hx & _). now exists x.
Qed.

Lemma first_org_total h s : sp_orgs s <> [] -> dom_sp h s -> exists c, first_org h s = Ok c.
Proof.
  unfold first_org. intros Ne D. destruct (sp_orgs s) as [|k r] eqn:E; [contradiction|].
  apply D. rewrite E. now left.
Qed.

Lemma set_champ_super_total h s n : sp_orgs s <> [] -> dom_sp h s -> exists h1, set_champ_super h s n = Ok h1.
Proof. intros Ne D. unfold set_champ_super. destruct (first_org_total _ _ Ne D) as [c ->]. cbn. eauto. Qed.

(* ---------- hsets ---------- *)
Lemma hsets_get_out l : forall h k, ~ In k (map o_key l) -> hget (hsets h l) k = hget h k.
Proof.
  unfold hsets. induction l as [|y l IH]; intros h k N; cbn; [reflexivity|].
  rewrite IH; [|intros Hi; apply N; now right]. rewrite hget_hset.
  destruct (Z.eqb_spec k (o_key y)) as [->|]; [|reflexivity]. exfalso. apply N. now left.
Qed.

Lemma hsets_get_in l : forall h x, NoDup (map o_key l) -> In x l -> hget (hsets h l) (o_key x) = Ok x.
Proof.
  induction l as [|y l IH]; intros h x Hn Hi; [contradiction|]. inversion Hn as [|? ? Hy Hl]; subst.
  change (hsets h (y :: l)) with (hsets (hset h y) l). destruct Hi as [->|Hi].
  - rewrite hsets_get_out by assumption. rewrite hget_hset. now rewrite Z.eqb_refl.
  - now apply IH.
Qed.

(* ---------- adjustFitness ---------- *)
Definition num_parents (o : options) (n : Z) : Z :=
  f_trunc_Z (ffloor (PrimFloat.add (PrimFloat.mul (o_survival o) (f_of_Z n)) 1%float)).
(* the survival threshold keeps at least the champion of every species.  Species sizes below 2^31
   only: int(math.Floor(x)) is modelled as on amd64 (F64.f_trunc_Z), where SurvivalThresh * float64(n) + 1
   from 2^63 on converts to math.MinInt64, so no positive threshold works for every n (for
   SurvivalThresh = 1: n = 2^63 - 1).  A negative numParents makes adjustFitness panic (index out of
   range), hence this hypothesis is also what keeps adjustFitness from failing. *)
Definition survivors_ok (o : options) : Prop := forall n, 1 <= n < 2 ^ 31 -> 1 <= num_parents o n.

(* the members of a species of a population with the book-keeping invariant: at least one, no more
   than there are organisms *)
Lemma nodup_members_species l s : NoDup (members l) -> In s l -> NoDup (sp_orgs s).
Proof.
  induction l as [|c l IH]; intros Hn Hs; [contradiction|].
  change (members (c :: l)) with (sp_orgs c ++ members l) in Hn.
  apply nodup_app_inv in Hn. destruct Hn as (N1 & N2 & _). destruct Hs as [<-|Hs]; auto.
Qed.

Lemma part_species_size p s : Part p -> In s (p_species p) -> 1 <= zlen (sp_orgs s) <= zlen (p_orgs p).
Proof.
  intros HP Hs. pose proof (part_nonempty _ HP s Hs) as Ne.
  assert (L : (length (sp_orgs s) <= length (p_orgs p))%nat).
  { apply NoDup_incl_length; [eapply nodup_members_species; [apply HP|exact Hs]|]. intros k Hk. eapply part_incl; eauto. }
  unfold zlen. destruct (sp_orgs s); [congruence|]. cbn [length] in *. lia.
Qed.

Definition kve (x : organism) : Z * Z * bool := (o_key x, o_species x, o_elim x).

Lemma adjust_fitness_total o h s :
  sp_orgs s <> [] -> dom_sp h s -> 0 <= num_parents o (zlen (sp_orgs s)) ->
  exists h1 s1, adjust_fitness o h s = Ok (h1, s1).
Proof.
  intros Ne D Hnp. unfold adjust_fitness. cbv zeta.
  destruct (hgets_total h (sp_orgs s) D) as [orgs G]. rewrite G. cbn [bind].
  assert (El : zlen orgs = zlen (sp_orgs s)).
  { unfold zlen. rewrite <- (hgets_keys _ _ _ G), map_length. reflexivity. }
  destruct (sort_desc org_lt _) as [|top rest] eqn:S.
  2:{ fold (num_parents o (zlen orgs)). rewrite El.
      replace (Z.ltb (num_parents o (zlen (sp_orgs s))) 0) with false by (symmetry; apply Z.ltb_ge; exact Hnp). eauto. }
  exfalso. pose proof (sort_desc_perm org_lt (map (adjust_one o (sp_age s)
     (if Z.eqb (sp_age s - sp_lastimp s + 1 - o_dropoff o) 0 then 1 else sp_age s - sp_lastimp s + 1 - o_dropoff o)
     (zlen orgs)) orgs)) as Pm.
  rewrite S in Pm. apply Permutation_nil in Pm. apply map_eq_nil in Pm. subst orgs.
  apply hgets_keys in G. cbn in G. congruence.
Qed.

Lemma adjust_fitness_alive o h s h1 s1 :
  adjust_fitness o h s = Ok (h1, s1) -> survivors_ok o -> zlen (sp_orgs s) < 2 ^ 31 ->
  NoDup (sp_orgs s) -> fresh_keys h (sp_orgs s) ->
  (forall k, ~ In k (sp_orgs s) -> hget h1 k = hget h k) /\ alive h1 s1.
Proof.
  unfold adjust_fitness. intros H Sv Hsz Hn Fr. cbv zeta in H. rbind H as orgs G.
  destruct (sort_desc org_lt _) as [|top rest] eqn:S; [discriminate|].
  fold (num_parents o (zlen orgs)) in H.
  destruct (Z.ltb (num_parents o (zlen orgs)) 0); [discriminate|].
  cbn [mark_elim] in H.
  match type of H with context [hsets h ?m] => set (M := m) in H end.
  assert (Pm : Permutation (map kve (top :: rest)) (map kve orgs)).
  { rewrite <- S. etransitivity; [apply Permutation_map, sort_desc_perm|].
    rewrite map_map. apply Permutation_refl'. apply map_ext. intros x. reflexivity. }
  assert (Ek : map o_key M = map o_key (top :: rest)).
  { unfold M. cbn [map]. f_equal; [now destruct (Z.geb 0 _)|].
    generalize 1 at 1. generalize (num_parents o (zlen orgs)). clear. induction rest as [|y r IH]; intros n i; cbn; [reflexivity|].
    f_equal; [now destruct (Z.geb i n)|apply IH]. }
  assert (Pk : Permutation (map o_key M) (sp_orgs s)).
  { rewrite Ek, <- (hgets_keys _ _ _ G).
    replace (map o_key (top :: rest)) with (map (fun v : Z * Z * bool => fst (fst v)) (map kve (top :: rest)))
      by (rewrite map_map; reflexivity).
    replace (map o_key orgs) with (map (fun v : Z * Z * bool => fst (fst v)) (map kve orgs))
      by (rewrite map_map; reflexivity).
    now apply Permutation_map. }
  assert (HnM : NoDup (map o_key M)) by (eapply Permutation_NoDup; [symmetry; exact Pk|exact Hn]).
  assert (Hlen : 1 <= zlen orgs).
  { apply Permutation_length in Pm. rewrite !map_length in Pm. unfold zlen. cbn in Pm. lia. }
  assert (El : zlen orgs = zlen (sp_orgs s)).
  { unfold zlen. rewrite <- (hgets_keys _ _ _ G), map_length. reflexivity. }
  assert (Hlt : zlen orgs < 2 ^ 31) by (rewrite El; exact Hsz).
  specialize (Sv _ (conj Hlen Hlt)).
  assert (Etop : o_elim top = false).
  { assert (Hi : In (kve top) (map kve orgs)) by (eapply Permutation_in; [exact Pm|now left]).
    apply in_map_iff in Hi. destruct Hi as (x & E & Hx). destruct (hgets_in _ _ _ _ G Hx) as [Hg Hk].
    unfold kve in E. injection E as _ _ E. rewrite <- E. eapply Fr; eauto. }
  assert (Hhead : exists m0 M', M = m0 :: M' /\ o_elim m0 = false).
  { unfold M. eexists _, _. split; [reflexivity|]. cbn.
    destruct (Z.geb_spec 0 (num_parents o (zlen orgs))); [lia|exact Etop]. }
  clearbody M. injection H as <- <-. split.
  - intros k N. apply hsets_get_out. intros Hi. apply N. eapply Permutation_in; eauto.
  - destruct Hhead as (m0 & M' & -> & Em). exists (o_key m0), m0. splits.
    + cbn. now left.
    + apply hsets_get_in; [exact HnM|now left].
    + exact Em.
Qed.

Lemma adjust_all_total o l : forall h,
  (forall s, In s l -> sp_orgs s <> [] /\ dom_sp h s /\ 0 <= num_parents o (zlen (sp_orgs s))) ->
  exists h2 l2, adjust_all o h l = Ok (h2, l2).
Proof.
  induction l as [|s l IH]; intros h H; cbn [adjust_all]; [eauto|].
  destruct (H s (or_introl eq_refl)) as (Ne & D & Hnp).
  destruct (adjust_fitness_total o h s Ne D Hnp) as (h1 & s1 & E). rewrite E. cbn [bind].
  apply adjust_fitness_ok in E. destruct E as [F _].
  destruct (IH h1) as (h2 & l2 & E2).
  { intros s' Hs'. destruct (H s' (or_intror Hs')) as (Ne' & D' & Hnp'). split; [assumption|]. split; [|exact Hnp'].
    intros k Hk. eapply hdom_frame; eauto. }
  rewrite E2. cbn [bind]. eauto.
Qed.

Lemma adjust_all_alive o l : forall h h2 l2,
  adjust_all o h l = Ok (h2, l2) -> survivors_ok o -> (forall s, In s l -> zlen (sp_orgs s) < 2 ^ 31) ->
  NoDup (members l) -> fresh_keys h (members l) ->
  (forall k, ~ In k (members l) -> hget h2 k = hget h k) /\ (forall s2, In s2 l2 -> alive h2 s2).
Proof.
  induction l as [|s l IH]; intros h h2 l2 H Sv Hsz Hn Fr; cbn [adjust_all] in H.
  - injection H as <- <-. split; [auto|intros s2 []].
  - rbind H as r Hr. destruct r as [h1 s1]. rbind H as r2 Hr2. destruct r2 as [h2' l2']. injection H as <- <-.
    change (members (s :: l)) with (sp_orgs s ++ members l) in *.
    apply nodup_app_inv in Hn. destruct Hn as (N1 & N2 & N3).
    pose proof (adjust_fitness_ok _ _ _ _ _ Hr) as [_ (_ & _ & _ & Pm)].
    apply (fun H => adjust_fitness_alive _ _ _ _ _ H Sv (Hsz s (or_introl eq_refl)) N1) in Hr.
    2:{ intros k x Hk Hx. eapply Fr; eauto. apply in_or_app. now left. }
    destruct Hr as [O1 A1].
    apply (fun H => IH _ _ _ H Sv (fun y Hy => Hsz y (or_intror Hy)) N2) in Hr2.
    2:{ intros k x Hk Hx. rewrite O1 in Hx; [|intros Hi; eapply N3; eauto]. eapply Fr; eauto. apply in_or_app. now right. }
    destruct Hr2 as [O2 A2]. split.
    + intros k N. rewrite O2, O1; auto; intros Hi; apply N; apply in_or_app; auto.
    + intros s2 [<-|Hs2]; [|auto]. destruct A1 as (k & x & Hk & Hx & Ex). exists k, x. splits; auto.
      rewrite O2; [assumption|]. intros Hi. apply (N3 k); [|assumption]. eapply Permutation_in; [symmetry|]; eauto.
Qed.

Lemma alive_sim h h' s s' : alive h s -> sp_sim s s' -> hframe pe h h' -> alive h' s'.
Proof.
  intros (k & x & Hk & Hx & Ex) (_ & _ & _ & Pm) F. apply hframe_pe_elim in F.
  pose proof (hview_get o_elim _ _ _ Hx) as V. rewrite <- F, Ex in V. apply hview_some in V.
  destruct V as (x' & Hx' & Ex'). exists k, x'. splits; auto. eapply Permutation_in; eauto.
Qed.

(* ---------- purgeZeroOffspringSpecies ---------- *)
Lemma count_all_total h l : forall skim tot,
  (forall s, In s l -> dom_sp h s) -> exists l2 t, count_all h l skim tot = Ok (l2, t).
Proof.
  induction l as [|s l IH]; intros skim tot H; cbn [count_all]; [eauto|].
  destruct (hgets_total h (sp_orgs s)) as [orgs G]; [apply H; now left|]. rewrite G. cbn [bind].
  destruct (count_offspring orgs 0 skim) as [e skim'].
  destruct (IH skim' (tot + e)) as (l2 & t & E); [intros; apply H; now right|]. rewrite E. cbn [bind]. eauto.
Qed.

Lemma purge_zero_total p :
  (forall k, In k (p_orgs p) -> hdom (p_heap p) k) -> (forall s, In s (p_species p) -> dom_sp (p_heap p) s) ->
  exists p2, purge_zero_offspring p = Ok p2.
Proof.
  intros Ho Hs. unfold purge_zero_offspring. destruct (hgets_total _ _ Ho) as [orgs G]. rewrite G. cbn [bind]. cbv zeta.
  match goal with |- context [count_all ?hh _ _ _] => set (h1 := hh) end.
  assert (F : hframe pe (p_heap p) h1).
  { subst h1. destruct (PrimFloat.eqb _ _); [apply hframe_refl|]. apply hframe_hsets.
    intros y Hy. apply in_map_iff in Hy. destruct Hy as (x & <- & Hx).
    destruct (hgets_in _ _ _ _ G Hx) as [Hg _]. cbn. now rewrite (hview_get pe _ _ _ Hg). }
  destruct (count_all_total h1 (p_species p) 0%float 0) as (l2 & t & E).
  { intros s Hi k Hk. eapply hdom_frame; [exact F|]. exact (Hs s Hi k Hk). }
  rewrite E. cbn [bind]. eexists. reflexivity.
Qed.

(* ---------- deltaCoding / giveBabiesToTheBest ---------- *)
(* what the two redistribution routines need from the species list *)
Definition gl_inv (sorted : list Z) (sps : list species) (h : list organism) : Prop :=
  (forall id, In id sorted -> exists sp, In sp sps /\ sp_id sp = id) /\
  (forall sp, In sp sps -> sp_orgs sp <> [] /\ dom_sp h sp).

Lemma gl_inv_sim sorted sps h sps' h' :
  gl_inv sorted sps h -> Forall2 sp_sim sps sps' -> hframe pe h h' -> gl_inv sorted sps' h'.
Proof.
  intros [I1 I2] S F. pose proof (sp_rel_forall2 _ _ S) as (_ & R2 & R3). split.
  - intros id Hid. destruct (I1 _ Hid) as (sp & Hsp & E). destruct (R3 _ Hsp) as (sp' & Hsp' & (E' & _)).
    exists sp'. split; [assumption|congruence].
  - intros sp' Hsp'. destruct (R2 _ Hsp') as (sp & Hsp & (_ & _ & _ & Pm)). destruct (I2 _ Hsp) as [Ne D]. split.
    + intros E. rewrite E in Pm. apply Permutation_sym, Permutation_nil in Pm. contradiction.
    + intros k Hk. eapply hdom_frame; [exact F|]. apply D. eapply Permutation_in; [symmetry|]; eauto.
Qed.

Lemma gl_inv_tail id sorted sps h : gl_inv (id :: sorted) sps h -> gl_inv sorted sps h.
Proof. intros [I1 I2]. split; [|assumption]. intros id' Hi. apply I1. now right. Qed.

Lemma gl_inv_find sorted sps h id : gl_inv sorted sps h -> In id sorted ->
  exists sp, sp_find sps id = Some sp /\ sp_orgs sp <> [] /\ dom_sp h sp.
Proof.
  intros [I1 I2] Hi. destruct (sp_find_ex sps id (I1 _ Hi)) as [sp F]. exists sp. split; [assumption|].
  apply I2. eapply sp_find_some; eauto.
Qed.

Lemma delta_coding_total o p sorted :
  sorted <> [] -> gl_inv sorted (p_species p) (p_heap p) -> exists p5, delta_coding o p sorted = Ok p5.
Proof.
  intros Ne I. unfold delta_coding. cbv zeta. destruct sorted as [|a [|b rest]]; [contradiction| |].
  - destruct (gl_inv_find _ _ _ a I) as (sa & Ea & Na & Da); [now left|]. rewrite Ea. cbn [bind].
    destruct (set_champ_super_total (p_heap p) sa (o_pop_size o) Na Da) as [h1 E1]. rewrite E1. cbn [bind]. eauto.
  - destruct (gl_inv_find _ _ _ a I) as (sa & Ea & Na & Da); [now left|]. rewrite Ea. cbn [bind].
    destruct (gl_inv_find _ _ _ b I) as (sb & Eb & Nb & Db); [right; now left|]. rewrite Eb. cbn [bind].
    destruct (set_champ_super_total (p_heap p) sa (Z.quot (o_pop_size o) 2) Na Da) as [h1 E1]. rewrite E1. cbn [bind].
    destruct (set_champ_super_total h1 sb (o_pop_size o - Z.quot (o_pop_size o) 2) Nb) as [h2 E2].
    { intros k Hk. eapply hdom_frame; [eapply set_champ_super_ok; exact E1|]. now apply Db. }
    rewrite E2. cbn [bind]. eauto.
Qed.

Definition safe {A} (r : res A) : Prop := (exists a, r = Ok a) \/ r = OutOfTape.

Lemma safe_bindM {A B} (m : @M st A) (f : A -> @M st B) s :
  safe (m s) -> (forall a s1, m s = Ok (a, s1) -> safe (f a s1)) -> safe (bindM m f s).
Proof. unfold bindM. intros [[[a s1] E]|E] H; rewrite E; [eauto|now right]. Qed.

Lemma bindM_assoc {A B C} (m : @M st A) (g : A -> @M st B) (f : B -> @M st C) s :
  bindM (bindM m g) f s = bindM m (fun a => bindM (g a) f) s.
Proof. unfold bindM. destruct (m s) as [[a s1]| | | | |]; reflexivity. Qed.

Lemma tape_float64_safe t : safe (tape_float64 t).
Proof.
  induction t as [|x t IH]; cbn [tape_float64]; [now right|]. destruct (PrimFloat.eqb _ _); [exact IH|left; eauto].
Qed.

Lemma safe_float64 s : safe (r_float64 s).
Proof.
  unfold r_float64, on_tape. destruct (tape_float64_safe (s_tape s)) as [[[f t'] E]|E]; rewrite E; [left; eauto|now right].
Qed.

Lemma give_loop_safe o sorted : forall bi blocks sps h stolen s,
  gl_inv sorted sps h -> safe (give_loop o sorted bi blocks (sps, h, stolen) s).
Proof.
  induction sorted as [|id r IH]; intros bi blocks sps h stolen s I; cbn [give_loop].
  - left. eexists. reflexivity.
  - destruct (gl_inv_find _ _ _ id I) as (sp & E & Ne & D); [now left|]. rewrite E.
    pose proof (gl_inv_tail _ _ _ _ I) as It.
    destruct (Z.gtb _ _); [now apply IH|].
    set (cont := fun acc' : list species * list organism * Z =>
                   let '(_, _, stolen') := acc' in
                   if Z.leb stolen' 0 then ret acc' else give_loop o r (bi + 1) blocks acc').
    assert (Fin : forall n f x s0, (forall y, sp_sim y (f y)) ->
               safe (bindM (let! h1 := lift (set_champ_super h sp n) in ret (sp_set sps id f, h1, x)) cont s0)).
    { intros n f x s0 Hf. destruct (set_champ_super_total h sp n Ne D) as [h1 E1].
      unfold bindM at 1 2. unfold lift, ret. rewrite E1. cbn [bind]. unfold cont.
      destruct (Z.leb x 0); [left; eexists; reflexivity|]. apply IH.
      eapply gl_inv_sim; [exact It|now apply forall2_sim_set|eapply set_champ_super_ok; exact E1]. }
    assert (Id : forall s0, safe (bindM (ret (sps, h, stolen)) cont s0)).
    { intros s0. unfold bindM, ret, cont. destruct (Z.leb stolen 0); [left; eexists; reflexivity|]. now apply IH. }
    fold cont.
    destruct (_ && _).
    + apply Fin. intros; apply sp_sim_exp.
    + destruct (Z.geb bi 3); [|apply Id].
      rewrite bindM_assoc. apply safe_bindM; [apply safe_float64|]. intros rr s1 _.
      destruct (PrimFloat.ltb _ rr); [|apply Id].
      destruct (Z.gtb stolen 3); apply Fin; intros; apply sp_sim_exp.
Qed.

Lemma give_babies_safe o p sorted s :
  sorted <> [] -> gl_inv sorted (p_species p) (p_heap p) -> safe (give_babies o p sorted s).
Proof.
  intros Ne I. unfold give_babies. pose proof (steal_loop_ok o (rev sorted) (p_species p) 0) as St.
  destruct (steal_loop o (p_species p) (rev sorted) 0) as [sps1 stolen]. cbn [fst] in St. cbv zeta.
  assert (I1 : gl_inv sorted sps1 (p_heap p)) by (eapply gl_inv_sim; [exact I|exact St|apply hframe_refl]).
  apply safe_bindM; [now apply give_loop_safe|]. intros [[sps2 h2] leftover] s1 Hg.
  apply give_loop_ok in Hg. destruct Hg as [G1 G2].
  assert (I2 : gl_inv sorted sps2 h2) by (eapply gl_inv_sim; eauto).
  destruct (Z.gtb leftover 0); [|left; eexists; reflexivity].
  destruct sorted as [|id rest]; [contradiction|].
  destruct (gl_inv_find _ _ _ id I2) as (sp & E & Nsp & D); [now left|]. rewrite E.
  destruct (first_org_total h2 sp Nsp D) as [c Ec].
  unfold bindM, lift, ret. rewrite Ec. cbn [bind]. left. eexists. reflexivity.
Qed.

(* ---------- purgeOrganisms ---------- *)
Lemma purge_step_wf p x keep ks p1 :
  hget (p_heap p) (o_key x) = Ok x ->
  Wf (all_sp p) (p_heap p) (fun y => In y (rev keep) \/ In y (o_key x :: ks)) ->
  NoDup (rev keep ++ o_key x :: ks) -> remove_from_species p x = Ok p1 ->
  Wf (all_sp p1) (p_heap p1) (fun y => In y (rev keep) \/ In y ks).
Proof.
  intros Hx W Hn H1. apply nodup_app_inv in Hn. destruct Hn as (N1 & N2 & N3).
  inversion N2 as [|? ? Nk N4]; subst.
  apply remove_from_species_ok in H1. destruct H1 as (R & Em & _ & Eh & Eo & El & En).
  rewrite Eh. eapply Wf_iff.
  - eapply Wf_remove; [exact W| |right; now left|exact R]. now apply hview_get.
  - intros y. cbn. split.
    + intros [[Hy|[Hy|Hy]] Ny]; auto. congruence.
    + intros [Hy|Hy]; (split; [auto|]); intros ->.
      * apply (N3 (o_key x)); [assumption|now left].
      * contradiction.
Qed.

Lemma purge_loop_total : forall ks p keep,
  Wf (all_sp p) (p_heap p) (fun x => In x (rev keep) \/ In x ks) -> NoDup (rev keep ++ ks) ->
  exists p6, purge_organisms_loop p ks keep = Ok p6.
Proof.
  induction ks as [|k ks IH]; intros p keep W Hn; cbn [purge_organisms_loop]; [eauto|].
  destruct (wf_cover _ _ _ W k) as (s & Hs & Hk); [right; now left|].
  destruct (Wf_dom _ _ _ _ W Hs k Hk) as [x Hx]. rewrite Hx. cbn [bind].
  pose proof (hget_key _ _ _ Hx) as Ek. subst k.
  destruct (o_elim x).
  - destruct (Wf_remove_total _ _ _ (o_key x) (o_species x) W) as [l' R];
      [now apply hview_get|right; now left|].
    destruct (remove_from_species_total _ _ _ R) as [p1 E1]. rewrite E1. cbn [bind].
    apply IH.
    + eapply purge_step_wf; eauto.
    + apply nodup_app_inv in Hn. destruct Hn as (N1 & N2 & N3). inversion N2; subst.
      apply nodup_app; auto. intros y Hy1 Hy2. apply (N3 y); [assumption|now right].
  - apply IH.
    + eapply Wf_iff; [exact W|]. intros y. cbn. rewrite in_app_iff. cbn. tauto.
    + cbn. rewrite <- app_assoc. exact Hn.
Qed.

Lemma purge_loop_alive : forall ks p keep p6,
  purge_organisms_loop p ks keep = Ok p6 ->
  Wf (all_sp p) (p_heap p) (fun x => In x (rev keep) \/ In x ks) -> NoDup (rev keep ++ ks) ->
  (forall s, In s (p_species p) -> alive (p_heap p) s) ->
  forall s, In s (p_species p6) -> sp_orgs s <> [].
Proof.
  induction ks as [|k ks IH]; intros p keep p6 H W Hn Al; cbn [purge_organisms_loop] in H.
  - injection H as <-. cbn. intros s Hs E. destruct (Al s Hs) as (k & _ & Hk & _). rewrite E in Hk. contradiction.
  - rbind H as x Hx. pose proof (hget_key _ _ _ Hx) as Ek. subst k.
    destruct (o_elim x) eqn:Ex.
    + rbind H as p1 H1. pose proof (purge_step_wf _ _ _ _ _ Hx W Hn H1) as W1.
      apply (IH _ _ _ H W1).
      * apply nodup_app_inv in Hn. destruct Hn as (N1 & N2 & N3). inversion N2; subst.
        apply nodup_app; auto. intros y Hy1 Hy2. apply (N3 y); [assumption|now right].
      * apply remove_from_species_ok in H1. destruct H1 as (_ & Em & Keep & Eh & _).
        intros s1 Hs1. assert (Hi : In (sp_id s1) (map sp_id (p_species p))).
        { rewrite <- (meta_ids _ _ Em). now apply in_map. }
        apply in_map_iff in Hi. destruct Hi as (s & Eid & Hs). destruct (Al s Hs) as (k0 & x0 & Hk0 & Hx0 & E0).
        assert (Nk : k0 <> o_key x) by (intros ->; congruence).
        destruct (Keep k0 Nk) as (y & Hy & Hky); [eauto|].
        assert (y = s1).
        { apply (nodup_ids_eq (all_sp p1)); [eapply wf_ids; eauto| | |].
          - unfold all_sp. apply in_or_app. now left.
          - unfold all_sp. apply in_or_app. now left.
          - assert (E1 : sp_of (p_heap p1) k0 = Some (sp_id y)).
            { apply (wf_link _ _ _ W1 y k0); [unfold all_sp; apply in_or_app; now left|assumption]. }
            assert (E2 : sp_of (p_heap p) k0 = Some (sp_id s)).
            { apply (wf_link _ _ _ W s k0); [unfold all_sp; apply in_or_app; now left|assumption]. }
            rewrite Eh in E1. congruence. }
        subst y. exists k0, x0. rewrite Eh. auto.
    + apply (IH _ _ _ H); auto.
      * eapply Wf_iff; [exact W|]. intros y. cbn. rewrite in_app_iff. cbn. tauto.
      * cbn. rewrite <- app_assoc. exact Hn.
Qed.

(* ---------- prepareForReproduction ---------- *)
(* the population does not die out: purgeZeroOffspringSpecies keeps at least one species *)
Definition survives (o : options) (p : population) : Prop :=
  forall h1 sps1 p2, adjust_all o (p_heap p) (p_species p) = Ok (h1, sps1) ->
    purge_zero_offspring (p_with p sps1 (p_detached p) (p_orgs p) h1) = Ok p2 -> p_species p2 <> [].

Lemma bindM_lift_eq {A B} (r : res A) (f : A -> @M st B) a s : r = Ok a -> bindM (lift r) f s = f a s.
Proof. intros ->. reflexivity. Qed.
Lemma bindM_ok_eq {A B} (m : @M st A) (f : A -> @M st B) s a s1 : m s = Ok (a, s1) -> bindM m f s = f a s1.
Proof. unfold bindM. now intros ->. Qed.
Lemma bindM_tape_eq {A B} (m : @M st A) (f : A -> @M st B) s : m s = OutOfTape -> bindM m f s = OutOfTape.
Proof. unfold bindM. now intros ->. Qed.

Lemma alive_nonempty h s : alive h s -> sp_orgs s <> [].
Proof. intros (k & _ & Hk & _) E. rewrite E in Hk. contradiction. Qed.

Lemma forall2_in_r {A B} (R : A -> B -> Prop) l l' y : Forall2 R l l' -> In y l' -> exists x, In x l /\ R x y.
Proof.
  induction 1 as [|a b l l' Hab _ IH]; intros Hi; [contradiction|]. destruct Hi as [<-|Hi].
  - exists a. split; [now left|assumption].
  - destruct (IH Hi) as (x & Hx & Rx). exists x. split; [now right|assumption].
Qed.

Lemma prepare_forward o p s :
  Part p -> Fresh p -> zlen (p_orgs p) < 2 ^ 31 -> survivors_ok o -> survives o p ->
  prepare o p s = OutOfTape \/
  exists p1 sorted best s1, prepare o p s = Ok ((p1, sorted, best), s1) /\
                            forall y, In y (p_species p1) -> sp_orgs y <> [].
Proof.
  intros HP Fr Hsz Sv Hal. pose proof (Part_Wf _ HP) as W. pose proof (part_detached _ HP) as Hd.
  assert (Hss : forall y, In y (p_species p) -> 1 <= zlen (sp_orgs y) < 2 ^ 31).
  { intros y Hy. pose proof (part_species_size p y HP Hy). lia. }
  (* adjustFitness on every species *)
  destruct (adjust_all_total o (p_species p) (p_heap p)) as (h1 & sps1 & Ea).
  { intros y Hy. split; [now apply HP|]. split; [eapply Wf_dom; eauto|]. pose proof (Sv _ (Hss y Hy)). lia. }
  pose proof (adjust_all_ok _ _ _ _ _ Ea) as [F1 S1].
  destruct (adjust_all_alive _ _ _ _ _ Ea Sv (fun y Hy => proj2 (Hss y Hy)) (part_once _ HP)) as [_ Al1].
  { intros k x Hk Hx. apply members_in in Hk. destruct Hk as (y & Hy & Hk). eapply Fr; eauto. eapply part_incl; eauto. }
  assert (W1 : Wf sps1 h1 (fun k => In k (p_orgs p))).
  { eapply Wf_ext; [eapply Wf_rel; [exact W|now apply sp_rel_forall2]|now apply hframe_ext]. }
  (* purgeZeroOffspringSpecies *)
  destruct (purge_zero_total (p_with p sps1 (p_detached p) (p_orgs p) h1)) as [p2 Ez]; cbn.
  { intros k Hk. destruct (wf_cover _ _ _ W1 k Hk) as (y & Hy & Hi). eapply Wf_dom; eauto. }
  { intros y Hy. eapply Wf_dom; eauto. }
  pose proof (Hal _ _ _ Ea Ez) as Ne2.
  destruct (purge_zero_ok _ _ Ez) as (sps & S2 & Es & Ed & F2 & Eo & El & Ek);
    [cbn; eapply wf_ids; eauto|]. cbn in S2, Ed, F2, Eo, El, Ek. rewrite Hd in Ed. cbn in Ed.
  assert (W2 : Wf (all_sp p2) (p_heap p2) (fun k => In k (p_orgs p))).
  { eapply Wf_ext; [eapply Wf_rel; [exact W1|]|apply hframe_ext, hframe_pe_species, F2].
    eapply sp_rel_trans; [apply sp_rel_forall2; exact S2|].
    unfold all_sp. rewrite Es, Ed. apply sp_rel_perm, filter_partition_perm. }
  assert (Al2 : forall y, In y (all_sp p2) -> alive (p_heap p2) y).
  { intros y Hy. assert (Hs : In y sps).
    { unfold all_sp in Hy. rewrite Es, Ed in Hy. apply in_app_or in Hy. destruct Hy as [Hy|Hy]; apply filter_In in Hy; tauto. }
    destruct (forall2_in_r _ _ _ _ S2 Hs) as (y1 & Hy1 & Sy). eapply alive_sim; [apply Al1; exact Hy1|exact Sy|exact F2]. }
  (* the best species *)
  destruct (sort_desc (species_lt (p_heap p2)) (p_species p2)) as [|b rest] eqn:Sd.
  { exfalso. pose proof (sort_desc_perm (species_lt (p_heap p2)) (p_species p2)) as Pm. rewrite Sd in Pm.
    apply Permutation_nil in Pm. contradiction. }
  assert (Psort : Permutation (b :: rest) (p_species p2)) by (rewrite <- Sd; apply sort_desc_perm).
  assert (Hb : In b (all_sp p2)).
  { unfold all_sp. apply in_or_app. left. eapply Permutation_in; [exact Psort|now left]. }
  destruct (first_org_total (p_heap p2) b) as [c Ec];
    [apply alive_nonempty with (h := p_heap p2); now apply Al2|eapply Wf_dom; eauto|].
  pose proof Ec as Ec'. apply first_org_ok in Ec'. destruct Ec' as (kc & rc & _ & Hkc).
  unfold prepare.
  rewrite (bindM_lift_eq _ _ (h1, sps1) s Ea). cbv beta iota zeta.
  rewrite (bindM_lift_eq _ _ p2 s Ez). rewrite Sd.
  rewrite (bindM_lift_eq _ _ c s Ec). cbv beta iota zeta.
  match goal with |- context [give_babies o ?q _] => set (p4 := q) end.
  set (h3 := hset (p_heap p2) (o_with_popchamp c true)) in *.
  set (ids := map sp_id (b :: rest)) in *.
  assert (F3 : hframe pe (p_heap p2) h3).
  { subst h3. apply (hframe_hset_get pe _ c); [|reflexivity]. cbn. now rewrite (hget_key _ _ _ Hkc). }
  assert (E4 : p_species p4 = p_species p2 /\ p_detached p4 = p_detached p2 /\ p_orgs p4 = p_orgs p /\ p_heap p4 = h3).
  { unfold p4. destruct (PrimFloat.ltb _ _); cbn; auto. }
  destruct E4 as (E41 & E42 & E43 & E44). clearbody p4.
  assert (W4 : Wf (all_sp p4) (p_heap p4) (fun k => In k (p_orgs p))).
  { unfold all_sp. rewrite E41, E42, E44. eapply Wf_ext; [exact W2|apply hframe_ext, hframe_pe_species, F3]. }
  assert (Al4 : forall y, In y (all_sp p4) -> alive (p_heap p4) y).
  { unfold all_sp. rewrite E41, E42, E44. intros y Hy. eapply alive_sim; [exact (Al2 y Hy)|apply sp_sim_refl|exact F3]. }
  assert (I4 : gl_inv ids (p_species p4) (p_heap p4)).
  { split.
    - intros id Hid. unfold ids in Hid. apply in_map_iff in Hid. destruct Hid as (y & <- & Hy).
      exists y. split; [|reflexivity]. rewrite E41. eapply Permutation_in; eauto.
    - intros y Hy. assert (Hy' : In y (all_sp p4)) by (unfold all_sp; apply in_or_app; now left).
      split; [eapply alive_nonempty; eauto|eapply Wf_dom; eauto]. }
  assert (Fin : forall p5, same_frame p4 p5 ->
            exists p6, purge_organisms p5 = Ok p6 /\ forall y, In y (p_species p6) -> sp_orgs y <> []).
  { intros p5 [G1 G2 G3 G4 G5 G6].
    assert (S45 : Forall2 sp_sim (all_sp p4) (all_sp p5)).
    { unfold all_sp. rewrite G2. apply Forall2_app; [exact G1|apply forall2_sim_refl]. }
    assert (W5 : Wf (all_sp p5) (p_heap p5) (fun k => In k (rev []) \/ In k (p_orgs p5))).
    { eapply Wf_iff; [eapply Wf_ext; [eapply Wf_rel; [exact W4|now apply sp_rel_forall2]|apply hframe_ext, hframe_pe_species, G4]|].
      intros k. cbn. rewrite G3, E43. tauto. }
    assert (N5 : NoDup (rev [] ++ p_orgs p5)) by (cbn; rewrite G3, E43; apply HP).
    destruct (purge_loop_total _ _ _ W5 N5) as [p6 E6]. exists p6. split; [exact E6|].
    apply (purge_loop_alive _ _ _ _ E6 W5 N5). intros y Hy.
    destruct (forall2_in_r _ _ _ _ G1 Hy) as (y4 & Hy4 & Sy).
    eapply alive_sim; [apply Al4; unfold all_sp; apply in_or_app; left; exact Hy4|exact Sy|exact G4]. }
  assert (Nids : ids <> []) by discriminate.
  destruct (Z.geb (p_epochs_highest p4) (o_dropoff o + 5)).
  - destruct (delta_coding_total o p4 ids Nids I4) as [p5 E5].
    rewrite (bindM_lift_eq _ _ p5 s E5). destruct (Fin p5 (delta_coding_ok _ _ _ _ E5)) as (p6 & E6 & Ne6).
    rewrite (bindM_lift_eq _ _ p6 s E6). right. eexists _, _, _, _. split; [reflexivity|exact Ne6].
  - destruct (Z.gtb (o_babies_stolen o) 0).
    + destruct (give_babies_safe o p4 ids s Nids I4) as [[[p5 s5] E5]|E5].
      * rewrite (bindM_ok_eq _ _ _ _ _ E5). destruct (Fin p5 (give_babies_ok _ _ _ _ _ _ E5)) as (p6 & E6 & Ne6).
        rewrite (bindM_lift_eq _ _ p6 s5 E6). right. eexists _, _, _, _. split; [reflexivity|exact Ne6].
      * left. now apply bindM_tape_eq.
    + destruct (Fin p4 (same_frame_refl p4)) as (p6 & E6 & Ne6).
      change (bindM (ret p4) ?f s) with (f p4 s). cbv beta.
      rewrite (bindM_lift_eq _ _ p6 s E6). right. eexists _, _, _, _. split; [reflexivity|exact Ne6].
Qed.

(* ---------- reproduce: failures of the breeding loop are failures of one_baby ---------- *)
Lemma bindM_fail_eq {A B} (m : @M st A) (g : A -> @M st B) s f :
  failure (m s) = Some f -> failure (bindM m g s) = Some f.
Proof. rewrite failure_bindM. destruct (m s) as [[a s1]| | | | |]; auto. discriminate. Qed.

Lemma reproduce_loop_fail o gen all sorted sp h0 key0 n : forall count rs st0 f,
  rs_ok h0 key0 rs ->
  failure (reproduce_loop n o gen all sorted sp count rs st0) = Some f ->
  exists count' rs' st', rs_ok h0 key0 rs' /\ failure (one_baby o gen all sorted sp count' rs' st') = Some f.
Proof.
  induction n as [|n IH]; intros count rs st0 f R H; cbn [reproduce_loop] in H; [discriminate|].
  rewrite failure_bindM in H.
  destruct (one_baby o gen all sorted sp count rs st0) as [[rs1 st1]| | | | |] eqn:E;
    [eapply IH; [|exact H]; eapply one_baby_ok; eauto|..]; exists count, rs, st0; now rewrite E.
Qed.

Lemma reproduce_species_fail o gen all sorted sp h key st0 f :
  hbound h key -> sp_orgs sp <> [] -> failure (reproduce_species o gen all sorted sp h key st0) = Some f ->
  exists count rs st', rs_ok h key rs /\ failure (one_baby o gen all sorted sp count rs st') = Some f.
Proof.
  intros B Ne H. unfold reproduce_species in H. destruct (sp_orgs sp) as [|k0 r0] eqn:E; [contradiction|].
  cbn [length Nat.eqb] in H. rewrite andb_false_r in H. rewrite failure_bindM in H.
  assert (R0 : rs_ok h key {| r_heap := h; r_key := key; r_babies := []; r_clone_done := false |}).
  { constructor; cbn; auto using hext_refl; [lia|now rewrite zrange_nil|intros; lia|intros; lia]. }
  destruct (reproduce_loop _ _ _ _ _ _ _ _ st0) as [[rs1 st1]| | | | |] eqn:El; [discriminate|..];
    eapply reproduce_loop_fail; [exact R0|rewrite El; exact H|exact R0|rewrite El; exact H|exact R0|rewrite El; exact H
                                |exact R0|rewrite El; exact H|exact R0|rewrite El; exact H].
Qed.

Lemma reproduce_all_fail o gen all sorted best l : forall h key babies br st0 f,
  hbound h key -> (forall sp, In sp l -> sp_orgs sp <> []) ->
  failure (reproduce_all o gen all sorted best l h key babies br st0) = Some f ->
  exists sp count rs st' hi keyi,
    In sp l /\ bred h key hi keyi /\ rs_ok hi keyi rs /\
    failure (one_baby o gen all sorted sp count rs st') = Some f.
Proof.
  induction l as [|sp l IH]; intros h key babies br st0 f B Ne H; cbn [reproduce_all] in H; [discriminate|].
  rewrite failure_bindM in H.
  assert (Here : failure (reproduce_species o gen all sorted sp h key st0) = Some f ->
                 exists sp0 count rs st' hi keyi,
                   In sp0 (sp :: l) /\ bred h key hi keyi /\ rs_ok hi keyi rs /\
                   failure (one_baby o gen all sorted sp0 count rs st') = Some f).
  { intros Hf. destruct (reproduce_species_fail o gen all sorted sp h key st0 f B) as (c & rs & st' & R & Hf');
      [apply Ne; now left|exact Hf|]. exists sp, c, rs, st', h, key. splits; auto; [now left|now apply bred_refl]. }
  destruct (reproduce_species o gen all sorted sp h key st0) as [[[[h1 key1] bs] st1]| | | | |] eqn:E;
    try (apply Here; exact H).
  pose proof (reproduce_species_ok o gen all sorted sp h key B _ _ _ E) as (B1 & _ & _).
  destruct (IH _ _ _ _ _ _ (br_bound _ _ _ _ B1) (fun y Hy => Ne y (or_intror Hy)) H)
    as (sp' & c & rs & st' & hi & keyi & Hi & Bi & Ri & Hf).
  exists sp', c, rs, st', hi, keyi. splits; auto; [now right|eapply bred_trans; eauto].
Qed.

(* ---------- speciate ---------- *)
Lemma best_species_total o h baby l : forall best bv,
  (forall sp, In sp l -> dom_sp h sp) -> exists b, best_species o h baby l best bv = Ok b.
Proof.
  induction l as [|sp l IH]; intros best bv D; cbn [best_species]; [eauto|].
  assert (D' : forall y, In y l -> dom_sp h y) by (intros; apply D; now right).
  destruct (sp_orgs sp) as [|k r] eqn:E; [now apply IH|].
  destruct (D sp (or_introl eq_refl) k) as [rep Hr]; [rewrite E; now left|]. rewrite Hr. cbn [bind].
  destruct (_ && _); now apply IH.
Qed.

Lemma speciate_one_total o p k :
  hdom (p_heap p) k -> PrimFloat.eqb (o_compat_thresh o) 0 = false ->
  (forall sp, In sp (p_species p) -> dom_sp (p_heap p) sp) -> exists p1, speciate_one o p k = Ok p1.
Proof.
  intros [baby Hb] Hc D. unfold speciate_one. rewrite Hb. cbn [bind]. cbv zeta.
  destruct (p_species p) as [|s0 l0] eqn:E; [eauto|]. rewrite Hc.
  destruct (best_species_total o (p_heap p) baby (s0 :: l0) None max_float64 D) as [b Eb]. rewrite Eb. cbn [bind].
  destruct b; eauto.
Qed.

Lemma speciate_loop_total o : forall ks p P,
  Wf (all_sp p) (p_heap p) P -> (forall k, In k ks -> ~ P k) -> NoDup ks ->
  (forall sp, In sp (all_sp p) -> sp_id sp <= p_last_species p) ->
  (forall k, In k ks -> hdom (p_heap p) k) -> PrimFloat.eqb (o_compat_thresh o) 0 = false ->
  exists p', speciate_loop o p ks = Ok p'.
Proof.
  induction ks as [|k ks IH]; intros p P W Nk Hn Hl D Hc; cbn [speciate_loop]; [eauto|].
  destruct (speciate_one_total o p k) as [p1 E1]; [apply D; now left|exact Hc| |].
  { intros sp Hsp. eapply Wf_dom; [exact W|]. unfold all_sp. apply in_or_app. now left. }
  rewrite E1. cbn [bind]. inversion Hn as [|? ? Hk Hn']; subst.
  destruct (speciate_one_ok _ _ _ _ P E1 W) as [W1 S1]; [apply Nk; now left|exact Hl|].
  apply (IH p1 (fun x => P x \/ x = k)); auto.
  - intros k' Hk' [HP| ->]; [apply (Nk k'); [now right|assumption]|contradiction].
  - apply S1.
  - intros k' Hk'. eapply (hdom_frame ogid); [apply S1|]. apply D. now right.
Qed.

(* ---------- finalizeReproduction ---------- *)
Lemma purge_old_loop_total (B : Z -> Prop) : forall ks p,
  Wf (all_sp p) (p_heap p) (fun k => In k ks \/ B k) -> NoDup ks -> (forall k, In k ks -> ~ B k) ->
  exists p3, purge_old_loop p ks = Ok p3.
Proof.
  induction ks as [|k ks IH]; intros p W Hn Hb; cbn [purge_old_loop]; [eauto|].
  destruct (wf_cover _ _ _ W k) as (sp & Hsp & Hk); [left; now left|].
  destruct (Wf_dom _ _ _ _ W Hsp k Hk) as [x Hx]. rewrite Hx. cbn [bind].
  pose proof (hget_key _ _ _ Hx) as Ek. subst k.
  destruct (Wf_remove_total _ _ _ (o_key x) (o_species x) W) as [l' R]; [now apply hview_get|left; now left|].
  destruct (remove_from_species_total _ _ _ R) as [p1 E1]. rewrite E1. cbn [bind].
  inversion Hn as [|? ? Nk Hn']; subst.
  apply remove_from_species_ok in E1. destruct E1 as (R1 & _ & _ & Eh & _).
  apply IH; auto.
  - rewrite Eh. eapply Wf_iff.
    + eapply Wf_remove; [exact W| |left; now left|exact R1]. now apply hview_get.
    + intros y. cbn. split.
      * intros [[[Hy|Hy]|Hy] Ny]; auto. congruence.
      * intros [Hy|Hy]; (split; [auto|]); intros ->; [contradiction|]. apply (Hb (o_key x)); [now left|assumption].
  - intros k' Hk'. apply Hb. now right.
Qed.

Lemma renumber_total : forall ks h c, (forall k, In k ks -> hdom h k) -> exists r, renumber h ks c = Ok r.
Proof.
  induction ks as [|k ks IH]; intros h c D; cbn [renumber]; [eauto|].
  destruct (D k (or_introl eq_refl)) as [x Hx]. rewrite Hx. cbn [bind]. apply IH.
  intros k' Hk'. eapply (hdom_frame o_species); [|apply D; now right].
  apply (hframe_hset_get o_species _ x); [|reflexivity]. cbn. now rewrite (hget_key _ _ _ Hx).
Qed.

Lemma purge_or_age_total : forall l h c acc,
  (forall sp, In sp l -> dom_sp h sp) -> exists r, purge_or_age l h c acc = Ok r.
Proof.
  induction l as [|sp l IH]; intros h c acc D; cbn [purge_or_age]; [eauto|].
  assert (D' : forall y, In y l -> dom_sp h y) by (intros; apply D; now right).
  destruct (sp_orgs sp) as [|k0 ks0] eqn:E; [now apply IH|].
  destruct (renumber_total (k0 :: ks0) h c) as [[h1 c1] Er].
  { intros k Hk. apply (D sp (or_introl eq_refl)). now rewrite E. }
  rewrite Er. cbn [bind]. apply renumber_ok in Er. destruct Er as (_ & F & _).
  destruct (IH h1 c1 (acc ++ k0 :: ks0)) as [[[l2 h2] orgs2] E2].
  { intros y Hy k Hk. eapply hdom_frame; [exact F|]. now apply (D' y Hy). }
  rewrite E2. cbn [bind]. eauto.
Qed.

Lemma finalize_total p2 x2 s (babies : list Z) :
  Wf (all_sp p2) (p_heap p2) (fun k => In k (p_orgs p2) \/ In k babies) ->
  NoDup (p_orgs p2) -> (forall k, In k (p_orgs p2) -> ~ In k babies) -> x_best_reproduced x2 = true ->
  exists p' s', finalize p2 x2 s = Ok (p', s').
Proof.
  intros W Hn Hdis Hbest. unfold finalize.
  destruct (purge_old_loop_total (fun k => In k babies) (p_orgs p2) p2 W Hn Hdis) as [p3 E1].
  rewrite (bindM_lift_eq _ _ p3 s E1).
  apply (purge_old_loop_ok (fun k => In k babies)) in E1; auto. destruct E1 as (W3 & _).
  destruct (purge_or_age_total (p_species p3) (p_heap p3) 0 []) as [[[sps h] orgs] E2].
  { intros sp Hsp. eapply Wf_dom; [exact W3|]. unfold all_sp. apply in_or_app. now left. }
  rewrite (bindM_lift_eq _ _ (sps, h, orgs) s E2). cbv beta iota zeta. rewrite Hbest, andb_false_r. eauto.
Qed.

(* ---------- NextEpoch ---------- *)
Lemma existsb_id_in best l : In best (map sp_id l) -> existsb (fun sp => Z.eqb (sp_id sp) best) l = true.
Proof.
  intros H. apply in_map_iff in H. destruct H as (sp & E & Hsp). apply existsb_exists. exists sp.
  split; [assumption|]. now apply Z.eqb_eq.
Qed.

Theorem next_epoch_failures o gen p x s :
  Part p -> Fresh p -> zlen (p_orgs p) < 2 ^ 31 -> survivors_ok o -> survives o p -> 0 < o_pop_size o ->
  PrimFloat.eqb (o_compat_thresh o) 0 = false ->
  (forall p1 sorted best s1, prepare o p s = Ok ((p1, sorted, best), s1) ->
                             sum_exp (p_species p1) = o_pop_size o) ->
  (exists r, next_epoch o gen p x s = Ok r) \/
  next_epoch o gen p x s = OutOfTape \/
  exists p1 sorted best s1 sp count rs st' hi keyi,
    prepare o p s = Ok ((p1, sorted, best), s1) /\ In sp (p_species p1) /\
    bred (p_heap p1) (p_next_key p1) hi keyi /\ rs_ok hi keyi rs /\
    failure (one_baby o gen (all_sp p1) sorted sp count rs st') <> None /\
    failure (next_epoch o gen p x s) = failure (one_baby o gen (all_sp p1) sorted sp count rs st').
Proof.
  intros HP Fr Hsz Sv Hal Hpos Hc Hq.
  destruct (prepare_forward o p s HP Fr Hsz Sv Hal) as [Et|(p1 & sorted & best & s1 & Ep & Ne1)].
  { right. left. unfold next_epoch. now apply bindM_tape_eq. }
  specialize (Hq _ _ _ _ Ep).
  pose proof (prepare_ok _ _ _ _ _ _ _ Ep (Part_Wf _ HP) (part_detached _ HP) (part_orgs_nodup _ HP))
    as [A1 A2 A3 A4 A5 A6 A7 A8 A9].
  unfold next_epoch. rewrite (bindM_ok_eq _ _ _ _ _ Ep). cbv beta iota zeta.
  set (x1 := {| x_best_id := best; x_best_reproduced := x_best_reproduced x |}).
  assert (Hl1 : forall y, In y (all_sp p1) -> sp_id y <= p_last_species p1).
  { intros y Hy. rewrite A6. assert (Hi : In (sp_id y) (map sp_id (p_species p))) by (apply A8; now apply in_map).
    apply in_map_iff in Hi. destruct Hi as (z & <- & Hz). now apply HP. }
  assert (B1 : hbound (p_heap p1) (p_next_key p1)).
  { rewrite A7. eapply hbound_frame; [exact A4|apply HP]. }
  destruct (reproduce_all o gen (p_species p1 ++ p_detached p1) sorted (x_best_id x1) (p_species p1)
                          (p_heap p1) (p_next_key p1) [] (x_best_reproduced x1) s1)
    as [[[[[h2 key2] babies] br] s2]| | | | |] eqn:Er.
  2-6: right; right;
    match type of Er with _ = ?e =>
      destruct (reproduce_all_fail o gen (p_species p1 ++ p_detached p1) sorted (x_best_id x1) (p_species p1)
                  (p_heap p1) (p_next_key p1) [] (x_best_reproduced x1) s1
                  (match failure (A:=list organism * Z * list Z * bool * st) e with Some f => f | None => FTape end) B1 Ne1)
        as (sp & c & rs & st' & hi & keyi & Hsp & Bi & Ri & Hf); [now rewrite Er|];
      exists p1, sorted, best, s1, sp, c, rs, st', hi, keyi; splits; auto;
      [change (all_sp p1) with (p_species p1 ++ p_detached p1); rewrite Hf; discriminate|
       change (all_sp p1) with (p_species p1 ++ p_detached p1); rewrite Hf;
       apply bindM_fail_eq; unfold reproduce; cbv zeta; apply bindM_fail_eq; now rewrite Er]
    end.
  (* the breeding loop succeeded *)
  left.
  pose proof (reproduce_all_ok o gen (p_species p1 ++ p_detached p1) sorted (x_best_id x1) (p_species p1)
                               (p_heap p1) (p_next_key p1) [] (x_best_reproduced x1) B1 _ _ _ Er) as R.
  cbn in R. destruct R as ([R1 R2 R3 R4 R5] & -> & Ek & ->).
  assert (Hold : forall k, In k (p_orgs p1) -> k < p_next_key p1).
  { intros k Hk. destruct (wf_cover _ _ _ A1 k Hk) as (y & Hy & Hi).
    destruct (Wf_dom _ _ _ _ A1 Hy k Hi) as [z Hz]. eapply B1; eauto. }
  assert (Hlen : zlen (zrange (p_next_key p1) key2) = o_pop_size o).
  { unfold zlen. rewrite zrange_length. lia. }
  set (pm := {| p_species := p_species p1; p_detached := p_detached p1; p_orgs := p_orgs p1; p_heap := h2;
                p_last_species := p_last_species p1; p_highest := p_highest p1;
                p_epochs_highest := p_epochs_highest p1; p_next_key := key2 |}).
  destruct (speciate_loop_total o (zrange (p_next_key p1) key2) pm (fun k => In k (p_orgs p1))) as [p2 Es]; auto.
  { change (all_sp pm) with (all_sp p1). cbn. eapply Wf_ext; [exact A1|apply hext_pe_species, R1]. }
  { intros k Hk Ho. apply zrange_in in Hk. apply Hold in Ho. lia. }
  { apply zrange_nodup. }
  { intros k Hk. apply zrange_in in Hk. destruct (R4 k Hk) as [a Ha]. apply hview_some in Ha.
    destruct Ha as (z & Hz & _). now exists z. }
  set (x2 := {| x_best_id := x_best_id x1;
                x_best_reproduced := (x_best_reproduced x1 ||
                  existsb (fun sp => Z.eqb (sp_id sp) (x_best_id x1)) (p_species p1))%bool |}).
  assert (Erep : reproduce o gen p1 sorted x1 s1 = Ok ((p2, x2), s2)).
  { unfold reproduce. cbv zeta. rewrite (bindM_ok_eq _ _ _ _ _ Er). cbv beta iota zeta.
    rewrite Hlen, Z.eqb_refl. cbn [negb]. fold pm.
    assert (Esp : speciate o pm (zrange (p_next_key p1) key2) = Ok p2).
    { unfold speciate. destruct (zrange (p_next_key p1) key2) eqn:Ez; [|exact Es]. unfold zlen in Hlen. cbn in Hlen. lia. }
    rewrite (bindM_lift_eq _ _ p2 s2 Esp). reflexivity. }
  rewrite (bindM_ok_eq _ _ _ _ _ Erep). cbv beta iota zeta.
  destruct (reproduce_ok _ _ _ _ _ _ _ _ _ Erep A1 B1 Hl1)
    as (bb & [C1 C2 C3 C4 C5 C6 C7 C7' C8 C9 C10 C11 C12 C13]).
  destruct (finalize_total p2 x2 s2 bb) as (p' & s' & Ef).
  - rewrite C5. exact C4.
  - now rewrite C5.
  - intros k Hk Hb. rewrite C5 in Hk. apply C6 in Hk. rewrite C1 in Hb. apply zrange_in in Hb. lia.
  - cbn. rewrite (existsb_id_in best (p_species p1) A9). apply orb_true_r.
  - rewrite (bindM_ok_eq _ _ _ _ _ Ef). eexists. reflexivity.
Qed.

Lemma failure_tape {A} (r : res A) : failure r = Some FTape -> r = OutOfTape.
Proof. destruct r; try discriminate. reflexivity. Qed.

(* if no call of the per-baby body fails (other than by running out of tape) in any state the
   breeding loop can reach, the whole epoch succeeds or runs out of tape *)
Theorem next_epoch_no_error o gen p x s :
  Part p -> Fresh p -> zlen (p_orgs p) < 2 ^ 31 -> survivors_ok o -> survives o p -> 0 < o_pop_size o ->
  PrimFloat.eqb (o_compat_thresh o) 0 = false ->
  (forall p1 sorted best s1, prepare o p s = Ok ((p1, sorted, best), s1) ->
                             sum_exp (p_species p1) = o_pop_size o) ->
  (forall p1 sorted best s1 sp count rs st' hi keyi,
     prepare o p s = Ok ((p1, sorted, best), s1) -> In sp (p_species p1) ->
     bred (p_heap p1) (p_next_key p1) hi keyi -> rs_ok hi keyi rs ->
     failure (one_baby o gen (all_sp p1) sorted sp count rs st') = None \/
     failure (one_baby o gen (all_sp p1) sorted sp count rs st') = Some FTape) ->
  (exists r, next_epoch o gen p x s = Ok r) \/ next_epoch o gen p x s = OutOfTape.
Proof.
  intros HP Fr Hsz Sv Hal Hpos Hc Hq Hop.
  destruct (next_epoch_failures o gen p x s HP Fr Hsz Sv Hal Hpos Hc Hq)
    as [H|[H|(p1 & sorted & best & s1 & sp & c & rs & st' & hi & keyi & Ep & Hsp & Bi & Ri & Hne & Hf)]]; auto.
  destruct (Hop _ _ _ _ _ c _ st' _ _ Ep Hsp Bi Ri) as [E|E]; [contradiction|].
  right. apply failure_tape. now rewrite Hf.
Qed.
