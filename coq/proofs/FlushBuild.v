(* solvers produced by the translation Network.FastNetworkSolver satisfy the range condition the fast C13
   theorem needs: sensorNeuronCount <= totalNeuronCount (checked by [new_fast]) *)
From NeatModel Require Import Res Net Fast.
From Coq Require Import Arith Lia.
Open Scope nat_scope.

Section FlushBuild.
Variable F : Type.
Variable NF : num F.

Lemma new_fast_sensor_le b i o t acts conns biases (fn : fnet F) :
  new_fast b i o t acts conns biases = Ok fn -> f_sensor fn <= f_total fn.
Proof.
  unfold new_fast. destruct (_ && _) eqn:E; [|discriminate].
  intros H. injection H as <-. unfold f_sensor. simpl.
  repeat (apply andb_true_iff in E; destruct E as [E ?]). apply Nat.leb_le in E. lia.
Qed.

Lemma fast_of_net_sensor_le (n : net F) (fn : fnet F) :
  fast_of_net NF n = Ok fn -> f_sensor fn <= f_total fn.
Proof.
  unfold fast_of_net.
  repeat match goal with
         | |- context [match ?x with _ => _ end] =>
           match x with
           | new_fast _ _ _ _ _ _ _ => fail 1
           | _ => destruct x as [[[? ?] ?]| | | | |] || destruct x as [[? ?]| | | | |]
           end
         end; simpl; try discriminate.
  apply new_fast_sensor_le.
Qed.

Lemma new_fast_ranges b i o t acts conns biases (fn : fnet F) :
  new_fast b i o t acts conns biases = Ok fn ->
  (forall c, In c (f_conns fn) -> fl_src c < f_total fn /\ fl_tgt c < f_total fn) /\
  f_sensor fn + f_out fn <= f_total fn.
Proof.
  unfold new_fast. destruct (_ && _) eqn:E; [|discriminate].
  intros H. injection H as <-. unfold f_sensor. simpl.
  repeat (apply andb_true_iff in E; destruct E as [E ?]). apply Nat.leb_le in E. split; [|lia].
  intros c Hc. rewrite forallb_forall in H. specialize (H c Hc). apply andb_true_iff in H.
  destruct H as [A B]. apply Nat.ltb_lt in A. apply Nat.ltb_lt in B. auto.
Qed.

Lemma fast_of_net_ranges (n : net F) (fn : fnet F) :
  fast_of_net NF n = Ok fn ->
  (forall c, In c (f_conns fn) -> fl_src c < f_total fn /\ fl_tgt c < f_total fn) /\
  f_sensor fn + f_out fn <= f_total fn.
Proof.
  unfold fast_of_net.
  repeat match goal with
         | |- context [match ?x with _ => _ end] =>
           match x with
           | new_fast _ _ _ _ _ _ _ => fail 1
           | _ => destruct x as [[[? ?] ?]| | | | |] || destruct x as [[? ?]| | | | |]
           end
         end; simpl; try discriminate.
  apply new_fast_ranges.
Qed.

End FlushBuild.

(* the binary64 activation table never reports OutOfFuel (it has no fuel) *)
From NeatModel Require Import F64 C12Cases.
Lemma fact_no_fuel (t : table) (c : Z) (x : float) : fact t c x <> OutOfFuel.
Proof.
  assert (G : table_lookup t c x <> OutOfFuel).
  { induction t as [|[[c0 i0] o0] rest IH]; simpl; [discriminate|].
    destruct ((c0 =? c)%Z && feqb_exact i0 x); [discriminate|exact IH]. }
  unfold fact.
  repeat match goal with
         | |- context [match ?z with _ => _ end] => destruct z; try discriminate; try exact G
         end.
Qed.
