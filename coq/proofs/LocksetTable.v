(* C16 -- from the static access table to the trace discipline.

   [table_disciplined] is a check on the table the translator extracts from the source.  This file
   states what a trace must have in common with the table for that check to mean something
   ([conforms]: the trusted reading of the table, i.e. what the translator's rules and the Go
   semantics are trusted for) and proves that a disciplined table then gives the lockset discipline
   for every location, hence (LocksetSound) race freedom. *)
From Coq Require Import List Arith Lia Bool String.
From NeatModel Require Import Lockset LocksetSound.
Import ListNotations.

(* The reading of the table.  [site i] is the table row of the source-level access executed at
   position i, [fld x] the (kind, field) of location x, [mu] the one Population.mutex of the run. *)
Record conforms (T : list access) (xs : list exception) (tr : trace) (lo hi : nat) (mu : mutex)
       (site : nat -> access) (fld : loc -> string * string) : Prop := {
  (* every access of the region is an instance of a listed row for the field of its location *)
  cf_row : forall i e x, region lo hi i -> at_pos tr i e -> accesses_loc (act e) x ->
      In (site i) T /\ (a_kind (site i), a_field (site i)) = fld x;
  (* rows marked R do not write *)
  cf_read : forall i e x, region lo hi i -> at_pos tr i e -> accesses_loc (act e) x ->
      a_rw (site i) = R -> ~ writes_loc (act e) x;
  (* rows marked PAtomic are atomic operations *)
  cf_atomic : forall i e x, region lo hi i -> at_pos tr i e -> accesses_loc (act e) x ->
      a_prot (site i) = PAtomic -> atomic_op (act e);
  (* rows marked PMutex execute with the population mutex held *)
  cf_mutex : forall i e x, region lo hi i -> at_pos tr i e -> accesses_loc (act e) x ->
      a_prot (site i) = PMutex -> holds tr i (thr e) mu;
  (* rows marked PLocal (escape rule) or covered by an exception touch a location that no other
     goroutine touches inside the region *)
  cf_confined : forall i e x, region lo hi i -> at_pos tr i e -> accesses_loc (act e) x ->
      (a_prot (site i) = PLocal \/ excepted xs (site i) = true) ->
      forall j e', region lo hi j -> at_pos tr j e' -> accesses_loc (act e') x -> thr e' = thr e
}.

(* ---------- small facts ---------- *)
Lemma accesses_op_loc o x : accesses_loc o x <-> op_loc o = Some x.
Proof.
  unfold accesses_loc. split.
  - intros [-> | [-> | [-> | ->]]]; reflexivity.
  - destruct o; simpl; intros E; try discriminate; injection E as ->; auto.
Qed.

Lemma prot_eqb_eq a b : prot_eqb a b = true <-> a = b.
Proof. destruct a, b; simpl; split; intros E; try reflexivity; try discriminate. Qed.

Lemma rw_eqb_eq a b : rw_eqb a b = true <-> a = b.
Proof. destruct a, b; simpl; split; intros E; try reflexivity; try discriminate. Qed.

Lemma at_pos_lt tr i e : at_pos tr i e -> i < List.length tr.
Proof. unfold at_pos. intros H. apply nth_error_Some. congruence. Qed.

(* the accesses of x inside the region whose row satisfies q: decidable existence *)
Definition hit (tr : trace) (lo hi : nat) (x : loc) (q : nat -> bool) (i : nat) : bool :=
  match nth_error tr i with
  | Some e => match op_loc (act e) with
              | Some y => Nat.eqb y x && Nat.leb lo i && Nat.leb i hi && q i
              | None => false
              end
  | None => false
  end.

Lemma hit_true tr lo hi x q i :
  hit tr lo hi x q i = true <->
  exists e, at_pos tr i e /\ accesses_loc (act e) x /\ region lo hi i /\ q i = true.
Proof.
  unfold hit, at_pos, region. split.
  - destruct (nth_error tr i) as [e|]; [|discriminate].
    destruct (op_loc (act e)) as [y|] eqn:Ey; [|discriminate].
    intros H. repeat (apply andb_true_iff in H; destruct H as [H ?]).
    apply Nat.eqb_eq in H. subst y. exists e. split; [reflexivity|]. split; [now apply accesses_op_loc|].
    split; [split; [now apply Nat.leb_le | now apply Nat.leb_le] | assumption].
  - intros [e [E [A [[L1 L2] Q]]]]. rewrite E. apply accesses_op_loc in A. rewrite A.
    rewrite Nat.eqb_refl, Q. simpl. apply Nat.leb_le in L1. apply Nat.leb_le in L2. now rewrite L1, L2.
Qed.

Lemma hit_search tr lo hi x q :
  (exists i e, at_pos tr i e /\ accesses_loc (act e) x /\ region lo hi i /\ q i = true) \/
  (forall i e, at_pos tr i e -> accesses_loc (act e) x -> region lo hi i -> q i = false).
Proof.
  destruct (existsb (hit tr lo hi x q) (seq 0 (List.length tr))) eqn:E.
  - left. apply existsb_exists in E. destruct E as [i [_ H]]. apply hit_true in H.
    destruct H as [e H]. exists i, e. exact H.
  - right. intros i e Hi A Rg. destruct (q i) eqn:Q; [|reflexivity]. exfalso.
    assert (H : hit tr lo hi x q i = true) by (apply hit_true; exists e; auto).
    assert (Hex : existsb (hit tr lo hi x q) (seq 0 (List.length tr)) = true).
    { apply existsb_exists. exists i. split; [|exact H]. apply in_seq. pose proof (at_pos_lt _ _ _ Hi). lia. }
    congruence.
Qed.

Definition localish (xs : list exception) (a : access) : bool :=
  prot_eqb (a_prot a) PLocal || excepted xs a.

(* ---------- a disciplined table gives the discipline of every location ---------- *)
Theorem table_sound : forall T xs tr lo hi mu site fld,
    table_disciplined xs T = true ->
    conforms T xs tr lo hi mu site fld ->
    forall x, disciplined tr (region lo hi) x.
Proof.
  intros T xs tr lo hi mu site fld HT C x.
  (* 1. some access of x is confined to its goroutine: clause (d) *)
  destruct (hit_search tr lo hi x (fun i => localish xs (site i))) as [[i [e [Hi [A [Rg Q]]]]]|Hnl].
  { right. right. right. exists (thr e). intros j e' Rj Hj Aj.
    assert (Hd : a_prot (site i) = PLocal \/ excepted xs (site i) = true).
    { unfold localish in Q. apply orb_true_iff in Q. destruct Q as [Q|Q]; [left; now apply prot_eqb_eq | right; exact Q]. }
    exact (cf_confined _ _ _ _ _ _ _ _ C i e x Rg Hi A Hd j e' Rj Hj Aj). }
  (* 2. no access at all: clause (b) holds vacuously *)
  destruct (hit_search tr lo hi x (fun _ => true)) as [[i0 [e0 [Hi0 [A0 [Rg0 _]]]]]|Hnone].
  2:{ right. left. intros i e Rg Hi A. specialize (Hnone i e Hi A Rg). discriminate. }
  (* 3. the field of x obeys the table discipline; all accesses of x are shared rows of that field *)
  destruct (cf_row _ _ _ _ _ _ _ _ C i0 e0 x Rg0 Hi0 A0) as [In0 F0].
  unfold table_disciplined in HT. rewrite forallb_forall in HT. specialize (HT (site i0) In0).
  unfold field_ok in HT.
  set (S := filter (fun b => same_field (site i0) b && is_shared b) T) in HT.
  assert (InS : forall i e, region lo hi i -> at_pos tr i e -> accesses_loc (act e) x -> In (site i) S).
  { intros i e Rg Hi A. destruct (cf_row _ _ _ _ _ _ _ _ C i e x Rg Hi A) as [InT F].
    apply filter_In. split; [exact InT|]. apply andb_true_iff. split.
    - unfold same_field. rewrite <- F in F0. injection F0 as -> ->. now rewrite !String.eqb_refl.
    - specialize (Hnl i e Hi A Rg). unfold localish in Hnl. apply orb_false_iff in Hnl. destruct Hnl as [Hnl _].
      unfold is_shared. now rewrite Hnl. }
  repeat (apply orb_true_iff in HT; destruct HT as [HT|HT]); rewrite forallb_forall in HT.
  - (* all under the mutex: clause (c) *)
    right. right. left. exists mu. intros i e Rg Hi A.
    apply (cf_mutex _ _ _ _ _ _ _ _ C i e x Rg Hi A). apply prot_eqb_eq. apply HT. now apply (InS i e).
  - (* all atomic: clause (a) *)
    left. intros i e Rg Hi A.
    apply (cf_atomic _ _ _ _ _ _ _ _ C i e x Rg Hi A). apply prot_eqb_eq. apply HT. now apply (InS i e).
  - (* all reads: clause (b) *)
    right. left. intros i e Rg Hi A.
    apply (cf_read _ _ _ _ _ _ _ _ C i e x Rg Hi A). apply rw_eqb_eq. apply HT. now apply (InS i e).
  - (* all excepted: impossible here, excepted rows were handled in step 1 *)
    exfalso. specialize (HT (site i0) (InS i0 e0 Rg0 Hi0 A0)).
    specialize (Hnl i0 e0 Hi0 A0 Rg0). unfold localish in Hnl. apply orb_false_iff in Hnl. destruct Hnl as [_ Hnl].
    congruence.
Qed.

(* a disciplined table, read as [conforms] says, means no data race *)
Theorem table_race_free : forall T xs tr main lo hi mu site fld,
    table_disciplined xs T = true ->
    wf_locks tr -> fork_join tr main lo hi ->
    conforms T xs tr lo hi mu site fld ->
    race_free tr.
Proof.
  intros T xs tr main lo hi mu site fld HT Hwf FJ C.
  apply (lockset_sound tr main lo hi Hwf FJ).
  exact (table_sound T xs tr lo hi mu site fld HT C).
Qed.

(* ---------- justification of the owner-confined exception ----------
   Species.reproduce writes theChamp.superChampOffspring where theChamp = s.Organisms[0] of the
   species the goroutine was started for.  Species partition the organisms (C02: no organism is
   listed by two species) and the spawning loop starts one goroutine per element of pop.Species,
   so the champions of two goroutines are different objects: *)
Lemma nodup_app_tail (A : Type) (l l' : list A) : NoDup (l ++ l') -> NoDup l'.
Proof. induction l as [|y l IH]; simpl; intros H; [exact H|]. inversion H; subst. now apply IH. Qed.

Lemma members_disjoint : forall (A : Type) (sps : list (list A)) i j l1 l2 a,
    NoDup (List.concat sps) -> i <> j ->
    nth_error sps i = Some l1 -> nth_error sps j = Some l2 -> In a l1 -> In a l2 -> False.
Proof.
  intros A sps. induction sps as [|l sps IH]; intros i j l1 l2 a ND Hij H1 H2 I1 I2.
  - destruct i; discriminate.
  - simpl in ND. pose proof (nodup_app_tail _ _ _ ND) as ND'.
    assert (Hsep : forall k l' b, nth_error sps k = Some l' -> In b l -> In b l' -> False).
    { intros k l' b Hk Ib Ib'. clear - ND Hk Ib Ib'.
      assert (In b (List.concat sps)) as Ic.
      { apply in_concat. exists l'. split; [eapply nth_error_In; eauto | exact Ib']. }
      induction l as [|y l IHl]; [destruct Ib|].
      simpl in ND. inversion ND as [|? ? Hnot ND2]; subst. destruct Ib as [->|Ib].
      - apply Hnot. apply in_or_app. right. exact Ic.
      - apply IHl; assumption. }
    destruct i as [|i], j as [|j]; simpl in H1, H2.
    + contradiction.
    + injection H1 as <-. apply (Hsep j l2 a H2 I1 I2).
    + injection H2 as <-. apply (Hsep i l1 a H1 I2 I1).
    + apply (IH i j l1 l2 a ND'); auto.
Qed.

Lemma champions_distinct : forall (A : Type) (sps : list (list A)) i j a b l1 l2,
    NoDup (List.concat sps) -> i <> j ->
    nth_error sps i = Some (a :: l1) -> nth_error sps j = Some (b :: l2) -> a <> b.
Proof.
  intros A sps i j a b l1 l2 ND Hij H1 H2 E. subst b.
  apply (members_disjoint A sps i j (a :: l1) (a :: l2) a ND Hij H1 H2); left; reflexivity.
Qed.
