(* C12: Network.LoadSensors on a fresh network whose inputs list is its sensors in node order, called
   with one value per input node: the i-th input node gets x_i, every bias node gets 1.0 (whichever of
   the two branches of LoadSensors runs). *)
From NeatModel Require Import Res Net Fast SolverUtil SolverSpec SolverStd SolverBuild SolverMain FlushStd.
From Coq Require Import Reals Lra Arith Lia.
Open Scope nat_scope.

Section Load.
Variable n : net R.
Notation N := (nnodes n).
Notation state := (sstate R).

Definition inputb (p : nat) : bool := is_input (role_at n p).
Definition biasb (p : nat) : bool := is_bias (role_at n p).

Lemma sensor_load_spec (s : state) p (x : R) :
  let s' := sensor_load Rnum n s p x in
  length (s_act s') = length (s_act s) /\ length (s_cnt s') = length (s_cnt s) /\
  (forall q, q <> p -> actR s' q = actR s q /\ cntZ s' q = cntZ s q) /\
  (sensorb n p = false -> s' = s) /\
  (sensorb n p = true -> p < length (s_act s) -> p < length (s_cnt s) ->
   actR s' p = x /\ cntZ s' p = (cntZ s p + 1)%Z).
Proof.
  unfold sensor_load. fold (sensorb n p). destruct (sensorb n p).
  - unfold set_activation, save_activations, actR, cntZ, getZ. simpl. rewrite !upd_length.
    split; [reflexivity|]. split; [reflexivity|]. split; [|split; [discriminate|]].
    + intros q Hq. split; apply nth_upd_other; auto.
    + intros _ H1 H2. split; apply nth_upd_same; assumption.
  - split; [reflexivity|]. split; [reflexivity|]. split; [auto|]. split; [auto|discriminate].
Qed.

Variable x : list R.

Lemma load_short_spec ins : forall c (s : state),
  NoDup ins -> c + length (filter inputb ins) <= length x ->
  exists s', load_short Rnum n ins x c s = (s', Ok true) /\
    length (s_act s') = length (s_act s) /\ length (s_cnt s') = length (s_cnt s) /\
    (forall p, ~ In p ins -> actR s' p = actR s p /\ cntZ s' p = cntZ s p) /\
    (forall p, In p ins -> sensorb n p = false -> actR s' p = actR s p /\ cntZ s' p = cntZ s p) /\
    (forall p, In p ins -> p < length (s_act s) -> p < length (s_cnt s) -> inputb p = true ->
       actR s' p = nth (c + pos_of p (filter inputb ins)) x 0%R /\ cntZ s' p = (cntZ s p + 1)%Z) /\
    (forall p, In p ins -> p < length (s_act s) -> p < length (s_cnt s) -> biasb p = true ->
       actR s' p = 1%R /\ cntZ s' p = (cntZ s p + 1)%Z).
Proof.
  induction ins as [|p0 rest IH]; intros c s ND Hc; simpl.
  - exists s. split; [reflexivity|]. split; [reflexivity|]. split; [reflexivity|]. split; [auto|].
    split; [intros p []|]. split; intros p [].
  - inversion ND as [|? ? Hni ND']; subst. fold (inputb p0). simpl in Hc.
    assert (Hrole : sensorb n p0 = inputb p0 || biasb p0).
    { unfold sensorb, inputb, biasb. destruct (role_at n p0); reflexivity. }
    destruct (inputb p0) eqn:Ei.
    + simpl in Hc. destruct (nth_error x c) as [xv|] eqn:Ex; [|apply nth_error_None in Ex; lia].
      assert (Exv : nth c x 0%R = xv) by (apply nth_error_nth; exact Ex).
      destruct (sensor_load_spec s p0 xv) as (L1 & L2 & O & _ & V).
      destruct (IH (S c) (sensor_load Rnum n s p0 xv) ND') as (s' & E & L1' & L2' & O' & NS' & I' & B'); [lia|].
      exists s'. split; [exact E|]. split; [congruence|]. split; [congruence|]. split; [|split; [|split]].
      * intros p Hp. assert (Hne : p <> p0) by (intros ->; apply Hp; simpl; auto).
        destruct (O' p) as [A1 A2]; [tauto|]. destruct (O p Hne) as [B1 B2]. split; congruence.
      * intros p [<-|Hp] Hs; [rewrite Hrole in Hs; discriminate|].
        assert (Hne : p <> p0) by (intros ->; contradiction).
        destruct (NS' p Hp Hs) as [A1 A2]. destruct (O p Hne) as [B1 B2]. split; congruence.
      * intros p [<-|Hp] H1 H2 Hi.
        -- simpl pos_of. rewrite Nat.eqb_refl, Nat.add_0_r. destruct (O' p0 Hni) as [A1 A2].
           destruct V as [V1 V2]; [rewrite Hrole; reflexivity|exact H1|exact H2|]. split; congruence.
        -- assert (Hne : p0 <> p) by (intros ->; contradiction).
           simpl pos_of. apply Nat.eqb_neq in Hne. rewrite Hne.
           destruct (I' p Hp) as [A1 A2]; [congruence|congruence|exact Hi|].
           destruct (O p) as [B1 B2]; [apply Nat.eqb_neq in Hne; auto|].
           split; [rewrite A1; f_equal; lia|congruence].
      * intros p [<-|Hp] H1 H2 Hb; [unfold inputb, biasb in *; destruct (role_at n p0); discriminate|].
        assert (Hne : p <> p0) by (intros ->; contradiction).
        destruct (B' p Hp) as [A1 A2]; [congruence|congruence|exact Hb|].
        destruct (O p Hne) as [B1 B2]. split; congruence.
    + destruct (sensor_load_spec s p0 1%R) as (L1 & L2 & O & NS & V).
      destruct (IH c (sensor_load Rnum n s p0 (fone Rnum)) ND') as (s' & E & L1' & L2' & O' & NS' & I' & B'); [exact Hc|].
Show. Abort.
