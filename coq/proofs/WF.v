(* Well-formedness of genomes (the predicate of C01) and the duplication theorems (C06). *)
From NeatModel Require Import Res F64 GoRand Genome Insert Dup InsertSpec.
From Coq Require Import Lia Sorting.Sorted Sorting.Permutation.

Definition link_key (x : gene) : Z * Z * bool := (g_in x, g_out x, g_rec x).

Definition genes_sorted (g : genome) : Prop := asc g_innov (genes g).
Definition links_nodup (g : genome) : Prop := NoDup (map link_key (genes g)).
Definition nodes_sorted (g : genome) : Prop := asc n_id (nodes g).
Definition endpoints_ok (g : genome) : Prop :=
  forall x, In x (genes g) ->
            exists a b, node_with_id (g_in x) (nodes g) = Some a /\
                        node_with_id (g_out x) (nodes g) = Some b /\ is_sensor b = false.
Definition has_trait (g : genome) (t : Z) : Prop := t <> 0 /\ exists tr, In tr (traits g) /\ t_id tr = t.
Definition trait_refs_ok (g : genome) : Prop :=
  (forall x t, In x (genes g) -> g_trait x = Some t -> has_trait g t) /\
  (forall n t, In n (nodes g) -> n_trait n = Some t -> has_trait g t).
Definition has_output (g : genome) : Prop := exists n, In n (nodes g) /\ n_type n = OUTPUT.
(* trait ids consecutive: id0, id0+1, ..., with id0 > 0 *)
Definition traits_ok (g : genome) : Prop :=
  traits g <> [] /\
  exists id0, 0 < id0 /\ map t_id (traits g) = map (fun k => id0 + Z.of_nat k) (seq 0 (length (traits g))).

Record wf (g : genome) : Prop := {
  wf_nonempty : genes g <> [];
  wf_genes : genes_sorted g;
  wf_links : links_nodup g;
  wf_nodes : nodes_sorted g;
  wf_endpoints : endpoints_ok g;
  wf_trait_refs : trait_refs_ok g;
  wf_traits : traits_ok g;
  wf_output : has_output g;
  wf_nonmodular : modules g = []
}.

(* the input, bias and output nodes (id and role) *)
Definition io_nodes (g : genome) : list (Z * Z) := map (fun n => (n_id n, n_type n)) (filter is_io (nodes g)).
Definition retains_io (g g' : genome) : Prop := incl (io_nodes g) (io_nodes g').

(* ---------- lookups ---------- *)
Lemma node_with_id_In id ns n : node_with_id id ns = Some n -> In n ns /\ n_id n = id.
Proof.
  induction ns as [|m ns IH]; cbn [node_with_id]; [discriminate|].
  destruct (Z.eqb_spec (n_id m) id) as [E|_].
  - intros H. injection H as <-. split; [now left|exact E].
  - intros H. destruct (IH H) as [Hin Hid]. split; [now right|exact Hid].
Qed.

Lemma node_with_id_some id ns : In id (map n_id ns) -> exists n, node_with_id id ns = Some n.
Proof.
  induction ns as [|m ns IH]; cbn [map node_with_id]; [intros []|].
  destruct (Z.eqb_spec (n_id m) id) as [E|Hne]; [eexists; reflexivity|].
  intros [H|H]; [contradiction|now apply IH].
Qed.

Lemma node_with_id_none id ns : ~ In id (map n_id ns) -> node_with_id id ns = None.
Proof.
  induction ns as [|m ns IH]; cbn [map node_with_id]; [reflexivity|].
  intros H. destruct (Z.eqb_spec (n_id m) id) as [E|Hne]; [exfalso; apply H; now left|].
  apply IH. intros H'. apply H. now right.
Qed.

Lemma node_with_id_unique id ns n :
  NoDup (map n_id ns) -> In n ns -> n_id n = id -> node_with_id id ns = Some n.
Proof.
  induction ns as [|m ns IH]; cbn [map node_with_id]; intros Hnd Hin Hid; [destruct Hin|].
  inversion Hnd as [|? ? Hnot Hnd']; subst.
  destruct Hin as [->|Hin].
  - now rewrite Z.eqb_refl.
  - destruct (Z.eqb_spec (n_id m) (n_id n)) as [E|_]; [|now apply IH].
    exfalso. apply Hnot. rewrite E. now apply in_map.
Qed.

Lemma trait_with_id_some id ts : In id (map t_id ts) -> exists t, trait_with_id id ts = Some t /\ t_id t = id.
Proof.
  induction ts as [|m ts IH]; cbn [map trait_with_id]; [intros []|].
  destruct (Z.eqb_spec (t_id m) id) as [E|Hne]; [eexists; split; [reflexivity|exact E]|].
  intros [H|H]; [contradiction|now apply IH].
Qed.

Lemma trait_ref_has g t : has_trait g t -> trait_ref t (traits g) = Some t.
Proof.
  intros [Hnz [tr [Hin Hid]]]. unfold trait_ref.
  destruct (Z.eqb_spec t 0) as [?|_]; [contradiction|].
  destruct (trait_with_id_some t (traits g)) as [t' [-> Hid']].
  - rewrite <- Hid. now apply in_map.
  - now rewrite Hid'.
Qed.

(* ---------- C06: duplicate is the identity on values, apart from the id ---------- *)
Lemma map_res_id {A} (f : A -> res A) (l : list A) :
  (forall x, In x l -> f x = Ok x) -> map_res f l = Ok l.
Proof.
  induction l as [|x l IH]; intros H; cbn [map_res]; [reflexivity|].
  rewrite (H x (or_introl eq_refl)). cbn [bind]. rewrite IH; [reflexivity|].
  intros y Hy. apply H. now right.
Qed.

Definition module_refs_ok (g : genome) : Prop :=
  forall m, In m (modules g) ->
            (forall l, In l (m_ins m) -> In (fst l) (map n_id (nodes g))) /\
            (forall l, In l (m_outs m) -> In (fst l) (map n_id (nodes g))) /\
            (forall t, n_trait (m_node m) = Some t -> has_trait g t).

Lemma dup_node_id g n :
  (forall t, n_trait n = Some t -> has_trait g t) -> dup_node (traits g) n = n.
Proof.
  intros H. unfold dup_node, remap_trait. destruct n as [i ty a tr]. cbn in *.
  destruct tr as [t|]; [|reflexivity]. now rewrite (trait_ref_has g t (H t eq_refl)).
Qed.

(* Theorem (dup_genetic_eq): on every genome whose references resolve, duplication returns the
   very same value with the new id: traits, nodes with activation types, gene endpoints, weights,
   innovation and mutation numbers, recurrence and enabled flags, modules. *)
Theorem duplicate_exact g id :
  endpoints_ok g -> trait_refs_ok g -> module_refs_ok g ->
  duplicate g id = Ok (with_id g id).
Proof.
  intros He [Hgt Hnt] Hm. unfold duplicate.
  assert (Hns : map (dup_node (traits g)) (nodes g) = nodes g).
  { rewrite <- (map_id (nodes g)) at 2. apply map_ext_in. intros n Hn.
    apply dup_node_id. intros t Ht. now apply (Hnt n). }
  rewrite Hns.
  rewrite (map_res_id (dup_gene (traits g) (nodes g)) (genes g)).
  - cbn [bind]. rewrite (map_res_id (dup_module (traits g) (nodes g)) (modules g)); [reflexivity|].
    intros m Hmi. destruct (Hm m Hmi) as [Hi [Ho Ht]]. unfold dup_module.
    assert (Hall : forall ls, (forall l, In l ls -> In (fst l) (map n_id (nodes g))) ->
                    forallb (fun l : Z * float => have_node {| gid := 0; traits := []; nodes := nodes g; genes := []; modules := [] |} (fst l)) ls = true).
    { intros ls Hls. apply forallb_forall. intros l Hl. unfold have_node. cbn [nodes].
      destruct (node_with_id_some _ _ (Hls l Hl)) as [n ->]. reflexivity. }
    rewrite (Hall _ Hi), (Hall _ Ho). cbn [negb].
    rewrite (dup_node_id g (m_node m) Ht). destruct m; reflexivity.
  - intros x Hx. unfold dup_gene. destruct (He x Hx) as [a [b [-> [-> _]]]].
    assert (Htr : remap_trait (g_trait x) (traits g) = g_trait x).
    { unfold remap_trait. destruct (g_trait x) as [t|] eqn:E; [|reflexivity].
      now rewrite (trait_ref_has g t (Hgt x t Hx E)). }
    rewrite Htr. destruct x; reflexivity.
Qed.

Corollary duplicate_wf g id : wf g -> duplicate g id = Ok (with_id g id).
Proof.
  intros [_ _ _ _ He Ht _ _ Hm]. apply duplicate_exact; try assumption.
  unfold module_refs_ok. rewrite Hm. intros m [].
Qed.

Lemma wf_with_id g id : wf g -> wf (with_id g id).
Proof. intros H. destruct H. constructor; assumption. Qed.

(* whatever duplicate returns, it never panics: Ok or one of the four "node not found" errors *)
Definition ok_or_err {A} (r : res A) : Prop := (exists a, r = Ok a) \/ (exists c, r = GoErr c).

Lemma map_res_ok_or_err {A B} (f : A -> res B) l :
  (forall x, ok_or_err (f x)) -> ok_or_err (map_res f l).
Proof.
  intros Hf. induction l as [|x l IH]; cbn [map_res]; [left; eexists; reflexivity|].
  destruct (Hf x) as [[y ->]|[c ->]]; cbn [bind]; [|right; eexists; reflexivity].
  destruct IH as [[ys ->]|[c ->]]; cbn [bind]; [left|right]; eexists; reflexivity.
Qed.

Lemma duplicate_total g id : ok_or_err (duplicate g id).
Proof.
  unfold duplicate.
  destruct (map_res_ok_or_err (dup_gene (traits g) (map (dup_node (traits g)) (nodes g))) (genes g)) as [[gs ->]|[c ->]];
    cbn [bind]; [| |right; eexists; reflexivity].
  - intros x. unfold dup_gene.
    destruct (node_with_id (g_in x) _); [destruct (node_with_id (g_out x) _)|];
      [left|right|right]; eexists; reflexivity.
  - destruct (map_res_ok_or_err (dup_module (traits g) (map (dup_node (traits g)) (nodes g))) (modules g)) as [[ms ->]|[c ->]];
      cbn [bind]; [|left; eexists; reflexivity|right; eexists; reflexivity].
    intros x. unfold dup_module. destruct (negb _); [right; eexists; reflexivity|].
    destruct (negb _); [right|left]; eexists; reflexivity.
Qed.

(* ---------- the innovation environment relative to a genome (C01 / C03, operator level) ---------- *)
(* counters bound everything the genome holds; a recorded link innovation number denotes that link
   wherever the genome carries the number; the two numbers of a recorded node innovation denote
   the two genes around the recorded node *)
(* the innovation numbers a record carries *)
Definition inn_nums (i : innovation) : list Z :=
  if Z.eqb (i_type i) 1 then [i_num i; i_num2 i] else [i_num i].

Record env_ok (e : ienv) (g : genome) : Prop := {
  eo_innov : forall x, In x (genes g) -> g_innov x <= next_innov e;
  eo_node : forall n, In n (nodes g) -> n_id n <= next_node e;
  eo_link : forall i x, In i (innovs e) -> i_type i = 2 -> In x (genes g) -> g_innov x = i_num i ->
                        link_key x = (i_in i, i_out i, i_rec i);
  eo_split : forall i x, In i (innovs e) -> i_type i = 1 -> In x (genes g) ->
                         (g_innov x = i_num i -> g_out x = i_node i) /\
                         (g_innov x = i_num2 i -> g_in x = i_node i);
  eo_rec : forall i, In i (innovs e) ->
                     i_num i <= next_innov e /\
                     (i_type i = 1 -> i_num i <> i_num2 i /\ i_num2 i <= next_innov e /\ i_node i <= next_node e);
  (* different records carry different numbers (every e_store follows fresh e_next_innov draws) *)
  eo_uniq : NoDup (flat_map inn_nums (innovs e))
}.

(* e' extends e: counters only grow and every added record carries numbers issued after e *)
Record env_extends (e e' : ienv) : Prop := {
  ee_innov : next_innov e <= next_innov e';
  ee_node : next_node e <= next_node e';
  ee_records : exists added, innovs e' = innovs e ++ added /\
                 NoDup (flat_map inn_nums added) /\
                 forall i, In i added ->
                           next_innov e < i_num i <= next_innov e' /\
                           (i_type i = 1 -> next_innov e < i_num2 i <= next_innov e' /\ i_num i <> i_num2 i /\
                                            next_node e < i_node i <= next_node e')
}.

Lemma env_extends_refl e : env_extends e e.
Proof. constructor; try lia. exists []. split; [now rewrite app_nil_r|split; [constructor|intros i []]]. Qed.

Lemma inn_nums_bounds (lo hi : Z) (l : list innovation) :
  (forall i, In i l -> lo < i_num i <= hi /\ (i_type i = 1 -> lo < i_num2 i <= hi)) ->
  forall z, In z (flat_map inn_nums l) -> lo < z <= hi.
Proof.
  intros H z Hz. apply in_flat_map in Hz. destruct Hz as [i [Hi Hz]]. destruct (H i Hi) as [H1 H2].
  unfold inn_nums in Hz. destruct (Z.eqb_spec (i_type i) 1) as [E|_].
  - specialize (H2 E). destruct Hz as [<-|[<-|[]]]; lia.
  - destruct Hz as [<-|[]]; lia.
Qed.

Lemma NoDup_app_disjoint {A} (a b : list A) :
  NoDup a -> NoDup b -> (forall x, In x a -> In x b -> False) -> NoDup (a ++ b).
Proof.
  induction a as [|x a IH]; intros Ha Hb Hd; [exact Hb|].
  inversion Ha as [|? ? Hx Ha']; subst. cbn [app]. constructor.
  - rewrite in_app_iff. intros [H|H]; [contradiction|]. apply (Hd x); [now left|exact H].
  - apply IH; try assumption. intros y Hy Hy'. apply (Hd y); [now right|exact Hy'].
Qed.

Lemma env_extends_trans a b c : env_extends a b -> env_extends b c -> env_extends a c.
Proof.
  intros [Hi1 Hn1 [ad1 [E1 [U1 R1]]]] [Hi2 Hn2 [ad2 [E2 [U2 R2]]]]. constructor; try lia.
  exists (ad1 ++ ad2). split; [now rewrite E2, E1, app_assoc|]. split.
  - rewrite flat_map_app. apply NoDup_app_disjoint; try assumption.
    intros z Hz1 Hz2.
    assert (B1 : next_innov a < z <= next_innov b).
    { apply (inn_nums_bounds _ _ ad1); [|exact Hz1]. intros i Hi. destruct (R1 i Hi) as [H1 H2].
      split; [lia|]. intros Ht. specialize (H2 Ht). lia. }
    assert (B2 : next_innov b < z <= next_innov c).
    { apply (inn_nums_bounds _ _ ad2); [|exact Hz2]. intros i Hi. destruct (R2 i Hi) as [H1 H2].
      split; [lia|]. intros Ht. specialize (H2 Ht). lia. }
    lia.
  - intros i Hi. apply in_app_or in Hi. destruct Hi as [Hi|Hi].
    + destruct (R1 i Hi) as [H1 H2]. split; [lia|]. intros Ht. specialize (H2 Ht). lia.
    + destruct (R2 i Hi) as [H1 H2]. split; [lia|]. intros Ht. specialize (H2 Ht). lia.
Qed.

(* a genome that was consistent with the environment stays so when the environment is extended:
   the new records only speak about numbers the genome cannot hold *)
Lemma env_ok_extends e e' g : env_ok e g -> env_extends e e' -> env_ok e' g.
Proof.
  intros [Hi Hn Hl Hs Hr Hu] [Ei En [added [E [U R]]]]. constructor.
  - intros x Hx. specialize (Hi x Hx). lia.
  - intros n Hn'. specialize (Hn n Hn'). lia.
  - intros i x Hin Ht Hx Hnum. rewrite E in Hin. apply in_app_or in Hin. destruct Hin as [Hin|Hin].
    + now apply (Hl i x).
    + destruct (R i Hin) as [Hlt _]. specialize (Hi x Hx). lia.
  - intros i x Hin Ht Hx. rewrite E in Hin. apply in_app_or in Hin. destruct Hin as [Hin|Hin].
    + now apply (Hs i x).
    + destruct (R i Hin) as [Hlt H2]. specialize (H2 Ht). specialize (Hi x Hx). split; intros; lia.
  - intros i Hin. rewrite E in Hin. apply in_app_or in Hin. destruct Hin as [Hin|Hin].
    + destruct (Hr i Hin) as [H1 H2]. split; [lia|]. intros Ht. specialize (H2 Ht). lia.
    + destruct (R i Hin) as [H1 H2]. split; [lia|]. intros Ht. specialize (H2 Ht). lia.
  - rewrite E, flat_map_app. apply NoDup_app_disjoint; try assumption.
    intros z Hz1 Hz2.
    assert (B1 : z <= next_innov e).
    { apply in_flat_map in Hz1. destruct Hz1 as [i [Hin Hz]]. destruct (Hr i Hin) as [H1 H2].
      unfold inn_nums in Hz. destruct (Z.eqb_spec (i_type i) 1) as [Et|_].
      - specialize (H2 Et). destruct Hz as [<-|[<-|[]]]; lia.
      - destruct Hz as [<-|[]]; lia. }
    assert (B2 : next_innov e < z <= next_innov e').
    { apply (inn_nums_bounds _ _ added); [|exact Hz2]. intros i Hin. destruct (R i Hin) as [H1 H2].
      split; [lia|]. intros Ht. specialize (H2 Ht). lia. }
    lia.
Qed.
