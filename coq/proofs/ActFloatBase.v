(* C18, float level: a thin layer over Flocq's bridge between Coq's primitive binary64 floats and
   the reals.  [FR x] is the real value of a finite float, [rnd] is rounding to nearest-even in
   binary64, and every primitive operation on finite operands is [rnd] of the exact operation as
   long as the rounded result stays below 2^1024. *)
From Coq Require Import ZArith Reals Lra Lia Bool.
From Flocq Require Import Core BinarySingleNaN.
From Flocq Require IEEE754.PrimFloat.
From Coq Require Import Floats.
Module FP := Flocq.IEEE754.PrimFloat.
Open Scope R_scope.

#[export] Existing Instance FP.Hprec.
#[export] Existing Instance FP.Hmax.

Notation fexp64 := (SpecFloat.fexp prec emax).
#[export] Instance fexp64_valid : Valid_exp fexp64 := fexp_correct prec emax _.
Definition rnd (r : R) : R := round radix2 fexp64 ZnearestE r.
Definition FR (x : float) : R := B2R (FP.Prim2B x).
Definition fin (x : float) : Prop := is_finite x = true.
Definition two1024 : R := bpow radix2 emax.

Lemma fin_B : forall x, fin x <-> BinarySingleNaN.is_finite (FP.Prim2B x) = true.
Proof. intros x. unfold fin. now rewrite FP.is_finite_equiv. Qed.

Lemma FR_SF : forall x, FR x = SF2R radix2 (Prim2SF x).
Proof. intros. unfold FR, FP.Prim2B. apply B2R_SF2B. Qed.

(* ---------- rounding ---------- *)
Lemma rnd_le : forall a b, a <= b -> rnd a <= rnd b.
Proof. intros. unfold rnd. apply round_le; auto with typeclass_instances. Qed.

Lemma rnd_FR : forall x, rnd (FR x) = FR x.
Proof.
  intros. unfold rnd, FR. apply round_generic; auto with typeclass_instances.
  apply generic_format_B2R.
Qed.

Lemma rnd_0 : rnd 0 = 0.
Proof. unfold rnd. apply round_0; auto with typeclass_instances. Qed.

Lemma rnd_opp : forall a, rnd (- a) = - rnd a.
Proof. intros. unfold rnd. apply round_NE_opp. Qed.

Lemma FR_lt_emax : forall x, Rabs (FR x) < two1024.
Proof. intros. unfold FR, two1024. apply abs_B2R_lt_emax. Qed.

(* a real between two floats rounds between them *)
Lemma rnd_between : forall a lo hi, FR lo <= a <= FR hi -> FR lo <= rnd a <= FR hi.
Proof.
  intros a lo hi [H1 H2]. split.
  - rewrite <- (rnd_FR lo). now apply rnd_le.
  - rewrite <- (rnd_FR hi). now apply rnd_le.
Qed.

Lemma rnd_no_overflow : forall a lo hi, FR lo <= a <= FR hi -> Rabs (rnd a) < two1024.
Proof.
  intros a lo hi H. apply rnd_between in H.
  pose proof (FR_lt_emax lo) as L. pose proof (FR_lt_emax hi) as U.
  apply Rabs_def1.
  - apply Rabs_def2 in U. lra.
  - apply Rabs_def2 in L. lra.
Qed.

(* ---------- comparisons ---------- *)
Lemma ltb_R : forall x y, fin x -> fin y -> (x <? y)%float = Rlt_bool (FR x) (FR y).
Proof.
  intros x y Hx Hy. rewrite FP.ltb_equiv. apply Bltb_correct; now apply fin_B.
Qed.

Lemma leb_R : forall x y, fin x -> fin y -> (x <=? y)%float = Rle_bool (FR x) (FR y).
Proof.
  intros x y Hx Hy. rewrite FP.leb_equiv. apply Bleb_correct; now apply fin_B.
Qed.

Lemma eqb_R : forall x y, fin x -> fin y -> (x =? y)%float = Req_bool (FR x) (FR y).
Proof.
  intros x y Hx Hy. rewrite FP.eqb_equiv. apply Beqb_correct; now apply fin_B.
Qed.

Lemma ltb_true_R : forall x y, fin x -> fin y -> (x <? y)%float = true -> FR x < FR y.
Proof. intros x y Hx Hy H. rewrite ltb_R in H by assumption. now apply Rlt_bool_true_inv in H || (revert H; case Rlt_bool_spec; [auto|discriminate]). Qed.

Lemma ltb_false_R : forall x y, fin x -> fin y -> (x <? y)%float = false -> FR y <= FR x.
Proof. intros x y Hx Hy H. rewrite ltb_R in H by assumption. revert H. case Rlt_bool_spec; [discriminate|auto]. Qed.

Lemma leb_true_R : forall x y, fin x -> fin y -> (x <=? y)%float = true -> FR x <= FR y.
Proof. intros x y Hx Hy H. rewrite leb_R in H by assumption. revert H. case Rle_bool_spec; [auto|discriminate]. Qed.

Lemma leb_of_R : forall x y, fin x -> fin y -> FR x <= FR y -> (x <=? y)%float = true.
Proof. intros x y Hx Hy H. rewrite leb_R by assumption. now apply Rle_bool_true. Qed.

(* a float that compares below another one is not NaN; if moreover both are bounded they are finite *)
Lemma leb_refl_fin : forall x, fin x -> (x <=? x)%float = true.
Proof. intros x H. apply leb_of_R; auto. lra. Qed.

(* ---------- sign-symmetric operations ---------- *)
Lemma FR_opp : forall x, FR (- x)%float = - FR x.
Proof. intros. unfold FR. rewrite FP.opp_equiv. apply B2R_Bopp. Qed.
Lemma fin_opp : forall x, fin x -> fin (- x)%float.
Proof. intros x H. apply fin_B. rewrite FP.opp_equiv, is_finite_Bopp. now apply fin_B. Qed.
Lemma FR_abs : forall x, FR (abs x) = Rabs (FR x).
Proof. intros. unfold FR. rewrite FP.abs_equiv. apply B2R_Babs. Qed.
Lemma fin_abs : forall x, fin x -> fin (abs x).
Proof. intros x H. apply fin_B. rewrite FP.abs_equiv, is_finite_Babs. now apply fin_B. Qed.

(* ---------- arithmetic ---------- *)
Lemma add_R : forall x y, fin x -> fin y -> Rabs (rnd (FR x + FR y)) < two1024 ->
    FR (x + y)%float = rnd (FR x + FR y) /\ fin (x + y)%float.
Proof.
  intros x y Hx Hy Hb. apply fin_B in Hx. apply fin_B in Hy.
  pose proof (Bplus_correct prec emax _ _ mode_NE (FP.Prim2B x) (FP.Prim2B y) Hx Hy) as H.
  unfold rnd, FR, two1024 in Hb. simpl round_mode in H.
  rewrite Rlt_bool_true in H by exact Hb.
  destruct H as (H1 & H2 & _). split.
  - unfold FR, rnd. rewrite FP.add_equiv. exact H1.
  - apply fin_B. rewrite FP.add_equiv. exact H2.
Qed.

Lemma sub_R : forall x y, fin x -> fin y -> Rabs (rnd (FR x - FR y)) < two1024 ->
    FR (x - y)%float = rnd (FR x - FR y) /\ fin (x - y)%float.
Proof.
  intros x y Hx Hy Hb. apply fin_B in Hx. apply fin_B in Hy.
  pose proof (Bminus_correct prec emax _ _ mode_NE (FP.Prim2B x) (FP.Prim2B y) Hx Hy) as H.
  unfold rnd, FR, two1024 in Hb. simpl round_mode in H.
  rewrite Rlt_bool_true in H by exact Hb.
  destruct H as (H1 & H2 & _). split.
  - unfold FR, rnd. rewrite FP.sub_equiv. exact H1.
  - apply fin_B. rewrite FP.sub_equiv. exact H2.
Qed.

Lemma mul_R : forall x y, fin x -> fin y -> Rabs (rnd (FR x * FR y)) < two1024 ->
    FR (x * y)%float = rnd (FR x * FR y) /\ fin (x * y)%float.
Proof.
  intros x y Hx Hy Hb. apply fin_B in Hx. apply fin_B in Hy.
  pose proof (Bmult_correct prec emax _ _ mode_NE (FP.Prim2B x) (FP.Prim2B y)) as H.
  unfold rnd, FR, two1024 in Hb. simpl round_mode in H.
  rewrite Rlt_bool_true in H by exact Hb.
  destruct H as (H1 & H2 & _). split.
  - unfold FR, rnd. rewrite FP.mul_equiv. exact H1.
  - apply fin_B. rewrite FP.mul_equiv, H2, Hx, Hy. reflexivity.
Qed.

Lemma div_R : forall x y, fin x -> FR y <> 0 -> Rabs (rnd (FR x / FR y)) < two1024 ->
    FR (x / y)%float = rnd (FR x / FR y) /\ fin (x / y)%float.
Proof.
  intros x y Hx Hy Hb. apply fin_B in Hx.
  pose proof (Bdiv_correct prec emax _ _ mode_NE (FP.Prim2B x) (FP.Prim2B y) Hy) as H.
  unfold rnd, FR, two1024 in Hb. simpl round_mode in H.
  rewrite Rlt_bool_true in H by exact Hb.
  destruct H as (H1 & H2 & _). split.
  - unfold FR, rnd. rewrite FP.div_equiv. exact H1.
  - apply fin_B. rewrite FP.div_equiv, H2. exact Hx.
Qed.

(* ---------- closed constants ---------- *)
Ltac fr_const c :=
  rewrite (FR_SF c);
  let v := eval vm_compute in (Prim2SF c) in change (Prim2SF c) with v;
  unfold SF2R, F2R, Fnum, Fexp; simpl bpow; simpl; try lra.

Lemma FR_zero : FR 0%float = 0.  Proof. fr_const 0%float. Qed.
Lemma FR_nzero : FR (-0)%float = 0.  Proof. fr_const (-0)%float. Qed.
Lemma FR_one : FR 1%float = 1.  Proof. fr_const 1%float. Qed.
Lemma FR_mone : FR (-1)%float = -1.  Proof. fr_const (-1)%float. Qed.
Lemma FR_two : FR 2%float = 2.  Proof. fr_const 2%float. Qed.
Lemma FR_four : FR 4%float = 4.  Proof. fr_const 4%float. Qed.
Lemma FR_mfour : FR (-4)%float = -4.  Proof. fr_const (-4)%float. Qed.
Lemma FR_half : FR 0x1p-1%float = 0.5.  Proof. fr_const 0x1p-1%float. Qed.
Lemma FR_32nd : FR 0x1p-5%float = 0.03125.  Proof. fr_const 0x1p-5%float. Qed.
Lemma FR_16 : FR 16%float = 16.  Proof. fr_const 16%float. Qed.

Lemma fin_const : forall c, is_finite c = true -> fin c.
Proof. intros c H. exact H. Qed.
Ltac fin_c := apply fin_const; vm_compute; reflexivity.
