(* C08: the transliterated speciate puts every organism of a batch into the first species whose
   representative is nearest among the compatible ones, or founds a new species with the fresh id
   LastSpecies+1 exactly when no representative is compatible.  Everything is proved for an
   arbitrary distance function and an arbitrary order on distances that is transitive and
   negatively transitive on the values that occur (a strict weak order: true of < on the reals,
   and of < on binary64 values that are not NaN). *)
From NeatModel Require Import Res Speciate.
From Coq Require Import Lia.

Section Spec.
  Variables F G : Type.
  Variable ltb : F -> F -> bool.
  Variable is_zero : F -> bool.
  Variable maxv : F.
  Variable compat : G -> G -> F.
  Variable thr : F.
  Variable valid : F -> Prop.

  Hypothesis ltb_trans : forall a b c, valid a -> valid b -> valid c ->
    ltb a b = true -> ltb b c = true -> ltb a c = true.
  Hypothesis ltb_negtrans : forall a b c, valid a -> valid b -> valid c ->
    ltb a b = true -> ltb a c = true \/ ltb c b = true.
  Hypothesis compat_valid : forall g1 g2, valid (compat g1 g2).
  Hypothesis thr_valid : valid thr.
  Hypothesis maxv_valid : valid maxv.
  (* the threshold is not above the initial best value math.MaxFloat64 (true of every finite threshold) *)
  Hypothesis thr_le_max : ltb maxv thr = false.

  Local Notation organism := (organism G).
  Local Notation species := (species G).
  Local Notation population := (population G).
  Local Notation dist o r := (compat (o_genome o) (o_genome r)).
  Local Notation scan' := (scan ltb compat thr).
  Local Notation place' := (place ltb is_zero maxv compat thr).
  Local Notation loop' := (speciate_loop ltb is_zero maxv compat thr).
  Local Notation speciate' := (speciate ltb is_zero maxv compat thr).

  (* ---------- the scan keeps the first minimum among the compatible species ---------- *)

  Lemma scan_spec (o : organism) : forall (ss : list species) i best bestv, valid bestv ->
    (scan' o ss i best bestv = (best, bestv) /\
     forall s r, In s ss -> first_organism s = Some r ->
                 ltb (dist o r) thr = true -> ltb (dist o r) bestv = false)
    \/
    (exists S1 s S2 r, ss = S1 ++ s :: S2 /\ first_organism s = Some r /\
       scan' o ss i best bestv = (Some ((i + length S1)%nat, s), dist o r) /\
       ltb (dist o r) thr = true /\ ltb (dist o r) bestv = true /\
       (forall s' r', In s' S1 -> first_organism s' = Some r' ->
                      ltb (dist o r') thr = true -> ltb (dist o r) (dist o r') = true) /\
       (forall s' r', In s' S2 -> first_organism s' = Some r' ->
                      ltb (dist o r') thr = true -> ltb (dist o r') (dist o r) = false)).
  Proof.
    induction ss as [|s ss IH]; intros i best bestv Hv.
    - left. split; [reflexivity|]. intros s r [].
    - simpl. destruct (first_organism s) as [r0|] eqn:Er.
      + destruct (ltb (dist o r0) thr && ltb (dist o r0) bestv) eqn:Eb.
        * apply andb_true_iff in Eb. destruct Eb as [Hc1 Hc2].
          destruct (IH (S i) (Some (i, s)) (dist o r0) (compat_valid _ _))
            as [[Hs Hn] | [S1 [s1 [S2 [r1 [Hss [Hr1 [Hs [Ht [Hb [H1 H2]]]]]]]]]]].
          -- right. exists [], s, ss, r0. rewrite Hs. simpl length. rewrite Nat.add_0_r.
             repeat split; try assumption. intros s' r' [].
          -- right. exists (s :: S1), s1, S2, r1. rewrite Hs, Hss. simpl length. rewrite Nat.add_succ_r.
             repeat split; try assumption.
             ++ eapply ltb_trans; [| | |exact Hb|exact Hc2]; auto.
             ++ intros s' r' [<-|Hin] Hr' Ht'.
                ** rewrite Er in Hr'. injection Hr' as <-. exact Hb.
                ** now apply (H1 s' r').
        * destruct (IH (S i) best bestv Hv)
            as [[Hs Hn] | [S1 [s1 [S2 [r1 [Hss [Hr1 [Hs [Ht [Hb [H1 H2]]]]]]]]]]].
          -- left. split; [assumption|]. intros s' r' [<-|Hin] Hr' Ht'.
             ++ rewrite Er in Hr'. injection Hr' as <-. rewrite Ht' in Eb. exact Eb.
             ++ now apply (Hn s' r').
          -- right. exists (s :: S1), s1, S2, r1. rewrite Hs, Hss. simpl length. rewrite Nat.add_succ_r.
             repeat split; try assumption.
             intros s' r' [<-|Hin] Hr' Ht'.
             ++ rewrite Er in Hr'. injection Hr' as <-. rewrite Ht' in Eb. simpl in Eb.
                destruct (ltb_negtrans (dist o r1) bestv (dist o r0)) as [Hd|Hd]; auto.
                rewrite Hd in Eb. discriminate.
             ++ now apply (H1 s' r').
      + destruct (IH (S i) best bestv Hv)
          as [[Hs Hn] | [S1 [s1 [S2 [r1 [Hss [Hr1 [Hs [Ht [Hb [H1 H2]]]]]]]]]]].
        * left. split; [assumption|]. intros s' r' [<-|Hin] Hr' Ht'.
          -- rewrite Er in Hr'. discriminate.
          -- now apply (Hn s' r').
        * right. exists (s :: S1), s1, S2, r1. rewrite Hs, Hss. simpl length. rewrite Nat.add_succ_r.
          repeat split; try assumption.
          intros s' r' [<-|Hin] Hr' Ht'.
          -- rewrite Er in Hr'. discriminate.
          -- now apply (H1 s' r').
  Qed.

  Lemma add_at_app (o : organism) (S1 : list species) s S2 :
    add_at (length S1) o (S1 ++ s :: S2) = S1 ++ add_organism s o :: S2.
  Proof. induction S1 as [|a S1 IH]; simpl; [reflexivity|]. now rewrite IH. Qed.

  (* ---------- one organism ---------- *)

  Definition joined (p : population) (o : organism) (S1 : list species) (s : species) (S2 : list species) : population :=
    {| p_species := S1 ++ add_organism s o :: S2; p_last := p_last p;
       p_assign := p_assign p ++ [(o_key o, sp_id s)] |}.

  Lemma place_cases (p : population) (o : organism) : is_zero thr = false ->
    ((forall s r, In s (p_species p) -> first_organism s = Some r -> ltb (dist o r) thr = false) /\
     place' p o = (create_first_species p o, Ok tt))
    \/
    (exists S1 s S2 r, p_species p = S1 ++ s :: S2 /\ first_organism s = Some r /\
       ltb (dist o r) thr = true /\
       (forall s' r', In s' S1 -> first_organism s' = Some r' ->
                      ltb (dist o r') thr = true -> ltb (dist o r) (dist o r') = true) /\
       (forall s' r', In s' S2 -> first_organism s' = Some r' ->
                      ltb (dist o r') thr = true -> ltb (dist o r') (dist o r) = false) /\
       place' p o = (joined p o S1 s S2, Ok tt)).
  Proof.
    intros Hz. unfold place. destruct (p_species p) as [|s0 ss0] eqn:Ess.
    - left. split; [intros s r []|reflexivity].
    - rewrite Hz.
      destruct (scan_spec o (s0 :: ss0) 0 None maxv maxv_valid)
        as [[Hs Hn] | [S1 [s1 [S2 [r1 [Hss [Hr1 [Hs [Ht [Hb [H1 H2]]]]]]]]]]].
      + left. rewrite Hs. simpl fst. split; [|reflexivity].
        intros s r Hin Hr. destruct (ltb (dist o r) thr) eqn:Ht; [|reflexivity].
        pose proof (Hn s r Hin Hr Ht) as Hm.
        destruct (ltb_negtrans (dist o r) thr maxv) as [Hd|Hd]; auto; congruence.
      + right. exists S1, s1, S2, r1. rewrite Hs. simpl fst. simpl Nat.add.
        repeat split; try assumption.
        unfold joined. rewrite Hss, add_at_app. reflexivity.
  Qed.

  (* no representative is closer than the threshold: a new species with the fresh id *)
  Lemma place_founds (p : population) (o : organism) : is_zero thr = false ->
    (forall s r, In s (p_species p) -> first_organism s = Some r -> ltb (dist o r) thr = false) ->
    place' p o = (create_first_species p o, Ok tt).
  Proof.
    intros Hz Hnone. destruct (place_cases p o Hz) as [[_ H]|[S1 [s [S2 [r [Hss [Hr [Ht _]]]]]]]]; [assumption|].
    rewrite (Hnone s r) in Ht; [discriminate| |assumption]. rewrite Hss. apply in_or_app. right. now left.
  Qed.

  (* some representative is closer than the threshold: the first species at minimum distance *)
  Lemma place_joins (p : population) (o : organism) : is_zero thr = false ->
    (exists s r, In s (p_species p) /\ first_organism s = Some r /\ ltb (dist o r) thr = true) ->
    exists S1 s S2 r, p_species p = S1 ++ s :: S2 /\ first_organism s = Some r /\
       ltb (dist o r) thr = true /\
       (forall s' r', In s' S1 -> first_organism s' = Some r' ->
                      ltb (dist o r') thr = true -> ltb (dist o r) (dist o r') = true) /\
       (forall s' r', In s' S2 -> first_organism s' = Some r' ->
                      ltb (dist o r') thr = true -> ltb (dist o r') (dist o r) = false) /\
       place' p o = (joined p o S1 s S2, Ok tt).
  Proof.
    intros Hz [s [r [Hin [Hr Ht]]]]. destruct (place_cases p o Hz) as [[Hnone _]|H]; [|assumption].
    rewrite (Hnone s r Hin Hr) in Ht. discriminate.
  Qed.

  Lemma place_ok (p : population) (o : organism) : is_zero thr = false -> snd (place' p o) = Ok tt.
  Proof.
    intros Hz. destruct (place_cases p o Hz) as [[_ H]|[S1 [s [S2 [r [_ [_ [_ [_ [_ H]]]]]]]]]]; now rewrite H.
  Qed.

  (* ---------- the batch ---------- *)

  Lemma loop_cons (p : population) o rest : is_zero thr = false ->
    loop' p (o :: rest) = loop' (fst (place' p o)) rest.
  Proof.
    intros Hz. simpl. pose proof (place_ok p o Hz) as Hok.
    destruct (place' p o) as [p' e]. simpl in Hok. subst e. reflexivity.
  Qed.

  Lemma loop_ok : is_zero thr = false -> forall batch (p : population), snd (loop' p batch) = Ok tt.
  Proof.
    intros Hz. induction batch as [|o rest IH]; intros p; [reflexivity|].
    rewrite loop_cons by assumption. apply IH.
  Qed.

  Lemma loop_app : is_zero thr = false -> forall pre post (p : population),
    loop' p (pre ++ post) = loop' (fst (loop' p pre)) post.
  Proof.
    intros Hz. induction pre as [|o pre IH]; intros post p; [reflexivity|].
    simpl app. rewrite !loop_cons by assumption. apply IH.
  Qed.

  Lemma loop_snoc : is_zero thr = false -> forall pre o (p : population),
    fst (loop' p (pre ++ [o])) = fst (place' (fst (loop' p pre)) o).
  Proof. intros Hz pre o p. rewrite loop_app by assumption. now rewrite loop_cons by assumption. Qed.

  Lemma speciate_turn : is_zero thr = false -> forall pre o post (p : population),
    speciate' p (pre ++ o :: post) = (fst (loop' (fst (loop' p (pre ++ [o]))) post), Ok tt).
  Proof.
    intros Hz pre o post p.
    assert (E : speciate' p (pre ++ o :: post) = loop' p (pre ++ o :: post)) by (destruct pre; reflexivity).
    rewrite E. replace (pre ++ o :: post) with ((pre ++ [o]) ++ post) by (now rewrite <- app_assoc).
    rewrite loop_app by assumption.
    pose proof (loop_ok Hz post (fst (loop' p (pre ++ [o])))) as Hok.
    destruct (loop' (fst (loop' p (pre ++ [o]))) post) as [pf e]. simpl in Hok. now subst e.
  Qed.

  (* every organism of the batch, at its turn *)
  Lemma each_organism_placed : is_zero thr = false -> forall (p : population) pre o post,
    let p0 := fst (loop' p pre) in
    let p1 := fst (loop' p (pre ++ [o])) in
    speciate' p (pre ++ o :: post) = (fst (loop' p1 post), Ok tt) /\
    ((forall s r, In s (p_species p0) -> first_organism s = Some r -> ltb (dist o r) thr = false) ->
     p1 = create_first_species p0 o) /\
    ((exists s r, In s (p_species p0) /\ first_organism s = Some r /\ ltb (dist o r) thr = true) ->
     exists S1 s S2 r, p_species p0 = S1 ++ s :: S2 /\ first_organism s = Some r /\
       ltb (dist o r) thr = true /\
       (forall s' r', In s' S1 -> first_organism s' = Some r' ->
                      ltb (dist o r') thr = true -> ltb (dist o r) (dist o r') = true) /\
       (forall s' r', In s' S2 -> first_organism s' = Some r' ->
                      ltb (dist o r') thr = true -> ltb (dist o r') (dist o r) = false) /\
       p1 = joined p0 o S1 s S2).
  Proof.
    intros Hz p pre o post p0 p1. split; [now apply speciate_turn|].
    unfold p1. rewrite loop_snoc by assumption. fold p0. split.
    - intros Hnone. now rewrite place_founds.
    - intros Hsome. destruct (place_joins p0 o Hz Hsome) as [S1 [s [S2 [r [H1 [H2 [H3 [H4 [H5 H6]]]]]]]]].
      exists S1, s, S2, r. rewrite H6. repeat split; assumption.
  Qed.

  (* ---------- species only grow at the end; representatives are never displaced ---------- *)

  Definition extends (s s' : species) : Prop := sp_id s' = sp_id s /\ exists e, sp_orgs s' = sp_orgs s ++ e.
  Definition grows (ss ss' : list species) : Prop :=
    exists kept news, ss' = kept ++ news /\ Forall2 extends ss kept.

  Lemma extends_refl s : extends s s.
  Proof. split; [reflexivity|]. exists []. now rewrite app_nil_r. Qed.
  Lemma extends_trans s1 s2 s3 : extends s1 s2 -> extends s2 s3 -> extends s1 s3.
  Proof.
    intros [I1 [e1 E1]] [I2 [e2 E2]]. split; [congruence|]. exists (e1 ++ e2). now rewrite E2, E1, app_assoc.
  Qed.
  Lemma Forall2_extends_refl ss : Forall2 extends ss ss.
  Proof. induction ss; constructor; [apply extends_refl|assumption]. Qed.

  Lemma grows_refl ss : grows ss ss.
  Proof. exists ss, []. split; [now rewrite app_nil_r|apply Forall2_extends_refl]. Qed.

  Lemma grows_trans ss1 ss2 ss3 : grows ss1 ss2 -> grows ss2 ss3 -> grows ss1 ss3.
  Proof.
    intros [k1 [n1 [E1 F1]]] [k2 [n2 [E2 F2]]]. subst ss2 ss3.
    apply Forall2_app_inv_l in F2. destruct F2 as [k2a [k2b [Fa [Fb ->]]]].
    exists k2a, (k2b ++ n2). split; [now rewrite app_assoc|].
    clear Fb. revert k2a Fa. induction F1 as [|a b l l' Hab F1 IH]; intros k2a Fa.
    - inversion Fa. constructor.
    - inversion Fa; subst. constructor; [eapply extends_trans; eassumption|now apply IH].
  Qed.

  Lemma place_grows (p : population) o : is_zero thr = false ->
    grows (p_species p) (p_species (fst (place' p o))).
  Proof.
    intros Hz. destruct (place_cases p o Hz) as [[_ H]|[S1 [s [S2 [r [Hss [_ [_ [_ [_ H]]]]]]]]]]; rewrite H; simpl.
    - exists (p_species p), [add_organism {| sp_id := p_last p + 1; sp_orgs := [] |} o].
      split; [reflexivity|apply Forall2_extends_refl].
    - rewrite Hss. exists (S1 ++ add_organism s o :: S2), []. split; [now rewrite app_nil_r|].
      apply Forall2_app; [apply Forall2_extends_refl|]. constructor; [|apply Forall2_extends_refl].
      split; [reflexivity|]. now exists [o].
  Qed.

  Lemma loop_grows : is_zero thr = false -> forall batch (p : population),
    grows (p_species p) (p_species (fst (loop' p batch))).
  Proof.
    intros Hz. induction batch as [|o rest IH]; intros p; [apply grows_refl|].
    rewrite loop_cons by assumption. eapply grows_trans; [apply place_grows; assumption|apply IH].
  Qed.

  Lemma grows_nth ss ss' : grows ss ss' -> forall i s, nth_error ss i = Some s ->
    exists s', nth_error ss' i = Some s' /\ extends s s'.
  Proof.
    intros [kept [news [-> F2]]]. induction F2 as [|a b l l' Hab F2 IH]; intros i s Hn.
    - destruct i; discriminate.
    - destruct i as [|i]; simpl in *.
      + injection Hn as <-. exists b. split; [reflexivity|assumption].
      + now apply IH.
  Qed.

  Lemma extends_first s s' r : extends s s' -> first_organism s = Some r -> first_organism s' = Some r.
  Proof.
    intros [_ [e E0]]. unfold first_organism. rewrite E0. destruct (sp_orgs s); [discriminate|]. auto.
  Qed.

  Lemma representatives_kept : is_zero thr = false -> forall batch (p : population) i s r,
    nth_error (p_species p) i = Some s -> first_organism s = Some r ->
    exists s', nth_error (p_species (fst (loop' p batch))) i = Some s' /\
               sp_id s' = sp_id s /\ first_organism s' = Some r /\
               exists e, sp_orgs s' = sp_orgs s ++ e.
  Proof.
    intros Hz batch p i s r Hn Hr.
    destruct (grows_nth _ _ (loop_grows Hz batch p) i s Hn) as [s' [Hn' Hext]].
    exists s'. split; [assumption|]. split; [apply Hext|]. split; [now apply (extends_first s s')|apply Hext].
  Qed.

  (* ---------- founder or within the threshold ---------- *)

  Lemma nth_error_middle {A} (l1 : list A) a l2 : nth_error (l1 ++ a :: l2) (length l1) = Some a.
  Proof. induction l1; simpl; auto. Qed.

  Lemma founder_or_within : is_zero thr = false -> forall pre o post (p : population),
    let p0 := fst (loop' p pre) in
    let pf := fst (speciate' p (pre ++ o :: post)) in
    exists i s, nth_error (p_species pf) i = Some s /\ In o (sp_orgs s) /\
      ((first_organism s = Some o /\ sp_id s = p_last p0 + 1 /\ i = length (p_species p0)) \/
       (exists s0 r, nth_error (p_species p0) i = Some s0 /\ first_organism s0 = Some r /\
                     first_organism s = Some r /\ ltb (dist o r) thr = true)).
  Proof.
    intros Hz pre o post p p0 pf. unfold pf. rewrite speciate_turn by assumption. simpl fst.
    rewrite loop_snoc by assumption. fold p0.
    pose proof (loop_grows Hz post (fst (place' p0 o))) as Hg.
    destruct (place_cases p0 o Hz) as [[_ H]|[S1 [s [S2 [r [Hss [Hr [Ht [_ [_ H]]]]]]]]]]; rewrite H in *; simpl fst in *.
    - simpl p_species in Hg.
      destruct (grows_nth _ _ Hg (length (p_species p0)) _ (nth_error_middle (p_species p0) _ [])) as [s' [Hn [Hid [e He]]]].
      exists (length (p_species p0)), s'. split; [assumption|]. simpl in He, Hid. split.
      + rewrite He. now left.
      + left. split; [|split; [assumption|reflexivity]]. unfold first_organism. now rewrite He.
    - simpl p_species in Hg.
      destruct (grows_nth _ _ Hg (length S1) _ (nth_error_middle S1 _ S2)) as [s' [Hn [Hid [e He]]]].
      exists (length S1), s'. split; [assumption|]. simpl in He. split.
      + rewrite He. apply in_or_app. left. apply in_or_app. right. now left.
      + right. exists s, r. split; [rewrite Hss; apply nth_error_middle|]. split; [assumption|]. split; [|assumption].
        apply (extends_first (add_organism s o) s').
        * split; [assumption|now exists e].
        * unfold first_organism in *. simpl. destruct (sp_orgs s); [discriminate|]. assumption.
  Qed.

  (* ---------- ids: never above LastSpecies, never repeated ---------- *)

  Lemma NoDup_snoc {A} (l : list A) x : NoDup l -> ~ In x l -> NoDup (l ++ [x]).
  Proof.
    induction l as [|a l IH]; intros Hnd Hx; simpl.
    - constructor; [intros []|constructor].
    - inversion Hnd; subst. constructor.
      + intros Hin. apply in_app_or in Hin. destruct Hin as [Hin|[<-|[]]]; [contradiction|]. apply Hx. now left.
      + apply IH; [assumption|]. intros Hin. apply Hx. now right.
  Qed.

  Definition ids_ok (p : population) : Prop :=
    (forall s, In s (p_species p) -> sp_id s <= p_last p) /\ NoDup (map sp_id (p_species p)).

  Lemma place_ids (p : population) o : is_zero thr = false -> ids_ok p ->
    ids_ok (fst (place' p o)) /\ p_last p <= p_last (fst (place' p o)).
  Proof.
    intros Hz [Hle Hnd].
    destruct (place_cases p o Hz) as [[_ H]|[S1 [s [S2 [r [Hss [_ [_ [_ [_ H]]]]]]]]]]; rewrite H; simpl fst.
    - split; [|simpl; lia]. split; simpl.
      + intros s Hin. apply in_app_or in Hin. destruct Hin as [Hin|[<-|[]]]; [specialize (Hle s Hin); lia|simpl; lia].
      + rewrite map_app. simpl. apply NoDup_snoc; [assumption|].
        intros Hin. apply in_map_iff in Hin. destruct Hin as [s [Hid Hin]]. specialize (Hle s Hin). lia.
    - split; [|simpl; lia]. unfold joined. split; simpl.
      + intros s' Hin. apply in_app_or in Hin. destruct Hin as [Hin|[<-|Hin]].
        * apply Hle. rewrite Hss. apply in_or_app. now left.
        * simpl. apply Hle. rewrite Hss. apply in_or_app. right. now left.
        * apply Hle. rewrite Hss. apply in_or_app. right. now right.
      + rewrite Hss in Hnd. rewrite map_app in *. exact Hnd.
  Qed.

  Lemma loop_ids : is_zero thr = false -> forall batch (p : population), ids_ok p ->
    ids_ok (fst (loop' p batch)) /\ p_last p <= p_last (fst (loop' p batch)).
  Proof.
    intros Hz. induction batch as [|o rest IH]; intros p Hp; [split; [assumption|simpl; lia]|].
    rewrite loop_cons by assumption. destruct (place_ids p o Hz Hp) as [Hp' Hl].
    destruct (IH _ Hp') as [Hf Hl']. split; [assumption|lia].
  Qed.
End Spec.
