(* C19, statistics: the two real-number instances of the number structure of model/Stats.v, the
   lifting lemmas between them, and the specifications of Min/Max/Sum/Mean/Variance/StdDev over
   the reals.  Quantiles are in StatsQuantile.v, totality in StatsTotal.v. *)
From NeatModel Require Import Res Stats.
From Coq Require Import List ZArith Bool Reals Lra Lia Permutation.
Import ListNotations.
Open Scope R_scope.

(* ---------- plain reals: arithmetic without NaN (internal device of the proofs) ---------- *)

Definition Rltb (x y : R) : bool := if Rlt_dec x y then true else false.
Definition Rleb (x y : R) : bool := if Rle_dec x y then true else false.
Definition Reqb (x y : R) : bool := if Req_EM_T x y then true else false.

Lemma Rltb_true x y : Rltb x y = true <-> x < y.
Proof. unfold Rltb. destruct (Rlt_dec x y); split; intros; auto; discriminate. Qed.
Lemma Rltb_false x y : Rltb x y = false <-> y <= x.
Proof. unfold Rltb. destruct (Rlt_dec x y); split; intros; auto; try discriminate; lra. Qed.
Lemma Rleb_true x y : Rleb x y = true <-> x <= y.
Proof. unfold Rleb. destruct (Rle_dec x y); split; intros; auto; discriminate. Qed.
Lemma Rleb_false x y : Rleb x y = false <-> y < x.
Proof. unfold Rleb. destruct (Rle_dec x y); split; intros; auto; try discriminate; lra. Qed.
Lemma Reqb_true x y : Reqb x y = true <-> x = y.
Proof. unfold Reqb. destruct (Req_EM_T x y); split; intros; auto; discriminate. Qed.

Definition rnum : Stats.num R := {|
  n_zero := 0; n_one := 1;
  n_add := Rplus; n_sub := Rminus; n_mul := Rmult; n_div := Rdiv; n_sqrt := sqrt;
  n_ofZ := IZR; n_frac := fun m d => IZR m / IZR d;
  n_ltb := Rltb; n_leb := Rleb; n_eqb := Reqb;
  n_isnan := fun _ => false; n_nan := 0
|}.

(* ---------- reals with an explicit "not a number": None ----------
   None stands for every float that is not a real number; an operation yields None when an
   operand is None, on division by zero and on the square root of a negative number; every
   comparison with None is false (as for NaN). *)

Definition xr : Type := option R.

Definition xlift2 (f : R -> R -> R) (a b : xr) : xr :=
  match a, b with Some x, Some y => Some (f x y) | _, _ => None end.
Definition xdiv (a b : xr) : xr :=
  match a, b with
  | Some x, Some y => if Req_EM_T y 0 then None else Some (x / y)
  | _, _ => None
  end.
Definition xsqrt (a : xr) : xr :=
  match a with Some x => if Rlt_dec x 0 then None else Some (sqrt x) | None => None end.
Definition xcmp (f : R -> R -> bool) (a b : xr) : bool :=
  match a, b with Some x, Some y => f x y | _, _ => false end.
Definition xisnan (a : xr) : bool := match a with None => true | Some _ => false end.

Definition xnum : Stats.num xr := {|
  n_zero := Some 0; n_one := Some 1;
  n_add := xlift2 Rplus; n_sub := xlift2 Rminus; n_mul := xlift2 Rmult; n_div := xdiv; n_sqrt := xsqrt;
  n_ofZ := fun z => Some (IZR z); n_frac := fun m d => xdiv (Some (IZR m)) (Some (IZR d));
  n_ltb := xcmp Rltb; n_leb := xcmp Rleb; n_eqb := xcmp Reqb;
  n_isnan := xisnan; n_nan := None
|}.

(* a series of real numbers as a series over xr *)
Definition inj (xs : list R) : list xr := map (@Some R) xs.

Lemma inj_length xs : length (inj xs) = length xs.
Proof. apply map_length. Qed.
Lemma inj_len xs : len (inj xs) = len xs.
Proof. unfold len. now rewrite inj_length. Qed.
Lemma inj_nil xs : inj xs = [] -> xs = [].
Proof. destruct xs; [reflexivity | discriminate]. Qed.

(* ---------- textbook definitions ---------- *)

Fixpoint sumR (xs : list R) : R := match xs with [] => 0 | x :: xs' => x + sumR xs' end.
Definition nR (xs : list R) : R := INR (length xs).
Definition meanR (xs : list R) : R := sumR xs / nR xs.
(* unbiased sample variance *)
Definition varR (xs : list R) : R := sumR (map (fun x => (x - meanR xs) * (x - meanR xs)) xs) / (nR xs - 1).

Lemma sumR_app a b : sumR (a ++ b) = sumR a + sumR b.
Proof. induction a as [|x a IH]; simpl; [lra | rewrite IH; lra]. Qed.

Lemma sumR_perm a b : Permutation a b -> sumR a = sumR b.
Proof. induction 1; simpl; lra. Qed.

Lemma len_INR (xs : list R) : IZR (len xs) = nR xs.
Proof. unfold len, nR. now rewrite <- INR_IZR_INZ. Qed.

Lemma nR_pos (x : R) xs : 0 < nR (x :: xs).
Proof. unfold nR. apply lt_0_INR. simpl. lia. Qed.

Lemma nR_cons (x : R) xs : nR (x :: xs) = nR xs + 1.
Proof. unfold nR. simpl length. rewrite S_INR. lra. Qed.

Lemma nR_nonneg (xs : list R) : 0 <= nR xs.
Proof. unfold nR. apply pos_INR. Qed.

(* ======================= Sum ======================= *)

Definition tot2 (s : R * R) : R := fst s + snd s.
Definition tot8 (st : acc4 (F := R)) : R :=
  let '(s0, s1, s2, s3) := st in tot2 s0 + tot2 s1 + tot2 s2 + tot2 s3.

Lemma add2_R s l :
  let '(s', l') := add2 rnum s l in
  tot2 s' + sumR l' = tot2 s + sumR l /\
  ((2 <= length l)%nat -> length l' = (length l - 2)%nat) /\ (length l' <= length l)%nat.
Proof.
  destruct s as [a b]. destruct l as [|x [|y l]]; simpl; unfold tot2; simpl.
  - repeat split; try lra; lia.
  - repeat split; try lra; lia.
  - repeat split; try lra; lia.
Qed.

Lemma add8_R st l :
  let '(st', l') := add8 rnum st l in
  tot8 st' + sumR l' = tot8 st + sumR l /\
  ((8 <= length l)%nat -> length l' = (length l - 8)%nat).
Proof.
  destruct st as [[[s0 s1] s2] s3]. unfold add8.
  pose proof (add2_R s0 l) as H0. destruct (add2 rnum s0 l) as [t0 l0].
  pose proof (add2_R s1 l0) as H1. destruct (add2 rnum s1 l0) as [t1 l1].
  pose proof (add2_R s2 l1) as H2. destruct (add2 rnum s2 l1) as [t2 l2].
  pose proof (add2_R s3 l2) as H3. destruct (add2 rnum s3 l2) as [t3 l3].
  destruct H0 as (E0 & L0 & _), H1 as (E1 & L1 & _), H2 as (E2 & L2 & _), H3 as (E3 & L3 & _).
  split.
  - unfold tot8. lra.
  - intros Hl. lia.
Qed.

Lemma blocks8_R k : forall st l,
  (8 * k <= length l)%nat ->
  let '(st', l') := blocks8 rnum k st l in
  tot8 st' + sumR l' = tot8 st + sumR l /\ length l' = (length l - 8 * k)%nat.
Proof.
  induction k as [|k IH]; intros st l Hk; simpl blocks8.
  - split; [reflexivity | lia].
  - pose proof (add8_R st l) as H8. destruct (add8 rnum st l) as [st1 l1].
    destruct H8 as (E8 & L8).
    specialize (IH st1 l1). destruct (blocks8 rnum k st1 l1) as [st2 l2].
    destruct IH as (E & L); [lia|]. split; [lra | lia].
Qed.

Lemma testbit_low n m j : (0 <= j < 3)%Z -> (n mod 8 = m)%Z -> Z.testbit n j = Z.testbit m j.
Proof.
  intros Hj <-. change 8%Z with (2 ^ 3)%Z. symmetry. apply Z.mod_pow2_bits_low. lia.
Qed.

Lemma sum_body_R s0 l : sum_body rnum s0 l = tot2 s0 + sumR l.
Proof.
  unfold sum_body. set (n := len l).
  assert (Hn : (0 <= n)%Z) by (unfold n, len; lia).
  pose proof (blocks8_R (Z.to_nat (n / 8)) (s0, (n_zero rnum, n_zero rnum), (n_zero rnum, n_zero rnum), (n_zero rnum, n_zero rnum)) l) as HB.
  assert (Hk : (8 * Z.to_nat (n / 8) <= length l)%nat).
  { unfold n, len in *. pose proof (Z.mul_div_le (Z.of_nat (length l)) 8). lia. }
  specialize (HB Hk).
  destruct (blocks8 rnum (Z.to_nat (n / 8)) _ l) as [[[[t0 t1] t2] t3] l1].
  destruct HB as (E & L).
  assert (Hm : (n mod 8 = Z.of_nat (length l1))%Z).
  { rewrite L. unfold n, len. pose proof (Z.div_mod (Z.of_nat (length l)) 8).
    pose proof (Z.mod_pos_bound (Z.of_nat (length l)) 8).
    assert (0 <= Z.of_nat (length l) / 8)%Z by (apply Z.div_pos; lia). lia. }
  assert (Hlt : (length l1 < 8)%nat).
  { pose proof (Z.mod_pos_bound n 8). lia. }
  rewrite (testbit_low n _ 2 ltac:(lia) Hm), (testbit_low n _ 1 ltac:(lia) Hm), (testbit_low n _ 0 ltac:(lia) Hm).
  unfold tot8, tot2 in E. simpl in E.
  destruct t0 as [a0 b0], t1 as [a1 b1], t2 as [a2 b2], t3 as [a3 b3]. simpl in E.
  destruct l1 as [|x1 [|x2 [|x3 [|x4 [|x5 [|x6 [|x7 [|x8 l1]]]]]]]];
    simpl in Hlt; try lia; simpl in E |- *; unfold tot2; simpl; lra.
Qed.

Lemma sum_asm_R al xs : sum_asm rnum al xs = sumR xs.
Proof.
  unfold sum_asm. destruct xs as [|x0 rest]; [reflexivity|].
  destruct al.
  - rewrite sum_body_R. unfold tot2. simpl. lra.
  - destruct rest as [|x1 rest]; [simpl; lra|].
    rewrite sum_body_R. unfold tot2. simpl. lra.
Qed.

(* lifting: on real inputs the NaN-aware sum is the plain sum *)
Definition inj2 (s : R * R) : xr * xr := (Some (fst s), Some (snd s)).
Definition inj8 (st : acc4 (F := R)) : acc4 (F := xr) :=
  let '(s0, s1, s2, s3) := st in (inj2 s0, inj2 s1, inj2 s2, inj2 s3).

Lemma add2_lift s l :
  add2 xnum (inj2 s) (inj l) = (inj2 (fst (add2 rnum s l)), inj (snd (add2 rnum s l))).
Proof. destruct s as [a b]. destruct l as [|x [|y l]]; reflexivity. Qed.

Lemma add8_lift st l :
  add8 xnum (inj8 st) (inj l) = (inj8 (fst (add8 rnum st l)), inj (snd (add8 rnum st l))).
Proof.
  destruct st as [[[s0 s1] s2] s3]. unfold add8, inj8.
  rewrite (add2_lift s0 l). destruct (add2 rnum s0 l) as [t0 l0]. simpl fst; simpl snd.
  rewrite (add2_lift s1 l0). destruct (add2 rnum s1 l0) as [t1 l1]. simpl fst; simpl snd.
  rewrite (add2_lift s2 l1). destruct (add2 rnum s2 l1) as [t2 l2]. simpl fst; simpl snd.
  rewrite (add2_lift s3 l2). destruct (add2 rnum s3 l2) as [t3 l3]. reflexivity.
Qed.

Lemma blocks8_lift k : forall st l,
  blocks8 xnum k (inj8 st) (inj l) = (inj8 (fst (blocks8 rnum k st l)), inj (snd (blocks8 rnum k st l))).
Proof.
  induction k as [|k IH]; intros st l; simpl blocks8; [reflexivity|].
  rewrite add8_lift. destruct (add8 rnum st l) as [st1 l1]. simpl fst; simpl snd. apply IH.
Qed.

Lemma sum_body_lift s0 l : sum_body xnum (inj2 s0) (inj l) = Some (sum_body rnum s0 l).
Proof.
  unfold sum_body. rewrite inj_len.
  change (inj2 s0, (n_zero xnum, n_zero xnum), (n_zero xnum, n_zero xnum), (n_zero xnum, n_zero xnum))
    with (inj8 (s0, (n_zero rnum, n_zero rnum), (n_zero rnum, n_zero rnum), (n_zero rnum, n_zero rnum))).
  rewrite blocks8_lift.
  destruct (blocks8 rnum (Z.to_nat (len l / 8)) _ l) as [[[[t0 t1] t2] t3] l1].
  simpl fst; simpl snd. unfold inj8.
  change (padd xnum (inj2 t0) (inj2 t3)) with (inj2 (padd rnum t0 t3)).
  change (padd xnum (inj2 t1) (inj2 t2)) with (inj2 (padd rnum t1 t2)).
  destruct (Z.testbit (len l) 2).
  - rewrite add2_lift. destruct (add2 rnum (padd rnum t0 t3) l1) as [u0 l2]. simpl fst; simpl snd.
    rewrite add2_lift. destruct (add2 rnum (padd rnum t1 t2) l2) as [u1 l3]. simpl fst; simpl snd.
    change (padd xnum (inj2 u0) (inj2 u1)) with (inj2 (padd rnum u0 u1)).
    destruct (Z.testbit (len l) 1).
    + rewrite add2_lift. destruct (add2 rnum (padd rnum u0 u1) l3) as [v0 l4]. simpl fst; simpl snd.
      destruct l4 as [|w l4]; simpl; [reflexivity|]. destruct (Z.odd (len l)); reflexivity.
    + destruct l3 as [|w l3]; simpl; [reflexivity|]. destruct (Z.odd (len l)); reflexivity.
  - change (padd xnum (inj2 (padd rnum t0 t3)) (inj2 (padd rnum t1 t2)))
      with (inj2 (padd rnum (padd rnum t0 t3) (padd rnum t1 t2))).
    destruct (Z.testbit (len l) 1).
    + rewrite add2_lift. destruct (add2 rnum _ l1) as [v0 l4]. simpl fst; simpl snd.
      destruct l4 as [|w l4]; simpl; [reflexivity|]. destruct (Z.odd (len l)); reflexivity.
    + destruct l1 as [|w l1]; simpl; [reflexivity|]. destruct (Z.odd (len l)); reflexivity.
Qed.

Lemma sum_asm_lift al xs : sum_asm xnum al (inj xs) = Some (sum_asm rnum al xs).
Proof.
  unfold sum_asm. destruct xs as [|x0 rest]; [reflexivity|]. simpl inj.
  destruct al.
  - change (Some x0 :: inj rest) with (inj (x0 :: rest)).
    change (n_zero xnum, n_zero xnum) with (inj2 (n_zero rnum, n_zero rnum)). apply sum_body_lift.
  - destruct rest as [|x1 rest]; [reflexivity|].
    change (inj (x1 :: rest)) with (Some x1 :: inj rest).
    change (Some x1 :: inj rest) with (inj (x1 :: rest)).
    change (n_add xnum (n_zero xnum) (Some x0), n_zero xnum) with (inj2 (n_add rnum (n_zero rnum) x0, n_zero rnum)).
    apply sum_body_lift.
Qed.

(* Sum: the sum of the elements, whatever the alignment; 0 for the empty series *)
Theorem sum_spec al xs : F_sum xnum al (inj xs) = Some (sumR xs).
Proof. unfold F_sum. now rewrite sum_asm_lift, sum_asm_R. Qed.

(* ======================= Mean ======================= *)

Lemma xdiv_some x y : y <> 0 -> xdiv (Some x) (Some y) = Some (x / y).
Proof. intros H. unfold xdiv. destruct (Req_EM_T y 0); [contradiction | reflexivity]. Qed.

Lemma st_mean_spec al x xs : st_mean xnum al (inj (x :: xs)) = Some (meanR (x :: xs)).
Proof.
  unfold st_mean. rewrite sum_asm_lift, sum_asm_R, inj_len. cbn [n_div n_ofZ xnum].
  rewrite len_INR. rewrite xdiv_some; [reflexivity|]. pose proof (nR_pos x xs). lra.
Qed.

Theorem mean_spec al xs : xs <> [] -> F_mean xnum al (inj xs) = Some (meanR xs).
Proof. destruct xs as [|x xs]; [congruence|]. intros _. apply st_mean_spec. Qed.

Theorem mean_empty al : F_mean xnum al [] = None.
Proof. reflexivity. Qed.

(* ======================= Variance, standard deviation ======================= *)

Lemma mv_loop_spec mu : forall xs a b,
  mv_loop xnum (inj xs) (Some mu) (Some a) (Some b) =
  (Some (a + sumR (map (fun x => (x - mu) * (x - mu)) xs)), Some (b + sumR (map (fun x => x - mu) xs))).
Proof.
  induction xs as [|x xs IH]; intros a b; simpl.
  - now rewrite !Rplus_0_r.
  - change (inj xs) with (map (@Some R) xs) in IH. rewrite IH. f_equal; f_equal; lra.
Qed.

Lemma sum_dev mu xs : sumR (map (fun x => x - mu) xs) = sumR xs - nR xs * mu.
Proof.
  induction xs as [|x xs IH]; [unfold nR; simpl; lra|].
  rewrite nR_cons. simpl. rewrite IH. lra.
Qed.

(* the compensation term of the two-pass algorithm is exactly 0 over the reals *)
Lemma compensation_zero xs : xs <> [] -> sumR (map (fun x => x - meanR xs) xs) = 0.
Proof.
  intros H. rewrite sum_dev. unfold meanR. destruct xs as [|x xs]; [congruence|].
  pose proof (nR_pos x xs). field. lra.
Qed.

Lemma st_mean_variance_spec al x xs :
  st_mean_variance xnum al (inj (x :: xs)) =
  (Some (meanR (x :: xs)),
   if Req_EM_T (nR (x :: xs) - 1) 0 then None else Some (varR (x :: xs))).
Proof.
  unfold st_mean_variance. rewrite st_mean_spec.
  change (n_zero xnum) with (Some 0).
  rewrite mv_loop_spec. rewrite compensation_zero by discriminate.
  rewrite inj_len. cbn [n_ofZ n_mul n_div n_sub n_one xnum]. rewrite len_INR.
  pose proof (nR_pos x xs) as Hp.
  unfold xlift2 at 2. rewrite xdiv_some by lra. unfold xlift2.
  f_equal. unfold xdiv. destruct (Req_EM_T (nR (x :: xs) - 1) 0); [reflexivity|].
  f_equal. unfold varR. f_equal. rewrite Rplus_0_l, Rplus_0_l. unfold Rdiv. lra.
Qed.

Lemma nR_minus_1 (xs : list R) : nR xs - 1 = 0 <-> length xs = 1%nat.
Proof.
  unfold nR. split; intros H.
  - apply INR_eq. simpl. lra.
  - rewrite H. simpl. lra.
Qed.

(* two or more elements: the unbiased sample variance *)
Theorem variance_spec al xs : (2 <= length xs)%nat -> F_variance xnum al (inj xs) = Some (varR xs).
Proof.
  destruct xs as [|x xs]; [simpl; lia|]. intros H. unfold F_variance. simpl inj.
  change (Some x :: inj xs) with (inj (x :: xs)). unfold st_variance.
  rewrite st_mean_variance_spec. simpl snd.
  destruct (Req_EM_T (nR (x :: xs) - 1) 0) as [E|E]; [|reflexivity].
  apply nR_minus_1 in E. lia.
Qed.

(* one element: 0/0, not a number (this is what the unbiased estimator gives) *)
Theorem variance_single al x : F_variance xnum al (inj [x]) = None.
Proof.
  unfold F_variance. simpl inj. change [Some x] with (inj [x]). unfold st_variance.
  rewrite st_mean_variance_spec. simpl snd.
  destruct (Req_EM_T (nR [x] - 1) 0) as [E|E]; [reflexivity|].
  exfalso. apply E. apply nR_minus_1. reflexivity.
Qed.

Theorem variance_empty al : F_variance xnum al [] = None.
Proof. reflexivity. Qed.

Theorem mean_variance_spec al xs : (2 <= length xs)%nat ->
  F_mean_variance xnum al (inj xs) = (Some (meanR xs), Some (varR xs)).
Proof.
  destruct xs as [|x xs]; [simpl; lia|]. intros H. unfold F_mean_variance. simpl inj.
  change (Some x :: inj xs) with (inj (x :: xs)). rewrite st_mean_variance_spec.
  destruct (Req_EM_T (nR (x :: xs) - 1) 0) as [E|E]; [|reflexivity].
  apply nR_minus_1 in E. lia.
Qed.

Theorem mean_variance_empty al : F_mean_variance xnum al [] = (None, None).
Proof. reflexivity. Qed.

Lemma sumR_sq_nonneg mu xs : 0 <= sumR (map (fun x => (x - mu) * (x - mu)) xs).
Proof.
  induction xs as [|x xs IH]; simpl; [lra|]. pose proof (Rle_0_sqr (x - mu)) as H. unfold Rsqr in H. lra.
Qed.

Lemma varR_nonneg xs : (2 <= length xs)%nat -> 0 <= varR xs.
Proof.
  intros H. unfold varR. apply Rmult_le_pos; [apply sumR_sq_nonneg|].
  apply Rlt_le, Rinv_0_lt_compat. unfold nR.
  assert (2 <= INR (length xs)) by (change 2 with (INR 2); apply le_INR; lia). lra.
Qed.

Theorem stddev_spec al xs : (2 <= length xs)%nat -> F_stddev xnum al (inj xs) = Some (sqrt (varR xs)).
Proof.
  intros H. pose proof (variance_spec al xs H) as HV.
  destruct xs as [|x xs]; [simpl in H; lia|].
  unfold F_stddev, F_variance in *. simpl inj in *. unfold st_stddev. rewrite HV.
  simpl n_sqrt. unfold xsqrt. pose proof (varR_nonneg (x :: xs) H).
  destruct (Rlt_dec (varR (x :: xs)) 0); [lra | reflexivity].
Qed.

Theorem stddev_single al x : F_stddev xnum al (inj [x]) = None.
Proof.
  pose proof (variance_single al x) as HV. unfold F_stddev, F_variance in *. simpl inj in *.
  unfold st_stddev. rewrite HV. reflexivity.
Qed.

Theorem stddev_empty al : F_stddev xnum al [] = None.
Proof. reflexivity. Qed.

(* ======================= order independence of the moments ======================= *)

Lemma nR_perm (a b : list R) : Permutation a b -> nR a = nR b.
Proof. intros H. unfold nR. now rewrite (Permutation_length H). Qed.

Lemma meanR_perm a b : Permutation a b -> meanR a = meanR b.
Proof. intros H. unfold meanR. now rewrite (sumR_perm _ _ H), (nR_perm _ _ H). Qed.

Lemma varR_perm a b : Permutation a b -> varR a = varR b.
Proof.
  intros H. unfold varR. rewrite (meanR_perm _ _ H), (nR_perm _ _ H). f_equal.
  apply sumR_perm. now apply Permutation_map.
Qed.

Lemma perm_nil_inv (a b : list R) : Permutation a b -> a <> [] -> b <> [].
Proof. intros H Ha Hb. subst. apply Permutation_sym, Permutation_nil in H. contradiction. Qed.

Theorem sum_perm al al' xs ys : Permutation xs ys -> F_sum xnum al (inj xs) = F_sum xnum al' (inj ys).
Proof. intros H. now rewrite !sum_spec, (sumR_perm _ _ H). Qed.

Theorem mean_perm al al' xs ys : Permutation xs ys -> F_mean xnum al (inj xs) = F_mean xnum al' (inj ys).
Proof.
  intros H. destruct xs as [|x xs].
  - apply Permutation_nil in H. now subst.
  - rewrite !mean_spec; [now rewrite (meanR_perm _ _ H) | | discriminate].
    eapply perm_nil_inv; [exact H | discriminate].
Qed.

Lemma length_cases (xs : list R) : xs = [] \/ (exists x, xs = [x]) \/ (2 <= length xs)%nat.
Proof. destruct xs as [|x [|y xs]]; [now left | right; left; now exists x | right; right; simpl; lia]. Qed.

Theorem variance_perm al al' xs ys :
  Permutation xs ys -> F_variance xnum al (inj xs) = F_variance xnum al' (inj ys).
Proof.
  intros H. destruct (length_cases xs) as [-> | [[x ->] | Hl]].
  - apply Permutation_nil in H. now subst.
  - apply Permutation_length_1_inv in H. subst. now rewrite !variance_single.
  - rewrite !variance_spec; [now rewrite (varR_perm _ _ H) | | exact Hl].
    now rewrite <- (Permutation_length H).
Qed.

Theorem stddev_perm al al' xs ys :
  Permutation xs ys -> F_stddev xnum al (inj xs) = F_stddev xnum al' (inj ys).
Proof.
  intros H. destruct (length_cases xs) as [-> | [[x ->] | Hl]].
  - apply Permutation_nil in H. now subst.
  - apply Permutation_length_1_inv in H. subst. now rewrite !stddev_single.
  - rewrite !stddev_spec; [now rewrite (varR_perm _ _ H) | | exact Hl].
    now rewrite <- (Permutation_length H).
Qed.

(* ======================= Min / Max ======================= *)

Lemma index_nth {A} : forall (l : list A) i v,
  (0 <= i)%Z -> nth_error l (Z.to_nat i) = Some v -> index l i = Ok v.
Proof.
  induction l as [|a l IH]; intros i v Hi H.
  - destruct (Z.to_nat i); discriminate.
  - simpl index. destruct (Z.eqb_spec i 0) as [->|Hne].
    + simpl in H. now injection H as ->.
    + destruct (Z.ltb_spec i 0); [lia|]. apply IH; [lia|].
      replace (Z.to_nat i) with (S (Z.to_nat (i - 1))) in H by lia. exact H.
Qed.

Definition is_min (m : R) (xs : list R) : Prop := In m xs /\ forall y, In y xs -> m <= y.
Definition is_max (m : R) (xs : list R) : Prop := In m xs /\ forall y, In y xs -> y <= m.

(* invariant of the MinIdx loop after the prefix [pre] *)
Definition min_inv (pre : list R) (mn : xr) (ind : Z) : Prop :=
  (pre = [] /\ mn = None /\ ind = 0%Z) \/
  (exists m, mn = Some m /\ (0 <= ind)%Z /\ nth_error pre (Z.to_nat ind) = Some m /\ forall y, In y pre -> m <= y).

Lemma min_loop_spec : forall s pre mn ind,
  min_inv pre mn ind -> pre ++ s <> [] ->
  exists m, (0 <= min_loop xnum (inj s) (len pre) mn ind)%Z /\
            nth_error (pre ++ s) (Z.to_nat (min_loop xnum (inj s) (len pre) mn ind)) = Some m /\
            forall y, In y (pre ++ s) -> m <= y.
Proof.
  induction s as [|v s IH]; intros pre mn ind Hinv Hne.
  - rewrite app_nil_r in *. simpl. destruct Hinv as [(-> & _) | (m & -> & Hi & Hn & Hb)]; [congruence|].
    exists m. auto.
  - simpl inj. simpl min_loop.
    assert (Hlen : (len pre + 1)%Z = len (pre ++ [v])).
    { unfold len. rewrite app_length. simpl. lia. }
    replace (pre ++ v :: s) with ((pre ++ [v]) ++ s) in * by (rewrite <- app_assoc; reflexivity).
    rewrite Hlen.
    destruct Hinv as [(-> & -> & ->) | (m & -> & Hi & Hn & Hb)].
    + (* first element *)
      simpl n_ltb. simpl n_isnan. simpl. apply (IH [v]); [|discriminate].
      right. exists v. repeat split; try reflexivity; try lia.
      intros y [<-|[]]. lra.
    + simpl n_ltb; simpl n_isnan. simpl xcmp. simpl xisnan. rewrite orb_false_r.
      destruct (Rltb v m) eqn:E.
      * apply Rltb_true in E. apply IH; [|destruct pre; discriminate].
        right. exists v. repeat split.
        -- unfold len; lia.
        -- unfold len. rewrite Nat2Z.id. rewrite nth_error_app2 by lia. now rewrite Nat.sub_diag.
        -- intros y Hy. apply in_app_or in Hy. destruct Hy as [Hy | [<- | []]]; [|lra].
           specialize (Hb y Hy). lra.
      * apply Rltb_false in E. apply IH; [|destruct pre; discriminate].
        right. exists m. repeat split; auto.
        -- rewrite nth_error_app1; [exact Hn|]. apply nth_error_Some. congruence.
        -- intros y Hy. apply in_app_or in Hy. destruct Hy as [Hy | [<- | []]]; auto.
Qed.

Theorem min_spec xs : xs <> [] -> exists m, F_min xnum (inj xs) = Ok (Some m) /\ is_min m xs.
Proof.
  intros Hne. destruct xs as [|x xs]; [congruence|].
  destruct (min_loop_spec (x :: xs) [] None 0%Z) as (m & H0 & Hn & Hb).
  { left. auto. } { discriminate. }
  exists m. split.
  - change (F_min xnum (inj (x :: xs))) with (index (inj (x :: xs)) (min_loop xnum (inj (x :: xs)) 0 None 0)).
    simpl app in *. change (len []) with 0%Z in *.
    apply index_nth; [exact H0|]. unfold inj in *. rewrite nth_error_map.
    rewrite Hn. reflexivity.
  - split; [eapply nth_error_In; exact Hn | exact Hb].
Qed.

Definition max_inv (pre : list R) (mx : xr) (ind : Z) : Prop :=
  (pre = [] /\ mx = None /\ ind = 0%Z) \/
  (exists m, mx = Some m /\ (0 <= ind)%Z /\ nth_error pre (Z.to_nat ind) = Some m /\ forall y, In y pre -> y <= m).

Lemma max_loop_spec : forall s pre mx ind,
  max_inv pre mx ind -> pre ++ s <> [] ->
  exists m, (0 <= max_loop xnum (inj s) (len pre) mx ind)%Z /\
            nth_error (pre ++ s) (Z.to_nat (max_loop xnum (inj s) (len pre) mx ind)) = Some m /\
            forall y, In y (pre ++ s) -> y <= m.
Proof.
  induction s as [|v s IH]; intros pre mx ind Hinv Hne.
  - rewrite app_nil_r in *. simpl. destruct Hinv as [(-> & _) | (m & -> & Hi & Hn & Hb)]; [congruence|].
    exists m. auto.
  - simpl inj. simpl max_loop.
    assert (Hlen : (len pre + 1)%Z = len (pre ++ [v])).
    { unfold len. rewrite app_length. simpl. lia. }
    replace (pre ++ v :: s) with ((pre ++ [v]) ++ s) in * by (rewrite <- app_assoc; reflexivity).
    rewrite Hlen.
    destruct Hinv as [(-> & -> & ->) | (m & -> & Hi & Hn & Hb)].
    + simpl n_ltb. simpl n_isnan. simpl. apply (IH [v]); [|discriminate].
      right. exists v. repeat split; try reflexivity; try lia.
      intros y [<-|[]]. lra.
    + simpl n_ltb; simpl n_isnan. simpl xcmp. simpl xisnan. rewrite orb_false_r.
      destruct (Rltb m v) eqn:E.
      * apply Rltb_true in E. apply IH; [|destruct pre; discriminate].
        right. exists v. repeat split.
        -- unfold len; lia.
        -- unfold len. rewrite Nat2Z.id. rewrite nth_error_app2 by lia. now rewrite Nat.sub_diag.
        -- intros y Hy. apply in_app_or in Hy. destruct Hy as [Hy | [<- | []]]; [|lra].
           specialize (Hb y Hy). lra.
      * apply Rltb_false in E. apply IH; [|destruct pre; discriminate].
        right. exists m. repeat split; auto.
        -- rewrite nth_error_app1; [exact Hn|]. apply nth_error_Some. congruence.
        -- intros y Hy. apply in_app_or in Hy. destruct Hy as [Hy | [<- | []]]; auto.
Qed.

Theorem max_spec xs : xs <> [] -> exists m, F_max xnum (inj xs) = Ok (Some m) /\ is_max m xs.
Proof.
  intros Hne. destruct xs as [|x xs]; [congruence|].
  destruct (max_loop_spec (x :: xs) [] None 0%Z) as (m & H0 & Hn & Hb).
  { left. auto. } { discriminate. }
  exists m. split.
  - change (F_max xnum (inj (x :: xs))) with (index (inj (x :: xs)) (max_loop xnum (inj (x :: xs)) 0 None 0)).
    simpl app in *. change (len []) with 0%Z in *.
    apply index_nth; [exact H0|]. unfold inj in *. rewrite nth_error_map.
    rewrite Hn. reflexivity.
  - split; [eapply nth_error_In; exact Hn | exact Hb].
Qed.

Theorem min_empty : F_min xnum [] = Ok None.
Proof. reflexivity. Qed.
Theorem max_empty : F_max xnum [] = Ok None.
Proof. reflexivity. Qed.

Lemma is_min_unique m m' xs : is_min m xs -> is_min m' xs -> m = m'.
Proof. intros [I1 B1] [I2 B2]. specialize (B1 _ I2). specialize (B2 _ I1). lra. Qed.
Lemma is_max_unique m m' xs : is_max m xs -> is_max m' xs -> m = m'.
Proof. intros [I1 B1] [I2 B2]. specialize (B1 _ I2). specialize (B2 _ I1). lra. Qed.

Lemma is_min_perm m xs ys : Permutation xs ys -> is_min m xs -> is_min m ys.
Proof.
  intros H [I B]. split; [eapply Permutation_in; eauto|].
  intros y Hy. apply B. eapply Permutation_in; [apply Permutation_sym; exact H | exact Hy].
Qed.
Lemma is_max_perm m xs ys : Permutation xs ys -> is_max m xs -> is_max m ys.
Proof.
  intros H [I B]. split; [eapply Permutation_in; eauto|].
  intros y Hy. apply B. eapply Permutation_in; [apply Permutation_sym; exact H | exact Hy].
Qed.

Theorem min_perm xs ys : Permutation xs ys -> F_min xnum (inj xs) = F_min xnum (inj ys).
Proof.
  intros H. destruct xs as [|x xs].
  - apply Permutation_nil in H. now subst.
  - destruct (min_spec (x :: xs)) as (m & E & Hm); [discriminate|].
    destruct (min_spec ys) as (m' & E' & Hm'); [eapply perm_nil_inv; [exact H | discriminate]|].
    rewrite E, E'. do 2 f_equal. eapply is_min_unique; [eapply is_min_perm; eauto | exact Hm'].
Qed.

Theorem max_perm xs ys : Permutation xs ys -> F_max xnum (inj xs) = F_max xnum (inj ys).
Proof.
  intros H. destruct xs as [|x xs].
  - apply Permutation_nil in H. now subst.
  - destruct (max_spec (x :: xs)) as (m & E & Hm); [discriminate|].
    destruct (max_spec ys) as (m' & E' & Hm'); [eapply perm_nil_inv; [exact H | discriminate]|].
    rewrite E, E'. do 2 f_equal. eapply is_max_unique; [eapply is_max_perm; eauto | exact Hm'].
Qed.
