(* C16, second half -- what the innovation environment guarantees under ANY interleaving.

   Per-species reproduction touches shared state only through four primitives of Population:
   Innovations(), NextInnovationNumber(), NextNodeId(), StoreInnovation().  The sequential model
   (model/Mutate.v, model/Population.v) is written in a state monad whose environment operations
   are exactly these ([e_innovs], [e_next_innov], [e_next_node], [e_store]).  Here a species' run is
   a program over the four primitives with arbitrary thread-local computation in between (the
   continuations), the parallel executor is an abstract machine that lets ANY thread perform its
   next primitive, and the theorems say, for every schedule:
     - the numbers handed out are consecutive, hence pairwise distinct and above the old counter
       (atomic add), for innovation numbers and node ids alike;
     - the record of innovations is the old record followed by the threads' stores, interleaved;
     - if every thread stores only numbers it was itself handed out, each at most once (what the
       three structural mutators do), the final environment extends the initial one in the sense
       of WF.env_extends -- the hypothesis under which the sequential theorems keep every genome
       well formed and every number denoting one link (WF.env_ok_extends);
     - running the threads one after the other (the sequential executor) is one of the schedules.
   What does NOT survive parallelism is "one structural innovation = one number within a
   generation": two goroutines may both miss a record and both allocate (duplicate records for one
   key).  env_extends does not promise that, and no well-formedness clause depends on it. *)
From NeatModel Require Import Res F64 GoRand Genome WF.
From Coq Require Import Lia Permutation.

(* ---------- programs over the four primitives ---------- *)
Inductive prog (A : Type) : Type :=
| Ret (a : A)                                   (* the goroutine is done *)
| Fail (code : Z)                               (* ... with an error *)
| Innovations (k : list innovation -> prog A)   (* Population.Innovations() *)
| NextInnov (k : Z -> prog A)                   (* Population.NextInnovationNumber() *)
| NextNode (k : Z -> prog A)                    (* Population.NextNodeId() *)
| Store (i : innovation) (k : prog A).          (* Population.StoreInnovation(i) *)
Arguments Ret {A} a.
Arguments Fail {A} code.
Arguments Innovations {A} k.
Arguments NextInnov {A} k.
Arguments NextNode {A} k.
Arguments Store {A} i k.

Definition env_innov (e : ienv) : ienv :=
  {| innovs := innovs e; next_innov := next_innov e + 1; next_node := next_node e |}.
Definition env_node (e : ienv) : ienv :=
  {| innovs := innovs e; next_innov := next_innov e; next_node := next_node e + 1 |}.
Definition env_store (e : ienv) (i : innovation) : ienv :=
  {| innovs := innovs e ++ [i]; next_innov := next_innov e; next_node := next_node e |}.

Inductive label := LRead | LInnov (v : Z) | LNode (v : Z) | LStore (i : innovation).

(* one primitive of one thread; each is atomic (mutex / atomic add in the Go code, which is what the
   lockset half of C16 establishes) *)
Inductive pstep {A} : ienv -> prog A -> label -> ienv -> prog A -> Prop :=
| ps_read : forall e k, pstep e (Innovations k) LRead e (k (innovs e))
| ps_innov : forall e k, pstep e (NextInnov k) (LInnov (next_innov e + 1)) (env_innov e) (k (next_innov e + 1))
| ps_node : forall e k, pstep e (NextNode k) (LNode (next_node e + 1)) (env_node e) (k (next_node e + 1))
| ps_store : forall e i k, pstep e (Store i k) (LStore i) (env_store e i) k.

(* the pool: any thread (number = its index) may move *)
Inductive step {A} : ienv * list (prog A) -> nat * label -> ienv * list (prog A) -> Prop :=
| step_at : forall e e' l1 p p' l2 lb,
    pstep e p lb e' p' -> step (e, l1 ++ p :: l2) (length l1, lb) (e', l1 ++ p' :: l2).

Inductive steps {A} : ienv * list (prog A) -> list (nat * label) -> ienv * list (prog A) -> Prop :=
| steps_nil : forall c, steps c [] c
| steps_cons : forall c1 c2 c3 lb lbs, step c1 lb c2 -> steps c2 lbs c3 -> steps c1 (lb :: lbs) c3.

Lemma steps_app {A} (c1 c2 c3 : ienv * list (prog A)) l1 l2 :
  steps c1 l1 c2 -> steps c2 l2 c3 -> steps c1 (l1 ++ l2) c3.
Proof. induction 1; intros H2; [exact H2|]. simpl. econstructor; eauto. Qed.

(* what a schedule handed out / stored *)
Definition issued (lbs : list (nat * label)) : list Z :=
  flat_map (fun l => match snd l with LInnov v => [v] | _ => [] end) lbs.
Definition issued_nodes (lbs : list (nat * label)) : list Z :=
  flat_map (fun l => match snd l with LNode v => [v] | _ => [] end) lbs.
Definition stores (lbs : list (nat * label)) : list innovation :=
  flat_map (fun l => match snd l with LStore i => [i] | _ => [] end) lbs.
(* the part of the schedule executed by thread n *)
Definition of_thread (n : nat) (lbs : list (nat * label)) : list (nat * label) :=
  filter (fun l => Nat.eqb (fst l) n) lbs.

Fixpoint zrange (from : Z) (n : nat) : list Z :=
  match n with O => [] | S k => from :: zrange (from + 1) k end.

Lemma zrange_in from n v : In v (zrange from n) <-> from <= v < from + Z.of_nat n.
Proof.
  revert from. induction n as [|n IH]; intros from; simpl.
  - split; [intros []|lia].
  - rewrite IH. lia.
Qed.

Lemma zrange_nodup from n : NoDup (zrange from n).
Proof.
  revert from. induction n as [|n IH]; intros from; simpl; constructor; [|apply IH].
  rewrite zrange_in. lia.
Qed.

(* ---------- counters: consecutive, distinct, fresh -- for every schedule, every program ---------- *)
Theorem issued_consecutive {A} : forall (c c' : ienv * list (prog A)) lbs,
    steps c lbs c' ->
    issued lbs = zrange (next_innov (fst c) + 1) (length (issued lbs)) /\
    next_innov (fst c') = next_innov (fst c) + Z.of_nat (length (issued lbs)) /\
    issued_nodes lbs = zrange (next_node (fst c) + 1) (length (issued_nodes lbs)) /\
    next_node (fst c') = next_node (fst c) + Z.of_nat (length (issued_nodes lbs)).
Proof.
  intros c c' lbs H. induction H as [c|c1 c2 c3 lb lbs Hs _ IH].
  - simpl. repeat split; lia.
  - destruct IH as [I1 [I2 [I3 I4]]]. destruct Hs as [e e' l1 p p' l2 lb Hp].
    unfold issued, issued_nodes in *. cbn [flat_map snd fst] in *.
    destruct Hp; cbn [app length] in *; cbn [fst env_innov env_node env_store next_innov next_node] in *.
    + repeat split; try assumption.
    + repeat split; try assumption; try lia.
      cbn [zrange]. f_equal. exact I1.
    + repeat split; try assumption; try lia.
      cbn [zrange]. f_equal. exact I3.
    + repeat split; try assumption.
Qed.

Corollary issued_distinct_fresh {A} : forall (c c' : ienv * list (prog A)) lbs,
    steps c lbs c' ->
    NoDup (issued lbs) /\ NoDup (issued_nodes lbs) /\
    (forall v, In v (issued lbs) -> next_innov (fst c) < v <= next_innov (fst c')) /\
    (forall v, In v (issued_nodes lbs) -> next_node (fst c) < v <= next_node (fst c')).
Proof.
  intros c c' lbs H. destruct (issued_consecutive c c' lbs H) as [I1 [I2 [I3 I4]]].
  repeat split.
  - rewrite I1. apply zrange_nodup.
  - rewrite I3. apply zrange_nodup.
  - rewrite I1 in H0. apply zrange_in in H0. lia.
  - rewrite I1 in H0. apply zrange_in in H0. lia.
  - rewrite I3 in H0. apply zrange_in in H0. lia.
  - rewrite I3 in H0. apply zrange_in in H0. lia.
Qed.

(* ---------- the record: old record ++ the stores of the schedule, in schedule order ---------- *)
Theorem records_interleave {A} : forall (c c' : ienv * list (prog A)) lbs,
    steps c lbs c' -> innovs (fst c') = innovs (fst c) ++ stores lbs.
Proof.
  intros c c' lbs H. induction H as [c|c1 c2 c3 lb lbs Hs _ IH].
  - simpl. now rewrite app_nil_r.
  - rewrite IH. destruct Hs as [e e' l1 p p' l2 lb Hp]. unfold stores. cbn [flat_map snd fst].
    destruct Hp; cbn [fst env_innov env_node env_store innovs app]; try reflexivity.
    now rewrite <- app_assoc.
Qed.

(* ... and every thread's own stores appear in it in the thread's program order: the stores of the
   schedule restricted to thread n are a subsequence of all stores (an interleaving of the threads) *)
Lemma stores_of_thread_sub n lbs :
  exists rest, Permutation (stores lbs) (stores (of_thread n lbs) ++ rest).
Proof.
  induction lbs as [|l lbs [rest IH]]; [exists []; constructor|].
  unfold of_thread, stores in *. cbn [filter flat_map].
  destruct (Nat.eqb (fst l) n).
  - exists rest. cbn [flat_map]. rewrite <- app_assoc. now apply Permutation_app_head.
  - exists ((match snd l with LStore i => [i] | _ => [] end) ++ rest).
    eapply perm_trans; [apply Permutation_app_head; exact IH|].
    rewrite !app_assoc. apply Permutation_app_tail. apply Permutation_app_comm.
Qed.

(* ---------- ownership discipline of a thread ----------
   own = (innovation numbers, node ids) handed out to the thread and not yet put into a record.
   A program is ok when every record it stores consumes numbers it owns: Store i needs the numbers of
   the record ([inn_nums i]: one for a link record, two for a node record) among the owned ones, and
   the node id of a node record among the owned node ids.  This is the shape of mutateAddLink,
   mutateConnectSensors (NextInnovationNumber; Store) and mutateAddNode (NextNodeId;
   NextInnovationNumber; NextInnovationNumber; Store). *)
Definition own := (list Z * list Z)%type.

Inductive ok_prog {A} : own -> prog A -> Prop :=
| ok_ret : forall o a, ok_prog o (Ret a)
| ok_fail : forall o c, ok_prog o (Fail c)
| ok_read : forall o k, (forall l, ok_prog o (k l)) -> ok_prog o (Innovations k)
| ok_innov : forall oi on k, (forall v, ok_prog (v :: oi, on) (k v)) -> ok_prog (oi, on) (NextInnov k)
| ok_node : forall oi on k, (forall v, ok_prog (oi, v :: on) (k v)) -> ok_prog (oi, on) (NextNode k)
| ok_store : forall oi oi' on i k,
    Permutation oi (inn_nums i ++ oi') ->
    (i_type i = 1 -> In (i_node i) on) ->
    ok_prog (oi', on) k -> ok_prog (oi, on) (Store i k).

(* sequencing *)
Fixpoint pbind {A B} (p : prog A) (f : A -> prog B) : prog B :=
  match p with
  | Ret a => f a
  | Fail c => Fail c
  | Innovations k => Innovations (fun l => pbind (k l) f)
  | NextInnov k => NextInnov (fun v => pbind (k v) f)
  | NextNode k => NextNode (fun v => pbind (k v) f)
  | Store i k => Store i (pbind k f)
  end.

Lemma ok_bind {A B} (p : prog A) (f : A -> prog B) :
  (forall a o, ok_prog o (f a)) -> forall o, ok_prog o p -> ok_prog o (pbind p f).
Proof.
  intros Hf. induction p as [a|c|k IH|k IH|k IH|i k IH]; intros o Hp; simpl.
  - apply Hf.
  - constructor.
  - inversion Hp; subst. constructor. intros l. apply IH. auto.
  - inversion Hp; subst. constructor. intros v. apply IH. auto.
  - inversion Hp; subst. constructor. intros v. apply IH. auto.
  - inversion Hp; subst. econstructor; eauto.
Qed.

(* the two allocation patterns of genome_mutate.go *)
Definition alloc_link {A} (mk : Z -> innovation) (k : Z -> prog A) : prog A :=
  NextInnov (fun num => Store (mk num) (k num)).
Definition alloc_node {A} (mk : Z -> Z -> Z -> innovation) (k : Z -> Z -> Z -> prog A) : prog A :=
  NextNode (fun nid => NextInnov (fun n1 => NextInnov (fun n2 => Store (mk nid n1 n2) (k nid n1 n2)))).

Lemma ok_alloc_link {A} mk (k : Z -> prog A) o :
  (forall num, i_type (mk num) <> 1 /\ i_num (mk num) = num) ->
  (forall num, ok_prog o (k num)) -> ok_prog o (alloc_link mk k).
Proof.
  intros Hmk Hk. destruct o as [oi on]. unfold alloc_link. constructor. intros v.
  destruct (Hmk v) as [Ht Hn]. apply (ok_store (v :: oi) oi on).
  - unfold inn_nums. destruct (Z.eqb_spec (i_type (mk v)) 1) as [E|_]; [contradiction|]. rewrite Hn. apply Permutation_refl.
  - intros E. contradiction.
  - apply Hk.
Qed.

Lemma ok_alloc_node {A} mk (k : Z -> Z -> Z -> prog A) o :
  (forall nid n1 n2, i_type (mk nid n1 n2) = 1 /\ i_num (mk nid n1 n2) = n1 /\
                     i_num2 (mk nid n1 n2) = n2 /\ i_node (mk nid n1 n2) = nid) ->
  (forall nid n1 n2, ok_prog o (k nid n1 n2)) -> ok_prog o (alloc_node mk k).
Proof.
  intros Hmk Hk. destruct o as [oi on]. unfold alloc_node. constructor. intros nid.
  constructor. intros n1. constructor. intros n2.
  destruct (Hmk nid n1 n2) as [Ht [H1 [H2 H3]]]. apply (ok_store (n2 :: n1 :: oi) oi (nid :: on)).
  - unfold inn_nums. rewrite Ht, H1, H2. simpl. apply perm_swap.
  - intros _. rewrite H3. now left.
  - (* the continuation was assumed ok for the original ownership; it is ok for a larger one *)
    assert (W : forall (p : prog A) oi on on', ok_prog (oi, on) p -> (forall z, In z on -> In z on') -> ok_prog (oi, on') p).
    { clear. intros p. induction p as [a|c|k IH|k IH|k IH|i k IH]; intros oi on on' Hp Hsub.
      - constructor.
      - constructor.
      - inversion Hp; subst. constructor. intros l. eapply IH; eauto.
      - inversion Hp; subst. constructor. intros v. eapply IH; eauto.
      - inversion Hp; subst. constructor. intros v. eapply IH; eauto. intros z [->|Hz]; [now left|right; auto].
      - inversion Hp; subst. econstructor; eauto. }
    apply (W _ oi on (nid :: on)); [apply Hk|]. intros z Hz. now right.
Qed.

(* ---------- the invariant of the pool ---------- *)
Definition fsts (owns : list own) : list Z := flat_map fst owns.
Definition snds (owns : list own) : list Z := flat_map snd owns.

Definition par_inv {A} (e0 : ienv) (c : ienv * list (prog A)) : Prop :=
  exists (owns : list own) (added : list innovation),
    Forall2 ok_prog owns (snd c) /\
    next_innov e0 <= next_innov (fst c) /\ next_node e0 <= next_node (fst c) /\
    innovs (fst c) = innovs e0 ++ added /\
    NoDup (flat_map inn_nums added ++ fsts owns) /\
    (forall z, In z (flat_map inn_nums added ++ fsts owns) -> next_innov e0 < z <= next_innov (fst c)) /\
    (forall z, In z (snds owns) -> next_node e0 < z <= next_node (fst c)) /\
    (forall i, In i added -> i_type i = 1 -> next_node e0 < i_node i <= next_node (fst c)).

Lemma Forall2_split_r {X Y} (R : X -> Y -> Prop) xs l1 y l2 :
  Forall2 R xs (l1 ++ y :: l2) ->
  exists x1 x x2, xs = x1 ++ x :: x2 /\ Forall2 R x1 l1 /\ R x y /\ Forall2 R x2 l2.
Proof.
  intros H. apply Forall2_app_inv_r in H. destruct H as [x1 [xr [H1 [H2 ->]]]].
  inversion H2 as [|x ? x2 ? Hx H3]; subst. exists x1, x, x2. auto.
Qed.

Lemma fsts_mid o1 (o : own) o2 : fsts (o1 ++ o :: o2) = fsts o1 ++ fst o ++ fsts o2.
Proof. unfold fsts. now rewrite flat_map_app. Qed.
Lemma snds_mid o1 (o : own) o2 : snds (o1 ++ o :: o2) = snds o1 ++ snd o ++ snds o2.
Proof. unfold snds. now rewrite flat_map_app. Qed.

Ltac split8 := split; [|split; [|split; [|split; [|split; [|split; [|split]]]]]].

Lemma par_inv_step {A} e0 (c c' : ienv * list (prog A)) lb :
  par_inv e0 c -> step c lb c' -> par_inv e0 c'.
Proof.
  intros [owns [added [HF [Hi [Hn [Hrec [Hnd [Hrg [Hnrg Hrn]]]]]]]]] Hs.
  destruct Hs as [e e' l1 p p' l2 lb Hp]. cbn [fst snd] in *.
  destruct (Forall2_split_r _ _ _ _ _ HF) as [o1 [o [o2 [-> [F1 [Ho F2]]]]]].
  destruct Hp as [e k|e k|e k|e i k].
  - (* Innovations(): nothing changes *)
    inversion Ho; subst. exists (o1 ++ o :: o2), added. cbn [fst snd].
    split8; try assumption. apply Forall2_app; [exact F1|]. constructor; [auto|exact F2].
  - (* NextInnovationNumber(): the new number is above everything issued so far *)
    inversion Ho as [| | |oi on k' Hk| |]; subst. set (v := next_innov e + 1).
    exists (o1 ++ (v :: oi, on) :: o2), added. cbn [fst snd env_innov next_innov next_node innovs].
    rewrite fsts_mid in *. rewrite snds_mid in *. cbn [fst snd] in *.
    assert (P : Permutation (v :: flat_map inn_nums added ++ fsts o1 ++ oi ++ fsts o2)
                            (flat_map inn_nums added ++ fsts o1 ++ (v :: oi) ++ fsts o2)).
    { cbn [app].
      replace (flat_map inn_nums added ++ fsts o1 ++ v :: oi ++ fsts o2)
        with ((flat_map inn_nums added ++ fsts o1) ++ v :: oi ++ fsts o2) by now rewrite <- app_assoc.
      replace (flat_map inn_nums added ++ fsts o1 ++ oi ++ fsts o2)
        with ((flat_map inn_nums added ++ fsts o1) ++ oi ++ fsts o2) by now rewrite <- app_assoc.
      apply Permutation_middle. }
    split8; try assumption; try lia.
    + apply Forall2_app; [exact F1|]. constructor; [apply Hk|exact F2].
    + eapply Permutation_NoDup; [exact P|]. constructor; [|exact Hnd].
      intros Hin. apply Hrg in Hin. unfold v in Hin. lia.
    + intros z Hz. eapply Permutation_in in Hz; [|apply Permutation_sym; exact P].
      destruct Hz as [<-|Hz]; [unfold v; lia|]. apply Hrg in Hz. lia.
  - (* NextNodeId() *)
    inversion Ho as [| | | |oi on k' Hk|]; subst. set (v := next_node e + 1).
    exists (o1 ++ (oi, v :: on) :: o2), added. cbn [fst snd env_node next_innov next_node innovs].
    rewrite fsts_mid in *. rewrite snds_mid in *. cbn [fst snd] in *.
    split8; try assumption; try lia.
    + apply Forall2_app; [exact F1|]. constructor; [apply Hk|exact F2].
    + intros z Hz. rewrite !in_app_iff in Hz. cbn [In] in Hz.
      assert (Hc : z = v \/ In z (snds o1 ++ on ++ snds o2)).
      { rewrite !in_app_iff. destruct Hz as [Hz|[[Hz|Hz]|Hz]]; auto. }
      destruct Hc as [->|Hc]; [unfold v; lia|]. apply Hnrg in Hc. lia.
    + intros i Hin Ht. specialize (Hrn i Hin Ht). lia.
  - (* StoreInnovation(i): owned numbers move into the record *)
    inversion Ho as [| | | | |oi oi' on i' k' HP Hnode Hk]; subst.
    exists (o1 ++ (oi', on) :: o2), (added ++ [i]). cbn [fst snd env_store next_innov next_node innovs].
    rewrite fsts_mid in *. rewrite snds_mid in *. cbn [fst snd] in *.
    assert (P : Permutation (flat_map inn_nums added ++ fsts o1 ++ oi ++ fsts o2)
                            (flat_map inn_nums (added ++ [i]) ++ fsts o1 ++ oi' ++ fsts o2)).
    { rewrite flat_map_app. cbn [flat_map]. rewrite app_nil_r. rewrite <- app_assoc.
      apply Permutation_app_head.
      eapply perm_trans.
      - apply Permutation_app_head. apply Permutation_app_tail. exact HP.
      - rewrite <- app_assoc. rewrite !app_assoc.
        apply Permutation_app_tail. apply Permutation_app_tail. apply Permutation_app_comm. }
    split8; try assumption.
    + apply Forall2_app; [exact F1|]. constructor; [exact Hk|exact F2].
    + rewrite Hrec. now rewrite app_assoc.
    + eapply Permutation_NoDup; [exact P|exact Hnd].
    + intros z Hz. eapply Permutation_in in Hz; [|apply Permutation_sym; exact P]. apply Hrg in Hz. lia.
    + intros i0 Hin Ht. apply in_app_or in Hin. destruct Hin as [Hin|[<-|[]]]; [apply (Hrn i0 Hin Ht)|].
      apply Hnrg. rewrite !in_app_iff. right. left. apply Hnode. exact Ht.
Qed.

Lemma par_inv_steps {A} e0 (c c' : ienv * list (prog A)) lbs :
  par_inv e0 c -> steps c lbs c' -> par_inv e0 c'.
Proof. intros Hi H. induction H; [exact Hi|]. apply IHsteps. eapply par_inv_step; eauto. Qed.

Lemma par_inv_init {A} e0 (ts : list (prog A)) :
  Forall (ok_prog ([], [])) ts -> par_inv e0 (e0, ts).
Proof.
  intros H. exists (map (fun _ => ([], [])) ts), []. cbn [fst snd].
  assert (E1 : forall l : list (prog A), fsts (map (fun _ : prog A => ([], [])) l) = []).
  { induction l as [|t l IH]; [reflexivity|]. unfold fsts in *. simpl. exact IH. }
  assert (E2 : forall l : list (prog A), snds (map (fun _ : prog A => ([], [])) l) = []).
  { induction l as [|t l IH]; [reflexivity|]. unfold snds in *. simpl. exact IH. }
  rewrite E1, E2. simpl. split8; try lia; try (now rewrite app_nil_r); try constructor; try (intros ? []); try (intros ? [] ?).
  induction H; constructor; auto.
Qed.

Lemma nodup_app_head {X} (a b : list X) : NoDup (a ++ b) -> NoDup a.
Proof.
  induction a as [|x a IH]; intros H; [constructor|]. inversion H as [|? ? Hx H']; subst.
  constructor; [|now apply IH]. intros Hin. apply Hx. apply in_or_app. now left.
Qed.

Lemma nodup_flat_map_in {X Y} (f : X -> list Y) l x : NoDup (flat_map f l) -> In x l -> NoDup (f x).
Proof.
  induction l as [|y l IH]; intros H Hin; [destruct Hin|]. destruct Hin as [->|Hin].
  - simpl in H. now apply nodup_app_head in H.
  - apply IH; [|exact Hin]. simpl in H. clear - H. induction (f y) as [|z zs IHz]; [exact H|].
    simpl in H. inversion H; subst. now apply IHz.
Qed.

(* THE THEOREM of this half: under every schedule of disciplined threads the innovation environment
   extends the initial one (counters grew; the record grew by records carrying pairwise distinct,
   fresh numbers and fresh node ids) *)
Theorem par_env_extends {A} : forall e0 (ts ts' : list (prog A)) e lbs,
    Forall (ok_prog ([], [])) ts ->
    steps (e0, ts) lbs (e, ts') ->
    env_extends e0 e.
Proof.
  intros e0 ts ts' e lbs Hok Hs.
  pose proof (par_inv_steps e0 _ _ lbs (par_inv_init e0 ts Hok) Hs) as
      [owns [added [_ [Hi [Hn [Hrec [Hnd [Hrg [_ Hrn]]]]]]]]]. cbn [fst snd] in *.
  constructor; try assumption.
  exists added. split; [exact Hrec|]. split; [now apply nodup_app_head in Hnd|].
  intros i Hin.
  assert (Hin1 : In (i_num i) (inn_nums i)).
  { unfold inn_nums. destruct (Z.eqb (i_type i) 1); now left. }
  split.
  - apply Hrg. apply in_or_app. left. apply in_flat_map. exists i. split; assumption.
  - intros Ht. assert (E : inn_nums i = [i_num i; i_num2 i]) by (unfold inn_nums; now rewrite Ht).
    split; [|split].
    + apply Hrg. apply in_or_app. left. apply in_flat_map. exists i. split; [exact Hin|]. rewrite E. right. now left.
    + apply nodup_app_head in Hnd. apply (nodup_flat_map_in inn_nums added i) in Hnd; [|exact Hin].
      rewrite E in Hnd. inversion Hnd as [|? ? Hx _]; subst. intros Eq. apply Hx. rewrite Eq. now left.
    + now apply Hrn.
Qed.

(* ---------- the sequential executor is one of the schedules ---------- *)
Fixpoint run_seq {A} (p : prog A) (e : ienv) : ienv * (A + Z) :=
  match p with
  | Ret a => (e, inl a)
  | Fail c => (e, inr c)
  | Innovations k => run_seq (k (innovs e)) e
  | NextInnov k => run_seq (k (next_innov e + 1)) (env_innov e)
  | NextNode k => run_seq (k (next_node e + 1)) (env_node e)
  | Store i k => run_seq k (env_store e i)
  end.

Definition done {A} (r : A + Z) : prog A := match r with inl a => Ret a | inr c => Fail c end.

Lemma run_seq_steps {A} (p : prog A) : forall e l1 l2,
    exists lbs, steps (e, l1 ++ p :: l2) lbs (fst (run_seq p e), l1 ++ done (snd (run_seq p e)) :: l2).
Proof.
  induction p as [a|c|k IH|k IH|k IH|i k IH]; intros e l1 l2; simpl.
  - exists []. constructor.
  - exists []. constructor.
  - destruct (IH (innovs e) e l1 l2) as [lbs H]. eexists. econstructor; [apply step_at; apply ps_read|exact H].
  - destruct (IH (next_innov e + 1) (env_innov e) l1 l2) as [lbs H]. eexists. econstructor; [apply step_at; apply ps_innov|exact H].
  - destruct (IH (next_node e + 1) (env_node e) l1 l2) as [lbs H]. eexists. econstructor; [apply step_at; apply ps_node|exact H].
  - destruct (IH (env_store e i) l1 l2) as [lbs H]. eexists. econstructor; [apply step_at; apply ps_store|exact H].
Qed.

Fixpoint run_all {A} (ps : list (prog A)) (e : ienv) : ienv * list (prog A) :=
  match ps with
  | [] => (e, [])
  | p :: ps' => let r := run_seq p e in
                let r' := run_all ps' (fst r) in
                (fst r', done (snd r) :: snd r')
  end.

Theorem sequential_is_a_schedule {A} : forall (ps : list (prog A)) e,
    exists lbs, steps (e, ps) lbs (run_all ps e).
Proof.
  intros ps e.
  assert (G : forall (ps : list (prog A)) dn e, exists lbs, steps (e, dn ++ ps) lbs (fst (run_all ps e), dn ++ snd (run_all ps e))).
  { clear. induction ps as [|p ps IH]; intros dn e; simpl.
    - exists []. constructor.
    - destruct (run_seq_steps p e dn ps) as [l1 H1].
      destruct (IH (dn ++ [done (snd (run_seq p e))]) (fst (run_seq p e))) as [l2 H2].
      rewrite <- !app_assoc in H2. simpl in H2. exists (l1 ++ l2). eapply steps_app; eauto. }
  destruct (G ps [] e) as [lbs H]. exists lbs. simpl in H. now destruct (run_all ps e).
Qed.

(* ---------- the primitives ARE the environment operations of the sequential model ---------- *)
Fixpoint denote {A} (p : prog A) : @M st A :=
  match p with
  | Ret a => ret a
  | Fail c => fail_err c
  | Innovations k => let! l := e_innovs in denote (k l)
  | NextInnov k => let! v := e_next_innov in denote (k v)
  | NextNode k => let! v := e_next_node in denote (k v)
  | Store i k => exec e_store i ;; denote k
  end.

Theorem denote_run_seq {A} (p : prog A) : forall t e,
    denote p {| s_tape := t; s_env := e |} =
    match run_seq p e with
    | (e', inl a) => Ok (a, {| s_tape := t; s_env := e' |})
    | (_, inr c) => GoErr c
    end.
Proof.
  induction p as [a|c|k IH|k IH|k IH|i k IH]; intros t e; simpl; try reflexivity.
  - unfold bindM, e_innovs. simpl. apply IH.
  - unfold bindM, e_next_innov. simpl. rewrite IH. reflexivity.
  - unfold bindM, e_next_node. simpl. rewrite IH. reflexivity.
  - unfold bindM, e_store. simpl. rewrite IH. reflexivity.
Qed.

(* ---------- executable scheduler (for the example) ---------- *)
Definition prim_step {A} (e : ienv) (p : prog A) : option (ienv * prog A) :=
  match p with
  | Ret _ | Fail _ => None
  | Innovations k => Some (e, k (innovs e))
  | NextInnov k => Some (env_innov e, k (next_innov e + 1))
  | NextNode k => Some (env_node e, k (next_node e + 1))
  | Store i k => Some (env_store e i, k)
  end.

Fixpoint set_nth_prog {A} (l : list (prog A)) (n : nat) (p : prog A) : list (prog A) :=
  match l, n with
  | [], _ => []
  | _ :: l', O => p :: l'
  | x :: l', S n' => x :: set_nth_prog l' n' p
  end.

Fixpoint exec_sched {A} (sched : list nat) (c : ienv * list (prog A)) : ienv * list (prog A) :=
  match sched with
  | [] => c
  | n :: sched' =>
    match nth_error (snd c) n with
    | Some p => match prim_step (fst c) p with
                | Some (e', p') => exec_sched sched' (e', set_nth_prog (snd c) n p')
                | None => exec_sched sched' c
                end
    | None => exec_sched sched' c
    end
  end.

Lemma nth_split_set {A} (l : list (prog A)) : forall n p p',
    nth_error l n = Some p ->
    exists l1 l2, l = l1 ++ p :: l2 /\ set_nth_prog l n p' = l1 ++ p' :: l2.
Proof.
  induction l as [|x l IH]; intros n p p' H; [destruct n; discriminate|].
  destruct n as [|n]; simpl in *.
  - injection H as ->. exists [], l. auto.
  - destruct (IH n p p' H) as [l1 [l2 [E1 E2]]]. exists (x :: l1), l2. simpl. now rewrite <- E1, E2.
Qed.

Lemma exec_sched_steps {A} : forall sched (c : ienv * list (prog A)), exists lbs, steps c lbs (exec_sched sched c).
Proof.
  induction sched as [|n sched IH]; intros [e ts]; simpl.
  - exists []. constructor.
  - destruct (nth_error ts n) as [p|] eqn:E; [|apply IH].
    destruct (prim_step e p) as [[e' p']|] eqn:Ep; [|apply IH].
    destruct (nth_split_set ts n p p' E) as [l1 [l2 [E1 E2]]]. rewrite E2.
    destruct (IH (e', l1 ++ p' :: l2)) as [lbs H]. subst ts.
    assert (Hp : exists lb, pstep e p lb e' p').
    { destruct p; simpl in Ep; try discriminate; injection Ep as <- <-; eexists; constructor. }
    destruct Hp as [lb Hp]. eexists. econstructor; [apply step_at; exact Hp|exact H].
Qed.

(* ---------- non-vacuity: two goroutines, an interleaved schedule ---------- *)
Definition ex_node_rec (nid n1 n2 : Z) : innovation :=
  {| i_type := 1; i_in := 1; i_out := 3; i_num := n1; i_num2 := n2; i_w := 0%float; i_trait := 0;
     i_node := nid; i_old := 1; i_rec := false |}.
Definition ex_link_rec (num : Z) : innovation :=
  {| i_type := 2; i_in := 2; i_out := 3; i_num := num; i_num2 := 0; i_w := 1%float; i_trait := 1;
     i_node := 0; i_old := 0; i_rec := false |}.
(* goroutine A splits a gene (mutateAddNode), goroutine B adds a link (mutateAddLink); both look
   at the record first and find nothing *)
Definition ex_thread_a : prog Z := Innovations (fun _ => alloc_node ex_node_rec (fun nid _ _ => Ret nid)).
Definition ex_thread_b : prog Z := Innovations (fun _ => alloc_link ex_link_rec (fun num => Ret num)).
Definition ex_env : ienv := {| innovs := []; next_innov := 2; next_node := 3 |}.
Definition ex_sched : list nat := [0; 1; 0; 1; 0; 1; 0; 0]%nat.

Example ex_threads_ok : Forall (ok_prog ([], [])) [ex_thread_a; ex_thread_b].
Proof.
  constructor; [|constructor; [|constructor]].
  - apply ok_read. intros l0. apply ok_alloc_node; [intros; simpl; auto | intros; constructor].
  - apply ok_read. intros l0. apply ok_alloc_link; [intros; simpl; split; [discriminate|reflexivity] | intros; constructor].
Qed.

Example ex_schedule_result :
  exec_sched ex_sched (ex_env, [ex_thread_a; ex_thread_b]) =
  ({| innovs := [ex_link_rec 3; ex_node_rec 4 4 5]; next_innov := 5; next_node := 4 |}, [Ret 4; Ret 3]).
Proof. vm_compute. reflexivity. Qed.

Example ex_schedule_extends :
  env_extends ex_env (fst (exec_sched ex_sched (ex_env, [ex_thread_a; ex_thread_b]))).
Proof.
  destruct (exec_sched_steps ex_sched (ex_env, [ex_thread_a; ex_thread_b])) as [lbs H].
  destruct (exec_sched ex_sched (ex_env, [ex_thread_a; ex_thread_b])) as [e ts] eqn:E.
  exact (par_env_extends ex_env _ ts e lbs ex_threads_ok H).
Qed.
