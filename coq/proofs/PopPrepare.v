(* prepareForReproduction (C02): what each sub-phase may change.  Up to purgeOrganisms the species
   keep their id, age, novel flag and members (in a new order); the heap keeps its domain and every
   organism's species pointer; purgeOrganisms removes exactly the organisms it drops from
   Population.Organisms from their species as well. *)
From NeatModel Require Import Compat.
From NeatModel Require Import Res F64 GoRand Genome Options Insert Dup Mutate Mate Population MonadLemmas PopBase.
From Coq Require Import Lia Permutation.

(* ---------- adjustFitness ---------- *)
Definition kv (x : organism) : Z * Z := (o_key x, o_species x).

Lemma mark_elim_kv l : forall i n, map kv (mark_elim l i n) = map kv l.
Proof.
  induction l as [|x l IH]; intros i n; cbn; [reflexivity|]. f_equal; [|apply IH].
  now destruct (Z.geb i n).
Qed.

Lemma kv_perm_frame h orgs ks marked :
  hgets h ks = Ok orgs -> Permutation (map kv marked) (map kv orgs) ->
  hframe o_species h (hsets h marked) /\ Permutation ks (map o_key marked).
Proof.
  intros G Pm. split.
  - apply hframe_hsets. intros y Hy.
    assert (Hi : In (kv y) (map kv orgs)).
    { eapply Permutation_in; [exact Pm|]. now apply in_map. }
    apply in_map_iff in Hi. destruct Hi as (x & E & Hx). destruct (hgets_in _ _ _ _ G Hx) as [Hg _].
    unfold kv in E. injection E as E1 E2. rewrite <- E1. rewrite (hview_get o_species _ _ _ Hg). now rewrite E2.
  - rewrite <- (hgets_keys _ _ _ G).
    replace (map o_key orgs) with (map fst (map kv orgs)) by (rewrite map_map; reflexivity).
    replace (map o_key marked) with (map fst (map kv marked)) by (rewrite map_map; reflexivity).
    apply Permutation_map. now symmetry.
Qed.

Lemma adjust_fitness_ok o h s h1 s1 :
  adjust_fitness o h s = Ok (h1, s1) -> hframe o_species h h1 /\ sp_sim s s1.
Proof.
  unfold adjust_fitness. intros H. cbv zeta in H. rbind H as orgs G.
  destruct (sort_desc org_lt _) as [|top rest] eqn:S; [discriminate|].
  destruct (Z.ltb (f_trunc_Z _) 0); [discriminate|].
  cbn [mark_elim] in H.
  match type of H with context [hsets h ?m] => set (M := m) in H end.
  assert (Pm : Permutation (map kv M) (map kv orgs)).
  { transitivity (map kv (top :: rest)).
    - unfold M. cbn [map]. rewrite mark_elim_kv. apply Permutation_cons; [|reflexivity].
      now destruct (Z.geb 0 _).
    - rewrite <- S. etransitivity; [apply Permutation_map, sort_desc_perm|].
      rewrite map_map. apply Permutation_refl'. apply map_ext. intros x. reflexivity. }
  clearbody M. injection H as <- <-.
  destruct (kv_perm_frame _ _ _ _ G Pm) as [F Pk]. split; [exact F|].
  unfold sp_sim. destruct (PrimFloat.ltb _ _); cbn; auto.
Qed.

Lemma adjust_all_ok o l : forall h h2 l2,
  adjust_all o h l = Ok (h2, l2) -> hframe o_species h h2 /\ Forall2 sp_sim l l2.
Proof.
  induction l as [|s l IH]; intros h h2 l2 H; cbn [adjust_all] in H.
  - injection H as <- <-. split; [apply hframe_refl|constructor].
  - rbind H as r Hr. destruct r as [h1 s1]. rbind H as r2 Hr2. destruct r2 as [h2' l2']. injection H as <- <-.
    apply adjust_fitness_ok in Hr. destruct Hr as [F1 S1]. apply IH in Hr2. destruct Hr2 as [F2 S2].
    split; [eapply hframe_trans; eauto|now constructor].
Qed.

(* ---------- purgeZeroOffspringSpecies ---------- *)
Lemma sp_sim_exp s n : sp_sim s (sp_with_exp s n).
Proof. unfold sp_sim. cbn. auto. Qed.

Lemma count_all_ok h l : forall skim tot l2 t, count_all h l skim tot = Ok (l2, t) -> Forall2 sp_sim l l2.
Proof.
  induction l as [|s l IH]; intros skim tot l2 t H; cbn [count_all] in H.
  - injection H as <- _. constructor.
  - rbind H as orgs G. destruct (count_offspring orgs 0 skim) as [e skim'].
    rbind H as r Hr. destruct r as [l2' t']. injection H as <- _.
    constructor; [apply sp_sim_exp|]. eapply IH; eauto.
Qed.

Lemma best_by_exp_in l : forall mx best b, best_by_exp l mx best = Some b -> best = Some b \/ In b l.
Proof.
  induction l as [|s l IH]; intros mx best b H; cbn in H; [now left|].
  destruct (Z.geb (sp_exp s) mx); apply IH in H; destruct H as [H|H]; auto.
  - injection H as <-. right. now left.
  - right. now right.
  - right. now right.
Qed.

Lemma purge_zero_ok p p2 :
  purge_zero_offspring p = Ok p2 -> NoDup (map sp_id (p_species p)) ->
  exists sps, Forall2 sp_sim (p_species p) sps /\
    p_species p2 = filter (fun s => Z.gtb (sp_exp s) 0) sps /\
    p_detached p2 = p_detached p ++ filter (fun s => negb (Z.gtb (sp_exp s) 0)) sps /\
    hframe pe (p_heap p) (p_heap p2) /\ p_orgs p2 = p_orgs p /\
    p_last_species p2 = p_last_species p /\ p_next_key p2 = p_next_key p.
Proof.
  unfold purge_zero_offspring. intros H Hn. rbind H as orgs G. cbv zeta in H.
  match type of H with context [count_all ?hh _ _ _] => set (h1 := hh) in H end.
  assert (F : hframe pe (p_heap p) h1).
  { subst h1. destruct (PrimFloat.eqb _ _); [apply hframe_refl|]. apply hframe_hsets.
    intros y Hy. apply in_map_iff in Hy. destruct Hy as (x & <- & Hx).
    destruct (hgets_in _ _ _ _ G Hx) as [Hg _]. cbn. now rewrite (hview_get pe _ _ _ Hg). }
  rbind H as r C. destruct r as [sps te]. apply count_all_ok in C.
  match type of H with context [filter (fun s => Z.gtb (sp_exp s) 0) ?x] => set (S := x) in H end.
  injection H as <-. exists S. cbn. splits; auto.
  pose proof (forall2_sim_ids _ _ C) as Eids.
  assert (Hn' : NoDup (map sp_id sps)) by now rewrite Eids.
  eapply forall2_sim_trans; [exact C|]. subst S.
  destruct (Z.ltb te (zlen orgs)); [|apply forall2_sim_refl].
  destruct (best_by_exp sps 0 None) as [b|] eqn:B.
  - apply best_by_exp_in in B. destruct B as [B|B]; [discriminate|].
    assert (S1 : Forall2 sp_sim sps (sp_replace sps (sp_with_exp b (sp_exp b + 1)))).
    { eapply forall2_sim_replace_nodup; eauto. apply sp_sim_exp. }
    destruct (Z.ltb _ _); [|exact S1].
    eapply forall2_sim_trans; [exact S1|].
    eapply forall2_sim_trans; [apply (forall2_sim_map _ (fun s => sp_with_exp s 0)); intros; apply sp_sim_exp|].
    eapply (forall2_sim_replace_nodup _ (sp_with_exp (sp_with_exp b (sp_exp b + 1)) 0)).
    + rewrite map_map. cbn. change (fun x => sp_id x) with sp_id. now rewrite sp_replace_ids.
    + apply (in_map (fun s => sp_with_exp s 0)). apply sp_replace_in_new. exists b. auto.
    + unfold sp_sim. cbn. auto.
  - destruct (Z.ltb _ _); [|apply forall2_sim_refl].
    apply (forall2_sim_map _ (fun s => sp_with_exp s 0)). intros; apply sp_sim_exp.
Qed.

(* ---------- deltaCoding ---------- *)
Record same_frame (p p5 : population) : Prop := {
  sf_species : Forall2 sp_sim (p_species p) (p_species p5);
  sf_detached : p_detached p5 = p_detached p;
  sf_orgs : p_orgs p5 = p_orgs p;
  sf_heap : hframe pe (p_heap p) (p_heap p5);
  sf_last : p_last_species p5 = p_last_species p;
  sf_key : p_next_key p5 = p_next_key p }.

Lemma same_frame_refl p : same_frame p p.
Proof. constructor; auto using forall2_sim_refl, hframe_refl. Qed.

Lemma same_frame_trans a b c : same_frame a b -> same_frame b c -> same_frame a c.
Proof.
  intros [A1 A2 A3 A4 A5 A6] [B1 B2 B3 B4 B5 B6].
  constructor; [eapply forall2_sim_trans; eauto|congruence|congruence|eapply hframe_trans; eauto|congruence|congruence].
Qed.

Lemma fold_zero_sim rest : forall sps,
  Forall2 sp_sim sps (fold_left (fun acc id => sp_set acc id (fun s => sp_with_exp s 0)) rest sps).
Proof.
  induction rest as [|id rest IH]; intros sps; cbn; [apply forall2_sim_refl|].
  eapply forall2_sim_trans; [|apply IH]. apply forall2_sim_set. intros; apply sp_sim_exp.
Qed.

Lemma delta_coding_ok o p sorted p5 : delta_coding o p sorted = Ok p5 -> same_frame p p5.
Proof.
  unfold delta_coding. cbv zeta. intros H.
  assert (R : forall s n, sp_sim s {| sp_id := sp_id s; sp_age := sp_age s; sp_maxfit := sp_maxfit s; sp_exp := n;
                                     sp_novel := sp_novel s; sp_orgs := sp_orgs s; sp_lastimp := sp_age s |}).
  { intros s n. unfold sp_sim. cbn. auto. }
  destruct sorted as [|a [|b rest]]; [discriminate| |].
  - rbind H as sa Ha. rbind H as h1 H1. injection H as <-. apply set_champ_super_ok in H1.
    constructor; cbn; auto. apply forall2_sim_set. intros; apply R.
  - rbind H as sa Ha. rbind H as sb Hb. rbind H as h1 H1. rbind H as h2 H2. injection H as <-.
    apply set_champ_super_ok in H1. apply set_champ_super_ok in H2.
    constructor; cbn; auto; [|eapply hframe_trans; eauto].
    eapply forall2_sim_trans; [|apply fold_zero_sim].
    eapply forall2_sim_trans; apply forall2_sim_set; intros; apply R.
Qed.

(* ---------- giveBabiesToTheBest ---------- *)
Lemma steal_loop_ok o rs : forall sps stolen, Forall2 sp_sim sps (fst (steal_loop o sps rs stolen)).
Proof.
  induction rs as [|id r IH]; intros sps stolen; cbn [steal_loop]; [apply forall2_sim_refl|].
  destruct (Z.geb stolen (o_babies_stolen o)); [apply forall2_sim_refl|].
  destruct (sp_find sps id) as [s|]; [|apply IH].
  destruct (_ && _); [|apply IH].
  destruct (Z.geb _ _); (eapply forall2_sim_trans; [|apply IH]); apply forall2_sim_set; intros; apply sp_sim_exp.
Qed.

Lemma give_loop_ok o sorted : forall bi blocks sps h stolen s sps' h' st' s',
  give_loop o sorted bi blocks (sps, h, stolen) s = Ok ((sps', h', st'), s') ->
  Forall2 sp_sim sps sps' /\ hframe pe h h'.
Proof.
  induction sorted as [|id r IH]; intros bi blocks sps h stolen s sps' h' st' s' H; cbn [give_loop] in H.
  - apply ret_ok in H. destruct H as [H _]. injection H as <- <- _. split; [apply forall2_sim_refl|apply hframe_refl].
  - destruct (sp_find sps id) as [sp|]; [|discriminate].
    destruct (Z.gtb _ _); [eapply IH; eauto|].
    mbind H as acc' s1 H1 H2.
    assert (A : let '(sps1, h1, _) := acc' in Forall2 sp_sim sps sps1 /\ hframe pe h h1).
    { assert (Fin : forall n f x s0, (forall y, sp_sim y (f y)) ->
                (let! h1 := lift (set_champ_super h sp n) in ret (sp_set sps id f, h1, x)) s0 = Ok (acc', s1) ->
                let '(sps1, h1, _) := acc' in Forall2 sp_sim sps sps1 /\ hframe pe h h1).
      { intros n f x s0 Hf HH. mbind HH as h1 s2 Hh HH. apply lift_ok in Hh. destruct Hh as [Hh ->].
        apply ret_ok in HH. destruct HH as [<- _]. split; [now apply forall2_sim_set|].
        eapply set_champ_super_ok; eauto. }
      assert (Id : forall s0, ret (sps, h, stolen) s0 = Ok (acc', s1) ->
                let '(sps1, h1, _) := acc' in Forall2 sp_sim sps sps1 /\ hframe pe h h1).
      { intros s0 HH. apply ret_ok in HH. destruct HH as [<- _]. split; [apply forall2_sim_refl|apply hframe_refl]. }
      destruct (_ && _).
      - eapply Fin; [|exact H1]. intros; apply sp_sim_exp.
      - destruct (Z.geb bi 3); [|eapply Id; eauto].
        mbind H1 as rr s2 Hr H1. destruct (PrimFloat.ltb _ rr); [|eapply Id; eauto].
        destruct (Z.gtb stolen 3); (eapply Fin; [|exact H1]); intros; apply sp_sim_exp. }
    destruct acc' as [[sps1 h1] st1]. destruct A as [A1 A2].
    destruct (Z.leb st1 0).
    + apply ret_ok in H2. destruct H2 as [H2 _]. injection H2 as <- <- _. auto.
    + apply IH in H2. destruct H2 as [B1 B2]. split; [eapply forall2_sim_trans; eauto|eapply hframe_trans; eauto].
Qed.

Lemma give_babies_ok o p sorted s p5 s' : give_babies o p sorted s = Ok (p5, s') -> same_frame p p5.
Proof.
  unfold give_babies. pose proof (steal_loop_ok o (rev sorted) (p_species p) 0) as St.
  destruct (steal_loop o (p_species p) (rev sorted) 0) as [sps1 stolen]. cbn [fst] in St. cbv zeta.
  intros H. mbind H as r s1 Hg H. destruct r as [[sps2 h2] leftover].
  apply give_loop_ok in Hg. destruct Hg as [G1 G2].
  destruct (Z.gtb leftover 0).
  - destruct sorted as [|id rest]; [discriminate|]. destruct (sp_find sps2 id) as [sp|]; [|discriminate].
    mbind H as c s2 Hc H. apply lift_ok in Hc. destruct Hc as [Hc ->].
    apply ret_ok in H. destruct H as [<- _].
    apply first_org_ok in Hc. destruct Hc as (k & r & _ & Hk).
    constructor; cbn; auto.
    + eapply forall2_sim_trans; [exact St|]. eapply forall2_sim_trans; [exact G1|].
      apply forall2_sim_set. intros; apply sp_sim_exp.
    + eapply hframe_trans; [exact G2|]. apply (hframe_hset_get pe h2 c); [|reflexivity].
      cbn. now rewrite (hget_key _ _ _ Hk).
  - apply ret_ok in H. destruct H as [<- _]. constructor; cbn; auto.
    eapply forall2_sim_trans; eauto.
Qed.

(* ---------- purgeOrganisms ---------- *)
Lemma purge_loop_ok : forall ks p keep p6,
  purge_organisms_loop p ks keep = Ok p6 ->
  Wf (all_sp p) (p_heap p) (fun x => In x (rev keep) \/ In x ks) -> NoDup (rev keep ++ ks) ->
  Wf (all_sp p6) (p_heap p6) (fun x => In x (p_orgs p6)) /\ NoDup (p_orgs p6) /\
  incl (p_orgs p6) (rev keep ++ ks) /\ p_heap p6 = p_heap p /\
  map meta (p_species p6) = map meta (p_species p) /\
  p_last_species p6 = p_last_species p /\ p_next_key p6 = p_next_key p /\
  map sp_id (all_sp p6) = map sp_id (all_sp p).
Proof.
  induction ks as [|k ks IH]; intros p keep p6 H W Hn; cbn [purge_organisms_loop] in H.
  - injection H as <-. cbn. rewrite app_nil_r in *. splits; auto using incl_refl.
    eapply Wf_iff; [exact W|]. intros x. cbn. tauto.
  - rbind H as x Hx. pose proof (hget_key _ _ _ Hx) as Ek.
    apply nodup_app_inv in Hn. destruct Hn as (N1 & N2 & N3). inversion N2 as [|? ? Nk N4]; subst.
    destruct (o_elim x).
    + rbind H as p1 H1. apply remove_from_species_ok in H1.
      destruct H1 as (R & Em & _ & Eh & Eo & El & En).
      assert (W1 : Wf (all_sp p1) (p_heap p1) (fun y => In y (rev keep) \/ In y ks)).
      { rewrite Eh. eapply Wf_iff.
        - eapply Wf_remove; [exact W| |right; now left|exact R]. now apply hview_get.
        - intros y. cbn. split.
          + intros [[Hy|[Hy|Hy]] Ny]; auto. congruence.
          + intros [Hy|Hy]; (split; [auto|]); intros ->.
            * apply (N3 (o_key x)); [assumption|now left].
            * contradiction. }
      destruct (IH _ _ _ H W1) as (A1 & A2 & A3 & A4 & A5 & A6 & A7 & A8).
      { apply nodup_app; auto. intros y Hy1 Hy2. apply (N3 y); [assumption|now right]. }
      assert (Ei : map sp_id (all_sp p1) = map sp_id (all_sp p)).
      { apply remove_org_ok in R. destruct R as (s0 & _ & ->). apply sp_replace_ids. }
      splits; auto; try congruence.
      intros y Hy. apply A3 in Hy. apply in_app_or in Hy. apply in_or_app. destruct Hy; [now left|right; now right].
    + assert (W1 : Wf (all_sp p) (p_heap p) (fun y => In y (rev (o_key x :: keep)) \/ In y ks)).
      { eapply Wf_iff; [exact W|]. intros y. cbn. rewrite in_app_iff. cbn. tauto. }
      destruct (IH _ _ _ H W1) as (A1 & A2 & A3 & A4 & A5 & A6 & A7 & A8).
      { cbn. rewrite <- app_assoc. cbn. apply nodup_app; auto. }
      splits; auto.
      intros y Hy. apply A3 in Hy. cbn in Hy. rewrite <- app_assoc in Hy. exact Hy.
Qed.

(* ---------- prepareForReproduction ---------- *)
Lemma meta_ids l1 l2 : map meta l1 = map meta l2 -> map sp_id l1 = map sp_id l2.
Proof.
  intros H. replace (map sp_id l1) with (map (fun m : Z * Z * bool => fst (fst m)) (map meta l1))
    by (rewrite map_map; reflexivity).
  rewrite H, map_map. reflexivity.
Qed.

Record prepared (p p6 : population) (best : Z) : Prop := {
  pr_wf : Wf (all_sp p6) (p_heap p6) (fun k => In k (p_orgs p6));
  pr_nodup : NoDup (p_orgs p6);
  pr_incl : incl (p_orgs p6) (p_orgs p);
  pr_heap : hframe o_species (p_heap p) (p_heap p6);
  pr_meta : incl (map meta (p_species p6)) (map meta (p_species p));
  pr_last : p_last_species p6 = p_last_species p;
  pr_key : p_next_key p6 = p_next_key p;
  pr_all_ids : forall id, In id (map sp_id (all_sp p6)) -> In id (map sp_id (p_species p));
  pr_best : In best (map sp_id (p_species p6)) }.

Lemma prepare_ok o p s p6 sorted best s' :
  prepare o p s = Ok ((p6, sorted, best), s') ->
  Wf (p_species p) (p_heap p) (fun k => In k (p_orgs p)) -> p_detached p = [] -> NoDup (p_orgs p) ->
  prepared p p6 best.
Proof.
  unfold prepare. intros H W Hd Hn.
  mbind H as r s1 Ha H. apply lift_ok in Ha. destruct Ha as [Ha ->]. destruct r as [h1 sps1].
  apply adjust_all_ok in Ha. destruct Ha as [F1 S1].
  mbind H as p2 s2 Hz H. apply lift_ok in Hz. destruct Hz as [Hz ->].
  apply purge_zero_ok in Hz; [|cbn; rewrite (forall2_sim_ids _ _ S1); eapply wf_ids; eauto].
  cbn in Hz. destruct Hz as (sps & S2 & Es & Ed & F2 & Eo & El & Ek). rewrite Hd in Ed. cbn in Ed.
  destruct (sort_desc (species_lt (p_heap p2)) (p_species p2)) as [|b rest] eqn:Sd; [discriminate|].
  assert (Hb : In b (p_species p2)).
  { eapply Permutation_in; [apply sort_desc_perm|]. rewrite Sd. now left. }
  mbind H as c s3 Hc H. apply lift_ok in Hc. destruct Hc as [Hc ->].
  apply first_org_ok in Hc. destruct Hc as (kc & rc & _ & Hkc).
  cbv zeta in H.
  mbind H as p5 s5 H5 H.
  mbind H as p6' s6 H6 H. apply lift_ok in H6. destruct H6 as [H6 ->].
  apply ret_ok in H. destruct H as [H _]. injection H as <- _ <-.
  (* the population handed to deltaCoding / giveBabies *)
  set (h3 := hset (p_heap p2) (o_with_popchamp c true)) in *.
  assert (F3 : hframe pe (p_heap p2) h3).
  { subst h3. apply (hframe_hset_get pe _ c); [|reflexivity]. cbn. now rewrite (hget_key _ _ _ Hkc). }
  assert (SF : exists p4, same_frame p4 p5 /\ p_species p4 = p_species p2 /\ p_detached p4 = p_detached p2 /\
                          p_orgs p4 = p_orgs p2 /\ p_heap p4 = h3 /\ p_last_species p4 = p_last_species p2 /\
                          p_next_key p4 = p_next_key p2).
  { destruct (PrimFloat.ltb (p_highest _) _);
      (eexists; split; [|splits];
       [destruct (Z.geb _ _);
        [apply lift_ok in H5; destruct H5 as [H5 _]; eapply delta_coding_ok; exact H5|
         destruct (Z.gtb _ _);
         [eapply give_babies_ok; exact H5|apply ret_ok in H5; destruct H5 as [<- _]; apply same_frame_refl]]
       |..]); reflexivity. }
  destruct SF as (p4 & [G1 G2 G3 G4 G5 G6] & E1 & E2 & E3 & E4 & E5 & E6).
  (* species of p5 against the species of p *)
  assert (R : sp_rel (p_species p) (all_sp p5)).
  { eapply sp_rel_trans; [apply sp_rel_forall2; eapply forall2_sim_trans; [exact S1|exact S2]|].
    eapply sp_rel_trans; [apply sp_rel_perm, (filter_partition_perm (fun s => Z.gtb (sp_exp s) 0))|].
    rewrite <- Es, <- Ed. apply sp_rel_forall2. unfold all_sp. rewrite G2, E2.
    apply Forall2_app; [now rewrite <- E1|apply forall2_sim_refl]. }
  assert (F25 : hframe pe (p_heap p2) (p_heap p5)).
  { eapply hframe_trans; [exact F3|]. now rewrite <- E4. }
  assert (F5 : hframe o_species (p_heap p) (p_heap p5)).
  { eapply hframe_trans; [exact F1|]. apply hframe_pe_species. eapply hframe_trans; [exact F2|exact F25]. }
  assert (W5 : Wf (all_sp p5) (p_heap p5) (fun k => In k (rev []) \/ In k (p_orgs p5))).
  { eapply Wf_iff; [eapply Wf_ext; [eapply Wf_rel; [exact W|exact R]|apply hframe_ext, F5]|].
    intros k. cbn. rewrite G3, E3, Eo. cbn. tauto. }
  unfold purge_organisms in H6. apply purge_loop_ok in H6; [|exact W5|].
  2:{ cbn. rewrite G3, E3, Eo. exact Hn. }
  destruct H6 as (A1 & A2 & A3 & A4 & A5 & A6 & A7 & A8).
  assert (M5 : incl (map meta (p_species p5)) (map meta (p_species p))).
  { intros m Hm. apply in_map_iff in Hm. destruct Hm as (s5' & <- & Hs5).
    destruct R as (_ & R2 & _). destruct (R2 s5') as (s0 & Hs0 & Ss); [unfold all_sp; apply in_or_app; now left|].
    rewrite (sp_sim_meta _ _ Ss). now apply in_map. }
  constructor; auto.
  - cbn in A3. rewrite G3, E3, Eo in A3. exact A3.
  - rewrite A4. exact F5.
  - rewrite A5. exact M5.
  - congruence.
  - congruence.
  - intros id Hid. rewrite A8 in Hid. destruct R as (R1 & _ & _).
    eapply Permutation_in; [symmetry; exact R1|exact Hid].
  - rewrite (meta_ids _ _ A5), (forall2_sim_ids _ _ G1), E1. now apply in_map.
Qed.
