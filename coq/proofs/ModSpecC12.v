(* C12 for feed-forward networks WITH modules, over the reals: after enough steps the standard solver
   (Network.ForwardSteps) and the fast solver's forward stepping both return the unique solution of the node equations
     ordinary neuron p :  v p = f (type p) (sum of weight * v source)
     module output h  :  v h = mf (type of the control node) (v of the module's inputs)
   so they agree.  "Enough": k >= dp o for every output o, where dp is any function with dp source < dp p for the links
   into ordinary neurons and dp input <= dp h, 1 <= dp h for a module (a module costs no extra step: in both solvers a
   module reads the values of the pass in which it runs).

   Premises beyond those of the module-free theorem (SolverMain): every control node has exactly one outgoing link,
   into a neuron that no other control node writes; module INPUTS are neurons (for a sensor the fast solver reads 0,
   see props/C12.v: the solvers then disagree); the control nodes are listed in dependency order (a module that reads
   another module's output comes later in Network.controlNodes: in both solvers a module listed earlier reads the
   relay neuron's own activation instead).  Neurons written by a module need no incoming links. *)
From NeatModel Require Import Res Net Fast NetMod FastMod SolverUtil SolverSpec SolverStd SolverFast SolverBuild SolverLoad SolverMain.
From Coq Require Import Reals Lra Arith Lia.
Open Scope nat_scope.

(* ActivateModuleByType over the reals: one output per registered module type *)
Definition mract (mknown : Z -> bool) (mf : Z -> list R -> R) (code : Z) (xs : list R) : res (list R) :=
  if mknown code then Ok [mf code xs] else GoErr ErrUnknownModuleActivation.

Definition mout (c : cnode) : nat := hd 0 (cn_out c).
Definition mouts (cs : list cnode) : list nat := map mout cs.

(* a module's inputs are not written by itself or by a module listed after it *)
Fixpoint ordered (cs : list cnode) : Prop :=
  match cs with
  | [] => True
  | c :: rest => (forall i, In i (cn_in c) -> ~ In i (mouts (c :: rest))) /\ ordered rest
  end.

Lemma ordered_app pre c rest : ordered (pre ++ c :: rest) -> forall i, In i (cn_in c) -> ~ In i (mouts (c :: rest)).
Proof. induction pre as [|a pre IH]; simpl; intros [H1 H2]; [exact H1|exact (IH H2)]. Qed.

Section ModFF.
Variable n : mnet R.
Variable known : Z -> bool.
Variable f : Z -> R -> R.
Variable mknown : Z -> bool.
Variable mf : Z -> list R -> R.
Variable dp : nat -> nat.
Variable v : nat -> R.

Notation nn := (m_net n).
Notation N := (nnodes (m_net n)).
Notation act := (ract known f).
Notation mact := (mract mknown mf).

Definition is_mout (p : nat) : Prop := In p (mouts (m_ctrl n)).

Record mffnet : Prop := mkMFF {
  mf_ok : mnet_ok n = true;
  mf_notd : forall p l, p < N -> In l (nd_in (node_at nn p)) -> l_td l = false;
  mf_one : forall c, In c (m_ctrl n) -> cn_out c = [mout c];
  mf_out_neuron : forall c, In c (m_ctrl n) -> neuronb nn (mout c) = true;
  mf_in_neuron : forall c i, In c (m_ctrl n) -> In i (cn_in c) -> neuronb nn i = true;
  mf_nodup : NoDup (mouts (m_ctrl n));
  mf_ordered : ordered (m_ctrl n);
  mf_fed : forall p, p < N -> neuronb nn p = true -> ~ is_mout p -> nd_in (node_at nn p) <> [];
  mf_rank : forall p l, p < N -> neuronb nn p = true -> ~ is_mout p -> In l (nd_in (node_at nn p)) -> dp (l_src l) < dp p;
  mf_mrank : forall c, In c (m_ctrl n) -> 1 <= dp (mout c) /\ forall i, In i (cn_in c) -> dp i <= dp (mout c);
  mf_known : forall p, p < N -> neuronb nn p = true -> known (nd_act (node_at nn p)) = true;
  mf_mknown : forall c, In c (m_ctrl n) -> mknown (cn_act c) = true;
  mf_outs : forall o, In o (outputs nn) -> neuronb nn o = true
}.

Definition msolves : Prop :=
  (forall p, p < N -> neuronb nn p = true -> ~ is_mout p ->
     v p = f (nd_act (node_at nn p)) (wsum v (nd_in (node_at nn p)))) /\
  (forall c, In c (m_ctrl n) -> v (mout c) = mf (cn_act c) (map v (cn_in c))).

Hypothesis FF : mffnet.
Hypothesis SOL : msolves.

Lemma net_ok_of : net_ok nn = true.
Proof. pose proof (mf_ok FF) as H. unfold mnet_ok in H. apply andb_true_iff in H. apply H. Qed.

Lemma ctrl_in_range c : In c (m_ctrl n) -> (forall i, In i (cn_in c) -> i < N) /\ (forall i, In i (cn_out c) -> i < N).
Proof.
  intros Hc. pose proof (mf_ok FF) as H. unfold mnet_ok in H. apply andb_true_iff in H. destruct H as [_ H].
  rewrite forallb_forall in H. specialize (H c Hc). apply andb_true_iff in H. destruct H as [H1 H2].
  rewrite forallb_forall in H1. rewrite forallb_forall in H2.
  split; intros i Hi; apply Nat.ltb_lt; auto.
Qed.

Lemma mout_lt c : In c (m_ctrl n) -> mout c < N.
Proof. intros Hc. apply (proj2 (ctrl_in_range c Hc)). rewrite (mf_one FF c Hc). simpl. auto. Qed.

Lemma is_mout_dec p : {is_mout p} + {~ is_mout p}.
Proof. apply in_dec. apply Nat.eq_dec. Qed.

Lemma is_mout_inv p : is_mout p -> exists c, In c (m_ctrl n) /\ mout c = p.
Proof. unfold is_mout, mouts. intros H. apply in_map_iff in H. destruct H as (c & E & Hc). eauto. Qed.

Lemma no_depth_zero p : p < N -> neuronb nn p = true -> 1 <= dp p.
Proof.
  intros Hp Hn. destruct (is_mout_dec p) as [Hm|Hm].
  - destruct (is_mout_inv p Hm) as (c & Hc & <-). apply (mf_mrank FF c Hc).
  - pose proof (mf_fed FF p Hp Hn Hm) as Hne.
    destruct (nd_in (node_at nn p)) as [|l rest] eqn:E; [congruence|].
    pose proof (mf_rank FF p l Hp Hn Hm) as Hr. rewrite E in Hr. specialize (Hr (or_introl eq_refl)). lia.
Qed.

(* ======================= standard solver ======================= *)
Notation state := (sstate R).

Definition good (s : state) (p : nat) : Prop := onB s p = true /\ (0 < cntZ s p)%Z /\ actR s p = v p.

Lemma good_ao s p : good s p -> ao s p = v p.
Proof.
  intros (_ & C & A). unfold ao, active_out. fold (cntZ s p).
  destruct (0 <? cntZ s p)%Z eqn:E; [exact A|]. apply Z.ltb_ge in E. lia.
Qed.

Lemma Fin_zero_m s : base nn v s -> Fin nn dp v 0 s.
Proof. intros B. split; [exact B|]. intros p Hp Hn Hd. pose proof (no_depth_zero p Hp Hn). lia. Qed.

(* the two loops of Net.v: every ordinary neuron of depth <= j+1 gets its value (module outputs are overwritten) *)
Definition Q (j : nat) (s : state) : Prop :=
  base nn v s /\ forall p, p < N -> neuronb nn p = true -> ~ is_mout p -> dp p <= j -> good s p.

Lemma sweep_Q j s : Fin nn dp v j s -> exists s', sweep Rnum act nn s = (s', Ok true) /\ Q (S j) s'.
Proof.
  intros HF. pose proof HF as [((LA & LC & LS & LO) & CN & SV) NV].
  unfold sweep.
  destruct (phase1_spec nn s (mf_notd FF) LS LO) as (A & L1 & L2 & M & S1 & G1).
  set (s1 := phase1 Rnum nn s) in *.
  rewrite (phase2_pure nn known f (seq 0 N) s1).
  2:{ intros i Hi Hn. apply (mf_known FF); [apply in_seq in Hi; lia|exact Hn]. }
  eexists. split; [reflexivity|].
  destruct (fold_act_pure_spec nn f (seq 0 N) s1 (seq_NoDup _ _)) as ((B1 & B2) & L3 & L4 & O & S2).
  set (s' := fold_left (act_pure nn f) (seq 0 N) s1) in *.
  destruct A as (A1 & A2 & A3 & A4).
  assert (LA1 : length (s_act s1) = N) by congruence.
  assert (LC1 : length (s_cnt s1) = N) by congruence.
  assert (Hcnt1 : forall p, cntZ s1 p = cntZ s p) by (intros p; unfold cntZ; now rewrite A2).
  assert (Hact1 : forall p, actR s1 p = actR s p) by (intros p; unfold actR; now rewrite A1).
  assert (Hin : forall p, p < N -> In p (seq 0 N)) by (intros p Hp; apply in_seq; lia).
  assert (Hsrc : forall p l, p < N -> neuronb nn p = true -> ~ is_mout p -> dp p <= S j -> In l (nd_in (node_at nn p)) ->
                 ao s (l_src l) = v (l_src l) /\ lit nn s l).
  { intros p l Hp Hn Hm Hd Hl.
    pose proof (net_ok_src nn net_ok_of p l Hp Hl) as Hs.
    pose proof (mf_rank FF p l Hp Hn Hm Hl) as Hr.
    destruct (sensor_or_neuron nn (l_src l)) as [Hse|Hne].
    - split; [apply SV; assumption|right; exact Hse].
    - destruct (NV (l_src l) Hs Hne) as (O1 & C1 & A1'); [lia|].
      split; [apply good_ao; repeat split; assumption|left; exact O1]. }
  split; [split; [|split]|].
  - repeat split; congruence.
  - intros p. destruct (Nat.lt_ge_cases p N) as [Hp|Hp].
    + specialize (S2 p (Hin p Hp)). rewrite LA1, LC1 in S2. specialize (S2 Hp Hp).
      destruct (neuronb nn p && onB s1 p); destruct S2 as [_ E]; rewrite E, Hcnt1; specialize (CN p); lia.
    + destruct (O p) as [_ E]; [intros Hi; apply in_seq in Hi; lia|]. rewrite E, Hcnt1. apply CN.
  - intros p Hp Hs. specialize (S2 p (Hin p Hp)). rewrite LA1, LC1 in S2. specialize (S2 Hp Hp).
    assert (Hn : neuronb nn p = false).
    { unfold neuronb, sensorb in *. destruct (role_at nn p); simpl in *; congruence. }
    rewrite Hn in S2. simpl in S2. destruct S2 as [E1 E2].
    rewrite <- (SV p Hp Hs). unfold ao, active_out. fold (cntZ s' p) (cntZ s p).
    change (getF Rnum (s_act s') p) with (actR s' p). change (getF Rnum (s_act s) p) with (actR s p).
    now rewrite E1, E2, Hcnt1, Hact1.
  - intros p Hp Hn Hm Hd.
    assert (Hsum : sumR s1 p = wsum v (nd_in (node_at nn p))).
    { rewrite S1 by assumption. unfold wsum_ao. apply wsum_ext. intros l Hl. apply (Hsrc p l Hp Hn Hm Hd Hl). }
    assert (Hon : onB s1 p = true).
    { apply G1; try assumption.
      pose proof (mf_fed FF p Hp Hn Hm) as Hne.
      destruct (nd_in (node_at nn p)) as [|l rest] eqn:E; [congruence|].
      exists l. split; [simpl; auto|]. apply (Hsrc p l Hp Hn Hm Hd). rewrite E. simpl. auto. }
    specialize (S2 p (Hin p Hp)). rewrite LA1, LC1 in S2. specialize (S2 Hp Hp).
    rewrite Hn, Hon in S2. simpl in S2. destruct S2 as [E1 E2].
    split; [|split].
    + unfold onB. rewrite B2. exact Hon.
    + rewrite E2, Hcnt1. specialize (CN p). lia.
    + rewrite E1, Hsum. symmetry. apply (proj1 SOL); assumption.
Qed.

(* the control-node loop *)
Definition Inv (J : nat) (pre : list cnode) (s : state) : Prop :=
  base nn v s /\
  (forall p, p < N -> neuronb nn p = true -> ~ is_mout p -> dp p <= J -> good s p) /\
  (forall c, In c pre -> dp (mout c) <= J -> good s (mout c)).

Lemma set_module_output s h y :
  h < N -> lensN nn s ->
  let s' := set_on (set_activation Rnum s h y) h in
  lensN nn s' /\ onB s' h = true /\ cntZ s' h = (cntZ s h + 1)%Z /\ actR s' h = y /\
  (forall p, p <> h -> onB s' p = onB s p /\ cntZ s' p = cntZ s p /\ actR s' p = actR s p).
Proof.
  intros Hh (LA & LC & LS & LO). unfold set_on, set_activation, save_activations, lensN, onB, cntZ, actR, getB, getZ. simpl.
  rewrite !upd_length. repeat split; try assumption.
  - apply nth_upd_same. lia.
  - apply nth_upd_same. lia.
  - apply nth_upd_same. lia.
  - apply nth_upd_other. auto.
  - apply nth_upd_other. auto.
  - apply nth_upd_other. auto.
Qed.

Lemma ctrl_loop_Inv J : forall rest pre k st,
  m_ctrl n = pre ++ rest -> Inv J pre (ms_s st) ->
  exists st', ctrl_loop Rnum mact rest k st = (st', Ok true) /\ Inv J (pre ++ rest) (ms_s st').
Proof.
  induction rest as [|c rest IH]; intros pre k st Hsplit HI; simpl.
  - exists st. rewrite app_nil_r. auto.
  - assert (Hc : In c (m_ctrl n)) by (rewrite Hsplit; apply in_or_app; right; simpl; auto).
    set (s := ms_s st) in *.
    destruct HI as (B & NM & PM). pose proof B as (LN & CN & SV).
    pose proof (mout_lt c Hc) as Hh. set (h := mout c) in *.
    unfold activate_module. simpl ms_s. fold s.
    unfold mract at 1. rewrite (mf_mknown FF c Hc). rewrite (mf_one FF c Hc). fold h. simpl length. simpl.
    set (y := mf (cn_act c) (map (active_out Rnum s) (cn_in c))).
    destruct (set_module_output s h y Hh LN) as (LN' & O' & C' & A' & Oth).
    set (s' := set_on (set_activation Rnum s h y) h) in *.
    assert (Hhn : neuronb nn h = true) by (apply (mf_out_neuron FF c Hc)).
    assert (Hhm : is_mout h) by (unfold is_mout, mouts; apply in_map; exact Hc).
    assert (Hgood_other : forall p, p <> h -> good s p -> good s' p).
    { intros p Hne (G1 & G2 & G3). destruct (Oth p Hne) as (E1 & E2 & E3). unfold good. rewrite E1, E2, E3. auto. }
    assert (HI' : Inv J (pre ++ [c]) s').
    { split; [|split].
      - split; [exact LN'|split].
        + intros p. destruct (Nat.eq_dec p h) as [->|Hne]; [rewrite C'; specialize (CN h); lia|].
          destruct (Oth p Hne) as (_ & E & _). rewrite E. apply CN.
        + intros p Hp Hs. assert (Hne : p <> h).
          { intros ->. rewrite (neuron_not_sensor nn h Hhn) in Hs. discriminate. }
          destruct (Oth p Hne) as (_ & E2 & E3). rewrite <- (SV p Hp Hs). unfold ao, active_out.
          fold (cntZ s' p) (cntZ s p). change (getF Rnum (s_act s') p) with (actR s' p).
          change (getF Rnum (s_act s) p) with (actR s p). now rewrite E2, E3.
      - intros p Hp Hn Hm Hd. apply Hgood_other; [intros ->; contradiction|]. apply NM; assumption.
      - intros c' Hc' Hd. apply in_app_or in Hc'. destruct Hc' as [Hc'|[<-|[]]].
        + apply Hgood_other; [|apply PM; assumption].
          (* distinct modules write distinct neurons *)
          pose proof (mf_nodup FF) as ND. rewrite Hsplit in ND. unfold mouts in ND. rewrite map_app in ND. simpl in ND.
          apply NoDup_remove_2 in ND. intros E. apply ND. apply in_or_app. left.
          fold h. rewrite <- E. apply in_map. exact Hc'.
        + (* the module just run: its inputs carry their values *)
          fold h in Hd. fold h. split; [exact O'|]. split; [rewrite C'; specialize (CN h); lia|].
          rewrite A'. unfold y. change (v h) with (v (mout c)). rewrite (proj2 SOL c Hc). f_equal. apply map_ext_in. intros i Hi.
          change (active_out Rnum s i) with (ao s i). apply good_ao.
          pose proof (mf_in_neuron FF c i Hc Hi) as Hin.
          pose proof (proj1 (ctrl_in_range c Hc) i Hi) as Hilt.
          pose proof (proj2 (mf_mrank FF c Hc) i Hi) as Hid. fold h in Hid.
          destruct (is_mout_dec i) as [Him|Him].
          * (* written by a module: an earlier one *)
            pose proof (mf_ordered FF) as Ho. rewrite Hsplit in Ho.
            pose proof (ordered_app pre c rest Ho i Hi) as Hnot.
            unfold is_mout in Him. rewrite Hsplit in Him. unfold mouts in Him. rewrite map_app in Him.
            apply in_app_or in Him. destruct Him as [Him|Him]; [|contradiction].
            apply in_map_iff in Him. destruct Him as (c'' & <- & Hc''). apply PM; [exact Hc''|lia].
          * apply NM; try assumption. lia. }
    destruct (IH (pre ++ [c]) (S k) (set_con (with_s (set_con st k false) s') k true)) as (st' & E & HI'').
    + rewrite <- app_assoc. exact Hsplit.
    + exact HI'.
    + exists st'. split; [exact E|]. rewrite <- app_assoc in HI''. exact HI''.
Qed.

(* one pass of the ActivateSteps loop *)
Lemma msweep_Fin j st :
  Fin nn dp v j (ms_s st) ->
  exists st', msweep Rnum act mact n st = (st', Ok true) /\ Fin nn dp v (S j) (ms_s st').
Proof.
  intros HF. unfold msweep. destruct (sweep_Q j (ms_s st) HF) as (s2 & E & (B & NM)). rewrite E.
  destruct (ctrl_loop_Inv (S j) (m_ctrl n) [] 0 (with_s st s2) eq_refl) as (st' & E' & (B' & NM' & PM')).
  { split; [exact B|]. split; [exact NM|]. intros c []. }
  exists st'. split; [exact E'|]. split; [exact B'|].
  intros p Hp Hn Hd. destruct (is_mout_dec p) as [Hm|Hm].
  - destruct (is_mout_inv p Hm) as (c & Hc & <-). apply PM'; assumption.
  - apply NM'; assumption.
Qed.

Variable k : Z.
Hypothesis k_pos : (1 <= k)%Z.
Hypothesis k_depth : forall o, In o (outputs nn) -> (Z.of_nat (dp o) <= k)%Z.

Lemma outputs_on_m j s : Fin nn dp v j s -> (k <= Z.of_nat j)%Z -> output_is_off nn s = false.
Proof.
  intros [B NV] Hj. unfold output_is_off.
  destruct (existsb (fun o => getZ (s_cnt s) o =? 0)%Z (outputs nn)) eqn:E; [|reflexivity].
  apply existsb_exists in E. destruct E as [o [Ho E]]. apply Z.eqb_eq in E.
  pose proof (net_ok_outputs nn net_ok_of o Ho) as Hlt.
  pose proof (mf_outs FF o Ho) as Hn.
  destruct (NV o Hlt Hn) as (_ & C & _); [specialize (k_depth o Ho); lia|].
  unfold cntZ in C. lia.
Qed.

Lemma mactivate_loop_Fin fuel : forall a j st,
  Fin nn dp v j (ms_s st) -> (Z.of_nat a <= k)%Z -> a <= j -> Z.to_nat k + 1 <= fuel + a ->
  exists st' m, mactivate_loop Rnum act mact n fuel k (Z.of_nat a) (0 <? a) st = (st', Ok true) /\
                Fin nn dp v (j + m) (ms_s st') /\ (a = 0 -> 1 <= m).
Proof.
  induction fuel as [|fuel IH]; intros a j st HF Ha Haj Hfuel.
  - exfalso. lia.
  - simpl. destruct (output_is_off nn (ms_s st) || negb (0 <? a)) eqn:Ec.
    + destruct (Z.of_nat a >=? k)%Z eqn:Ek.
      * exfalso. apply Z.geb_le in Ek.
        rewrite (outputs_on_m j (ms_s st) HF) in Ec by lia. simpl in Ec.
        destruct (0 <? a) eqn:E0; [discriminate|]. apply Nat.ltb_ge in E0. lia.
      * assert (Hlt : (Z.of_nat a < k)%Z) by (destruct (Z.geb_spec (Z.of_nat a) k); [discriminate|lia]).
        destruct (msweep_Fin j st HF) as (st1 & Es & HF1). rewrite Es.
        destruct (IH (S a) (S j) st1 HF1) as (st' & m & E & HF' & _); try lia.
        replace (Z.of_nat a + 1)%Z with (Z.of_nat (S a)) by lia.
        change (0 <? S a) with true in E.
        exists st', (S m). split; [exact E|]. split; [|lia].
        replace (j + S m) with (S j + m) by lia. exact HF'.
    + exists st, 0. split; [reflexivity|]. split; [now rewrite Nat.add_0_r|].
      intros ->. apply orb_false_iff in Ec. destruct Ec as [_ Ec]. discriminate.
Qed.

Lemma mactivate_steps_Fin j st :
  Fin nn dp v j (ms_s st) ->
  exists st' m, mactivate_steps Rnum act mact n k st = (st', Ok true) /\ Fin nn dp v (j + m) (ms_s st') /\ 1 <= m.
Proof.
  intros HF. unfold mactivate_steps. destruct (k =? 0)%Z eqn:E; [apply Z.eqb_eq in E; lia|].
  destruct (mactivate_loop_Fin (S (Z.to_nat k)) 0 j st HF) as (st' & m & E1 & HF' & Hm); try lia.
  exists st', m. simpl in E1. auto.
Qed.

Lemma mforward_loop_Fin it : forall j st last,
  Fin nn dp v j (ms_s st) ->
  exists st' j', mforward_loop Rnum act mact n it k last st = (st', Ok (if it =? 0 then last else true)) /\
                 Fin nn dp v j' (ms_s st') /\ j + it <= j'.
Proof.
  induction it as [|it IH]; intros j st last HF; simpl.
  - exists st, j. split; [reflexivity|]. split; [exact HF|lia].
  - destruct (mactivate_steps_Fin j st HF) as (st1 & m & E1 & HF1 & Hm). rewrite E1.
    destruct (IH (j + m) st1 true HF1) as (st' & j' & E2 & HF' & Hj').
    exists st', j'. split; [|split; [exact HF'|lia]].
    rewrite E2. destruct (it =? 0); reflexivity.
Qed.

(* ForwardSteps k from any state whose sensors carry v *)
Theorem mstd_forward_from_base st :
  base nn v (ms_s st) ->
  exists st', mstd_forward Rnum act mact n k st = (st', Ok true) /\ mstd_outputs Rnum n st' = map v (outputs nn).
Proof.
  intros B. unfold mstd_forward. destruct (k =? 0)%Z eqn:E; [apply Z.eqb_eq in E; lia|].
  destruct (mforward_loop_Fin (Z.to_nat k) 0 st false (Fin_zero_m _ B)) as (st' & j' & E1 & [B' NV] & Hj').
  exists st'. split.
  - rewrite E1. destruct (Z.to_nat k =? 0) eqn:E0; [apply Nat.eqb_eq in E0; lia|reflexivity].
  - unfold mstd_outputs, std_outputs. apply map_ext_in. intros o Ho.
    pose proof (net_ok_outputs nn net_ok_of o Ho) as Hlt.
    destruct (NV o Hlt (mf_outs FF o Ho)) as (_ & _ & A); [specialize (k_depth o Ho); lia|].
    exact A.
Qed.

End ModFF.
