(* C02, binary64 facts used by the totality proofs: rand.Float64() lies in [0,1), the interspecies
   dad index is a valid index, the roulette wheel returns an index inside the list, and hence
   Options.RandomNodeActivationType never returns an error.  Uses Flocq's bridge between Coq's
   primitive floats and IEEE-754 (through ActFloatBase). *)
From Coq Require Import ZArith Reals Lra Lia Bool List.
From Flocq Require Import Core BinarySingleNaN.
From Coq Require Import Floats.
From Coq Require Uint63.
From NeatModel Require Import ActFloatBase.
From NeatModel Require Import Res F64 GoRand Genome Options Population EpochTotalDefs.
Import ListNotations.
Open Scope Z_scope.

(* ---------- integers and binary64 ---------- *)
Lemma int_format53 m : Z.abs m < 2 ^ 53 -> generic_format radix2 fexp64 (IZR m).
Proof.
  intros H. change fexp64 with (FLT_exp (3 - emax - prec) prec). apply generic_format_FLT.
  apply (FLT_spec radix2 (3 - emax - prec) prec (IZR m) (Float radix2 m 0)).
  - unfold F2R. simpl. lra.
  - simpl. exact H.
  - simpl. unfold emax, prec. lia.
Qed.

Lemma pow2_format e : (-1000 <= e <= 1000) -> generic_format radix2 fexp64 (bpow radix2 e).
Proof.
  intros H. apply generic_format_bpow. unfold SpecFloat.fexp, SpecFloat.emin, emax, prec. lia.
Qed.

Lemma rnd_int53 m : Z.abs m < 2 ^ 53 -> rnd (IZR m) = IZR m.
Proof. intros H. unfold rnd. apply round_generic; auto with typeclass_instances. now apply int_format53. Qed.

Lemma rnd_bpow e : -1000 <= e <= 1000 -> rnd (bpow radix2 e) = bpow radix2 e.
Proof. intros H. unfold rnd. apply round_generic; auto with typeclass_instances. now apply pow2_format. Qed.

Lemma rnd_nonneg a : (0 <= a)%R -> (0 <= rnd a)%R.
Proof. intros H. rewrite <- rnd_0. now apply rnd_le. Qed.

Lemma bpow63 : bpow radix2 63 = IZR (2 ^ 63).
Proof. change (2 ^ 63) with (Zpower radix2 63). rewrite IZR_Zpower by lia. reflexivity. Qed.

(* float64(z) for a genuine non-negative int64 *)
Lemma f_of_Z_R z : 0 <= z < 2 ^ 63 ->
  fin (f_of_Z z) /\ FR (f_of_Z z) = rnd (IZR z) /\ (0 <= rnd (IZR z) <= bpow radix2 63)%R.
Proof.
  intros Hz.
  assert (Hb : (0 <= rnd (IZR z) <= bpow radix2 63)%R).
  { split.
    - apply rnd_nonneg. apply IZR_le. lia.
    - rewrite <- (rnd_bpow 63) by lia. apply rnd_le. rewrite bpow63. apply IZR_le. lia. }
  destruct z as [|p|p]; [| |lia].
  - cbn [f_of_Z]. split; [vm_compute; reflexivity|]. split; [|exact Hb].
    change PrimFloat.zero with 0%float. rewrite FR_zero. symmetry. apply rnd_0.
  - cbn [f_of_Z].
    assert (Ht : Uint63.to_Z (Uint63.of_Z (Z.pos p)) = Z.pos p).
    { rewrite Uint63.of_Z_spec. apply Z.mod_small. change Uint63.wB with (2 ^ 63). lia. }
    pose proof (FP.of_int63_equiv (Uint63.of_Z (Z.pos p))) as E. rewrite Ht in E.
    pose proof (binary_normalize_correct prec emax FP.Hprec FP.Hmax mode_NE (Z.pos p) 0 false) as H.
    cbv zeta in H.
    replace (F2R (Float radix2 (Z.pos p) 0)) with (IZR (Z.pos p)) in H by (unfold F2R; simpl; lra).
    change (round radix2 fexp64 (round_mode mode_NE) (IZR (Z.pos p))) with (rnd (IZR (Z.pos p))) in H.
    rewrite Rlt_bool_true in H.
    + destruct H as (H1 & H2 & _). rewrite <- E in H1, H2. split; [|split; [exact H1|exact Hb]].
      apply fin_B. exact H2.
    + rewrite Rabs_pos_eq by apply Hb. apply Rle_lt_trans with (1 := proj2 Hb).
      apply bpow_lt. unfold emax. lia.
Qed.

Lemma f_of_Z_exact z : 0 <= z < 2 ^ 53 -> fin (f_of_Z z) /\ FR (f_of_Z z) = IZR z.
Proof.
  intros Hz. destruct (f_of_Z_R z) as (F & E & _); [lia|]. split; [exact F|].
  rewrite E. apply rnd_int53. lia.
Qed.

(* ---------- floats in [0,1) ---------- *)
Lemma leb0_ltbfin_fin x y : PrimFloat.leb 0%float x = true -> PrimFloat.ltb x y = true -> fin x.
Proof.
  intros H0 H1. apply fin_B. rewrite FP.leb_equiv in H0. rewrite FP.ltb_equiv in H1.
  destruct (FP.Prim2B x) as [s|s| |s m e Hb]; try reflexivity.
  - destruct s; [discriminate H0|].
    destruct (FP.Prim2B y) as [s'|s'| |s' m' e' Hb']; try destruct s'; discriminate H1.
  - discriminate H0.
Qed.

Lemma fin_zero : fin 0%float. Proof. fin_c. Qed.
Lemma fin_one : fin 1%float. Proof. fin_c. Qed.

Lemma unit_float_R f : unit_float f -> fin f /\ (0 <= FR f < 1)%R.
Proof.
  intros [H0 H1]. assert (F : fin f) by exact (leb0_ltbfin_fin _ _ H0 H1). split; [exact F|]. split.
  - rewrite <- FR_zero. apply leb_true_R; auto using fin_zero.
  - rewrite <- FR_one. apply ltb_true_R; auto using fin_one.
Qed.

Lemma ltb_of_R x y : fin x -> fin y -> (FR x < FR y)%R -> PrimFloat.ltb x y = true.
Proof. intros Hx Hy H. rewrite ltb_R by assumption. now apply Rlt_bool_true. Qed.

Lemma FR_two63 : FR two63 = bpow radix2 63.
Proof. unfold two63. fr_const 0x1p+63%float. Qed.
Lemma fin_two63 : fin two63. Proof. fin_c. Qed.

(* one draw: float64(x) / 2^63 is a finite float in [0, 1] *)
Lemma draw_unit x : 0 <= x < 2 ^ 63 ->
  let f := PrimFloat.div (f_of_Z x) two63 in fin f /\ (0 <= FR f <= 1)%R.
Proof.
  intros Hx f. destruct (f_of_Z_R x Hx) as (F & E & Hb).
  assert (Hp : (0 < bpow radix2 63)%R) by apply bpow_gt_0.
  assert (Hq : (FR 0%float <= FR (f_of_Z x) / FR two63 <= FR 1%float)%R).
  { rewrite FR_zero, FR_one, FR_two63, E. split.
    - apply Rmult_le_pos; [apply Hb|]. left. now apply Rinv_0_lt_compat.
    - apply Rmult_le_reg_r with (bpow radix2 63); [exact Hp|]. unfold Rdiv.
      rewrite Rmult_assoc, Rinv_l by lra. lra. }
  assert (Hnz : FR two63 <> 0%R) by (rewrite FR_two63; lra).
  destruct (div_R (f_of_Z x) two63 F Hnz (rnd_no_overflow _ _ _ Hq)) as [E2 F2].
  split; [exact F2|]. fold f in E2. rewrite E2. apply rnd_between in Hq. rewrite FR_zero, FR_one in Hq. exact Hq.
Qed.

(* 1. rand.Float64() on a tape of genuine 63-bit draws lies in [0,1) *)
Lemma tape_float64_unit : forall t f t', tape_ok t -> tape_float64 t = Ok (f, t') -> unit_float f /\ tape_ok t'.
Proof.
  induction t as [|x t IH]; intros f t' Ht H; cbn [tape_float64] in H; [discriminate|].
  unfold tape_ok in Ht. inversion Ht as [|? ? Hx Ht']; subst.
  destruct (PrimFloat.eqb (PrimFloat.div (f_of_Z x) two63) 1) eqn:E.
  - exact (IH _ _ Ht' H).
  - inversion H; subst. split; [|exact Ht'].
    destruct (draw_unit x Hx) as [F [L U]].
    rewrite eqb_R in E by auto using fin_one. rewrite FR_one in E.
    assert (FR (PrimFloat.div (f_of_Z x) two63) <> 1%R).
    { intros C. rewrite Req_bool_true in E by exact C. discriminate. }
    split.
    + apply leb_of_R; [exact fin_zero|exact F|]. rewrite FR_zero. exact L.
    + apply ltb_of_R; [exact F|exact fin_one|]. rewrite FR_one. lra.
Qed.

(* ---------- truncation and floor of a non-negative finite float ---------- *)
Lemma sf_pos_val m e :
  (if Z.leb 0 e then Z.shiftl (Z.pos m) e else Z.shiftr (Z.pos m) (- e)) = Zfloor (F2R (Float radix2 (Z.pos m) e)).
Proof.
  unfold F2R. cbn [Fnum Fexp]. destruct (Z.leb 0 e) eqn:E.
  - apply Z.leb_le in E. rewrite Z.shiftl_mul_pow2 by exact E.
    rewrite <- (IZR_Zpower radix2 e E), <- mult_IZR, Zfloor_IZR. reflexivity.
  - apply Z.leb_gt in E. rewrite Z.shiftr_div_pow2 by lia.
    replace e with (- (- e)) at 2 by lia. rewrite bpow_opp, <- (IZR_Zpower radix2 (- e)) by lia.
    change (IZR (Z.pos m) * / IZR (radix2 ^ - e))%R with (IZR (Z.pos m) / IZR (radix2 ^ - e))%R.
    rewrite Zfloor_div; [reflexivity|]. change (radix_val radix2) with 2. apply Z.pow_nonzero; lia.
Qed.

Lemma fin_nonneg_sf x : fin x -> (0 <= FR x)%R ->
  (exists s, Prim2SF x = S754_zero s /\ FR x = 0%R) \/
  (exists m e, Prim2SF x = S754_finite false m e /\ FR x = F2R (Float radix2 (Z.pos m) e)).
Proof.
  intros F. apply fin_B in F. unfold FR. rewrite <- (FP.B2SF_Prim2B x).
  destruct (FP.Prim2B x) as [s|s| |s m e Hb]; try discriminate F; cbn [B2SF B2R]; intros H.
  - left. exists s. split; reflexivity.
  - right. exists m, e. destruct s; [|split; reflexivity]. exfalso.
    assert (F2R (Float radix2 (cond_Zopp true (Z.pos m)) e) < 0)%R by (apply F2R_lt_0; cbn; lia). lra.
Qed.

(* int(x) (amd64, F64.f_trunc_Z) is the integer part for a finite 0 <= x < 2^63; at and beyond 2^63, and
   for NaN and the infinities, it is math.MinInt64 (f_trunc_Z_indefinite below) *)
Lemma f_trunc_Z_floor x : fin x -> (0 <= FR x)%R -> (FR x < bpow radix2 63)%R -> f_trunc_Z x = Zfloor (FR x).
Proof.
  intros F H U. unfold f_trunc_Z. destruct (fin_nonneg_sf x F H) as [[s [-> ->]]|[m [e [-> E]]]].
  - symmetry. apply (Zfloor_IZR 0).
  - rewrite E in H, U |- *. rewrite sf_pos_val. set (r := Zfloor _).
    assert (R0 : 0 <= r) by (apply Zfloor_lub; exact H).
    assert (R1 : r < 2 ^ 63).
    { apply lt_IZR. apply Rle_lt_trans with (1 := Zfloor_lb _). rewrite <- bpow63. exact U. }
    replace (Z.leb int64_indefinite r) with true by (symmetry; apply Z.leb_le; unfold int64_indefinite; lia).
    replace (Z.ltb r 9223372036854775808) with true by (symmetry; apply Z.ltb_lt; lia).
    reflexivity.
Qed.

Lemma bpow52_lt_63 : (bpow radix2 52 < bpow radix2 63)%R.
Proof. apply bpow_lt. lia. Qed.

(* the out-of-range conversions: NaN, +Inf, -Inf *)
Lemma f_trunc_Z_not_fin x : Prim2SF x = S754_nan \/ (exists s, Prim2SF x = S754_infinity s) ->
  f_trunc_Z x = int64_indefinite.
Proof. intros [H|[s H]]; unfold f_trunc_Z; rewrite H; reflexivity. Qed.

(* every value of the conversion is an int64 *)
Lemma f_trunc_Z_int64 x : - 2 ^ 63 <= f_trunc_Z x < 2 ^ 63.
Proof.
  unfold f_trunc_Z. destruct (Prim2SF x) as [s|s| |s m e]; try (unfold int64_indefinite; lia).
  cbv zeta. set (r := if s then _ else _).
  destruct (Z.leb int64_indefinite r) eqn:A; cbn [andb]; [|unfold int64_indefinite; lia].
  destruct (Z.ltb r 9223372036854775808) eqn:B; [|unfold int64_indefinite; lia].
  apply Z.leb_le in A. apply Z.ltb_lt in B. unfold int64_indefinite in A. lia.
Qed.

Lemma FR_two52 : FR two52 = bpow radix2 52.
Proof. unfold two52. fr_const 0x1p+52%float. Qed.
Lemma fin_two52 : fin two52. Proof. fin_c. Qed.

(* int(math.Floor(p)) for a finite 0 <= p < 2^52 is the integer part of p *)
Lemma trunc_ffloor p : fin p -> (0 <= FR p < bpow radix2 52)%R -> f_trunc_Z (ffloor p) = Zfloor (FR p).
Proof.
  intros F [H0 H1]. unfold ffloor.
  assert (E : PrimFloat.leb two52 (PrimFloat.abs p) = false).
  { rewrite leb_R by auto using fin_two52, fin_abs. rewrite FR_two52, FR_abs, Rabs_pos_eq by exact H0.
    apply Rle_bool_false. exact H1. }
  rewrite E. destruct (fin_nonneg_sf p F H0) as [[s [Es Ez]]|[m [e [Es Ev]]]]; rewrite Es.
  - apply f_trunc_Z_floor; [exact F|exact H0|]. apply Rlt_trans with (1 := H1). exact bpow52_lt_63.
  - assert (Ef : f_floor_Z p = Zfloor (FR p)).
    { unfold f_floor_Z. rewrite Es, Ev. apply sf_pos_val. }
    rewrite Ef. destruct (Z.eqb (Zfloor (FR p)) 0) eqn:Z0.
    + apply Z.eqb_eq in Z0. rewrite Z0. destruct (PrimFloat.ltb p 0); vm_compute; reflexivity.
    + apply Z.eqb_neq in Z0.
      assert (Hz : 0 <= Zfloor (FR p) < 2 ^ 53).
      { split.
        - apply Zfloor_lub. exact H0.
        - apply lt_IZR. apply Rle_lt_trans with (1 := Zfloor_lb (FR p)). apply Rlt_trans with (1 := H1).
          change (2 ^ 53) with (Zpower radix2 53). rewrite IZR_Zpower by lia. apply bpow_lt. lia. }
      destruct (f_of_Z_exact _ Hz) as [F2 E2].
      rewrite f_trunc_Z_floor; [rewrite E2; apply Zfloor_IZR|exact F2|rewrite E2; apply IZR_le; lia|].
      rewrite E2, bpow63. apply IZR_lt. lia.
Qed.

(* 2. the interspecies dad index *)
Lemma FR_quarter : FR 0x1p-2%float = (/ 4)%R.  Proof. fr_const 0x1p-2%float. Qed.
Lemma fin_quarter : fin 0x1p-2%float. Proof. fin_c. Qed.
Lemma fin_four : fin 4%float. Proof. fin_c. Qed.

Lemma quarter_format len : Z.abs len < 2 ^ 53 -> generic_format radix2 fexp64 (IZR len * / 4)%R.
Proof.
  intros H. change fexp64 with (FLT_exp (3 - emax - prec) prec). apply generic_format_FLT.
  apply (FLT_spec radix2 (3 - emax - prec) prec _ (Float radix2 len (-2))).
  - unfold F2R. simpl. lra.
  - simpl. exact H.
  - simpl. unfold emax, prec. lia.
Qed.

Lemma interspecies_mul_R r len : unit_float r -> 1 <= len < 2 ^ 31 ->
  let p := PrimFloat.mul (PrimFloat.div r 4%float) (f_of_Z len) in
  fin p /\ (0 <= FR p <= IZR len * / 4)%R.
Proof.
  intros Hr Hlen p. destruct (unit_float_R r Hr) as [Fr [R0 R1]].
  assert (Hq : (FR 0%float <= FR r / FR 4%float <= FR 0x1p-2%float)%R).
  { rewrite FR_zero, FR_four, FR_quarter. lra. }
  assert (H4 : FR 4%float <> 0%R) by (rewrite FR_four; lra).
  destruct (div_R r 4%float Fr H4 (rnd_no_overflow _ _ _ Hq)) as [Em Fm].
  apply rnd_between in Hq. rewrite <- Em, FR_zero, FR_quarter in Hq.
  destruct (f_of_Z_exact len) as [Fl El]; [lia|].
  assert (L1 : (1 <= IZR len)%R) by (apply IZR_le; lia).
  set (m := PrimFloat.div r 4%float) in *.
  assert (Hb : (0 <= rnd (FR m * FR (f_of_Z len)) <= IZR len * / 4)%R).
  { rewrite El. split.
    - apply rnd_nonneg. nra.
    - unfold rnd. apply round_le_generic; auto with typeclass_instances.
      + apply quarter_format. lia.
      + nra. }
  assert (Hlt : (IZR len * / 4 < two1024)%R).
  { apply Rlt_trans with (IZR (2 ^ 53)).
    - apply Rle_lt_trans with (IZR len); [lra|]. apply IZR_lt. lia.
    - change (2 ^ 53) with (Zpower radix2 53). rewrite IZR_Zpower by lia. apply bpow_lt. unfold emax. lia. }
  destruct (mul_R m (f_of_Z len) Fm Fl) as [Ep Fp].
  - rewrite Rabs_pos_eq by apply Hb. lra.
  - split; [exact Fp|]. fold p in Ep. rewrite Ep. exact Hb.
Qed.

Lemma interspecies_index_ok : forall r len, unit_float r -> 1 <= len < 2 ^ 31 ->
  0 <= f_trunc_Z (ffloor (PrimFloat.mul (PrimFloat.div r 4%float) (f_of_Z len))) < len.
Proof.
  intros r len Hr Hlen. destruct (interspecies_mul_R r len Hr Hlen) as [Fp [P0 P1]].
  set (p := PrimFloat.mul (PrimFloat.div r 4%float) (f_of_Z len)) in *.
  assert (L1 : (1 <= IZR len)%R) by (apply IZR_le; lia).
  rewrite trunc_ffloor.
  - split.
    + apply Zfloor_lub. exact P0.
    + apply lt_IZR. apply Rle_lt_trans with (1 := Zfloor_lb (FR p)). lra.
  - exact Fp.
  - split; [exact P0|]. apply Rle_lt_trans with (1 := P1). apply Rle_lt_trans with (IZR len); [lra|].
    rewrite <- (IZR_Zpower radix2 52) by lia. apply IZR_lt. change (Zpower radix2 52) with (2 ^ 52). lia.
Qed.

(* ---------- 3. the roulette wheel ---------- *)
Definition roulette_go (throw : float) :=
  fix go (l : list float) (acc : float) (i : Z) {struct l} : Z :=
    match l with
    | [] => -1
    | v :: l' => let acc' := PrimFloat.add acc v in
                 if PrimFloat.leb throw acc' then i else go l' acc' (i + 1)
    end.

Lemma roulette_go_range throw : forall l acc i, l <> [] ->
  PrimFloat.leb throw (fold_left PrimFloat.add l acc) = true ->
  i <= roulette_go throw l acc i < i + Z.of_nat (length l).
Proof.
  induction l as [|v l IH]; intros acc i Hne H; [congruence|].
  cbn [roulette_go]. cbv zeta. cbn [fold_left] in H. cbn [length]. rewrite Nat2Z.inj_succ.
  destruct (PrimFloat.leb throw (PrimFloat.add acc v)) eqn:E; [lia|].
  destruct l as [|w l'].
  - cbn [fold_left] in H. congruence.
  - assert (Hne' : w :: l' <> []) by discriminate.
    specialize (IH (PrimFloat.add acc v) (i + 1) Hne' H). lia.
Qed.

Lemma roulette_pick_range : forall probs throw, probs <> [] ->
  PrimFloat.leb throw (fold_left PrimFloat.add probs 0%float) = true ->
  0 <= roulette_pick probs throw < Z.of_nat (length probs).
Proof.
  intros probs throw Hne H. change (roulette_pick probs throw) with (roulette_go throw probs 0%float 0).
  pose proof (roulette_go_range throw probs 0%float 0 Hne H). lia.
Qed.

Lemma throw_le_total : forall f total, unit_float f ->
  PrimFloat.leb 0%float total = true -> PrimFloat.ltb total infinity = true ->
  PrimFloat.leb (PrimFloat.mul f total) total = true.
Proof.
  intros f total Hf H0 H1. destruct (unit_float_R f Hf) as [Ff [F0 F1]].
  assert (Ft : fin total) by exact (leb0_ltbfin_fin _ _ H0 H1).
  assert (T0 : (0 <= FR total)%R) by (rewrite <- FR_zero; apply leb_true_R; auto using fin_zero).
  assert (Hq : (FR 0%float <= FR f * FR total <= FR total)%R) by (rewrite FR_zero; nra).
  destruct (mul_R f total Ff Ft (rnd_no_overflow _ _ _ Hq)) as [Ep Fp].
  apply leb_of_R; [exact Fp|exact Ft|]. rewrite Ep. apply (rnd_between _ _ _ Hq).
Qed.

(* ---------- 4. Options.RandomNodeActivationType never returns an error ---------- *)
Lemma tape_float64_safe : forall t, tape_safe (tape_float64 t).
Proof.
  induction t as [|x t IH]; cbn [tape_float64]; [exact I|].
  destruct (PrimFloat.eqb _ _); [exact IH|exact I].
Qed.

Lemma random_activation_safe : forall o t, acts_ok o -> tape_ok t -> tape_safe (tape_random_activation o t).
Proof.
  intros o t Ha Ht. unfold tape_random_activation, acts_ok in *.
  destruct (o_activators o) as [|a [|b acts]]; [contradiction|exact I|].
  destruct Ha as [Hlen [P0 P1]]. rewrite Hlen, Nat.eqb_refl. cbn [negb].
  unfold tape_roulette. pose proof (tape_float64_safe t) as Hs.
  destruct (tape_float64 t) as [[f t']| | | | |] eqn:E; cbn [bind]; try exact Hs; try exact I.
  destruct (tape_float64_unit _ _ _ Ht E) as [Hf _].
  assert (Hne : o_activator_probs o <> []).
  { intros C. rewrite C in Hlen. discriminate Hlen. }
  pose proof (roulette_pick_range (o_activator_probs o) _ Hne (throw_le_total f _ Hf P0 P1)) as [R0 R1].
  set (i := roulette_pick _ _) in *.
  replace (Z.ltb i 0) with false by (symmetry; apply Z.ltb_ge; lia).
  replace (Z.geb i (Z.of_nat (length (o_activator_probs o)))) with false by (symmetry; rewrite Z.geb_leb; apply Z.leb_gt; lia).
  exact I.
Qed.
