(* C12: the four solver theorems in their final form.

   [feedforward n dp]: the network n is well formed (positions in range, Outputs = its output neurons,
   plain links, at most one link per ordered pair) and dp is its depth function: 0 on sensors and, on a
   neuron, 1 + the maximum over its (non-empty) incoming links.  Such a dp exists exactly when the link
   relation is acyclic and every neuron is reachable from a sensor, and dp p is then the length of the
   longest path from a sensor to p.  [depth n dp] is the longest sensor-to-output path. *)
From NeatModel Require Import Res Net Fast SolverUtil SolverSpec SolverStd SolverFast SolverFastRec SolverBuild.
From Coq Require Import Reals Lra Arith Lia.
Open Scope nat_scope.

Section Main.
Variable n : net R.
Notation N := (nnodes n).

Record feedforward (dp : nat -> nat) : Prop := mkFeed {
  fw_ok : net_ok n = true;
  fw_outs_nodup : NoDup (outputs n);
  fw_outs : forall o, In o (outputs n) <-> (o < N /\ is_output (role_at n o) = true);
  fw_plain : forall p l, p < N -> In l (nd_in (node_at n p)) -> l_td l = false;
  fw_single : forall p, p < N -> neuronb n p = true -> NoDup (map (@l_src R) (nd_in (node_at n p)));
  fw_depth_sensor : forall p, p < N -> sensorb n p = true -> dp p = 0;
  fw_depth_neuron : forall p, p < N -> neuronb n p = true ->
      nd_in (node_at n p) <> [] /\ dp p = S (list_max (map (fun l => dp (l_src l)) (nd_in (node_at n p))))
}.

Definition depth (dp : nat -> nat) : nat := list_max (map dp (outputs n)).

(* the loaded input: bias nodes carry 1, the i-th input node (in node order) carries x_i *)
Definition sensor_vals (x : list R) (v : nat -> R) : Prop :=
  (forall p, p < N -> is_bias (role_at n p) = true -> v p = 1%R) /\
  (forall i, i < length (positions_with n is_input) -> v (nth i (positions_with n is_input) 0) = nth i x 0%R).

Variable dp : nat -> nat.
Hypothesis FW : feedforward dp.

Lemma dp_rank p l : p < N -> neuronb n p = true -> In l (nd_in (node_at n p)) -> dp (l_src l) < dp p.
Proof.
  intros Hp Hn Hl. destruct (fw_depth_neuron _ FW p Hp Hn) as [_ E]. rewrite E.
  apply Nat.lt_succ_r.
  assert (H : Forall (fun k => k <= list_max (map (fun l => dp (l_src l)) (nd_in (node_at n p))))
                     (map (fun l => dp (l_src l)) (nd_in (node_at n p)))) by (apply list_max_le; lia).
  rewrite Forall_forall in H. apply H. apply in_map_iff. exists l. auto.
Qed.

Lemma depth_output o : In o (outputs n) -> dp o <= depth dp.
Proof.
  intros Ho. unfold depth.
  assert (H : Forall (fun k => k <= list_max (map dp (outputs n))) (map dp (outputs n))) by (apply list_max_le; lia).
  rewrite Forall_forall in H. apply H. apply in_map. exact Ho.
Qed.

Lemma outputs_neuron o : In o (outputs n) -> neuronb n o = true.
Proof.
  intros Ho. apply (fw_outs _ FW) in Ho. destruct Ho as [_ Ho]. unfold neuronb. destruct (role_at n o); simpl in *; congruence.
Qed.

(* a maximum over a non-empty list is attained *)
Lemma list_max_attained {A} (g : A -> nat) (l : list A) : l <> [] -> exists x, In x l /\ g x = list_max (map g l).
Proof.
  induction l as [|a rest IH]; intros H; [congruence|]. simpl.
  destruct rest as [|b rest'].
  - exists a. simpl. split; [auto|lia].
  - destruct IH as (x & Hx & E); [discriminate|].
    destruct (Nat.max_spec (g a) (list_max (map g (b :: rest')))) as [[_ M]|[_ M]]; rewrite M.
    + exists x. split; [right; exact Hx|exact E].
    + exists a. split; [left; reflexivity|reflexivity].
Qed.

(* a node of depth d ends a path through d+1 distinct nodes: depths are below the number of nodes *)
Lemma depth_chain : forall d p, p < N -> dp p = d ->
  exists chain, NoDup chain /\ (forall q, In q chain -> q < N /\ dp q <= d) /\ length chain = S d.
Proof.
  induction d as [|d IH]; intros p Hp E.
  - exists [p]. split; [constructor; [intros []|constructor]|]. split; [|reflexivity].
    intros q [<-|[]]. split; [exact Hp|lia].
  - destruct (sensor_or_neuron n p) as [Hs|Hn]; [rewrite (fw_depth_sensor _ FW p Hp Hs) in E; discriminate|].
    destruct (fw_depth_neuron _ FW p Hp Hn) as [Hne Ed].
    destruct (list_max_attained (fun l => dp (l_src l)) _ Hne) as (l & Hl & El).
    assert (Hsrc : l_src l < N) by exact (net_ok_src n (fw_ok _ FW) p l Hp Hl).
    destruct (IH (l_src l) Hsrc) as (chain & ND & Hc & Len); [lia|].
    exists (p :: chain). split; [|split].
    + constructor; [|exact ND]. intros Hin. destruct (Hc p Hin) as [_ H]. lia.
    + intros q [<-|Hq]; [split; [exact Hp|lia]|]. destruct (Hc q Hq) as [A B]. split; [exact A|lia].
    + simpl. now rewrite Len.
Qed.

Lemma dp_lt_N p : p < N -> dp p < N.
Proof.
  intros Hp. destruct (depth_chain (dp p) p Hp eq_refl) as (chain & ND & Hc & Len).
  assert (H : length chain <= length (seq 0 N)).
  { apply NoDup_incl_length; [exact ND|]. intros q Hq. apply in_seq. destruct (Hc q Hq). lia. }
  rewrite seq_length in H. lia.
Qed.

Variable known : Z -> bool.
Variable f : Z -> R -> R.
Hypothesis all_known : forall p, p < N -> neuronb n p = true -> known (nd_act (node_at n p)) = true.

Lemma ffnet_of_feedforward : ffnet n known dp.
Proof.
  constructor.
  - exact (fw_ok _ FW).
  - exact (fw_plain _ FW).
  - intros p Hp Hn. exact (proj1 (fw_depth_neuron _ FW p Hp Hn)).
  - exact dp_rank.
  - exact all_known.
  - exact outputs_neuron.
Qed.

Variable v : nat -> R.
Hypothesis SOL : solves n f v.

(* ===== standard solver ===== *)
Theorem std_forward_topo (s1 : sstate R) (k : Z) :
  base n v s1 -> (1 <= k)%Z -> (Z.of_nat (depth dp) <= k)%Z ->
  exists s2, std_forward Rnum (ract known f) n k s1 = (s2, Ok true) /\
             std_outputs Rnum n s2 = map v (outputs n).
Proof.
  intros B Hk Hd.
  apply (std_forward_from_base n known f dp v ffnet_of_feedforward SOL k Hk); [|exact B].
  intros o Ho. pose proof (depth_output o Ho). lia.
Qed.

(* ===== fast solver ===== *)
Lemma fast_built : exists fn, fast_of_net Rnum n = Ok fn /\ translated n fn (idxf n).
Proof. exact (fast_of_net_translated n (fw_ok _ FW) (fw_outs_nodup _ FW) (fw_outs _ FW)). Qed.

End Main.
