(* C12: the four solver theorems in their final form.

   [feedforward n dp]: the network n is well formed (positions in range, Outputs = its output neurons,
   plain links; several links between one ordered pair of nodes are allowed) and dp is its depth function: 0 on sensors and, on a
   neuron, 1 + the maximum over its (non-empty) incoming links.  Such a dp exists exactly when the link
   relation is acyclic and every neuron is reachable from a sensor, and dp p is then the length of the
   longest path from a sensor to p.  [depth n dp] is the longest sensor-to-output path. *)
From NeatModel Require Import Res Net Fast SolverUtil SolverSpec SolverStd SolverFast SolverFastRec SolverBuild.
From Coq Require Import Reals Lra Arith Lia.
Open Scope nat_scope.

Section Main.
Variable n : net R.
Notation N := (nnodes n).

Record feedforward (dp : nat -> nat) : Prop := mkFeed {
  fw_ok : net_ok n = true;
  fw_outs_nodup : NoDup (outputs n);
  fw_outs : forall o, In o (outputs n) <-> (o < N /\ is_output (role_at n o) = true);
  fw_plain : forall p l, p < N -> In l (nd_in (node_at n p)) -> l_td l = false;
  fw_depth_sensor : forall p, p < N -> sensorb n p = true -> dp p = 0;
  fw_depth_neuron : forall p, p < N -> neuronb n p = true ->
      nd_in (node_at n p) <> [] /\ dp p = S (list_max (map (fun l => dp (l_src l)) (nd_in (node_at n p))))
}.

Definition depth (dp : nat -> nat) : nat := list_max (map dp (outputs n)).

(* the loaded input: bias nodes carry 1, the i-th input node (in node order) carries x_i *)
Definition sensor_vals (x : list R) (v : nat -> R) : Prop :=
  (forall p, p < N -> is_bias (role_at n p) = true -> v p = 1%R) /\
  (forall i, i < length (positions_with n is_input) -> v (nth i (positions_with n is_input) 0) = nth i x 0%R).

Variable dp : nat -> nat.
Hypothesis FW : feedforward dp.

Lemma dp_rank p l : p < N -> neuronb n p = true -> In l (nd_in (node_at n p)) -> dp (l_src l) < dp p.
Proof.
  intros Hp Hn Hl. destruct (fw_depth_neuron _ FW p Hp Hn) as [_ E]. rewrite E.
  apply Nat.lt_succ_r.
  assert (H : Forall (fun k => k <= list_max (map (fun l => dp (l_src l)) (nd_in (node_at n p))))
                     (map (fun l => dp (l_src l)) (nd_in (node_at n p)))) by (apply list_max_le; lia).
  rewrite Forall_forall in H. apply H. apply in_map_iff. exists l. auto.
Qed.

Lemma depth_output o : In o (outputs n) -> dp o <= depth dp.
Proof.
  intros Ho. unfold depth.
  assert (H : Forall (fun k => k <= list_max (map dp (outputs n))) (map dp (outputs n))) by (apply list_max_le; lia).
  rewrite Forall_forall in H. apply H. apply in_map. exact Ho.
Qed.

Lemma outputs_neuron o : In o (outputs n) -> neuronb n o = true.
Proof.
  intros Ho. apply (fw_outs _ FW) in Ho. destruct Ho as [_ Ho]. unfold neuronb. destruct (role_at n o); simpl in *; congruence.
Qed.

(* a maximum over a non-empty list is attained *)
Lemma list_max_attained {A} (g : A -> nat) (l : list A) : l <> [] -> exists x, In x l /\ g x = list_max (map g l).
Proof.
  induction l as [|a rest IH]; intros H; [congruence|]. simpl.
  destruct rest as [|b rest'].
  - exists a. simpl. split; [auto|lia].
  - destruct IH as (x & Hx & E); [discriminate|].
    destruct (Nat.max_spec (g a) (list_max (map g (b :: rest')))) as [[_ M]|[_ M]]; rewrite M.
    + exists x. split; [right; exact Hx|exact E].
    + exists a. split; [left; reflexivity|reflexivity].
Qed.

(* a node of depth d ends a path through d+1 distinct nodes: depths are below the number of nodes *)
Lemma depth_chain : forall d p, p < N -> dp p = d ->
  exists chain, NoDup chain /\ (forall q, In q chain -> q < N /\ dp q <= d) /\ length chain = S d.
Proof.
  induction d as [|d IH]; intros p Hp E.
  - exists [p]. split; [constructor; [intros []|constructor]|]. split; [|reflexivity].
    intros q [<-|[]]. split; [exact Hp|lia].
  - destruct (sensor_or_neuron n p) as [Hs|Hn]; [rewrite (fw_depth_sensor _ FW p Hp Hs) in E; discriminate|].
    destruct (fw_depth_neuron _ FW p Hp Hn) as [Hne Ed].
    destruct (list_max_attained (fun l => dp (l_src l)) _ Hne) as (l & Hl & El).
    assert (Hsrc : l_src l < N) by exact (net_ok_src n (fw_ok _ FW) p l Hp Hl).
    destruct (IH (l_src l) Hsrc) as (chain & ND & Hc & Len); [lia|].
    exists (p :: chain). split; [|split].
    + constructor; [|exact ND]. intros Hin. destruct (Hc p Hin) as [_ H]. lia.
    + intros q [<-|Hq]; [split; [exact Hp|lia]|]. destruct (Hc q Hq) as [A B]. split; [exact A|lia].
    + simpl. now rewrite Len.
Qed.

Lemma dp_lt_N p : p < N -> dp p < N.
Proof.
  intros Hp. destruct (depth_chain (dp p) p Hp eq_refl) as (chain & ND & Hc & Len).
  assert (H : length chain <= length (seq 0 N)).
  { apply NoDup_incl_length; [exact ND|]. intros q Hq. apply in_seq. destruct (Hc q Hq). lia. }
  rewrite seq_length in H. lia.
Qed.

Variable known : Z -> bool.
Variable f : Z -> R -> R.
Hypothesis all_known : forall p, p < N -> neuronb n p = true -> known (nd_act (node_at n p)) = true.

Lemma ffnet_of_feedforward : ffnet n known dp.
Proof.
  constructor.
  - exact (fw_ok _ FW).
  - exact (fw_plain _ FW).
  - intros p Hp Hn. exact (proj1 (fw_depth_neuron _ FW p Hp Hn)).
  - exact dp_rank.
  - exact all_known.
  - exact outputs_neuron.
Qed.

Variable v : nat -> R.
Hypothesis SOL : solves n f v.

(* ===== standard solver ===== *)
Theorem std_forward_topo (s1 : sstate R) (k : Z) :
  base n v s1 -> (1 <= k)%Z -> (Z.of_nat (depth dp) <= k)%Z ->
  exists s2, std_forward Rnum (ract known f) n k s1 = (s2, Ok true) /\
             std_outputs Rnum n s2 = map v (outputs n).
Proof.
  intros B Hk Hd.
  apply (std_forward_from_base n known f dp v ffnet_of_feedforward SOL k Hk); [|exact B].
  intros o Ho. pose proof (depth_output o Ho). lia.
Qed.

(* ===== fast solver ===== *)
Lemma fast_built : exists fn, fast_of_net Rnum n = Ok fn /\ translated n fn (idxf n).
Proof. exact (fast_of_net_translated n (fw_ok _ FW) (fw_outs_nodup _ FW) (fw_outs _ FW)). Qed.


(* LoadSensors of the fast solver on a fresh instance *)
Lemma fold_set_sig_proj (b : nat) (g : nat -> R) is : forall s : fstate R,
  let s' := fold_left (fun s i => set_sig s (b + i) (g i)) is s in
  fs_sig s' = fold_left (fun l k => upd k (g (k - b)) l) (map (fun i => b + i) is) (fs_sig s) /\
  fs_bp s' = fs_bp s /\ fs_done s' = fs_done s /\ fs_inact s' = fs_inact s.
Proof.
  induction is as [|i rest IH]; intros s; simpl; [auto|].
  destruct (IH (set_sig s (b + i) (g i))) as (E1 & E2 & E3 & E4).
  split; [|auto]. rewrite E1. simpl. replace (b + i - b) with i by lia. reflexivity.
Qed.

Lemma map_add_seq b m : forall a, map (fun i => b + i) (seq a m) = seq (b + a) m.
Proof.
  induction m as [|m IH]; intros a; simpl; [reflexivity|]. f_equal. rewrite IH. f_equal. lia.
Qed.

Lemma fast_load_base fn x :
  translated n fn (idxf n) -> sensor_vals x v -> length x = length (positions_with n is_input) ->
  exists s1, fast_load Rnum fn x (fast_init Rnum fn) = (s1, Ok true) /\
             fbase n v fn (idxf n) s1 /\ length (fs_done s1) = N /\ length (fs_inact s1) = N.
Proof.
  intros TR [VB VI] Hx. unfold fast_load.
  rewrite Hx, <- (tr_in _ _ _ TR), Nat.eqb_refl.
  eexists. split; [reflexivity|].
  destruct (fold_set_sig_proj (f_bias fn) (fun i => getF Rnum x i) (seq 0 (f_in fn)) (fast_init Rnum fn))
    as (E1 & E2 & E3 & E4).
  set (s1 := fold_left (fun s i => set_sig s (f_bias fn + i) (getF Rnum x i)) (seq 0 (f_in fn)) (fast_init Rnum fn)) in *.
  rewrite map_add_seq, Nat.add_0_r in E1.
  pose proof (tr_total _ _ _ TR) as HT. pose proof (tr_sensor_le _ _ _ TR) as HS. unfold f_sensor in HS.
  assert (Linit : length (fs_sig (fast_init Rnum fn)) = N).
  { unfold fast_init. simpl. rewrite app_length, !repeat_length. lia. }
  split; [|split].
  - split; [|split].
    + split.
      * rewrite E1, fold_upd_length. exact Linit.
      * rewrite E2. unfold fast_init. simpl. rewrite repeat_length. exact HT.
    + intros i _. unfold bp. rewrite E2. unfold fast_init. simpl. apply nth_repeat.
    + intros p Hp Hs. unfold sg. rewrite E1.
      destruct (is_bias (role_at n p)) eqn:Eb.
      * pose proof (proj2 (tr_bias _ _ _ TR p Hp) Eb) as Hi.
        rewrite fold_upd_below by (intros i Hi' E; apply in_seq in Hi'; lia).
        unfold fast_init. simpl. rewrite app_nth1 by (rewrite repeat_length; exact Hi).
        rewrite nth_repeat_lt by exact Hi. symmetry. apply VB; assumption.
      * assert (Hin : In p (positions_with n is_input)).
        { apply in_positions_with. split; [exact Hp|]. unfold sensorb in Hs.
          destruct (role_at n p); simpl in *; congruence. }
        destruct (pos_of_in p _ Hin) as [Hlt Hnth].
        set (i := pos_of p (positions_with n is_input)) in *.
        assert (Hidx : idxf n p = f_bias fn + i).
        { rewrite <- Hnth at 1. apply (tr_ins _ _ _ TR). rewrite (tr_in _ _ _ TR). exact Hlt. }
        rewrite Hidx.
        rewrite (fold_upd_at (fun k => getF Rnum x (k - f_bias fn)) 0%R (f_bias fn + i)).
        -- replace (f_bias fn + i - f_bias fn) with i by lia. rewrite <- Hnth. symmetry. apply VI. exact Hlt.
        -- apply seq_NoDup.
        -- apply in_seq. rewrite (tr_in _ _ _ TR). lia.
        -- rewrite Linit. rewrite <- Hidx. apply (tr_idx_lt _ _ _ TR). exact Hp.
  - rewrite E3. unfold fast_init. simpl. rewrite repeat_length. exact HT.
  - rewrite E4. unfold fast_init. simpl. rewrite repeat_length. exact HT.
Qed.

Theorem fast_forward_topo (x : list R) (k : Z) :
  sensor_vals x v -> length x = length (positions_with n is_input) -> (Z.of_nat (depth dp) <= k)%Z ->
  exists fn s1 s2 r, fast_of_net Rnum n = Ok fn /\
    fast_load Rnum fn x (fast_init Rnum fn) = (s1, Ok true) /\
    fast_forward Rnum (ract known f) fn k s1 = (s2, Ok r) /\
    fast_outputs Rnum fn s2 = map v (outputs n).
Proof.
  intros SV Hx Hk. destruct fast_built as (fn & Efn & TR).
  destruct (fast_load_base fn x TR SV Hx) as (s1 & E1 & B & _ & _).
  destruct (fast_forward_from_base n known f dp v fn (idxf n) ffnet_of_feedforward SOL TR (proj1 SV) k s1 B)
    as (s2 & r & E2 & O2).
  { intros o Ho. pose proof (depth_output o Ho). lia. }
  exists fn, s1, s2, r. auto.
Qed.

Theorem fast_recursive_topo (x : list R) :
  sensor_vals x v -> length x = length (positions_with n is_input) ->
  exists fn s1 s2 r, fast_of_net Rnum n = Ok fn /\
    fast_load Rnum fn x (fast_init Rnum fn) = (s1, Ok true) /\
    fast_recursive Rnum (ract known f) fn s1 = (s2, Ok r) /\
    fast_outputs Rnum fn s2 = map v (outputs n).
Proof.
  intros SV Hx. destruct fast_built as (fn & Efn & TR).
  destruct (fast_load_base fn x TR SV Hx) as (s1 & E1 & B & LD & LI).
  destruct (fast_recursive_from_base n known f dp v fn (idxf n) ffnet_of_feedforward SOL TR (proj1 SV))
              with (s := s1) as (s2 & r & E2 & O2); try assumption.
  { intros o Ho. pose proof (net_ok_outputs n (fw_ok _ FW) o Ho) as Hlt. pose proof (dp_lt_N o Hlt). lia. }
  exists fn, s1, s2, r. auto.
Qed.

(* Relax: [relax_sweeps] is the number of sweeps the call performs *)
Theorem fast_relax_topo (x : list R) (ms : Z) (d : R) :
  sensor_vals x v -> length x = length (positions_with n is_input) ->
  exists fn s1 s2 r, fast_of_net Rnum n = Ok fn /\
    fast_load Rnum fn x (fast_init Rnum fn) = (s1, Ok true) /\
    fast_relax Rnum (ract known f) fn ms d s1 = (s2, Ok r) /\
    (depth dp <= relax_sweeps known f fn (Z.to_nat ms) d s1 -> fast_outputs Rnum fn s2 = map v (outputs n)) /\
    ((1 <= ms)%Z -> r = false -> relax_sweeps known f fn (Z.to_nat ms) d s1 = Z.to_nat ms) /\
    ((1 <= ms)%Z -> (d <= 0)%R -> relax_sweeps known f fn (Z.to_nat ms) d s1 = 1).
Proof.
  intros SV Hx. destruct fast_built as (fn & Efn & TR).
  destruct (fast_load_base fn x TR SV Hx) as (s1 & E1 & B & _ & _).
  pose proof (relax_loop_FFin n known f dp v fn (idxf n) ffnet_of_feedforward SOL TR (proj1 SV)
                (Z.to_nat ms) d 0 s1 false (FFin_zero n known dp v fn (idxf n) ffnet_of_feedforward s1 B))
    as (s2 & r & E2 & HF & _ & H1 & H2).
  exists fn, s1, s2, r. split; [exact Efn|]. split; [exact E1|]. split; [exact E2|]. split; [|split].
  - intros Hd. apply (outputs_FFin n known dp v fn (idxf n) ffnet_of_feedforward TR _ _ HF).
    intros o Ho. pose proof (depth_output o Ho). simpl. lia.
  - intros Hms Hr. apply H1; [lia|exact Hr].
  - intros Hms Hd. apply H2; [lia|]. simpl. destruct (Rle_dec d 0); [reflexivity|lra].
Qed.

End Main.
