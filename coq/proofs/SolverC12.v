(* C12: the statements of props/C12.v, assembled from SolverMain / SolverLoad / SolverTopo / SolverGraph *)
From NeatModel Require Import Res Net Fast SolverUtil SolverSpec SolverStd SolverFast SolverFastRec SolverBuild
     SolverMain SolverLoad SolverTopo SolverGraph.
From Coq Require Import Reals Lra Arith Lia.
Open Scope nat_scope.

Section C12.
Variable n : net R.
Variable known : Z -> bool.
Variable f : Z -> R -> R.
Notation N := (nnodes n).

Hypothesis OK : net_ok n = true.
Hypothesis outs_nodup : NoDup (outputs n).
Hypothesis outs_exact : forall o, In o (outputs n) <-> (o < N /\ is_output (role_at n o) = true).
Hypothesis plain : forall p l, p < N -> In l (nd_in (node_at n p)) -> l_td l = false.
Hypothesis ACYC : acyclic n.
Hypothesis REACH : reachable n.
Hypothesis all_known : forall p, p < N -> neuronb n p = true -> known (nd_act (node_at n p)) = true.

Let FW : feedforward n (lp n N) := acyclic_feedforward n OK ACYC REACH outs_nodup outs_exact plain.

Variable x : list R.
Hypothesis Hx : length x = length (positions_with n is_input).

Lemma c12_std_forward (k : Z) :
  inputs n = positions_with n is_sensor -> (1 <= k)%Z -> (Z.of_nat (depth n (lp n N)) <= k)%Z ->
  exists s1 s2, std_load Rnum n x (std_init Rnum n) = (s1, Ok true) /\
                std_forward Rnum (ract known f) n k s1 = (s2, Ok true) /\
                std_outputs Rnum n s2 = topo n f x.
Proof.
  intros Hin Hk Hd.
  destruct (std_load_base n x (topo_eval n f x) Hin (topo_sensor_vals n f x) Hx) as (s1 & E1 & B).
  destruct (std_forward_topo n (lp n N) FW known f all_known (topo_eval n f x) (topo_solves n f _ FW x) s1 k B Hk Hd)
    as (s2 & E2 & O2).
  exists s1, s2. auto.
Qed.

Lemma c12_fast_forward (k : Z) :
  (Z.of_nat (depth n (lp n N)) <= k)%Z ->
  exists fn s1 s2 r, fast_of_net Rnum n = Ok fn /\
    fast_load Rnum fn x (fast_init Rnum fn) = (s1, Ok true) /\
    fast_forward Rnum (ract known f) fn k s1 = (s2, Ok r) /\
    fast_outputs Rnum fn s2 = topo n f x.
Proof.
  intros Hd.
  exact (fast_forward_topo n (lp n N) FW known f all_known (topo_eval n f x) (topo_solves n f _ FW x) x k
                           (topo_sensor_vals n f x) Hx Hd).
Qed.

Lemma c12_fast_recursive :
  exists fn s1 s2 r, fast_of_net Rnum n = Ok fn /\
    fast_load Rnum fn x (fast_init Rnum fn) = (s1, Ok true) /\
    fast_recursive Rnum (ract known f) fn s1 = (s2, Ok r) /\
    fast_outputs Rnum fn s2 = topo n f x.
Proof.
  exact (fast_recursive_topo n (lp n N) FW known f all_known (topo_eval n f x) (topo_solves n f _ FW x) x
                             (topo_sensor_vals n f x) Hx).
Qed.

Lemma c12_fast_relax (ms : Z) (d : R) :
  exists fn s1 s2 r, fast_of_net Rnum n = Ok fn /\
    fast_load Rnum fn x (fast_init Rnum fn) = (s1, Ok true) /\
    fast_relax Rnum (ract known f) fn ms d s1 = (s2, Ok r) /\
    (depth n (lp n N) <= relax_sweeps known f fn (Z.to_nat ms) d s1 -> fast_outputs Rnum fn s2 = topo n f x) /\
    ((1 <= ms)%Z -> r = false -> relax_sweeps known f fn (Z.to_nat ms) d s1 = Z.to_nat ms) /\
    ((1 <= ms)%Z -> (d <= 0)%R -> relax_sweeps known f fn (Z.to_nat ms) d s1 = 1).
Proof.
  exact (fast_relax_topo n (lp n N) FW known f all_known (topo_eval n f x) (topo_solves n f _ FW x) x ms d
                         (topo_sensor_vals n f x) Hx).
Qed.

(* hence: the four computations return the same outputs *)
Lemma c12_agree (k ms : Z) (d : R) :
  inputs n = positions_with n is_sensor -> (1 <= k)%Z -> (Z.of_nat (depth n (lp n N)) <= k)%Z ->
  exists fn s1 s2 t1 t2 t3 t4 r2 r3 r4,
    std_load Rnum n x (std_init Rnum n) = (s1, Ok true) /\
    std_forward Rnum (ract known f) n k s1 = (s2, Ok true) /\
    fast_of_net Rnum n = Ok fn /\
    fast_load Rnum fn x (fast_init Rnum fn) = (t1, Ok true) /\
    fast_forward Rnum (ract known f) fn k t1 = (t2, Ok r2) /\
    fast_recursive Rnum (ract known f) fn t1 = (t3, Ok r3) /\
    fast_relax Rnum (ract known f) fn ms d t1 = (t4, Ok r4) /\
    std_outputs Rnum n s2 = fast_outputs Rnum fn t2 /\
    fast_outputs Rnum fn t2 = fast_outputs Rnum fn t3 /\
    (depth n (lp n N) <= relax_sweeps known f fn (Z.to_nat ms) d t1 ->
     fast_outputs Rnum fn t3 = fast_outputs Rnum fn t4).
Proof.
  intros Hin Hk Hd.
  destruct (c12_std_forward k Hin Hk Hd) as (s1 & s2 & A1 & A2 & A3).
  destruct (c12_fast_forward k Hd) as (fn & t1 & t2 & r2 & B0 & B1 & B2 & B3).
  destruct c12_fast_recursive as (fn' & t1' & t3 & r3 & C0 & C1 & C2 & C3).
  destruct (c12_fast_relax ms d) as (fn'' & t1'' & t4 & r4 & D0 & D1 & D2 & D3 & _).
  rewrite B0 in C0, D0. injection C0 as <-. injection D0 as <-.
  rewrite B1 in C1, D1. injection C1 as <-. injection D1 as <-.
  exists fn, s1, s2, t1, t2, t3, t4, r2, r3, r4.
  repeat split; try assumption; try congruence.
  intros H. rewrite C3. symmetry. apply D3. exact H.
Qed.

Lemma c12_topo_unique (v : nat -> R) :
  solves n f v -> sensor_vals n x v -> forall p, p < N -> v p = topo_eval n f x p.
Proof. exact (topo_unique n f (lp n N) FW x v). Qed.

Lemma c12_topo_solves : solves n f (topo_eval n f x) /\ sensor_vals n x (topo_eval n f x).
Proof. split; [exact (topo_solves n f _ FW x)|exact (topo_sensor_vals n f x)]. Qed.

End C12.
