(* C07: declarative E, D, W and the proofs that both transliterated compatibility methods
   compute excess_coeff*E + disjoint_coeff*D + mutdiff_coeff*W over the reals. *)
From NeatModel Require Import Res Compat.
From Coq Require Import Reals Lra Lia Sorted Permutation.

Definition geneR : Type := (Z * R)%type.
Definition innovs (l : list geneR) : list Z := map fst l.

(* ---------- declarative vocabulary (no walk over the two lists) ---------- *)

(* g's innovation number also occurs in the other genome *)
Definition matches (other : list geneR) (g : geneR) : bool := existsb (Z.eqb (fst g)) (innovs other).
(* g's innovation number is above every innovation number of the other genome:
   above its maximum, and vacuously true (every gene) when the other genome has no genes *)
Definition above_all (other : list geneR) (g : geneR) : bool :=
  forallb (fun m => Z.ltb m (fst g)) (innovs other).
Definition is_excess (other : list geneR) (g : geneR) : bool := negb (matches other g) && above_all other g.
Definition is_disjoint (other : list geneR) (g : geneR) : bool := negb (matches other g) && negb (above_all other g).

Definition count {A} (f : A -> bool) (l : list A) : Z := Z.of_nat (length (filter f l)).

Definition sumR {A} (f : A -> R) (l : list A) : R := fold_right (fun a acc => (f a + acc)%R) 0%R l.
Definition sumZ {A} (f : A -> Z) (l : list A) : Z := fold_right (fun a acc => f a + acc) 0 l.

(* E: excess genes of both genomes; D: disjoint genes of both genomes *)
Definition E (l1 l2 : list geneR) : Z := count (is_excess l2) l1 + count (is_excess l1) l2.
Definition D (l1 l2 : list geneR) : Z := count (is_disjoint l2) l1 + count (is_disjoint l1) l2.
(* matching pairs: (g1, g2) in l1 x l2 with the same innovation number *)
Definition M (l1 l2 : list geneR) : Z :=
  sumZ (fun g1 => sumZ (fun g2 => if Z.eqb (fst g1) (fst g2) then 1 else 0) l2) l1.
Definition mutdiff_sum (l1 l2 : list geneR) : R :=
  sumR (fun g1 => sumR (fun g2 => if Z.eqb (fst g1) (fst g2) then Rabs (snd g1 - snd g2) else 0%R) l2) l1.
(* W: mean |m1 - m2| over the matching pairs, 0 when there is none *)
Definition W (l1 l2 : list geneR) : R :=
  if Z.eqb (M l1 l2) 0 then 0%R else (mutdiff_sum l1 l2 / IZR (M l1 l2))%R.

Definition asc (l : list geneR) : Prop := StronglySorted Z.lt (innovs l).
Definition desc (l : list geneR) : Prop := StronglySorted Z.gt (innovs l).

(* ---------- small list facts ---------- *)

Lemma count_cons {A} (f : A -> bool) a l : count f (a :: l) = (if f a then 1 else 0) + count f l.
Proof. unfold count; simpl. destruct (f a); simpl length; lia. Qed.

Lemma count_nil {A} (f : A -> bool) : count f [] = 0.
Proof. reflexivity. Qed.

Lemma count_ext_in {A} (f g : A -> bool) l : (forall a, In a l -> f a = g a) -> count f l = count g l.
Proof. intros H. unfold count. now rewrite (filter_ext_in _ _ _ H). Qed.

Lemma count_const_true {A} (f : A -> bool) l : (forall a, In a l -> f a = true) -> count f l = Z.of_nat (length l).
Proof.
  induction l as [|a l IH]; intros H; [reflexivity|].
  rewrite count_cons, H by (now left). rewrite IH by (intros; apply H; now right). simpl length. lia.
Qed.

Lemma count_const_false {A} (f : A -> bool) l : (forall a, In a l -> f a = false) -> count f l = 0.
Proof.
  induction l as [|a l IH]; intros H; [reflexivity|].
  rewrite count_cons, H by (now left). rewrite IH by (intros; apply H; now right). lia.
Qed.

Lemma count_nonneg {A} (f : A -> bool) l : 0 <= count f l.
Proof. unfold count. lia. Qed.

Lemma count_rev {A} (f : A -> bool) l : count f (rev l) = count f l.
Proof.
  unfold count. f_equal. apply Permutation_length.
  induction l as [|a l IH]; [constructor|].
  simpl rev. rewrite filter_app. simpl filter. destruct (f a).
  - apply Permutation_sym, Permutation_cons_app. rewrite app_nil_r. now apply Permutation_sym.
  - now rewrite app_nil_r.
Qed.

Lemma sumR_cons {A} (f : A -> R) a l : sumR f (a :: l) = (f a + sumR f l)%R.
Proof. reflexivity. Qed.
Lemma sumZ_cons {A} (f : A -> Z) a l : sumZ f (a :: l) = f a + sumZ f l.
Proof. reflexivity. Qed.

Lemma sumR_app {A} (f : A -> R) l l' : sumR f (l ++ l') = (sumR f l + sumR f l')%R.
Proof. induction l as [|a l IH]; simpl; [lra|]. fold (sumR f (l ++ l')). fold (sumR f l). rewrite IH. lra. Qed.
Lemma sumZ_app {A} (f : A -> Z) l l' : sumZ f (l ++ l') = sumZ f l + sumZ f l'.
Proof. induction l as [|a l IH]; simpl; [lia|]. fold (sumZ f (l ++ l')). fold (sumZ f l). rewrite IH. lia. Qed.

Lemma sumR_rev {A} (f : A -> R) l : sumR f (rev l) = sumR f l.
Proof. induction l as [|a l IH]; [reflexivity|]. simpl rev. rewrite sumR_app, IH. simpl. lra. Qed.
Lemma sumZ_rev {A} (f : A -> Z) l : sumZ f (rev l) = sumZ f l.
Proof. induction l as [|a l IH]; [reflexivity|]. simpl rev. rewrite sumZ_app, IH. simpl. lia. Qed.

Lemma sumR_ext_in {A} (f g : A -> R) l : (forall a, In a l -> f a = g a) -> sumR f l = sumR g l.
Proof.
  induction l as [|a l IH]; intros H; [reflexivity|].
  rewrite !sumR_cons, H by (now left). rewrite IH by (intros; apply H; now right). reflexivity.
Qed.
Lemma sumZ_ext_in {A} (f g : A -> Z) l : (forall a, In a l -> f a = g a) -> sumZ f l = sumZ g l.
Proof.
  induction l as [|a l IH]; intros H; [reflexivity|].
  rewrite !sumZ_cons, H by (now left). rewrite IH by (intros; apply H; now right). reflexivity.
Qed.

Lemma sumR_zero {A} (f : A -> R) l : (forall a, In a l -> f a = 0%R) -> sumR f l = 0%R.
Proof.
  induction l as [|a l IH]; intros H; [reflexivity|].
  rewrite sumR_cons, H by (now left). rewrite IH by (intros; apply H; now right). lra.
Qed.
Lemma sumZ_zero {A} (f : A -> Z) l : (forall a, In a l -> f a = 0) -> sumZ f l = 0.
Proof.
  induction l as [|a l IH]; intros H; [reflexivity|].
  rewrite sumZ_cons, H by (now left). rewrite IH by (intros; apply H; now right). lia.
Qed.

Lemma sumR_nonneg {A} (f : A -> R) l : (forall a, In a l -> (0 <= f a)%R) -> (0 <= sumR f l)%R.
Proof.
  induction l as [|a l IH]; intros H; [simpl; lra|].
  rewrite sumR_cons. assert (0 <= f a)%R by (apply H; now left).
  assert (0 <= sumR f l)%R by (apply IH; intros; apply H; now right). lra.
Qed.
Lemma sumZ_nonneg {A} (f : A -> Z) l : (forall a, In a l -> 0 <= f a) -> 0 <= sumZ f l.
Proof.
  induction l as [|a l IH]; intros H; [simpl; lia|].
  rewrite sumZ_cons. assert (0 <= f a) by (apply H; now left).
  assert (0 <= sumZ f l) by (apply IH; intros; apply H; now right). lia.
Qed.

Lemma sumR_swap {A B} (f : A -> B -> R) l1 l2 :
  sumR (fun a => sumR (fun b => f a b) l2) l1 = sumR (fun b => sumR (fun a => f a b) l1) l2.
Proof.
  induction l1 as [|a l1 IH].
  - simpl. symmetry. now apply sumR_zero.
  - rewrite sumR_cons, IH. clear IH. induction l2 as [|b l2 IH2]; [simpl; lra|].
    rewrite !sumR_cons, <- IH2. lra.
Qed.
Lemma sumZ_swap {A B} (f : A -> B -> Z) l1 l2 :
  sumZ (fun a => sumZ (fun b => f a b) l2) l1 = sumZ (fun b => sumZ (fun a => f a b) l1) l2.
Proof.
  induction l1 as [|a l1 IH].
  - simpl. symmetry. now apply sumZ_zero.
  - rewrite sumZ_cons, IH. clear IH. induction l2 as [|b l2 IH2]; [simpl; lia|].
    rewrite !sumZ_cons, <- IH2. lia.
Qed.

Lemma SS_snoc {A} (R : A -> A -> Prop) l x :
  StronglySorted R l -> Forall (fun a => R a x) l -> StronglySorted R (l ++ [x]).
Proof.
  induction l as [|a l IH]; intros HS HF; simpl.
  - constructor; constructor.
  - inversion HS; subst. inversion HF; subst. constructor; [now apply IH|].
    apply Forall_app; split; [assumption|]. now constructor.
Qed.

Lemma SS_rev_lt_gt l : StronglySorted Z.lt l -> StronglySorted Z.gt (rev l).
Proof.
  induction 1 as [|a l HS IH HF]; [constructor|].
  simpl. apply SS_snoc; [assumption|].
  apply Forall_rev. eapply Forall_impl; [|exact HF]. intros b Hb. lia.
Qed.

Lemma asc_of_sorted l : Sorted Z.lt (innovs l) -> asc l.
Proof. apply Sorted_StronglySorted. intros x y z; lia. Qed.

Lemma asc_inv x l : asc (x :: l) -> asc l /\ forall g, In g l -> fst x < fst g.
Proof.
  unfold asc; simpl; intros H. inversion H; subst. split; [assumption|].
  intros g Hg. rewrite Forall_forall in H3. apply H3. unfold innovs. now apply in_map.
Qed.

Lemma desc_inv x l : desc (x :: l) -> desc l /\ forall g, In g l -> fst g < fst x.
Proof.
  unfold desc; simpl; intros H. inversion H; subst. split; [assumption|].
  intros g Hg. rewrite Forall_forall in H3. apply Z.gt_lt, H3. unfold innovs. now apply in_map.
Qed.

Lemma desc_rev' l : asc l -> desc (rev' l).
Proof.
  unfold asc, desc, rev', innovs. rewrite <- rev_alt, map_rev. apply SS_rev_lt_gt.
Qed.

(* ---------- matching / above: elementary facts ---------- *)

Lemma matches_cons (y : geneR) (other : list geneR) (g : geneR) : matches (y :: other) g = Z.eqb (fst g) (fst y) || matches other g.
Proof. reflexivity. Qed.
Lemma above_all_cons (y : geneR) (other : list geneR) (g : geneR) : above_all (y :: other) g = Z.ltb (fst y) (fst g) && above_all other g.
Proof. reflexivity. Qed.

Lemma existsb_rev {A} (f : A -> bool) l : existsb f (rev l) = existsb f l.
Proof.
  apply eq_true_iff_eq. rewrite !existsb_exists. split; intros [x [Hx E]]; exists x; split; auto.
  - now rewrite in_rev. - now rewrite <- in_rev.
Qed.
Lemma forallb_rev {A} (f : A -> bool) l : forallb f (rev l) = forallb f l.
Proof.
  apply eq_true_iff_eq. rewrite !forallb_forall. split; intros H x Hx; apply H.
  - now rewrite <- in_rev. - now rewrite in_rev.
Qed.
Implicit Types x y g h : geneR.
Implicit Types l other r : list geneR.

Lemma matches_rev other g : matches (rev other) g = matches other g.
Proof. unfold matches, innovs. rewrite map_rev. apply existsb_rev. Qed.
Lemma above_all_rev other g : above_all (rev other) g = above_all other g.
Proof. unfold above_all, innovs. rewrite map_rev. apply forallb_rev. Qed.

Lemma matches_false other g : (forall h, In h other -> fst g <> fst h) -> matches other g = false.
Proof.
  intros H. unfold matches, innovs. apply not_true_is_false. intros E.
  apply existsb_exists in E. destruct E as [n [Hn E]]. apply in_map_iff in Hn.
  destruct Hn as [h [<- Hh]]. apply Z.eqb_eq in E. exact (H h Hh E).
Qed.
Lemma above_all_true other g : (forall h, In h other -> fst h < fst g) -> above_all other g = true.
Proof.
  intros H. unfold above_all, innovs. apply forallb_forall. intros n Hn. apply in_map_iff in Hn.
  destruct Hn as [h [<- Hh]]. apply Z.ltb_lt. now apply H.
Qed.

(* the inner sums against a list that does not contain the number *)
Lemma inner_sumZ_absent (n : Z) (l : list geneR) :
  (forall h, In h l -> n <> fst h) -> sumZ (fun g2 : geneR => if Z.eqb n (fst g2) then 1 else 0) l = 0.
Proof. intros H. apply sumZ_zero. intros h Hh. destruct (Z.eqb_spec n (fst h)); [now elim (H h Hh)|reflexivity]. Qed.
Lemma inner_sumR_absent (n : Z) (m : R) (l : list geneR) :
  (forall h, In h l -> n <> fst h) ->
  sumR (fun g2 : geneR => if Z.eqb n (fst g2) then Rabs (m - snd g2) else 0%R) l = 0%R.
Proof. intros H. apply sumR_zero. intros h Hh. destruct (Z.eqb_spec n (fst h)); [now elim (H h Hh)|reflexivity]. Qed.

(* M and mutdiff_sum: consuming a gene absent from the other list / a matching pair *)
Lemma M_nil_l l2 : M [] l2 = 0. Proof. reflexivity. Qed.
Lemma M_nil_r l1 : M l1 [] = 0. Proof. unfold M. now apply sumZ_zero. Qed.
Lemma S_nil_l l2 : mutdiff_sum [] l2 = 0%R. Proof. reflexivity. Qed.
Lemma S_nil_r l1 : mutdiff_sum l1 [] = 0%R. Proof. unfold mutdiff_sum. now apply sumR_zero. Qed.

Lemma M_sym l1 l2 : M l1 l2 = M l2 l1.
Proof.
  unfold M. rewrite sumZ_swap. apply sumZ_ext_in. intros b _. apply sumZ_ext_in. intros a _.
  now rewrite Z.eqb_sym.
Qed.
Lemma S_sym l1 l2 : mutdiff_sum l1 l2 = mutdiff_sum l2 l1.
Proof.
  unfold mutdiff_sum. rewrite sumR_swap. apply sumR_ext_in. intros b _. apply sumR_ext_in. intros a _.
  now rewrite Z.eqb_sym, Rabs_minus_sym.
Qed.

Lemma M_drop_l x l1 l2 : (forall h, In h l2 -> fst x <> fst h) -> M (x :: l1) l2 = M l1 l2.
Proof. intros H. unfold M. rewrite sumZ_cons, inner_sumZ_absent by assumption. lia. Qed.
Lemma S_drop_l x l1 l2 : (forall h, In h l2 -> fst x <> fst h) -> mutdiff_sum (x :: l1) l2 = mutdiff_sum l1 l2.
Proof. intros H. unfold mutdiff_sum. rewrite sumR_cons, inner_sumR_absent by assumption. lra. Qed.
Lemma M_drop_r y l1 l2 : (forall g, In g l1 -> fst y <> fst g) -> M l1 (y :: l2) = M l1 l2.
Proof. intros H. rewrite M_sym, M_drop_l by assumption. apply M_sym. Qed.
Lemma S_drop_r y l1 l2 : (forall g, In g l1 -> fst y <> fst g) -> mutdiff_sum l1 (y :: l2) = mutdiff_sum l1 l2.
Proof. intros H. rewrite S_sym, S_drop_l by assumption. apply S_sym. Qed.

Lemma M_match x y l1 l2 : fst x = fst y ->
  (forall h, In h l2 -> fst x <> fst h) -> (forall g, In g l1 -> fst y <> fst g) ->
  M (x :: l1) (y :: l2) = 1 + M l1 l2.
Proof.
  intros Exy H1 H2. unfold M at 1. rewrite sumZ_cons, sumZ_cons.
  rewrite inner_sumZ_absent by assumption. rewrite Exy, Z.eqb_refl.
  change (sumZ _ l1) with (M l1 (y :: l2)). rewrite M_drop_r by assumption. lia.
Qed.
Lemma S_match x y l1 l2 : fst x = fst y ->
  (forall h, In h l2 -> fst x <> fst h) -> (forall g, In g l1 -> fst y <> fst g) ->
  mutdiff_sum (x :: l1) (y :: l2) = (Rabs (snd x - snd y) + mutdiff_sum l1 l2)%R.
Proof.
  intros Exy H1 H2. unfold mutdiff_sum at 1. rewrite sumR_cons, sumR_cons.
  rewrite inner_sumR_absent by assumption. rewrite Exy, Z.eqb_refl.
  change (sumR _ l1) with (mutdiff_sum l1 (y :: l2)). rewrite S_drop_r by assumption. lra.
Qed.

Lemma M_nonneg l1 l2 : 0 <= M l1 l2.
Proof.
  unfold M. apply sumZ_nonneg. intros a _. apply sumZ_nonneg. intros b _.
  destruct (Z.eqb _ _); lia.
Qed.
Lemma S_nonneg l1 l2 : (0 <= mutdiff_sum l1 l2)%R.
Proof.
  unfold mutdiff_sum. apply sumR_nonneg. intros a _. apply sumR_nonneg. intros b _.
  destruct (Z.eqb _ _); [apply Rabs_pos|lra].
Qed.

(* ---------- E and D: empty lists ---------- *)

Lemma is_excess_nil g : is_excess [] g = true. Proof. reflexivity. Qed.
Lemma is_disjoint_nil g : is_disjoint [] g = false. Proof. reflexivity. Qed.

Lemma E_nil_l l2 : E [] l2 = Z.of_nat (length l2).
Proof. unfold E. rewrite count_nil, count_const_true; [lia|]. intros; apply is_excess_nil. Qed.
Lemma E_nil_r l1 : E l1 [] = Z.of_nat (length l1).
Proof. unfold E. rewrite count_nil, count_const_true; [lia|]. intros; apply is_excess_nil. Qed.
Lemma D_nil_l l2 : D [] l2 = 0.
Proof. unfold D. rewrite count_nil, count_const_false; [lia|]. intros; apply is_disjoint_nil. Qed.
Lemma D_nil_r l1 : D l1 [] = 0.
Proof. unfold D. rewrite count_nil, count_const_false; [lia|]. intros; apply is_disjoint_nil. Qed.

Lemma E_sym l1 l2 : E l1 l2 = E l2 l1. Proof. unfold E; lia. Qed.
Lemma D_sym l1 l2 : D l1 l2 = D l2 l1. Proof. unfold D; lia. Qed.
Lemma E_nonneg l1 l2 : 0 <= E l1 l2.
Proof. unfold E. pose proof (count_nonneg (is_excess l2) l1). pose proof (count_nonneg (is_excess l1) l2). lia. Qed.
Lemma D_nonneg l1 l2 : 0 <= D l1 l2.
Proof. unfold D. pose proof (count_nonneg (is_disjoint l2) l1). pose proof (count_nonneg (is_disjoint l1) l2). lia. Qed.

(* a smaller head of the other list does not change the status of h *)
Lemma status_drop_small x l1 h : fst x < fst h ->
  matches (x :: l1) h = matches l1 h /\ above_all (x :: l1) h = above_all l1 h.
Proof.
  intros H. rewrite matches_cons, above_all_cons.
  destruct (Z.eqb_spec (fst h) (fst x)); [lia|]. destruct (Z.ltb_spec (fst x) (fst h)); [|lia]. auto.
Qed.
(* a bigger head of the other list: g does not match it and is not above it *)
Lemma status_drop_big y l2 g : fst g < fst y ->
  matches (y :: l2) g = matches l2 g /\ above_all (y :: l2) g = false.
Proof.
  intros H. rewrite matches_cons, above_all_cons.
  destruct (Z.eqb_spec (fst g) (fst y)); [lia|]. destruct (Z.ltb_spec (fst y) (fst g)); [lia|]. auto.
Qed.

(* ---------- ascending walk: recurrences of E and D ---------- *)

Lemma asc_step_lt x l1 y l2 : asc (x :: l1) -> asc (y :: l2) -> fst x < fst y ->
  E (x :: l1) (y :: l2) = E l1 (y :: l2) /\ D (x :: l1) (y :: l2) = 1 + D l1 (y :: l2).
Proof.
  intros H1 H2 Hlt. apply asc_inv in H1, H2. destruct H1 as [_ H1], H2 as [_ H2].
  assert (Hh : forall h, In h (y :: l2) -> fst x < fst h).
  { intros h [<-|Hh]; [assumption|]. specialize (H2 h Hh). lia. }
  assert (Ex : is_excess (y :: l2) x = false).
  { unfold is_excess. rewrite above_all_cons. destruct (Z.ltb_spec (fst y) (fst x)); [lia|].
    simpl. apply andb_false_r. }
  assert (Dx : is_disjoint (y :: l2) x = true).
  { unfold is_disjoint. rewrite above_all_cons. destruct (Z.ltb_spec (fst y) (fst x)); [lia|].
    rewrite matches_false by (intros h Hh'; specialize (Hh h Hh'); lia). reflexivity. }
  unfold E, D.
  rewrite (count_cons (is_excess (y :: l2)) x l1), (count_cons (is_disjoint (y :: l2)) x l1), Ex, Dx.
  rewrite (count_ext_in (is_excess (x :: l1)) (is_excess l1) (y :: l2)).
  2:{ intros h Hh'. unfold is_excess. destruct (status_drop_small x l1 h (Hh h Hh')) as [Ha Hb]. rewrite Ha, Hb. reflexivity. }
  rewrite (count_ext_in (is_disjoint (x :: l1)) (is_disjoint l1) (y :: l2)).
  2:{ intros h Hh'. unfold is_disjoint. destruct (status_drop_small x l1 h (Hh h Hh')) as [Ha Hb]. rewrite Ha, Hb. reflexivity. }
  lia.
Qed.

Lemma asc_step_gt x l1 y l2 : asc (x :: l1) -> asc (y :: l2) -> fst y < fst x ->
  E (x :: l1) (y :: l2) = E (x :: l1) l2 /\ D (x :: l1) (y :: l2) = 1 + D (x :: l1) l2.
Proof.
  intros H1 H2 Hlt. rewrite (E_sym (x :: l1)), (D_sym (x :: l1)), (E_sym (x :: l1)), (D_sym (x :: l1)).
  now apply asc_step_lt.
Qed.

Lemma asc_step_eq x l1 y l2 : asc (x :: l1) -> asc (y :: l2) -> fst x = fst y ->
  E (x :: l1) (y :: l2) = E l1 l2 /\ D (x :: l1) (y :: l2) = D l1 l2.
Proof.
  intros H1 H2 Heq. apply asc_inv in H1, H2. destruct H1 as [_ H1], H2 as [_ H2].
  assert (Mx : matches (y :: l2) x = true) by (rewrite matches_cons, Heq, Z.eqb_refl; reflexivity).
  assert (My : matches (x :: l1) y = true) by (rewrite matches_cons, Heq, Z.eqb_refl; reflexivity).
  unfold E, D.
  rewrite (count_cons (is_excess (y :: l2)) x l1), (count_cons (is_disjoint (y :: l2)) x l1).
  rewrite (count_cons (is_excess (x :: l1)) y l2), (count_cons (is_disjoint (x :: l1)) y l2).
  unfold is_excess at 1 3, is_disjoint at 1 3. rewrite Mx, My. cbn [negb andb].
  rewrite (count_ext_in (is_excess (y :: l2)) (is_excess l2) l1).
  2:{ intros g Hg. unfold is_excess. destruct (status_drop_small y l2 g) as [Ha Hb]; [|rewrite Ha, Hb; reflexivity].
      specialize (H1 g Hg). lia. }
  rewrite (count_ext_in (is_excess (x :: l1)) (is_excess l1) l2).
  2:{ intros g Hg. unfold is_excess. destruct (status_drop_small x l1 g) as [Ha Hb]; [|rewrite Ha, Hb; reflexivity].
      specialize (H2 g Hg). lia. }
  rewrite (count_ext_in (is_disjoint (y :: l2)) (is_disjoint l2) l1).
  2:{ intros g Hg. unfold is_disjoint. destruct (status_drop_small y l2 g) as [Ha Hb]; [|rewrite Ha, Hb; reflexivity].
      specialize (H1 g Hg). lia. }
  rewrite (count_ext_in (is_disjoint (x :: l1)) (is_disjoint l1) l2).
  2:{ intros g Hg. unfold is_disjoint. destruct (status_drop_small x l1 g) as [Ha Hb]; [|rewrite Ha, Hb; reflexivity].
      specialize (H2 g Hg). lia. }
  lia.
Qed.

(* M and mutdiff_sum along a sorted walk (either direction): heads that differ are absent
   from the other list; equal heads are the only match of each other *)
Lemma asc_absent_l x l1 y l2 : asc (y :: l2) -> fst x < fst y -> forall h, In h (y :: l2) -> fst x <> fst h.
Proof. intros H2 Hlt h [<-|Hh]; [lia|]. apply asc_inv in H2. destruct H2 as [_ H2]. specialize (H2 h Hh). lia. Qed.
Lemma desc_absent_l x y l2 : desc (y :: l2) -> fst y < fst x -> forall h, In h (y :: l2) -> fst x <> fst h.
Proof. intros H2 Hlt h [<-|Hh]; [lia|]. apply desc_inv in H2. destruct H2 as [_ H2]. specialize (H2 h Hh). lia. Qed.

(* ---------- compatLinear over R ---------- *)

Local Open Scope R_scope.

Lemma lin_state_eq (a b : lin_state R) :
  ls_disjoint R a = ls_disjoint R b -> ls_excess R a = ls_excess R b ->
  ls_mutdiff R a = ls_mutdiff R b -> ls_matching R a = ls_matching R b -> a = b.
Proof. destruct a, b; simpl; intros; subst; reflexivity. Qed.

Definition lin_spec_state (st : lin_state R) (l1 l2 : list geneR) : lin_state R :=
  {| ls_disjoint := ls_disjoint R st + IZR (D l1 l2); ls_excess := ls_excess R st + IZR (E l1 l2);
     ls_mutdiff := ls_mutdiff R st + mutdiff_sum l1 l2; ls_matching := ls_matching R st + IZR (M l1 l2) |}.

Lemma lin_walk_spec : forall l1 l2 st, asc l1 -> asc l2 ->
  lin_walk R_num l1 l2 st = lin_spec_state st l1 l2.
Proof.
  induction l1 as [|x l1 IH1].
  - induction l2 as [|y l2 IH2]; intros st H1 H2.
    + unfold lin_spec_state. rewrite E_nil_l, D_nil_l, M_nil_l, S_nil_l. apply lin_state_eq; simpl; lra.
    + change (lin_walk R_num [] (y :: l2) st) with
        (lin_walk R_num [] l2 {| ls_disjoint := ls_disjoint R st; ls_excess := ls_excess R st + 1;
                                 ls_mutdiff := ls_mutdiff R st; ls_matching := ls_matching R st |}).
      rewrite IH2 by (try assumption; apply (asc_inv y l2 H2)).
      unfold lin_spec_state; simpl.
      rewrite ?E_nil_l, ?D_nil_l, ?M_nil_l, ?S_nil_l. simpl length. rewrite Nat2Z.inj_succ, succ_IZR.
      apply lin_state_eq; simpl; lra.
  - induction l2 as [|y l2 IH2]; intros st H1 H2.
    + change (lin_walk R_num (x :: l1) [] st) with
        (lin_walk R_num l1 [] {| ls_disjoint := ls_disjoint R st; ls_excess := ls_excess R st + 1;
                                 ls_mutdiff := ls_mutdiff R st; ls_matching := ls_matching R st |}).
      rewrite IH1 by (try assumption; apply (asc_inv x l1 H1)).
      unfold lin_spec_state; simpl.
      rewrite ?E_nil_r, ?D_nil_r, ?M_nil_r, ?S_nil_r. simpl length. rewrite Nat2Z.inj_succ, succ_IZR.
      apply lin_state_eq; simpl; lra.
    + pose proof (asc_inv x l1 H1) as [H1' H1x]. pose proof (asc_inv y l2 H2) as [H2' H2y].
      destruct (Z.eqb (fst x) (fst y)) eqn:Eeq; [|destruct (Z.ltb (fst x) (fst y)) eqn:Elt].
      * change (lin_walk R_num (x :: l1) (y :: l2) st) with
          (if Z.eqb (innov x) (innov y) then
             lin_walk R_num l1 l2 {| ls_disjoint := ls_disjoint R st; ls_excess := ls_excess R st;
                                     ls_mutdiff := ls_mutdiff R st + Rabs (snd x - snd y);
                                     ls_matching := ls_matching R st + 1 |}
           else if Z.ltb (innov x) (innov y) then
             lin_walk R_num l1 (y :: l2) {| ls_disjoint := ls_disjoint R st + 1; ls_excess := ls_excess R st;
                                            ls_mutdiff := ls_mutdiff R st; ls_matching := ls_matching R st |}
           else
             lin_walk R_num (x :: l1) l2 {| ls_disjoint := ls_disjoint R st + 1; ls_excess := ls_excess R st;
                                            ls_mutdiff := ls_mutdiff R st; ls_matching := ls_matching R st |}).
        unfold innov. rewrite Eeq. apply Z.eqb_eq in Eeq.
        rewrite IH1 by assumption. unfold lin_spec_state. cbn [ls_disjoint ls_excess ls_mutdiff ls_matching].
        destruct (asc_step_eq x l1 y l2 H1 H2 Eeq) as [-> ->].
        assert (Hx : forall h, In h l2 -> fst x <> fst h) by (intros h Hh; specialize (H2y h Hh); lia).
        assert (Hy : forall g, In g l1 -> fst y <> fst g) by (intros g Hg; specialize (H1x g Hg); lia).
        rewrite (M_match x y l1 l2 Eeq Hx Hy), (S_match x y l1 l2 Eeq Hx Hy).
        rewrite plus_IZR. apply lin_state_eq; simpl; lra.
      * change (lin_walk R_num (x :: l1) (y :: l2) st) with
          (if Z.eqb (innov x) (innov y) then
             lin_walk R_num l1 l2 {| ls_disjoint := ls_disjoint R st; ls_excess := ls_excess R st;
                                     ls_mutdiff := ls_mutdiff R st + Rabs (snd x - snd y);
                                     ls_matching := ls_matching R st + 1 |}
           else if Z.ltb (innov x) (innov y) then
             lin_walk R_num l1 (y :: l2) {| ls_disjoint := ls_disjoint R st + 1; ls_excess := ls_excess R st;
                                            ls_mutdiff := ls_mutdiff R st; ls_matching := ls_matching R st |}
           else
             lin_walk R_num (x :: l1) l2 {| ls_disjoint := ls_disjoint R st + 1; ls_excess := ls_excess R st;
                                            ls_mutdiff := ls_mutdiff R st; ls_matching := ls_matching R st |}).
        unfold innov. rewrite Eeq, Elt. apply Z.ltb_lt in Elt.
        rewrite IH1 by assumption. unfold lin_spec_state. cbn [ls_disjoint ls_excess ls_mutdiff ls_matching].
        destruct (asc_step_lt x l1 y l2 H1 H2 Elt) as [-> ->].
        pose proof (asc_absent_l x l1 y l2 H2 Elt) as Hx.
        rewrite (M_drop_l x l1 (y :: l2) Hx), (S_drop_l x l1 (y :: l2) Hx).
        rewrite plus_IZR. apply lin_state_eq; simpl; lra.
      * change (lin_walk R_num (x :: l1) (y :: l2) st) with
          (if Z.eqb (innov x) (innov y) then
             lin_walk R_num l1 l2 {| ls_disjoint := ls_disjoint R st; ls_excess := ls_excess R st;
                                     ls_mutdiff := ls_mutdiff R st + Rabs (snd x - snd y);
                                     ls_matching := ls_matching R st + 1 |}
           else if Z.ltb (innov x) (innov y) then
             lin_walk R_num l1 (y :: l2) {| ls_disjoint := ls_disjoint R st + 1; ls_excess := ls_excess R st;
                                            ls_mutdiff := ls_mutdiff R st; ls_matching := ls_matching R st |}
           else
             lin_walk R_num (x :: l1) l2 {| ls_disjoint := ls_disjoint R st + 1; ls_excess := ls_excess R st;
                                            ls_mutdiff := ls_mutdiff R st; ls_matching := ls_matching R st |}).
        unfold innov. rewrite Eeq, Elt. apply Z.eqb_neq in Eeq. apply Z.ltb_ge in Elt.
        assert (Hgt : (fst y < fst x)%Z) by lia.
        rewrite IH2 by assumption. unfold lin_spec_state. cbn [ls_disjoint ls_excess ls_mutdiff ls_matching].
        destruct (asc_step_gt x l1 y l2 H1 H2 Hgt) as [-> ->].
        pose proof (asc_absent_l y l2 x l1 H1 Hgt) as Hy.
        rewrite (M_drop_r y (x :: l1) l2 Hy), (S_drop_r y (x :: l1) l2 Hy).
        rewrite plus_IZR. apply lin_state_eq; simpl; lra.
Qed.

(* ---------- descending walk with "already consumed" flags ---------- *)

Local Open Scope Z_scope.

(* b = a gene of the other genome has already been passed (it is above everything left) *)
Definition exc_g (b : bool) (other : list geneR) (g : geneR) : bool :=
  negb (matches other g) && (negb b && above_all other g).
Definition dis_g (b : bool) (other : list geneR) (g : geneR) : bool :=
  negb (matches other g) && (b || negb (above_all other g)).
Definition Eg (b1 b2 : bool) (r1 r2 : list geneR) : Z := count (exc_g b2 r2) r1 + count (exc_g b1 r1) r2.
Definition Dg (b1 b2 : bool) (r1 r2 : list geneR) : Z := count (dis_g b2 r2) r1 + count (dis_g b1 r1) r2.

Lemma Eg_ff r1 r2 : Eg false false r1 r2 = E r1 r2.
Proof. reflexivity. Qed.
Lemma Dg_ff r1 r2 : Dg false false r1 r2 = D r1 r2.
Proof. reflexivity. Qed.

Lemma Eg_sym b1 b2 r1 r2 : Eg b1 b2 r1 r2 = Eg b2 b1 r2 r1. Proof. unfold Eg; lia. Qed.
Lemma Dg_sym b1 b2 r1 r2 : Dg b1 b2 r1 r2 = Dg b2 b1 r2 r1. Proof. unfold Dg; lia. Qed.

Lemma Eg_nil_l b2 r2 : Eg true b2 [] r2 = 0.
Proof. unfold Eg. rewrite count_nil, count_const_false; [lia|]. intros; reflexivity. Qed.
Lemma Dg_nil_l b2 r2 : Dg true b2 [] r2 = Z.of_nat (length r2).
Proof. unfold Dg. rewrite count_nil, count_const_true; [lia|]. intros; reflexivity. Qed.
Lemma Eg_nil_r b1 r1 : Eg b1 true r1 [] = 0.
Proof. rewrite Eg_sym. apply Eg_nil_l. Qed.
Lemma Dg_nil_r b1 r1 : Dg b1 true r1 [] = Z.of_nat (length r1).
Proof. rewrite Dg_sym. apply Dg_nil_l. Qed.

(* the bigger head y of r2 is passed: it is excess iff nothing of genome 1 was passed before *)
Lemma desc_step_gt b1 b2 x r1 y r2 : desc (x :: r1) -> desc (y :: r2) -> fst x < fst y ->
  Eg b1 b2 (x :: r1) (y :: r2) = (if b1 then 0 else 1) + Eg b1 true (x :: r1) r2 /\
  Dg b1 b2 (x :: r1) (y :: r2) = (if b1 then 1 else 0) + Dg b1 true (x :: r1) r2.
Proof.
  intros H1 H2 Hlt. apply desc_inv in H1, H2. destruct H1 as [_ H1], H2 as [_ H2].
  assert (Hg : forall g, In g (x :: r1) -> fst g < fst y).
  { intros g [<-|Hg]; [assumption|]. specialize (H1 g Hg). lia. }
  assert (My : matches (x :: r1) y = false) by (apply matches_false; intros g Hg'; specialize (Hg g Hg'); lia).
  assert (Ay : above_all (x :: r1) y = true) by (apply above_all_true; exact Hg).
  unfold Eg, Dg.
  rewrite (count_cons (exc_g b1 (x :: r1)) y r2), (count_cons (dis_g b1 (x :: r1)) y r2).
  unfold exc_g at 2, dis_g at 2. rewrite My, Ay. cbn [negb andb orb].
  rewrite (count_ext_in (exc_g b2 (y :: r2)) (exc_g true r2) (x :: r1)).
  2:{ intros g Hg'. unfold exc_g. destruct (status_drop_big y r2 g (Hg g Hg')) as [Ha Hb]. rewrite Ha, Hb.
      cbn [negb andb]. now rewrite !andb_false_r. }
  rewrite (count_ext_in (dis_g b2 (y :: r2)) (dis_g true r2) (x :: r1)).
  2:{ intros g Hg'. unfold dis_g. destruct (status_drop_big y r2 g (Hg g Hg')) as [Ha Hb]. rewrite Ha, Hb.
      cbn [negb orb]. now rewrite orb_true_r. }
  destruct b1; cbn [negb andb orb]; rewrite ?andb_true_r, ?orb_false_r; lia.
Qed.

Lemma desc_step_lt b1 b2 x r1 y r2 : desc (x :: r1) -> desc (y :: r2) -> fst y < fst x ->
  Eg b1 b2 (x :: r1) (y :: r2) = (if b2 then 0 else 1) + Eg true b2 r1 (y :: r2) /\
  Dg b1 b2 (x :: r1) (y :: r2) = (if b2 then 1 else 0) + Dg true b2 r1 (y :: r2).
Proof.
  intros H1 H2 Hlt. rewrite (Eg_sym b1 b2), (Dg_sym b1 b2), (Eg_sym true b2), (Dg_sym true b2).
  now apply desc_step_gt.
Qed.

Lemma desc_step_eq b1 b2 x r1 y r2 : desc (x :: r1) -> desc (y :: r2) -> fst x = fst y ->
  Eg b1 b2 (x :: r1) (y :: r2) = Eg true true r1 r2 /\ Dg b1 b2 (x :: r1) (y :: r2) = Dg true true r1 r2.
Proof.
  intros H1 H2 Heq. apply desc_inv in H1, H2. destruct H1 as [_ H1], H2 as [_ H2].
  assert (Mx : matches (y :: r2) x = true) by (rewrite matches_cons, Heq, Z.eqb_refl; reflexivity).
  assert (My : matches (x :: r1) y = true) by (rewrite matches_cons, Heq, Z.eqb_refl; reflexivity).
  unfold Eg, Dg.
  rewrite (count_cons (exc_g b2 (y :: r2)) x r1), (count_cons (dis_g b2 (y :: r2)) x r1).
  rewrite (count_cons (exc_g b1 (x :: r1)) y r2), (count_cons (dis_g b1 (x :: r1)) y r2).
  unfold exc_g at 1 3, dis_g at 1 3. rewrite Mx, My. cbn [negb andb].
  rewrite (count_ext_in (exc_g b2 (y :: r2)) (exc_g true r2) r1).
  2:{ intros g Hg. unfold exc_g. destruct (status_drop_big y r2 g) as [Ha Hb]; [specialize (H1 g Hg); lia|].
      rewrite Ha, Hb. cbn [negb andb]. now rewrite !andb_false_r. }
  rewrite (count_ext_in (exc_g b1 (x :: r1)) (exc_g true r1) r2).
  2:{ intros g Hg. unfold exc_g. destruct (status_drop_big x r1 g) as [Ha Hb]; [specialize (H2 g Hg); lia|].
      rewrite Ha, Hb. cbn [negb andb]. now rewrite !andb_false_r. }
  rewrite (count_ext_in (dis_g b2 (y :: r2)) (dis_g true r2) r1).
  2:{ intros g Hg. unfold dis_g. destruct (status_drop_big y r2 g) as [Ha Hb]; [specialize (H1 g Hg); lia|].
      rewrite Ha, Hb. cbn [negb orb]. now rewrite orb_true_r. }
  rewrite (count_ext_in (dis_g b1 (x :: r1)) (dis_g true r1) r2).
  2:{ intros g Hg. unfold dis_g. destruct (status_drop_big x r1 g) as [Ha Hb]; [specialize (H2 g Hg); lia|].
      rewrite Ha, Hb. cbn [negb orb]. now rewrite orb_true_r. }
  lia.
Qed.

(* ---------- compatFast over R ---------- *)

(* excessGenesSwitch as a pair of flags: 0 nothing passed, 1 only genes of genome 1 passed,
   2 only genes of genome 2 passed, 3 genes of both passed *)
Definition switch_of (b1 b2 : bool) : Z := if b1 then (if b2 then 3 else 1) else (if b2 then 2 else 0).

Local Open Scope R_scope.

Lemma fast_walk_nil_l (dc ec : R) r2 st :
  fast_walk R_num dc ec [] r2 st =
  {| fs_switch := fs_switch R st; fs_matching := fs_matching R st;
     fs_compat := fs_compat R st + IZR (Z.of_nat (length r2)) * dc; fs_mutdiff := fs_mutdiff R st |}.
Proof. destruct r2; reflexivity. Qed.
Lemma fast_walk_nil_r (dc ec : R) x r1 st :
  fast_walk R_num dc ec (x :: r1) [] st =
  {| fs_switch := fs_switch R st; fs_matching := fs_matching R st;
     fs_compat := fs_compat R st + IZR (Z.of_nat (length (x :: r1))) * dc; fs_mutdiff := fs_mutdiff R st |}.
Proof. reflexivity. Qed.

Definition bump_gt (dc ec : R) (st : fast_state R) : fast_state R :=
  let sw := fs_switch R st in
  if Z.eqb sw 3 then {| fs_switch := sw; fs_matching := fs_matching R st; fs_compat := fs_compat R st + dc; fs_mutdiff := fs_mutdiff R st |}
  else if Z.eqb sw 2 then {| fs_switch := sw; fs_matching := fs_matching R st; fs_compat := fs_compat R st + ec; fs_mutdiff := fs_mutdiff R st |}
  else if Z.eqb sw 1 then {| fs_switch := 3; fs_matching := fs_matching R st; fs_compat := fs_compat R st + dc; fs_mutdiff := fs_mutdiff R st |}
  else {| fs_switch := 2; fs_matching := fs_matching R st; fs_compat := fs_compat R st + ec; fs_mutdiff := fs_mutdiff R st |}.
Definition bump_lt (dc ec : R) (st : fast_state R) : fast_state R :=
  let sw := fs_switch R st in
  if Z.eqb sw 3 then {| fs_switch := sw; fs_matching := fs_matching R st; fs_compat := fs_compat R st + dc; fs_mutdiff := fs_mutdiff R st |}
  else if Z.eqb sw 1 then {| fs_switch := sw; fs_matching := fs_matching R st; fs_compat := fs_compat R st + ec; fs_mutdiff := fs_mutdiff R st |}
  else if Z.eqb sw 2 then {| fs_switch := 3; fs_matching := fs_matching R st; fs_compat := fs_compat R st + dc; fs_mutdiff := fs_mutdiff R st |}
  else {| fs_switch := 1; fs_matching := fs_matching R st; fs_compat := fs_compat R st + ec; fs_mutdiff := fs_mutdiff R st |}.

Lemma fast_walk_cons_cons (dc ec : R) x r1 y r2 st :
  fast_walk R_num dc ec (x :: r1) (y :: r2) st =
  if Z.gtb (fst y) (fst x) then fast_walk R_num dc ec (x :: r1) r2 (bump_gt dc ec st)
  else if Z.eqb (fst x) (fst y) then
    fast_walk R_num dc ec r1 r2
      {| fs_switch := 3; fs_matching := fs_matching R st + 1; fs_compat := fs_compat R st;
         fs_mutdiff := fs_mutdiff R st + Rabs (snd x - snd y) |}
  else fast_walk R_num dc ec r1 (y :: r2) (bump_lt dc ec st).
Proof. reflexivity. Qed.

Lemma bump_gt_spec dc ec st b1 b2 : fs_switch R st = switch_of b1 b2 ->
  fs_switch R (bump_gt dc ec st) = switch_of b1 true /\
  fs_compat R (bump_gt dc ec st) = fs_compat R st + (if b1 then dc else ec) /\
  fs_matching R (bump_gt dc ec st) = fs_matching R st /\ fs_mutdiff R (bump_gt dc ec st) = fs_mutdiff R st.
Proof. intros H. unfold bump_gt. rewrite H. destruct b1, b2; simpl; auto. Qed.
Lemma bump_lt_spec dc ec st b1 b2 : fs_switch R st = switch_of b1 b2 ->
  fs_switch R (bump_lt dc ec st) = switch_of true b2 /\
  fs_compat R (bump_lt dc ec st) = fs_compat R st + (if b2 then dc else ec) /\
  fs_matching R (bump_lt dc ec st) = fs_matching R st /\ fs_mutdiff R (bump_lt dc ec st) = fs_mutdiff R st.
Proof. intros H. unfold bump_lt. rewrite H. destruct b1, b2; simpl; auto. Qed.

Lemma fast_walk_spec (dc ec : R) : forall r1 r2 st b1 b2, desc r1 -> desc r2 ->
  fs_switch R st = switch_of b1 b2 ->
  (r1 = [] -> b1 = true) -> (r1 <> [] -> r2 = [] -> b2 = true) ->
  fs_compat R (fast_walk R_num dc ec r1 r2 st) =
    fs_compat R st + ec * IZR (Eg b1 b2 r1 r2) + dc * IZR (Dg b1 b2 r1 r2) /\
  fs_matching R (fast_walk R_num dc ec r1 r2 st) = (fs_matching R st + M r1 r2)%Z /\
  fs_mutdiff R (fast_walk R_num dc ec r1 r2 st) = fs_mutdiff R st + mutdiff_sum r1 r2.
Proof.
  induction r1 as [|x r1 IH1].
  - intros r2 st b1 b2 H1 H2 Hsw Hb1 _. rewrite (Hb1 eq_refl).
    rewrite Eg_nil_l, Dg_nil_l, M_nil_l, S_nil_l.
    rewrite fast_walk_nil_l. cbn [fs_compat fs_matching fs_mutdiff]. split; [lra|split; [lia|lra]].
  - induction r2 as [|y r2 IH2]; intros st b1 b2 H1 H2 Hsw Hb1 Hb2.
    + rewrite Hb2 by (reflexivity || discriminate). rewrite Eg_nil_r, Dg_nil_r, M_nil_r, S_nil_r.
      rewrite fast_walk_nil_r. cbn [fs_compat fs_matching fs_mutdiff]. split; [lra|split; [lia|lra]].
    + pose proof (desc_inv x r1 H1) as [H1' H1x]. pose proof (desc_inv y r2 H2) as [H2' H2y].
      destruct (Z.gtb (fst y) (fst x)) eqn:Egt; [|destruct (Z.eqb (fst x) (fst y)) eqn:Eeq].
      * (* gene2.InnovationNum > gene1.InnovationNum *)
        assert (Hlt : (fst x < fst y)%Z) by (apply Z.gtb_lt in Egt; lia).
        destruct (desc_step_gt b1 b2 x r1 y r2 H1 H2 Hlt) as [HE HD]. rewrite HE, HD.
        pose proof (desc_absent_l y x r1 H1 Hlt) as Hy.
        rewrite (M_drop_r y (x :: r1) r2 Hy), (S_drop_r y (x :: r1) r2 Hy).
        rewrite fast_walk_cons_cons, Egt.
        destruct (bump_gt_spec dc ec st b1 b2 Hsw) as [Bs [Bc [Bm Bd]]].
        destruct (IH2 (bump_gt dc ec st) b1 true H1 H2' Bs) as [Ha [Hb Hc]];
          [discriminate | reflexivity |].
        rewrite Ha, Hb, Hc, Bc, Bm, Bd. rewrite !plus_IZR.
        destruct b1; (split; [lra|split; [lia|lra]]).
      * (* equal innovation numbers *)
        apply Z.eqb_eq in Eeq.
        destruct (desc_step_eq b1 b2 x r1 y r2 H1 H2 Eeq) as [HE HD]. rewrite HE, HD.
        assert (Hx : forall h, In h r2 -> fst x <> fst h) by (intros h Hh; specialize (H2y h Hh); lia).
        assert (Hy : forall g, In g r1 -> fst y <> fst g) by (intros g Hg; specialize (H1x g Hg); lia).
        rewrite (M_match x y r1 r2 Eeq Hx Hy), (S_match x y r1 r2 Eeq Hx Hy).
        rewrite fast_walk_cons_cons, Egt. apply Z.eqb_eq in Eeq. rewrite Eeq.
        match goal with |- context [fast_walk R_num dc ec r1 r2 ?s] =>
          destruct (IH1 r2 s true true H1' H2' eq_refl) as [Ha [Hb Hc]]
        end.
        { intros _; reflexivity. } { intros _ _; reflexivity. }
        rewrite Ha, Hb, Hc; cbn [fs_compat fs_matching fs_mutdiff fs_switch].
        split; [lra|split; [lia|lra]].
      * (* gene1.InnovationNum > gene2.InnovationNum *)
        assert (Hlt : (fst y < fst x)%Z) by (apply Z.eqb_neq in Eeq; rewrite Z.gtb_ltb in Egt; apply Z.ltb_ge in Egt; lia).
        destruct (desc_step_lt b1 b2 x r1 y r2 H1 H2 Hlt) as [HE HD]. rewrite HE, HD.
        pose proof (desc_absent_l x y r2 H2 Hlt) as Hx.
        rewrite (M_drop_l x r1 (y :: r2) Hx), (S_drop_l x r1 (y :: r2) Hx).
        rewrite fast_walk_cons_cons, Egt, Eeq.
        destruct (bump_lt_spec dc ec st b1 b2 Hsw) as [Bs [Bc [Bm Bd]]].
        destruct (IH1 (y :: r2) (bump_lt dc ec st) true b2 H1' H2 Bs) as [Ha [Hb Hc]];
          [intros _; reflexivity | intros _; discriminate |].
        rewrite Ha, Hb, Hc, Bc, Bm, Bd. rewrite !plus_IZR.
        destruct b2; (split; [lra|split; [lia|lra]]).
Qed.

(* ---------- invariance of the declarative quantities under reversal ---------- *)

Lemma rev'_rev {A} (l : list A) : rev' l = rev l.
Proof. unfold rev'. symmetry. apply rev_alt. Qed.

Lemma E_rev l1 l2 : E (rev l1) (rev l2) = E l1 l2.
Proof.
  unfold E. rewrite !count_rev. f_equal; apply count_ext_in; intros g _; unfold is_excess;
    now rewrite matches_rev, above_all_rev.
Qed.
Lemma D_rev l1 l2 : D (rev l1) (rev l2) = D l1 l2.
Proof.
  unfold D. rewrite !count_rev. f_equal; apply count_ext_in; intros g _; unfold is_disjoint;
    now rewrite matches_rev, above_all_rev.
Qed.
Lemma M_rev l1 l2 : M (rev l1) (rev l2) = M l1 l2.
Proof. unfold M. rewrite sumZ_rev. apply sumZ_ext_in. intros g _. apply sumZ_rev. Qed.
Lemma S_rev l1 l2 : mutdiff_sum (rev l1) (rev l2) = mutdiff_sum l1 l2.
Proof. unfold mutdiff_sum. rewrite sumR_rev. apply sumR_ext_in. intros g _. apply sumR_rev. Qed.

(* ---------- the formula ---------- *)

Definition neat_formula (dc ec mc : R) (l1 l2 : list geneR) : R :=
  ec * IZR (E l1 l2) + dc * IZR (D l1 l2) + mc * W l1 l2.

Lemma IZR_M_pos l1 l2 : (0 < M l1 l2)%Z -> IZR (M l1 l2) <> 0.
Proof. intros H. apply not_0_IZR. lia. Qed.

Theorem linear_formula dc ec mc l1 l2 : asc l1 -> asc l2 ->
  compat_linear R_num dc ec mc l1 l2 = Ok (neat_formula dc ec mc l1 l2).
Proof.
  intros H1 H2. unfold compat_linear. rewrite lin_walk_spec by assumption.
  unfold lin_spec_state, lin_init. cbn [ls_disjoint ls_excess ls_mutdiff ls_matching nzero R_num nadd nmul nltb].
  rewrite !Rplus_0_l. unfold neat_formula, W, Rltb.
  destruct (Rlt_dec 0 (IZR (M l1 l2))) as [Hpos|Hnpos].
  - apply lt_IZR in Hpos. unfold ndiv_guarded. cbn [nis_zero ndiv R_num]. unfold Ris_zero.
    destruct (Req_EM_T (IZR (M l1 l2)) 0) as [E0|_]; [now elim (IZR_M_pos l1 l2 Hpos)|].
    cbn [bind]. destruct (Z.eqb_spec (M l1 l2) 0) as [E0|_]; [lia|]. f_equal. ring.
  - assert (M l1 l2 = 0%Z) as ->.
    { pose proof (M_nonneg l1 l2). destruct (Z.eq_dec (M l1 l2) 0); [assumption|].
      elim Hnpos. apply IZR_lt. lia. }
    simpl. f_equal. ring.
Qed.

Theorem fast_formula dc ec mc l1 l2 : asc l1 -> asc l2 ->
  compat_fast R_num dc ec mc l1 l2 = Ok (neat_formula dc ec mc l1 l2).
Proof.
  intros H1 H2. unfold neat_formula, W. destruct l1 as [|x l1], l2 as [|y l2].
  - unfold compat_fast. rewrite E_nil_l, D_nil_l, M_nil_l. simpl. f_equal. ring.
  - unfold compat_fast. rewrite E_nil_l, D_nil_l, M_nil_l. cbn [nof_Z nmul nzero R_num Z.eqb]. f_equal.
    change (gene R) with geneR.
    match goal with |- context [IZR (Z.of_nat ?k)] => generalize (IZR (Z.of_nat k)) end; intros; ring.
  - unfold compat_fast. rewrite E_nil_r, D_nil_r, M_nil_r. cbn [nof_Z nmul nzero R_num Z.eqb]. f_equal.
    change (gene R) with geneR.
    match goal with |- context [IZR (Z.of_nat ?k)] => generalize (IZR (Z.of_nat k)) end; intros; ring.
  - unfold compat_fast.
    destruct (fast_walk_spec dc ec (rev' (x :: l1)) (rev' (y :: l2)) (fast_init R_num) false false)
      as [Ha [Hb Hc]].
    + now apply desc_rev'. + now apply desc_rev'. + reflexivity.
    + rewrite rev'_rev. simpl. intros E0. now apply app_eq_nil in E0 as [_ E0].
    + rewrite (rev'_rev (y :: l2)). simpl. intros _ E0. now apply app_eq_nil in E0 as [_ E0].
    + rewrite !rev'_rev in *. rewrite Eg_ff, Dg_ff, E_rev, D_rev in Ha. rewrite M_rev in Hb. rewrite S_rev in Hc.
      cbn [fast_init fs_compat fs_matching fs_mutdiff nzero R_num] in Ha, Hb, Hc.
      rewrite Hb, Hc, Ha. rewrite Z.add_0_l, !Rplus_0_l.
      destruct (Z.ltb_spec 0 (M (x :: l1) (y :: l2))) as [Hpos|Hnpos].
      * unfold ndiv_guarded. cbn [nis_zero ndiv nof_Z nmul nadd R_num]. unfold Ris_zero.
        destruct (Req_EM_T (IZR (M (x :: l1) (y :: l2))) 0) as [E0|_]; [now elim (IZR_M_pos _ _ Hpos)|].
        cbn [bind]. destruct (Z.eqb_spec (M (x :: l1) (y :: l2)) 0) as [E0|_]; [lia|]. f_equal.
        cbn [nadd R_num]. unfold Rdiv. ring.
      * assert (M (x :: l1) (y :: l2) = 0%Z) as -> by (pose proof (M_nonneg (x :: l1) (y :: l2)); lia).
        simpl. f_equal. ring.
Qed.

Theorem fast_eq_linear dc ec mc l1 l2 : asc l1 -> asc l2 ->
  compat_fast R_num dc ec mc l1 l2 = compat_linear R_num dc ec mc l1 l2.
Proof. intros H1 H2. now rewrite fast_formula, linear_formula. Qed.

Theorem compatibility_formula lin dc ec mc l1 l2 : asc l1 -> asc l2 ->
  compatibility R_num lin dc ec mc l1 l2 = Ok (neat_formula dc ec mc l1 l2).
Proof. intros H1 H2. destruct lin; [now apply linear_formula | now apply fast_formula]. Qed.

Lemma W_sym l1 l2 : W l1 l2 = W l2 l1.
Proof. unfold W. now rewrite (M_sym l1 l2), (S_sym l1 l2). Qed.

Lemma neat_formula_sym dc ec mc l1 l2 : neat_formula dc ec mc l1 l2 = neat_formula dc ec mc l2 l1.
Proof. unfold neat_formula. now rewrite (E_sym l1 l2), (D_sym l1 l2), (W_sym l1 l2). Qed.

Theorem compat_sym lin dc ec mc l1 l2 : asc l1 -> asc l2 ->
  compatibility R_num lin dc ec mc l1 l2 = compatibility R_num lin dc ec mc l2 l1.
Proof. intros H1 H2. rewrite !compatibility_formula by assumption. f_equal. apply neat_formula_sym. Qed.

(* a genome against itself (its duplicate has the same gene list) *)
Lemma self_quantities l : asc l -> E l l = 0%Z /\ D l l = 0%Z /\ mutdiff_sum l l = 0.
Proof.
  induction l as [|x l IH]; intros H.
  - rewrite E_nil_l, D_nil_l, S_nil_l. auto.
  - destruct (asc_inv x l H) as [H' Hx]. destruct (IH H') as [IE [ID IS]].
    destruct (asc_step_eq x l x l H H eq_refl) as [-> ->].
    assert (Hn : forall h, In h l -> fst x <> fst h) by (intros h Hh; specialize (Hx h Hh); lia).
    rewrite (S_match x x l l eq_refl Hn Hn), IS.
    replace (snd x - snd x) with 0 by ring. rewrite Rabs_R0. repeat split; try assumption; ring.
Qed.

Theorem compat_self_zero lin dc ec mc l : asc l -> compatibility R_num lin dc ec mc l l = Ok 0.
Proof.
  intros H. rewrite compatibility_formula by assumption. f_equal.
  destruct (self_quantities l H) as [HE [HD HS]].
  unfold neat_formula, W. rewrite HE, HD, HS. destruct (Z.eqb _ _); unfold Rdiv; ring.
Qed.

Lemma W_nonneg l1 l2 : 0 <= W l1 l2.
Proof.
  unfold W. destruct (Z.eqb_spec (M l1 l2) 0) as [_|Hne]; [lra|].
  pose proof (M_nonneg l1 l2). pose proof (S_nonneg l1 l2).
  assert (0 < IZR (M l1 l2)) by (apply IZR_lt; lia).
  apply Rmult_le_pos; [assumption|]. left. now apply Rinv_0_lt_compat.
Qed.

Lemma neat_formula_nonneg dc ec mc l1 l2 : 0 <= dc -> 0 <= ec -> 0 <= mc -> 0 <= neat_formula dc ec mc l1 l2.
Proof.
  intros Hd He Hm. unfold neat_formula.
  assert (0 <= IZR (E l1 l2)) by (apply IZR_le, E_nonneg).
  assert (0 <= IZR (D l1 l2)) by (apply IZR_le, D_nonneg).
  pose proof (W_nonneg l1 l2).
  repeat apply Rplus_le_le_0_compat; now apply Rmult_le_pos.
Qed.

Theorem compat_nonneg lin dc ec mc l1 l2 : asc l1 -> asc l2 -> 0 <= dc -> 0 <= ec -> 0 <= mc ->
  exists v, compatibility R_num lin dc ec mc l1 l2 = Ok v /\ 0 <= v.
Proof.
  intros H1 H2 Hd He Hm. exists (neat_formula dc ec mc l1 l2). split.
  - now apply compatibility_formula. - now apply neat_formula_nonneg.
Qed.

(* the guarded division never sees a zero denominator: for ALL gene lists (sorted or not)
   and all coefficients, both methods return a number *)
Theorem no_div_by_zero lin dc ec mc (l1 l2 : list geneR) :
  exists v, compatibility R_num lin dc ec mc l1 l2 = Ok v.
Proof.
  destruct lin; unfold compatibility.
  - unfold compat_linear. set (st := lin_walk R_num l1 l2 (lin_init R_num)).
    cbn [nltb nzero R_num]. unfold Rltb. destruct (Rlt_dec 0 (ls_matching R st)) as [Hpos|_]; [|eauto].
    unfold ndiv_guarded. cbn [nis_zero R_num]. unfold Ris_zero.
    destruct (Req_EM_T (ls_matching R st) 0) as [E0|_]; [lra|]. cbn [bind]. eauto.
  - unfold compat_fast. destruct l1 as [|x l1], l2 as [|y l2]; eauto.
    set (st := fast_walk R_num dc ec _ _ _).
    destruct (Z.ltb_spec 0 (fs_matching R st)) as [Hpos|_]; [|eauto].
    unfold ndiv_guarded. cbn [nis_zero nof_Z R_num]. unfold Ris_zero.
    destruct (Req_EM_T (IZR (fs_matching R st)) 0) as [E0|_]; [|cbn [bind]; eauto].
    apply eq_IZR_R0 in E0. lia.
Qed.

(* M counts the genes of l1 whose innovation number occurs in l2 (sanity of the pair-counting definition) *)
Lemma M_counts_matching l1 l2 : asc l2 -> M l1 l2 = count (matches l2) l1.
Proof.
  intros H2. induction l1 as [|x l1 IH]; [reflexivity|].
  rewrite count_cons, <- IH. unfold M at 1. rewrite sumZ_cons. fold (M l1 l2). f_equal.
  clear IH. induction l2 as [|y l2 IH2]; [reflexivity|].
  destruct (asc_inv y l2 H2) as [H2' Hy]. rewrite sumZ_cons, matches_cons, (IH2 H2').
  destruct (Z.eqb_spec (fst x) (fst y)) as [Exy|_]; [|reflexivity].
  rewrite matches_false; [reflexivity|]. intros h Hh. specialize (Hy h Hh). lia.
Qed.

(* ---------- reading the vocabulary ---------- *)

Lemma matches_iff other g : matches other g = true <-> In (fst g) (innovs other).
Proof.
  unfold matches. rewrite existsb_exists. split.
  - intros [n [Hn E0]]. apply Z.eqb_eq in E0. now subst.
  - intros H. exists (fst g). split; [assumption|apply Z.eqb_refl].
Qed.
Lemma above_all_iff other g : above_all other g = true <-> (forall n, In n (innovs other) -> (n < fst g)%Z).
Proof.
  unfold above_all. rewrite forallb_forall. split; intros H n Hn; specialize (H n Hn).
  - now apply Z.ltb_lt. - now apply Z.ltb_lt.
Qed.
Lemma is_excess_iff other g :
  is_excess other g = true <-> (forall n, In n (innovs other) -> (n < fst g)%Z).
Proof.
  unfold is_excess. rewrite andb_true_iff, negb_true_iff, above_all_iff. split; [tauto|].
  intros H. split; [|assumption]. apply not_true_is_false. rewrite matches_iff. intros Hin.
  specialize (H _ Hin). lia.
Qed.
Lemma is_disjoint_iff other g :
  is_disjoint other g = true <->
  ~ In (fst g) (innovs other) /\ exists n, In n (innovs other) /\ (fst g < n)%Z.
Proof.
  unfold is_disjoint. rewrite andb_true_iff, !negb_true_iff. rewrite <- not_true_iff_false, matches_iff.
  split; intros [H1 H2]; (split; [assumption|]).
  - unfold above_all in H2. apply not_true_iff_false in H2.
    assert (Hex : existsb (fun m => negb (Z.ltb m (fst g))) (innovs other) = true).
    { destruct (existsb _ _) eqn:Ex; [reflexivity|]. elim H2. apply forallb_forall. intros n Hn.
      apply not_true_iff_false in Ex. destruct (Z.ltb n (fst g)) eqn:El; [reflexivity|].
      elim Ex. apply existsb_exists. exists n. now rewrite El. }
    apply existsb_exists in Hex. destruct Hex as [n [Hn Hlt]]. exists n. split; [assumption|].
    apply negb_true_iff, Z.ltb_ge in Hlt. assert (n <> fst g) by (intros ->; contradiction). lia.
  - destruct H2 as [n [Hn Hlt]]. apply not_true_iff_false. rewrite above_all_iff. intros H.
    specialize (H n Hn). lia.
Qed.

Lemma dup_same_list (l l' : list geneR) : map fst l' = map fst l -> map snd l' = map snd l -> l' = l.
Proof.
  revert l'. induction l as [|[a b] l IH]; intros [|[a' b'] l'] H1 H2; try discriminate; [reflexivity|].
  simpl in H1, H2. injection H1 as -> H1. injection H2 as -> H2. f_equal. now apply IH.
Qed.
