(* Agreement between the hand-written model of the activation-depth code (model/Depth.v) and the Gallina that
   `neatverif translate depthbodies` regenerates from neat/network/nnode.go and network.go on every run
   (gen/DepthBodies.v): for EVERY network, fuel, cap, node id, depth argument and set of visited marks

     is_sensor t                 = gen_is_sensor t
     depth g fuel cap id d vis   = gen_depth g fuel cap id d vis
     max_depth_cap g cap vis     = gen_max_depth_cap g cap vis

   as values of [res dres] (returned int, returned error, marks afterwards; OutOfFuel and BadOracle included).
   Nothing is assumed about the graph (cycles, dangling ids, duplicate ids are all covered).

   The proofs do not mention the names of the Go locals.  They rest on the SHAPE of the translation only through the
   two "one pass of the loop body" specifications [depth_step] and [out_step] below: the generated loop body is shown
   equal to them by case analysis, and the loop lemmas relate [d_for] over such a body to the model's loops.  An edit
   of the Go source that changes what one pass does (a dropped `n.visited = false`, `>` turned into `>=`, a swapped
   argument) makes one of the [reflexivity] steps fail; ./check then reports the broken obligation. *)
From NeatModel Require Import Res Depth DepthBodies.
From Coq Require Import Lia.

Lemma gen_is_sensor_agrees : forall t, gen_is_sensor t = is_sensor t.
Proof. destruct t; reflexivity. Qed.

Lemma incoming_is_d_incoming : forall g id, incoming g id = map fst (d_incoming g id).
Proof. reflexivity. Qed.

(* ---- the loop of NNode.Depth ---- *)

(* what one pass through `for _, l := range n.Incoming { ... }` does, in terms of the recursive call *)
Definition depth_step (rec : Z -> list Z -> res dres) (self : Z) (mx : Z) (vis : list Z) (l : Z * Z)
  : res (lctl (Z * list Z) dres) :=
  if mem (fst l) vis then Ok (LNext (mx, vis))
  else
    match rec (fst l) vis with
    | Ok (c, NoErr, vis') => Ok (LNext (if mx <? c then c else mx, vis'))
    | Ok (c, e, vis') => Ok (LRet (c, e, unmark self vis'))
    | GoErr c => GoErr c | GoPanic c => GoPanic c
    | OutOfTape => OutOfTape | OutOfFuel => OutOfFuel | BadOracle => BadOracle
    end.

(* ... and what follows the loop: `n.visited = false; return max, nil` *)
Definition depth_finish (self : Z) (r : res (lctl (Z * list Z) dres)) : res dres :=
  do st <- r;
  match st with
  | LRet x => Ok x
  | LNext (mx, vis) => Ok (mx, NoErr, unmark self vis)
  end.

Lemma d_for_depth_loop :
  forall (rec : Z -> list Z -> res dres) (self : Z)
         (f : Z * list Z -> Z * Z -> res (lctl (Z * list Z) dres)),
    (forall mx vis l, f (mx, vis) l = depth_step rec self mx vis l) ->
    forall links mx vis,
      depth_loop rec self (map fst links) mx vis = depth_finish self (d_for links f (mx, vis)).
Proof.
  intros rec self f Hf links. induction links as [|l links IH]; intros mx vis.
  - reflexivity.
  - cbn [map depth_loop d_for]. rewrite Hf. unfold depth_step.
    destruct (mem (fst l) vis).
    + apply IH.
    + destruct (rec (fst l) vis) as [[[c e] vis']| | | | |]; try reflexivity.
      destruct e; try reflexivity. apply IH.
Qed.

Theorem gen_depth_agrees : forall g fuel cap id d vis,
    depth g fuel cap id d vis = gen_depth g fuel cap id d vis.
Proof.
  intros g fuel. induction fuel as [|f IH]; intros cap id d vis; [reflexivity|].
  cbn [depth gen_depth].
  destruct ((0 <? cap) && (cap <? d)); [reflexivity|].
  unfold d_is_sensor. destruct (type_of (n_nodes g) id) as [t|]; [|reflexivity].
  cbn [bind]. rewrite gen_is_sensor_agrees. destruct (is_sensor t); [reflexivity|].
  rewrite incoming_is_d_incoming.
  erewrite d_for_depth_loop; [reflexivity|].
  intros mx v l. cbv beta iota zeta. unfold depth_step.
  destruct (mem (fst l) v); [reflexivity|].
  rewrite <- IH.
  destruct (depth g f cap (fst l) (d + 1) v) as [[[c e] v']| | | | |]; try reflexivity.
  cbn [bind]. destruct e; cbn [d_is_err]; try reflexivity.
  destruct (mx <? c); reflexivity.
Qed.

(* ---- the loop of Network.MaxActivationDepthWithCap ---- *)

Definition out_step (rec : Z -> list Z -> res dres) (mx : Z) (vis : list Z) (o : Z)
  : res (lctl (Z * list Z) dres) :=
  match rec o vis with
  | Ok (c, NoErr, vis') => Ok (LNext (if mx <? c then c else mx, vis'))
  | Ok (c, e, vis') => Ok (LRet (c, e, vis'))
  | GoErr c => GoErr c | GoPanic c => GoPanic c
  | OutOfTape => OutOfTape | OutOfFuel => OutOfFuel | BadOracle => BadOracle
  end.

Definition out_finish (r : res (lctl (Z * list Z) dres)) : res dres :=
  do st <- r;
  match st with
  | LRet x => Ok x
  | LNext (mx, vis) => Ok (mx, NoErr, vis)
  end.

Lemma d_for_out_loop :
  forall (rec : Z -> list Z -> res dres) (f : Z * list Z -> Z -> res (lctl (Z * list Z) dres)),
    (forall mx vis o, f (mx, vis) o = out_step rec mx vis o) ->
    forall outs mx vis,
      out_loop rec outs mx vis = out_finish (d_for outs f (mx, vis)).
Proof.
  intros rec f Hf outs. induction outs as [|o outs IH]; intros mx vis.
  - reflexivity.
  - cbn [out_loop d_for]. rewrite Hf. unfold out_step.
    destruct (rec o vis) as [[[c e] vis']| | | | |]; try reflexivity.
    destruct e; try reflexivity. apply IH.
Qed.

Theorem gen_max_depth_cap_agrees : forall g cap vis,
    max_depth_cap g cap vis = gen_max_depth_cap g cap vis.
Proof.
  intros g cap vis. unfold max_depth_cap, gen_max_depth_cap.
  destruct (0 <? n_control g); [reflexivity|].
  destruct ((len (n_nodes g) =? len (n_inputs g) + len (n_outputs g)) && (n_control g =? 0)); [reflexivity|].
  erewrite d_for_out_loop; [reflexivity|].
  intros mx v o. cbv beta iota zeta. unfold out_step.
  rewrite <- gen_depth_agrees.
  destruct (depth g (depth_fuel g) cap o 0 v) as [[[c e] v']| | | | |]; try reflexivity.
  cbn [bind]. destruct e; cbn [d_is_err]; try reflexivity.
  destruct (mx <? c); reflexivity.
Qed.

(* the three together: the statement props/C14.v closes with *)
Theorem model_is_the_translated_source :
  (forall t, is_sensor t = gen_is_sensor t) /\
  (forall g fuel cap id d vis, depth g fuel cap id d vis = gen_depth g fuel cap id d vis) /\
  (forall g cap vis, max_depth_cap g cap vis = gen_max_depth_cap g cap vis).
Proof.
  split; [intros t; symmetry; apply gen_is_sensor_agrees|].
  split; [exact gen_depth_agrees | exact gen_max_depth_cap_agrees].
Qed.
