(* agent "agent-full": C10_full settled -- it is FALSE; refutation with a concrete, replayable witness.

   The witness is the input of the recorded finding champion-rounding-tie-1ulp, exactly as the Go harness
   replays it (harness/epochprops.go, c10RoundingTie):
     options    baseOptions() with PopSize 6, CompatThreshold 6, AgeSignificance 1, BabiesStolen 0
     start      xorStart (3 traits, nodes 1,2 input, 3 bias, 4 output, genes 1->4, 2->4, 3->4, innovations 1,2,3)
     randomness rand.Seed(42)              (model: the tape go_tape 42 4000 of base/GoSource.v)
     fitness    [7, nextafter(7,8), 1, 2, 3, 4] assigned in Population.Organisms order
     epoch      SequentialPopulationEpochExecutor.NextEpoch(ctx, generation 0, pop) on a fresh executor
   The six organisms form one species; its quota is 6 > 5; organism 1 (fitness 7 + 1 ulp) is strictly fitter
   than every other member; 7/6 and (7+ulp)/6 round to the same binary64 value, the stable sort keeps
   organism 0 first, organism 0 is the champion and is cloned; no organism of the next generation carries the
   genome of organism 1.  *)
From NeatModel Require Import Compat.
From NeatModel Require Import Res F64 GoRand GoSource Genome Options Dup Population GenomeLit WF.
From NeatModel Require PopBase PopInv PopWF.
From Coq Require Import Floats.

(* ---------- the statement (verbatim copy of Definition C10_full of props/C10.v) ---------- *)
Definition champ_full_statement : Prop :=
  forall o g0 s0 p s l p' s' q,
    wf g0 -> innovs (s_env s0) = [] ->
    new_population o g0 s0 = Ok (p, s) -> PopWF.history o p s l p' s' -> In q (p :: l) ->
    forall fs h gen x st q' x' st',
      set_fitness (p_heap q) (p_orgs q) fs = Ok h ->
      next_epoch o gen (p_with_heap q h) x st = Ok ((q', x'), st') ->
      exists p1 sorted best st1,
        prepare o (p_with_heap q h) st = Ok ((p1, sorted, best), st1) /\
        forall sp s0 kb xb,
          In sp (p_species p1) -> sp_exp sp > 5 ->
          In s0 (p_species q) -> sp_id s0 = sp_id sp -> In kb (sp_orgs s0) -> hget h kb = Ok xb ->
          (forall k y, In k (sp_orgs s0) -> hget h k = Ok y -> k <> kb -> PrimFloat.ltb (o_fit y) (o_fit xb) = true) ->
          exists b, In (o_key b) (p_orgs q') /\ hget (p_heap q') (o_key b) = Ok b /\
                    exists n, o_genome b = with_id (o_genome xb) n.

(* ---------- the witness ---------- *)
(* coqOptions(baseOptions() with PopSize 6, CompatThreshold 6, AgeSignificance 1, BabiesStolen 0) *)
Definition tie_opts : options :=
  OPT [0x1p-01%float; 0x1p+00%float; 0x1.4p+01%float; 0x1p+00%float; 0x1p+00%float; 0x1.999999999999ap-02%float;
       0x1.8p+02%float; 0x1p+00%float; 0x1.999999999999ap-03%float; 0x1p-02%float; 0x1.999999999999ap-04%float;
       0x1.999999999999ap-04%float; 0x1.999999999999ap-04%float; 0x1.ccccccccccccdp-01%float; zero; zero;
       0x1.eb851eb851eb8p-06%float; 0x1.47ae147ae147bp-04%float; 0x1p-01%float; 0x1.0624dd2f1a9fcp-10%float;
       0x1.3333333333333p-02%float; 0x1.3333333333333p-02%float; 0x1.3333333333333p-02%float;
       0x1.999999999999ap-03%float; zero] 6 50 50 0 false [4] [0x1p+00%float].
(* coqGenome(readPlain(xorStart, 1)) *)
Definition tie_start : genome :=
  GN 1 [(T 1 [0x1.999999999999ap-04%float; zero; zero; zero; zero; zero; zero; zero]);
        (T 2 [0x1.999999999999ap-03%float; zero; zero; zero; zero; zero; zero; zero]);
        (T 3 [0x1.3333333333333p-02%float; zero; zero; zero; zero; zero; zero; zero])]
       [(N 1 1 17 None); (N 2 1 17 None); (N 3 3 17 None); (N 4 2 4 None)]
       [(G 1 4 false zero (Some 1) 1 zero true); (G 2 4 false zero (Some 2) 2 zero true);
        (G 3 4 false zero (Some 3) 3 zero true)] [].
Definition tie_s0 : st := {| s_tape := go_tape 42 4000; s_env := {| innovs := []; next_innov := 0; next_node := 0 |} |}.
(* 7, nextafter(7, 8), 1, 2, 3, 4 *)
Definition tie_fit : list float := [0x1.cp+2; 0x1.c000000000001p+2; 1; 2; 3; 4]%float.
Definition tie_x0 : executor := {| x_best_id := 0; x_best_reproduced := false |}.

(* projections out of a successful result (the defaults are never used: every stage is shown to be Ok) *)
Definition ok_or {A} (r : res A) (d : A) : A := match r with Ok a => a | _ => d end.
Lemma ok_or_eq {A} (r : res A) (d : A) : is_ok r = true -> r = Ok (ok_or r d).
Proof. destruct r; try discriminate. reflexivity. Qed.

Definition d_pop : population :=
  {| p_species := []; p_detached := []; p_orgs := []; p_heap := []; p_last_species := 0; p_highest := 0%float;
     p_epochs_highest := 0; p_next_key := 0 |}.
Definition d_org : organism :=
  {| o_key := 0; o_fit := 0%float; o_orig := 0%float; o_genome := tie_start; o_species := 0; o_exp := 0%float;
     o_gen := 0; o_elim := false; o_champ := false; o_super := 0; o_popchamp := false; o_popchampchild := false;
     o_highest := 0%float; o_mutstruct := false; o_mate := false |}.
Definition d_species : species :=
  {| sp_id := 0; sp_age := 0; sp_maxfit := 0%float; sp_exp := 0; sp_novel := false; sp_orgs := []; sp_lastimp := 0 |}.

(* NewPopulation *)
Definition tie_p : population := fst (ok_or (new_population tie_opts tie_start tie_s0) (d_pop, tie_s0)).
Definition tie_s : st := snd (ok_or (new_population tie_opts tie_start tie_s0) (d_pop, tie_s0)).
(* the evaluator's write-back *)
Definition tie_h : list organism := ok_or (set_fitness (p_heap tie_p) (p_orgs tie_p) tie_fit) [].
(* NextEpoch, generation 0 *)
Definition tie_q' : population :=
  fst (fst (ok_or (next_epoch tie_opts 0 (p_with_heap tie_p tie_h) tie_x0 tie_s) ((d_pop, tie_x0), tie_s))).
Definition tie_x' : executor :=
  snd (fst (ok_or (next_epoch tie_opts 0 (p_with_heap tie_p tie_h) tie_x0 tie_s) ((d_pop, tie_x0), tie_s))).
Definition tie_s' : st :=
  snd (ok_or (next_epoch tie_opts 0 (p_with_heap tie_p tie_h) tie_x0 tie_s) ((d_pop, tie_x0), tie_s)).
(* prepareForReproduction of that epoch *)
Definition tie_p1 : population :=
  fst (fst (fst (ok_or (prepare tie_opts (p_with_heap tie_p tie_h) tie_s) (((d_pop, []), 0), tie_s)))).
(* the one species, before and after prepare; the strictly fittest organism *)
Definition tie_sp0 : species := hd d_species (p_species tie_p).
Definition tie_sp1 : species := hd d_species (p_species tie_p1).
Definition tie_kb : Z := nth 1 (p_orgs tie_p) 0.
Definition tie_xb : organism := ok_or (hget tie_h tie_kb) d_org.

(* "some organism of population p carries genome g under some id", decided *)
Definition noid_eqb (a b : genome) : bool := genome_eqb (with_id a 0) (with_id b 0).
Definition presentb (g : genome) (p : population) : bool :=
  existsb (fun k => match hget (p_heap p) k with Ok b => noid_eqb (o_genome b) g | _ => false end) (p_orgs p).

(* ---------- reflexivity of the boolean genome equality ---------- *)
Lemma feqb_exact_refl x : feqb_exact x x = true.
Proof.
  unfold feqb_exact. destruct (Prim2SF x) as [s|s| |s m e]; try reflexivity; try apply Bool.eqb_reflx.
  now rewrite Bool.eqb_reflx, Pos.eqb_refl, Z.eqb_refl.
Qed.
Lemma list_eqb_refl {A} (eqb : A -> A -> bool) : (forall x, eqb x x = true) -> forall l, list_eqb eqb l l = true.
Proof. intros H. induction l as [|x l IH]; [reflexivity|]. cbn. now rewrite H, IH. Qed.
Lemma oz_eqb_refl x : oz_eqb x x = true.
Proof. destruct x as [z|]; [|reflexivity]. cbn. apply Z.eqb_refl. Qed.
Lemma trait_eqb_refl x : trait_eqb x x = true.
Proof. unfold trait_eqb. now rewrite Z.eqb_refl, (list_eqb_refl _ feqb_exact_refl). Qed.
Lemma node_eqb_refl x : node_eqb x x = true.
Proof. unfold node_eqb. now rewrite !Z.eqb_refl, oz_eqb_refl. Qed.
Lemma gene_eqb_refl x : gene_eqb x x = true.
Proof. unfold gene_eqb. now rewrite !Z.eqb_refl, !Bool.eqb_reflx, !feqb_exact_refl, oz_eqb_refl. Qed.
Lemma zf_eqb_refl x : zf_eqb x x = true.
Proof. unfold zf_eqb. now rewrite Z.eqb_refl, feqb_exact_refl. Qed.
Lemma mimo_eqb_refl x : mimo_eqb x x = true.
Proof.
  unfold mimo_eqb. now rewrite node_eqb_refl, Z.eqb_refl, feqb_exact_refl, Bool.eqb_reflx, !(list_eqb_refl _ zf_eqb_refl).
Qed.
Lemma genome_eqb_refl g : genome_eqb g g = true.
Proof.
  unfold genome_eqb.
  now rewrite Z.eqb_refl, (list_eqb_refl _ trait_eqb_refl), (list_eqb_refl _ node_eqb_refl),
    (list_eqb_refl _ gene_eqb_refl), (list_eqb_refl _ mimo_eqb_refl).
Qed.
Lemma noid_eqb_with_id g n : noid_eqb (with_id g n) g = true.
Proof. unfold noid_eqb. apply genome_eqb_refl. Qed.

(* presentb is complete: an unmodified copy in the population is found *)
Lemma presentb_complete g p b n :
  In (o_key b) (p_orgs p) -> hget (p_heap p) (o_key b) = Ok b -> o_genome b = with_id g n -> presentb g p = true.
Proof.
  intros Hin Hget Hg. unfold presentb. apply existsb_exists. exists (o_key b). split; [exact Hin|].
  rewrite Hget, Hg. apply noid_eqb_with_id.
Qed.

Lemma hget_key : forall h k b, hget h k = Ok b -> o_key b = k.
Proof.
  induction h as [|z l IH]; cbn; [discriminate|]. intros k b.
  destruct (Z.eqb_spec (o_key z) k) as [E|_]; [intros [= <-]; exact E|apply IH].
Qed.
Lemma presentb_sound g p :
  presentb g p = true ->
  exists b, In (o_key b) (p_orgs p) /\ hget (p_heap p) (o_key b) = Ok b /\ noid_eqb (o_genome b) g = true.
Proof.
  unfold presentb. intros P. apply existsb_exists in P. destruct P as (k & Hk & Pk).
  destruct (hget (p_heap p) k) as [b| | | | |] eqn:Eb; try discriminate Pk.
  pose proof (hget_key _ _ _ Eb) as Kb. exists b. rewrite Kb. auto.
Qed.

(* ---------- the facts about the witness, each by computation ---------- *)
Lemma tie_start_wf : wf tie_start.
Proof.
  constructor.
  - discriminate.
  - unfold genes_sorted, InsertSpec.asc. cbn. repeat constructor.
  - unfold links_nodup. cbn. repeat constructor; cbn; intuition discriminate.
  - unfold nodes_sorted, InsertSpec.asc. cbn. repeat constructor.
  - intros y [<-|[<-|[<-|[]]]]; cbn; eexists; eexists; repeat split.
  - split.
    + intros y t [<-|[<-|[<-|[]]]] [= <-]; (split; [discriminate|]); cbn; eauto 8.
    + intros n t [<-|[<-|[<-|[<-|[]]]]]; discriminate.
  - split; [discriminate|]. exists 1. split; [reflexivity|reflexivity].
  - exists (N 4 2 4 None). split; [cbn; auto|reflexivity].
  - reflexivity.
Qed.

Lemma tie_np_ok : new_population tie_opts tie_start tie_s0 = Ok (tie_p, tie_s).
Proof.
  unfold tie_p, tie_s. rewrite <- surjective_pairing. apply ok_or_eq. vm_compute. reflexivity.
Qed.
Lemma tie_sf_ok : set_fitness (p_heap tie_p) (p_orgs tie_p) tie_fit = Ok tie_h.
Proof. unfold tie_h. apply ok_or_eq. vm_compute. reflexivity. Qed.
Lemma tie_ne_ok : next_epoch tie_opts 0 (p_with_heap tie_p tie_h) tie_x0 tie_s = Ok ((tie_q', tie_x'), tie_s').
Proof.
  unfold tie_q', tie_x', tie_s'. rewrite <- !surjective_pairing. apply ok_or_eq. vm_compute. reflexivity.
Qed.
Lemma tie_pr_ok : is_ok (prepare tie_opts (p_with_heap tie_p tie_h) tie_s) = true.
Proof. vm_compute. reflexivity. Qed.
Lemma tie_xb_ok : hget tie_h tie_kb = Ok tie_xb.
Proof. unfold tie_xb. apply ok_or_eq. vm_compute. reflexivity. Qed.

(* one species before and after prepare, same id, quota 6 *)
Lemma tie_species :
  p_species tie_p = [tie_sp0] /\ p_species tie_p1 = [tie_sp1] /\ sp_id tie_sp0 = sp_id tie_sp1 /\ sp_exp tie_sp1 = 6 /\
  sp_orgs tie_sp0 = [0; 1; 2; 3; 4; 5] /\ tie_kb = 1.
Proof. vm_compute. repeat split. Qed.

(* organism 1 is strictly fitter than every other member of the species *)
Lemma tie_strictly_fittest :
  forallb (fun k => Z.eqb k tie_kb ||
                    match hget tie_h k with Ok y => PrimFloat.ltb (o_fit y) (o_fit tie_xb) | _ => false end)
          (sp_orgs tie_sp0) = true.
Proof. vm_compute. reflexivity. Qed.

(* no organism of the next generation carries its genome; organism 0 (fitness 7) is cloned instead *)
Lemma tie_not_present : presentb (o_genome tie_xb) tie_q' = false.
Proof. vm_compute. reflexivity. Qed.
Lemma tie_other_present :
  presentb (o_genome (ok_or (hget tie_h 0) d_org)) tie_q' = true /\
  o_fit (ok_or (hget tie_h 0) d_org) = 0x1.cp+2%float /\ o_fit tie_xb = 0x1.c000000000001p+2%float /\
  PrimFloat.eqb (PrimFloat.div 0x1.cp+2 6) (PrimFloat.div 0x1.c000000000001p+2 6) = true.
Proof. vm_compute. repeat split. Qed.

Lemma tie_p1_eq p1 sorted best st1 :
  prepare tie_opts (p_with_heap tie_p tie_h) tie_s = Ok ((p1, sorted, best), st1) -> p1 = tie_p1.
Proof. intros E. unfold tie_p1. rewrite E. reflexivity. Qed.
Lemma tie_pr_ex : exists sorted best st1, prepare tie_opts (p_with_heap tie_p tie_h) tie_s = Ok ((tie_p1, sorted, best), st1).
Proof.
  pose proof (ok_or_eq _ (((d_pop, []), 0), tie_s) tie_pr_ok) as E. unfold tie_p1.
  destruct (ok_or (prepare tie_opts (p_with_heap tie_p tie_h) tie_s) (d_pop, [], 0, tie_s)) as [[[a b] c] d].
  exists b, c, d. exact E.
Qed.
Lemma tie_org0_ok : hget tie_h 0 = Ok (ok_or (hget tie_h 0) d_org).
Proof. apply ok_or_eq. vm_compute. reflexivity. Qed.
Lemma tie_tape_ok : Forall (fun c => 0 <= c < 2 ^ 63) (s_tape tie_s0).
Proof.
  apply Forall_forall. intros c Hc.
  assert (F : forallb (fun c => Z.leb 0 c && Z.ltb c (2 ^ 63)) (s_tape tie_s0) = true) by (vm_compute; reflexivity).
  rewrite forallb_forall in F. specialize (F c Hc). clear Hc. apply andb_prop in F. destruct F as [F1 F2].
  split; [apply Z.leb_le; exact F1|apply Z.ltb_lt; exact F2].
Qed.
Lemma tie_s0_eq : tie_s0 = {| s_tape := go_tape 42 4000; s_env := {| innovs := []; next_innov := 0; next_node := 0 |} |}.
Proof. reflexivity. Qed.

(* from here on the constants of the witness are only handled through the lemmas above: the tactics'
   lazy reduction must not try to evaluate an epoch (vm_compute does that in milliseconds, lazy conversion
   in minutes) *)
Global Opaque tie_p tie_s tie_h tie_q' tie_x' tie_s' tie_p1 tie_sp0 tie_sp1 tie_kb tie_xb tie_s0.

(* ---------- the refutation ---------- *)
Theorem champ_full_refuted : ~ champ_full_statement.
Proof.
  intros H.
  destruct (H tie_opts tie_start tie_s0 tie_p tie_s [] tie_p tie_s tie_p tie_start_wf eq_refl tie_np_ok
              (PopWF.hist_nil _ _ _) (or_introl eq_refl) tie_fit tie_h 0 tie_x0 tie_s tie_q' tie_x' tie_s'
              tie_sf_ok tie_ne_ok) as (p1 & sorted & best & st1 & Hpr & Hall).
  pose proof (tie_p1_eq _ _ _ _ Hpr) as Ep1. subst p1.
  destruct tie_species as (Eq & E1 & Eid & Eexp & Eorgs & Ekb).
  destruct (Hall tie_sp1 tie_sp0 tie_kb tie_xb) as (b & Hin & Hget & n & Hg).
  - rewrite E1. exact (or_introl eq_refl).
  - rewrite Eexp. reflexivity.
  - rewrite Eq. exact (or_introl eq_refl).
  - exact Eid.
  - rewrite Eorgs, Ekb. exact (or_intror (or_introl eq_refl)).
  - exact tie_xb_ok.
  - intros k y Hk Hy Hne. pose proof tie_strictly_fittest as F. rewrite forallb_forall in F.
    specialize (F k Hk). rewrite Hy in F. destruct (Z.eqb_spec k tie_kb) as [E|_]; [contradiction|exact F].
  - pose proof (presentb_complete _ _ _ _ Hin Hget Hg) as P. rewrite tie_not_present in P. discriminate.
Qed.

(* the same facts, collected as a statement about the witness alone (no reference to the refuted statement):
   spawned from a well-formed start genome on a genuine tape, the epoch succeeds, one species of quota 6,
   organism 1 strictly fittest, its genome absent from the next generation, organism 0's genome present *)
Theorem champ_rounding_tie_witness :
  wf tie_start /\ Forall (fun c => 0 <= c < 2 ^ 63) (s_tape tie_s0) /\
  new_population tie_opts tie_start tie_s0 = Ok (tie_p, tie_s) /\
  set_fitness (p_heap tie_p) (p_orgs tie_p) tie_fit = Ok tie_h /\
  next_epoch tie_opts 0 (p_with_heap tie_p tie_h) tie_x0 tie_s = Ok ((tie_q', tie_x'), tie_s') /\
  (exists sorted best st1, prepare tie_opts (p_with_heap tie_p tie_h) tie_s = Ok ((tie_p1, sorted, best), st1)) /\
  p_species tie_p = [tie_sp0] /\ p_species tie_p1 = [tie_sp1] /\ sp_id tie_sp0 = sp_id tie_sp1 /\ sp_exp tie_sp1 = 6 /\
  sp_orgs tie_sp0 = [0; 1; 2; 3; 4; 5] /\ hget tie_h 1 = Ok tie_xb /\ o_fit tie_xb = 0x1.c000000000001p+2%float /\
  (forall k y, In k (sp_orgs tie_sp0) -> hget tie_h k = Ok y -> k <> 1 -> PrimFloat.ltb (o_fit y) (o_fit tie_xb) = true) /\
  (forall b n, In (o_key b) (p_orgs tie_q') -> hget (p_heap tie_q') (o_key b) = Ok b -> o_genome b <> with_id (o_genome tie_xb) n) /\
  (exists x0 b, hget tie_h 0 = Ok x0 /\ o_fit x0 = 0x1.cp+2%float /\ In (o_key b) (p_orgs tie_q') /\
                hget (p_heap tie_q') (o_key b) = Ok b /\ noid_eqb (o_genome b) (o_genome x0) = true).
Proof.
  destruct tie_species as (Eq & E1 & Eid & Eexp & Eorgs & Ekb).
  split; [exact tie_start_wf|].
  split; [exact tie_tape_ok|].
  split; [exact tie_np_ok|]. split; [exact tie_sf_ok|]. split; [exact tie_ne_ok|].
  split; [exact tie_pr_ex|].
  split; [exact Eq|]. split; [exact E1|]. split; [exact Eid|]. split; [exact Eexp|]. split; [exact Eorgs|].
  split; [rewrite <- Ekb; exact tie_xb_ok|]. split; [apply tie_other_present|].
  split. { intros k y Hk Hy Hne. pose proof tie_strictly_fittest as F. rewrite forallb_forall in F.
           specialize (F k Hk). rewrite Hy, Ekb in F. destruct (Z.eqb_spec k 1) as [E|_]; [contradiction|exact F]. }
  split. { intros b n Hin Hget Hg. pose proof (presentb_complete _ _ _ _ Hin Hget Hg) as P.
           rewrite tie_not_present in P. discriminate. }
  destruct tie_other_present as (P & F0 & _ & _).
  destruct (presentb_sound _ _ P) as (b & B1 & B2 & B3).
  exists (ok_or (hget tie_h 0) d_org), b.
  exact (conj tie_org0_ok (conj F0 (conj B1 (conj B2 B3)))).
Qed.

(* the witness with its inputs written out and everything computed from them existentially quantified *)
Definition champ_tie_witness_statement : Prop :=
  exists o g0 s0 fs p s h q' x' st' p1 sp0 sp1 xb,
    o = OPT [0x1p-01%float; 0x1p+00%float; 0x1.4p+01%float; 0x1p+00%float; 0x1p+00%float; 0x1.999999999999ap-02%float;
             0x1.8p+02%float; 0x1p+00%float; 0x1.999999999999ap-03%float; 0x1p-02%float; 0x1.999999999999ap-04%float;
             0x1.999999999999ap-04%float; 0x1.999999999999ap-04%float; 0x1.ccccccccccccdp-01%float; zero; zero;
             0x1.eb851eb851eb8p-06%float; 0x1.47ae147ae147bp-04%float; 0x1p-01%float; 0x1.0624dd2f1a9fcp-10%float;
             0x1.3333333333333p-02%float; 0x1.3333333333333p-02%float; 0x1.3333333333333p-02%float;
             0x1.999999999999ap-03%float; zero] 6 50 50 0 false [4] [0x1p+00%float] /\
    g0 = GN 1 [(T 1 [0x1.999999999999ap-04%float; zero; zero; zero; zero; zero; zero; zero]);
               (T 2 [0x1.999999999999ap-03%float; zero; zero; zero; zero; zero; zero; zero]);
               (T 3 [0x1.3333333333333p-02%float; zero; zero; zero; zero; zero; zero; zero])]
              [(N 1 1 17 None); (N 2 1 17 None); (N 3 3 17 None); (N 4 2 4 None)]
              [(G 1 4 false zero (Some 1) 1 zero true); (G 2 4 false zero (Some 2) 2 zero true);
               (G 3 4 false zero (Some 3) 3 zero true)] [] /\
    s0 = {| s_tape := go_tape 42 4000; s_env := {| innovs := []; next_innov := 0; next_node := 0 |} |} /\
    fs = [0x1.cp+2; 0x1.c000000000001p+2; 1; 2; 3; 4]%float /\
    wf g0 /\ Forall (fun c => 0 <= c < 2 ^ 63) (s_tape s0) /\
    new_population o g0 s0 = Ok (p, s) /\
    set_fitness (p_heap p) (p_orgs p) fs = Ok h /\
    next_epoch o 0 (p_with_heap p h) {| x_best_id := 0; x_best_reproduced := false |} s = Ok ((q', x'), st') /\
    (exists sorted best st1, prepare o (p_with_heap p h) s = Ok ((p1, sorted, best), st1)) /\
    p_species p = [sp0] /\ p_species p1 = [sp1] /\ sp_id sp0 = sp_id sp1 /\ sp_exp sp1 = 6 /\
    sp_orgs sp0 = [0; 1; 2; 3; 4; 5] /\ hget h 1 = Ok xb /\ o_fit xb = 0x1.c000000000001p+2%float /\
    (forall k y, In k (sp_orgs sp0) -> hget h k = Ok y -> k <> 1 -> PrimFloat.ltb (o_fit y) (o_fit xb) = true) /\
    (forall b n, In (o_key b) (p_orgs q') -> hget (p_heap q') (o_key b) = Ok b -> o_genome b <> with_id (o_genome xb) n) /\
    (exists x0 b, hget h 0 = Ok x0 /\ o_fit x0 = 0x1.cp+2%float /\ In (o_key b) (p_orgs q') /\
                  hget (p_heap q') (o_key b) = Ok b /\ noid_eqb (o_genome b) (o_genome x0) = true).

Theorem champ_tie_witness : champ_tie_witness_statement.
Proof.
  exists tie_opts, tie_start, tie_s0, tie_fit, tie_p, tie_s, tie_h, tie_q', tie_x', tie_s', tie_p1, tie_sp0, tie_sp1, tie_xb.
  split; [reflexivity|]. split; [reflexivity|]. split; [exact tie_s0_eq|]. split; [reflexivity|].
  exact champ_rounding_tie_witness.
Qed.
