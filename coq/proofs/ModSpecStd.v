(* Standard solver with control nodes (model/NetMod.v):
   (a) conservativity: without control nodes it is model/Net.v, operation by operation;
   (b) C13: Flush makes a modular Network observationally equal to a fresh one (any topology, any modules,
       any module activator table, error paths included).  The relation is FlushStd's [seqv] on the ordinary
       nodes (everything but ActivationSum); isActive of the control nodes is not related at all: no operation
       reads it, and Flush indeed leaves it set (lemma [mstd_flush_keeps_control_flags]). *)
From NeatModel Require Import Res Net NetMod SolverUtil FlushStd.
From Coq Require Import Arith Lia.
Open Scope Z_scope.

Section ModSpecStd.
Variable F : Type.
Variable NF : num F.
Variable act : Z -> F -> res F.
Variable mact : Z -> list F -> res (list F).

Notation mstate := (mstate F).
Notation mnet := (mnet F).

(* ================= (a) conservativity ================= *)
Definition lift (st : mstate) (p : sstate F * res bool) : mstate * res bool := (with_s st (fst p), snd p).

Lemma with_s_s (st : mstate) s : ms_s (with_s st s) = s.
Proof. reflexivity. Qed.
Lemma with_s_con (st : mstate) s : ms_con (with_s st s) = ms_con st.
Proof. reflexivity. Qed.
Lemma with_s_with_s (st : mstate) s s' : with_s (with_s st s) s' = with_s st s'.
Proof. reflexivity. Qed.
Lemma with_s_id (st : mstate) : with_s st (ms_s st) = st.
Proof. destruct st; reflexivity. Qed.

Section NoControl.
Variable n : mnet.
Hypothesis no_ctrl : m_ctrl n = [].

Lemma mactivate_loop_nil fuel : forall ms ac ot st,
  mactivate_loop NF act mact n fuel ms ac ot st = lift st (activate_loop NF act (m_net n) fuel ms ac ot (ms_s st)).
Proof.
  induction fuel as [|f IH]; intros ms ac ot st; simpl.
  - unfold lift. simpl. now rewrite with_s_id.
  - destruct (output_is_off (m_net n) (ms_s st) || negb ot); [|unfold lift; simpl; now rewrite with_s_id].
    destruct (ac >=? ms); [unfold lift; simpl; now rewrite with_s_id|].
    unfold msweep. rewrite no_ctrl.
    destruct (sweep NF act (m_net n) (ms_s st)) as [s' r]. destruct r; simpl; try reflexivity.
    rewrite IH. reflexivity.
Qed.

Lemma mactivate_steps_nil ms st :
  mactivate_steps NF act mact n ms st = lift st (activate_steps NF act (m_net n) ms (ms_s st)).
Proof.
  unfold mactivate_steps, activate_steps. destruct (ms =? 0).
  - unfold lift. simpl. now rewrite with_s_id.
  - apply mactivate_loop_nil.
Qed.

Lemma mforward_loop_nil it : forall steps last st,
  mforward_loop NF act mact n it steps last st = lift st (forward_loop NF act (m_net n) it steps last (ms_s st)).
Proof.
  induction it as [|it IH]; intros steps last st; simpl.
  - unfold lift. simpl. now rewrite with_s_id.
  - rewrite mactivate_steps_nil. unfold lift at 1.
    destruct (activate_steps NF act (m_net n) steps (ms_s st)) as [s' r]. simpl.
    destruct r; simpl; try reflexivity. rewrite IH. reflexivity.
Qed.

Lemma mstd_forward_nil k st :
  mstd_forward NF act mact n k st = lift st (std_forward NF act (m_net n) k (ms_s st)).
Proof.
  unfold mstd_forward, std_forward. destruct (k =? 0).
  - unfold lift. simpl. now rewrite with_s_id.
  - apply mforward_loop_nil.
Qed.

Theorem mstd_step_nil st o :
  mstd_step NF act mact n st o = lift st (std_step NF act (m_net n) (ms_s st) o).
Proof.
  destruct o as [x|k| |ms d|]; simpl.
  - unfold mstd_load, lift. destruct (std_load NF (m_net n) x (ms_s st)); reflexivity.
  - apply mstd_forward_nil.
  - unfold mstd_recursive, std_recursive. rewrite no_ctrl.
    destruct (max_depth (m_net n)); simpl; try (unfold lift; simpl; now rewrite with_s_id).
    apply mstd_forward_nil.
  - unfold mstd_relax, std_relax, lift. simpl. now rewrite with_s_id.
  - unfold mstd_flush, lift. destruct (std_flush NF (m_net n) (ms_s st)); reflexivity.
Qed.

Theorem mstd_run_nil h : forall st,
  ms_s (mstd_run NF act mact n st h) = std_run NF act (m_net n) (ms_s st) h /\
  ms_con (mstd_run NF act mact n st h) = ms_con st.
Proof.
  unfold mstd_run, std_run. induction h as [|o rest IH]; intros st; simpl; [auto|].
  rewrite mstd_step_nil. unfold lift. simpl.
  destruct (IH (with_s st (fst (std_step NF act (m_net n) (ms_s st) o)))) as [A B].
  simpl in A, B. auto.
Qed.

Theorem mstd_trace_nil ops : forall st,
  mstd_trace NF act mact n st ops = std_trace NF act (m_net n) (ms_s st) ops.
Proof.
  induction ops as [|o rest IH]; intros st; simpl; [reflexivity|].
  rewrite mstd_step_nil. unfold lift.
  destruct (std_step NF act (m_net n) (ms_s st) o) as [s' r]. simpl.
  unfold mstd_outputs. simpl. f_equal. apply IH.
Qed.
End NoControl.

(* the statement for a Network built without control nodes *)
Theorem mstd_conservative (n : net F) (ops : list (op F)) :
  mstd_trace NF act mact (mkMnet n []) (mstd_init NF (mkMnet n [])) ops = std_trace NF act n (std_init NF n) ops.
Proof. apply (mstd_trace_nil (mkMnet n []) eq_refl). Qed.

Theorem mstd_conservative_state (n : net F) (h : list (op F)) :
  ms_s (mstd_run NF act mact (mkMnet n []) (mstd_init NF (mkMnet n [])) h) = std_run NF act n (std_init NF n) h.
Proof. apply (mstd_run_nil (mkMnet n []) eq_refl). Qed.

(* ================= (b) Flush ================= *)
Definition mseqv (st1 st2 : mstate) : Prop := seqv F NF (ms_s st1) (ms_s st2).

Lemma set_outs_rel P outs : forall tgts s1 s2,
  rel F NF P s1 s2 -> rel F NF P (set_outs NF s1 outs tgts) (set_outs NF s2 outs tgts).
Proof.
  induction outs as [|v outs IH]; intros tgts s1 s2 H; simpl; [exact H|].
  destruct tgts as [|o tgts]; [exact H|].
  apply IH. apply set_on_rel. apply set_activation_rel. exact H.
Qed.

Lemma activate_module_rel P c s1 s2 :
  rel F NF P s1 s2 ->
  rel F NF P (fst (activate_module NF mact s1 c)) (fst (activate_module NF mact s2 c)) /\
  snd (activate_module NF mact s1 c) = snd (activate_module NF mact s2 c).
Proof.
  intros H. unfold activate_module.
  assert (E : map (active_out NF s1) (cn_in c) = map (active_out NF s2) (cn_in c)).
  { apply map_ext. intros j. exact (active_out_rel F NF P s1 s2 j H). }
  rewrite E. destruct (mact (cn_act c) (map (active_out NF s2) (cn_in c))) as [outs| | | | |]; simpl; auto.
  destruct (length outs =? length (cn_out c))%nat; simpl; auto.
  split; [|reflexivity]. apply set_outs_rel. exact H.
Qed.

Lemma ctrl_loop_rel P cs : forall k st1 st2,
  rel F NF P (ms_s st1) (ms_s st2) ->
  rel F NF P (ms_s (fst (ctrl_loop NF mact cs k st1))) (ms_s (fst (ctrl_loop NF mact cs k st2))) /\
  snd (ctrl_loop NF mact cs k st1) = snd (ctrl_loop NF mact cs k st2).
Proof.
  induction cs as [|c rest IH]; intros k st1 st2 H; simpl; [auto|].
  destruct (activate_module_rel P c (ms_s st1) (ms_s st2) H) as [Hr He].
  destruct (activate_module NF mact (ms_s st1) c) as [a1 r1], (activate_module NF mact (ms_s st2) c) as [a2 r2].
  simpl in Hr, He. subst r2. destruct r1; simpl; auto.
Qed.

Lemma msweep_rel P n st1 st2 :
  rel F NF P (ms_s st1) (ms_s st2) ->
  mseqv (fst (msweep NF act mact n st1)) (fst (msweep NF act mact n st2)) /\
  snd (msweep NF act mact n st1) = snd (msweep NF act mact n st2).
Proof.
  intros H. unfold msweep, mseqv.
  destruct (sweep_rel F NF act P (m_net n) _ _ H) as [Hr He].
  destruct (sweep NF act (m_net n) (ms_s st1)) as [a1 r1], (sweep NF act (m_net n) (ms_s st2)) as [a2 r2].
  simpl in Hr, He. subst r2. destruct r1; simpl; auto.
  apply (ctrl_loop_rel (fun _ => False)). exact Hr.
Qed.

Lemma mactivate_loop_rel n fuel : forall ms ac ot st1 st2,
  mseqv st1 st2 ->
  mseqv (fst (mactivate_loop NF act mact n fuel ms ac ot st1)) (fst (mactivate_loop NF act mact n fuel ms ac ot st2)) /\
  snd (mactivate_loop NF act mact n fuel ms ac ot st1) = snd (mactivate_loop NF act mact n fuel ms ac ot st2).
Proof.
  induction fuel as [|f IH]; intros ms ac ot st1 st2 H; simpl; [auto|].
  rewrite (output_is_off_rel F NF _ (m_net n) _ _ H).
  destruct (output_is_off (m_net n) (ms_s st2) || negb ot); [|auto].
  destruct (ac >=? ms); [auto|].
  destruct (msweep_rel _ n st1 st2 H) as [Hr He].
  destruct (msweep NF act mact n st1) as [a1 r1], (msweep NF act mact n st2) as [a2 r2]. simpl in Hr, He. subst r2.
  destruct r1; simpl; auto.
Qed.

Lemma mactivate_steps_rel n ms st1 st2 :
  mseqv st1 st2 ->
  mseqv (fst (mactivate_steps NF act mact n ms st1)) (fst (mactivate_steps NF act mact n ms st2)) /\
  snd (mactivate_steps NF act mact n ms st1) = snd (mactivate_steps NF act mact n ms st2).
Proof.
  intros H. unfold mactivate_steps. destruct (ms =? 0); [auto|]. apply mactivate_loop_rel. exact H.
Qed.

Lemma mforward_loop_rel n it : forall steps last st1 st2,
  mseqv st1 st2 ->
  mseqv (fst (mforward_loop NF act mact n it steps last st1)) (fst (mforward_loop NF act mact n it steps last st2)) /\
  snd (mforward_loop NF act mact n it steps last st1) = snd (mforward_loop NF act mact n it steps last st2).
Proof.
  induction it as [|it IH]; intros steps last st1 st2 H; simpl; [auto|].
  destruct (mactivate_steps_rel n steps st1 st2 H) as [Hr He].
  destruct (mactivate_steps NF act mact n steps st1) as [a1 r1], (mactivate_steps NF act mact n steps st2) as [a2 r2].
  simpl in Hr, He. subst r2. destruct r1; simpl; auto.
Qed.

Lemma mstd_forward_rel n k st1 st2 :
  mseqv st1 st2 ->
  mseqv (fst (mstd_forward NF act mact n k st1)) (fst (mstd_forward NF act mact n k st2)) /\
  snd (mstd_forward NF act mact n k st1) = snd (mstd_forward NF act mact n k st2).
Proof.
  intros H. unfold mstd_forward. destruct (k =? 0); [auto|]. apply mforward_loop_rel. exact H.
Qed.

(* every operation maps equivalent states to equivalent states, with the same result *)
Theorem mstd_step_respects n o st1 st2 :
  mseqv st1 st2 ->
  mseqv (fst (mstd_step NF act mact n st1 o)) (fst (mstd_step NF act mact n st2 o)) /\
  snd (mstd_step NF act mact n st1 o) = snd (mstd_step NF act mact n st2 o).
Proof.
  intros H. destruct o as [x|k| |ms d|]; simpl.
  - unfold mstd_load, mseqv. destruct (std_load_rel F NF _ (m_net n) x _ _ H) as [Hr He].
    destruct (std_load NF (m_net n) x (ms_s st1)), (std_load NF (m_net n) x (ms_s st2)). simpl in *. auto.
  - apply mstd_forward_rel. exact H.
  - unfold mstd_recursive. destruct (m_ctrl n); [|simpl; auto].
    destruct (max_depth (m_net n)); simpl; auto. apply mstd_forward_rel. exact H.
  - unfold mstd_relax. simpl. auto.
  - unfold mstd_flush, mseqv, std_flush. destruct (flush_loop_rel F NF _ (seq 0 (nnodes (m_net n))) _ _ H) as [Hr He].
    destruct (flush_loop NF (seq 0 (nnodes (m_net n))) (ms_s st1)), (flush_loop NF (seq 0 (nnodes (m_net n))) (ms_s st2)).
    simpl in *. auto.
Qed.

Theorem mstd_nstep_respects n o st1 st2 :
  mseqv st1 st2 ->
  mseqv (fst (mstd_nstep NF act mact n st1 o)) (fst (mstd_nstep NF act mact n st2 o)) /\
  snd (mstd_nstep NF act mact n st1 o) = snd (mstd_nstep NF act mact n st2 o).
Proof.
  intros H. destruct o as [o|k]; simpl; [apply mstd_step_respects|apply mactivate_steps_rel]; exact H.
Qed.

Lemma mstd_outputs_respects n st1 st2 : mseqv st1 st2 -> mstd_outputs NF n st1 = mstd_outputs NF n st2.
Proof. intros H. unfold mstd_outputs. apply std_outputs_respects. exact H. Qed.

Theorem mstd_trace_respects n ops : forall st1 st2,
  mseqv st1 st2 -> mstd_trace NF act mact n st1 ops = mstd_trace NF act mact n st2 ops.
Proof.
  induction ops as [|o rest IH]; intros st1 st2 H; simpl; [reflexivity|].
  destruct (mstd_step_respects n o st1 st2 H) as [Hr He].
  destruct (mstd_step NF act mact n st1 o) as [a1 r1], (mstd_step NF act mact n st2 o) as [a2 r2]. simpl in Hr, He.
  subst r2. rewrite (mstd_outputs_respects n a1 a2 Hr). f_equal. apply IH. exact Hr.
Qed.

Theorem mstd_ntrace_respects n ops : forall st1 st2,
  mseqv st1 st2 -> mstd_ntrace NF act mact n st1 ops = mstd_ntrace NF act mact n st2 ops.
Proof.
  induction ops as [|o rest IH]; intros st1 st2 H; simpl; [reflexivity|].
  destruct (mstd_nstep_respects n o st1 st2 H) as [Hr He].
  destruct (mstd_nstep NF act mact n st1 o) as [a1 r1], (mstd_nstep NF act mact n st2 o) as [a2 r2]. simpl in Hr, He.
  subst r2. rewrite (mstd_outputs_respects n a1 a2 Hr). f_equal. apply IH. exact Hr.
Qed.

(* ----- lengths of the per-node arrays never change ----- *)
Lemma lens_set_outs outs : forall tgts s, lens F (set_outs NF s outs tgts) = lens F s.
Proof.
  induction outs as [|v outs IH]; intros tgts s; simpl; [reflexivity|].
  destruct tgts as [|o tgts]; [reflexivity|]. rewrite IH.
  transitivity (lens F (set_activation NF s o v)); [|apply lens_set_activation].
  unfold set_on, lens. simpl. rewrite !upd_length. reflexivity.
Qed.

Lemma lens_activate_module s c : lens F (fst (activate_module NF mact s c)) = lens F s.
Proof.
  unfold activate_module. destruct (mact _ _) as [outs| | | | |]; simpl; try reflexivity.
  destruct (_ =? _)%nat; simpl; [apply lens_set_outs|reflexivity].
Qed.

Lemma lens_ctrl_loop cs : forall k st, lens F (ms_s (fst (ctrl_loop NF mact cs k st))) = lens F (ms_s st).
Proof.
  induction cs as [|c rest IH]; intros k st; simpl; [reflexivity|].
  pose proof (lens_activate_module (ms_s st) c) as H.
  destruct (activate_module NF mact (ms_s st) c) as [a r]. simpl in H.
  destruct r; simpl; try exact H. rewrite IH. exact H.
Qed.

Lemma lens_msweep n st : lens F (ms_s (fst (msweep NF act mact n st))) = lens F (ms_s st).
Proof.
  unfold msweep. pose proof (lens_sweep F NF act (m_net n) (ms_s st)) as H.
  destruct (sweep NF act (m_net n) (ms_s st)) as [a r]. simpl in H.
  destruct r; simpl; try exact H. rewrite lens_ctrl_loop. exact H.
Qed.

Lemma lens_mactivate_loop n fuel : forall ms ac ot st,
  lens F (ms_s (fst (mactivate_loop NF act mact n fuel ms ac ot st))) = lens F (ms_s st).
Proof.
  induction fuel as [|f IH]; intros ms ac ot st; simpl; [reflexivity|].
  destruct (_ || _); [|reflexivity]. destruct (ac >=? ms); [reflexivity|].
  pose proof (lens_msweep n st) as H. destruct (msweep NF act mact n st) as [a r]. simpl in H.
  destruct r; simpl; try exact H. rewrite IH. exact H.
Qed.

Lemma lens_mstd_forward n k st : lens F (ms_s (fst (mstd_forward NF act mact n k st))) = lens F (ms_s st).
Proof.
  unfold mstd_forward. destruct (k =? 0); [reflexivity|].
  generalize (Z.to_nat k). intros it. generalize false. revert st.
  induction it as [|it IH]; intros st last; simpl; [reflexivity|].
  assert (H : lens F (ms_s (fst (mactivate_steps NF act mact n k st))) = lens F (ms_s st)).
  { unfold mactivate_steps. destruct (k =? 0); [reflexivity|apply lens_mactivate_loop]. }
  destruct (mactivate_steps NF act mact n k st) as [a r]. simpl in H.
  destruct r; simpl; try exact H. rewrite IH. exact H.
Qed.

Lemma lens_mstd_step n st o : lens F (ms_s (fst (mstd_step NF act mact n st o))) = lens F (ms_s st).
Proof.
  destruct o as [x|k| |ms d|]; simpl.
  - unfold mstd_load. pose proof (lens_std_load F NF (m_net n) x (ms_s st)) as H.
    destruct (std_load NF (m_net n) x (ms_s st)). exact H.
  - apply lens_mstd_forward.
  - unfold mstd_recursive. destruct (m_ctrl n); [|reflexivity].
    destruct (max_depth (m_net n)); simpl; try reflexivity. apply lens_mstd_forward.
  - reflexivity.
  - unfold mstd_flush, std_flush. pose proof (lens_flush_loop F NF (seq 0 (nnodes (m_net n))) (ms_s st)) as H.
    destruct (flush_loop NF (seq 0 (nnodes (m_net n))) (ms_s st)). exact H.
Qed.

Lemma lens_mstd_run n h : forall st, lens F (ms_s (mstd_run NF act mact n st h)) = lens F (ms_s st).
Proof.
  unfold mstd_run. induction h as [|o rest IH]; intros st; simpl; [reflexivity|]. rewrite IH. apply lens_mstd_step.
Qed.

Lemma lens_mstd_nstep n st o : lens F (ms_s (fst (mstd_nstep NF act mact n st o))) = lens F (ms_s st).
Proof.
  destruct o as [o|k]; simpl; [apply lens_mstd_step|].
  unfold mactivate_steps. destruct (k =? 0); [reflexivity|apply lens_mactivate_loop].
Qed.

Lemma lens_mstd_nrun n h : forall st, lens F (ms_s (mstd_nrun NF act mact n st h)) = lens F (ms_s st).
Proof.
  unfold mstd_nrun. induction h as [|o rest IH]; intros st; simpl; [reflexivity|]. rewrite IH. apply lens_mstd_nstep.
Qed.

Hypothesis ltb_zero_zero : fltb NF (fzero NF) (fzero NF) = false.

Theorem mstd_flush_ok n st : snd (mstd_flush NF n st) = Ok true.
Proof.
  unfold mstd_flush. pose proof (std_flush_ok F NF ltb_zero_zero (m_net n) (ms_s st)) as H.
  destruct (std_flush NF (m_net n) (ms_s st)). exact H.
Qed.

(* C13 for the modular Network: whatever happened since construction, after Flush every later sequence of
   operations gives the results and outputs it gives on a fresh Network *)
Theorem mstd_flush_fresh n (h ops : list (op F)) :
  mstd_trace NF act mact n (fst (mstd_flush NF n (mstd_run NF act mact n (mstd_init NF n) h))) ops =
  mstd_trace NF act mact n (mstd_init NF n) ops.
Proof.
  apply mstd_trace_respects. unfold mseqv, mstd_flush.
  pose proof (std_flush_init F NF ltb_zero_zero (m_net n) (ms_s (mstd_run NF act mact n (mstd_init NF n) h))) as H.
  destruct (std_flush NF (m_net n) (ms_s (mstd_run NF act mact n (mstd_init NF n) h))) as [s' r]. simpl in *.
  apply H. rewrite lens_mstd_run. reflexivity.
Qed.

(* the same with Network.Activate() / ActivateSteps(k) among the operations, before and after the Flush *)
Theorem mstd_flush_fresh_n n (h ops : list (nop F)) :
  mstd_ntrace NF act mact n (fst (mstd_flush NF n (mstd_nrun NF act mact n (mstd_init NF n) h))) ops =
  mstd_ntrace NF act mact n (mstd_init NF n) ops.
Proof.
  apply mstd_ntrace_respects. unfold mseqv, mstd_flush.
  pose proof (std_flush_init F NF ltb_zero_zero (m_net n) (ms_s (mstd_nrun NF act mact n (mstd_init NF n) h))) as H.
  destruct (std_flush NF (m_net n) (ms_s (mstd_nrun NF act mact n (mstd_init NF n) h))) as [s' r]. simpl in *.
  apply H. rewrite lens_mstd_nrun. reflexivity.
Qed.

(* what Flush does NOT reset: isActive of the control nodes (Network.Flush only visits allNodes) *)
Lemma mstd_flush_keeps_control_flags n st : ms_con (fst (mstd_flush NF n st)) = ms_con st.
Proof. unfold mstd_flush. destruct (std_flush NF (m_net n) (ms_s st)). reflexivity. Qed.

End ModSpecStd.
