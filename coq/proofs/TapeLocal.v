(* C17: prefix determinism of the sequential model.

   Every model computation runs in the state monad over [st = {s_tape; s_env}].  [tape_local m]
   says: a successful run of [m] splits its tape into a consumed prefix and the untouched rest,
   and on ANY tape that starts with the same prefix (and the same innovation environment) the run
   gives the same value, the same final environment, and leaves exactly the new rest.  So the
   result is a function of the consumed prefix alone: nothing else about the tape (its length, what
   follows) can influence it.

   The predicate is closed under the monad operations; the raw derivations of Go's math/rand
   (base/GoRand.v) satisfy the corresponding statement on bare tapes; every monadic function of
   model/Mutate.v, Mate.v and Population.v up to [next_epoch] and [new_population] is built from
   those, so the proofs are by the closure tactic [tl_auto] (induction for the loops).  The one
   function that is NOT tape-local by construction is [Mutate.tape_len], which [pick_pair] uses as
   fuel for the redraw loop [pick_distinct]: there the proof goes through fuel irrelevance (every
   iteration consumes at least two cells, so any fuel at least as large as the consumed prefix
   gives the same result). *)
From NeatModel Require Import Res F64 GoRand Genome Options Insert Dup Mutate Mate Population MonadLemmas.
From Coq Require Import Lia.

(* ---------- the predicates ---------- *)
Definition raw_local {A} (f : tape -> res (A * tape)) : Prop :=
  forall t a t', f t = Ok (a, t') ->
    exists used, t = used ++ t' /\ forall u, f (used ++ u) = Ok (a, u).

Definition tape_local {A} (m : @M st A) : Prop :=
  forall t e a t' e',
    m {| s_tape := t; s_env := e |} = Ok (a, {| s_tape := t'; s_env := e' |}) ->
    exists used, t = used ++ t' /\
                 forall u, m {| s_tape := used ++ u; s_env := e |} = Ok (a, {| s_tape := u; s_env := e' |}).

(* ---------- closure under the monad ---------- *)
Lemma tl_ret {A} (a : A) : tape_local (ret a).
Proof.
  intros t e b t' e' H. unfold ret in H. injection H as <- <- <-.
  exists []. split; [reflexivity|]. intros u. reflexivity.
Qed.

Lemma tl_lift {A} (r : res A) : tape_local (lift r).
Proof.
  intros t e b t' e' H. unfold lift in *. destruct r; cbn [bind] in *; try discriminate.
  injection H as <- <- <-. exists []. split; [reflexivity|]. intros u. reflexivity.
Qed.

Lemma tl_fail_err {A} c : tape_local (@fail_err st A c).
Proof. intros t e b t' e' H. discriminate. Qed.

Lemma tl_fail_panic {A} c : tape_local (@fail_panic st A c).
Proof. intros t e b t' e' H. discriminate. Qed.

Lemma tl_out_of_tape {A} : tape_local (fun _ : st => @OutOfTape (A * st)).
Proof. intros t e b t' e' H. discriminate. Qed.

Lemma tl_out_of_fuel {A} : tape_local (fun _ : st => @OutOfFuel (A * st)).
Proof. intros t e b t' e' H. discriminate. Qed.

Lemma tl_bind {A B} (m : @M st A) (f : A -> @M st B) :
  tape_local m -> (forall a, tape_local (f a)) -> tape_local (bindM m f).
Proof.
  intros Hm Hf t e b t' e' H.
  apply bindM_ok in H. destruct H as [a [[t1 e1] [H1 H2]]].
  destruct (Hm _ _ _ _ _ H1) as [u1 [-> Hu1]].
  destruct (Hf a _ _ _ _ _ H2) as [u2 [-> Hu2]].
  exists (u1 ++ u2). split; [now rewrite app_assoc|].
  intros u. unfold bindM. rewrite <- app_assoc, Hu1. apply Hu2.
Qed.

Lemma tl_on_tape {A} (f : tape -> res (A * tape)) : raw_local f -> tape_local (on_tape f).
Proof.
  intros Hf t e a t' e' H. apply on_tape_ok in H. cbn [s_tape s_env] in H.
  destruct H as [t1 [H1 H2]]. injection H2 as <- <-.
  destruct (Hf _ _ _ H1) as [used [-> Hu]]. exists used. split; [reflexivity|].
  intros u. unfold on_tape. cbn [s_tape s_env]. now rewrite Hu.
Qed.

(* the environment primitives do not touch the tape *)
Lemma tl_e_next_innov : tape_local e_next_innov.
Proof.
  intros t e a t' e' H. unfold e_next_innov in H. cbn in H. injection H as <- <- <-.
  exists []. split; [reflexivity|]. intros u. reflexivity.
Qed.
Lemma tl_e_next_node : tape_local e_next_node.
Proof.
  intros t e a t' e' H. unfold e_next_node in H. cbn in H. injection H as <- <- <-.
  exists []. split; [reflexivity|]. intros u. reflexivity.
Qed.
Lemma tl_e_store i : tape_local (e_store i).
Proof.
  intros t e a t' e' H. unfold e_store in H. cbn in H. injection H as <- <- <-.
  exists []. split; [reflexivity|]. intros u. reflexivity.
Qed.
Lemma tl_e_innovs : tape_local e_innovs.
Proof.
  intros t e a t' e' H. unfold e_innovs in H. cbn in H. injection H as <- <- <-.
  exists []. split; [reflexivity|]. intros u. reflexivity.
Qed.
Lemma tl_e_set_counters ni nn : tape_local (e_set_counters ni nn).
Proof.
  intros t e a t' e' H. unfold e_set_counters in H. cbn in H. injection H as <- <- <-.
  exists []. split; [reflexivity|]. intros u. reflexivity.
Qed.

(* ---------- Go's derivations on a bare tape ---------- *)
Lemma ok_pair_inj {A B} (a a' : A) (b b' : B) : @Ok (A * B) (a, b) = Ok (a', b') -> a = a' /\ b = b'.
Proof. intros H. inversion H. auto. Qed.

Lemma rl_float64 : raw_local tape_float64.
Proof.
  intros t. induction t as [|x t IH]; intros a t' H; cbn [tape_float64] in H; [discriminate|].
  destruct (PrimFloat.eqb (PrimFloat.div (f_of_Z x) two63) 1) eqn:E.
  - destruct (IH _ _ H) as [used [-> Hu]]. exists (x :: used). split; [reflexivity|].
    intros u. cbn [app tape_float64]. rewrite E. apply Hu.
  - apply ok_pair_inj in H; destruct H as [<- <-]. exists [x]. split; [reflexivity|].
    intros u. cbn [app tape_float64]. rewrite E. reflexivity.
Qed.

Lemma rl_float32 : raw_local tape_float32.
Proof.
  intros t. induction t as [|x t IH]; intros a t' H; cbn [tape_float32] in H; [discriminate|].
  destruct (PrimFloat.eqb (PrimFloat.div (f_of_Z x) two63) 1) eqn:E.
  - destruct (IH _ _ H) as [used [-> Hu]]. exists (x :: used). split; [reflexivity|].
    intros u. cbn [app tape_float32]. rewrite E. apply Hu.
  - destruct (PrimFloat.eqb (round32 (PrimFloat.div (f_of_Z x) two63)) 1) eqn:E2.
    + destruct (IH _ _ H) as [used [-> Hu]]. exists (x :: used). split; [reflexivity|].
      intros u. cbn [app tape_float32]. rewrite E, E2. apply Hu.
    + apply ok_pair_inj in H; destruct H as [<- <-]. exists [x]. split; [reflexivity|].
      intros u. cbn [app tape_float32]. rewrite E, E2. reflexivity.
Qed.

Lemma rl_int31n_rej n mx : raw_local (tape_int31n_rej n mx).
Proof.
  intros t. induction t as [|x t IH]; intros a t' H; cbn [tape_int31n_rej] in H; [discriminate|].
  destruct (Z.gtb (int31_of x) mx) eqn:E.
  - destruct (IH _ _ H) as [used [-> Hu]]. exists (x :: used). split; [reflexivity|].
    intros u. cbn [app tape_int31n_rej]. rewrite E. apply Hu.
  - apply ok_pair_inj in H; destruct H as [<- <-]. exists [x]. split; [reflexivity|].
    intros u. cbn [app tape_int31n_rej]. rewrite E. reflexivity.
Qed.

Lemma rl_int31n n : raw_local (tape_int31n n).
Proof.
  intros t a t' H. unfold tape_int31n in *.
  destruct (Z.eqb (Z.land n (n - 1)) 0).
  - destruct t as [|x t]; [discriminate|]. apply ok_pair_inj in H; destruct H as [<- <-].
    exists [x]. split; [reflexivity|]. intros u. reflexivity.
  - apply rl_int31n_rej in H. exact H.
Qed.

Lemma rl_intn n : raw_local (tape_intn n).
Proof.
  intros t a t' H. unfold tape_intn in *. destruct (Z.leb n 0); [discriminate|].
  apply rl_int31n in H. exact H.
Qed.

Lemma rl_randsign : raw_local tape_randsign.
Proof.
  intros t a t' H. unfold tape_randsign in *. destruct t as [|x t]; [discriminate|].
  apply ok_pair_inj in H; destruct H as [<- <-]. exists [x]. split; [reflexivity|]. intros u. reflexivity.
Qed.

Lemma rl_roulette probs : raw_local (tape_roulette probs).
Proof.
  intros t a t' H. unfold tape_roulette in *.
  destruct (tape_float64 t) as [[f t1]| | | | |] eqn:E; cbn [bind] in H; try discriminate.
  apply ok_pair_inj in H; destruct H as [<- <-]. destruct (rl_float64 _ _ _ E) as [used [-> Hu]].
  exists used. split; [reflexivity|]. intros u. rewrite Hu. reflexivity.
Qed.

Lemma rl_random_activation o : raw_local (tape_random_activation o).
Proof.
  intros t a t' H. unfold tape_random_activation in *.
  destruct (o_activators o) as [|a0 [|a1 acts]]; [discriminate| |].
  - apply ok_pair_inj in H; destruct H as [<- <-]. exists []. split; [reflexivity|]. intros u. reflexivity.
  - destruct (negb _); [discriminate|].
    destruct (tape_roulette (o_activator_probs o) t) as [[i t1]| | | | |] eqn:E; cbn [bind] in H; try discriminate.
    destruct (rl_roulette _ _ _ _ E) as [used [-> Hu]].
    destruct (_ || _) eqn:E2; [discriminate|]. apply ok_pair_inj in H; destruct H as [<- <-].
    exists used. split; [reflexivity|]. intros u. rewrite Hu. cbn [bind]. rewrite E2. reflexivity.
Qed.

Lemma tl_r_float64 : tape_local r_float64.
Proof. apply tl_on_tape, rl_float64. Qed.
Lemma tl_r_float32 : tape_local r_float32.
Proof. apply tl_on_tape, rl_float32. Qed.
Lemma tl_r_intn n : tape_local (r_intn n).
Proof. apply tl_on_tape, rl_intn. Qed.
Lemma tl_r_randsign : tape_local r_randsign.
Proof. apply tl_on_tape, rl_randsign. Qed.
Lemma tl_random_activation o : tape_local (on_tape (tape_random_activation o)).
Proof. apply tl_on_tape, rl_random_activation. Qed.
Lemma tl_r_int31n n : tape_local (r_int31n n).
Proof. unfold r_int31n. destruct (Z.leb n 0); [apply tl_fail_panic | apply tl_on_tape, rl_int31n]. Qed.

Create HintDb tl.
#[export] Hint Resolve tl_ret tl_lift tl_fail_err tl_fail_panic tl_out_of_tape tl_out_of_fuel
  tl_e_next_innov tl_e_next_node tl_e_store tl_e_innovs tl_e_set_counters
  tl_r_float64 tl_r_float32 tl_r_intn tl_r_randsign tl_random_activation tl_r_int31n : tl.

(* ---------- the closure tactic ---------- *)
(* one step: split a bind, or case-split on the scrutinee of an if / match / destructuring let *)
Ltac tl_step :=
  lazymatch goal with
  | |- forall _, _ => intro
  | |- tape_local (bindM _ _) => apply tl_bind; [ | intro; cbv beta ]
  | |- tape_local (let _ := _ in _) => cbv zeta
  | |- tape_local (match ?x with _ => _ end) => destruct x
  | |- tape_local ((fun _ => _) _) => cbv beta
  end.
Ltac tl_auto := repeat first [ solve [ eauto 3 with tl ] | tl_step ].

(* ---------- generic loops ---------- *)
Lemma tl_mapM {A B} (f : A -> @M st B) (l : list A) :
  (forall x, tape_local (f x)) -> tape_local (mapM f l).
Proof. intros Hf. induction l as [|x l IH]; cbn [mapM]; tl_auto. Qed.

Lemma tl_foldM {A B} (f : B -> A -> @M st B) (l : list A) :
  (forall b x, tape_local (f b x)) -> forall b, tape_local (foldM f l b).
Proof. intros Hf. induction l as [|x l IH]; intros b; cbn [foldM]; tl_auto. Qed.
#[export] Hint Resolve tl_mapM tl_foldM : tl.

(* ---------- model/Mutate.v ---------- *)
Lemma tl_mutate_param power prob p : tape_local (mutate_param power prob p).
Proof. unfold mutate_param. tl_auto. Qed.
#[export] Hint Resolve tl_mutate_param : tl.

Lemma tl_trait_mutate power prob t : tape_local (trait_mutate power prob t).
Proof. unfold trait_mutate. tl_auto. Qed.
#[export] Hint Resolve tl_trait_mutate : tl.

Lemma tl_mutate_random_trait o g : tape_local (mutate_random_trait o g).
Proof. unfold mutate_random_trait. tl_auto. Qed.

Lemma tl_mutate_link_trait_loop times : forall g, tape_local (mutate_link_trait_loop times g).
Proof. induction times as [|n IH]; intros g; cbn [mutate_link_trait_loop]; tl_auto. Qed.
#[export] Hint Resolve tl_mutate_link_trait_loop : tl.
Lemma tl_mutate_link_trait times g : tape_local (mutate_link_trait times g).
Proof. unfold mutate_link_trait. tl_auto. Qed.

Lemma tl_mutate_node_trait_loop times : forall g, tape_local (mutate_node_trait_loop times g).
Proof. induction times as [|n IH]; intros g; cbn [mutate_node_trait_loop]; tl_auto. Qed.
#[export] Hint Resolve tl_mutate_node_trait_loop : tl.
Lemma tl_mutate_node_trait times g : tape_local (mutate_node_trait times g).
Proof. unfold mutate_node_trait. tl_auto. Qed.

Lemma tl_mutate_one_weight power rate gaussian severe count end_part num x :
  tape_local (mutate_one_weight power rate gaussian severe count end_part num x).
Proof. unfold mutate_one_weight. tl_auto. Qed.
#[export] Hint Resolve tl_mutate_one_weight : tl.

Lemma tl_mutate_weights_loop power rate gaussian severe count end_part l :
  forall num, tape_local (mutate_weights_loop power rate gaussian severe count end_part num l).
Proof. induction l as [|x l IH]; intros num; cbn [mutate_weights_loop]; tl_auto. Qed.
#[export] Hint Resolve tl_mutate_weights_loop : tl.

Lemma tl_mutate_link_weights power rate gaussian g : tape_local (mutate_link_weights power rate gaussian g).
Proof. unfold mutate_link_weights. tl_auto. Qed.

Lemma tl_toggle_loop times : forall g, tape_local (toggle_loop times g).
Proof. induction times as [|n IH]; intros g; cbn [toggle_loop]; tl_auto. Qed.
#[export] Hint Resolve tl_toggle_loop : tl.
Lemma tl_mutate_toggle_enable times g : tape_local (mutate_toggle_enable times g).
Proof. unfold mutate_toggle_enable. tl_auto. Qed.

Lemma tl_mutate_gene_reenable g : tape_local (mutate_gene_reenable g).
Proof. unfold mutate_gene_reenable. tl_auto. Qed.
#[export] Hint Resolve tl_mutate_random_trait tl_mutate_link_trait tl_mutate_node_trait tl_mutate_link_weights
  tl_mutate_toggle_enable tl_mutate_gene_reenable : tl.

Lemma tl_step_if p op gb : (forall g, tape_local (op g)) -> tape_local (step_if p op gb).
Proof. intros Hop. unfold step_if. tl_auto. Qed.
#[export] Hint Resolve tl_step_if : tl.

Lemma tl_mutate_all_nonstructural o g : tape_local (mutate_all_nonstructural o g).
Proof. unfold mutate_all_nonstructural. tl_auto. Qed.
#[export] Hint Resolve tl_mutate_all_nonstructural : tl.

Lemma tl_connect_one sensor acc out : tape_local (connect_one sensor acc out).
Proof. unfold connect_one. tl_auto. Qed.
#[export] Hint Resolve tl_connect_one : tl.

Lemma tl_mutate_connect_sensors g : tape_local (mutate_connect_sensors g).
Proof. unfold mutate_connect_sensors. tl_auto. Qed.
#[export] Hint Resolve tl_mutate_connect_sensors : tl.

(* ---------- mutateAddLink: the redraw loop and its tape-length fuel ---------- *)
Lemma tl_pick_distinct fuel n first : tape_local (pick_distinct fuel n first).
Proof. induction fuel as [|f IH]; cbn [pick_distinct]; tl_auto. Qed.
#[export] Hint Resolve tl_pick_distinct : tl.

(* a successful draw strictly shortens the tape *)
Lemma tape_intn_shorter n t a t' : tape_intn n t = Ok (a, t') -> (length t' < length t)%nat.
Proof.
  intros H. destruct (rl_intn n _ _ _ H) as [used [-> _]].
  destruct used as [|x used].
  - cbn [app] in H. unfold tape_intn, tape_int31n in H.
    destruct (Z.leb n 0); [discriminate|]. destruct (Z.eqb _ 0).
    + destruct t'; [discriminate|]. apply ok_pair_inj in H. destruct H as [_ H].
      exfalso. apply (f_equal (@length Z)) in H. cbn in H. lia.
    + exfalso. revert H. generalize (2147483647 - 2147483648 mod n). intros mx H.
      assert (G : forall l a l', tape_int31n_rej n mx l = Ok (a, l') -> (length l' < length l)%nat).
      { induction l as [|y l IH]; intros b l' Hl; cbn [tape_int31n_rej] in Hl; [discriminate|].
        destruct (Z.gtb _ _).
        - apply IH in Hl. cbn. lia.
        - apply ok_pair_inj in Hl. destruct Hl as [_ <-]. cbn. lia. }
      apply G in H. lia.
  - rewrite app_length. cbn. lia.
Qed.

Lemma r_intn_shorter n s a s' : r_intn n s = Ok (a, s') -> (length (s_tape s') < length (s_tape s))%nat.
Proof.
  intros H. apply on_tape_ok in H. destruct H as [t' [H ->]]. cbn [s_tape].
  eapply tape_intn_shorter; eauto.
Qed.

Lemma r_float64_shorter s a s' : r_float64 s = Ok (a, s') -> (length (s_tape s') < length (s_tape s))%nat.
Proof.
  intros H. apply on_tape_ok in H. destruct H as [t' [H ->]]. cbn [s_tape].
  apply tape_float64_suffix in H. destruct H as [p [Hp ->]]. rewrite app_length.
  destruct p; [congruence|]. cbn. lia.
Qed.

(* fuel irrelevance: any fuel at least as large as the number of consumed cells gives the same run *)
Lemma pick_distinct_fuel n first : forall f s r s',
    pick_distinct f n first s = Ok (r, s') ->
    (length (s_tape s') <= length (s_tape s))%nat /\
    forall f', (length (s_tape s) - length (s_tape s') <= f')%nat -> pick_distinct f' n first s = Ok (r, s').
Proof.
  induction f as [|f IH]; intros s r s' H; cbn [pick_distinct] in H; [discriminate|].
  apply bindM_ok in H. destruct H as [a [s1 [H1 H2]]].
  apply bindM_ok in H2. destruct H2 as [b0 [s2 [H3 H4]]].
  pose proof (r_intn_shorter _ _ _ _ H1) as L1.
  pose proof (r_intn_shorter _ _ _ _ H3) as L2.
  destruct (Z.eqb a (first + b0)) eqn:E.
  - destruct (IH _ _ _ H4) as [L3 Hf]. split; [lia|].
    intros f' Hf'. destruct f' as [|f'']; [lia|]. cbn [pick_distinct].
    unfold bindM at 1. rewrite H1. unfold bindM at 1. rewrite H3. rewrite E. apply Hf. lia.
  - apply ret_ok in H4. destruct H4 as [<- <-]. split; [lia|].
    intros f' Hf'. destruct f' as [|f'']; [lia|]. cbn [pick_distinct].
    unfold bindM at 1. rewrite H1. unfold bindM at 1. rewrite H3. rewrite E. reflexivity.
Qed.

(* [pick_pair] after its fuel has been read *)
Definition pick_pair_body (do_recur : bool) (n first : Z) (fuel : nat) : @M st (Z * Z) :=
  if do_recur then
    let! r := r_float64 in
    if PrimFloat.ltb half r then
      let! a0 := r_intn (n - first) in
      ret (first + a0, first + a0)
    else pick_distinct fuel n first
  else pick_distinct fuel n first.

Lemma pick_pair_unfold do_recur n first s :
  pick_pair do_recur n first s = pick_pair_body do_recur n first (length (s_tape s)) s.
Proof. reflexivity. Qed.

Lemma tl_pick_pair_body do_recur n first fuel : tape_local (pick_pair_body do_recur n first fuel).
Proof. unfold pick_pair_body. tl_auto. Qed.

Lemma pick_pair_body_fuel do_recur n first f s r s' :
  pick_pair_body do_recur n first f s = Ok (r, s') ->
  forall f', (length (s_tape s) - length (s_tape s') <= f')%nat ->
             pick_pair_body do_recur n first f' s = Ok (r, s').
Proof.
  unfold pick_pair_body. intros H f' Hf'. destruct do_recur.
  - apply bindM_ok in H. destruct H as [x [s1 [H1 H2]]].
    unfold bindM at 1. rewrite H1.
    destruct (PrimFloat.ltb half x); [exact H2|].
    pose proof (r_float64_shorter _ _ _ H1) as L1.
    destruct (pick_distinct_fuel _ _ _ _ _ _ H2) as [L2 Hf]. apply Hf. lia.
  - destruct (pick_distinct_fuel _ _ _ _ _ _ H) as [L2 Hf]. apply Hf. lia.
Qed.

Lemma tl_pick_pair do_recur n first : tape_local (pick_pair do_recur n first).
Proof.
  intros t e a t' e' H. rewrite pick_pair_unfold in H. cbn [s_tape] in H.
  destruct (tl_pick_pair_body _ _ _ _ _ _ _ _ _ H) as [used [-> Hu]].
  exists used. split; [reflexivity|]. intros u. rewrite pick_pair_unfold. cbn [s_tape].
  eapply pick_pair_body_fuel; [apply Hu|]. cbn [s_tape]. lia.
Qed.
#[export] Hint Resolve tl_pick_pair : tl.

Lemma tl_add_link_tries tries do_recur g n first :
  forall last_pair, tape_local (add_link_tries tries do_recur g n first last_pair).
Proof. induction tries as [|k IH]; intros last_pair; cbn [add_link_tries]; tl_auto. Qed.
#[export] Hint Resolve tl_add_link_tries : tl.

Lemma tl_mutate_add_link o g : tape_local (mutate_add_link o g).
Proof. unfold mutate_add_link. tl_auto. Qed.
#[export] Hint Resolve tl_mutate_add_link : tl.

(* ---------- mutateAddNode ---------- *)
Lemma tl_pick_gene_small g l : forall i, tape_local (pick_gene_small g l i).
Proof. induction l as [|x l IH]; intros i; cbn [pick_gene_small]; tl_auto. Qed.
Lemma tl_pick_gene_big tries g : tape_local (pick_gene_big tries g).
Proof. induction tries as [|k IH]; cbn [pick_gene_big]; tl_auto. Qed.
#[export] Hint Resolve tl_pick_gene_small tl_pick_gene_big : tl.

Lemma tl_mutate_add_node o g : tape_local (mutate_add_node o g).
Proof. unfold mutate_add_node. tl_auto. Qed.
#[export] Hint Resolve tl_mutate_add_node : tl.

(* ---------- model/Mate.v ---------- *)
Lemma tl_disable_draw x1 x2 : tape_local (disable_draw x1 x2).
Proof. unfold disable_draw. tl_auto. Qed.
Lemma tl_pick_gt_half {A} (a b : A) : tape_local (pick_gt_half a b).
Proof. unfold pick_gt_half. tl_auto. Qed.
#[export] Hint Resolve tl_disable_draw tl_pick_gt_half : tl.

Lemma tl_avg_gene g og x1 x2 : tape_local (avg_gene g og x1 x2).
Proof. unfold avg_gene. tl_auto. Qed.
#[export] Hint Resolve tl_avg_gene : tl.

Lemma tl_multipoint_loop fuel avg g og nt p1b :
  forall l1 l2 acc, tape_local (multipoint_loop fuel avg g og nt p1b l1 l2 acc).
Proof. induction fuel as [|f IH]; intros l1 l2 acc; cbn [multipoint_loop]; tl_auto. Qed.
#[export] Hint Resolve tl_multipoint_loop : tl.

Lemma tl_mate_multipoint_gen avg g og id f1 f2 : tape_local (mate_multipoint_gen avg g og id f1 f2).
Proof. unfold mate_multipoint_gen. tl_auto. Qed.
Lemma tl_mate_multipoint g og id f1 f2 : tape_local (mate_multipoint g og id f1 f2).
Proof. apply tl_mate_multipoint_gen. Qed.
Lemma tl_mate_multipoint_avg g og id f1 f2 : tape_local (mate_multipoint_avg g og id f1 f2).
Proof. apply tl_mate_multipoint_gen. Qed.

Lemma tl_singlepoint_loop fuel g a b nt cross :
  forall l1 l2 counter chosen_set acc,
    tape_local (singlepoint_loop fuel g a b nt cross l1 l2 counter chosen_set acc).
Proof. induction fuel as [|f IH]; intros l1 l2 counter chosen_set acc; cbn [singlepoint_loop]; tl_auto. Qed.
#[export] Hint Resolve tl_singlepoint_loop : tl.

Lemma tl_mate_singlepoint g og id : tape_local (mate_singlepoint g og id).
Proof. unfold mate_singlepoint. tl_auto. Qed.
#[export] Hint Resolve tl_mate_multipoint_gen tl_mate_multipoint tl_mate_multipoint_avg tl_mate_singlepoint : tl.

(* ---------- model/Population.v ---------- *)
Lemma tl_give_loop o sorted : forall block_index blocks acc, tape_local (give_loop o sorted block_index blocks acc).
Proof. induction sorted as [|id r IH]; intros block_index blocks acc; cbn [give_loop]; tl_auto. Qed.
#[export] Hint Resolve tl_give_loop : tl.

Lemma tl_give_babies o p sorted : tape_local (give_babies o p sorted).
Proof. unfold give_babies. tl_auto. Qed.
#[export] Hint Resolve tl_give_babies : tl.

Lemma tl_prepare o p : tape_local (prepare o p).
Proof. unfold prepare. tl_auto. Qed.
#[export] Hint Resolve tl_prepare : tl.

Lemma tl_mutate_baby o g : tape_local (mutate_baby o g).
Proof. unfold mutate_baby. tl_auto. Qed.
#[export] Hint Resolve tl_mutate_baby : tl.

Lemma tl_pick_other_species tries self sorted : forall cur, tape_local (pick_other_species tries self sorted cur).
Proof. induction tries as [|k IH]; intros cur; cbn [pick_other_species]; tl_auto. Qed.
#[export] Hint Resolve tl_pick_other_species : tl.

Lemma tl_one_baby o generation all_species sorted s count rs :
  tape_local (one_baby o generation all_species sorted s count rs).
Proof. unfold one_baby. tl_auto. Qed.
#[export] Hint Resolve tl_one_baby : tl.

Lemma tl_reproduce_loop n o generation all_species sorted s :
  forall count rs, tape_local (reproduce_loop n o generation all_species sorted s count rs).
Proof. induction n as [|k IH]; intros count rs; cbn [reproduce_loop]; tl_auto. Qed.
#[export] Hint Resolve tl_reproduce_loop : tl.

Lemma tl_reproduce_species o generation all_species sorted s h key :
  tape_local (reproduce_species o generation all_species sorted s h key).
Proof. unfold reproduce_species. tl_auto. Qed.
#[export] Hint Resolve tl_reproduce_species : tl.

Lemma tl_reproduce_all o generation all_species sorted best_id l :
  forall h key babies best_rep,
    tape_local (reproduce_all o generation all_species sorted best_id l h key babies best_rep).
Proof. induction l as [|s l IH]; intros h key babies best_rep; cbn [reproduce_all]; tl_auto. Qed.
#[export] Hint Resolve tl_reproduce_all : tl.

Lemma tl_reproduce o generation p sorted x : tape_local (reproduce o generation p sorted x).
Proof. unfold reproduce. tl_auto. Qed.
#[export] Hint Resolve tl_reproduce : tl.

(* finalizeReproduction ends with a raw state function: the record of innovations is forgotten,
   the tape is passed through *)
Lemma tl_finalize_tail {A} (c : bool) (v : A) :
  tape_local (fun s : st =>
                if c then GoErr 75
                else Ok (v, {| s_tape := s_tape s;
                               s_env := {| innovs := []; next_innov := next_innov (s_env s);
                                           next_node := next_node (s_env s) |} |})).
Proof.
  intros t e a t' e' H. destruct c; [discriminate|]. cbn [s_tape s_env] in H.
  injection H as <- <- <-. exists []. split; [reflexivity|]. intros u. reflexivity.
Qed.

Lemma tl_finalize p x : tape_local (finalize p x).
Proof. unfold finalize. tl_auto. apply tl_finalize_tail. Qed.
#[export] Hint Resolve tl_finalize : tl.

Lemma tl_next_epoch o generation p x : tape_local (next_epoch o generation p x).
Proof. unfold next_epoch. tl_auto. Qed.

Lemma tl_spawn_loop n g : forall count acc, tape_local (spawn_loop n g count acc).
Proof. induction n as [|k IH]; intros count acc; cbn [spawn_loop]; tl_auto. Qed.
#[export] Hint Resolve tl_spawn_loop : tl.

Lemma tl_new_population o g : tape_local (new_population o g).
Proof. unfold new_population. tl_auto. Qed.
#[export] Hint Resolve tl_next_epoch tl_new_population : tl.

(* ---------- whole histories ---------- *)
(* what a user of the library does: spawn a population, then, generation after generation, let the
   evaluator assign fitness values (here: a given list per generation, in Population.Organisms
   order) and turn the epoch over with the sequential executor.  The value is the list of all
   populations: the spawned one and the one after every epoch. *)
Fixpoint run_epochs (o : options) (generation : Z) (p : population) (x : executor)
         (fits : list (list float)) : @M st (list population) :=
  match fits with
  | [] => ret []
  | f :: rest =>
    let! h := lift (set_fitness (p_heap p) (p_orgs p) f) in
    let! r := next_epoch o generation (p_with_heap p h) x in
    let! ps := run_epochs o (generation + 1) (fst r) (snd r) rest in
    ret (fst r :: ps)
  end.

Definition history (o : options) (g : genome) (fits : list (list float)) : @M st (list population) :=
  let! p := new_population o g in
  let! ps := run_epochs o 0 p {| x_best_id := 0; x_best_reproduced := false |} fits in
  ret (p :: ps).

Lemma tl_run_epochs o fits : forall generation p x, tape_local (run_epochs o generation p x fits).
Proof. induction fits as [|f rest IH]; intros generation p x; cbn [run_epochs]; tl_auto. Qed.
#[export] Hint Resolve tl_run_epochs : tl.

Lemma tl_history o g fits : tape_local (history o g fits).
Proof. unfold history. tl_auto. Qed.

(* a longer history extends a shorter one: the populations of the first epochs do not depend on
   the fitness values assigned later *)
Lemma run_epochs_app o fits1 fits2 : forall generation p x s ps s',
    run_epochs o generation p x (fits1 ++ fits2) s = Ok (ps, s') ->
    exists s1, run_epochs o generation p x fits1 s = Ok (firstn (length fits1) ps, s1).
Proof.
  induction fits1 as [|f rest IH]; intros generation p x s ps s' H; cbn [app run_epochs length firstn] in *.
  - exists s. reflexivity.
  - apply bindM_ok in H. destruct H as [h [s1 [H1 H2]]].
    apply bindM_ok in H2. destruct H2 as [r [s2 [H3 H4]]].
    apply bindM_ok in H4. destruct H4 as [ps' [s3 [H5 H6]]].
    apply ret_ok in H6. destruct H6 as [<- <-].
    destruct (IH _ _ _ _ _ _ H5) as [s4 H7]. exists s4.
    unfold bindM at 1. rewrite H1. unfold bindM at 1. rewrite H3. unfold bindM at 1. rewrite H7.
    reflexivity.
Qed.

Lemma history_app o g fits1 fits2 s ps s' :
  history o g (fits1 ++ fits2) s = Ok (ps, s') ->
  exists s1, history o g fits1 s = Ok (firstn (S (length fits1)) ps, s1).
Proof.
  unfold history. intros H.
  apply bindM_ok in H. destruct H as [p [s1 [H1 H2]]].
  apply bindM_ok in H2. destruct H2 as [ps' [s2 [H3 H4]]].
  apply ret_ok in H4. destruct H4 as [<- <-].
  destruct (run_epochs_app _ _ _ _ _ _ _ _ _ H3) as [s3 H5]. exists s3.
  unfold bindM at 1. rewrite H1. unfold bindM at 1. rewrite H5. reflexivity.
Qed.

(* ---------- Go's seeded source: a longer tape of the same seed extends the shorter one ---------- *)
From NeatModel Require Import GoSource.
From Coq Require Import Uint63 PArray.

Lemma rev'_cons {A} (x : A) (l : list A) : rev' (x :: l) = rev' l ++ [x].
Proof. unfold rev'. rewrite <- !rev_alt. reflexivity. Qed.

Lemma draw_loop_acc n : forall vec tap feed acc,
    draw_loop n vec tap feed acc = rev' acc ++ draw_loop n vec tap feed [].
Proof.
  induction n as [|k IH]; intros vec tap feed acc; cbn [draw_loop].
  - unfold rev' at 2. cbn. now rewrite app_nil_r.
  - rewrite IH. rewrite (IH _ _ _ [_]). rewrite rev'_cons. rewrite <- app_assoc. reflexivity.
Qed.

Lemma draw_loop_prefix n m : forall vec tap feed acc,
    exists w, draw_loop (n + m) vec tap feed acc = draw_loop n vec tap feed acc ++ w.
Proof.
  induction n as [|k IH]; intros vec tap feed acc; cbn [Nat.add draw_loop].
  - exists (draw_loop m vec tap feed []). apply draw_loop_acc.
  - apply IH.
Qed.

Lemma go_tape_prefix seed n1 n2 : n1 <= n2 -> exists w, go_tape seed n2 = go_tape seed n1 ++ w.
Proof.
  intros Hle. unfold go_tape.
  replace (Z.to_nat n2) with (Z.to_nat n1 + (Z.to_nat n2 - Z.to_nat n1))%nat by lia.
  apply draw_loop_prefix.
Qed.

(* two runs from the same seed agree, however many raw draws were laid out beforehand *)
Lemma tape_local_extend {A} (m : @M st A) t w e a s1 :
  tape_local m ->
  m {| s_tape := t; s_env := e |} = Ok (a, s1) ->
  m {| s_tape := t ++ w; s_env := e |} = Ok (a, {| s_tape := s_tape s1 ++ w; s_env := s_env s1 |}).
Proof.
  intros Hm H. destruct s1 as [t1 e1]. destruct (Hm _ _ _ _ _ H) as [used [-> Hu]].
  rewrite <- app_assoc. apply Hu.
Qed.

Lemma go_tape_history_extend o g fits seed n1 n2 e ps s1 :
  n1 <= n2 ->
  history o g fits {| s_tape := go_tape seed n1; s_env := e |} = Ok (ps, s1) ->
  exists s2, history o g fits {| s_tape := go_tape seed n2; s_env := e |} = Ok (ps, s2) /\ s_env s2 = s_env s1.
Proof.
  intros Hle H. destruct (go_tape_prefix seed _ _ Hle) as [w ->].
  eexists. split; [apply (tape_local_extend _ _ w _ _ _ (tl_history o g fits) H)|]. reflexivity.
Qed.

Lemma go_tape_history_unique o g fits seed n1 n2 e ps1 s1 ps2 s2 :
  history o g fits {| s_tape := go_tape seed n1; s_env := e |} = Ok (ps1, s1) ->
  history o g fits {| s_tape := go_tape seed n2; s_env := e |} = Ok (ps2, s2) ->
  ps1 = ps2 /\ s_env s1 = s_env s2.
Proof.
  intros H1 H2. destruct (Z.le_ge_cases n1 n2) as [Hle|Hge].
  - destruct (go_tape_history_extend _ _ _ _ _ _ _ _ _ Hle H1) as [s3 [H3 E3]].
    rewrite H3 in H2. injection H2 as <- <-. now split.
  - destruct (go_tape_history_extend _ _ _ _ _ _ _ _ _ Hge H2) as [s3 [H3 E3]].
    rewrite H3 in H1. injection H1 as <- <-. now split.
Qed.

(* the predicate has teeth: a computation that looks at the length of the remaining tape is not
   tape-local (this is the primitive [pick_pair] uses for its fuel) *)
Lemma tape_len_not_local : ~ tape_local tape_len.
Proof.
  intros H.
  set (e := {| innovs := []; next_innov := 0; next_node := 0 |}).
  destruct (H [0] e 1%nat [0] e eq_refl) as [used [E Hu]].
  assert (used = []) as ->.
  { destruct used as [|x [|y used]]; [reflexivity|discriminate|].
    apply (f_equal (@List.length Z)) in E. cbn in E. rewrite app_length in E. cbn in E. lia. }
  specialize (Hu []). cbn in Hu. discriminate.
Qed.
