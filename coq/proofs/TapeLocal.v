(* C17: prefix determinism of the sequential model.

   Every model computation runs in the state monad over [st = {s_tape; s_env}].  [tape_local m]
   says: a successful run of [m] splits its tape into a consumed prefix and the untouched rest,
   and on ANY tape that starts with the same prefix (and the same innovation environment) the run
   gives the same value, the same final environment, and leaves exactly the new rest.  So the
   result is a function of the consumed prefix alone: nothing else about the tape (its length, what
   follows) can influence it.

   The predicate is closed under the monad operations; the raw derivations of Go's math/rand
   (base/GoRand.v) satisfy the corresponding statement on bare tapes; every monadic function of
   model/Mutate.v, Mate.v and Population.v up to [next_epoch] and [new_population] is built from
   those, so the proofs are by the closure tactic [tl_auto] (induction for the loops).  The one
   function that is NOT tape-local by construction is [Mutate.tape_len], which [pick_pair] uses as
   fuel for the redraw loop [pick_distinct]: there the proof goes through fuel irrelevance (every
   iteration consumes at least two cells, so any fuel at least as large as the consumed prefix
   gives the same result). *)
From NeatModel Require Import Res F64 GoRand Genome Options Insert Dup Mutate Mate Population MonadLemmas.
From Coq Require Import Lia.

(* ---------- the predicates ---------- *)
Definition raw_local {A} (f : tape -> res (A * tape)) : Prop :=
  forall t a t', f t = Ok (a, t') ->
    exists used, t = used ++ t' /\ forall u, f (used ++ u) = Ok (a, u).

Definition tape_local {A} (m : @M st A) : Prop :=
  forall t e a t' e',
    m {| s_tape := t; s_env := e |} = Ok (a, {| s_tape := t'; s_env := e' |}) ->
    exists used, t = used ++ t' /\
                 forall u, m {| s_tape := used ++ u; s_env := e |} = Ok (a, {| s_tape := u; s_env := e' |}).

(* ---------- closure under the monad ---------- *)
Lemma tl_ret {A} (a : A) : tape_local (ret a).
Proof.
  intros t e b t' e' H. unfold ret in H. injection H as <- <- <-.
  exists []. split; [reflexivity|]. intros u. reflexivity.
Qed.

Lemma tl_lift {A} (r : res A) : tape_local (lift r).
Proof.
  intros t e b t' e' H. unfold lift in *. destruct r; cbn [bind] in *; try discriminate.
  injection H as <- <- <-. exists []. split; [reflexivity|]. intros u. reflexivity.
Qed.

Lemma tl_fail_err {A} c : tape_local (@fail_err st A c).
Proof. intros t e b t' e' H. discriminate. Qed.

Lemma tl_fail_panic {A} c : tape_local (@fail_panic st A c).
Proof. intros t e b t' e' H. discriminate. Qed.

Lemma tl_out_of_tape {A} : tape_local (fun _ : st => @OutOfTape (A * st)).
Proof. intros t e b t' e' H. discriminate. Qed.

Lemma tl_out_of_fuel {A} : tape_local (fun _ : st => @OutOfFuel (A * st)).
Proof. intros t e b t' e' H. discriminate. Qed.

Lemma tl_bind {A B} (m : @M st A) (f : A -> @M st B) :
  tape_local m -> (forall a, tape_local (f a)) -> tape_local (bindM m f).
Proof.
  intros Hm Hf t e b t' e' H.
  apply bindM_ok in H. destruct H as [a [[t1 e1] [H1 H2]]].
  destruct (Hm _ _ _ _ _ H1) as [u1 [-> Hu1]].
  destruct (Hf a _ _ _ _ _ H2) as [u2 [-> Hu2]].
  exists (u1 ++ u2). split; [now rewrite app_assoc|].
  intros u. unfold bindM. rewrite <- app_assoc, Hu1. apply Hu2.
Qed.

Lemma tl_on_tape {A} (f : tape -> res (A * tape)) : raw_local f -> tape_local (on_tape f).
Proof.
  intros Hf t e a t' e' H. apply on_tape_ok in H. cbn [s_tape s_env] in H.
  destruct H as [t1 [H1 H2]]. injection H2 as <- <-.
  destruct (Hf _ _ _ H1) as [used [-> Hu]]. exists used. split; [reflexivity|].
  intros u. unfold on_tape. cbn [s_tape s_env]. now rewrite Hu.
Qed.

(* the environment primitives do not touch the tape *)
Lemma tl_e_next_innov : tape_local e_next_innov.
Proof.
  intros t e a t' e' H. unfold e_next_innov in H. cbn in H. injection H as <- <- <-.
  exists []. split; [reflexivity|]. intros u. reflexivity.
Qed.
Lemma tl_e_next_node : tape_local e_next_node.
Proof.
  intros t e a t' e' H. unfold e_next_node in H. cbn in H. injection H as <- <- <-.
  exists []. split; [reflexivity|]. intros u. reflexivity.
Qed.
Lemma tl_e_store i : tape_local (e_store i).
Proof.
  intros t e a t' e' H. unfold e_store in H. cbn in H. injection H as <- <- <-.
  exists []. split; [reflexivity|]. intros u. reflexivity.
Qed.
Lemma tl_e_innovs : tape_local e_innovs.
Proof.
  intros t e a t' e' H. unfold e_innovs in H. cbn in H. injection H as <- <- <-.
  exists []. split; [reflexivity|]. intros u. reflexivity.
Qed.
Lemma tl_e_set_counters ni nn : tape_local (e_set_counters ni nn).
Proof.
  intros t e a t' e' H. unfold e_set_counters in H. cbn in H. injection H as <- <- <-.
  exists []. split; [reflexivity|]. intros u. reflexivity.
Qed.

(* ---------- Go's derivations on a bare tape ---------- *)
Lemma rl_float64 : raw_local tape_float64.
Proof.
  intros t. induction t as [|x t IH]; intros a t' H; cbn [tape_float64] in H; [discriminate|].
  destruct (PrimFloat.eqb (PrimFloat.div (f_of_Z x) two63) 1) eqn:E.
  - destruct (IH _ _ H) as [used [-> Hu]]. exists (x :: used). split; [reflexivity|].
    intros u. cbn [app tape_float64]. rewrite E. apply Hu.
  - injection H as <- <-. exists [x]. split; [reflexivity|].
    intros u. cbn [app tape_float64]. rewrite E. reflexivity.
Qed.

Lemma rl_float32 : raw_local tape_float32.
Proof.
  intros t. induction t as [|x t IH]; intros a t' H; cbn [tape_float32] in H; [discriminate|].
  destruct (PrimFloat.eqb (PrimFloat.div (f_of_Z x) two63) 1) eqn:E.
  - destruct (IH _ _ H) as [used [-> Hu]]. exists (x :: used). split; [reflexivity|].
    intros u. cbn [app tape_float32]. rewrite E. apply Hu.
  - destruct (PrimFloat.eqb (round32 (PrimFloat.div (f_of_Z x) two63)) 1) eqn:E2.
    + destruct (IH _ _ H) as [used [-> Hu]]. exists (x :: used). split; [reflexivity|].
      intros u. cbn [app tape_float32]. rewrite E, E2. apply Hu.
    + injection H as <- <-. exists [x]. split; [reflexivity|].
      intros u. cbn [app tape_float32]. rewrite E, E2. reflexivity.
Qed.

Lemma rl_int31n_rej n mx : raw_local (tape_int31n_rej n mx).
Proof.
  intros t. induction t as [|x t IH]; intros a t' H; cbn [tape_int31n_rej] in H; [discriminate|].
  destruct (Z.gtb (int31_of x) mx) eqn:E.
  - destruct (IH _ _ H) as [used [-> Hu]]. exists (x :: used). split; [reflexivity|].
    intros u. cbn [app tape_int31n_rej]. rewrite E. apply Hu.
  - injection H as <- <-. exists [x]. split; [reflexivity|].
    intros u. cbn [app tape_int31n_rej]. rewrite E. reflexivity.
Qed.

Lemma rl_int31n n : raw_local (tape_int31n n).
Proof.
  intros t a t' H. unfold tape_int31n in *.
  destruct (Z.eqb (Z.land n (n - 1)) 0).
  - destruct t as [|x t]; [discriminate|]. injection H as <- <-.
    exists [x]. split; [reflexivity|]. intros u. reflexivity.
  - apply rl_int31n_rej in H. exact H.
Qed.

Lemma rl_intn n : raw_local (tape_intn n).
Proof.
  intros t a t' H. unfold tape_intn in *. destruct (Z.leb n 0); [discriminate|].
  apply rl_int31n in H. exact H.
Qed.

Lemma rl_randsign : raw_local tape_randsign.
Proof.
  intros t a t' H. unfold tape_randsign in *. destruct t as [|x t]; [discriminate|].
  injection H as <- <-. exists [x]. split; [reflexivity|]. intros u. reflexivity.
Qed.

Lemma rl_roulette probs : raw_local (tape_roulette probs).
Proof.
  intros t a t' H. unfold tape_roulette in *.
  destruct (tape_float64 t) as [[f t1]| | | | |] eqn:E; cbn [bind] in H; try discriminate.
  injection H as <- <-. destruct (rl_float64 _ _ _ E) as [used [-> Hu]].
  exists used. split; [reflexivity|]. intros u. rewrite Hu. reflexivity.
Qed.

Lemma rl_random_activation o : raw_local (tape_random_activation o).
Proof.
  intros t a t' H. unfold tape_random_activation in *.
  destruct (o_activators o) as [|a0 [|a1 acts]]; [discriminate| |].
  - injection H as <- <-. exists []. split; [reflexivity|]. intros u. reflexivity.
  - destruct (negb _); [discriminate|].
    destruct (tape_roulette (o_activator_probs o) t) as [[i t1]| | | | |] eqn:E; cbn [bind] in H; try discriminate.
    destruct (rl_roulette _ _ _ _ E) as [used [-> Hu]].
    destruct (_ || _) eqn:E2; [discriminate|]. injection H as <- <-.
    exists used. split; [reflexivity|]. intros u. rewrite Hu. cbn [bind]. rewrite E2. reflexivity.
Qed.

Lemma tl_r_float64 : tape_local r_float64.
Proof. apply tl_on_tape, rl_float64. Qed.
Lemma tl_r_float32 : tape_local r_float32.
Proof. apply tl_on_tape, rl_float32. Qed.
Lemma tl_r_intn n : tape_local (r_intn n).
Proof. apply tl_on_tape, rl_intn. Qed.
Lemma tl_r_randsign : tape_local r_randsign.
Proof. apply tl_on_tape, rl_randsign. Qed.
Lemma tl_random_activation o : tape_local (on_tape (tape_random_activation o)).
Proof. apply tl_on_tape, rl_random_activation. Qed.
Lemma tl_r_int31n n : tape_local (r_int31n n).
Proof. unfold r_int31n. destruct (Z.leb n 0); [apply tl_fail_panic | apply tl_on_tape, rl_int31n]. Qed.

Create HintDb tl.
#[export] Hint Resolve tl_ret tl_lift tl_fail_err tl_fail_panic tl_out_of_tape tl_out_of_fuel
  tl_e_next_innov tl_e_next_node tl_e_store tl_e_innovs tl_e_set_counters
  tl_r_float64 tl_r_float32 tl_r_intn tl_r_randsign tl_random_activation tl_r_int31n : tl.

(* ---------- the closure tactic ---------- *)
(* one step: split a bind, or case-split on the scrutinee of an if / match / destructuring let *)
Ltac tl_step :=
  lazymatch goal with
  | |- forall _, _ => intro
  | |- tape_local (bindM _ _) => apply tl_bind; [ | intro; cbv beta ]
  | |- tape_local (let _ := _ in _) => cbv zeta
  | |- tape_local (match ?x with _ => _ end) => destruct x
  | |- tape_local ((fun _ => _) _) => cbv beta
  end.
Ltac tl_auto := repeat first [ solve [ eauto 3 with tl ] | tl_step ].

(* ---------- generic loops ---------- *)
Lemma tl_mapM {A B} (f : A -> @M st B) (l : list A) :
  (forall x, tape_local (f x)) -> tape_local (mapM f l).
Proof. intros Hf. induction l as [|x l IH]; cbn [mapM]; tl_auto. Qed.

Lemma tl_foldM {A B} (f : B -> A -> @M st B) (l : list A) :
  (forall b x, tape_local (f b x)) -> forall b, tape_local (foldM f l b).
Proof. intros Hf. induction l as [|x l IH]; intros b; cbn [foldM]; tl_auto. Qed.
#[export] Hint Resolve tl_mapM tl_foldM : tl.

(* ---------- model/Mutate.v ---------- *)
Lemma tl_mutate_param power prob p : tape_local (mutate_param power prob p).
Proof. unfold mutate_param. tl_auto. Qed.
#[export] Hint Resolve tl_mutate_param : tl.

Lemma tl_trait_mutate power prob t : tape_local (trait_mutate power prob t).
Proof. unfold trait_mutate. tl_auto. Qed.
#[export] Hint Resolve tl_trait_mutate : tl.

Lemma tl_mutate_random_trait o g : tape_local (mutate_random_trait o g).
Proof. unfold mutate_random_trait. tl_auto. Qed.

Lemma tl_mutate_link_trait_loop times : forall g, tape_local (mutate_link_trait_loop times g).
Proof. induction times as [|n IH]; intros g; cbn [mutate_link_trait_loop]; tl_auto. Qed.
#[export] Hint Resolve tl_mutate_link_trait_loop : tl.
Lemma tl_mutate_link_trait times g : tape_local (mutate_link_trait times g).
Proof. unfold mutate_link_trait. tl_auto. Qed.

Lemma tl_mutate_node_trait_loop times : forall g, tape_local (mutate_node_trait_loop times g).
Proof. induction times as [|n IH]; intros g; cbn [mutate_node_trait_loop]; tl_auto. Qed.
#[export] Hint Resolve tl_mutate_node_trait_loop : tl.
Lemma tl_mutate_node_trait times g : tape_local (mutate_node_trait times g).
Proof. unfold mutate_node_trait. tl_auto. Qed.

Lemma tl_mutate_one_weight power rate gaussian severe count end_part num x :
  tape_local (mutate_one_weight power rate gaussian severe count end_part num x).
Proof. unfold mutate_one_weight. tl_auto. Qed.
#[export] Hint Resolve tl_mutate_one_weight : tl.

Lemma tl_mutate_weights_loop power rate gaussian severe count end_part l :
  forall num, tape_local (mutate_weights_loop power rate gaussian severe count end_part num l).
Proof. induction l as [|x l IH]; intros num; cbn [mutate_weights_loop]; tl_auto. Qed.
#[export] Hint Resolve tl_mutate_weights_loop : tl.

Lemma tl_mutate_link_weights power rate gaussian g : tape_local (mutate_link_weights power rate gaussian g).
Proof. unfold mutate_link_weights. tl_auto. Qed.

Lemma tl_toggle_loop times : forall g, tape_local (toggle_loop times g).
Proof. induction times as [|n IH]; intros g; cbn [toggle_loop]; tl_auto. Qed.
#[export] Hint Resolve tl_toggle_loop : tl.
Lemma tl_mutate_toggle_enable times g : tape_local (mutate_toggle_enable times g).
Proof. unfold mutate_toggle_enable. tl_auto. Qed.

Lemma tl_mutate_gene_reenable g : tape_local (mutate_gene_reenable g).
Proof. unfold mutate_gene_reenable. tl_auto. Qed.
#[export] Hint Resolve tl_mutate_random_trait tl_mutate_link_trait tl_mutate_node_trait tl_mutate_link_weights
  tl_mutate_toggle_enable tl_mutate_gene_reenable : tl.

Lemma tl_step_if p op gb : (forall g, tape_local (op g)) -> tape_local (step_if p op gb).
Proof. intros Hop. unfold step_if. tl_auto. Qed.
#[export] Hint Resolve tl_step_if : tl.

Lemma tl_mutate_all_nonstructural o g : tape_local (mutate_all_nonstructural o g).
Proof. unfold mutate_all_nonstructural. tl_auto. Qed.
#[export] Hint Resolve tl_mutate_all_nonstructural : tl.

Lemma tl_connect_one sensor acc out : tape_local (connect_one sensor acc out).
Proof. unfold connect_one. tl_auto. Qed.
#[export] Hint Resolve tl_connect_one : tl.

Lemma tl_mutate_connect_sensors g : tape_local (mutate_connect_sensors g).
Proof. unfold mutate_connect_sensors. tl_auto. Qed.
#[export] Hint Resolve tl_mutate_connect_sensors : tl.
