(* C18, module activations at float level: multiply is the left-to-right product, and for finite
   inputs max / min return an element of the (non-empty) input that bounds all its elements. *)
From Coq Require Import ZArith Reals Lra Lia Bool List.
From Flocq Require Import Core BinarySingleNaN.
From Coq Require Import Floats.
From NeatModel Require Import Res F64 ActRegistry Act ActReal ActFloatBase ActFloat ActLibm.
Import ListNotations.
Open Scope R_scope.

(* ---------- multiply ---------- *)
Lemma multiplyModule_fold : forall l, multiplyModule l = [fold_left PrimFloat.mul l 1%float].
Proof. reflexivity. Qed.

(* 1.0 * x = x, bit for bit, so the running product of a non-empty vector starts from its first entry *)
Lemma one_mul : forall x, (1 * x)%float = x.
Proof.
  intros x. apply FP.Prim2B_inj. rewrite FP.mul_equiv.
  pose proof (Bmult_correct prec emax _ _ mode_NE (FP.Prim2B 1%float) (FP.Prim2B x)) as H.
  fold (FR 1%float) in H. rewrite FR_one in H.
  destruct (FP.Prim2B x) as [s|s| |s m e Hb] eqn:E.
  - destruct s; vm_compute; reflexivity.
  - destruct s; vm_compute; reflexivity.
  - vm_compute. reflexivity.
  - rewrite Rmult_1_l in H. simpl round_mode in H.
    assert (G : round radix2 fexp64 ZnearestE (B2R (B754_finite s m e Hb)) = B2R (B754_finite s m e Hb)).
    { apply round_generic; auto with typeclass_instances. apply generic_format_B2R. }
    rewrite G in H. rewrite Rlt_bool_true in H by apply abs_B2R_lt_emax.
    destruct H as (H1 & H2 & H3).
    assert (F1 : BinarySingleNaN.is_finite (FP.Prim2B 1%float) = true) by (apply fin_B; apply fin_one).
    rewrite F1 in H2. simpl in H2.
    apply B2R_Bsign_inj; try assumption; try reflexivity.
    rewrite H3.
    + assert (S1 : Bsign (FP.Prim2B 1%float) = false).
      { rewrite <- FP.get_sign_equiv. vm_compute. reflexivity. }
      rewrite S1. destruct (Bsign (B754_finite s m e Hb)); reflexivity.
    + destruct (Bmult mode_NE (FP.Prim2B 1%float) (B754_finite s m e Hb)); try discriminate; reflexivity.
Qed.

Lemma multiplyModule_nonempty : forall x l, multiplyModule (x :: l) = [fold_left PrimFloat.mul l x].
Proof. intros x l. unfold multiplyModule. simpl. now rewrite one_mul. Qed.

(* ---------- go_max / go_min on finite arguments ---------- *)
Lemma fin_not_pinf : forall x, fin x -> f_is_pinf x = false.
Proof.
  intros x H. apply fin_B in H. unfold f_is_pinf. rewrite <- FP.B2SF_Prim2B.
  destruct (FP.Prim2B x); try discriminate; reflexivity.
Qed.
Lemma fin_not_ninf : forall x, fin x -> f_is_ninf x = false.
Proof.
  intros x H. apply fin_B in H. unfold f_is_ninf. rewrite <- FP.B2SF_Prim2B.
  destruct (FP.Prim2B x); try discriminate; reflexivity.
Qed.

Lemma go_max_fin : forall x y, fin x -> fin y ->
    (go_max x y = x \/ go_max x y = y) /\ FR x <= FR (go_max x y) /\ FR y <= FR (go_max x y).
Proof.
  intros x y Hx Hy. unfold go_max.
  rewrite (fin_not_pinf x Hx), (fin_not_pinf y Hy), (fin_not_nan x Hx), (fin_not_nan y Hy). simpl.
  rewrite (eqb_R x 0%float Hx fin_zero), (eqb_R x y Hx Hy), (ltb_R y x Hy Hx), FR_zero.
  destruct (Req_bool_spec (FR x) 0) as [A|A]; simpl.
  - destruct (Req_bool_spec (FR x) (FR y)) as [B|B].
    + destruct (f_signbit x); (split; [tauto|lra]).
    + destruct (Rlt_bool_spec (FR y) (FR x)); (split; [tauto|lra]).
  - destruct (Rlt_bool_spec (FR y) (FR x)); (split; [tauto|lra]).
Qed.

Lemma go_min_fin : forall x y, fin x -> fin y ->
    (go_min x y = x \/ go_min x y = y) /\ FR (go_min x y) <= FR x /\ FR (go_min x y) <= FR y.
Proof.
  intros x y Hx Hy. unfold go_min.
  rewrite (fin_not_ninf x Hx), (fin_not_ninf y Hy), (fin_not_nan x Hx), (fin_not_nan y Hy). simpl.
  rewrite (eqb_R x 0%float Hx fin_zero), (eqb_R x y Hx Hy), (ltb_R x y Hx Hy), FR_zero.
  destruct (Req_bool_spec (FR x) 0) as [A|A]; simpl.
  - destruct (Req_bool_spec (FR x) (FR y)) as [B|B].
    + destruct (f_signbit x); (split; [tauto|lra]).
    + destruct (Rlt_bool_spec (FR x) (FR y)); (split; [tauto|lra]).
  - destruct (Rlt_bool_spec (FR x) (FR y)); (split; [tauto|lra]).
Qed.

(* the start values are neutral on finite floats *)
Lemma go_max_start : forall v, fin v -> go_max neg_infinity v = v.
Proof.
  intros v Hv. unfold go_max.
  rewrite (fin_not_pinf v Hv), (fin_not_nan v Hv).
  change (f_is_pinf neg_infinity) with false. change (is_nan neg_infinity) with false.
  change (neg_infinity =? 0)%float with false. simpl.
  assert (E : (v <? neg_infinity)%float = false).
  { rewrite FP.ltb_equiv, Prim2B_neg_infinity. apply fin_B in Hv.
    destruct (FP.Prim2B v) as [s|s| |s m e Hb]; try discriminate; try reflexivity. }
  now rewrite E.
Qed.

Lemma go_min_start : forall v, fin v -> go_min c_max_float64 v = v.
Proof.
  intros v Hv. unfold go_min.
  rewrite (fin_not_ninf v Hv), (fin_not_nan v Hv).
  change (f_is_ninf c_max_float64) with false. change (is_nan c_max_float64) with false.
  change (c_max_float64 =? 0)%float with false. simpl.
  rewrite (ltb_R c_max_float64 v fin_c_max Hv).
  rewrite Rlt_bool_false; [reflexivity|].
  pose proof (FR_le_max v) as M. apply Rabs_le_inv in M. lra.
Qed.

(* folding a selection operator that returns one of its arguments and bounds both *)
Section Extremum.
Variable op : float -> float -> float.
Variable le : R -> R -> Prop.
Hypothesis le_refl : forall a, le a a.
Hypothesis le_trans : forall a b c, le a b -> le b c -> le a c.
Hypothesis op_fin : forall x y, fin x -> fin y ->
    (op x y = x \/ op x y = y) /\ le (FR x) (FR (op x y)) /\ le (FR y) (FR (op x y)).

Lemma fold_extremum : forall l acc, fin acc -> (forall v, In v l -> fin v) ->
    let r := fold_left op l acc in
    fin r /\ (r = acc \/ In r l) /\ le (FR acc) (FR r) /\ (forall v, In v l -> le (FR v) (FR r)).
Proof.
  induction l as [|x l IH]; intros acc Ha Hl; simpl.
  - repeat split; auto. intros v [].
  - assert (Hx : fin x) by (apply Hl; now left).
    destruct (op_fin acc x Ha Hx) as (Sel & B1 & B2).
    assert (Ho : fin (op acc x)) by (destruct Sel as [-> | ->]; assumption).
    destruct (IH (op acc x) Ho) as (Fr & Mem & Bacc & Ball).
    { intros v Hv. apply Hl. now right. }
    split; [exact Fr|]. split; [|split].
    + destruct Mem as [Mem|Mem]; [|right; now right].
      rewrite Mem. destruct Sel as [-> | ->]; [now left|right; now left].
    + eapply le_trans; eauto.
    + intros v [<-|Hv]; [eapply le_trans; eauto|now apply Ball].
Qed.
End Extremum.

Lemma maxModule_spec : forall x l, (forall v, In v (x :: l) -> fin v) ->
    exists r, maxModule (x :: l) = [r] /\ In r (x :: l) /\ forall v, In v (x :: l) -> (v <=? r)%float = true.
Proof.
  intros x l H. assert (Hx : fin x) by (apply H; now left).
  unfold maxModule. simpl fold_left. rewrite (go_max_start x Hx).
  destruct (fold_extremum go_max Rle Rle_refl Rle_trans go_max_fin l x Hx) as (Fr & Mem & Bacc & Ball).
  { intros v Hv. apply H. now right. }
  exists (fold_left go_max l x). split; [reflexivity|]. split.
  - destruct Mem as [Mem | Mem]; [left; now rewrite Mem|now right].
  - intros v [<-|Hv]; apply leb_of_R; auto. apply H. now right.
Qed.

Lemma minModule_spec : forall x l, (forall v, In v (x :: l) -> fin v) ->
    exists r, minModule (x :: l) = [r] /\ In r (x :: l) /\ forall v, In v (x :: l) -> (r <=? v)%float = true.
Proof.
  intros x l H. assert (Hx : fin x) by (apply H; now left).
  unfold minModule. simpl fold_left. rewrite (go_min_start x Hx).
  destruct (fold_extremum go_min (fun a b => b <= a)) with (l := l) (acc := x) as (Fr & Mem & Bacc & Ball).
  { intros. lra. }
  { intros. lra. }
  { intros a b Ha Hb. destruct (go_min_fin a b Ha Hb) as (S & B1 & B2). tauto. }
  { exact Hx. }
  { intros v Hv. apply H. now right. }
  exists (fold_left go_min l x). split; [reflexivity|]. split.
  - destruct Mem as [Mem | Mem]; [left; now rewrite Mem|now right].
  - intros v [<-|Hv]; apply leb_of_R; auto. apply H. now right.
Qed.

(* outside the property's domain (recorded, not claimed): the minimum of [+Inf] is MaxFloat64 *)
Example minModule_of_infinity : minModule [infinity] = [c_max_float64].
Proof. vm_compute. reflexivity. Qed.
(* the repaired start value of max: values below MinInt64 are returned *)
Example maxModule_below_minint64 : maxModule [(-0x1.158e460913dp+63)%float] = [(-0x1.158e460913dp+63)%float].
Proof. vm_compute. reflexivity. Qed.
