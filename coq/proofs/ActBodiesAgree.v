(* C18: the hand-written model functions of model/Act.v ARE the bodies of neat/math/activations.go.

   gen/ActBodies.v is regenerated on every run by `neatverif translate actbodies`: it follows each
   Register/RegisterModule call to the declaration of the registered Go function and translates its body,
   construct by construct, into a Gallina term over primitive floats ([gen_<GoName>]), with the calls of
   math.Exp/Tanh/Sin/Pow answered by the same oracle [L] that [Act.run] uses.
   This file is checked in.  It proves, one lemma per function so that a failure names the function,
   that the generated body and the model function are the same function -- by conversion ([reflexivity]):
   same operations, same order, same constants (the generated ones are the exact binary64 values of the
   source's decimal literals), same branches.  An edit of a body in the source changes the generated term,
   the lemma for that function stops type-checking and `./check C18` reports the broken obligation. *)
From Coq Require Import ZArith List Bool Floats.
From NeatModel Require Import Res F64 ActRegistry Act ActBodies ActRegistrySpec.
Import ListNotations.
Open Scope Z_scope.

(* ---- scalar activations: generated body = model computation run with the same library oracle ---- *)
Lemma agree_plainSigmoid : forall (L : libm_fn -> float -> float -> float) (x : float),
    gen_plainSigmoid L x = run L (plainSigmoid x).
Proof. intros L x. reflexivity. Qed.
Lemma agree_reducedSigmoid : forall (L : libm_fn -> float -> float -> float) (x : float),
    gen_reducedSigmoid L x = run L (reducedSigmoid x).
Proof. intros L x. reflexivity. Qed.
Lemma agree_bipolarSigmoid : forall (L : libm_fn -> float -> float -> float) (x : float),
    gen_bipolarSigmoid L x = run L (bipolarSigmoid x).
Proof. intros L x. reflexivity. Qed.
Lemma agree_steepenedSigmoid : forall (L : libm_fn -> float -> float -> float) (x : float),
    gen_steepenedSigmoid L x = run L (steepenedSigmoid x).
Proof. intros L x. reflexivity. Qed.
Lemma agree_approximationSigmoid : forall (L : libm_fn -> float -> float -> float) (x : float),
    gen_approximationSigmoid L x = run L (approximationSigmoid x).
Proof. intros L x. reflexivity. Qed.
Lemma agree_approximationSteepenedSigmoid : forall (L : libm_fn -> float -> float -> float) (x : float),
    gen_approximationSteepenedSigmoid L x = run L (approximationSteepenedSigmoid x).
Proof. intros L x. reflexivity. Qed.
Lemma agree_inverseAbsoluteSigmoid : forall (L : libm_fn -> float -> float -> float) (x : float),
    gen_inverseAbsoluteSigmoid L x = run L (inverseAbsoluteSigmoid x).
Proof. intros L x. reflexivity. Qed.
Lemma agree_leftShiftedSigmoid : forall (L : libm_fn -> float -> float -> float) (x : float),
    gen_leftShiftedSigmoid L x = run L (leftShiftedSigmoid x).
Proof. intros L x. reflexivity. Qed.
Lemma agree_leftShiftedSteepenedSigmoid : forall (L : libm_fn -> float -> float -> float) (x : float),
    gen_leftShiftedSteepenedSigmoid L x = run L (leftShiftedSteepenedSigmoid x).
Proof. intros L x. reflexivity. Qed.
Lemma agree_rightShiftedSteepenedSigmoid : forall (L : libm_fn -> float -> float -> float) (x : float),
    gen_rightShiftedSteepenedSigmoid L x = run L (rightShiftedSteepenedSigmoid x).
Proof. intros L x. reflexivity. Qed.
Lemma agree_hyperbolicTangent : forall (L : libm_fn -> float -> float -> float) (x : float),
    gen_hyperbolicTangent L x = run L (hyperbolicTangent x).
Proof. intros L x. reflexivity. Qed.
Lemma agree_bipolarGaussian : forall (L : libm_fn -> float -> float -> float) (x : float),
    gen_bipolarGaussian L x = run L (bipolarGaussian x).
Proof. intros L x. reflexivity. Qed.
Lemma agree_gaussian : forall (L : libm_fn -> float -> float -> float) (x : float),
    gen_gaussian L x = run L (gaussian x).
Proof. intros L x. reflexivity. Qed.
Lemma agree_linear : forall (L : libm_fn -> float -> float -> float) (x : float),
    gen_linear L x = run L (linear x).
Proof. intros L x. reflexivity. Qed.
Lemma agree_absoluteLinear : forall (L : libm_fn -> float -> float -> float) (x : float),
    gen_absoluteLinear L x = run L (absoluteLinear x).
Proof. intros L x. reflexivity. Qed.
Lemma agree_clippedLinear : forall (L : libm_fn -> float -> float -> float) (x : float),
    gen_clippedLinear L x = run L (clippedLinear x).
Proof. intros L x. reflexivity. Qed.
Lemma agree_nullFunctor : forall (L : libm_fn -> float -> float -> float) (x : float),
    gen_nullFunctor L x = run L (nullFunctor x).
Proof. intros L x. reflexivity. Qed.
Lemma agree_signFunction : forall (L : libm_fn -> float -> float -> float) (x : float),
    gen_signFunction L x = run L (signFunction x).
Proof. intros L x. reflexivity. Qed.
Lemma agree_sineFunction : forall (L : libm_fn -> float -> float -> float) (x : float),
    gen_sineFunction L x = run L (sineFunction x).
Proof. intros L x. reflexivity. Qed.
Lemma agree_stepFunction : forall (L : libm_fn -> float -> float -> float) (x : float),
    gen_stepFunction L x = run L (stepFunction x).
Proof. intros L x. reflexivity. Qed.

(* ---- module activations ---- *)
Lemma agree_multiplyModule : forall (L : libm_fn -> float -> float -> float) (xs : list float),
    gen_multiplyModule L xs = multiplyModule xs.
Proof. intros L xs. reflexivity. Qed.
Lemma agree_maxModule : forall (L : libm_fn -> float -> float -> float) (xs : list float),
    gen_maxModule L xs = maxModule xs.
Proof. intros L xs. reflexivity. Qed.
Lemma agree_minModule : forall (L : libm_fn -> float -> float -> float) (xs : list float),
    gen_minModule L xs = minModule xs.
Proof. intros L xs. reflexivity. Qed.

(* ---- all of them, by name ---- *)
Lemma scalar_bodies_agree : forall (L : libm_fn -> float -> float -> float) (x : float),
    gen_plainSigmoid L x = run L (plainSigmoid x) /\
    gen_reducedSigmoid L x = run L (reducedSigmoid x) /\
    gen_bipolarSigmoid L x = run L (bipolarSigmoid x) /\
    gen_steepenedSigmoid L x = run L (steepenedSigmoid x) /\
    gen_approximationSigmoid L x = run L (approximationSigmoid x) /\
    gen_approximationSteepenedSigmoid L x = run L (approximationSteepenedSigmoid x) /\
    gen_inverseAbsoluteSigmoid L x = run L (inverseAbsoluteSigmoid x) /\
    gen_leftShiftedSigmoid L x = run L (leftShiftedSigmoid x) /\
    gen_leftShiftedSteepenedSigmoid L x = run L (leftShiftedSteepenedSigmoid x) /\
    gen_rightShiftedSteepenedSigmoid L x = run L (rightShiftedSteepenedSigmoid x) /\
    gen_hyperbolicTangent L x = run L (hyperbolicTangent x) /\
    gen_bipolarGaussian L x = run L (bipolarGaussian x) /\
    gen_gaussian L x = run L (gaussian x) /\
    gen_linear L x = run L (linear x) /\
    gen_absoluteLinear L x = run L (absoluteLinear x) /\
    gen_clippedLinear L x = run L (clippedLinear x) /\
    gen_nullFunctor L x = run L (nullFunctor x) /\
    gen_signFunction L x = run L (signFunction x) /\
    gen_sineFunction L x = run L (sineFunction x) /\
    gen_stepFunction L x = run L (stepFunction x).
Proof.
  intros L x.
  exact
        (conj (agree_plainSigmoid L x)
        (conj (agree_reducedSigmoid L x)
        (conj (agree_bipolarSigmoid L x)
        (conj (agree_steepenedSigmoid L x)
        (conj (agree_approximationSigmoid L x)
        (conj (agree_approximationSteepenedSigmoid L x)
        (conj (agree_inverseAbsoluteSigmoid L x)
        (conj (agree_leftShiftedSigmoid L x)
        (conj (agree_leftShiftedSteepenedSigmoid L x)
        (conj (agree_rightShiftedSteepenedSigmoid L x)
        (conj (agree_hyperbolicTangent L x)
        (conj (agree_bipolarGaussian L x)
        (conj (agree_gaussian L x)
        (conj (agree_linear L x)
        (conj (agree_absoluteLinear L x)
        (conj (agree_clippedLinear L x)
        (conj (agree_nullFunctor L x)
        (conj (agree_signFunction L x)
        (conj (agree_sineFunction L x)
              (agree_stepFunction L x)))))))))))))))))))).
Qed.

Lemma module_bodies_agree : forall (L : libm_fn -> float -> float -> float) (xs : list float),
    gen_multiplyModule L xs = multiplyModule xs /\
    gen_maxModule L xs = maxModule xs /\
    gen_minModule L xs = minModule xs.
Proof.
  intros L xs.
  exact (conj (agree_multiplyModule L xs) (conj (agree_maxModule L xs) (agree_minModule L xs))).
Qed.

(* ---- by type code, through the factory built from the extracted Register calls ---- *)

(* the generated tables list exactly the registered codes, in registration order *)
Lemma gen_tables_cover_registry :
  map fst gen_scalar_table = map fst act_bindings /\
  map fst gen_module_table = map fst act_module_bindings.
Proof. split; reflexivity. Qed.

(* whatever the factory runs for a scalar code is the body translated for that code *)
Lemma scalar_table_agrees : forall (c : Z) (g : (libm_fn -> float -> float -> float) -> float -> float),
    In (c, g) gen_scalar_table ->
    exists f : float -> comp,
      (forall x, activate_by_type node_activators x c = Ok (f x)) /\
      (forall L x, g L x = run L (f x)).
Proof.
  intros c g H. unfold gen_scalar_table in H. simpl in H.
  repeat (destruct H as [H|H];
          [injection H as <- <-; eexists; split;
           [intros x; rewrite activate_by_type_spec; reflexivity | intros L x; reflexivity]|]).
  contradiction.
Qed.

Lemma module_table_agrees : forall (c : Z) (g : (libm_fn -> float -> float -> float) -> list float -> list float),
    In (c, g) gen_module_table ->
    forall L xs, activate_module_by_type node_activators xs c = Ok (g L xs).
Proof.
  intros c g H L xs. unfold gen_module_table in H. simpl in H.
  repeat (destruct H as [H|H];
          [injection H as <- <-; rewrite activate_module_by_type_spec; reflexivity|]).
  contradiction.
Qed.
