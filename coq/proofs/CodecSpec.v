(* C15, tree level: the YAML reader inverts the YAML writer through the library (for every re-typing
   function [il] of integer-looking floats), and Experiment.Decode inverts Experiment.Encode exactly when
   every generation has a champion. *)
From Coq Require Import String Lia.
From NeatModel Require Import Res F64 Genome Plain PlainSpec Tree.
Open Scope string_scope.
Open Scope list_scope.

(* ================= YAML ================= *)

Section Yaml.
Variable il : float -> option Z.
Variable reg : registry.
Hypothesis Hreg : reg_ok reg.

Lemma to_float_lib : forall f, to_float (yaml_lib il (VFloat f)) = Ok (lib_float il f).
Proof. intros f. unfold lib_float. simpl. destruct (il f); reflexivity. Qed.

Lemma fill_params_lib : forall ps slots, (length ps <= slots)%nat ->
  fill_params slots (map (yaml_lib il) (map VFloat ps)) =
  Ok (map (lib_float il) ps ++ repeat 0%float (slots - length ps)).
Proof.
  induction ps as [|p ps IH]; intros slots H.
  - cbn [map length app]. rewrite Nat.sub_0_r. destruct slots; reflexivity.
  - destruct slots as [|k]; [simpl in H; lia|].
    cbn [map fill_params]. rewrite to_float_lib. cbn [bind]. rewrite IH by (simpl in H; lia). reflexivity.
Qed.

Lemma yr_trait_lib : forall t, (length (t_params t) <= NUM_TRAIT_PARAMS)%nat ->
  yr_trait (yaml_lib il (y_trait t)) = Ok (ynorm_trait il t).
Proof.
  intros t H. unfold y_trait, yr_trait.
  cbn [yaml_lib map fst snd as_map bind lookup String.eqb Ascii.eqb Bool.eqb as_int].
  rewrite fill_params_lib by exact H. reflexivity.
Qed.

Lemma yr_traits_lib : forall ts acc,
  Forall (fun t => (length (t_params t) <= NUM_TRAIT_PARAMS)%nat) ts ->
  NoDup (filter nonzero (map t_id (acc ++ ts))) ->
  yr_traits acc (map (yaml_lib il) (map y_trait ts)) = Ok (acc ++ map (ynorm_trait il) ts).
Proof.
  induction ts as [|t ts IH]; intros acc Hlen Hnd.
  - simpl. now rewrite app_nil_r.
  - inversion Hlen as [|? ? H1 H2]; subst. cbn [map yr_traits]. rewrite yr_trait_lib by exact H1. cbn [bind].
    assert (Hfresh : trait_ref (t_id (ynorm_trait il t)) acc = None).
    { apply trait_ref_none. cbn [ynorm_trait t_id]. destruct (Z.eq_dec (t_id t) 0) as [Hz|Hz]; [now left|right].
      intros Hin. rewrite map_app, filter_app in Hnd. simpl in Hnd.
      assert (Hnz : nonzero (t_id t) = true) by (unfold nonzero; apply negb_true_iff; now apply Z.eqb_neq).
      rewrite Hnz in Hnd. apply NoDup_remove_2 in Hnd. apply Hnd. apply in_or_app. left.
      apply filter_In. split; assumption. }
    rewrite Hfresh. rewrite IH; [|exact H2|].
    + rewrite <- app_assoc. reflexivity.
    + assert (E : map t_id ((acc ++ [ynorm_trait il t]) ++ ts) = map t_id (acc ++ t :: ts)).
      { rewrite <- app_assoc, !map_app. reflexivity. }
      rewrite E. exact Hnd.
Qed.

Lemma ynorm_trait_ids : forall ts, map t_id (map (ynorm_trait il) ts) = map t_id ts.
Proof. induction ts as [|t ts IH]; simpl; [reflexivity|]. now rewrite IH. Qed.

Definition named_type (ty : Z) : Prop := ty = HIDDEN \/ ty = INPUT \/ ty = OUTPUT \/ ty = BIAS.

Lemma neuron_type_roundtrip : forall ty, named_type ty -> neuron_type_by_name (neuron_type_name ty) = Ok ty.
Proof. intros ty [ -> | [ -> | [ -> | -> ] ] ]; reflexivity. Qed.

Definition ynode_ok (n : node) : Prop := named_type (n_type n) /\ exists s, reg_name reg (n_act n) = Some s.

Lemma yr_node_lib : forall ts n t, ynode_ok n -> y_node reg n = Ok t ->
  yr_node reg ts (yaml_lib il t) =
  Ok {| n_id := n_id n; n_type := n_type n; n_act := n_act n; n_trait := trait_ref (oz_id (n_trait n)) ts |}.
Proof.
  intros ts n t [Hty [s Hs]] Ht. unfold y_node in Ht. rewrite Hs in Ht. injection Ht as <-.
  unfold yr_node. cbn [yaml_lib map fst snd as_map bind lookup String.eqb Ascii.eqb Bool.eqb as_int as_str].
  rewrite (neuron_type_roundtrip _ Hty). cbn [bind]. rewrite (Hreg _ _ Hs). reflexivity.
Qed.

Lemma yr_nodes_lib : forall ts ns nl acc,
  Forall ynode_ok ns -> map_res (y_node reg) ns = Ok nl -> NoDup (map n_id (acc ++ ns)) ->
  yr_nodes reg ts acc (map (yaml_lib il) nl) =
  Ok (acc ++ map (fun n => {| n_id := n_id n; n_type := n_type n; n_act := n_act n;
                              n_trait := trait_ref (oz_id (n_trait n)) ts |}) ns).
Proof.
  induction ns as [|n ns IH]; intros nl acc Hok Hw Hnd.
  - injection Hw as <-. simpl. now rewrite app_nil_r.
  - apply map_res_cons_inv in Hw. destruct Hw as (t & tl & Ht & Htl & E). subst nl.
    inversion Hok as [|? ? H1 H2]; subst. cbn [map yr_nodes]. rewrite (yr_node_lib ts n t H1 Ht). cbn [bind n_id].
    assert (Hfresh : have_id (n_id n) acc = false).
    { apply have_id_false. rewrite map_app in Hnd. simpl in Hnd. apply NoDup_remove_2 in Hnd.
      intros Hin. apply Hnd. apply in_or_app. now left. }
    rewrite Hfresh. rewrite (IH tl _ H2 Htl).
    + rewrite <- app_assoc. reflexivity.
    + rewrite <- app_assoc. rewrite map_app in *. exact Hnd.
Qed.

Lemma yr_gene_lib : forall ts ns x,
  yr_gene ts ns (yaml_lib il (y_gene x)) =
  Ok {| rg_in := node_ref (g_in x) ns; rg_out := node_ref (g_out x) ns; rg_rec := g_rec x; rg_w := lib_float il (g_w x);
        rg_trait := trait_ref (oz_id (g_trait x)) ts; rg_innov := g_innov x; rg_mut := lib_float il (g_mut x);
        rg_en := g_en x |}.
Proof.
  intros ts ns x. unfold y_gene, yr_gene.
  cbn [yaml_lib map fst snd as_map bind lookup String.eqb Ascii.eqb Bool.eqb as_int to_int to_bool].
  change (match il (g_w x) with Some z => VInt z | None => VFloat (g_w x) end) with (yaml_lib il (VFloat (g_w x))).
  change (match il (g_mut x) with Some z => VInt z | None => VFloat (g_mut x) end) with (yaml_lib il (VFloat (g_mut x))).
  rewrite !to_float_lib. cbn [bind]. now rewrite !last_node_ref_spec.
Qed.

Lemma yr_genes_lib : forall ts ns xs,
  yr_genes ts ns (map (yaml_lib il) (map y_gene xs)) =
  Ok (map (fun x => {| rg_in := node_ref (g_in x) ns; rg_out := node_ref (g_out x) ns; rg_rec := g_rec x;
                       rg_w := lib_float il (g_w x); rg_trait := trait_ref (oz_id (g_trait x)) ts;
                       rg_innov := g_innov x; rg_mut := lib_float il (g_mut x); rg_en := g_en x |}) xs).
Proof.
  induction xs as [|x xs IH]; [reflexivity|]. cbn [map yr_genes]. rewrite yr_gene_lib. cbn [bind].
  rewrite IH. reflexivity.
Qed.

(* module links: every id is non-zero and names a node *)
Definition link_ok (ns : list node) (p : Z * float) : Prop := In (fst p) (map n_id ns).

Lemma node_with_id_some : forall id ns, In id (map n_id ns) -> exists nd, node_with_id id ns = Some nd /\ n_id nd = id.
Proof.
  induction ns as [|n ns IH]; simpl; intros H; [contradiction|].
  destruct (Z.eqb (n_id n) id) eqn:E.
  - apply Z.eqb_eq in E. eauto.
  - apply Z.eqb_neq in E. destruct H as [H|H]; [contradiction|]. now apply IH.
Qed.

Lemma yr_links_lib : forall ns l i, Forall (link_ok ns) l ->
  yr_links ns (map (yaml_lib il) (y_links i l)) = Ok (map (fun p => (fst p, 1%float)) l).
Proof.
  induction l as [|[id w] l IH]; intros i H; [reflexivity|].
  inversion H as [|? ? Hin H2]; subst. unfold link_ok in Hin. simpl in Hin.
  cbn [y_links map yaml_lib fst snd yr_links as_map bind lookup String.eqb Ascii.eqb Bool.eqb to_int].
  unfold node_with_id_nz.
  destruct (node_with_id_some id ns Hin) as (nd & -> & Hid). rewrite IH by exact H2. cbn [bind]. now rewrite Hid.
Qed.

Definition ymodule_ok (ns : list node) (m : mimo) : Prop :=
  (exists s, reg_name reg (n_act (m_node m)) = Some s) /\
  Forall (link_ok ns) (m_ins m) /\ Forall (link_ok ns) (m_outs m) /\ ~ In (n_id (m_node m)) (map n_id ns).

Lemma yr_module_lib : forall ts ns m t, ymodule_ok ns m -> y_module reg m = Ok t ->
  yr_module reg ts ns (yaml_lib il t) = Ok (ynorm_module il ts m).
Proof.
  intros ts ns m t ([s Hs] & Hin & Hout & _) Ht. unfold y_module in Ht. rewrite Hs in Ht. injection Ht as <-.
  unfold yr_module.
  cbn [yaml_lib map fst snd as_map bind lookup String.eqb Ascii.eqb Bool.eqb as_int as_str to_int to_bool to_slice].
  rewrite (Hreg _ _ Hs).
  change (match il (m_mut m) with Some z => VInt z | None => VFloat (m_mut m) end) with (yaml_lib il (VFloat (m_mut m))).
  rewrite to_float_lib. cbn [bind]. rewrite !yr_links_lib by assumption. reflexivity.
Qed.

Lemma yr_modules_lib : forall ts ns ms ml,
  Forall (ymodule_ok ns) ms -> map_res (y_module reg) ms = Ok ml ->
  yr_modules reg ts ns (map (yaml_lib il) ml) = Ok (map (ynorm_module il ts) ms).
Proof.
  induction ms as [|m ms IH]; intros ml Hok Hw.
  - injection Hw as <-. reflexivity.
  - apply map_res_cons_inv in Hw. destruct Hw as (t & tl & Ht & Htl & E). subst ml.
    inversion Hok as [|? ? H1 H2]; subst. cbn [map yr_modules]. rewrite (yr_module_lib ts ns m t H1 Ht). cbn [bind].
    destruct H1 as (_ & _ & _ & Hfresh). apply have_id_false in Hfresh.
    cbn [ynorm_module m_node n_id]. rewrite Hfresh, (IH tl H2 Htl). reflexivity.
Qed.

Record yaml_ok (g : genome) : Prop := {
  yo_params : Forall (fun t => (length (t_params t) <= NUM_TRAIT_PARAMS)%nat) (traits g);
  yo_traits : NoDup (filter nonzero (map t_id (traits g)));
  yo_node_ids : NoDup (map n_id (nodes g));
  yo_nodes : Forall ynode_ok (nodes g);
  yo_modules : Forall (ymodule_ok (nodes g)) (modules g)
}.

Lemma y_nodes_ok : forall ns, Forall ynode_ok ns -> exists nl, map_res (y_node reg) ns = Ok nl.
Proof.
  induction ns as [|n ns IH]; intros H; [now exists []|].
  inversion H as [|? ? [_ [s Hs]] H2]; subst. destruct (IH H2) as [nl E].
  simpl. unfold y_node at 1. rewrite Hs. cbn [bind]. rewrite E. cbn [bind]. eauto.
Qed.

Lemma y_modules_ok : forall ns ms, Forall (ymodule_ok ns) ms -> exists ml, map_res (y_module reg) ms = Ok ml.
Proof.
  induction ms as [|m ms IH]; intros H; [now exists []|].
  inversion H as [|? ? ([s Hs] & _) H2]; subst. destruct (IH H2) as [ml E].
  simpl. unfold y_module at 1. rewrite Hs. cbn [bind]. rewrite E. cbn [bind]. eauto.
Qed.

Theorem yaml_roundtrip : forall g, yaml_ok g ->
  exists t, y_genome reg g = Ok t /\ y_read reg (yaml_lib il t) = Ok (ynorm_genome il g).
Proof.
  intros g [Hpar Htr Hid Hnodes Hmods].
  destruct (y_nodes_ok _ Hnodes) as [nl Hnl]. destruct (y_modules_ok _ _ Hmods) as [ml Hml].
  unfold y_genome. rewrite Hnl, Hml. cbn [bind]. eexists. split; [reflexivity|].
  assert (Ets : forall id, trait_ref id (map (ynorm_trait il) (traits g)) = trait_ref id (traits g)).
  { intros id. apply trait_ref_ids. apply ynorm_trait_ids. }
  assert (Ens : forall id, node_ref id (map (fun n => {| n_id := n_id n; n_type := n_type n; n_act := n_act n;
                 n_trait := trait_ref (oz_id (n_trait n)) (map (ynorm_trait il) (traits g)) |}) (nodes g)) = node_ref id (nodes g)).
  { intros id. apply node_ref_ids. rewrite map_map. reflexivity. }
  unfold y_read.
  destruct (modules g) as [|m0 ms0] eqn:Em.
  - injection Hml as <-.
    cbn [yaml_lib map fst snd app bind lookup String.eqb Ascii.eqb Bool.eqb to_int as_list].
    rewrite (yr_traits_lib (traits g) [] Hpar Htr). cbn [bind app].
    rewrite (yr_nodes_lib _ (nodes g) nl [] Hnodes Hnl Hid). cbn [bind app].
    rewrite yr_genes_lib. cbn [bind].
    unfold ynorm_genome. rewrite Em. cbn [map]. f_equal. f_equal. f_equal.
    + apply map_ext. intros n. unfold norm_node. now rewrite Ets.
    + apply map_ext. intros x. unfold ynorm_gene. now rewrite !Ens, Ets.
  - cbn [yaml_lib map fst snd app bind lookup String.eqb Ascii.eqb Bool.eqb to_int as_list].
    rewrite (yr_traits_lib (traits g) [] Hpar Htr). cbn [bind app].
    rewrite (yr_nodes_lib _ (nodes g) nl [] Hnodes Hnl Hid). cbn [bind app].
    rewrite yr_genes_lib. cbn [bind].
    assert (Hmods' : Forall (ymodule_ok (map (fun n => {| n_id := n_id n; n_type := n_type n; n_act := n_act n;
                 n_trait := trait_ref (oz_id (n_trait n)) (map (ynorm_trait il) (traits g)) |}) (nodes g))) (m0 :: ms0)).
    { eapply Forall_impl; [|exact Hmods]. intros m (A & B & C & D'). unfold ymodule_ok, link_ok in *.
      rewrite map_map. cbn [n_id]. repeat split; assumption. }
    rewrite (yr_modules_lib _ _ (m0 :: ms0) ml Hmods' Hml). cbn [bind].
    unfold ynorm_genome. rewrite Em. f_equal. f_equal; [f_equal|].
    + apply map_ext. intros n. unfold norm_node. now rewrite Ets.
    + apply map_ext. intros x. unfold ynorm_gene. now rewrite !Ens, Ets.
    + apply map_ext. intros m. unfold ynorm_module. now rewrite Ets.
Qed.

End Yaml.

(* the only thing the library may do to a float: nothing, when its integer reading is the float itself,
   numerically (so: exact weights up to the sign of zero) *)
Lemma lib_float_num : forall il f,
  (forall z, il f = Some z -> PrimFloat.eqb (f_of_Z z) f = true) ->
  lib_float il f = f \/ PrimFloat.eqb (lib_float il f) f = true.
Proof.
  intros il f H. unfold lib_float. destruct (il f) as [z|]; [right; now apply H | now left].
Qed.

Lemma il_g_num : forall f z, il_g f = Some z -> PrimFloat.eqb (f_of_Z z) f = true.
Proof.
  intros f z H. unfold il_g in H. destruct (PrimFloat.ltb (PrimFloat.abs f) _); [|discriminate].
  destruct (PrimFloat.eqb (f_of_Z (f_trunc_Z f)) f) eqn:E; [|discriminate]. injection H as <-. exact E.
Qed.

(* ================= gob: experiment ================= *)

Section Gob.
Variable reg : registry.
Hypothesis Hreg : reg_ok reg.

Definition norm_champion (c : champion) : rchampion :=
  {| rc_fit := c_fit c; rc_winner := c_winner c; rc_gen := c_gen c; rc_offspring := c_offspring c;
     rc_error := c_error c; rc_genome := norm_genome (c_genome c) |}.

Lemma dec_champion_enc : forall c s rest, plain_ok reg (c_genome c) ->
  enc_champion reg c = Ok s -> dec_champion reg (s ++ rest) = Ok (norm_champion c, rest).
Proof.
  intros c s rest Hok Hs. unfold enc_champion in Hs.
  destruct (plain_roundtrip_id reg (c_genome c) (gid (c_genome c)) Hreg Hok) as (ls & Hw & Hr).
  rewrite Hw in Hs. cbn [bind] in Hs. injection Hs as <-.
  unfold dec_champion, dbind, d_float, d_bool, d_int, d_bytes. cbn [app]. rewrite Hr. reflexivity.
Qed.

Definition with_champion {C C'} (g : generation C) (c : C') : generation C' :=
  {| gn_id := gn_id g; gn_executed := gn_executed g; gn_solved := gn_solved g; gn_fitness := gn_fitness g;
     gn_age := gn_age g; gn_complexity := gn_complexity g; gn_diversity := gn_diversity g; gn_evals := gn_evals g;
     gn_nodes := gn_nodes g; gn_genes := gn_genes g; gn_duration := gn_duration g; gn_trial := gn_trial g;
     gn_champion := c |}.

(* every generation has a champion whose genome the plain writer accepts *)
Definition gen_ok (g : generation (option champion)) : Prop :=
  exists c, gn_champion g = Some c /\ plain_ok reg (c_genome c).

Definition norm_generation (g : generation (option champion)) : option (generation rchampion) :=
  match gn_champion g with Some c => Some (with_champion g (norm_champion c)) | None => None end.

Lemma dec_generation_enc : forall g s rest, gen_ok g -> enc_generation reg g = Ok s ->
  exists g', norm_generation g = Some g' /\ dec_generation reg (s ++ rest) = Ok (g', rest).
Proof.
  intros g s rest (c & Hc & Hok) Hs. unfold enc_generation in Hs. rewrite Hc in Hs.
  destruct (enc_champion reg c) as [cs| | | | |] eqn:Ec; try discriminate. cbn [bind] in Hs. injection Hs as <-.
  unfold norm_generation. rewrite Hc. eexists. split; [reflexivity|].
  unfold dec_generation, dbind, d_int, d_time, d_bool, d_floats. cbn [app].
  rewrite (dec_champion_enc c cs rest Hok Ec). reflexivity.
Qed.

Fixpoint all_some {A} (l : list (option A)) : option (list A) :=
  match l with
  | [] => Some []
  | Some a :: l' => match all_some l' with Some r => Some (a :: r) | None => None end
  | None :: _ => None
  end.

Lemma dec_gens_enc : forall gs s rest, Forall gen_ok gs ->
  concat_res (map (enc_generation reg) gs) = Ok s ->
  exists gs', all_some (map norm_generation gs) = Some gs' /\
              dec_n (dec_generation reg) (length gs) (s ++ rest) = Ok (gs', rest).
Proof.
  induction gs as [|g gs IH]; intros s rest Hok Hs.
  - injection Hs as <-. exists []. split; reflexivity.
  - inversion Hok as [|? ? H1 H2]; subst. cbn [map concat_res] in Hs.
    destruct (enc_generation reg g) as [s1| | | | |] eqn:E1; try discriminate. cbn [bind] in Hs.
    destruct (concat_res (map (enc_generation reg) gs)) as [s2| | | | |] eqn:E2; try discriminate. cbn [bind] in Hs.
    injection Hs as <-.
    destruct (dec_generation_enc g s1 (s2 ++ rest) H1 E1) as (g' & Hg' & Hd).
    destruct (IH s2 rest H2 eq_refl) as (gs' & Hgs' & Hds).
    exists (g' :: gs'). split.
    + cbn [map all_some]. rewrite Hg', Hgs'. reflexivity.
    + cbn [length dec_n]. unfold dbind at 1. rewrite <- app_assoc, Hd. unfold dbind at 1. rewrite Hds. reflexivity.
Qed.

Lemma dec_count_len : forall A (d : D A) (l : list (generation (option champion))) s,
  dec_count d (zlen l) s = dec_n d (length l) s.
Proof.
  intros A d l s. unfold dec_count, zlen. destruct (Z.ltb (Z.of_nat (length l)) 0) eqn:E; [apply Z.ltb_lt in E; lia|].
  now rewrite Nat2Z.id.
Qed.

Definition norm_trial (t : trial (option champion)) : option (trial rchampion) :=
  match all_some (map norm_generation (tr_gens t)) with
  | Some gs => Some {| tr_id := tr_id t; tr_gens := gs |}
  | None => None
  end.

Lemma dec_trial_enc : forall t s rest, Forall gen_ok (tr_gens t) -> enc_trial reg t = Ok s ->
  exists t', norm_trial t = Some t' /\ dec_trial reg (s ++ rest) = Ok (t', rest).
Proof.
  intros t s rest Hok Hs. unfold enc_trial in Hs.
  destruct (concat_res (map (enc_generation reg) (tr_gens t))) as [gs| | | | |] eqn:E; try discriminate.
  cbn [bind] in Hs. injection Hs as <-.
  destruct (dec_gens_enc (tr_gens t) gs rest Hok E) as (gs' & Hgs' & Hd).
  unfold norm_trial. rewrite Hgs'. eexists. split; [reflexivity|].
  unfold dec_trial, dbind, d_int. cbn [app]. rewrite dec_count_len, Hd. reflexivity.
Qed.

Lemma dec_trials_enc : forall ts s rest, Forall (fun t => Forall gen_ok (tr_gens t)) ts ->
  concat_res (map (enc_trial reg) ts) = Ok s ->
  exists ts', all_some (map norm_trial ts) = Some ts' /\
              dec_n (dec_trial reg) (length ts) (s ++ rest) = Ok (ts', rest).
Proof.
  induction ts as [|t ts IH]; intros s rest Hok Hs.
  - injection Hs as <-. exists []. split; reflexivity.
  - inversion Hok as [|? ? H1 H2]; subst. cbn [map concat_res] in Hs.
    destruct (enc_trial reg t) as [s1| | | | |] eqn:E1; try discriminate. cbn [bind] in Hs.
    destruct (concat_res (map (enc_trial reg) ts)) as [s2| | | | |] eqn:E2; try discriminate. cbn [bind] in Hs.
    injection Hs as <-.
    destruct (dec_trial_enc t s1 (s2 ++ rest) H1 E1) as (t' & Ht' & Hd).
    destruct (IH s2 rest H2 eq_refl) as (ts' & Hts' & Hds).
    exists (t' :: ts'). split.
    + cbn [map all_some]. rewrite Ht', Hts'. reflexivity.
    + cbn [length dec_n]. unfold dbind at 1. rewrite <- app_assoc, Hd. unfold dbind at 1. rewrite Hds. reflexivity.
Qed.

Definition norm_experiment (e : experiment (option champion)) : option (experiment rchampion) :=
  match all_some (map norm_trial (ex_trials e)) with
  | Some ts => Some {| ex_id := ex_id e; ex_name := ex_name e; ex_trials := ts |}
  | None => None
  end.

Definition exp_ok (e : experiment (option champion)) : Prop :=
  Forall (fun t => Forall gen_ok (tr_gens t)) (ex_trials e).

(* the writer never fails on such an experiment *)
Lemma enc_experiment_ok : forall e, exp_ok e -> exists s, enc_experiment reg e = Ok s.
Proof.
  intros e H. unfold enc_experiment.
  assert (Ht : exists s, concat_res (map (enc_trial reg) (ex_trials e)) = Ok s).
  { unfold exp_ok in H. induction (ex_trials e) as [|t ts IH]; [now exists []|].
    inversion H as [|? ? H1 H2]; subst. destruct (IH H2) as [s2 E2]. cbn [map concat_res].
    assert (Hg : exists s, enc_trial reg t = Ok s).
    { unfold enc_trial.
      assert (Hgs : exists s, concat_res (map (enc_generation reg) (tr_gens t)) = Ok s).
      { induction (tr_gens t) as [|g gs IHg]; [now exists []|].
        inversion H1 as [|? ? (c & Hc & Hok) Hgs']; subst. destruct (IHg Hgs') as [s3 E3]. cbn [map concat_res].
        unfold enc_generation at 1. rewrite Hc. unfold enc_champion.
        destruct (plain_roundtrip reg (c_genome c) Hreg Hok) as (ls & Hw & _). rewrite Hw. cbn [bind].
        rewrite E3. cbn [bind]. eauto. }
      destruct Hgs as [s3 ->]. cbn [bind]. eauto. }
    destruct Hg as [s1 ->]. cbn [bind]. rewrite E2. cbn [bind]. eauto. }
  destruct Ht as [s ->]. cbn [bind]. eauto.
Qed.

Theorem experiment_roundtrip : forall e, exp_ok e ->
  exists s e', enc_experiment reg e = Ok s /\ norm_experiment e = Some e' /\ dec_experiment reg s = Ok (e', []).
Proof.
  intros e Hok. destruct (enc_experiment_ok e Hok) as [s Hs]. unfold enc_experiment in Hs.
  destruct (concat_res (map (enc_trial reg) (ex_trials e))) as [ts| | | | |] eqn:E; try discriminate.
  cbn [bind] in Hs. injection Hs as <-.
  destruct (dec_trials_enc (ex_trials e) ts [] Hok E) as (ts' & Hts' & Hd). rewrite app_nil_r in Hd.
  unfold enc_experiment. rewrite E. cbn [bind]. do 2 eexists. split; [reflexivity|].
  unfold norm_experiment. rewrite Hts'. split; [reflexivity|].
  unfold dec_experiment, dbind, d_int, d_str.
  unfold dec_count, zlen. destruct (Z.ltb (Z.of_nat (length (ex_trials e))) 0) eqn:El; [apply Z.ltb_lt in El; lia|].
  rewrite Nat2Z.id, Hd. reflexivity.
Qed.

(* ---- the recorded finding: a generation without champion makes the stream undecodable ---- *)

(* what can follow a generation in a stream: nothing, or an int (the next generation's / trial's id) *)
Definition no_float_next (s : list gval) : Prop := match s with [] => True | GInt _ :: _ => True | _ => False end.

Lemma dec_champion_no_float : forall s, no_float_next s -> exists c, dec_champion reg s = GoErr c.
Proof.
  intros s H. unfold dec_champion, dbind, d_float. destruct s as [|[z|f|b|x|t|l|ls] s]; simpl in H; try contradiction; eauto.
Qed.

Lemma dec_generation_nil_champion : forall g s rest, gn_champion g = None ->
  enc_generation reg g = Ok s -> no_float_next rest -> exists c, dec_generation reg (s ++ rest) = GoErr c.
Proof.
  intros g s rest Hn Hs Hrest. unfold enc_generation in Hs. rewrite Hn in Hs. cbn [bind] in Hs. injection Hs as <-.
  unfold dec_generation, dbind at 1 2 3 4 5 6 7 8 9 10 11 12, d_int, d_time, d_bool, d_floats. cbn [app].
  unfold dbind. destruct (dec_champion_no_float rest Hrest) as [c ->]. eauto.
Qed.

(* a decoder run ends in an error return or consumes exactly the values written for its item *)
Definition err_or_exact {A} (r : res (A * list gval)) (rest : list gval) : Prop :=
  (exists c, r = GoErr c) \/ (exists a, r = Ok (a, rest)).

Lemma dec_generation_some : forall g c s rest, gn_champion g = Some c -> enc_generation reg g = Ok s ->
  err_or_exact (dec_generation reg (s ++ rest)) rest.
Proof.
  intros g c s rest Hc Hs. unfold enc_generation in Hs. rewrite Hc in Hs. unfold enc_champion in Hs.
  destruct (write_genome reg (c_genome c)) as [ls| | | | |]; try discriminate. cbn [bind] in Hs. injection Hs as <-.
  unfold dec_generation, dec_champion, dbind, d_int, d_time, d_bool, d_floats, d_float, d_bytes. cbn [app].
  pose proof (read_genome_total reg ls) as T. unfold read_genome_id.
  destruct (read_genome reg ls) as [r| | | | |]; simpl in T; try contradiction; cbn [bind].
  - right. unfold dret. eauto.
  - left. eauto.
Qed.

Lemma enc_generation_head : forall g s, enc_generation reg g = Ok s -> exists tl, s = GInt (gn_id g) :: tl.
Proof.
  intros g s H. unfold enc_generation in H.
  destruct (match gn_champion g with Some c => enc_champion reg c | None => Ok [] end); try discriminate.
  cbn [bind] in H. injection H as <-. eauto.
Qed.

Lemma gens_stream_next : forall gs s rest, concat_res (map (enc_generation reg) gs) = Ok s ->
  no_float_next rest -> no_float_next (s ++ rest).
Proof.
  intros gs s rest H Hr. destruct gs as [|g gs]; [injection H as <-; exact Hr|].
  cbn [map concat_res] in H. destruct (enc_generation reg g) as [s1| | | | |] eqn:E; try discriminate. cbn [bind] in H.
  destruct (concat_res (map (enc_generation reg) gs)); try discriminate. cbn [bind] in H. injection H as <-.
  destruct (enc_generation_head g s1 E) as [tl ->]. exact I.
Qed.

Definition has_nil_gen (gs : list (generation (option champion))) : Prop :=
  exists g, In g gs /\ gn_champion g = None.

Lemma dec_gens_nil : forall gs s rest, has_nil_gen gs -> concat_res (map (enc_generation reg) gs) = Ok s ->
  no_float_next rest -> exists c, dec_n (dec_generation reg) (length gs) (s ++ rest) = GoErr c.
Proof.
  induction gs as [|g gs IH]; intros s rest (g0 & Hin & Hnil) Hs Hrest; [contradiction|].
  cbn [map concat_res] in Hs. destruct (enc_generation reg g) as [s1| | | | |] eqn:E1; try discriminate. cbn [bind] in Hs.
  destruct (concat_res (map (enc_generation reg) gs)) as [s2| | | | |] eqn:E2; try discriminate. cbn [bind] in Hs.
  injection Hs as <-. cbn [length dec_n]. unfold dbind at 1. rewrite <- app_assoc.
  destruct (gn_champion g) as [c|] eqn:Ec.
  - destruct (dec_generation_some g c s1 (s2 ++ rest) Ec E1) as [[code ->]|[g' ->]]; [eauto|].
    destruct Hin as [->|Hin]; [congruence|].
    destruct (IH s2 rest (ex_intro _ g0 (conj Hin Hnil)) eq_refl Hrest) as [code Hc].
    unfold dbind at 1. rewrite Hc. eauto.
  - destruct (dec_generation_nil_champion g s1 (s2 ++ rest) Ec E1 (gens_stream_next gs s2 rest E2 Hrest)) as [code ->]. eauto.
Qed.

Lemma dec_gens_any : forall gs s rest, concat_res (map (enc_generation reg) gs) = Ok s -> no_float_next rest ->
  err_or_exact (dec_n (dec_generation reg) (length gs) (s ++ rest)) rest.
Proof.
  induction gs as [|g gs IH]; intros s rest Hs Hrest.
  - injection Hs as <-. right. simpl. unfold dret. eauto.
  - cbn [map concat_res] in Hs. destruct (enc_generation reg g) as [s1| | | | |] eqn:E1; try discriminate. cbn [bind] in Hs.
    destruct (concat_res (map (enc_generation reg) gs)) as [s2| | | | |] eqn:E2; try discriminate. cbn [bind] in Hs.
    injection Hs as <-. cbn [length dec_n]. unfold dbind at 1. rewrite <- app_assoc.
    destruct (gn_champion g) as [c|] eqn:Ec.
    + destruct (dec_generation_some g c s1 (s2 ++ rest) Ec E1) as [[code ->]|[g' ->]]; [left; eauto|].
      unfold dbind at 1. destruct (IH s2 rest eq_refl Hrest) as [[code ->]|[l ->]]; [left; eauto|right]. unfold dret. eauto.
    + destruct (dec_generation_nil_champion g s1 (s2 ++ rest) Ec E1 (gens_stream_next gs s2 rest E2 Hrest)) as [code ->].
      left. eauto.
Qed.

Lemma enc_trial_head : forall t s, enc_trial reg t = Ok s -> exists tl, s = GInt (tr_id t) :: tl.
Proof.
  intros t s H. unfold enc_trial in H. destruct (concat_res (map (enc_generation reg) (tr_gens t))); try discriminate.
  cbn [bind] in H. injection H as <-. eauto.
Qed.

Lemma trials_stream_next : forall ts s, concat_res (map (enc_trial reg) ts) = Ok s -> no_float_next (s ++ []).
Proof.
  intros ts s H. rewrite app_nil_r. destruct ts as [|t ts]; [injection H as <-; exact I|].
  cbn [map concat_res] in H. destruct (enc_trial reg t) as [s1| | | | |] eqn:E; try discriminate. cbn [bind] in H.
  destruct (concat_res (map (enc_trial reg) ts)); try discriminate. cbn [bind] in H. injection H as <-.
  destruct (enc_trial_head t s1 E) as [tl ->]. exact I.
Qed.

Lemma dec_trial_any : forall t s rest, enc_trial reg t = Ok s -> no_float_next rest ->
  err_or_exact (dec_trial reg (s ++ rest)) rest /\
  (has_nil_gen (tr_gens t) -> exists c, dec_trial reg (s ++ rest) = GoErr c).
Proof.
  intros t s rest Hs Hrest. unfold enc_trial in Hs.
  destruct (concat_res (map (enc_generation reg) (tr_gens t))) as [gs| | | | |] eqn:E; try discriminate.
  cbn [bind] in Hs. injection Hs as <-. unfold dec_trial, dbind, d_int. cbn [app]. rewrite !dec_count_len. split.
  - destruct (dec_gens_any (tr_gens t) gs rest E Hrest) as [[c ->]|[l ->]]; [left; eauto|right].
    unfold dret. eauto.
  - intros Hnil. destruct (dec_gens_nil (tr_gens t) gs rest Hnil E Hrest) as [c ->]. eauto.
Qed.

Lemma dec_trials_nil : forall ts s,
  (exists t, In t ts /\ has_nil_gen (tr_gens t)) -> concat_res (map (enc_trial reg) ts) = Ok s ->
  exists c, dec_n (dec_trial reg) (length ts) s = GoErr c.
Proof.
  induction ts as [|t ts IH]; intros s (t0 & Hin & Hnil) Hs; [contradiction|].
  cbn [map concat_res] in Hs. destruct (enc_trial reg t) as [s1| | | | |] eqn:E1; try discriminate. cbn [bind] in Hs.
  destruct (concat_res (map (enc_trial reg) ts)) as [s2| | | | |] eqn:E2; try discriminate. cbn [bind] in Hs.
  injection Hs as <-. cbn [length dec_n]. unfold dbind at 1.
  pose proof (trials_stream_next ts s2 E2) as Hn. rewrite app_nil_r in Hn.
  destruct (dec_trial_any t s1 s2 E1 Hn) as [Hany Hbad].
  destruct Hin as [->|Hin].
  - destruct (Hbad Hnil) as [c ->]. eauto.
  - destruct Hany as [[c ->]|[t' ->]]; [eauto|].
    destruct (IH s2 (ex_intro _ t0 (conj Hin Hnil)) eq_refl) as [c Hc]. unfold dbind at 1. rewrite Hc. eauto.
Qed.

(* the recorded finding, at experiment level: whenever some generation has no champion, whatever the rest
   of the experiment looks like, what Experiment.Encode writes is rejected by Experiment.Decode *)
Theorem experiment_nil_champion_fails : forall e s,
  (exists t, In t (ex_trials e) /\ exists g, In g (tr_gens t) /\ gn_champion g = None) ->
  enc_experiment reg e = Ok s -> exists c, dec_experiment reg s = GoErr c.
Proof.
  intros e s Hnil Hs. unfold enc_experiment in Hs.
  destruct (concat_res (map (enc_trial reg) (ex_trials e))) as [ts| | | | |] eqn:E; try discriminate.
  cbn [bind] in Hs. injection Hs as <-.
  unfold dec_experiment, dbind at 1 2 3, d_int, d_str.
  unfold dec_count, zlen. destruct (Z.ltb (Z.of_nat (length (ex_trials e))) 0) eqn:El; [apply Z.ltb_lt in El; lia|].
  rewrite Nat2Z.id. unfold dbind. destruct (dec_trials_nil (ex_trials e) ts Hnil E) as [c ->]. eauto.
Qed.
End Gob.
